#!/bin/bash
# evalseeds.sh [-2] <Cxx>...: evaluates /tmp/seed-Cxx-out/{1,2,3} (-2: /tmp/seed2-Cxx-out, round 2) with evalseed.py; compact results to stdout
cd /verif
SRC=seed; TAG=s
if [ "$1" = "-2" ]; then SRC=seed2; TAG=r2s; shift; fi
if [ "$1" = "-3" ]; then SRC=seed3; TAG=r3s; shift; fi
if [ "$1" = "-4" ]; then SRC=seed4; TAG=r4s; shift; fi
if [ "$1" = "-5" ]; then SRC=seed5; TAG=r5s; shift; fi
if [ "$1" = "-6" ]; then SRC=seed6; TAG=r6s; shift; fi
if [ "$1" = "-7" ]; then SRC=seed7; TAG=r7s; shift; fi
if [ "$1" = "-8" ]; then SRC=seed8; TAG=r8s; shift; fi
if [ "$1" = "-9" ]; then SRC=seed9; TAG=r9s; shift; fi
if [ "$1" = "-10" ]; then SRC=seed10; TAG=r10s; shift; fi
if [ "$1" = "-11" ]; then SRC=seed11; TAG=r11s; shift; fi
if [ "$1" = "-12" ]; then SRC=seed12; TAG=r12s; shift; fi
if [ "$1" = "-13" ]; then SRC=seed13; TAG=r13s; shift; fi
for p in "$@"; do for i in 1 2 3 4; do
  [ -d /tmp/$SRC-$p-out/$i ] || continue
  rm -rf /tmp/seedsrc/$p/$TAG$i; mkdir -p /tmp/seedsrc/$p; cp -r /tmp/$SRC-$p-out/$i /tmp/seedsrc/$p/$TAG$i
  python3 evalseed.py $p /tmp/seedsrc/$p/$TAG$i 2>/dev/null > /tmp/seedsrc/$p/$TAG$i.json
  python3 - /tmp/seedsrc/$p/$TAG$i.json $p $TAG$i <<'PY'
import json,sys
try:
    m=json.load(open(sys.argv[1]))
    print(sys.argv[2], sys.argv[3], {k:m.get(k) for k in ['kept','suite_passes','demo_fails_with_change','demo_passes_without_change','check_exit']}, (m.get('check_violation_keys') or [])[:4])
except Exception as e:
    print(sys.argv[2], sys.argv[3], "EVAL-ERROR", e, open(sys.argv[1]).read()[-300:])
PY
done; done
