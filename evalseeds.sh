#!/bin/bash
# evalseeds.sh <Cxx>...: evaluates /tmp/seed-Cxx-out/{1,2,3} with evalseed.py; compact results to stdout
cd /verif
for p in "$@"; do for i in 1 2 3; do
  [ -d /tmp/seed-$p-out/$i ] || continue
  rm -rf /tmp/seedsrc/$p/s$i; mkdir -p /tmp/seedsrc/$p; cp -r /tmp/seed-$p-out/$i /tmp/seedsrc/$p/s$i
  python3 evalseed.py $p /tmp/seedsrc/$p/s$i 2>/dev/null > /tmp/seedsrc/$p/s$i.json
  python3 - /tmp/seedsrc/$p/s$i.json $p $i <<'PY'
import json,sys
try:
    m=json.load(open(sys.argv[1]))
    print(sys.argv[2], sys.argv[3], {k:m.get(k) for k in ['kept','suite_passes','demo_fails_with_change','demo_passes_without_change','check_exit']}, (m.get('check_violation_keys') or [])[:4])
except Exception as e:
    print(sys.argv[2], sys.argv[3], "EVAL-ERROR", e, open(sys.argv[1]).read()[-300:])
PY
done; done
