// Package dirtysw hands out slice writers over caller-owned storage that is not zero-filled
// (bits.NewFixedSliceWriterFromSlice over 0xA5 bytes): an encoder that advances over a byte without
// storing it (relying on the zero-filled buffer of bits.NewFixedSliceWriter) leaves a trace.
package dirtysw

import "github.com/Eyevinn/mp4ff/bits"

// New returns a writer with room for n bytes.
func New(n int) *bits.FixedSliceWriter {
	if n < 0 {
		n = 0
	}
	store := make([]byte, n)
	for i := range store {
		store[i] = 0xA5
	}
	return bits.NewFixedSliceWriterFromSlice(store)
}
