// Package treecmp is the structural comparator of the box-level monitors:
// a reflection-based deep comparison of two decoded trees including
// unexported fields, nil == empty for slices and maps, cycle-safe, with an
// optional set of ignored field names (position fields, used only where a
// listed size normalisation moved things). It is a copy of props/c19/cmp.go
// made shareable (no mp4ff import: everything goes through reflect).
package treecmp

import (
	"bytes"
	"fmt"
	"reflect"
	"sort"
	"strings"
	"sync"
)

// Options steer a comparison.
type Options struct {
	// Ignore is a set of struct field names that are skipped wherever they
	// occur (e.g. "StartPos").
	Ignore map[string]bool
	// AvcExtForBaseProfiles ignores the four avcC fields that have no
	// serialised form for profiles 66/77/88 (ISO/IEC 14496-15 5.3.3.1.2).
	AvcExtForBaseProfiles bool
	// Max is the maximum number of differences reported (default 8).
	Max int
}

// Positions is the ignore set for position fields.
func Positions() map[string]bool {
	return map[string]bool{"StartPos": true, "AnchorPoint": true, "readBoxSize": true}
}

// KeyPath returns a stable finding-key component for the first difference:
// the field path from the innermost typed node on, indices removed, e.g.
// "(ElngBox).missingFullBox".
func KeyPath(diffs []string) string {
	p := FirstPath(diffs)
	if i := strings.LastIndex(p, "("); i >= 0 {
		p = p[i:]
	}
	return p
}

const libPrefix = "github.com/Eyevinn/mp4ff/"

var (
	unknownMu      sync.Mutex
	unknownPrivate = map[string]bool{}
)

func noteUnknownPrivate(k string) {
	unknownMu.Lock()
	unknownPrivate[k] = true
	unknownMu.Unlock()
}

// UnknownPrivateField reports whether field i of struct type t is an unexported library field the
// comparators were not written against (a cache added to the library later, say): its meaning is
// unknown, so a difference in it is no verdict. Such fields are noted (see UnknownPrivate).
func UnknownPrivateField(t reflect.Type, i int) bool {
	sf := t.Field(i)
	if sf.PkgPath == "" || !strings.HasPrefix(sf.PkgPath, libPrefix) {
		return false
	}
	k := sf.PkgPath[len(libPrefix):] + "." + t.Name() + "." + sf.Name
	if knownPrivate[k] {
		return false
	}
	noteUnknownPrivate(k)
	return true
}

// UnknownPrivate returns the unexported library fields met so far that are not in the
// list the comparator was written against; they were left out of every comparison.
func UnknownPrivate() []string {
	unknownMu.Lock()
	defer unknownMu.Unlock()
	var out []string
	for k := range unknownPrivate {
		out = append(out, k)
	}
	sort.Strings(out)
	return out
}

type visitKey struct {
	a, b uintptr
	t    reflect.Type
}

type differ struct {
	o       Options
	diffs   []string
	visited map[visitKey]bool
}

// Diff returns the differences between a and b as "path: what" strings (nil
// when structurally equal).
func Diff(a, b interface{}, o Options) []string {
	if o.Max == 0 {
		o.Max = 8
	}
	d := &differ{o: o, visited: map[visitKey]bool{}}
	root := ""
	if v := reflect.ValueOf(a); v.IsValid() {
		root = "(" + shortType(v.Type()) + ")"
	}
	d.walk(reflect.ValueOf(a), reflect.ValueOf(b), root)
	return d.diffs
}

// FirstPath returns the field path of the first difference with indices
// removed (a stable finding-key component), "" if none.
func FirstPath(diffs []string) string {
	if len(diffs) == 0 {
		return ""
	}
	s := diffs[0]
	for i := 0; i < len(s); i++ {
		if s[i] == ':' {
			s = s[:i]
			break
		}
	}
	out := make([]byte, 0, len(s))
	skip := false
	for i := 0; i < len(s); i++ {
		switch {
		case s[i] == '[':
			skip = true
			out = append(out, '[', ']')
		case s[i] == ']':
			skip = false
		case !skip:
			out = append(out, s[i])
		}
	}
	return string(out)
}

func (d *differ) add(path, format string, args ...interface{}) {
	if len(d.diffs) < d.o.Max {
		d.diffs = append(d.diffs, path+": "+fmt.Sprintf(format, args...))
	}
}

func (d *differ) walk(a, b reflect.Value, path string) {
	if len(d.diffs) >= d.o.Max {
		return
	}
	if !a.IsValid() || !b.IsValid() {
		if a.IsValid() != b.IsValid() {
			d.add(path, "one side is missing")
		}
		return
	}
	if a.Type() != b.Type() {
		d.add(path, "type %s vs %s", a.Type(), b.Type())
		return
	}
	switch a.Kind() {
	case reflect.Ptr:
		if a.IsNil() || b.IsNil() {
			if a.IsNil() != b.IsNil() {
				d.add(path, "nil vs non-nil %s", a.Type())
			}
			return
		}
		k := visitKey{a.Pointer(), b.Pointer(), a.Type()}
		if d.visited[k] {
			return
		}
		d.visited[k] = true
		d.walk(a.Elem(), b.Elem(), path)
	case reflect.Interface:
		if a.IsNil() || b.IsNil() {
			if a.IsNil() != b.IsNil() {
				d.add(path, "nil vs non-nil interface")
			}
			return
		}
		ae, be := a.Elem(), b.Elem()
		if ae.Type() != be.Type() {
			d.add(path, "dynamic type %s vs %s", ae.Type(), be.Type())
			return
		}
		d.walk(ae, be, path+"("+shortType(ae.Type())+")")
	case reflect.Struct:
		t := a.Type()
		skipAvcExt := false
		if d.o.AvcExtForBaseProfiles && t.Name() == "DecConfRec" {
			if f := a.FieldByName("AVCProfileIndication"); f.IsValid() {
				switch f.Uint() {
				case 66, 77, 88:
					skipAvcExt = true
				}
			}
		}
		for i := 0; i < t.NumField(); i++ {
			name := t.Field(i).Name
			if d.o.Ignore[name] {
				continue
			}
			if UnknownPrivateField(t, i) {
				continue
			}
			if skipAvcExt && (name == "ChromaFormat" || name == "BitDepthLumaMinus1" || name == "BitDepthChromaMinus1" || name == "NumSPSExt") {
				continue
			}
			d.walk(a.Field(i), b.Field(i), path+"."+name)
		}
	case reflect.Slice:
		if a.Len() != b.Len() {
			d.add(path, "length %d vs %d", a.Len(), b.Len())
			return
		}
		if a.Type().Elem().Kind() == reflect.Uint8 {
			if !bytes.Equal(a.Bytes(), b.Bytes()) {
				d.add(path, "bytes %x vs %x", clip(a.Bytes()), clip(b.Bytes()))
			}
			return
		}
		for i := 0; i < a.Len(); i++ {
			d.walk(a.Index(i), b.Index(i), fmt.Sprintf("%s[%d]", path, i))
		}
	case reflect.Array:
		for i := 0; i < a.Len(); i++ {
			d.walk(a.Index(i), b.Index(i), fmt.Sprintf("%s[%d]", path, i))
		}
	case reflect.Map:
		if a.Len() != b.Len() {
			d.add(path, "map length %d vs %d", a.Len(), b.Len())
			return
		}
		for _, k := range a.MapKeys() {
			d.walk(a.MapIndex(k), b.MapIndex(k), fmt.Sprintf("%s[%v]", path, k))
		}
	case reflect.String:
		if a.String() != b.String() {
			d.add(path, "%q vs %q", clipS(a.String()), clipS(b.String()))
		}
	case reflect.Bool:
		if a.Bool() != b.Bool() {
			d.add(path, "%v vs %v", a.Bool(), b.Bool())
		}
	case reflect.Int, reflect.Int8, reflect.Int16, reflect.Int32, reflect.Int64:
		if a.Int() != b.Int() {
			d.add(path, "%d vs %d", a.Int(), b.Int())
		}
	case reflect.Uint, reflect.Uint8, reflect.Uint16, reflect.Uint32, reflect.Uint64, reflect.Uintptr:
		if a.Uint() != b.Uint() {
			d.add(path, "%d vs %d", a.Uint(), b.Uint())
		}
	case reflect.Float32, reflect.Float64:
		if a.Float() != b.Float() {
			d.add(path, "%v vs %v", a.Float(), b.Float())
		}
	}
}

func shortType(t reflect.Type) string {
	for t.Kind() == reflect.Ptr {
		t = t.Elem()
	}
	return t.Name()
}

func clip(b []byte) []byte {
	if len(b) > 48 {
		return b[:48]
	}
	return b
}

func clipS(s string) string {
	if len(s) > 64 {
		return s[:64]
	}
	return s
}
