// Package prog generates progressive (non-fragmented) ISO BMFF files for the
// monitors C08, C09, C10 and C11. It keeps its own ground-truth record of every
// sample (track, ordinal, payload bytes, duration, composition offset, sync
// flag, sdtp byte, chunk, sample-description id, file offset) and serializes
// the whole file itself, byte by byte, from that record: no mp4ff code is
// involved in producing File.Bytes, so oracles that compare against the record
// never depend on the library under test.
//
// Typical use:
//
//	es := prog.LoadEntries(env.RepoDir)            // real avc1/hvc1/mp4a sample entries (optional)
//	f := prog.RandomMovie(c.Rand, prog.MovieOptions{Entries: es})   // time-aligned multi-track movie
//	f := prog.RandomTables(c.Rand, prog.TableOptions{...})          // hostile table shapes
//	f.Bytes                                        // the encoded file
//	f.Tracks[i].Samples[j]                         // ground truth
//	f.Tracks[i].Tables                             // the run-length tables exactly as written
package prog

import (
	"encoding/binary"
	"fmt"
)

// Sample is the ground truth of one sample.
type Sample struct {
	Ordinal int    // 1-based sample number in its track
	Data    []byte // payload
	Dur     uint32
	Cto     int32 // composition time offset (0 when the track has no ctts)
	Sync    bool
	Sdtp    byte // raw sdtp byte (is_leading<<6 | depends_on<<4 | is_depended_on<<2 | has_redundancy)

	// derived by Build
	DecodeTime uint64
	Chunk      int    // 1-based chunk number in its track
	DescID     uint32 // sample description index of its chunk
	Offset     uint64 // absolute file offset of Data in File.Bytes
}

// SttsRun, CttsRun, StscEntry are table rows exactly as written.
type SttsRun struct{ Count, Delta uint32 }
type CttsRun struct {
	Count  uint32
	Offset int32
}
type StscEntry struct{ FirstChunk, SamplesPerChunk, DescID uint32 }

// ElstEntry is one edit.
type ElstEntry struct {
	SegmentDuration uint64
	MediaTime       int64
}

// Tables are the tables of a track exactly as serialized.
type Tables struct {
	Stts         []SttsRun
	Ctts         []CttsRun // nil when the track has no ctts
	Stsc         []StscEntry
	StszUniform  uint32   // non-zero: uniform size, Sizes not written
	Sizes        []uint32 // always filled (ground truth), written when StszUniform == 0
	Stss         []uint32 // written when Track.HasStss
	Sdtp         []byte   // written when Track.HasSdtp
	ChunkOffsets []uint64
}

// Track is one track: ground truth + shape choices.
type Track struct {
	ID        uint32
	Kind      string // "video" | "audio"
	Timescale uint32
	Samples   []Sample
	ChunkLens []int    // samples per chunk (sums to len(Samples))
	ChunkDesc []uint32 // sample description index per chunk
	Entries   [][]byte // stsd children (raw boxes); len = number of descriptions

	HasCtts     bool
	CttsVersion byte
	HasStss     bool // false: no stss box, every sample must have Sync=true
	HasSdtp     bool
	Co64        bool
	UniformStsz bool // use the uniform form when all sizes are equal and non-zero
	// SplitStts/SplitCtts/SplitStsc: cut points making runs non-maximal
	// ("uncompressed" entries). A value k in the list means: start a new run
	// at sample index k (stts/ctts) or at chunk index k (stsc), 0-based.
	SplitStts, SplitCtts, SplitStsc []int
	ZeroCountStts                   bool // an stts entry with sample_count 0 in front of every run started by SplitStts
	ZeroCountCtts                   bool // likewise for ctts and SplitCtts
	// EntriesEqualSamples: stts and ctts get exactly as many entries as there are samples without being
	// 1:1 (some entries cover two samples and are followed by an entry with sample_count 0)
	EntriesEqualSamples     bool // ctts
	EntriesEqualSamplesStts bool // stts (changes sample durations: set before anything is derived from them)
	// ShortPresentation > 0: the (last) edit presents only 1/ShortPresentation of the media, and tkhd.duration
	// is the sum of the edits (the media itself is longer)
	ShortPresentation int
	StblOrder         []string // order of the children after stsd; nil = default

	TkhdVersion, MdhdVersion, ElstVersion byte
	Elst                                  []ElstEntry // nil: no edts
	Width, Height                         uint16

	// filled by Build
	Tables        Tables
	TotalDuration uint64 // media timescale
	TkhdDuration  uint64 // movie timescale
}

// ChunkRef names one chunk of one track.
type ChunkRef struct{ Track, Chunk int } // 0-based track index, 0-based chunk index

// File is a generated progressive file.
type File struct {
	Tracks         []*Track
	MovieTimescale uint32
	MvhdVersion    byte
	MdatFirst      bool // mdat before moov
	LargeMdat      bool // 64-bit mdat header
	FreeAfterMoov  int  // payload bytes of a free box between moov and mdat (-1: none)
	ChunkOrder     []ChunkRef
	Gaps           []int // junk bytes in front of ChunkOrder[i]
	TrailingJunk   int   // junk bytes after the last chunk
	JunkByte       byte
	// MoovExtras: serialized non-trak boxes placed among the children of moov (nil: moov is mvhd followed by the
	// trak boxes). Slot 0 = in front of mvhd, slot k (1..len(Tracks)) = in front of the k-th trak, slot
	// len(Tracks)+1 = behind the last trak; several boxes of one slot keep their order.
	MoovExtras []MoovExtra

	// set by StretchedPieces on its private copy: a hole of stretchBy bytes in front of ChunkOrder[stretchAt]
	stretch    bool
	stretchAt  int
	stretchBy  uint64
	stretchAbs int // file position of the hole (filled by Build)

	// filled by Build
	Bytes            []byte
	MdatStart        int
	MdatHdrLen       int
	MdatPayloadLen   int
	MovieDuration    uint64
	MoovStart        int
	MoovSize         int
	DescriptionLabel string // short description of the shape for evidence
}

// ---------------------------------------------------------------------------
// serialization helpers

func u16(v uint16) []byte { b := make([]byte, 2); binary.BigEndian.PutUint16(b, v); return b }
func u32(v uint32) []byte { b := make([]byte, 4); binary.BigEndian.PutUint32(b, v); return b }
func u64(v uint64) []byte { b := make([]byte, 8); binary.BigEndian.PutUint64(b, v); return b }

func cat(parts ...[]byte) []byte {
	n := 0
	for _, p := range parts {
		n += len(p)
	}
	out := make([]byte, 0, n)
	for _, p := range parts {
		out = append(out, p...)
	}
	return out
}

// Box serializes a box with a compact header.
func Box(typ string, payload ...[]byte) []byte {
	body := cat(payload...)
	return cat(u32(uint32(8+len(body))), []byte(typ), body)
}

// FullBox serializes a full box.
func FullBox(typ string, version byte, flags uint32, payload ...[]byte) []byte {
	return Box(typ, append([][]byte{u32(uint32(version)<<24 | flags&0xffffff)}, payload...)...)
}

var unityMatrix = cat(u32(0x00010000), u32(0), u32(0), u32(0), u32(0x00010000), u32(0), u32(0), u32(0), u32(0x40000000))

func timesAndDur(version byte, id *uint32, timescale *uint32, dur uint64) []byte {
	var out []byte
	if version == 1 {
		out = cat(u64(0), u64(0))
	} else {
		out = cat(u32(0), u32(0))
	}
	if id != nil {
		out = cat(out, u32(*id), u32(0))
	}
	if timescale != nil {
		out = cat(out, u32(*timescale))
	}
	if version == 1 {
		out = cat(out, u64(dur))
	} else {
		out = cat(out, u32(uint32(dur)))
	}
	return out
}

func ceilDiv(a, b uint64) uint64 {
	if b == 0 {
		return 0
	}
	return (a + b - 1) / b
}

// computeTables derives the run-length tables (all but chunk offsets) and the
// per-sample derived fields from the ground truth.
func (t *Track) computeTables() error {
	n := len(t.Samples)
	sum := 0
	for _, l := range t.ChunkLens {
		if l <= 0 {
			return fmt.Errorf("chunk of %d samples", l)
		}
		sum += l
	}
	if sum != n || len(t.ChunkDesc) != len(t.ChunkLens) {
		return fmt.Errorf("chunk layout does not cover the %d samples", n)
	}
	cut := func(list []int) map[int]bool {
		m := map[int]bool{}
		for _, k := range list {
			m[k] = true
		}
		return m
	}
	tb := Tables{}
	// stts
	cs := cut(t.SplitStts)
	var dt uint64
	for i := range t.Samples {
		s := &t.Samples[i]
		s.Ordinal = i + 1
		s.DecodeTime = dt
		if t.EntriesEqualSamplesStts && n >= 3 {
			// as for ctts below: entry_count == sample count, but not one entry per sample
			if i%5 == 1 {
				s.Dur = t.Samples[i-1].Dur
				dt += uint64(s.Dur)
				tb.Stts[len(tb.Stts)-1].Count++
				tb.Stts = append(tb.Stts, SttsRun{0, s.Dur + 11})
				continue
			}
			dt += uint64(s.Dur)
			tb.Stts = append(tb.Stts, SttsRun{1, s.Dur})
			continue
		}
		dt += uint64(s.Dur)
		if k := len(tb.Stts); k > 0 && tb.Stts[k-1].Delta == s.Dur && !cs[i] {
			tb.Stts[k-1].Count++
		} else {
			if t.ZeroCountStts && cs[i] && i > 0 {
				// an entry that covers no sample (sample_count 0) in front of the new run
				tb.Stts = append(tb.Stts, SttsRun{0, s.Dur + 7})
			}
			tb.Stts = append(tb.Stts, SttsRun{1, s.Dur})
		}
	}
	t.TotalDuration = dt
	// ctts
	if t.HasCtts && t.EntriesEqualSamples && n >= 3 {
		// one entry per sample, except that every seventh pair shares an entry which is followed by an
		// entry with sample_count 0: entry_count equals the sample count although the table is not 1:1
		for i := 0; i < n; i++ {
			if i%7 == 0 && i+1 < n {
				t.Samples[i+1].Cto = t.Samples[i].Cto
				tb.Ctts = append(tb.Ctts, CttsRun{2, t.Samples[i].Cto}, CttsRun{0, t.Samples[i].Cto + 7777})
				i++
				continue
			}
			tb.Ctts = append(tb.Ctts, CttsRun{1, t.Samples[i].Cto})
		}
	} else if t.HasCtts {
		cc := cut(t.SplitCtts)
		for i := range t.Samples {
			s := &t.Samples[i]
			if k := len(tb.Ctts); k > 0 && tb.Ctts[k-1].Offset == s.Cto && !cc[i] {
				tb.Ctts[k-1].Count++
			} else {
				if t.ZeroCountCtts && cc[i] && i > 0 {
					// an entry that covers no sample in front of the new run
					tb.Ctts = append(tb.Ctts, CttsRun{0, s.Cto + 3})
				}
				tb.Ctts = append(tb.Ctts, CttsRun{1, s.Cto})
			}
		}
	} else {
		for i := range t.Samples {
			t.Samples[i].Cto = 0
		}
	}
	// stsz
	tb.Sizes = make([]uint32, n)
	allEq := n > 0
	for i := range t.Samples {
		tb.Sizes[i] = uint32(len(t.Samples[i].Data))
		if tb.Sizes[i] != tb.Sizes[0] {
			allEq = false
		}
	}
	if t.UniformStsz && allEq && tb.Sizes[0] != 0 {
		tb.StszUniform = tb.Sizes[0]
	}
	// stss
	if t.HasStss {
		tb.Stss = []uint32{}
		for i := range t.Samples {
			if t.Samples[i].Sync {
				tb.Stss = append(tb.Stss, uint32(i+1))
			}
		}
	} else {
		for i := range t.Samples {
			t.Samples[i].Sync = true
		}
	}
	// sdtp
	if t.HasSdtp {
		tb.Sdtp = make([]byte, n)
		for i := range t.Samples {
			tb.Sdtp[i] = t.Samples[i].Sdtp
		}
	} else {
		for i := range t.Samples {
			t.Samples[i].Sdtp = 0
		}
	}
	// stsc
	csc := cut(t.SplitStsc)
	k := 0
	for ci, l := range t.ChunkLens {
		d := t.ChunkDesc[ci]
		if d == 0 || int(d) > len(t.Entries) {
			return fmt.Errorf("chunk %d refers to description %d of %d", ci+1, d, len(t.Entries))
		}
		if m := len(tb.Stsc); m == 0 || tb.Stsc[m-1].SamplesPerChunk != uint32(l) || tb.Stsc[m-1].DescID != d || csc[ci] {
			tb.Stsc = append(tb.Stsc, StscEntry{uint32(ci + 1), uint32(l), d})
		}
		for j := 0; j < l; j++ {
			t.Samples[k].Chunk = ci + 1
			t.Samples[k].DescID = d
			k++
		}
	}
	tb.ChunkOffsets = make([]uint64, len(t.ChunkLens))
	t.Tables = tb
	return nil
}

func (t *Track) handler() string {
	if t.Kind == "video" {
		return "vide"
	}
	return "soun"
}

func (t *Track) stblBytes() []byte {
	tb := &t.Tables
	parts := map[string][]byte{}
	{
		var p [][]byte
		p = append(p, u32(uint32(len(tb.Stts))))
		for _, r := range tb.Stts {
			p = append(p, u32(r.Count), u32(r.Delta))
		}
		parts["stts"] = FullBox("stts", 0, 0, p...)
	}
	if t.HasCtts {
		var p [][]byte
		p = append(p, u32(uint32(len(tb.Ctts))))
		for _, r := range tb.Ctts {
			p = append(p, u32(r.Count), u32(uint32(r.Offset)))
		}
		parts["ctts"] = FullBox("ctts", t.CttsVersion, 0, p...)
	}
	if t.HasStss {
		var p [][]byte
		p = append(p, u32(uint32(len(tb.Stss))))
		for _, nr := range tb.Stss {
			p = append(p, u32(nr))
		}
		parts["stss"] = FullBox("stss", 0, 0, p...)
	}
	if t.HasSdtp {
		parts["sdtp"] = FullBox("sdtp", 0, 0, tb.Sdtp)
	}
	{
		var p [][]byte
		p = append(p, u32(uint32(len(tb.Stsc))))
		for _, e := range tb.Stsc {
			p = append(p, u32(e.FirstChunk), u32(e.SamplesPerChunk), u32(e.DescID))
		}
		parts["stsc"] = FullBox("stsc", 0, 0, p...)
	}
	{
		var p [][]byte
		p = append(p, u32(tb.StszUniform), u32(uint32(len(tb.Sizes))))
		if tb.StszUniform == 0 {
			for _, s := range tb.Sizes {
				p = append(p, u32(s))
			}
		}
		parts["stsz"] = FullBox("stsz", 0, 0, p...)
	}
	{
		var p [][]byte
		p = append(p, u32(uint32(len(tb.ChunkOffsets))))
		if t.Co64 {
			for _, o := range tb.ChunkOffsets {
				p = append(p, u64(o))
			}
			parts["co"] = FullBox("co64", 0, 0, p...)
		} else {
			for _, o := range tb.ChunkOffsets {
				p = append(p, u32(uint32(o)))
			}
			parts["co"] = FullBox("stco", 0, 0, p...)
		}
	}
	order := t.StblOrder
	if order == nil {
		order = []string{"stts", "ctts", "stss", "sdtp", "stsc", "stsz", "co"}
	}
	stsd := FullBox("stsd", 0, 0, append([][]byte{u32(uint32(len(t.Entries)))}, t.Entries...)...)
	out := [][]byte{stsd}
	for _, k := range order {
		if b, ok := parts[k]; ok {
			out = append(out, b)
		}
	}
	return Box("stbl", out...)
}

func (t *Track) trakBytes(movieTimescale uint32) []byte {
	flags := uint32(7)
	volume := uint16(0)
	var w, h uint32
	if t.Kind == "audio" {
		volume = 0x0100
	} else {
		w, h = uint32(t.Width)<<16, uint32(t.Height)<<16
	}
	tkhd := FullBox("tkhd", t.TkhdVersion, flags, timesAndDur(t.TkhdVersion, &t.ID, nil, t.TkhdDuration),
		u64(0), u16(0), u16(0), u16(volume), u16(0), unityMatrix, u32(w), u32(h))
	var edts []byte
	if t.Elst != nil {
		var p [][]byte
		p = append(p, u32(uint32(len(t.Elst))))
		for _, e := range t.Elst {
			if t.ElstVersion == 1 {
				p = append(p, u64(e.SegmentDuration), u64(uint64(e.MediaTime)))
			} else {
				p = append(p, u32(uint32(e.SegmentDuration)), u32(uint32(int32(e.MediaTime))))
			}
			p = append(p, u16(1), u16(0))
		}
		edts = Box("edts", FullBox("elst", t.ElstVersion, 0, p...))
	}
	mdhd := FullBox("mdhd", t.MdhdVersion, 0, timesAndDur(t.MdhdVersion, nil, &t.Timescale, t.TotalDuration), u16(0x55c4), u16(0))
	name := "verif " + t.Kind + " handler\x00"
	hdlr := FullBox("hdlr", 0, 0, u32(0), []byte(t.handler()), make([]byte, 12), []byte(name))
	var mh []byte
	if t.Kind == "video" {
		mh = FullBox("vmhd", 0, 1, make([]byte, 8))
	} else {
		mh = FullBox("smhd", 0, 0, make([]byte, 4))
	}
	dinf := Box("dinf", FullBox("dref", 0, 0, u32(1), FullBox("url ", 0, 1)))
	minf := Box("minf", mh, dinf, t.stblBytes())
	mdia := Box("mdia", mdhd, hdlr, minf)
	return Box("trak", tkhd, edts, mdia)
}

func (f *File) moovBytes() []byte {
	var next uint32 = 1
	for _, t := range f.Tracks {
		if t.ID >= next {
			next = t.ID + 1
		}
	}
	mvhd := FullBox("mvhd", f.MvhdVersion, 0, timesAndDur(f.MvhdVersion, nil, &f.MovieTimescale, f.MovieDuration),
		u32(0x00010000), u16(0x0100), u16(0), u64(0), unityMatrix, make([]byte, 24), u32(next))
	var parts [][]byte
	extras := func(slot int) {
		for _, e := range f.MoovExtras {
			if e.Slot == slot {
				parts = append(parts, e.Box)
			}
		}
	}
	extras(0)
	parts = append(parts, mvhd)
	for ti, t := range f.Tracks {
		extras(ti + 1)
		parts = append(parts, t.trakBytes(f.MovieTimescale))
	}
	extras(len(f.Tracks) + 1)
	return Box("moov", parts...)
}

// MoovExtra is one non-trak child of moov (see File.MoovExtras).
type MoovExtra struct {
	Slot int
	Type string // four-character code (for labels)
	Box  []byte // the serialized box
}

// MoovChildTypes lists the types of the children of moov in file order.
func (f *File) MoovChildTypes() []string {
	var out []string
	extras := func(slot int) {
		for _, e := range f.MoovExtras {
			if e.Slot == slot {
				out = append(out, e.Type)
			}
		}
	}
	extras(0)
	out = append(out, "mvhd")
	for ti := range f.Tracks {
		extras(ti + 1)
		out = append(out, "trak")
	}
	extras(len(f.Tracks) + 1)
	return out
}

// Build derives tables and offsets from the ground truth and serializes the
// file into f.Bytes.
func (f *File) Build() error {
	if f.MovieTimescale == 0 {
		return fmt.Errorf("movie timescale 0")
	}
	f.MovieDuration = 0
	for _, t := range f.Tracks {
		if err := t.computeTables(); err != nil {
			return fmt.Errorf("track %d: %w", t.ID, err)
		}
		t.TkhdDuration = ceilDiv(t.TotalDuration*uint64(f.MovieTimescale), uint64(t.Timescale))
		if t.ShortPresentation > 1 && len(t.Elst) > 0 {
			last := &t.Elst[len(t.Elst)-1]
			last.SegmentDuration = t.TkhdDuration / uint64(t.ShortPresentation)
			t.TkhdDuration = 0
			for _, e := range t.Elst {
				t.TkhdDuration += e.SegmentDuration
			}
		}
		if t.TkhdDuration > f.MovieDuration {
			f.MovieDuration = t.TkhdDuration
		}
	}
	// chunk order must name every chunk once
	seen := map[ChunkRef]bool{}
	total := 0
	for _, t := range f.Tracks {
		total += len(t.ChunkLens)
	}
	for _, cr := range f.ChunkOrder {
		if cr.Track < 0 || cr.Track >= len(f.Tracks) || cr.Chunk < 0 || cr.Chunk >= len(f.Tracks[cr.Track].ChunkLens) || seen[cr] {
			return fmt.Errorf("bad chunk order entry %+v", cr)
		}
		seen[cr] = true
	}
	if len(f.ChunkOrder) != total {
		return fmt.Errorf("chunk order names %d of %d chunks", len(f.ChunkOrder), total)
	}
	if len(f.Gaps) != len(f.ChunkOrder) {
		f.Gaps = make([]int, len(f.ChunkOrder))
	}
	ftyp := Box("ftyp", []byte("isom"), u32(0x200), []byte("isomiso2mp41"))
	moovLen := len(f.moovBytes()) // independent of the offset values
	var free []byte
	if f.FreeAfterMoov >= 0 && !f.MdatFirst {
		free = Box("free", make([]byte, f.FreeAfterMoov))
	}
	f.MdatHdrLen = 8
	if f.LargeMdat {
		f.MdatHdrLen = 16
	}
	if f.MdatFirst {
		f.MdatStart = len(ftyp)
	} else {
		f.MdatStart = len(ftyp) + moovLen + len(free)
	}
	// first sample index of each chunk
	firstOf := make([][]int, len(f.Tracks))
	for ti, t := range f.Tracks {
		k := 0
		for _, l := range t.ChunkLens {
			firstOf[ti] = append(firstOf[ti], k)
			k += l
		}
	}
	var payload []byte
	base := uint64(f.MdatStart + f.MdatHdrLen)
	for i, cr := range f.ChunkOrder {
		if f.stretch && i == f.stretchAt {
			f.stretchAbs = f.MdatStart + f.MdatHdrLen + len(payload)
			base += f.stretchBy
		}
		for j := 0; j < f.Gaps[i]; j++ {
			payload = append(payload, f.JunkByte)
		}
		t := f.Tracks[cr.Track]
		t.Tables.ChunkOffsets[cr.Chunk] = base + uint64(len(payload))
		k := firstOf[cr.Track][cr.Chunk]
		for j := 0; j < t.ChunkLens[cr.Chunk]; j++ {
			t.Samples[k+j].Offset = base + uint64(len(payload))
			payload = append(payload, t.Samples[k+j].Data...)
		}
	}
	for j := 0; j < f.TrailingJunk; j++ {
		payload = append(payload, f.JunkByte)
	}
	f.MdatPayloadLen = len(payload)
	var mdat []byte
	if f.LargeMdat {
		hole := uint64(0)
		if f.stretch {
			hole = f.stretchBy
		}
		mdat = cat(u32(1), []byte("mdat"), u64(uint64(16+len(payload))+hole), payload)
	} else {
		mdat = cat(u32(uint32(8+len(payload))), []byte("mdat"), payload)
	}
	moov := f.moovBytes()
	if len(moov) != moovLen {
		return fmt.Errorf("moov size changed between passes")
	}
	f.MoovSize = moovLen
	if f.MdatFirst {
		f.MoovStart = len(ftyp) + len(mdat)
		f.Bytes = cat(ftyp, mdat, moov)
	} else {
		f.MoovStart = len(ftyp)
		f.Bytes = cat(ftyp, moov, free, mdat)
	}
	return nil
}

// StretchedPieces returns the same movie as a file with a hole of `by` bytes
// inside the mdat payload in front of ChunkOrder[at] (the chunk offsets behind
// the hole and the mdat size grow by `by`): the bytes before the hole, the
// bytes behind it and the file position of the latter, for a sparse write. f
// itself is not changed. Needs a 64-bit mdat header and co64 in every track.
func (f *File) StretchedPieces(at int, by uint64) (prefix, suffix []byte, suffixAt int64, err error) {
	if !f.LargeMdat || at < 0 || at >= len(f.ChunkOrder) {
		return nil, nil, 0, fmt.Errorf("not stretchable")
	}
	g := *f
	g.Tracks = nil
	for _, t := range f.Tracks {
		if !t.Co64 {
			return nil, nil, 0, fmt.Errorf("track %d has 32-bit chunk offsets", t.ID)
		}
		t2 := *t
		t2.Samples = append([]Sample{}, t.Samples...)
		g.Tracks = append(g.Tracks, &t2)
	}
	g.stretch, g.stretchAt, g.stretchBy = true, at, by
	if err := g.Build(); err != nil {
		return nil, nil, 0, err
	}
	return g.Bytes[:g.stretchAbs], g.Bytes[g.stretchAbs:], int64(g.stretchAbs) + int64(by), nil
}

// NrChunks returns the number of chunks of the track.
func (t *Track) NrChunks() int { return len(t.ChunkLens) }

// ChunkFirstSample returns the 1-based number of the first sample of the
// 1-based chunk c.
func (t *Track) ChunkFirstSample(c int) int {
	k := 1
	for i := 0; i < c-1; i++ {
		k += t.ChunkLens[i]
	}
	return k
}
