package prog

import (
	"fmt"
	"math/big"
	"os"
	"path/filepath"
	"sort"
	"strings"

	"verifharness/ref/boxwalk"
	"verifharness/runner"
)

// EntrySet holds real sample entries (children of stsd) lifted byte-exactly
// from the repo's test files with the reference box walker.
type EntrySet struct {
	Video [][]byte // avc1, avc3, hvc1, hev1
	Audio [][]byte // mp4a
	Types map[string]int
}

var entryFiles = []string{
	"mp4/testdata/prog_8s.mp4", "mp4/testdata/bbb_prog_10s.mp4", "mp4/testdata/ed_hevc.mp4",
	"mp4/testdata/hvc1_init.mp4", "mp4/testdata/init.mp4", "mp4/testdata/aac_init.mp4",
	"mp4/testdata/init_prog.mp4", "mp4/testdata/golden_init_video.mp4",
	"cmd/mp4ff-nallister/testdata/h264.mp4", "cmd/mp4ff-nallister/testdata/hevc.mp4",
}

// LoadEntries harvests sample entries from the test files of the repo at
// repoDir. It returns nil when nothing could be harvested.
func LoadEntries(repoDir string) *EntrySet {
	es := &EntrySet{Types: map[string]int{}}
	seen := map[string]bool{}
	for _, rel := range entryFiles {
		b, err := os.ReadFile(filepath.Join(repoDir, rel))
		if err != nil {
			continue
		}
		nodes, err := boxwalk.Walk(b)
		if err != nil {
			continue
		}
		for _, stsd := range boxwalk.Find(nodes, "stsd") {
			for _, e := range stsd.Children {
				raw := append([]byte{}, e.Bytes(b)...)
				if seen[string(raw)] || len(raw) > 4096 {
					continue
				}
				switch e.Type {
				case "avc1", "avc3", "hvc1", "hev1":
					es.Video = append(es.Video, raw)
				case "mp4a":
					es.Audio = append(es.Audio, raw)
				default:
					continue
				}
				seen[string(raw)] = true
				es.Types[e.Type]++
			}
		}
	}
	if len(es.Video) == 0 || len(es.Audio) == 0 {
		return nil
	}
	return es
}

// OpaqueEntry is a minimal sample entry of an unregistered type (reserved,
// data_reference_index and a tag): enough for the sample tables to refer to.
func OpaqueEntry(kind string, tag byte) []byte {
	typ := "vrfa"
	if kind == "video" {
		typ = "vrfv"
	}
	return Box(typ, make([]byte, 6), u16(1), []byte{tag, 0, 0, 0})
}

func pickEntries(r *runner.Rand, es *EntrySet, kind string, n int) [][]byte {
	out := make([][]byte, n)
	for i := range out {
		switch {
		case es == nil:
			out[i] = OpaqueEntry(kind, byte(i+1))
		case kind == "video":
			out[i] = es.Video[r.Intn(len(es.Video))]
		default:
			out[i] = es.Audio[r.Intn(len(es.Audio))]
		}
	}
	return out
}

// stamp makes sample payloads recognisable: random bytes, and when there is
// room (track index, ordinal) in front.
func stamp(r *runner.Rand, track, ordinal, size int) []byte {
	d := r.Bytes(size)
	if size >= 4 {
		d[0] = byte(0xA0 + track)
		d[1] = byte(ordinal >> 16)
		d[2] = byte(ordinal >> 8)
		d[3] = byte(ordinal)
	}
	return d
}

var tableTimescales = []int{1, 10, 600, 1000, 1001, 12800, 15360, 24000, 25000, 30000, 44100, 48000, 90000, 10000000}

// TableOptions steer RandomTables.
type TableOptions struct {
	Entries         *EntrySet
	MaxTracks       int  // 1 or 2 (default 2)
	SmallN          int  // sample counts 1..SmallN are the common case (default 48)
	LargeN          int  // with probability LargeNum/LargeDen the count is SmallN+1..LargeN (0: never)
	LargeNum        int  // default 1
	LargeDen        int  // default 20
	PayloadBudget   int  // approximate bound of the mdat payload in bytes (default 4096)
	InteriorZeroDur bool // allow zero deltas before the last sample (outside ISO)
	BigDeltas       bool // allow deltas that push decode times beyond 2^32
	ZeroSizes       bool // allow zero-size samples
	ZeroCountStts   bool // allow stts entries with sample_count 0 (in front of split runs)
	Huge            bool // co64 in every track and a 64-bit mdat header (File.StretchedPieces applies)
}

func runsOf(r *runner.Rand, n int, maxRun int, value func() int64) []int64 {
	out := make([]int64, 0, n)
	for len(out) < n {
		l := r.Range(1, maxRun)
		v := value()
		for j := 0; j < l && len(out) < n; j++ {
			out = append(out, v)
		}
	}
	return out
}

func randomCuts(r *runner.Rand, n int) []int {
	var cuts []int
	k := r.Range(1, 4)
	for i := 0; i < k && n > 1; i++ {
		cuts = append(cuts, r.Range(1, n-1))
	}
	return cuts
}

func randomChunking(r *runner.Rand, n int, nDesc int) (lens []int, desc []uint32, label string) {
	mode := r.Intn(10)
	switch {
	case mode == 0:
		label = "one-per-sample"
		for i := 0; i < n; i++ {
			lens = append(lens, 1)
		}
	case mode == 1:
		label = "one-chunk"
		lens = []int{n}
	case mode == 2:
		label = "constant"
		spc := r.Range(2, 7)
		left := n
		for left > 0 {
			l := spc
			if l > left {
				l = left
			}
			lens = append(lens, l)
			left -= l
		}
	default:
		label = "runs"
		left := n
		for left > 0 {
			spc := r.Range(1, 7)
			rl := r.Range(1, 4)
			for j := 0; j < rl && left > 0; j++ {
				l := spc
				if l > left {
					l = left
				}
				lens = append(lens, l)
				left -= l
			}
		}
	}
	desc = make([]uint32, len(lens))
	if nDesc <= 1 {
		for i := range desc {
			desc[i] = 1
		}
		return
	}
	i := 0
	for i < len(desc) {
		d := uint32(r.Range(1, nDesc))
		rl := r.Range(1, 4)
		for j := 0; j < rl && i < len(desc); j++ {
			desc[i] = d
			i++
		}
	}
	return
}

// RandomTables generates a file whose tracks have independent, hostile but
// mutually consistent sample tables (the C09/C08 workload).
func RandomTables(r *runner.Rand, o TableOptions) *File {
	if o.MaxTracks == 0 {
		o.MaxTracks = 2
	}
	if o.SmallN == 0 {
		o.SmallN = 48
	}
	if o.LargeDen == 0 {
		o.LargeNum, o.LargeDen = 1, 20
	}
	if o.PayloadBudget == 0 {
		o.PayloadBudget = 4096
	}
	f := &File{MovieTimescale: uint32(r.PickInt(600, 1000, 90000, 10000000)), FreeAfterMoov: -1, JunkByte: 0xEE}
	nTracks := r.Range(1, o.MaxTracks)
	label := ""
	for ti := 0; ti < nTracks; ti++ {
		t := &Track{ID: uint32(ti + 1), Width: 64, Height: 48}
		if r.Chance(1, 8) {
			t.ID = uint32(ti*7 + 3)
		}
		t.Kind = r.PickStr("video", "audio")
		t.Timescale = uint32(tableTimescales[r.Intn(len(tableTimescales))])
		n := r.Range(1, o.SmallN)
		if r.Chance(1, 6) {
			n = r.Range(1, 6)
		}
		if o.LargeN > o.SmallN && ti == 0 && r.Chance(o.LargeNum, o.LargeDen) {
			n = r.Range(o.SmallN+1, o.LargeN)
		}
		// durations
		var durs []int64
		dmode := r.Intn(6)
		switch dmode {
		case 0:
			v := int64(r.Range(1, 4000))
			durs = runsOf(r, n, n, func() int64 { return v })
		case 1:
			durs = runsOf(r, n, 1, func() int64 { return int64(r.Range(1, 5)) })
		case 2:
			durs = runsOf(r, n, 1, func() int64 { return int64(r.Range(1, 3000)) })
		default:
			a, b := int64(r.Range(1, 2000)), int64(r.Range(1, 2000))
			durs = runsOf(r, n, 8, func() int64 {
				if r.Bool() {
					return a
				}
				if r.Bool() {
					return b
				}
				return int64(r.Range(1, 50))
			})
		}
		dl := fmt.Sprintf("d%d", dmode)
		if o.BigDeltas && r.Chance(1, 20) {
			for i := range durs {
				if r.Chance(1, 3) {
					durs[i] = int64(r.PickU64(1<<30, 1<<31, 1<<32-1, 3000000000))
				}
			}
			durs[r.Intn(n)] = 1<<32 - 1
			dl += "+big"
		}
		if o.InteriorZeroDur && n > 2 && r.Chance(1, 25) {
			durs[r.Intn(n-1)] = 0
			dl += "+izero"
		}
		if r.Chance(1, 7) {
			durs[n-1] = 0
			if n >= 2 && durs[n-2] == 0 {
				durs[n-2] = 1
			}
			dl += "+fzero"
		}
		// sizes
		budget := o.PayloadBudget / nTracks
		maxSize := budget / n
		if maxSize < 1 {
			maxSize = 1
		}
		if maxSize > 200 {
			maxSize = 200
		}
		sizes := make([]int, n)
		smode := r.Intn(5)
		switch smode {
		case 0:
			v := r.Range(1, maxSize)
			for i := range sizes {
				sizes[i] = v
			}
			t.UniformStsz = r.Chance(3, 4)
		case 1:
			for i := range sizes {
				sizes[i] = r.Range(1, 3)
			}
		default:
			for i := range sizes {
				sizes[i] = r.Range(1, maxSize)
			}
			t.UniformStsz = r.Bool()
		}
		if o.ZeroSizes && r.Chance(1, 12) {
			for i := range sizes {
				if r.Chance(1, 4) {
					sizes[i] = 0
				}
			}
		}
		// ctts
		var ctos []int64
		if r.Chance(2, 3) {
			t.HasCtts = true
			t.CttsVersion = byte(r.Intn(2))
			unit := int64(r.Range(1, 3000))
			ctos = runsOf(r, n, r.PickInt(1, 3, 8, n), func() int64 {
				v := int64(r.Intn(5)) * unit
				if t.CttsVersion == 1 && r.Chance(1, 3) {
					v = -v
				}
				if r.Chance(1, 30) {
					if t.CttsVersion == 1 {
						v = int64(r.PickInt(-2147483648, 2147483647, -1, 1))
					} else {
						v = int64(r.PickInt(2147483647, 1, 0))
					}
				}
				return v
			})
			if r.Chance(1, 4) {
				t.SplitCtts = randomCuts(r, n)
			}
		}
		// sync
		syncs := make([]bool, n)
		ymode := r.Intn(7)
		switch ymode {
		case 0, 1:
			t.HasStss = false
		case 2:
			t.HasStss = true
			for i := range syncs {
				syncs[i] = true
			}
		case 3:
			t.HasStss = true // no sync sample at all
		case 4:
			t.HasStss = true
			g := r.Range(1, 9)
			for i := range syncs {
				syncs[i] = i%g == 0
			}
		default:
			t.HasStss = true
			for i := range syncs {
				syncs[i] = r.Chance(1, 4)
			}
			if r.Bool() {
				syncs[n-1] = true
			}
		}
		t.HasSdtp = r.Chance(1, 3)
		for i := 0; i < n; i++ {
			s := Sample{Data: stamp(r, ti, i+1, sizes[i]), Dur: uint32(durs[i]), Sync: syncs[i]}
			if t.HasCtts {
				s.Cto = int32(ctos[i])
			}
			if t.HasSdtp {
				s.Sdtp = byte(r.Intn(256))
			}
			t.Samples = append(t.Samples, s)
		}
		nDesc := 1
		if r.Chance(2, 5) {
			nDesc = r.Range(2, 3)
		}
		t.Entries = pickEntries(r, o.Entries, t.Kind, nDesc)
		var cl string
		t.ChunkLens, t.ChunkDesc, cl = randomChunking(r, n, nDesc)
		if r.Chance(1, 4) {
			t.SplitStts = randomCuts(r, n)
			if o.ZeroCountStts && r.Chance(1, 3) {
				t.ZeroCountStts = true
			}
		}
		if o.ZeroCountStts && t.HasCtts && r.Chance(1, 6) {
			t.SplitCtts = randomCuts(r, n)
			t.ZeroCountCtts = true
		}
		if o.ZeroCountStts && r.Chance(1, 10) {
			t.EntriesEqualSamples = t.HasCtts
			t.EntriesEqualSamplesStts = r.Bool()
		}
		if r.Chance(1, 4) {
			t.SplitStsc = randomCuts(r, len(t.ChunkLens))
		}
		t.Co64 = r.Chance(1, 3)
		t.TkhdVersion = byte(r.Intn(2))
		t.MdhdVersion = byte(r.Intn(2))
		if r.Chance(1, 4) {
			t.StblOrder = []string{"stts", "stsc", "stsz", "co", "ctts", "stss", "sdtp"}
			if r.Bool() {
				t.StblOrder = []string{"stsz", "co", "stsc", "sdtp", "stss", "ctts", "stts"}
			}
		}
		f.Tracks = append(f.Tracks, t)
		label += fmt.Sprintf("[%s n=%d %s s%d y%d %s]", t.Kind, n, dl, smode, ymode, cl)
	}
	f.MvhdVersion = byte(r.Intn(2))
	f.MdatFirst = r.Chance(1, 3)
	f.LargeMdat = r.Chance(1, 3)
	if o.Huge {
		f.LargeMdat = true
		for _, t := range f.Tracks {
			t.Co64 = true
		}
	}
	if r.Chance(1, 5) {
		f.FreeAfterMoov = r.Intn(9)
	}
	f.ChunkOrder, label = chunkOrder(r, f, label, true)
	if r.Chance(1, 4) {
		f.Gaps = make([]int, len(f.ChunkOrder))
		for i := range f.Gaps {
			if r.Chance(1, 3) {
				f.Gaps[i] = r.Range(1, 5)
			}
		}
		f.TrailingJunk = r.Intn(4)
		label += "+gaps"
	}
	f.DescriptionLabel = label
	if err := f.Build(); err != nil {
		panic("prog.RandomTables: " + err.Error())
	}
	return f
}

// chunkOrder chooses how the chunks of the tracks are laid out in the mdat.
func chunkOrder(r *runner.Rand, f *File, label string, allowShuffle bool) ([]ChunkRef, string) {
	var order []ChunkRef
	mode := r.Intn(4)
	if !allowShuffle && mode == 3 {
		mode = r.Intn(3)
	}
	switch mode {
	case 0: // track after track
		label += "+seq"
		for ti, t := range f.Tracks {
			for c := range t.ChunkLens {
				order = append(order, ChunkRef{ti, c})
			}
		}
	case 1: // round robin
		label += "+rr"
		for c := 0; ; c++ {
			any := false
			for ti, t := range f.Tracks {
				if c < len(t.ChunkLens) {
					order = append(order, ChunkRef{ti, c})
					any = true
				}
			}
			if !any {
				break
			}
		}
	case 2: // by start time of the chunk (in seconds)
		label += "+time"
		type ct struct {
			cr ChunkRef
			t  float64
		}
		var l []ct
		for ti, t := range f.Tracks {
			k := 0
			var dt uint64
			for c, n := range t.ChunkLens {
				l = append(l, ct{ChunkRef{ti, c}, float64(dt) / float64(t.Timescale)})
				for j := 0; j < n; j++ {
					dt += uint64(t.Samples[k].Dur)
					k++
				}
			}
		}
		sort.SliceStable(l, func(a, b int) bool { return l[a].t < l[b].t })
		for _, e := range l {
			order = append(order, e.cr)
		}
	default: // arbitrary: chunk offsets of a track are not monotonic
		label += "+shuffled"
		for ti, t := range f.Tracks {
			for c := range t.ChunkLens {
				order = append(order, ChunkRef{ti, c})
			}
		}
		p := r.Perm(len(order))
		o2 := make([]ChunkRef, len(order))
		for i, j := range p {
			o2[i] = order[j]
		}
		order = o2
	}
	return order, label
}

// MovieOptions steer RandomMovie.
type MovieOptions struct {
	Entries     *EntrySet
	MaxTracks   int  // default 4
	MaxSamples  int  // per track (default 60)
	MultiDesc   bool // allow several sample descriptions per track
	Adversarial int  // probability in percent of the adversarial flavour (default 35)
	NoShuffle   bool // keep chunk offsets of every track increasing
	Huge        bool // co64 in every track and a 64-bit mdat header (File.StretchedPieces applies)
	// CarryProbe: track 1 is a video track with a time scale c near 2^32 that has a sync sample at decode time
	// T = ceil((k*2^64-(c-1))/t), k in 1..3, all other tracks are audio with time scale t < c-1: T*t falls in the last c-1
	// values below 2^64, where rounding the conversion T*t/c up carries out of the low 64-bit word.
	CarryProbe bool
	ZeroSizes  bool // some tracks have zero-size samples (whole chunks without a byte when chunks are small)
	LateSync   bool // some video tracks start inside a GOP: the first sync sample is not sample 1
	ShortEdits bool // some tracks with an edit list present only a part of their media (tkhd duration shorter than the media)
	// MoovExtras: two of three movies carry 1..4 non-trak boxes among the children of moov (udta with an unknown child
	// or empty, free, skip, iods, meta with hdlr, an unknown four-character code): between mvhd and the first trak,
	// between two traks (so that the trak boxes are not neighbours), behind the last trak, rarely in front of mvhd.
	// Drawn after everything else: the movie is otherwise the one the same PRNG state gives without the option.
	MoovExtras bool
	// AlignedEnds: a quarter of the tracks behind the first one (time scales below 10^6) end exactly where a sync sample
	// (not the first) of the first track starts: evenly long samples, the remainder in the last one.
	AlignedEnds bool
}

// randomMoovExtras draws the non-trak children of moov for a movie with nTracks tracks.
func randomMoovExtras(r *runner.Rand, nTracks int) []MoovExtra {
	var out []MoovExtra
	n := r.Range(1, 4)
	for i := 0; i < n; i++ {
		var e MoovExtra
		switch {
		case nTracks > 1 && r.Chance(1, 2):
			e.Slot = r.Range(2, nTracks) // between two traks
		case r.Chance(1, 12):
			e.Slot = 0
		default:
			e.Slot = r.PickInt(1, nTracks+1, nTracks+1)
		}
		e.Type = r.PickStr("udta", "udta", "free", "skip", "iods", "meta", "zzzz")
		switch e.Type {
		case "udta":
			if r.Chance(1, 4) {
				e.Box = Box("udta")
			} else {
				e.Box = Box("udta", Box("Xnam", r.Bytes(r.Range(0, 24))))
			}
		case "free", "skip":
			e.Box = Box(e.Type, make([]byte, r.Range(0, 40)))
		case "iods":
			e.Box = FullBox("iods", 0, 0, []byte{0x10, 0x07, 0x00, 0x4f, 0xff, 0xff, 0x0f, 0x7f, 0xff})
		case "meta":
			hdlr := FullBox("hdlr", 0, 0, u32(0), []byte("mdir"), make([]byte, 12), []byte("\x00"))
			e.Box = FullBox("meta", 0, 0, hdlr, Box("ilst"))
		default:
			e.Box = Box(e.Type, r.Bytes(r.Range(0, 32)))
		}
		out = append(out, e)
	}
	return out
}

// RandomMovie generates a multi-track movie whose tracks cover about the same
// presentation interval (the C10/C11 workload): 0..2 video tracks with GOP
// structure, 0..3 audio tracks, differing timescales.
func RandomMovie(r *runner.Rand, o MovieOptions) *File {
	if o.MaxTracks == 0 {
		o.MaxTracks = 4
	}
	if o.MaxSamples == 0 {
		o.MaxSamples = 60
	}
	if o.Adversarial == 0 {
		o.Adversarial = 35
	}
	f := &File{MovieTimescale: uint32(r.PickInt(1000, 600, 90000, 10000000, 1000)), FreeAfterMoov: -1, JunkByte: 0xEE}
	nTracks := r.Range(1, o.MaxTracks)
	var kinds []string
	nv, na := 0, 0
	for i := 0; i < nTracks; i++ {
		k := r.PickStr("video", "audio", "audio")
		if k == "video" && nv == 2 {
			k = "audio"
		}
		if k == "audio" && na == 3 {
			k = "video"
		}
		if k == "video" {
			nv++
		} else {
			na++
		}
		kinds = append(kinds, k)
	}
	adversarial := r.Intn(100) < o.Adversarial
	durMS := r.Range(200, 3000)
	var carryC, carryT, carryAt uint64
	if o.CarryProbe {
		adversarial = false
		pair := [][2]uint64{{4000000000, 3000000000}, {4000000000, 1 << 31}, {3000000000, 1 << 31}, {1<<32 - 1, 4000000000}, {1<<32 - 1, 3000000000}}[r.Intn(5)]
		carryC, carryT = pair[0], pair[1]
		// T = ceil((k*2^64-(c-1))/t) for k = 1..3 (the k-th wrap of the low word)
		num := new(big.Int).Lsh(big.NewInt(int64(r.Range(1, 3))), 64)
		num.Sub(num, new(big.Int).SetUint64(carryC-1))
		q, m := new(big.Int).DivMod(num, new(big.Int).SetUint64(carryT), new(big.Int))
		carryAt = q.Uint64()
		if m.Sign() != 0 {
			carryAt++
		}
		if len(kinds) < 2 {
			kinds = append(kinds, "audio")
		}
		kinds[0] = "video"
		for i := 1; i < len(kinds); i++ {
			kinds[i] = "audio"
		}
		if need := int(carryAt*1000/carryC) + 400; durMS < need {
			durMS = need
		}
	}
	label := fmt.Sprintf("D=%dms", durMS)
	if adversarial {
		label += " adversarial"
	}
	for ti, kind := range kinds {
		t := &Track{ID: uint32(ti + 1), Kind: kind, Width: 320, Height: 180}
		var durs []int64
		switch {
		case adversarial:
			t.Timescale = uint32(r.PickInt(1000, 1001, 90, 600, 12800, 44100, 48000, 90000, 25, 3000))
			total := int64(durMS) * int64(t.Timescale) / 1000
			if total < 2 {
				total = 2
			}
			avg := total / int64(r.Range(3, o.MaxSamples))
			if avg < 1 {
				avg = 1
			}
			var acc int64
			for acc < total && len(durs) < o.MaxSamples {
				rl := r.Range(1, 6)
				v := int64(r.Range(1, int(2*avg)))
				for j := 0; j < rl && acc < total && len(durs) < o.MaxSamples; j++ {
					durs = append(durs, v)
					acc += v
				}
			}
		case kind == "video":
			t.Timescale = uint32(r.PickInt(90000, 25000, 30000, 12800, 15360, 24000, 600, 1000, 10000000))
			if r.Chance(1, 12) {
				// huge timescale: decode times pass 2^32 ticks inside one stts run within a second or two
				t.Timescale = uint32(r.PickU64(4000000000, 1<<31, 3000000000))
			}
			fps := r.PickInt(5, 10, 15, 25)
			d := int64(t.Timescale) / int64(fps)
			n := int((int64(durMS)*int64(t.Timescale)/1000 + d - 1) / d)
			if n < 1 {
				n = 1
			}
			if n > o.MaxSamples {
				n = o.MaxSamples
			}
			for i := 0; i < n; i++ {
				durs = append(durs, d)
			}
			if r.Chance(1, 4) { // a few irregular frame durations
				for k := 0; k < 3; k++ {
					durs[r.Intn(n)] = d + int64(r.Range(1, int(d)))
				}
			}
			if o.CarryProbe && ti == 0 {
				t.Timescale = uint32(carryC)
				d = int64(carryC) / int64(fps)
				// samples 1..k span exactly carryAt ticks (each below 2^32), then regular frames
				durs = durs[:0]
				left := int64(carryAt)
				for left > 0 {
					v := int64(1<<32 - 1 - r.Intn(1000))
					if v > left {
						v = left
					}
					durs = append(durs, v)
					left -= v
				}
				carryAt = uint64(len(durs)) // from here on: index of the sample that starts at T
				for i := 0; i < 6; i++ {
					durs = append(durs, d)
				}
			}
		case o.CarryProbe:
			t.Timescale = uint32(carryT)
			total := int64(durMS) * int64(t.Timescale) / 1000
			nn := r.Range(20, o.MaxSamples)
			for i := 0; i < nn; i++ {
				durs = append(durs, total/int64(nn))
			}
		default:
			t.Timescale = uint32(r.PickInt(48000, 44100, 22050, 24000, 32000, 16000))
			d := int64(r.PickInt(1024, 1024, 2048, 960))
			n := int((int64(durMS)*int64(t.Timescale)/1000 + d - 1) / d)
			if n < 1 {
				n = 1
			}
			if n > o.MaxSamples {
				// coarser frames so that the track still spans the movie
				d = (int64(durMS)*int64(t.Timescale)/1000 + int64(o.MaxSamples) - 1) / int64(o.MaxSamples)
				n = o.MaxSamples
			}
			for i := 0; i < n; i++ {
				durs = append(durs, d)
			}
		}
		if o.AlignedEnds && ti > 0 && !o.CarryProbe && t.Timescale < 1000000 && f.Tracks[0].Timescale < 1000000 && r.Chance(1, 4) {
			t0 := f.Tracks[0]
			var cands []int64
			var at uint64
			for i, s := range t0.Samples {
				if v := at * uint64(t.Timescale); i > 0 && s.Sync && v%uint64(t0.Timescale) == 0 && v > 0 {
					cands = append(cands, int64(v/uint64(t0.Timescale)))
				}
				at += uint64(s.Dur)
			}
			if len(cands) > 0 {
				target := cands[r.Intn(len(cands))]
				d := durs[0]
				if d < 1 {
					d = 1
				}
				nn := target / d
				if nn < 1 {
					nn = 1
				}
				if nn > int64(o.MaxSamples) {
					nn = int64(o.MaxSamples)
				}
				durs = durs[:0]
				for i := int64(0); i < nn; i++ {
					durs = append(durs, target/nn)
				}
				durs[nn-1] += target - (target/nn)*nn
				label += " ends-at-a-sync-sample-of-track-1"
			}
		}
		n := len(durs)
		if r.Chance(1, 12) {
			durs[n-1] = 0 // final zero-duration sample
		}
		syncs := make([]bool, n)
		if kind == "video" {
			t.HasStss = r.Chance(5, 6)
			gop := r.PickInt(1, 2, 3, 5, 8, 12, n)
			for i := range syncs {
				syncs[i] = i%gop == 0
			}
			if adversarial && r.Chance(1, 3) {
				for i := range syncs {
					syncs[i] = i == 0 || r.Chance(1, 4)
				}
			}
			if o.CarryProbe && ti == 0 {
				t.HasStss = true
				for i := range syncs {
					syncs[i] = i == 0 || i == int(carryAt)
				}
			}
			if r.Chance(3, 5) {
				t.HasCtts = true
				t.CttsVersion = byte(r.Intn(2))
			}
			t.HasSdtp = r.Chance(1, 3)
		} else {
			t.HasStss = r.Chance(1, 8)
			for i := range syncs {
				syncs[i] = true
			}
			if t.HasStss && r.Chance(1, 2) {
				g := r.Range(2, 4)
				for i := range syncs {
					syncs[i] = i%g == 0
				}
			}
			t.HasCtts = r.Chance(1, 10)
			t.HasSdtp = r.Chance(1, 8)
		}
		unit := durs[0]
		if unit == 0 {
			unit = 1
		}
		if o.CarryProbe && unit > 1<<20 {
			unit = 1000 // composition offsets stay small next to the 2^32-sized leading durations
		}
		maxSize := 48
		if kind == "video" {
			maxSize = 120
		}
		for i := 0; i < n; i++ {
			s := Sample{Data: stamp(r, ti, i+1, r.Range(4, maxSize)), Dur: uint32(durs[i]), Sync: syncs[i]}
			if t.HasCtts {
				k := int64(r.Intn(4))
				if t.CttsVersion == 1 && r.Chance(1, 4) {
					k = -k
				}
				if syncs[i] && kind == "video" {
					k = 2
				}
				s.Cto = int32(k * unit)
			}
			if t.HasSdtp {
				s.Sdtp = byte(r.Intn(256))
			}
			t.Samples = append(t.Samples, s)
		}
		if r.Chance(1, 6) { // all samples the same size: uniform stsz
			sz := r.Range(4, maxSize)
			for i := range t.Samples {
				t.Samples[i].Data = stamp(r, ti, i+1, sz)
			}
			t.UniformStsz = true
		} else if o.ZeroSizes && r.Chance(1, 5) {
			for i := range t.Samples {
				if r.Chance(1, 3) {
					t.Samples[i].Data = nil
				}
			}
			label += " zero-size-samples"
		}
		if o.LateSync && kind == "video" && t.HasStss && n > 3 && r.Chance(1, 4) {
			k := r.Range(1, 2)
			for i := 0; i < k; i++ {
				t.Samples[i].Sync = false
			}
			t.Samples[k].Sync = true
			label += " first-sync-later"
		}
		nDesc := 1
		if o.MultiDesc && r.Chance(1, 4) {
			nDesc = r.Range(2, 3)
		}
		t.Entries = pickEntries(r, o.Entries, kind, nDesc)
		t.ChunkLens, t.ChunkDesc, _ = randomChunking(r, n, nDesc)
		if r.Chance(1, 6) {
			t.SplitStts = randomCuts(r, n)
			t.SplitStsc = randomCuts(r, len(t.ChunkLens))
			if t.HasCtts {
				t.SplitCtts = randomCuts(r, n)
			}
		}
		if o.ZeroSizes && t.HasCtts && r.Chance(1, 6) {
			t.EntriesEqualSamples = true
			label += " ctts-entries=samples"
		}
		t.Co64 = r.Chance(1, 3)
		t.TkhdVersion = byte(r.Intn(2))
		t.MdhdVersion = byte(r.Intn(2))
		{
			var total uint64
			for _, d := range durs {
				total += uint64(d)
			}
			if total >= 1<<32 {
				t.MdhdVersion = 1 // 64-bit duration needed
			}
		}
		if r.Chance(1, 3) {
			t.ElstVersion = byte(r.Intn(2))
			var total uint64
			for _, d := range durs {
				total += uint64(d)
			}
			seg := ceilDiv(total*uint64(f.MovieTimescale), uint64(t.Timescale))
			mt := int64(0)
			if t.HasCtts {
				mt = int64(t.Samples[0].Cto)
				if mt < 0 {
					mt = 0
				}
			}
			if r.Chance(1, 3) {
				t.Elst = []ElstEntry{{SegmentDuration: uint64(r.Range(1, 200)), MediaTime: -1}, {SegmentDuration: seg, MediaTime: mt}}
			} else {
				t.Elst = []ElstEntry{{SegmentDuration: seg, MediaTime: mt}}
			}
			if o.ShortEdits && ti > 0 && r.Chance(1, 3) {
				t.ShortPresentation = r.Range(2, 4)
				label += " short-edit"
			}
		}
		f.Tracks = append(f.Tracks, t)
		label += fmt.Sprintf(" [%s ts=%d n=%d stss=%v ctts=%v]", kind, t.Timescale, n, t.HasStss, t.HasCtts)
	}
	f.MvhdVersion = byte(r.Intn(2))
	f.MdatFirst = r.Chance(1, 3)
	f.LargeMdat = r.Chance(1, 4)
	if o.Huge {
		f.LargeMdat = true
		for _, t := range f.Tracks {
			t.Co64 = true
		}
	}
	if r.Chance(1, 5) {
		f.FreeAfterMoov = r.Intn(9)
	}
	f.ChunkOrder, label = chunkOrder(r, f, label, !o.NoShuffle && r.Chance(1, 3))
	if r.Chance(1, 5) {
		f.Gaps = make([]int, len(f.ChunkOrder))
		for i := range f.Gaps {
			if r.Chance(1, 3) {
				f.Gaps[i] = r.Range(1, 5)
			}
		}
		f.TrailingJunk = r.Intn(4)
		label += "+gaps"
	}
	if o.MoovExtras && r.Chance(2, 3) {
		f.MoovExtras = randomMoovExtras(r, len(f.Tracks))
		label += " moov=" + strings.Join(f.MoovChildTypes(), ",")
	}
	f.DescriptionLabel = label
	if err := f.Build(); err != nil {
		panic("prog.RandomMovie: " + err.Error())
	}
	return f
}
