package cencgen

import (
	"bytes"
	"crypto/sha256"
	"encoding/binary"
	"fmt"
	"verifharness/dirtysw"

	"github.com/Eyevinn/mp4ff/bits"
	"github.com/Eyevinn/mp4ff/mp4"
)

// LibOpt selects the variant of the library call protocol.
type LibOpt struct {
	SliceReader bool // DecodeFileSR instead of DecodeFile
	BoxTree     bool // encode the decrypted file with EncModeBoxTree (decrypt side only)
	Separate    bool // init segment and media segments handled as separate files
	Extract     bool // Separate only: protection data re-read from the encrypted init with ExtractInitProtectData
	EncodeSW    bool // serialise with File.EncodeSW (slice writer over caller-owned storage) instead of File.Encode
	// SinfFirst (encrypt side): after InitProtect the sinf box of every protected sample entry is moved in
	// front of the entry's other children (the order of a sample entry's child boxes is free; other
	// packagers do not put sinf last)
	SinfFirst bool
	// RotateKeys > 0: key rotation. The key is a parameter of every EncryptFragment and
	// DecryptSegment/DecryptFragment call; with rotation, fragment number g of the file
	// (0-based, counted over all segments in file order) is encrypted and decrypted with
	// RotKey(case key, g / RotateKeys), or RotKey(case key, KeyIdx[g]) where KeyIdx is set.
	// On the decryption side ONE DecryptInfo serves the whole file: a segment whose fragments
	// share one key is decrypted with DecryptSegment, any other segment fragment by fragment
	// with DecryptFragment. The tool paths cannot rotate.
	RotateKeys int
	KeyIdx     []int
	Rot        *RotStats // filled in by EncryptLib/DecryptLib when RotateKeys > 0
}

// RotStats reports what a rotating encryption/decryption did.
type RotStats struct {
	Fragments     int // fragments handled
	Keys          int // distinct keys used
	Switches      int // calls whose key differs from the key of the previous call (on the same InitProtectData / DecryptInfo)
	SegmentCalls  int // DecryptSegment calls
	FragmentCalls int // DecryptFragment calls
	last          int
	seen          map[int]bool
}

func (s *RotStats) use(idx int) {
	if s == nil {
		return
	}
	if s.seen == nil {
		s.seen = map[int]bool{}
		s.last = idx
	}
	if idx != s.last {
		s.Switches++
	}
	s.last = idx
	if !s.seen[idx] {
		s.seen[idx] = true
		s.Keys++
	}
}

// RotKey derives key number k from the case key: key 0 is the case key
// itself, key k > 0 the first 16 bytes of SHA-256(case key || "rot" || k).
func RotKey(base []byte, k int) []byte {
	if k == 0 {
		return base
	}
	var n [4]byte
	binary.BigEndian.PutUint32(n[:], uint32(k))
	h := sha256.Sum256(append(append(append([]byte(nil), base...), "rot"...), n[:]...))
	return h[:16]
}

// keyIndex is the number of the key of fragment g.
func (o LibOpt) keyIndex(g int) int {
	switch {
	case o.RotateKeys <= 0:
		return 0
	case o.KeyIdx != nil:
		if g < len(o.KeyIdx) {
			return o.KeyIdx[g]
		}
		return 0
	}
	return g / o.RotateKeys
}

func (o LibOpt) String() string {
	s := "reader"
	if o.SliceReader {
		s = "slicereader"
	}
	if o.BoxTree {
		s += "+boxtree"
	} else {
		s += "+segment"
	}
	if o.Separate {
		s += "+separate-init"
		if o.Extract {
			s += "+extract"
		}
	}
	if o.RotateKeys > 0 {
		s += "+rotate-keys"
	}
	return s
}

func decode(b []byte, sr bool) (*mp4.File, error) {
	// always work on a private copy: the slice-reader path aliases the input
	// buffer in mdat.Data and encryption/decryption is done in place
	b = append([]byte(nil), b...)
	if sr {
		return mp4.DecodeFileSR(bits.NewFixedSliceReader(b))
	}
	return mp4.DecodeFile(bytes.NewReader(b))
}

func encodeFile(f *mp4.File, sw bool) ([]byte, error) {
	if sw {
		// File.EncodeSW into caller-owned storage that is not zero-filled
		w := dirtysw.New(int(f.Size()) + 4096)
		if err := f.EncodeSW(w); err != nil {
			return nil, err
		}
		if err := w.AccError(); err != nil {
			return nil, err
		}
		return w.Bytes(), nil
	}
	var buf bytes.Buffer
	if err := f.Encode(&buf); err != nil {
		return nil, err
	}
	return buf.Bytes(), nil
}

// Reencode is the baseline: one plain decode->encode cycle in the given mode.
func Reencode(b []byte, o LibOpt) ([]byte, error) {
	f, err := decode(b, o.SliceReader)
	if err != nil {
		return nil, fmt.Errorf("decode: %w", err)
	}
	if o.BoxTree {
		f.FragEncMode = mp4.EncModeBoxTree
	}
	return encodeFile(f, o.EncodeSW)
}

// EncOut is the encoded result of an encryption.
type EncOut struct {
	Init  []byte // encrypted init segment (Separate) or nil
	Media []byte // encrypted media (Separate) or the whole encrypted file
}

// File returns init+media.
func (e *EncOut) File() []byte { return append(append([]byte(nil), e.Init...), e.Media...) }

// StageError tells in which step of the protocol an error occurred.
type StageError struct {
	Stage string
	Err   error
}

func (e *StageError) Error() string { return e.Stage + ": " + e.Err.Error() }

func stage(s string, err error) error { return &StageError{Stage: s, Err: err} }

// EncryptLib runs the library path of mp4ff-encrypt: decode, InitProtect,
// EncryptFragment on every fragment, encode (segment mode).
func EncryptLib(c *Case, cfg Config, o LibOpt) (*EncOut, error) {
	var psshs []*mp4.PsshBox
	if cfg.Pssh {
		var err error
		psshs, err = mp4.PsshBoxesFromBytes(PsshBytes(cfg))
		if err != nil {
			return nil, stage("pssh", err)
		}
	}
	kid := mp4.UUID(cfg.KID)
	if !o.Separate {
		f, err := decode(c.File(), o.SliceReader)
		if err != nil {
			return nil, stage("decode-clear", err)
		}
		if f.Init == nil {
			return nil, stage("decode-clear", fmt.Errorf("no init segment"))
		}
		ipd, err := mp4.InitProtect(f.Init, cfg.Key, cfg.IV, cfg.Scheme, kid, psshs)
		if err != nil {
			return nil, stage("InitProtect", err)
		}
		if o.SinfFirst {
			sinfFirst(f.Init)
		}
		g := 0
		for _, s := range f.Segments {
			for _, fr := range s.Fragments {
				k := o.keyIndex(g)
				o.Rot.use(k)
				if err := mp4.EncryptFragment(fr, RotKey(cfg.Key, k), cfg.IV, ipd); err != nil {
					return nil, stage("EncryptFragment", err)
				}
				g++
			}
		}
		if o.Rot != nil {
			o.Rot.Fragments = g
		}
		b, err := encodeFile(f, o.EncodeSW)
		if err != nil {
			return nil, stage("encode-encrypted", err)
		}
		return &EncOut{Media: b}, nil
	}
	fi, err := decode(c.Init, o.SliceReader)
	if err != nil || fi.Init == nil {
		return nil, stage("decode-clear-init", fmt.Errorf("%v", err))
	}
	ipd, err := mp4.InitProtect(fi.Init, cfg.Key, cfg.IV, cfg.Scheme, kid, psshs)
	if err != nil {
		return nil, stage("InitProtect", err)
	}
	if o.SinfFirst {
		sinfFirst(fi.Init)
	}
	encInit, err := encodeFile(fi, o.EncodeSW)
	if err != nil {
		return nil, stage("encode-encrypted-init", err)
	}
	if o.Extract {
		f2, err := decode(encInit, o.SliceReader)
		if err != nil || f2.Init == nil {
			return nil, stage("decode-encrypted-init", fmt.Errorf("%v", err))
		}
		ipd, err = mp4.ExtractInitProtectData(f2.Init)
		if err != nil {
			return nil, stage("ExtractInitProtectData", err)
		}
	}
	out := &EncOut{Init: encInit}
	g := 0
	for _, seg := range c.Segs {
		fm, err := decode(seg, o.SliceReader)
		if err != nil {
			return nil, stage("decode-clear-segment", err)
		}
		for _, s := range fm.Segments {
			for _, fr := range s.Fragments {
				k := o.keyIndex(g)
				o.Rot.use(k)
				if err := mp4.EncryptFragment(fr, RotKey(cfg.Key, k), cfg.IV, ipd); err != nil {
					return nil, stage("EncryptFragment", err)
				}
				g++
			}
		}
		if o.Rot != nil {
			o.Rot.Fragments = g
		}
		b, err := encodeFile(fm, o.EncodeSW)
		if err != nil {
			return nil, stage("encode-encrypted-segment", err)
		}
		out.Media = append(out.Media, b...)
	}
	return out, nil
}

// DecryptLib runs the library path of mp4ff-decrypt on an encrypted file:
// decode, DecryptInit, DecryptSegment on every segment, encode.
// For Separate, init is the encrypted init and media the encrypted media;
// the returned bytes are then the decrypted media only (and the decrypted
// init is returned separately).
func DecryptLib(init, media []byte, key []byte, o LibOpt) (decInit, decMedia []byte, err error) {
	if !o.Separate {
		f, err := decode(media, o.SliceReader)
		if err != nil {
			return nil, nil, stage("decode-encrypted", err)
		}
		if f.Init == nil {
			return nil, nil, stage("decode-encrypted", fmt.Errorf("no init segment"))
		}
		di, err := mp4.DecryptInit(f.Init)
		if err != nil {
			return nil, nil, stage("DecryptInit", err)
		}
		if err := o.decryptSegments(f.Segments, di, key); err != nil {
			return nil, nil, err
		}
		if o.BoxTree {
			f.FragEncMode = mp4.EncModeBoxTree
		}
		b, err := encodeFile(f, o.EncodeSW)
		if err != nil {
			return nil, nil, stage("encode-decrypted", err)
		}
		return nil, b, nil
	}
	fi, err := decode(init, o.SliceReader)
	if err != nil || fi.Init == nil {
		return nil, nil, stage("decode-encrypted-init", fmt.Errorf("%v", err))
	}
	di, err := mp4.DecryptInit(fi.Init)
	if err != nil {
		return nil, nil, stage("DecryptInit", err)
	}
	decInit, err = encodeFile(fi, o.EncodeSW)
	if err != nil {
		return nil, nil, stage("encode-decrypted-init", err)
	}
	fm, err := decode(media, o.SliceReader)
	if err != nil {
		return nil, nil, stage("decode-encrypted-media", err)
	}
	if err := o.decryptSegments(fm.Segments, di, key); err != nil {
		return nil, nil, err
	}
	if o.BoxTree {
		fm.FragEncMode = mp4.EncModeBoxTree
	}
	decMedia, err = encodeFile(fm, o.EncodeSW)
	if err != nil {
		return nil, nil, stage("encode-decrypted-media", err)
	}
	return decInit, decMedia, nil
}

// decryptSegments decrypts all segments of a file through ONE DecryptInfo.
// Without rotation: DecryptSegment(segment, di, key) for every segment. With
// rotation: see LibOpt.RotateKeys.
func (o LibOpt) decryptSegments(segs []*mp4.MediaSegment, di mp4.DecryptInfo, key []byte) error {
	g := 0
	for _, s := range segs {
		uniform := true
		for i := range s.Fragments {
			if o.keyIndex(g+i) != o.keyIndex(g) {
				uniform = false
			}
		}
		if uniform {
			k := o.keyIndex(g)
			if o.RotateKeys > 0 {
				o.Rot.use(k)
				if o.Rot != nil {
					o.Rot.SegmentCalls++
				}
			}
			if err := mp4.DecryptSegment(s, di, RotKey(key, k)); err != nil {
				return stage("DecryptSegment", err)
			}
		} else {
			for i, fr := range s.Fragments {
				k := o.keyIndex(g + i)
				o.Rot.use(k)
				if o.Rot != nil {
					o.Rot.FragmentCalls++
				}
				if err := mp4.DecryptFragment(fr, di, RotKey(key, k)); err != nil {
					return stage("DecryptFragment", err)
				}
			}
		}
		g += len(s.Fragments)
	}
	if o.Rot != nil {
		o.Rot.Fragments = g
	}
	return nil
}

// ReencodeToolLike is the baseline for the mp4ff-decrypt binary, which
// writes Init.Encode followed by Encode of every media segment (top-level
// sidx/mfra and anything outside init and segments are not written).
func ReencodeToolLike(b []byte) ([]byte, error) {
	f, err := decode(b, false)
	if err != nil {
		return nil, fmt.Errorf("decode: %w", err)
	}
	var buf bytes.Buffer
	if f.Init != nil {
		if err := f.Init.Encode(&buf); err != nil {
			return nil, err
		}
	}
	for _, s := range f.Segments {
		if err := s.Encode(&buf); err != nil {
			return nil, err
		}
	}
	return buf.Bytes(), nil
}

// DecodeCheck decodes b with both decoders and returns the first error.
func DecodeCheck(b []byte) error {
	if _, err := decode(b, false); err != nil {
		return fmt.Errorf("DecodeFile: %w", err)
	}
	if _, err := decode(b, true); err != nil {
		return fmt.Errorf("DecodeFileSR: %w", err)
	}
	return nil
}

// sinfFirst moves the sinf child of every protected sample entry to the front of its children.
func sinfFirst(init *mp4.InitSegment) {
	if init == nil || init.Moov == nil {
		return
	}
	front := func(ch []mp4.Box) {
		for i, b := range ch {
			if b.Type() == "sinf" {
				copy(ch[1:i+1], ch[:i])
				ch[0] = b
				return
			}
		}
	}
	for _, t := range init.Moov.Traks {
		if t.Mdia == nil || t.Mdia.Minf == nil || t.Mdia.Minf.Stbl == nil || t.Mdia.Minf.Stbl.Stsd == nil {
			continue
		}
		for _, e := range t.Mdia.Minf.Stbl.Stsd.Children {
			switch v := e.(type) {
			case *mp4.AudioSampleEntryBox:
				front(v.Children)
			case *mp4.VisualSampleEntryBox:
				front(v.Children)
			}
		}
	}
}
