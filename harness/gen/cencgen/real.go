package cencgen

import (
	"encoding/binary"
	"fmt"
	"os"
	"path/filepath"

	"verifharness/ref/boxwalk"
	"verifharness/ref/cenc"
)

// RealSpec names a clear single-track fragmented stream in the repo.
type RealSpec struct {
	Name  string
	Init  string // "" = the media file is self-contained
	Media string
}

// RealSpecs are the repo's clear single-track fragmented streams.
var RealSpecs = []RealSpec{
	{"avc1-init+1.m4s", "mp4/testdata/init.mp4", "mp4/testdata/1.m4s"},
	{"hvc1-init+seg1", "mp4/testdata/hvc1_init.mp4", "mp4/testdata/hvc1_seg_1.m4s"},
	{"aac-init+1.m4s", "mp4/testdata/aac_init.mp4", "mp4/testdata/aac_1.m4s"},
	{"aac-bbb5s.isma", "", "mp4/testdata/bbb5s_aac.isma"},
	{"avc1-testV300", "", "examples/resegmenter/testdata/testV300.mp4"},
	{"aac-cbcs_audiodec", "", "mp4/testdata/cbcs_audiodec.mp4"},
	{"avc1-piff-dec", "", "cmd/mp4ff-decrypt/testdata/PIFF/video/complseg-1.0001_dec.mp4"},
}

// LoadReal reads one real stream and derives its ground truth (sample
// positions through the reference readers, NAL boundaries from the 4-byte
// length fields, NAL classes from the type tables of the codec specs).
func LoadReal(repo string, spec RealSpec) (*Case, error) {
	c := &Case{Kind: "real", Name: spec.Name}
	media, err := os.ReadFile(filepath.Join(repo, spec.Media))
	if err != nil {
		return nil, err
	}
	if spec.Init != "" {
		if c.Init, err = os.ReadFile(filepath.Join(repo, spec.Init)); err != nil {
			return nil, err
		}
		c.Segs = [][]byte{media}
	} else {
		nodes, err := boxwalk.Walk(media)
		if err != nil {
			return nil, err
		}
		cut := -1
		for _, n := range nodes {
			if n.Type == "moov" {
				cut = n.End()
			}
		}
		if cut < 0 {
			return nil, fmt.Errorf("%s: no moov", spec.Name)
		}
		c.Init = media[:cut]
		c.Segs = [][]byte{media[cut:]}
	}
	file := c.File()
	nodes, err := boxwalk.Walk(file)
	if err != nil {
		return nil, err
	}
	prots, err := cenc.TrackProtections(file, nodes)
	if err != nil {
		return nil, err
	}
	if len(prots) != 1 {
		return nil, fmt.Errorf("%s: %d tracks", spec.Name, len(prots))
	}
	c.Codec = prots[0].EntryType
	c.TrackID = prots[0].TrackID
	fam := ""
	switch c.Codec {
	case "avc1", "avc3":
		c.Media, fam = "video", "avc"
	case "hvc1", "hev1":
		c.Media, fam = "video", "hevc"
	default:
		c.Media = "audio"
	}
	trex, err := cenc.TrexMap(file, nodes)
	if err != nil {
		return nil, err
	}
	for _, n := range nodes {
		if n.Type != "moof" {
			continue
		}
		trafs, err := cenc.LocateFragment(file, n, trex)
		if err != nil {
			return nil, err
		}
		if len(trafs) != 1 {
			return nil, fmt.Errorf("%s: %d trafs", spec.Name, len(trafs))
		}
		var fr Frag
		for _, s := range trafs[0].Samples() {
			gs := Sample{Data: file[s.Off : s.Off+int(s.Size)], Dur: s.Dur, Flags: s.Flags, Cto: int32(s.Cto), DecodeTime: s.DecodeTime}
			if fam != "" {
				if gs.NALs, err = SplitNALs(fam, gs.Data); err != nil {
					return nil, fmt.Errorf("%s: %v", spec.Name, err)
				}
			}
			fr.Samples = append(fr.Samples, gs)
		}
		c.Frags = append(c.Frags, fr)
	}
	if len(c.Frags) == 0 {
		return nil, fmt.Errorf("%s: no fragments", spec.Name)
	}
	return c, nil
}

// SplitNALs splits a sample with 4-byte length fields into NAL units and
// classifies them (ISO/IEC 14496-10 Table 7-1: types 1..5 are VCL;
// ISO/IEC 23008-2 Table 7-1: types 0..31 are VCL).
func SplitNALs(fam string, data []byte) ([]NAL, error) {
	var out []NAL
	pos := 0
	for pos < len(data) {
		if len(data)-pos < 4 {
			return nil, fmt.Errorf("stray %d bytes at the end of the sample", len(data)-pos)
		}
		l := int(binary.BigEndian.Uint32(data[pos:]))
		pos += 4
		if l <= 0 || pos+l > len(data) {
			return nil, fmt.Errorf("NAL length %d at %d of a %d-byte sample", l, pos-4, len(data))
		}
		n := NAL{Data: data[pos : pos+l]}
		if fam == "avc" {
			n.Type = int(n.Data[0] & 0x1f)
			n.VCL = n.Type >= 1 && n.Type <= 5
		} else {
			n.Type = int(n.Data[0]>>1) & 0x3f
			n.VCL = n.Type <= 31
		}
		out = append(out, n)
		pos += l
	}
	return out, nil
}

// ThirdPartySpec names an encrypted test file of the repo and its test key
// (keys from cmd/mp4ff-decrypt/main_test.go).
type ThirdPartySpec struct {
	Name   string
	Init   string // separate (encrypted) init segment, or ""
	Media  string
	KeyHex string
}

// ThirdParty are the repo's encrypted files.
var ThirdParty = []ThirdPartySpec{
	{"cenc-prog_8s_enc_dashinit", "", "mp4/testdata/prog_8s_enc_dashinit.mp4", "63cb5f7184dd4b689a5c5ff11ee6a328"},
	{"cbcs-video", "", "mp4/testdata/cbcs.mp4", "22bdb0063805260307ee5045c0f3835a"},
	{"cbcs-audio", "", "mp4/testdata/cbcs_audio.mp4", "5ffd93861fa776e96cccd934898fc1c8"},
	{"piff-audio", "cmd/mp4ff-decrypt/testdata/PIFF/audio/init.mp4", "cmd/mp4ff-decrypt/testdata/PIFF/audio/segment-1.0001.m4s", "602a9289bfb9b1995b75ac63f123fc86"},
	{"piff-video", "", "cmd/mp4ff-decrypt/testdata/PIFF/video/complseg-1.0001.mp4", "602a9289bfb9b1995b75ac63f123fc86"},
}

// LoadThirdParty reads the bytes of one encrypted file.
func LoadThirdParty(repo string, s ThirdPartySpec) (init, media []byte, err error) {
	if s.Init != "" {
		if init, err = os.ReadFile(filepath.Join(repo, s.Init)); err != nil {
			return nil, nil, err
		}
	}
	media, err = os.ReadFile(filepath.Join(repo, s.Media))
	return init, media, err
}
