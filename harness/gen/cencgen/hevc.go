package cencgen

import (
	"verifharness/ref/bitw"
	"verifharness/runner"
)

type hevcSPS struct {
	ID               int
	ChromaFormat     int
	SeparatePlanes   bool
	Width, Height    int
	Log2MaxPocLsb    int
	Log2MinCb        int // log2_min_luma_coding_block_size (3..)
	Log2DiffMaxMinCb int
	SAO              bool
	NumStRps         int // short-term RPS in the SPS (0..2), each with one negative picture
	TemporalMvp      bool
	NAL              []byte
}

type hevcPPS struct {
	ID, SPSID          int
	DependentSlices    bool
	OutputFlagPresent  bool
	NumExtraBits       int
	CabacInitPresent   bool
	NumRefL0, NumRefL1 int
	ChromaQpOffsets    bool
	WeightedPred       bool
	EntropySync        bool
	LoopFilterAcross   bool
	DeblockCtrl        bool
	DeblockOverride    bool
	PpsDeblockDisabled bool
	ListsModification  bool
	SliceHdrExt        bool
	NAL                []byte
}

type hevcParams struct {
	VPS    []byte
	SPS    *hevcSPS
	Decoy  *hevcSPS
	PPS    []*hevcPPS
	Traits []string
}

func putPTL(w *bitw.W) {
	w.Put(0, 2)           // general_profile_space
	w.Put(0, 1)           // general_tier_flag
	w.Put(1, 5)           // general_profile_idc = Main
	w.Put(0x60000000, 32) // compatibility flags
	w.Put(1, 1)           // progressive_source
	w.Put(0, 1)           // interlaced_source
	w.Put(0, 1)           // non_packed_constraint
	w.Put(1, 1)           // frame_only_constraint
	w.Put(0, 43)
	w.Put(0, 1)
	w.Put(93, 8) // general_level_idc
}

func hevcNALHdr(typ int) []byte { return []byte{byte(typ << 1), 1} }

func genHEVCVPS() []byte {
	w := &bitw.W{}
	w.Put(0, 4)
	w.Put(1, 1)
	w.Put(1, 1)
	w.Put(0, 6)
	w.Put(0, 3)
	w.Put(1, 1)
	w.Put(0xffff, 16)
	putPTL(w)
	w.Flag(true)
	w.UE(1)
	w.UE(0)
	w.UE(0)
	w.Put(0, 6)
	w.UE(0)
	w.Flag(false)
	w.Flag(false)
	w.TrailingBits()
	return append(hevcNALHdr(32), bitw.Escape(w.Bytes())...)
}

func putStRps1(w *bitw.W, idx int, deltaMinus1 int, used bool) {
	if idx != 0 {
		w.Flag(false) // inter_ref_pic_set_prediction_flag
	}
	w.UE(1) // num_negative_pics
	w.UE(0) // num_positive_pics
	w.UE(uint64(deltaMinus1))
	w.Flag(used)
}

func (s *hevcSPS) serialize() {
	w := &bitw.W{}
	w.Put(0, 4) // sps_video_parameter_set_id
	w.Put(0, 3) // sps_max_sub_layers_minus1
	w.Put(1, 1) // temporal_id_nesting
	putPTL(w)
	w.UE(uint64(s.ID))
	w.UE(uint64(s.ChromaFormat))
	if s.ChromaFormat == 3 {
		w.Flag(s.SeparatePlanes)
	}
	w.UE(uint64(s.Width))
	w.UE(uint64(s.Height))
	w.Flag(false) // conformance_window_flag
	w.UE(0)
	w.UE(0)
	w.UE(uint64(s.Log2MaxPocLsb - 4))
	w.Flag(true) // sps_sub_layer_ordering_info_present_flag
	w.UE(2)
	w.UE(0)
	w.UE(0)
	w.UE(uint64(s.Log2MinCb - 3))
	w.UE(uint64(s.Log2DiffMaxMinCb))
	w.UE(0) // log2_min_luma_transform_block_size_minus2
	w.UE(1) // log2_diff_max_min_luma_transform_block_size
	w.UE(1)
	w.UE(1)
	w.Flag(false) // scaling_list_enabled_flag
	w.Flag(false) // amp_enabled_flag
	w.Flag(s.SAO)
	w.Flag(false) // pcm_enabled_flag
	w.UE(uint64(s.NumStRps))
	for i := 0; i < s.NumStRps; i++ {
		putStRps1(w, i, i, true)
	}
	w.Flag(false) // long_term_ref_pics_present_flag
	w.Flag(s.TemporalMvp)
	w.Flag(true)  // strong_intra_smoothing_enabled_flag
	w.Flag(false) // vui_parameters_present_flag
	w.Flag(false) // sps_extension_present_flag
	w.TrailingBits()
	s.NAL = append(hevcNALHdr(33), bitw.Escape(w.Bytes())...)
}

func (p *hevcPPS) serialize() {
	w := &bitw.W{}
	w.UE(uint64(p.ID))
	w.UE(uint64(p.SPSID))
	w.Flag(p.DependentSlices)
	w.Flag(p.OutputFlagPresent)
	w.Put(uint64(p.NumExtraBits), 3)
	w.Flag(false) // sign_data_hiding_enabled_flag
	w.Flag(p.CabacInitPresent)
	w.UE(uint64(p.NumRefL0))
	w.UE(uint64(p.NumRefL1))
	w.SE(0)
	w.Flag(false) // constrained_intra_pred_flag
	w.Flag(false) // transform_skip_enabled_flag
	w.Flag(false) // cu_qp_delta_enabled_flag
	w.SE(0)
	w.SE(0)
	w.Flag(p.ChromaQpOffsets)
	w.Flag(p.WeightedPred)
	w.Flag(false) // weighted_bipred_flag
	w.Flag(false) // transquant_bypass_enabled_flag
	w.Flag(false) // tiles_enabled_flag
	w.Flag(p.EntropySync)
	w.Flag(p.LoopFilterAcross)
	w.Flag(p.DeblockCtrl)
	if p.DeblockCtrl {
		w.Flag(p.DeblockOverride)
		w.Flag(p.PpsDeblockDisabled)
		if !p.PpsDeblockDisabled {
			w.SE(1)
			w.SE(-1)
		}
	}
	w.Flag(false) // pps_scaling_list_data_present_flag
	w.Flag(p.ListsModification)
	w.UE(0) // log2_parallel_merge_level_minus2
	w.Flag(p.SliceHdrExt)
	w.Flag(false) // pps_extension_present_flag
	w.TrailingBits()
	p.NAL = append(hevcNALHdr(34), bitw.Escape(w.Bytes())...)
}

func genHEVCSPS(r *runner.Rand, id int) *hevcSPS {
	s := &hevcSPS{ID: id, ChromaFormat: 1, Log2MaxPocLsb: r.PickInt(4, 5, 8, 10, 16), Log2MinCb: 3,
		Log2DiffMaxMinCb: r.PickInt(0, 1, 2, 3), SAO: r.Bool(), NumStRps: r.PickInt(0, 1, 2), TemporalMvp: r.Bool()}
	s.Width = 8 * r.Range(2, 240)
	s.Height = 8 * r.Range(2, 135)
	if r.Chance(1, 8) {
		s.ChromaFormat = 3
		s.SeparatePlanes = r.Bool()
	} else if r.Chance(1, 10) {
		s.ChromaFormat = 0
	}
	s.serialize()
	return s
}

func genHEVCParams(r *runner.Rand) *hevcParams {
	hp := &hevcParams{VPS: genHEVCVPS()}
	spsID := r.PickInt(0, 0, 1, 5, 15)
	hp.SPS = genHEVCSPS(r, spsID)
	npps := r.PickInt(1, 1, 2)
	used := map[int]bool{}
	differ := false
	for i := 0; i < npps; i++ {
		var id int
		for {
			if r.Bool() {
				id = spsID
			} else {
				id = r.PickInt(0, 1, 2, 7, 16, 63)
			}
			if !used[id] {
				break
			}
			if r.Chance(1, 4) {
				id = r.Intn(64)
				if !used[id] {
					break
				}
			}
		}
		used[id] = true
		if id != spsID {
			differ = true
		}
		p := &hevcPPS{ID: id, SPSID: spsID, DependentSlices: r.Chance(1, 3), OutputFlagPresent: r.Chance(1, 3),
			NumExtraBits: r.PickInt(0, 0, 1, 2, 7), CabacInitPresent: r.Bool(), NumRefL0: r.PickInt(0, 0, 1), NumRefL1: r.PickInt(0, 1),
			ChromaQpOffsets: r.Chance(1, 3), WeightedPred: r.Chance(1, 5), EntropySync: r.Chance(1, 4), LoopFilterAcross: r.Bool(),
			DeblockCtrl: r.Bool(), DeblockOverride: r.Bool(), ListsModification: r.Chance(1, 4), SliceHdrExt: r.Chance(1, 5)}
		if p.DeblockCtrl && r.Chance(1, 4) {
			// slice_deblocking_filter_disabled_flag is then inferred as 1 when not overridden (§7.4.7.1)
			p.PpsDeblockDisabled = true
			hp.Traits = append(hp.Traits, "pps-deblocking-disabled")
		}
		p.serialize()
		hp.PPS = append(hp.PPS, p)
	}
	if differ {
		hp.Traits = append(hp.Traits, "ppsid!=spsid")
		for _, p := range hp.PPS {
			if p.ID != spsID && p.ID < 16 && r.Chance(2, 3) {
				hp.Decoy = genHEVCSPS(r, p.ID)
				hp.Traits = append(hp.Traits, "decoy-sps")
				break
			}
		}
	} else {
		hp.Traits = append(hp.Traits, "ppsid==spsid")
	}
	return hp
}

func ceilLog2(v int) int {
	n := 0
	for (1 << uint(n)) < v {
		n++
	}
	return n
}

type hevcSliceOpts struct {
	IDR   bool
	First bool
	Total int
}

func genHEVCSlice(r *runner.Rand, hp *hevcParams, o hevcSliceOpts) NAL {
	sps := hp.SPS
	pps := hp.PPS[r.Intn(len(hp.PPS))]
	nalType := r.PickInt(0, 1, 1)
	if o.IDR {
		nalType = r.PickInt(19, 20, 21, 16)
	}
	isIDR := nalType == 19 || nalType == 20
	w := &bitw.W{}
	w.Flag(o.First)
	if nalType >= 16 && nalType <= 23 {
		w.Flag(r.Bool())
	}
	w.UE(uint64(pps.ID))
	dependent := false
	if !o.First {
		if pps.DependentSlices {
			dependent = r.Chance(1, 3)
			w.Flag(dependent)
		}
		ctb := 1 << uint(sps.Log2MinCb+sps.Log2DiffMaxMinCb)
		n := ((sps.Width + ctb - 1) / ctb) * ((sps.Height + ctb - 1) / ctb)
		bits := ceilLog2(n)
		addr := 0
		if n > 1 {
			addr = 1 + r.Intn(n-1)
		}
		w.Put(uint64(addr), bits)
	}
	if !dependent {
		for i := 0; i < pps.NumExtraBits; i++ {
			w.Flag(r.Bool())
		}
		st := 2 // I
		if !o.IDR {
			st = r.PickInt(1, 1, 2) // P or I
		}
		w.UE(uint64(st))
		if pps.OutputFlagPresent {
			w.Flag(r.Bool())
		}
		if sps.SeparatePlanes {
			w.Put(uint64(r.Intn(3)), 2)
		}
		numPicTotalCurr := 0
		temporalMvp := false
		if !isIDR {
			lsb := r.Uint64() & (1<<uint(sps.Log2MaxPocLsb) - 1)
			if r.Chance(1, 3) {
				lsb = 0
			}
			w.Put(lsb, sps.Log2MaxPocLsb)
			fromSPS := sps.NumStRps > 0 && r.Bool()
			w.Flag(fromSPS)
			if !fromSPS {
				used := r.Bool()
				putStRps1(w, sps.NumStRps, r.Intn(3), used)
				if used {
					numPicTotalCurr = 1
				}
			} else {
				if sps.NumStRps > 1 {
					w.Put(uint64(r.Intn(sps.NumStRps)), ceilLog2(sps.NumStRps))
				}
				numPicTotalCurr = 1
			}
			if sps.TemporalMvp {
				temporalMvp = r.Bool()
				w.Flag(temporalMvp)
			}
		}
		saoL, saoC := false, false
		if sps.SAO {
			saoL = r.Bool()
			w.Flag(saoL)
			if sps.ChromaFormat != 0 && !(sps.SeparatePlanes && sps.ChromaFormat == 3) {
				saoC = r.Bool()
				w.Flag(saoC)
			}
		}
		if st == 1 {
			nl0 := pps.NumRefL0
			ov := r.Bool()
			w.Flag(ov)
			if ov {
				nl0 = r.Intn(3)
				w.UE(uint64(nl0))
			}
			_ = numPicTotalCurr // lists_modification needs NumPicTotalCurr > 1, which the generated RPS never reach
			if pps.CabacInitPresent {
				w.Flag(r.Bool())
			}
			if temporalMvp && nl0 > 0 {
				w.UE(uint64(r.Intn(nl0 + 1)))
			}
			if pps.WeightedPred {
				chroma := sps.ChromaFormat != 0 && !(sps.SeparatePlanes && sps.ChromaFormat == 3)
				w.UE(uint64(r.Intn(8)))
				if chroma {
					w.SE(int64(r.Range(-2, 2)))
				}
				lf := make([]bool, nl0+1)
				cf := make([]bool, nl0+1)
				for i := range lf {
					lf[i] = r.Bool()
					w.Flag(lf[i])
				}
				if chroma {
					for i := range cf {
						cf[i] = r.Bool()
						w.Flag(cf[i])
					}
				}
				for i := range lf {
					if lf[i] {
						w.SE(int64(r.Range(-128, 127)))
						w.SE(int64(r.Range(-128, 127)))
					}
					if cf[i] {
						for j := 0; j < 2; j++ {
							w.SE(int64(r.Range(-128, 127)))
							w.SE(int64(r.Range(-512, 511)))
						}
					}
				}
			}
			w.UE(uint64(r.Intn(5))) // five_minus_max_num_merge_cand
		}
		w.SE(int64(r.Range(-20, 20)))
		if pps.ChromaQpOffsets {
			w.SE(int64(r.Range(-12, 12)))
			w.SE(int64(r.Range(-12, 12)))
		}
		override := false
		if pps.DeblockCtrl && pps.DeblockOverride {
			override = r.Bool()
			w.Flag(override)
		}
		disabled := pps.DeblockCtrl && pps.PpsDeblockDisabled
		if override {
			disabled = r.Bool()
			w.Flag(disabled)
			if !disabled {
				w.SE(int64(r.Range(-6, 6)))
				w.SE(int64(r.Range(-6, 6)))
			}
		}
		if pps.LoopFilterAcross && (saoL || saoC || !disabled) {
			w.Flag(r.Bool())
		}
	}
	if pps.EntropySync {
		n := r.PickInt(0, 0, 1, 3)
		w.UE(uint64(n))
		if n > 0 {
			lenm1 := r.PickInt(0, 7, 15, 31)
			w.UE(uint64(lenm1))
			for i := 0; i < n; i++ {
				w.Put(r.Uint64()&(1<<uint(lenm1+1)-1), lenm1+1)
			}
		}
	}
	if pps.SliceHdrExt {
		n := r.PickInt(0, 1, 3)
		w.UE(uint64(n))
		for i := 0; i < n; i++ {
			w.Put(uint64(r.Intn(256)), 8)
		}
	}
	// byte_alignment()
	w.Put(1, 1)
	for w.NBits()%8 != 0 {
		w.Put(0, 1)
	}
	hdrBits := w.NBits()
	h := hevcNALHdr(nalType)
	return finishSlice(r, h[0], h[1:], w.Bytes(), hdrBits, o.Total, nalType, 2)
}
