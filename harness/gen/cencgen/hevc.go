package cencgen

import (
	"bytes"
	"fmt"

	"verifharness/ref/bitw"
	"verifharness/ref/h265"
	"verifharness/runner"
)

// hevcRPS is one explicitly coded st_ref_pic_set( ) (7.3.7). Inter RPS
// prediction is never used by this generator.
type hevcRPS struct {
	D0, D1 []int  // delta_poc_s0_minus1 / delta_poc_s1_minus1
	U0, U1 []bool // used_by_curr_pic_s0_flag / used_by_curr_pic_s1_flag
}

func countTrue(b []bool) int {
	n := 0
	for _, v := range b {
		if v {
			n++
		}
	}
	return n
}

// used returns the number of pictures before / after the current one that are used by it.
func (p hevcRPS) used() (int, int) { return countTrue(p.U0), countTrue(p.U1) }

func (p hevcRPS) ref() *h265.STRPS {
	s := &h265.STRPS{UsedS0: append([]bool(nil), p.U0...), UsedS1: append([]bool(nil), p.U1...)}
	for _, d := range p.D0 {
		s.DeltaPocS0Minus1 = append(s.DeltaPocS0Minus1, uint64(d))
	}
	for _, d := range p.D1 {
		s.DeltaPocS1Minus1 = append(s.DeltaPocS1Minus1, uint64(d))
	}
	return s
}

type hevcSPS struct {
	ID               int
	ChromaFormat     int
	SeparatePlanes   bool
	Width, Height    int
	Log2MaxPocLsb    int
	Log2MinCb        int // log2_min_luma_coding_block_size (3..)
	Log2DiffMaxMinCb int
	SAO              bool
	NumStRps         int // short-term RPS in the SPS
	TemporalMvp      bool
	// reference-picture shapes (Shape.RefPics); zero values = the plain shape
	ExtraDpb int       // sps_max_dec_pic_buffering_minus1 = 2 + ExtraDpb
	Rps      []hevcRPS // the NumStRps sets (plain shape: one negative picture each, used)
	LongTerm bool      // long_term_ref_pics_present_flag
	LtPocLsb []uint64  // lt_ref_pic_poc_lsb_sps
	LtUsed   []bool    // used_by_curr_pic_lt_sps_flag
	NAL      []byte
	Ref      *h265.SPS // the same values as a record of the independent reference serializer
}

type hevcPPS struct {
	ID, SPSID          int
	DependentSlices    bool
	OutputFlagPresent  bool
	NumExtraBits       int
	CabacInitPresent   bool
	NumRefL0, NumRefL1 int
	ChromaQpOffsets    bool
	WeightedPred       bool
	WeightedBipred     bool
	EntropySync        bool
	LoopFilterAcross   bool
	DeblockCtrl        bool
	DeblockOverride    bool
	PpsDeblockDisabled bool
	ListsModification  bool
	SliceHdrExt        bool
	NAL                []byte
	Ref                *h265.PPS
}

type hevcParams struct {
	VPS    []byte
	SPS    *hevcSPS
	Decoy  *hevcSPS
	PPS    []*hevcPPS
	Traits []string
	// X is the extra PRNG stream of the reference-picture shapes (nil = off): B slices,
	// short-term sets with several pictures before/after, long-term pictures, list modification.
	X *runner.Rand
	// SelfCheck names the first disagreement between this serializer and ref/h265 ("" = none).
	SelfCheck string
}

func (hp *hevcParams) fail(format string, a ...interface{}) {
	if hp.SelfCheck == "" {
		hp.SelfCheck = fmt.Sprintf(format, a...)
	}
}

func putPTL(w *bitw.W) {
	w.Put(0, 2)           // general_profile_space
	w.Put(0, 1)           // general_tier_flag
	w.Put(1, 5)           // general_profile_idc = Main
	w.Put(0x60000000, 32) // compatibility flags
	w.Put(1, 1)           // progressive_source
	w.Put(0, 1)           // interlaced_source
	w.Put(0, 1)           // non_packed_constraint
	w.Put(1, 1)           // frame_only_constraint
	w.Put(0, 43)
	w.Put(0, 1)
	w.Put(93, 8) // general_level_idc
}

func hevcNALHdr(typ int) []byte { return []byte{byte(typ << 1), 1} }

func genHEVCVPS() []byte {
	w := &bitw.W{}
	w.Put(0, 4)
	w.Put(1, 1)
	w.Put(1, 1)
	w.Put(0, 6)
	w.Put(0, 3)
	w.Put(1, 1)
	w.Put(0xffff, 16)
	putPTL(w)
	w.Flag(true)
	w.UE(1)
	w.UE(0)
	w.UE(0)
	w.Put(0, 6)
	w.UE(0)
	w.Flag(false)
	w.Flag(false)
	w.TrailingBits()
	return append(hevcNALHdr(32), bitw.Escape(w.Bytes())...)
}

// putStRps writes st_ref_pic_set( idx ) in its explicit form.
func putStRps(w *bitw.W, idx int, p hevcRPS) {
	if idx != 0 {
		w.Flag(false) // inter_ref_pic_set_prediction_flag
	}
	w.UE(uint64(len(p.D0))) // num_negative_pics
	w.UE(uint64(len(p.D1))) // num_positive_pics
	for i, d := range p.D0 {
		w.UE(uint64(d))
		w.Flag(p.U0[i])
	}
	for i, d := range p.D1 {
		w.UE(uint64(d))
		w.Flag(p.U1[i])
	}
}

func (s *hevcSPS) serialize() {
	w := &bitw.W{}
	w.Put(0, 4) // sps_video_parameter_set_id
	w.Put(0, 3) // sps_max_sub_layers_minus1
	w.Put(1, 1) // temporal_id_nesting
	putPTL(w)
	w.UE(uint64(s.ID))
	w.UE(uint64(s.ChromaFormat))
	if s.ChromaFormat == 3 {
		w.Flag(s.SeparatePlanes)
	}
	w.UE(uint64(s.Width))
	w.UE(uint64(s.Height))
	w.Flag(false) // conformance_window_flag
	w.UE(0)
	w.UE(0)
	w.UE(uint64(s.Log2MaxPocLsb - 4))
	w.Flag(true) // sps_sub_layer_ordering_info_present_flag
	w.UE(uint64(2 + s.ExtraDpb))
	w.UE(0)
	w.UE(0)
	w.UE(uint64(s.Log2MinCb - 3))
	w.UE(uint64(s.Log2DiffMaxMinCb))
	w.UE(0) // log2_min_luma_transform_block_size_minus2
	w.UE(1) // log2_diff_max_min_luma_transform_block_size
	w.UE(1)
	w.UE(1)
	w.Flag(false) // scaling_list_enabled_flag
	w.Flag(false) // amp_enabled_flag
	w.Flag(s.SAO)
	w.Flag(false) // pcm_enabled_flag
	w.UE(uint64(s.NumStRps))
	for i := 0; i < s.NumStRps; i++ {
		putStRps(w, i, s.Rps[i])
	}
	w.Flag(s.LongTerm) // long_term_ref_pics_present_flag
	if s.LongTerm {
		w.UE(uint64(len(s.LtPocLsb))) // num_long_term_ref_pics_sps
		for i, v := range s.LtPocLsb {
			w.Put(v, s.Log2MaxPocLsb)
			w.Flag(s.LtUsed[i])
		}
	}
	w.Flag(s.TemporalMvp)
	w.Flag(true)  // strong_intra_smoothing_enabled_flag
	w.Flag(false) // vui_parameters_present_flag
	w.Flag(false) // sps_extension_present_flag
	w.TrailingBits()
	s.NAL = append(hevcNALHdr(33), bitw.Escape(w.Bytes())...)

	ref := &h265.SPS{TemporalIdNesting: true,
		PTL: h265.PTL{ProfileIdc: 1, Compat: 0x60000000, Constraint: 0x9 << 44, LevelIdc: 93},
		ID:  uint64(s.ID), ChromaFormatIdc: uint64(s.ChromaFormat), SeparateColourPlane: s.SeparatePlanes,
		Width: uint64(s.Width), Height: uint64(s.Height), Log2MaxPocLsbMinus4: uint64(s.Log2MaxPocLsb - 4),
		SubLayerOrderingInfoPresent:      true,
		Ordering:                         []h265.SubLayerOrdering{{MaxDecPicBufferingMinus1: uint64(2 + s.ExtraDpb)}},
		Log2MinLumaCodingBlockSizeMinus3: uint64(s.Log2MinCb - 3), Log2DiffMaxMinLumaCodingBlockSize: uint64(s.Log2DiffMaxMinCb),
		Log2DiffMaxMinLumaTransformBlockSize: 1, MaxTransformHierarchyDepthInter: 1, MaxTransformHierarchyDepthIntra: 1,
		Sao: s.SAO, LongTermRefPicsPresent: s.LongTerm, LtRefPicPocLsbSps: s.LtPocLsb, UsedByCurrPicLtSps: s.LtUsed,
		TemporalMvp: s.TemporalMvp, StrongIntraSmoothing: true}
	for i := 0; i < s.NumStRps; i++ {
		ref.STRPS = append(ref.STRPS, s.Rps[i].ref())
	}
	s.Ref = ref
}

func (p *hevcPPS) serialize() {
	w := &bitw.W{}
	w.UE(uint64(p.ID))
	w.UE(uint64(p.SPSID))
	w.Flag(p.DependentSlices)
	w.Flag(p.OutputFlagPresent)
	w.Put(uint64(p.NumExtraBits), 3)
	w.Flag(false) // sign_data_hiding_enabled_flag
	w.Flag(p.CabacInitPresent)
	w.UE(uint64(p.NumRefL0))
	w.UE(uint64(p.NumRefL1))
	w.SE(0)
	w.Flag(false) // constrained_intra_pred_flag
	w.Flag(false) // transform_skip_enabled_flag
	w.Flag(false) // cu_qp_delta_enabled_flag
	w.SE(0)
	w.SE(0)
	w.Flag(p.ChromaQpOffsets)
	w.Flag(p.WeightedPred)
	w.Flag(p.WeightedBipred)
	w.Flag(false) // transquant_bypass_enabled_flag
	w.Flag(false) // tiles_enabled_flag
	w.Flag(p.EntropySync)
	w.Flag(p.LoopFilterAcross)
	w.Flag(p.DeblockCtrl)
	if p.DeblockCtrl {
		w.Flag(p.DeblockOverride)
		w.Flag(p.PpsDeblockDisabled)
		if !p.PpsDeblockDisabled {
			w.SE(1)
			w.SE(-1)
		}
	}
	w.Flag(false) // pps_scaling_list_data_present_flag
	w.Flag(p.ListsModification)
	w.UE(0) // log2_parallel_merge_level_minus2
	w.Flag(p.SliceHdrExt)
	w.Flag(false) // pps_extension_present_flag
	w.TrailingBits()
	p.NAL = append(hevcNALHdr(34), bitw.Escape(w.Bytes())...)

	p.Ref = &h265.PPS{ID: uint64(p.ID), SPSID: uint64(p.SPSID), DependentSliceSegmentsEnabled: p.DependentSlices,
		OutputFlagPresent: p.OutputFlagPresent, NumExtraSliceHeaderBits: uint64(p.NumExtraBits), CabacInitPresent: p.CabacInitPresent,
		NumRefIdxL0DefaultActiveMinus1: uint64(p.NumRefL0), NumRefIdxL1DefaultActiveMinus1: uint64(p.NumRefL1),
		SliceChromaQpOffsetsPresent: p.ChromaQpOffsets, WeightedPred: p.WeightedPred, WeightedBipred: p.WeightedBipred,
		EntropyCodingSyncEnabled: p.EntropySync, LoopFilterAcrossSlicesEnabled: p.LoopFilterAcross,
		DeblockingFilterControlPresent: p.DeblockCtrl, DeblockingFilterOverrideEnabled: p.DeblockOverride,
		DeblockingFilterDisabled: p.PpsDeblockDisabled, BetaOffsetDiv2: 1, TcOffsetDiv2: -1,
		ListsModificationPresent: p.ListsModification, SliceSegmentHeaderExtensionPresent: p.SliceHdrExt}
}

// refEncode runs one encoder of ref/h265; a record the reference cannot encode is a failed self-check, not a crash.
func refEncode(f func() []byte) (out []byte, ok bool) {
	defer func() {
		if recover() != nil {
			out, ok = nil, false
		}
	}()
	return f(), true
}

// rpsUsedPairs: numbers of used pictures before / after the current picture of
// the sets drawn for the reference-picture shapes (equal, one-sided, lopsided).
var rpsUsedPairs = [][2]int{{1, 0}, {0, 1}, {2, 1}, {1, 3}, {1, 1}, {2, 0}, {0, 2}, {2, 2}, {3, 1}, {0, 0}, {1, 2}, {3, 0}, {0, 3}, {4, 1}}

// genRefPicRPS draws an explicitly coded short-term set: a pair of used counts
// plus sometimes an unused picture on either side.
func genRefPicRPS(x *runner.Rand) hevcRPS {
	u := rpsUsedPairs[x.Intn(len(rpsUsedPairs))]
	side := func(nUsed int) ([]int, []bool) {
		flags := make([]bool, nUsed)
		for i := range flags {
			flags[i] = true
		}
		if x.Chance(1, 3) {
			// one picture that is kept but not used by the current picture, at a random position
			pos := x.Intn(nUsed + 1)
			flags = append(flags, false)
			copy(flags[pos+1:], flags[pos:])
			flags[pos] = false
		}
		d := make([]int, len(flags))
		for i := range d {
			d[i] = x.PickInt(0, 0, 1, 2, 7, 30)
		}
		return d, flags
	}
	var p hevcRPS
	p.D0, p.U0 = side(u[0])
	p.D1, p.U1 = side(u[1])
	return p
}

func genHEVCSPS(r *runner.Rand, id int) *hevcSPS { return genHEVCSPSX(r, id, nil) }

func genHEVCSPSX(r *runner.Rand, id int, x *runner.Rand) *hevcSPS {
	s := &hevcSPS{ID: id, ChromaFormat: 1, Log2MaxPocLsb: r.PickInt(4, 5, 8, 10, 16), Log2MinCb: 3,
		Log2DiffMaxMinCb: r.PickInt(0, 1, 2, 3), SAO: r.Bool(), NumStRps: r.PickInt(0, 1, 2), TemporalMvp: r.Bool()}
	s.Width = 8 * r.Range(2, 240)
	s.Height = 8 * r.Range(2, 135)
	if r.Chance(1, 8) {
		s.ChromaFormat = 3
		s.SeparatePlanes = r.Bool()
	} else if r.Chance(1, 10) {
		s.ChromaFormat = 0
	}
	if x != nil {
		s.ExtraDpb = 12
		s.NumStRps = x.PickInt(0, 1, 2, 3, 4, 5)
		for i := 0; i < s.NumStRps; i++ {
			s.Rps = append(s.Rps, genRefPicRPS(x))
		}
		if x.Chance(1, 3) {
			s.LongTerm = true
			s.LtPocLsb, s.LtUsed = []uint64{}, []bool{}
			for n := x.PickInt(0, 1, 2, 2, 3, 4, 5); n > 0; n-- {
				s.LtPocLsb = append(s.LtPocLsb, x.Uint64()&(1<<uint(s.Log2MaxPocLsb)-1))
				s.LtUsed = append(s.LtUsed, x.Chance(2, 3))
			}
		}
	} else {
		for i := 0; i < s.NumStRps; i++ {
			s.Rps = append(s.Rps, hevcRPS{D0: []int{i}, U0: []bool{true}})
		}
	}
	s.serialize()
	return s
}

func genHEVCParams(r *runner.Rand) *hevcParams { return genHEVCParamsX(r, nil) }

// genHEVCParamsX: x != nil switches the reference-picture shapes on; everything
// they add is drawn from x so that the draws from r stay what they are without them.
func genHEVCParamsX(r *runner.Rand, x *runner.Rand) *hevcParams {
	hp := &hevcParams{VPS: genHEVCVPS(), X: x}
	spsID := r.PickInt(0, 0, 1, 5, 15)
	hp.SPS = genHEVCSPSX(r, spsID, x)
	npps := r.PickInt(1, 1, 2)
	used := map[int]bool{}
	differ := false
	for i := 0; i < npps; i++ {
		var id int
		for {
			if r.Bool() {
				id = spsID
			} else {
				id = r.PickInt(0, 1, 2, 7, 16, 63)
			}
			if !used[id] {
				break
			}
			if r.Chance(1, 4) {
				id = r.Intn(64)
				if !used[id] {
					break
				}
			}
		}
		used[id] = true
		if id != spsID {
			differ = true
		}
		p := &hevcPPS{ID: id, SPSID: spsID, DependentSlices: r.Chance(1, 3), OutputFlagPresent: r.Chance(1, 3),
			NumExtraBits: r.PickInt(0, 0, 1, 2, 7), CabacInitPresent: r.Bool(), NumRefL0: r.PickInt(0, 0, 1), NumRefL1: r.PickInt(0, 1),
			ChromaQpOffsets: r.Chance(1, 3), WeightedPred: r.Chance(1, 5), EntropySync: r.Chance(1, 4), LoopFilterAcross: r.Bool(),
			DeblockCtrl: r.Bool(), DeblockOverride: r.Bool(), ListsModification: r.Chance(1, 4), SliceHdrExt: r.Chance(1, 5)}
		if p.DeblockCtrl && r.Chance(1, 4) {
			// slice_deblocking_filter_disabled_flag is then inferred as 1 when not overridden (§7.4.7.1)
			p.PpsDeblockDisabled = true
			hp.Traits = append(hp.Traits, "pps-deblocking-disabled")
		}
		if x != nil {
			if x.Bool() {
				p.ListsModification = true
			}
			if x.Chance(1, 3) {
				p.NumRefL0, p.NumRefL1 = x.PickInt(0, 1, 2, 3), x.PickInt(0, 1, 2, 4)
			}
			p.WeightedBipred = x.Chance(1, 5)
		}
		p.serialize()
		hp.PPS = append(hp.PPS, p)
	}
	if differ {
		hp.Traits = append(hp.Traits, "ppsid!=spsid")
		for _, p := range hp.PPS {
			if p.ID != spsID && p.ID < 16 && r.Chance(2, 3) {
				hp.Decoy = genHEVCSPSX(r, p.ID, x)
				hp.Traits = append(hp.Traits, "decoy-sps")
				break
			}
		}
	} else {
		hp.Traits = append(hp.Traits, "ppsid==spsid")
	}
	if x != nil {
		hp.Traits = append(hp.Traits, "hevc-refpic-shapes")
		if hp.SPS.LongTerm {
			hp.Traits = append(hp.Traits, "hevc-long-term-refs")
		}
		for _, p := range hp.PPS {
			if p.ListsModification {
				hp.Traits = append(hp.Traits, "hevc-lists-modification")
				break
			}
		}
	}
	// self-check: the reference serializer gives the same parameter-set NAL units
	for _, s := range []*hevcSPS{hp.SPS, hp.Decoy} {
		if s == nil {
			continue
		}
		if b, ok := refEncode(func() []byte { return s.Ref.Encode(1).NAL }); !ok || !bytes.Equal(b, s.NAL) {
			hp.fail("SPS %d: ref/h265 encodes %x, generator %x", s.ID, b, s.NAL)
		}
	}
	for _, p := range hp.PPS {
		if b, ok := refEncode(func() []byte { return p.Ref.Encode(1).NAL }); !ok || !bytes.Equal(b, p.NAL) {
			hp.fail("PPS %d: ref/h265 encodes %x, generator %x", p.ID, b, p.NAL)
		}
	}
	return hp
}

func ceilLog2(v int) int {
	n := 0
	for (1 << uint(n)) < v {
		n++
	}
	return n
}

type hevcSliceOpts struct {
	IDR   bool
	First bool
	Total int
}

func genHEVCSlice(r *runner.Rand, hp *hevcParams, o hevcSliceOpts) NAL {
	x := hp.X
	sps := hp.SPS
	pps := hp.PPS[r.Intn(len(hp.PPS))]
	nalType := r.PickInt(0, 1, 1)
	if o.IDR {
		nalType = r.PickInt(19, 20, 21, 16)
	}
	isIDR := nalType == 19 || nalType == 20
	// rec: the values written, as a record of the reference serializer (self-check below)
	rec := &h265.Slice{NalUnitType: uint(nalType), TemporalIDPlus1: 1, FirstSliceSegmentInPic: o.First, PPSID: uint64(pps.ID)}
	var tags []string
	w := &bitw.W{}
	w.Flag(o.First)
	if nalType >= 16 && nalType <= 23 {
		rec.NoOutputOfPriorPics = r.Bool()
		w.Flag(rec.NoOutputOfPriorPics)
	}
	w.UE(uint64(pps.ID))
	dependent := false
	if !o.First {
		if pps.DependentSlices {
			dependent = r.Chance(1, 3)
			w.Flag(dependent)
			rec.DependentSliceSegment = dependent
		}
		ctb := 1 << uint(sps.Log2MinCb+sps.Log2DiffMaxMinCb)
		n := ((sps.Width + ctb - 1) / ctb) * ((sps.Height + ctb - 1) / ctb)
		bits := ceilLog2(n)
		addr := 0
		if n > 1 {
			addr = 1 + r.Intn(n-1)
		}
		w.Put(uint64(addr), bits)
		rec.SegmentAddress = uint64(addr)
	}
	numPicTotalCurr := 0
	if dependent {
		tags = append(tags, "type=dependent-segment")
	}
	if !dependent {
		for i := 0; i < pps.NumExtraBits; i++ {
			v := r.Bool()
			w.Flag(v)
			rec.ReservedFlags = append(rec.ReservedFlags, v)
		}
		st := 2 // I
		if !o.IDR {
			st = r.PickInt(1, 1, 2) // P or I
			if x != nil {
				switch x.Intn(4) {
				case 0, 1:
					st = 0 // B
				case 2:
					st = 1
				}
			}
		}
		w.UE(uint64(st))
		rec.SliceType = uint64(st)
		tags = append(tags, "type="+[]string{"B", "P", "I"}[st])
		if pps.OutputFlagPresent {
			rec.PicOutput = r.Bool()
			w.Flag(rec.PicOutput)
		}
		if sps.SeparatePlanes {
			rec.ColourPlaneId = uint64(r.Intn(3))
			w.Put(rec.ColourPlaneId, 2)
		}
		temporalMvp := false
		if !isIDR {
			lsb := r.Uint64() & (1<<uint(sps.Log2MaxPocLsb) - 1)
			if r.Chance(1, 3) {
				lsb = 0
			}
			w.Put(lsb, sps.Log2MaxPocLsb)
			rec.PocLsb = lsb
			fromSPS := sps.NumStRps > 0 && r.Bool()
			w.Flag(fromSPS)
			rec.ShortTermRefPicSetSps = fromSPS
			var cur hevcRPS
			if !fromSPS {
				if x != nil {
					cur = genRefPicRPS(x)
				} else {
					used := r.Bool()
					cur = hevcRPS{D0: []int{r.Intn(3)}, U0: []bool{used}}
				}
				putStRps(w, sps.NumStRps, cur)
				rec.STRPS = cur.ref()
				tags = append(tags, "st-rps=in-slice-header")
			} else {
				k := 0
				if sps.NumStRps > 1 {
					k = r.Intn(sps.NumStRps)
					w.Put(uint64(k), ceilLog2(sps.NumStRps))
					tags = append(tags, "st-rps=sps-by-idx")
				} else {
					tags = append(tags, "st-rps=sps-idx-inferred")
				}
				rec.ShortTermRefPicSetIdx = uint64(k)
				cur = sps.Rps[k]
			}
			u0, u1 := cur.used()
			usedLt := 0
			if sps.LongTerm {
				// only with the reference-picture shapes (x != nil)
				nSps := 0
				if len(sps.LtPocLsb) > 0 {
					nSps = x.PickInt(0, 1, x.Intn(len(sps.LtPocLsb)+1))
					w.UE(uint64(nSps)) // num_long_term_sps
				}
				nPics := x.PickInt(0, 0, 1, 2)
				w.UE(uint64(nPics)) // num_long_term_pics
				for i := 0; i < nSps+nPics; i++ {
					var e h265.LTEntry
					if i < nSps {
						k := 0
						if len(sps.LtPocLsb) > 1 {
							k = x.Intn(len(sps.LtPocLsb))
							w.Put(uint64(k), ceilLog2(len(sps.LtPocLsb))) // lt_idx_sps
						}
						e.LtIdxSps = uint64(k)
						if sps.LtUsed[k] {
							usedLt++
						}
					} else {
						e.PocLsbLt = x.Uint64() & (1<<uint(sps.Log2MaxPocLsb) - 1)
						e.UsedByCurrPicLt = x.Bool()
						w.Put(e.PocLsbLt, sps.Log2MaxPocLsb)
						w.Flag(e.UsedByCurrPicLt)
						if e.UsedByCurrPicLt {
							usedLt++
						}
					}
					e.DeltaPocMsbPresent = x.Chance(1, 3)
					w.Flag(e.DeltaPocMsbPresent)
					if e.DeltaPocMsbPresent {
						e.DeltaPocMsbCycleLt = uint64(x.PickInt(0, 1, 5, 300))
						w.UE(e.DeltaPocMsbCycleLt)
					}
					rec.LT = append(rec.LT, e)
				}
				rec.NumLongTermSps = uint64(nSps)
				tags = append(tags, fmt.Sprintf("long-term=sps:%d,slice:%d", nSps, nPics))
			}
			numPicTotalCurr = u0 + u1 + usedLt
			ltTag := fmt.Sprint(usedLt)
			if usedLt >= 3 {
				ltTag = "3+"
			}
			tags = append(tags, fmt.Sprintf("used-by-curr=s0:%d,s1:%d,lt:%s", u0, u1, ltTag))
			if sps.TemporalMvp {
				temporalMvp = r.Bool()
				w.Flag(temporalMvp)
				rec.TemporalMvpEnabled = temporalMvp
			}
		}
		saoL, saoC := false, false
		if sps.SAO {
			saoL = r.Bool()
			w.Flag(saoL)
			if sps.ChromaFormat != 0 && !(sps.SeparatePlanes && sps.ChromaFormat == 3) {
				saoC = r.Bool()
				w.Flag(saoC)
			}
			rec.SaoLuma, rec.SaoChroma = saoL, saoC
		}
		if st == 1 || st == 0 {
			isB := st == 0 // only with the reference-picture shapes (x != nil)
			nl0, nl1 := pps.NumRefL0, pps.NumRefL1
			ov := r.Bool()
			w.Flag(ov)
			if ov {
				nl0 = r.Intn(3)
				if x != nil && x.Chance(1, 5) {
					nl0 = x.PickInt(3, 4, 7)
				}
				w.UE(uint64(nl0))
				if isB {
					nl1 = x.PickInt(0, 1, 2, 2, 3, 5)
					w.UE(uint64(nl1))
				}
				rec.NumRefIdxActiveOverride = true
				rec.NumRefIdxL0ActiveMinus1, rec.NumRefIdxL1ActiveMinus1 = uint64(nl0), uint64(nl1)
			}
			if pps.ListsModification {
				// ref_pic_lists_modification( ) is present when NumPicTotalCurr > 1 (the plain shapes never get there)
				if numPicTotalCurr > 1 {
					rr := x
					if rr == nil {
						rr = r
					}
					nb := ceilLog2(numPicTotalCurr)
					entries := func(n int) []uint64 {
						out := make([]uint64, n+1)
						for i := range out {
							out[i] = uint64(rr.Intn(numPicTotalCurr))
							w.Put(out[i], nb) // list_entry_lX
						}
						return out
					}
					m0 := rr.Chance(2, 3)
					w.Flag(m0) // ref_pic_list_modification_flag_l0
					if m0 {
						rec.RplmL0 = entries(nl0)
					}
					m1 := false
					if isB {
						m1 = rr.Bool()
						w.Flag(m1) // ref_pic_list_modification_flag_l1
						if m1 {
							rec.RplmL1 = entries(nl1)
						}
					}
					tags = append(tags, fmt.Sprintf("lists-modification=present/l0:%v,l1:%v/entry-bits:%d", m0, m1, nb))
				} else {
					tags = append(tags, fmt.Sprintf("lists-modification=absent/NumPicTotalCurr:%d", numPicTotalCurr))
				}
			}
			if isB {
				rec.MvdL1Zero = x.Bool()
				w.Flag(rec.MvdL1Zero)
			}
			if pps.CabacInitPresent {
				rec.CabacInit = r.Bool()
				w.Flag(rec.CabacInit)
			}
			if temporalMvp {
				fromL0 := true
				if isB {
					fromL0 = x.Bool()
					w.Flag(fromL0) // collocated_from_l0_flag
				}
				rec.CollocatedFromL0 = fromL0
				n := nl0
				if !fromL0 {
					n = nl1
				}
				if n > 0 {
					rec.CollocatedRefIdx = uint64(r.Intn(n + 1))
					w.UE(rec.CollocatedRefIdx)
				}
			}
			if (pps.WeightedPred && !isB) || (pps.WeightedBipred && isB) {
				chroma := sps.ChromaFormat != 0 && !(sps.SeparatePlanes && sps.ChromaFormat == 3)
				pw := &h265.PWT{}
				pw.LumaLog2WeightDenom = uint64(r.Intn(8))
				w.UE(pw.LumaLog2WeightDenom)
				if chroma {
					pw.DeltaChromaLog2WeightDenom = int64(r.Range(-2, 2))
					w.SE(pw.DeltaChromaLog2WeightDenom)
				}
				table := func(rr *runner.Rand, n int) []h265.PredWeight {
					t := make([]h265.PredWeight, n+1)
					for i := range t {
						t[i].LumaFlag = rr.Bool()
						w.Flag(t[i].LumaFlag)
					}
					if chroma {
						for i := range t {
							t[i].ChromaFlag = rr.Bool()
							w.Flag(t[i].ChromaFlag)
						}
					}
					for i := range t {
						if t[i].LumaFlag {
							t[i].DeltaLumaWeight = int64(rr.Range(-128, 127))
							w.SE(t[i].DeltaLumaWeight)
							t[i].LumaOffset = int64(rr.Range(-128, 127))
							w.SE(t[i].LumaOffset)
						}
						if t[i].ChromaFlag {
							for j := 0; j < 2; j++ {
								t[i].DeltaChromaWeight[j] = int64(rr.Range(-128, 127))
								w.SE(t[i].DeltaChromaWeight[j])
								t[i].DeltaChromaOffset[j] = int64(rr.Range(-512, 511))
								w.SE(t[i].DeltaChromaOffset[j])
							}
						}
					}
					return t
				}
				pw.L0 = table(r, nl0)
				if isB {
					pw.L1 = table(x, nl1)
				}
				rec.PWT = pw
			}
			rec.FiveMinusMaxNumMergeCand = uint64(r.Intn(5))
			w.UE(rec.FiveMinusMaxNumMergeCand) // five_minus_max_num_merge_cand
		}
		rec.QpDelta = int64(r.Range(-20, 20))
		w.SE(rec.QpDelta)
		if pps.ChromaQpOffsets {
			rec.CbQpOffset = int64(r.Range(-12, 12))
			w.SE(rec.CbQpOffset)
			rec.CrQpOffset = int64(r.Range(-12, 12))
			w.SE(rec.CrQpOffset)
		}
		override := false
		if pps.DeblockCtrl && pps.DeblockOverride {
			override = r.Bool()
			w.Flag(override)
			rec.DeblockingOverride = override
		}
		disabled := pps.DeblockCtrl && pps.PpsDeblockDisabled
		if override {
			disabled = r.Bool()
			w.Flag(disabled)
			rec.DeblockingDisabled = disabled
			if !disabled {
				rec.BetaOffsetDiv2 = int64(r.Range(-6, 6))
				w.SE(rec.BetaOffsetDiv2)
				rec.TcOffsetDiv2 = int64(r.Range(-6, 6))
				w.SE(rec.TcOffsetDiv2)
			}
		}
		if pps.LoopFilterAcross && (saoL || saoC || !disabled) {
			rec.LoopFilterAcrossSlices = r.Bool()
			w.Flag(rec.LoopFilterAcrossSlices)
		}
	}
	if pps.EntropySync {
		n := r.PickInt(0, 0, 1, 3)
		w.UE(uint64(n))
		if n > 0 {
			lenm1 := r.PickInt(0, 7, 15, 31)
			w.UE(uint64(lenm1))
			rec.OffsetLenMinus1 = uint64(lenm1)
			for i := 0; i < n; i++ {
				v := r.Uint64() & (1<<uint(lenm1+1) - 1)
				w.Put(v, lenm1+1)
				rec.EntryPointOffsetMinus1 = append(rec.EntryPointOffsetMinus1, v)
			}
		}
	}
	if pps.SliceHdrExt {
		n := r.PickInt(0, 1, 3)
		w.UE(uint64(n))
		for i := 0; i < n; i++ {
			v := r.Intn(256)
			w.Put(uint64(v), 8)
			rec.ExtensionData = append(rec.ExtensionData, byte(v))
		}
	}
	// byte_alignment()
	w.Put(1, 1)
	for w.NBits()%8 != 0 {
		w.Put(0, 1)
	}
	hdrBits := w.NBits()
	h := hevcNALHdr(nalType)
	hdrRBSP := w.Bytes()
	nal := finishSlice(r, h[0], h[1:], hdrRBSP, hdrBits, o.Total, nalType, 2)
	nal.Tags = tags

	// self-check: ref/h265 serializes the same values to the same header bits, the same header length
	// and derives the same NumPicTotalCurr
	if sps.Ref != nil && pps.Ref != nil {
		var cd *h265.Coded
		var info h265.SliceInfo
		_, ok := refEncode(func() []byte { cd, info = rec.Encode(sps.Ref, pps.Ref); return nil })
		switch {
		case !ok || cd == nil:
			hp.fail("slice (type %d): ref/h265 cannot encode the record", nalType)
		case cd.HeaderBits != hdrBits || !bytes.Equal(cd.RBSP, hdrRBSP):
			hp.fail("slice (type %d): ref/h265 writes a header of %d bits %x, generator %d bits %x", nalType, cd.HeaderBits, cd.RBSP, hdrBits, hdrRBSP)
		case cd.HeaderSize != nal.HdrMin:
			hp.fail("slice (type %d): ref/h265 header size %d bytes, generator %d", nalType, cd.HeaderSize, nal.HdrMin)
		case !dependent && info.NumPicTotalCurr != numPicTotalCurr:
			hp.fail("slice (type %d): ref/h265 derives NumPicTotalCurr %d, generator %d", nalType, info.NumPicTotalCurr, numPicTotalCurr)
		}
	}
	return nal
}
