package cencgen

import (
	"bytes"
	"encoding/binary"
	"encoding/hex"
	"fmt"
	"strings"

	"github.com/Eyevinn/mp4ff/mp4"

	"verifharness/runner"
)

// Sample is one generated sample with its ground truth.
type Sample struct {
	NALs       []NAL // nil for audio
	Data       []byte
	Dur        uint32
	Flags      uint32
	Cto        int32
	DecodeTime uint64
}

// Frag is one fragment (moof+mdat) of the generated track.
type Frag struct {
	Samples []Sample
	Extras  []string // names of the extra boxes put into moof/traf
}

// Case is one clear single-track CMAF input.
type Case struct {
	Kind     string // gen | real
	Name     string
	Codec    string // avc1 avc3 hvc1 hev1 mp4a ac-3
	Media    string // video | audio
	Traits   []string
	TrackID  uint32
	Init     []byte
	Segs     [][]byte // media segments: [styp] (moof mdat)+
	Frags    []Frag   // all fragments in file order
	HdrKnown bool     // slice-header lengths are ground truth
	// SelfCheck: first disagreement between the HEVC serializer of this package and the independent
	// one of ref/h265 on the values of this case ("" = they agree): the ground truth is then in doubt.
	SelfCheck string
}

// File returns init + all segments.
func (c *Case) File() []byte {
	out := append([]byte(nil), c.Init...)
	for _, s := range c.Segs {
		out = append(out, s...)
	}
	return out
}

// Media returns all segments concatenated.
func (c *Case) MediaBytes() []byte {
	var out []byte
	for _, s := range c.Segs {
		out = append(out, s...)
	}
	return out
}

// HasTrait tells whether the case carries a trait.
func (c *Case) HasTrait(t string) bool {
	for _, x := range c.Traits {
		if x == t {
			return true
		}
	}
	return false
}

// TraitKey is a short stable string of the traits that can explain a
// slice-header disagreement (goes into finding keys).
func (c *Case) TraitKey() string {
	var k []string
	seen := map[string]bool{}
	for _, t := range c.Traits {
		if seen[t] {
			continue
		}
		seen[t] = true
		if t == "ppsid!=spsid" || t == "ppsid==spsid" || t == "decoy-sps" || t == "pps-deblocking-disabled" {
			k = append(k, t)
		}
	}
	return strings.Join(k, ",")
}

// Config is one encryption configuration.
type Config struct {
	Scheme  string
	Key     []byte
	IV      []byte // 8 or 16 bytes
	KID     []byte // 16 bytes
	Pssh    bool   // pass a pssh box to InitProtect
	PsshN   int    // number of pssh boxes passed when Pssh is set (0 = 1)
	KeyKind string
	IVKind  string
}

func (c Config) KeyHex() string { return hex.EncodeToString(c.Key) }
func (c Config) IVHex() string  { return hex.EncodeToString(c.IV) }
func (c Config) KIDHex() string { return hex.EncodeToString(c.KID) }

// GenConfig draws a configuration.
func GenConfig(r *runner.Rand) Config {
	c := Config{Scheme: r.PickStr("cenc", "cbcs")}
	switch r.Intn(6) {
	case 0:
		c.Key = make([]byte, 16)
		c.KeyKind = "zero"
	case 1:
		c.Key = bytes.Repeat([]byte{0xff}, 16)
		c.KeyKind = "ff"
	default:
		c.Key = r.Bytes(16)
		c.KeyKind = "random"
	}
	n := r.PickInt(8, 16)
	switch r.Intn(6) {
	case 0: // low 64 bits about to wrap
		c.IV = r.Bytes(n)
		if n == 16 {
			copy(c.IV[8:], []byte{0xff, 0xff, 0xff, 0xff, 0xff, 0xff, 0xff, byte(0xf0 + r.Intn(16))})
			c.IVKind = "16/low64-wrap"
		} else {
			copy(c.IV, []byte{0xff, 0xff, 0xff, 0xff, 0xff, 0xff, 0xff, byte(0xf0 + r.Intn(16))})
			c.IVKind = "8/all-ff"
		}
	case 1: // whole counter about to wrap
		c.IV = bytes.Repeat([]byte{0xff}, n)
		c.IV[n-1] = byte(0xf8 + r.Intn(8))
		c.IVKind = fmt.Sprintf("%d/all-ff", n)
		if n == 16 {
			c.IVKind = "16/128-wrap"
		}
	case 2:
		c.IV = make([]byte, n)
		c.IVKind = fmt.Sprintf("%d/zero", n)
	case 3: // byte carries
		c.IV = r.Bytes(n)
		for i := n - 1; i >= n-1-r.Intn(4) && i >= 0; i-- {
			c.IV[i] = 0xff
		}
		c.IV[n-1] = byte(0xfa + r.Intn(6))
		c.IVKind = fmt.Sprintf("%d/carry", n)
	default:
		c.IV = r.Bytes(n)
		c.IVKind = fmt.Sprintf("%d/random", n)
	}
	c.KID = r.Bytes(16)
	c.Pssh = r.Chance(1, 3)
	return c
}

// NPssh is the number of pssh boxes handed to the encryptor.
func (c Config) NPssh() int {
	switch {
	case !c.Pssh:
		return 0
	case c.PsshN > 1:
		return c.PsshN
	}
	return 1
}

// PsshBytes returns the encoded pssh box(es) handed to the encryptor: the
// first one a version-1 box with the KID, further ones version-0 boxes of
// other systems.
func PsshBytes(cfg Config) []byte {
	p, _ := mp4.NewPsshBox("edef8ba979d64acea3c827dcd51d21ed", []string{hex.EncodeToString(cfg.KID)}, nil)
	p.Data = []byte{0x08, 0x01, 0x12, 0x10, 1, 2, 3, 4, 5, 6, 7, 8, 9, 10, 11, 12, 13, 14, 15, 16}
	var buf bytes.Buffer
	_ = p.Encode(&buf)
	for i := 1; i < cfg.NPssh(); i++ {
		q, _ := mp4.NewPsshBox([]string{"9a04f07998404286ab92e65be0885f95", "1077efecc0b24d02ace33c1e52e2fb4b"}[(i-1)%2], nil, nil)
		q.Data = append([]byte{byte(i)}, cfg.KID[:4+i%8]...)
		_ = q.Encode(&buf)
	}
	return buf.Bytes()
}

// Shape pins parts of a generated case (zero value = draw everything).
type Shape struct {
	Codec      string // force the codec
	ClearRun   int    // >0: first sample of first fragment starts with non-VCL NAL units sized so that the clear run before the first protected range is exactly this long
	Scheme     string // scheme the ClearRun computation is meant for
	ManySlices int    // >0: one sample with this many VCL NAL units of >= 140 bytes
	Small      bool   // keep sizes small
	// IVGuess > 0: the first fragment has exactly three samples laid out so that
	// its senc (16-byte IVs whose bytes 8..9 are zero, as written for an 8-byte IV)
	// also tiles when read with an 8-byte IV size: sample 1 is one NAL unit of
	// 2+IVGuess+1 bytes, sample 2 has IVGuess sub-sample entries, sample 3 is clear.
	IVGuess int
	// RefPics != nil: extra PRNG stream that switches the HEVC reference-picture shapes on for the
	// track (B slices, short-term sets with several used pictures before/after the current one,
	// long-term pictures, PPS lists_modification_present_flag with ref_pic_lists_modification( ),
	// num_ref_idx overrides, weighted bi-prediction). Everything they add is drawn from this
	// stream; nil (the default) leaves the generated cases exactly as they are without it.
	RefPics *runner.Rand
}

var vclSizeClasses = []string{"5..15", "16", "92..130", "92..130", "1k", "17..91", "131..999"}

func pickVCLSize(r *runner.Rand, allowHuge bool) (int, string) {
	cls := vclSizeClasses[r.Intn(len(vclSizeClasses))]
	if allowHuge && r.Chance(1, 12) {
		cls = "70k"
	}
	switch cls {
	case "5..15":
		return r.Range(5, 15), cls
	case "16":
		return 16, cls
	case "92..130":
		return r.Range(92, 130), cls
	case "1k":
		return r.Range(1000, 1100), cls
	case "17..91":
		return r.Range(17, 91), cls
	case "131..999":
		return r.Range(131, 999), cls
	default:
		return r.Range(65530, 70200), "70k"
	}
}

func nonVCL(codec string, r *runner.Rand, typ, size int) NAL {
	if size < 1 {
		size = 1
	}
	var d []byte
	if codec == "avc" {
		d = make([]byte, size)
		for i := range d {
			d[i] = byte(1 + r.Intn(255))
		}
		d[0] = byte(typ) // nal_ref_idc 0
		if typ == 7 || typ == 8 {
			d[0] |= 0x60
		}
	} else {
		if size < 2 {
			size = 2
		}
		d = make([]byte, size)
		for i := range d {
			d[i] = byte(1 + r.Intn(255))
		}
		d[0], d[1] = byte(typ<<1), 1
	}
	return NAL{Type: typ, Data: d}
}

// Generate draws one clear input.
func Generate(r *runner.Rand, sh Shape) (*Case, error) {
	c := &Case{Kind: "gen", TrackID: 1, HdrKnown: true}
	codec := sh.Codec
	if codec == "" {
		codec = r.PickStr("avc1", "avc1", "avc3", "hvc1", "hvc1", "hev1", "mp4a", "mp4a", "ac-3")
	}
	c.Codec = codec
	init := mp4.CreateEmptyInit()
	timescale := uint32(r.PickInt(90000, 48000, 12800, 1000))
	var ap *avcParams
	var hp *hevcParams
	switch codec {
	case "avc1", "avc3":
		c.Media = "video"
		init.AddEmptyTrack(timescale, "video", "und")
		ap = genAVCParams(r)
		spss := [][]byte{ap.SPS.NAL}
		if ap.Decoy != nil {
			spss = append(spss, ap.Decoy.NAL)
		}
		var ppss [][]byte
		for _, p := range ap.PPS {
			ppss = append(ppss, p.NAL)
		}
		if err := init.Moov.Trak.SetAVCDescriptor(codec, spss, ppss, true); err != nil {
			return nil, fmt.Errorf("SetAVCDescriptor: %w", err)
		}
		c.Traits = append(c.Traits, ap.Traits...)
	case "hvc1", "hev1":
		c.Media = "video"
		init.AddEmptyTrack(timescale, "video", "und")
		hp = genHEVCParamsX(r, sh.RefPics)
		spss := [][]byte{hp.SPS.NAL}
		if hp.Decoy != nil {
			spss = append(spss, hp.Decoy.NAL)
		}
		var ppss [][]byte
		for _, p := range hp.PPS {
			ppss = append(ppss, p.NAL)
		}
		if err := init.Moov.Trak.SetHEVCDescriptor(codec, [][]byte{hp.VPS}, spss, ppss, nil, true); err != nil {
			return nil, fmt.Errorf("SetHEVCDescriptor: %w", err)
		}
		c.Traits = append(c.Traits, hp.Traits...)
	case "mp4a":
		c.Media = "audio"
		init.AddEmptyTrack(timescale, "audio", "eng")
		if err := init.Moov.Trak.SetAACDescriptor(2, 48000); err != nil {
			return nil, err
		}
	case "ac-3":
		c.Media = "audio"
		init.AddEmptyTrack(timescale, "audio", "eng")
		if err := init.Moov.Trak.SetAC3Descriptor(&mp4.Dac3Box{FSCod: 0, BSID: 8, ACMod: 7, LFEOn: 1, BitRateCode: 0x0e}); err != nil {
			return nil, err
		}
	default:
		return nil, fmt.Errorf("codec %s", codec)
	}
	var buf bytes.Buffer
	if err := init.Encode(&buf); err != nil {
		return nil, fmt.Errorf("init encode: %w", err)
	}
	c.Init = append([]byte(nil), buf.Bytes()...)

	nfrag := r.Range(1, 4)
	if sh.ClearRun > 0 || sh.ManySlices > 0 || sh.IVGuess > 0 {
		nfrag = r.Range(1, 2)
	}
	hugeBudget := 1
	if sh.Small {
		hugeBudget = 0
	}
	dt := uint64(r.PickInt(0, 0, 90000, 1<<31-5)) // decode time of the first sample
	if r.Chance(1, 10) {
		dt = 1<<32 + uint64(r.Intn(1000)) // forces tfdt version 1
	}
	optimize := r.Chance(1, 3)
	constSize := -1 // audio: every frame of the track has this size (as AC-3 frames have)
	if c.Media == "audio" && r.Chance(1, 6) {
		constSize = 16*r.PickInt(0, 1, 2, 5, 20) + r.Range(1, 15)
		c.Traits = append(c.Traits, "constant-frame-size")
	}
	var seg *mp4.MediaSegment
	fragsInSeg := 0
	flushSeg := func() error {
		if seg == nil {
			return nil
		}
		var b bytes.Buffer
		if err := seg.Encode(&b); err != nil {
			return fmt.Errorf("segment encode: %w", err)
		}
		c.Segs = append(c.Segs, append([]byte(nil), b.Bytes()...))
		seg = nil
		return nil
	}
	withStyp := r.Bool()
	emptyFrag := false
	for fi := 0; fi < nfrag; fi++ {
		if seg == nil || r.Bool() {
			if err := flushSeg(); err != nil {
				return nil, err
			}
			if withStyp {
				seg = mp4.NewMediaSegment()
			} else {
				seg = mp4.NewMediaSegmentWithoutStyp()
			}
			if optimize {
				seg.EncOptimize = mp4.OptimizeTrun // MediaSegment.Encode overwrites the fragments' own setting
			}
			fragsInSeg = 0
		}
		fragsInSeg++
		f, err := mp4.CreateFragment(uint32(fi+1), c.TrackID)
		if err != nil {
			return nil, err
		}
		if optimize {
			f.EncOptimize = mp4.OptimizeTrun
		}
		var fr Frag
		nsamp := r.Range(1, 5)
		if sh.IVGuess > 0 && fi == 0 {
			nsamp = 3
		}
		if fi > 0 && !optimize && r.Chance(1, 12) {
			// a fragment without samples (a gap in a live stream): zero-entry trun, saiz, saio, senc
			nsamp = 0
			emptyFrag = true
		}
		uniformDur := uint32(r.PickInt(1024, 3000, 512, 1))
		varyDur := r.Chance(1, 3)
		for si := 0; si < nsamp; si++ {
			s := Sample{DecodeTime: dt}
			s.Dur = uniformDur
			if varyDur {
				s.Dur = uint32(r.Range(1, 5000))
			}
			if c.Media == "audio" {
				k := r.PickInt(0, 0, 1, 1, 2, 5, 20, 100, 255)
				size := 16*k + r.Intn(16)
				if r.Chance(1, 40) {
					size = 0
				}
				if constSize >= 0 {
					size = constSize
				}
				s.Data = r.Bytes(size)
				s.Flags = 0x02000000
				if r.Chance(1, 6) {
					s.Flags |= uint32(r.Intn(1 << 16))
				}
			} else {
				idr := si == 0 && (fi == 0 || r.Bool())
				first := fi == 0 && si == 0
				s.NALs = genVideoSample(r, codec, ap, hp, idr, first, sh, &hugeBudget)
				if sh.IVGuess > 0 && fi == 0 {
					s.NALs = ivGuessSample(r, codec, ap, hp, si, sh.IVGuess)
				}
				for _, n := range s.NALs {
					var l [4]byte
					binary.BigEndian.PutUint32(l[:], uint32(len(n.Data)))
					s.Data = append(s.Data, l[:]...)
					s.Data = append(s.Data, n.Data...)
				}
				if idr {
					s.Flags = 0x02000000
				} else {
					s.Flags = 0x01010000
				}
				if r.Chance(1, 6) {
					s.Flags |= uint32(r.Intn(1 << 16))
				}
				if r.Chance(1, 3) {
					s.Cto = int32(r.Range(-2, 4)) * int32(uniformDur)
				}
			}
			dt += uint64(s.Dur)
			fr.Samples = append(fr.Samples, s)
			f.AddFullSample(mp4.FullSample{Sample: mp4.Sample{Flags: s.Flags, Dur: s.Dur, Size: uint32(len(s.Data)), CompositionTimeOffset: s.Cto},
				DecodeTime: s.DecodeTime, Data: s.Data})
		}
		if err := addExtras(r, f, &fr); err != nil {
			return nil, err
		}
		seg.AddFragment(f)
		c.Frags = append(c.Frags, fr)
	}
	if err := flushSeg(); err != nil {
		return nil, err
	}
	if optimize {
		c.Traits = append(c.Traits, "optimized-trun")
	}
	if emptyFrag {
		c.Traits = append(c.Traits, "empty-fragment")
	}
	if hp != nil {
		c.SelfCheck = hp.SelfCheck
	}
	return c, nil
}

// genVideoSample builds the NAL list [AUD|SEI|SPS|PPS]* VCL+ [SEI].
func genVideoSample(r *runner.Rand, codec string, ap *avcParams, hp *hevcParams, idr, firstOfFile bool, sh Shape, hugeBudget *int) []NAL {
	fam := "avc"
	if hp != nil {
		fam = "hevc"
	}
	aud, sei, spsT, ppsT, filler, eos := 9, 6, 7, 8, 12, 10
	if fam == "hevc" {
		aud, sei, spsT, ppsT, filler, eos = 35, 39, 33, 34, 38, 36
	}
	var nals []NAL
	mkSlice := func(total int, firstSlice bool) NAL {
		if fam == "avc" {
			fmb := 0
			if !firstSlice {
				fmb = r.Range(1, 3000)
			}
			return genAVCSlice(r, ap, avcSliceOpts{IDR: idr, FirstMB: fmb, Total: total})
		}
		return genHEVCSlice(r, hp, hevcSliceOpts{IDR: idr, First: firstSlice, Total: total})
	}
	if sh.ManySlices > 0 && firstOfFile {
		nals = append(nals, nonVCL(fam, r, aud, 2))
		for i := 0; i < sh.ManySlices; i++ {
			nals = append(nals, mkSlice(r.Range(140, 180), i == 0))
		}
		return nals
	}
	if sh.ClearRun > 0 && firstOfFile {
		// non-VCL NAL units followed by one VCL NAL unit whose clear lead-in is known:
		// cbcs: 4 + slice header length; cenc: a NAL of 108+16k bytes leaves 96 bytes
		// (length field included) clear under the Bento4-compatible split the library
		// documents (only used to aim the workload; the oracle does not rely on it).
		sl := mkSlice(108+16*r.Intn(4), true)
		lead := 96
		if sh.Scheme == "cbcs" {
			lead = 4 + sl.HdrMin
		}
		rest := sh.ClearRun - lead
		if r.Bool() && rest > 40 {
			n := nonVCL(fam, r, aud, r.Range(2, 3))
			nals = append(nals, n)
			rest -= 4 + len(n.Data)
		}
		typ := sei
		if r.Bool() {
			typ = filler
		}
		if rest-4 >= 2 {
			nals = append(nals, nonVCL(fam, r, typ, rest-4))
		}
		nals = append(nals, sl)
		return nals
	}
	if r.Chance(1, 2) {
		nals = append(nals, nonVCL(fam, r, aud, 2))
	}
	if idr && r.Bool() {
		if fam == "avc" {
			nals = append(nals, NAL{Type: spsT, Data: ap.SPS.NAL}, NAL{Type: ppsT, Data: ap.PPS[0].NAL})
		} else {
			nals = append(nals, NAL{Type: 32, Data: hp.VPS}, NAL{Type: spsT, Data: hp.SPS.NAL}, NAL{Type: ppsT, Data: hp.PPS[0].NAL})
		}
	}
	if r.Chance(1, 3) {
		nals = append(nals, nonVCL(fam, r, sei, r.PickInt(3, 17, 40, 200, 300)))
	}
	if *hugeBudget > 0 && r.Chance(1, 16) {
		*hugeBudget--
		size := r.PickInt(65536, 65531, 65600, 70000, 131100)
		typ := sei
		if r.Bool() {
			typ = filler
		}
		nals = append(nals, nonVCL(fam, r, typ, size+r.Intn(8)))
	}
	nvcl := r.PickInt(1, 1, 1, 2, 3, 5)
	for i := 0; i < nvcl; i++ {
		size, cls := pickVCLSize(r, *hugeBudget > 0)
		if cls == "70k" {
			*hugeBudget--
		}
		if sh.Small && size > 400 {
			size = r.Range(92, 130)
		}
		nals = append(nals, mkSlice(size, i == 0))
	}
	if fam == "avc" && sh.Scheme == "cenc" && r.Chance(1, 10) {
		// data-partitioned slice (14496-10 Table 7-1: nal_unit_type 2, 3, 4 are VCL NAL units too). Only
		// under cenc, where no slice header has to be understood; B and C carry none.
		for _, typ := range []int{2, 3, 4} {
			d := r.Bytes(r.PickInt(60, 128, 129, 144, 300, 500))
			d[0] = byte(2<<5 | typ)
			nals = append(nals, NAL{Type: typ, VCL: true, Data: d})
		}
	}
	if r.Chance(1, 5) {
		t := sei
		if fam == "hevc" {
			t = 40
		}
		nals = append(nals, nonVCL(fam, r, t, r.Range(2, 30)))
	}
	if r.Chance(1, 20) {
		size := 1
		if fam == "hevc" {
			size = 2
		}
		nals = append(nals, nonVCL(fam, r, eos, size))
	}
	return nals
}

// ivGuessSample builds sample si (0..2) of the IVGuess layout.
func ivGuessSample(r *runner.Rand, codec string, ap *avcParams, hp *hevcParams, si, n2 int) []NAL {
	fam, sei := "avc", 6
	if hp != nil {
		fam, sei = "hevc", 39
	}
	slice := func(total int, idr bool) NAL {
		if fam == "avc" {
			return genAVCSlice(r, ap, avcSliceOpts{IDR: idr, Total: total})
		}
		return genHEVCSlice(r, hp, hevcSliceOpts{IDR: idr, First: true, Total: total})
	}
	switch si {
	case 0:
		// one clear NAL unit: 4 + len = 4 + (entries of all three samples) => first clear count
		return []NAL{nonVCL(fam, r, sei, 2+n2)}
	case 1:
		nals := []NAL{slice(200+16*r.Intn(8), true)}
		if n2 >= 2 {
			nals = append(nals, nonVCL(fam, r, sei, r.Range(3, 20)))
		}
		return nals
	}
	return []NAL{nonVCL(fam, r, sei, r.Range(3, 60))}
}

// addExtras puts vendor/unknown/free/pssh boxes into traf and moof.
func addExtras(r *runner.Rand, f *mp4.Fragment, fr *Frag) error {
	if !r.Chance(1, 2) {
		return nil
	}
	traf := f.Moof.Traf
	mk := func(kind string) (mp4.Box, error) {
		switch kind {
		case "tfxd":
			return mp4.NewTfxdBox(r.Uint64()>>8, uint64(r.Intn(100000))), nil
		case "tfrf":
			return mp4.NewTfrfBox(2, []uint64{r.Uint64() >> 8, r.Uint64() >> 8}, []uint64{1000, 2000}), nil
		case "uuid-unknown":
			u := &mp4.UUIDBox{}
			if err := u.SetUUID(hex.EncodeToString(r.Bytes(16))); err != nil {
				return nil, err
			}
			u.UnknownPayload = r.Bytes(r.Range(0, 40))
			return u, nil
		case "unknown":
			p := r.Bytes(r.Range(0, 30))
			return mp4.CreateUnknownBox(r.PickStr("abcd", "zzzz", "vndr"), uint64(8+len(p)), p), nil
		case "free":
			return mp4.NewFreeBox(r.Bytes(r.Range(0, 24))), nil
		case "pssh":
			p, err := mp4.NewPsshBox("9a04f07998404286ab92e65be0885f95", nil, nil)
			if err != nil {
				return nil, err
			}
			p.Data = r.Bytes(r.Range(0, 30))
			return p, nil
		}
		return nil, fmt.Errorf("extra kind %s", kind)
	}
	n := r.Range(1, 3)
	for i := 0; i < n; i++ {
		kind := r.PickStr("tfxd", "tfrf", "uuid-unknown", "unknown", "free")
		b, err := mk(kind)
		if err != nil {
			return err
		}
		where := r.PickStr("end", "end", "before-trun", "after-tfhd")
		fr.Extras = append(fr.Extras, "traf/"+kind+"@"+where)
		insertChild(&traf.Children, b, where)
	}
	if r.Chance(1, 4) && traf.Trun != nil {
		// a sample group that is not protection signalling (pre-roll): sgpd + sbgp 'roll'
		sgpd := &mp4.SgpdBox{Version: 1, GroupingType: "roll", DefaultLength: 2,
			SampleGroupEntries: []mp4.SampleGroupEntry{&mp4.RollSampleGroupEntry{RollDistance: int16(-1 - r.Intn(3))}}}
		sbgp := &mp4.SbgpBox{GroupingType: "roll", SampleCounts: []uint32{traf.Trun.SampleCount()}, GroupDescriptionIndices: []uint32{65537}}
		where := r.PickStr("end", "before-trun")
		fr.Extras = append(fr.Extras, "traf/sgpd+sbgp-roll@"+where)
		insertChild(&traf.Children, sgpd, where)
		insertChild(&traf.Children, sbgp, where)
	}
	for nm := r.PickInt(0, 0, 1, 1, 2, 3); nm > 0; nm-- {
		kind := r.PickStr("free", "unknown", "pssh", "pssh")
		b, err := mk(kind)
		if err != nil {
			return err
		}
		if r.Bool() {
			fr.Extras = append(fr.Extras, "moof/"+kind+"@end")
			_ = f.Moof.AddChild(b)
		} else {
			fr.Extras = append(fr.Extras, "moof/"+kind+"@before-traf")
			// keep the typed pointers of MoofBox consistent: add, then move
			_ = f.Moof.AddChild(b)
			ch := f.Moof.Children
			last := ch[len(ch)-1]
			copy(ch[2:], ch[1:len(ch)-1])
			ch[1] = last
		}
	}
	return nil
}

func insertChild(children *[]mp4.Box, b mp4.Box, where string) {
	ch := *children
	pos := len(ch)
	switch where {
	case "before-trun":
		for i, c := range ch {
			if c.Type() == "trun" {
				pos = i
				break
			}
		}
	case "after-tfhd":
		for i, c := range ch {
			if c.Type() == "tfhd" {
				pos = i + 1
				break
			}
		}
	}
	ch = append(ch, nil)
	copy(ch[pos+1:], ch[pos:])
	ch[pos] = b
	*children = ch
}
