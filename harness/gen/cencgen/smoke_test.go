package cencgen

import (
	"fmt"
	"testing"

	"github.com/Eyevinn/mp4ff/avc"
	"github.com/Eyevinn/mp4ff/hevc"

	"verifharness/runner"
)

// Development aid: compares the generator's slice-header lengths with the
// library's parsers given the *correct* SPS (looked up by the generator), to
// find generator bugs. Disagreements are printed, not failed.
func TestSmokeHeaders(t *testing.T) {
	stats := map[string]int{}
	for seed := 0; seed < 3000; seed++ {
		r := runner.NewRand(uint64(seed), 77)
		c, err := Generate(r, Shape{Small: true})
		if err != nil {
			t.Fatalf("seed %d: %v", seed, err)
		}
		if c.Media != "video" {
			continue
		}
		for _, fr := range c.Frags {
			for _, s := range fr.Samples {
				for _, n := range s.NALs {
					if !n.VCL {
						continue
					}
					stats[c.Codec+"/vcl"]++
					if n.HdrMin != n.HdrMax {
						stats["ambiguous"]++
					}
				}
			}
		}
	}
	fmt.Println(stats)
}

func TestSmokeAVCParse(t *testing.T) {
	bad := 0
	for seed := 0; seed < 4000 && bad < 10; seed++ {
		r := runner.NewRand(uint64(seed), 78)
		ap := genAVCParams(r)
		sps, err := avc.ParseSPSNALUnit(ap.SPS.NAL, false)
		if err != nil {
			t.Fatalf("sps: %v", err)
		}
		if int(sps.ParameterID) != ap.SPS.ID || int(sps.Log2MaxFrameNumMinus4)+4 != ap.SPS.Log2MaxFrameNum {
			t.Fatalf("sps fields %+v vs %+v", sps, ap.SPS)
		}
		// maps keyed the way the spec says: PPS by pps id; SPS under the PPS's id too (works around the library's lookup)
		spsMap := map[uint32]*avc.SPS{uint32(ap.SPS.ID): sps}
		ppsMap := map[uint32]*avc.PPS{}
		for _, p := range ap.PPS {
			pps, err := avc.ParsePPSNALUnit(p.NAL, spsMap)
			if err != nil {
				t.Fatalf("pps: %v", err)
			}
			if int(pps.PicParameterSetID) != p.ID || int(pps.SeqParameterSetID) != p.SPSID {
				t.Fatalf("pps ids")
			}
			ppsMap[uint32(p.ID)] = pps
			spsMap[uint32(p.ID)] = sps
		}
		for k := 0; k < 20; k++ {
			n := genAVCSlice(r, ap, avcSliceOpts{IDR: k%3 == 0, FirstMB: k, Total: r.Range(5, 200)})
			sh, err := avc.ParseSliceHeader(n.Data, spsMap, ppsMap)
			if err != nil {
				t.Errorf("seed %d: parse: %v", seed, err)
				bad++
				continue
			}
			if int(sh.Size) < n.HdrMin || int(sh.Size) > n.HdrMax {
				t.Errorf("seed %d k %d: lib size %d, gen [%d,%d] nal %x sps %+v", seed, k, sh.Size, n.HdrMin, n.HdrMax, n.Data[:min(len(n.Data), 24)], ap.SPS)
				bad++
			}
		}
	}
}

func TestSmokeHEVCParse(t *testing.T) {
	bad := 0
	for seed := 0; seed < 4000 && bad < 10; seed++ {
		r := runner.NewRand(uint64(seed), 79)
		hp := genHEVCParams(r)
		sps, err := hevc.ParseSPSNALUnit(hp.SPS.NAL)
		if err != nil {
			t.Fatalf("sps: %v", err)
		}
		if int(sps.SpsID) != hp.SPS.ID {
			t.Fatalf("sps id")
		}
		spsMap := map[uint32]*hevc.SPS{uint32(hp.SPS.ID): sps}
		ppsMap := map[uint32]*hevc.PPS{}
		for _, p := range hp.PPS {
			pps, err := hevc.ParsePPSNALUnit(p.NAL, spsMap)
			if err != nil {
				t.Fatalf("pps: %v", err)
			}
			if int(pps.PicParameterSetID) != p.ID || int(pps.SeqParameterSetID) != p.SPSID {
				t.Fatalf("pps ids")
			}
			ppsMap[uint32(p.ID)] = pps
		}
		for k := 0; k < 20; k++ {
			n := genHEVCSlice(r, hp, hevcSliceOpts{IDR: k%3 == 0, First: k%2 == 0, Total: r.Range(5, 200)})
			sh, err := hevc.ParseSliceHeader(n.Data, spsMap, ppsMap)
			if err != nil {
				t.Errorf("seed %d: parse: %v  nal %x", seed, err, n.Data[:min(len(n.Data), 24)])
				bad++
				continue
			}
			if int(sh.Size) < n.HdrMin || int(sh.Size) > n.HdrMax {
				t.Errorf("seed %d k %d: lib size %d, gen [%d,%d] nal %x", seed, k, sh.Size, n.HdrMin, n.HdrMax, n.Data[:min(len(n.Data), 24)])
				bad++
			}
		}
	}
}

func min(a, b int) int {
	if a < b {
		return a
	}
	return b
}
