package cencgen

import (
	"bytes"
	"fmt"
	"os"
	"os/exec"
	"path/filepath"
	"strings"
)

// ToolError is a non-zero exit of a tool binary.
type ToolError struct {
	Tool   string
	Args   []string
	Stderr string
}

func (e *ToolError) Error() string {
	return fmt.Sprintf("%s %s: %s", e.Tool, strings.Join(e.Args, " "), strings.TrimSpace(e.Stderr))
}

func runTool(bin string, args ...string) error {
	cmd := exec.Command(bin, args...)
	var eb bytes.Buffer
	cmd.Stderr = &eb
	cmd.Stdout = &eb
	if err := cmd.Run(); err != nil {
		if _, ok := err.(*exec.ExitError); ok {
			s := eb.String()
			if len(s) > 600 {
				s = s[:600]
			}
			return &ToolError{Tool: filepath.Base(bin), Args: args, Stderr: s}
		}
		return fmt.Errorf("cannot run %s: %v", bin, err)
	}
	return nil
}

// Tools drives the mp4ff-encrypt / mp4ff-decrypt binaries on files.
type Tools struct {
	BinDir  string // directory holding the binaries
	Scratch string // private directory for the files
	n       int
}

func (t *Tools) path(name string) string {
	t.n++
	return filepath.Join(t.Scratch, fmt.Sprintf("%d-%s", t.n, name))
}

// Available tells whether both binaries exist.
func (t *Tools) Available() bool {
	for _, b := range []string{"mp4ff-encrypt", "mp4ff-decrypt"} {
		if st, err := os.Stat(filepath.Join(t.BinDir, b)); err != nil || st.IsDir() {
			return false
		}
	}
	return true
}

// Encrypt runs mp4ff-encrypt. separate=false: one combined file.
// separate=true: the init segment is encrypted on its own, then every media
// segment with -init <encrypted init>.
func (t *Tools) Encrypt(c *Case, cfg Config, separate bool) (*EncOut, error) {
	bin := filepath.Join(t.BinDir, "mp4ff-encrypt")
	var tmp []string
	defer func() {
		for _, f := range tmp {
			_ = os.Remove(f)
		}
	}()
	write := func(name string, b []byte) (string, error) {
		p := t.path(name)
		tmp = append(tmp, p)
		return p, os.WriteFile(p, b, 0o644)
	}
	base := []string{"-key", cfg.KeyHex(), "-iv", cfg.IVHex()}
	full := append(append([]string{}, base...), "-kid", cfg.KIDHex(), "-scheme", cfg.Scheme)
	if cfg.Pssh {
		pf, err := write("pssh.bin", PsshBytes(cfg))
		if err != nil {
			return nil, err
		}
		full = append(full, "-pssh", pf)
	}
	if !separate {
		in, err := write("clear.mp4", c.File())
		if err != nil {
			return nil, err
		}
		out := t.path("enc.mp4")
		tmp = append(tmp, out)
		if err := runTool(bin, append(full, in, out)...); err != nil {
			return nil, err
		}
		b, err := os.ReadFile(out)
		if err != nil {
			return nil, err
		}
		return &EncOut{Media: b}, nil
	}
	in, err := write("clear-init.mp4", c.Init)
	if err != nil {
		return nil, err
	}
	encInit := t.path("enc-init.mp4")
	tmp = append(tmp, encInit)
	if err := runTool(bin, append(full, in, encInit)...); err != nil {
		return nil, err
	}
	res := &EncOut{}
	if res.Init, err = os.ReadFile(encInit); err != nil {
		return nil, err
	}
	for i, seg := range c.Segs {
		sin, err := write(fmt.Sprintf("clear-seg%d.m4s", i), seg)
		if err != nil {
			return nil, err
		}
		sout := t.path(fmt.Sprintf("enc-seg%d.m4s", i))
		tmp = append(tmp, sout)
		if err := runTool(bin, append(append([]string{}, base...), "-init", encInit, sin, sout)...); err != nil {
			return nil, err
		}
		b, err := os.ReadFile(sout)
		if err != nil {
			return nil, err
		}
		res.Media = append(res.Media, b...)
	}
	return res, nil
}

// Decrypt runs mp4ff-decrypt on a combined file (init == nil) or on media
// with a separate (encrypted) init segment.
func (t *Tools) Decrypt(init, media []byte, keyHex string) ([]byte, error) {
	bin := filepath.Join(t.BinDir, "mp4ff-decrypt")
	var tmp []string
	defer func() {
		for _, f := range tmp {
			_ = os.Remove(f)
		}
	}()
	in := t.path("enc.mp4")
	out := t.path("dec.mp4")
	tmp = append(tmp, in, out)
	if err := os.WriteFile(in, media, 0o644); err != nil {
		return nil, err
	}
	args := []string{"-key", keyHex}
	if init != nil {
		ip := t.path("enc-init.mp4")
		tmp = append(tmp, ip)
		if err := os.WriteFile(ip, init, 0o644); err != nil {
			return nil, err
		}
		args = append(args, "-init", ip)
	}
	if err := runTool(bin, append(args, in, out)...); err != nil {
		return nil, err
	}
	return os.ReadFile(out)
}
