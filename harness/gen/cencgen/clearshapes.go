package cencgen

import (
	"bytes"
	"encoding/binary"
	"fmt"

	"verifharness/mut"
	"verifharness/ref/boxwalk"
	"verifharness/ref/cenc"
	"verifharness/runner"
)

// Byte-level rewrites of a CLEAR single-track input (editable tree of
// verifharness/mut over the independent walker) that give it shapes the
// library's own writer never produces but that are legal ISO BMFF:
//
//   * AddMoovExtras: the moov of the clear init already carries boxes behind /
//     between which InitProtect will append its pssh boxes: left-over pssh
//     boxes, unknown four-character codes, vendor uuid, free, udta.
//   * TrexOnlyDefaults: sample duration / size / flags are signalled by the
//     trex defaults only (no per-sample value in trun, no default in tfhd).
//
// The generator's ground truth (Case.Frags) is not touched; VerifyClear reads
// the rewritten input with the reference readers and compares it with that
// ground truth before the input is used.

// clone returns a copy of c whose Init, Segs and Traits can be replaced
// without touching c (the real streams are cached and shared between cases).
func (c *Case) clone() *Case {
	d := *c
	d.Traits = append([]string(nil), c.Traits...)
	d.Segs = append([][]byte(nil), c.Segs...)
	return &d
}

func psshPayload(r *runner.Rand) []byte {
	sys := r.Bytes(16)
	if r.Bool() {
		sys = []byte{0x9a, 0x04, 0xf0, 0x79, 0x98, 0x40, 0x42, 0x86, 0xab, 0x92, 0xe6, 0x5b, 0xe0, 0x88, 0x5f, 0x95}
	}
	var p []byte
	data := r.Bytes(r.Range(0, 30))
	if r.Chance(1, 3) {
		nk := r.Range(0, 2)
		p = append(p, 1, 0, 0, 0)
		p = append(p, sys...)
		p = binary.BigEndian.AppendUint32(p, uint32(nk))
		p = append(p, r.Bytes(16*nk)...)
	} else {
		p = append(p, 0, 0, 0, 0)
		p = append(p, sys...)
	}
	p = binary.BigEndian.AppendUint32(p, uint32(len(data)))
	return append(p, data...)
}

// AddMoovExtras inserts 1..4 extra children into the moov of the clear init:
// kinds pssh | unknown (abcd, zzzz, vndr) | uuid (random extended type) | free
// | udta (empty or with one unknown child), each at the end of moov (3/4),
// right behind mvhd or in front of the last child of the original moov. The
// returned names are "<kind>@<where>" in the order of insertion.
func AddMoovExtras(r *runner.Rand, c *Case) (*Case, []string, error) {
	es := mut.Parse(c.Init)
	if es == nil {
		return nil, nil, fmt.Errorf("init does not tile")
	}
	var moov *mut.E
	for _, e := range es {
		if e.Type == "moov" {
			moov = e
		}
	}
	if moov == nil || len(moov.Children) == 0 || moov.Children[0].Type != "mvhd" {
		return nil, nil, fmt.Errorf("init without moov/mvhd")
	}
	n := r.Range(1, 4)
	var names []string
	for i := 0; i < n; i++ {
		kind := r.PickStr("pssh", "pssh", "pssh", "unknown", "unknown", "uuid", "free", "udta")
		var e *mut.E
		switch kind {
		case "pssh":
			e = &mut.E{Type: "pssh", Payload: psshPayload(r)}
		case "unknown":
			e = &mut.E{Type: r.PickStr("abcd", "zzzz", "vndr"), Payload: r.Bytes(r.Range(0, 30))}
		case "uuid":
			e = &mut.E{Type: "uuid", Payload: append(r.Bytes(16), r.Bytes(r.Range(0, 40))...)}
		case "free":
			e = &mut.E{Type: "free", Payload: r.Bytes(r.Range(0, 24))}
		case "udta":
			e = &mut.E{Type: "udta", Container: true}
			if r.Bool() {
				e.Children = []*mut.E{{Type: r.PickStr("abcd", "vndr"), Payload: r.Bytes(r.Range(0, 20))}}
			}
		}
		where := r.PickStr("end", "end", "end", "end", "end", "end", "after-mvhd", "before-last")
		pos := len(moov.Children)
		switch where {
		case "after-mvhd":
			pos = 1
		case "before-last":
			// in front of the last child of the original moov (trak or mvex); earlier
			// insertions behind mvhd have shifted it
			pos = len(moov.Children) - 1
			for k, ch := range moov.Children {
				if ch.Type == "trak" || ch.Type == "mvex" {
					pos = k
				}
			}
		}
		ch := append(moov.Children, nil)
		copy(ch[pos+1:], ch[pos:])
		ch[pos] = e
		moov.Children = ch
		names = append(names, kind+"@"+where)
	}
	d := c.clone()
	d.Init = mut.Serialize(es)
	d.Traits = append(d.Traits, "moov-extras")
	return d, names, nil
}

// MoovLayout describes the children of the moov in b as a short string, e.g.
// "mvhd mvex trak pssh vndr" (unknown types and uuid spelled out; used for
// the evidence only).
func MoovLayout(b []byte) string {
	nodes, err := boxwalk.Walk(b)
	if err != nil {
		return "?"
	}
	s := ""
	for _, n := range nodes {
		if n.Type != "moov" {
			continue
		}
		for _, ch := range n.Children {
			if s != "" {
				s += " "
			}
			s += ch.Type
		}
	}
	return s
}

// PsshNeighbourhood classifies the moov children of b for the evidence:
// how many pssh boxes there are and whether a non-pssh box sits between two of
// them ("pssh=2/separated") or whether they are neighbours ("pssh=2/adjacent").
func PsshNeighbourhood(b []byte) string {
	nodes, err := boxwalk.Walk(b)
	if err != nil {
		return "?"
	}
	for _, n := range nodes {
		if n.Type != "moov" {
			continue
		}
		first, last, cnt := -1, -1, 0
		for i, ch := range n.Children {
			if ch.Type == "pssh" {
				if first < 0 {
					first = i
				}
				last = i
				cnt++
			}
		}
		switch {
		case cnt == 0:
			return "pssh=0"
		case cnt == 1:
			if last == len(n.Children)-1 {
				return "pssh=1/last"
			}
			return "pssh=1/followed-by-other-box"
		case last-first+1 == cnt:
			return fmt.Sprintf("pssh=%d/adjacent", cap4(cnt))
		}
		return fmt.Sprintf("pssh=%d/separated-by-other-box", cap4(cnt))
	}
	return "?"
}

func cap4(n int) int {
	if n > 4 {
		return 4
	}
	return n
}

// trunLayout is the field layout of a trun payload.
type trunLayout struct {
	flags uint32
	count int
	hdr   int // bytes before the first per-sample row
	row   int // bytes per row
	off   map[uint32]int
}

func layoutTrun(p []byte) (*trunLayout, error) {
	if len(p) < 8 {
		return nil, fmt.Errorf("trun payload of %d bytes", len(p))
	}
	l := &trunLayout{flags: binary.BigEndian.Uint32(p) & 0xffffff, count: int(binary.BigEndian.Uint32(p[4:])), hdr: 8, off: map[uint32]int{}}
	if l.flags&0x1 != 0 {
		l.hdr += 4
	}
	if l.flags&0x4 != 0 {
		l.hdr += 4
	}
	for _, f := range []uint32{0x100, 0x200, 0x400, 0x800} {
		if l.flags&f != 0 {
			l.off[f] = l.row
			l.row += 4
		}
	}
	if l.hdr+l.count*l.row != len(p) {
		return nil, fmt.Errorf("trun: %d rows of %d bytes do not fill the payload", l.count, l.row)
	}
	return l, nil
}

// tfhdFieldOff is the offset of an optional tfhd field within the payload.
func tfhdFieldOff(pl []byte, bit byte) int {
	off := 8
	for _, f := range []struct {
		bit byte
		n   int
	}{{0x01, 8}, {0x02, 4}, {0x08, 4}, {0x10, 4}, {0x20, 4}} {
		if f.bit == bit {
			break
		}
		if pl[3]&f.bit != 0 {
			off += f.n
		}
	}
	return off
}

// TrexOnlyDefaults rewrites the clear input so that sample duration, size and
// flags are signalled by the trex box alone wherever that is possible without
// changing any sample (ISO/IEC 14496-12 §8.8.3, §8.8.7, §8.8.8: per-sample
// value in trun, else tfhd default, else trex default):
//
//	hoist=false: a tfhd default that every fragment of the track carries with
//	             the same value is moved into trex (the move that Merge does
//	             on the encrypted files, here done BEFORE encryption);
//	hoist=true:  in addition, a field whose effective value is the same for
//	             every sample of the track is taken out of every trun (and every
//	             tfhd) and written to trex (flags only when no trun has
//	             first_sample_flags).
//
// The trun data_offset of every fragment is reduced by the number of bytes
// its moof lost. Returns nil, nil, nil where the input is outside the shape
// the rewrite handles (several trafs or truns, base_data_offset, no data
// offset) or where nothing could be moved. The names are "duration", "size",
// "flags", with the suffix "/hoisted-from-trun" when trun rows were rewritten.
func TrexOnlyDefaults(c *Case, hoist bool) (*Case, []string, error) {
	ies := mut.Parse(c.Init)
	if ies == nil {
		return nil, nil, fmt.Errorf("init does not tile")
	}
	var trex *mut.E
	ntrak := 0
	for _, e := range ies {
		if e.Type != "moov" {
			continue
		}
		for _, ch := range e.Children {
			if ch.Type == "trak" {
				ntrak++
			}
		}
		trex = descend(e, "mvex", "trex")
	}
	if trex == nil || ntrak != 1 || len(trex.Payload) != 24 {
		return nil, nil, nil
	}
	type frag struct {
		moof, tfhd, trun *mut.E
		size0            int
	}
	var frags []*frag
	segs := make([][]*mut.E, len(c.Segs))
	for i, sg := range c.Segs {
		segs[i] = mut.Parse(sg)
		if segs[i] == nil {
			return nil, nil, fmt.Errorf("segment %d does not tile", i)
		}
		for _, e := range segs[i] {
			if e.Type != "moof" {
				continue
			}
			f := &frag{moof: e, size0: e.Size()}
			ntraf := 0
			for _, ch := range e.Children {
				if ch.Type != "traf" {
					continue
				}
				ntraf++
				for _, tc := range ch.Children {
					switch tc.Type {
					case "tfhd":
						f.tfhd = tc
					case "trun":
						if f.trun != nil {
							return nil, nil, nil // several truns
						}
						f.trun = tc
					}
				}
			}
			if ntraf != 1 || f.tfhd == nil || f.trun == nil || len(f.tfhd.Payload) < 8 || f.tfhd.Payload[3]&0x01 != 0 ||
				len(f.trun.Payload) < 12 || f.trun.Payload[3]&0x01 == 0 {
				return nil, nil, nil
			}
			frags = append(frags, f)
		}
	}
	if len(frags) == 0 {
		return nil, nil, nil
	}
	var moved []string
	for _, fld := range []struct {
		name    string
		tfhdBit byte
		trunBit uint32
		trexOff int
	}{{"duration", 0x08, 0x100, 12}, {"size", 0x10, 0x200, 16}, {"flags", 0x20, 0x400, 20}} {
		// effective value of the field for every sample of the track
		same, any, fromTrun, inAllTfhd := true, false, false, true
		var val uint32
		see := func(v uint32) {
			if any && v != val {
				same = false
			}
			val, any = v, true
		}
		tfhdSame, tfhdAny := true, false
		var tfhdVal uint32
		for _, f := range frags {
			l, err := layoutTrun(f.trun.Payload)
			if err != nil {
				return nil, nil, err
			}
			if fld.trunBit == 0x400 && l.flags&0x4 != 0 {
				same = false // first_sample_flags: not one value for the whole run
			}
			hasDef := f.tfhd.Payload[3]&fld.tfhdBit != 0
			var def uint32
			if hasDef {
				off := tfhdFieldOff(f.tfhd.Payload, fld.tfhdBit)
				if off+4 > len(f.tfhd.Payload) {
					return nil, nil, fmt.Errorf("tfhd too short")
				}
				def = binary.BigEndian.Uint32(f.tfhd.Payload[off:])
				if tfhdAny && def != tfhdVal {
					tfhdSame = false
				}
				tfhdVal, tfhdAny = def, true
			} else {
				inAllTfhd = false
			}
			if l.flags&fld.trunBit != 0 {
				if l.count > 0 {
					fromTrun = true
				}
				for i := 0; i < l.count; i++ {
					see(binary.BigEndian.Uint32(f.trun.Payload[l.hdr+i*l.row+l.off[fld.trunBit]:]))
				}
			} else if l.count > 0 {
				if hasDef {
					see(def)
				} else {
					see(binary.BigEndian.Uint32(trex.Payload[fld.trexOff:]))
				}
			}
		}
		stripTfhd := func() {
			for _, f := range frags {
				if f.tfhd.Payload[3]&fld.tfhdBit == 0 {
					continue
				}
				off := tfhdFieldOff(f.tfhd.Payload, fld.tfhdBit)
				f.tfhd.Payload = append(append([]byte(nil), f.tfhd.Payload[:off]...), f.tfhd.Payload[off+4:]...)
				f.tfhd.Payload[3] &^= fld.tfhdBit
			}
		}
		switch {
		case hoist && same && any && (fromTrun || tfhdAny):
			for _, f := range frags {
				l, _ := layoutTrun(f.trun.Payload)
				if l.flags&fld.trunBit == 0 {
					continue
				}
				np := append([]byte(nil), f.trun.Payload[:l.hdr]...)
				fo := l.off[fld.trunBit]
				for i := 0; i < l.count; i++ {
					row := f.trun.Payload[l.hdr+i*l.row : l.hdr+(i+1)*l.row]
					np = append(np, row[:fo]...)
					np = append(np, row[fo+4:]...)
				}
				binary.BigEndian.PutUint32(np, (uint32(np[0])<<24)|(l.flags&^fld.trunBit))
				f.trun.Payload = np
			}
			stripTfhd()
			binary.BigEndian.PutUint32(trex.Payload[fld.trexOff:], val)
			if fromTrun {
				moved = append(moved, fld.name+"/hoisted-from-trun")
			} else {
				moved = append(moved, fld.name)
			}
		case inAllTfhd && tfhdSame && tfhdAny:
			// the plain move: every tfhd has the default with one value. Where the truns carry
			// per-sample values the default was not in use and trex is not either.
			stripTfhd()
			binary.BigEndian.PutUint32(trex.Payload[fld.trexOff:], tfhdVal)
			moved = append(moved, fld.name)
		}
	}
	if len(moved) == 0 {
		return nil, nil, nil
	}
	for _, f := range frags {
		lost := f.size0 - f.moof.Size()
		do := int32(binary.BigEndian.Uint32(f.trun.Payload[8:])) - int32(lost)
		binary.BigEndian.PutUint32(f.trun.Payload[8:], uint32(do))
	}
	d := c.clone()
	d.Init = mut.Serialize(ies)
	for i := range segs {
		d.Segs[i] = mut.Serialize(segs[i])
	}
	d.Traits = append(d.Traits, "trex-only-defaults")
	return d, moved, nil
}

// SizeSignalledByTrexOnly tells, from the bytes of the clear input, whether
// some fragment with samples has neither per-sample sizes in its trun nor a
// default sample size in its tfhd (evidence only).
func SizeSignalledByTrexOnly(c *Case) bool {
	b := c.MediaBytes()
	nodes, err := boxwalk.Walk(b)
	if err != nil {
		return false
	}
	for _, m := range nodes {
		if m.Type != "moof" {
			continue
		}
		for _, t := range m.Children {
			if t.Type != "traf" {
				continue
			}
			hn, rn := t.Child("tfhd"), t.Child("trun")
			if hn == nil || rn == nil {
				continue
			}
			h, err1 := cenc.ParseTfhd(hn.Payload(b))
			tr, err2 := cenc.ParseTrun(rn.Payload(b))
			if err1 == nil && err2 == nil && tr.Count > 0 && tr.Flags&0x200 == 0 && !h.HasSize {
				return true
			}
		}
	}
	return false
}

// VerifyClear reads the clear input with the reference readers and compares
// it with the generator's ground truth (fragment count, one traf per
// fragment, per sample: size, duration, flags, composition offset, decode
// time, bytes). Used as the self-check of the byte-level rewrites.
func VerifyClear(c *Case) error {
	b := c.File()
	nodes, err := boxwalk.Walk(b)
	if err != nil {
		return fmt.Errorf("does not tile: %v", err)
	}
	prots, err := cenc.TrackProtections(b, nodes)
	if err != nil || len(prots) != 1 || prots[0].EntryType != c.Codec || prots[0].Sinf != nil {
		return fmt.Errorf("sample entry unreadable or changed")
	}
	trex, err := cenc.TrexMap(b, nodes)
	if err != nil {
		return fmt.Errorf("trex: %v", err)
	}
	fi := 0
	for _, m := range nodes {
		if m.Type != "moof" {
			continue
		}
		if fi >= len(c.Frags) {
			return fmt.Errorf("more fragments than generated")
		}
		trs, err := cenc.LocateFragment(b, m, trex)
		if err != nil || len(trs) != 1 {
			return fmt.Errorf("fragment %d unreadable", fi)
		}
		ss := trs[0].Samples()
		gt := c.Frags[fi].Samples
		if len(ss) != len(gt) {
			return fmt.Errorf("fragment %d: sample count", fi)
		}
		for i, s := range ss {
			g := gt[i]
			if s.Size != uint32(len(g.Data)) || s.Dur != g.Dur || s.Flags != g.Flags || s.Cto != int64(g.Cto) || s.DecodeTime != g.DecodeTime {
				return fmt.Errorf("fragment %d sample %d: sample table differs from the generated one", fi, i)
			}
			if !bytes.Equal(b[s.Off:s.Off+int(s.Size)], g.Data) {
				return fmt.Errorf("fragment %d sample %d: bytes differ from the generated ones", fi, i)
			}
		}
		fi++
	}
	if fi != len(c.Frags) {
		return fmt.Errorf("%d fragments, %d generated", fi, len(c.Frags))
	}
	return nil
}
