package cencgen

import (
	"testing"

	"github.com/Eyevinn/mp4ff/hevc"

	"verifharness/runner"
)

// The reference-picture shapes (Shape.RefPics): the library's parser, the generator and ref/h265 agree on
// the header length, and the shapes the stream is there for are reached.
func TestSmokeHEVCRefPics(t *testing.T) {
	bad := 0
	seen := map[string]int{}
	for seed := 0; seed < 3000 && bad < 10; seed++ {
		r := runner.NewRand(uint64(seed), 79)
		hp := genHEVCParamsX(r, runner.NewRand(uint64(seed), 80))
		sps, err := hevc.ParseSPSNALUnit(hp.SPS.NAL)
		if err != nil {
			t.Fatalf("sps: %v", err)
		}
		spsMap := map[uint32]*hevc.SPS{uint32(hp.SPS.ID): sps}
		ppsMap := map[uint32]*hevc.PPS{}
		for _, p := range hp.PPS {
			pps, err := hevc.ParsePPSNALUnit(p.NAL, spsMap)
			if err != nil {
				t.Fatalf("pps: %v", err)
			}
			ppsMap[uint32(p.ID)] = pps
		}
		for k := 0; k < 20; k++ {
			n := genHEVCSlice(r, hp, hevcSliceOpts{IDR: k%5 == 0, First: k%2 == 0, Total: r.Range(5, 200)})
			for _, tg := range n.Tags {
				seen[tg]++
			}
			sh, err := hevc.ParseSliceHeader(n.Data, spsMap, ppsMap)
			if err != nil {
				t.Errorf("seed %d: parse: %v  tags %v nal %x", seed, err, n.Tags, n.Data[:min(len(n.Data), 24)])
				bad++
				continue
			}
			if int(sh.Size) < n.HdrMin || int(sh.Size) > n.HdrMax {
				t.Errorf("seed %d k %d: lib size %d, gen [%d,%d] tags %v nal %x", seed, k, sh.Size, n.HdrMin, n.HdrMax, n.Tags, n.Data[:min(len(n.Data), 24)])
				bad++
			}
		}
		if hp.SelfCheck != "" {
			t.Errorf("seed %d: self-check: %s", seed, hp.SelfCheck)
			bad++
		}
	}
	for _, want := range []string{"type=B", "type=P", "used-by-curr=s0:1,s1:0,lt:0", "used-by-curr=s0:0,s1:1,lt:0", "used-by-curr=s0:2,s1:1,lt:0",
		"used-by-curr=s0:1,s1:3,lt:0", "used-by-curr=s0:1,s1:0,lt:1", "lists-modification=absent/NumPicTotalCurr:1", "lists-modification=absent/NumPicTotalCurr:0",
		"lists-modification=present/l0:true,l1:true/entry-bits:2", "lists-modification=present/l0:false,l1:false/entry-bits:1", "lists-modification=present/l0:true,l1:false/entry-bits:3"} {
		if seen[want] == 0 {
			t.Errorf("shape %q never generated", want)
		}
	}
	t.Logf("%d distinct tags", len(seen))
}

// Without the extra stream no case fails the self-check against ref/h265 either.
func TestSelfCheckPlainShapes(t *testing.T) {
	for seed := 0; seed < 1500; seed++ {
		c, err := Generate(runner.NewRand(uint64(seed), 81), Shape{Codec: "hvc1", Small: true})
		if err != nil {
			t.Fatal(err)
		}
		if c.SelfCheck != "" {
			t.Fatalf("seed %d: %s", seed, c.SelfCheck)
		}
	}
}
