// Package cencgen generates clear single-track CMAF inputs for the C06/C07
// monitors and keeps its own ground truth of every sample: NAL unit
// boundaries, types, and — because the slice headers come from its own small
// serializer (ISO/IEC 14496-10 §7.3.3, ISO/IEC 23008-2 §7.3.6.1, written with
// ref/bitw) — the exact slice-header length in bytes. mp4ff's public API is
// used only to assemble the init segment and fragments.
package cencgen

import (
	"fmt"

	"verifharness/ref/bitw"
	"verifharness/runner"
)

// NAL is one NAL unit of a generated sample with its ground truth.
type NAL struct {
	Type int
	VCL  bool
	Data []byte // NAL header + EBSP payload (no length field)
	// HdrMin/HdrMax: length in bytes (NAL header included, emulation
	// prevention bytes included) of the part of the NAL unit that holds slice
	// header bits. They differ only when the header ends on a byte boundary
	// and an emulation prevention byte sits exactly between header and slice
	// data. 0 = unknown (real streams).
	HdrMin, HdrMax int
	// Tags: syntactic conditions of a generated HEVC slice segment header (slice type, source
	// of the short-term RPS, used-by-curr counts, presence of list modification) for the evidence.
	Tags []string
}

// avcSPS/avcPPS hold the parameters the slice header syntax depends on.
type avcSPS struct {
	ID               int
	Profile          int
	ChromaFormat     int
	SeparatePlanes   bool
	Log2MaxFrameNum  int
	PocType          int
	Log2MaxPocLsb    int
	DeltaAlwaysZero  bool
	FrameMbsOnly     bool
	WidthMbs, HgtMbs int
	NAL              []byte
}

type avcPPS struct {
	ID, SPSID          int
	CABAC              bool
	BottomFieldPOC     bool
	RedundantPicCnt    bool
	DeblockCtrl        bool
	NumRefL0, NumRefL1 int
	WeightedPred       bool
	WeightedBipred     int
	NAL                []byte
}

func highProfile(p int) bool {
	switch p {
	case 100, 110, 122, 244, 44, 83, 86, 118, 128, 138, 139, 134, 135:
		return true
	}
	return false
}

func (s *avcSPS) serialize() {
	w := &bitw.W{}
	w.Put(uint64(s.Profile), 8)
	w.Put(0, 8)
	w.Put(31, 8)
	w.UE(uint64(s.ID))
	if highProfile(s.Profile) {
		w.UE(uint64(s.ChromaFormat))
		if s.ChromaFormat == 3 {
			w.Flag(s.SeparatePlanes)
		}
		w.UE(0)
		w.UE(0)
		w.Flag(false)
		w.Flag(false)
	}
	w.UE(uint64(s.Log2MaxFrameNum - 4))
	w.UE(uint64(s.PocType))
	switch s.PocType {
	case 0:
		w.UE(uint64(s.Log2MaxPocLsb - 4))
	case 1:
		w.Flag(s.DeltaAlwaysZero)
		w.SE(-1)
		w.SE(1)
		w.UE(1)
		w.SE(2)
	}
	w.UE(2)       // max_num_ref_frames
	w.Flag(false) // gaps_in_frame_num_value_allowed_flag
	w.UE(uint64(s.WidthMbs - 1))
	w.UE(uint64(s.HgtMbs - 1))
	w.Flag(s.FrameMbsOnly)
	if !s.FrameMbsOnly {
		w.Flag(false) // mb_adaptive_frame_field_flag
	}
	w.Flag(true)  // direct_8x8_inference_flag
	w.Flag(false) // frame_cropping_flag
	w.Flag(false) // vui_parameters_present_flag
	w.TrailingBits()
	s.NAL = append([]byte{0x67}, bitw.Escape(w.Bytes())...)
}

func (p *avcPPS) serialize(sps *avcSPS) {
	w := &bitw.W{}
	w.UE(uint64(p.ID))
	w.UE(uint64(p.SPSID))
	w.Flag(p.CABAC)
	w.Flag(p.BottomFieldPOC)
	w.UE(0) // num_slice_groups_minus1
	w.UE(uint64(p.NumRefL0))
	w.UE(uint64(p.NumRefL1))
	w.Flag(p.WeightedPred)
	w.Put(uint64(p.WeightedBipred), 2)
	w.SE(0)
	w.SE(0)
	w.SE(-2)
	w.Flag(p.DeblockCtrl)
	w.Flag(false)
	w.Flag(p.RedundantPicCnt)
	if highProfile(sps.Profile) {
		w.Flag(true)  // transform_8x8_mode_flag
		w.Flag(false) // pic_scaling_matrix_present_flag
		w.SE(-2)
	}
	w.TrailingBits()
	p.NAL = append([]byte{0x68}, bitw.Escape(w.Bytes())...)
}

// avcParams is the parameter-set context of one generated AVC track.
type avcParams struct {
	SPS    *avcSPS
	Decoy  *avcSPS // optional second SPS whose id equals the PPS id (never referenced)
	PPS    []*avcPPS
	Traits []string
}

func genAVCSPS(r *runner.Rand, id int) *avcSPS {
	s := &avcSPS{ID: id, Profile: r.PickInt(66, 77, 100, 100), ChromaFormat: 1, FrameMbsOnly: !r.Chance(1, 4),
		WidthMbs: r.Range(1, 120), HgtMbs: r.Range(1, 68)}
	s.Log2MaxFrameNum = r.PickInt(4, 4, 5, 8, 9, 12, 15, 16)
	s.PocType = r.PickInt(0, 0, 0, 2, 1)
	s.Log2MaxPocLsb = r.PickInt(4, 5, 6, 8, 10, 16)
	s.DeltaAlwaysZero = r.Bool()
	if s.Profile == 100 && r.Chance(1, 8) {
		s.Profile = 122
		s.ChromaFormat = 3
		s.SeparatePlanes = true
	}
	s.serialize()
	return s
}

func genAVCParams(r *runner.Rand) *avcParams {
	ap := &avcParams{}
	spsID := r.PickInt(0, 0, 1, 3, 7, 31)
	ap.SPS = genAVCSPS(r, spsID)
	npps := r.PickInt(1, 1, 2)
	used := map[int]bool{}
	differ := false
	for i := 0; i < npps; i++ {
		var id int
		for {
			switch r.Intn(4) {
			case 0:
				id = spsID
			case 1:
				id = r.Intn(8)
			case 2:
				id = r.Intn(256)
			default:
				id = r.PickInt(0, 1, 2, 33, 255)
			}
			if !used[id] {
				break
			}
		}
		used[id] = true
		if id != spsID {
			differ = true
		}
		p := &avcPPS{ID: id, SPSID: spsID, CABAC: r.Bool(), BottomFieldPOC: r.Chance(1, 3), RedundantPicCnt: r.Chance(1, 4),
			DeblockCtrl: r.Bool(), NumRefL0: r.PickInt(0, 0, 1, 2), NumRefL1: r.PickInt(0, 1),
			WeightedPred: r.Chance(1, 5), WeightedBipred: r.PickInt(0, 0, 2, 1)}
		p.serialize(ap.SPS)
		ap.PPS = append(ap.PPS, p)
	}
	if differ {
		ap.Traits = append(ap.Traits, "ppsid!=spsid")
		// a decoy SPS carrying the id of the first PPS whose id differs and is a legal sps id
		for _, p := range ap.PPS {
			if p.ID != spsID && p.ID < 32 && r.Chance(2, 3) {
				d := genAVCSPS(r, p.ID)
				ap.Decoy = d
				ap.Traits = append(ap.Traits, "decoy-sps")
				break
			}
		}
	} else {
		ap.Traits = append(ap.Traits, "ppsid==spsid")
	}
	return ap
}

// avcSliceOpts selects the shape of one slice NAL unit.
type avcSliceOpts struct {
	IDR     bool
	FirstMB int
	Total   int // wanted total NAL size in bytes (header byte + EBSP); best effort, exact when >= minimal size
}

// genAVCSlice serializes one slice NAL unit of about o.Total bytes.
func genAVCSlice(r *runner.Rand, ap *avcParams, o avcSliceOpts) NAL {
	sps := ap.SPS
	pps := ap.PPS[r.Intn(len(ap.PPS))]
	nalType := 1
	refIDC := r.Intn(4)
	if o.IDR {
		nalType = 5
		refIDC = 1 + r.Intn(3)
	}
	// slice_type: 0 P, 1 B, 2 I (+5: all slices of the picture have this type)
	st := 2
	if !o.IDR {
		st = r.PickInt(0, 0, 1, 2)
	}
	stCode := st
	if r.Bool() {
		stCode += 5
	}
	w := &bitw.W{}
	w.UE(uint64(o.FirstMB))
	w.UE(uint64(stCode))
	w.UE(uint64(pps.ID))
	if sps.SeparatePlanes {
		w.Put(uint64(r.Intn(3)), 2)
	}
	fn := r.Uint64() & (1<<uint(sps.Log2MaxFrameNum) - 1)
	if r.Chance(1, 3) {
		fn = 0
	}
	w.Put(fn, sps.Log2MaxFrameNum)
	fieldPic := false
	if !sps.FrameMbsOnly {
		fieldPic = r.Bool()
		w.Flag(fieldPic)
		if fieldPic {
			w.Flag(r.Bool())
		}
	}
	if o.IDR {
		w.UE(uint64(r.PickInt(0, 1, 7, 300, 65535)))
	}
	switch sps.PocType {
	case 0:
		lsb := r.Uint64() & (1<<uint(sps.Log2MaxPocLsb) - 1)
		if r.Chance(1, 3) {
			lsb = 0
		}
		w.Put(lsb, sps.Log2MaxPocLsb)
		if pps.BottomFieldPOC && !fieldPic {
			w.SE(int64(r.Range(-3, 3)))
		}
	case 1:
		if !sps.DeltaAlwaysZero {
			w.SE(int64(r.Range(-70, 70)))
			if pps.BottomFieldPOC && !fieldPic {
				w.SE(int64(r.Range(-3, 3)))
			}
		}
	}
	if pps.RedundantPicCnt {
		w.UE(uint64(r.Intn(3)))
	}
	if st == 1 {
		w.Flag(r.Bool()) // direct_spatial_mv_pred_flag
	}
	nl0, nl1 := pps.NumRefL0, pps.NumRefL1
	if st == 0 || st == 1 {
		ov := r.Bool()
		w.Flag(ov)
		if ov {
			nl0 = r.Intn(4)
			w.UE(uint64(nl0))
			if st == 1 {
				nl1 = r.Intn(3)
				w.UE(uint64(nl1))
			}
		}
	}
	rplm := func() {
		m := r.Chance(1, 3)
		w.Flag(m)
		if m {
			for k := r.Intn(3); k > 0; k-- {
				op := r.Intn(3)
				w.UE(uint64(op))
				w.UE(uint64(r.Intn(40)))
			}
			w.UE(3)
		}
	}
	if st != 2 {
		rplm()
	}
	if st == 1 {
		rplm()
	}
	if (pps.WeightedPred && st == 0) || (pps.WeightedBipred == 1 && st == 1) {
		chroma := sps.ChromaFormat != 0 && !sps.SeparatePlanes
		w.UE(uint64(r.Intn(8)))
		if chroma {
			w.UE(uint64(r.Intn(8)))
		}
		table := func(n int) {
			for i := 0; i <= n; i++ {
				f := r.Bool()
				w.Flag(f)
				if f {
					w.SE(int64(r.Range(-128, 127)))
					w.SE(int64(r.Range(-128, 127)))
				}
				if chroma {
					f = r.Bool()
					w.Flag(f)
					if f {
						for j := 0; j < 2; j++ {
							w.SE(int64(r.Range(-128, 127)))
							w.SE(int64(r.Range(-128, 127)))
						}
					}
				}
			}
		}
		table(nl0)
		if st == 1 {
			table(nl1)
		}
	}
	if refIDC != 0 {
		if o.IDR {
			w.Flag(r.Bool())
			w.Flag(r.Bool())
		} else {
			ad := r.Chance(1, 3)
			w.Flag(ad)
			if ad {
				for k := r.Intn(3); k > 0; k-- {
					op := r.PickInt(1, 2, 3, 4, 5, 6)
					w.UE(uint64(op))
					if op == 1 || op == 3 {
						w.UE(uint64(r.Intn(20)))
					}
					if op == 2 {
						w.UE(uint64(r.Intn(20)))
					}
					if op == 3 || op == 6 {
						w.UE(uint64(r.Intn(5)))
					}
					if op == 4 {
						w.UE(uint64(r.Intn(5)))
					}
				}
				w.UE(0)
			}
		}
	}
	if pps.CABAC && st != 2 {
		w.UE(uint64(r.Intn(3)))
	}
	w.SE(int64(r.Range(-20, 20)))
	if pps.DeblockCtrl {
		idc := r.Intn(3)
		w.UE(uint64(idc))
		if idc != 1 {
			w.SE(int64(r.Range(-6, 6)))
			w.SE(int64(r.Range(-6, 6)))
		}
	}
	hdrBits := w.NBits()
	// slice_data(): CABAC starts with cabac_alignment_one_bit up to the byte
	// boundary, CAVLC continues at the next bit
	for w.NBits()%8 != 0 {
		if pps.CABAC {
			w.Put(1, 1)
		} else {
			w.Put(r.Uint64()&1, 1)
		}
	}
	rbspHdr := w.Bytes()
	return finishSlice(r, byte(refIDC<<5|nalType), nil, rbspHdr, hdrBits, o.Total, nalType, 1)
}

// finishSlice appends slice data to the header bytes so that the escaped NAL
// unit has (where possible) exactly total bytes, and computes the header
// length in escaped bytes. nalHdr2 is the second NAL header byte for HEVC.
func finishSlice(r *runner.Rand, nalHdr byte, nalHdr2 []byte, rbspHdr []byte, hdrBits, total, nalType, nalHdrLen int) NAL {
	nHdr := (hdrBits + 7) / 8
	if nHdr != len(rbspHdr) {
		panic(fmt.Sprintf("cencgen: header of %d bits but %d bytes", hdrBits, len(rbspHdr)))
	}
	escHdr := bitw.Escape(rbspHdr)
	want := total - nalHdrLen - len(escHdr)
	if want < 1 {
		want = 1 // at least one byte of slice data (it carries the rbsp trailing bits)
	}
	payload := make([]byte, want)
	for i := range payload {
		payload[i] = byte(1 + r.Intn(255))
	}
	if payload[0] <= 3 {
		payload[0] = 0x80 | payload[0]
	}
	// sometimes provoke emulation prevention inside the slice data
	if want >= 12 && r.Chance(1, 6) {
		n := 1 + r.Intn(2)
		for k := 0; k < n && len(payload) >= 12; k++ {
			pos := 2 + r.Intn(len(payload)-8)
			if pos > 0 && payload[pos-1] == 0 {
				continue
			}
			payload[pos], payload[pos+1], payload[pos+2] = 0, 0, byte(r.Intn(4))
			if payload[pos+3] == 0 {
				payload[pos+3] = 0x55
			}
			payload = payload[:len(payload)-1]
			if payload[len(payload)-1] == 0 {
				payload[len(payload)-1] = 0x80
			}
		}
	}
	rbsp := append(append([]byte{}, rbspHdr...), payload...)
	esc := bitw.Escape(rbsp)
	idx := bitw.EscapedIndex(rbsp)
	hmin := nalHdrLen + idx[nHdr-1] + 1
	hmax := hmin
	if hdrBits%8 == 0 && nHdr < len(rbsp) && idx[nHdr] == idx[nHdr-1]+2 {
		hmax = hmin + 1
	}
	data := append([]byte{nalHdr}, nalHdr2...)
	data = append(data, esc...)
	return NAL{Type: nalType, VCL: true, Data: data, HdrMin: hmin, HdrMax: hmax}
}
