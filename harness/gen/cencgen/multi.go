package cencgen

import (
	"encoding/binary"
	"fmt"
	"sort"
	"strings"

	"verifharness/mut"
	"verifharness/runner"
)

// Multi-track inputs. The library cannot encrypt a multi-track file, so the
// multi-track cases are assembled on the byte level (editable tree of
// verifharness/mut, driven by the independent walker): several single-track
// files (clear, or encrypted one by one through the library path) are merged
// into one file with one moov (trak boxes and trex boxes in independently
// chosen orders, track ids rewritten) and fragments that carry one traf or
// several trafs. The same MergePlan applied to the clear files gives the clear
// multi-track file the decrypted output is compared with.

// SlotTraf names one fragment of one source track.
type SlotTraf struct {
	Track int // index of the source track
	Frag  int // index of the fragment within that track
}

// Slot is one fragment (moof+mdat) of the merged file.
type Slot struct {
	Trafs     []SlotTraf // in the order of the traf boxes within the moof
	DataOrder []int      // order of the trafs' sample data within mdat (indices into Trafs)
}

// MergePlan describes the merged file.
type MergePlan struct {
	TrackIDs  []uint32 // new track id of source track i
	TrakOrder []int    // source track indices in the order of the trak boxes in moov
	TrexOrder []int    // source track indices in the order of the trex boxes in mvex
	MvexFirst bool     // mvex in front of the trak boxes (as CreateEmptyInit writes it) or behind them
	Shape     string   // alternating | multi-traf | mixed
	Slots     []Slot
	// TrexDefaults[i]: move the tfhd defaults (sample duration, size, flags) of
	// track i into its trex where every fragment of the track carries the same
	// value, so that reading the samples depends on the right trex box.
	TrexDefaults []bool
	Moved        []string // set by Merge: "<duration|size|flags>" per moved default
}

// rank returns, for an order of source tracks, the ranks of their track ids
// (1 = smallest id), e.g. "2,1".
func (p *MergePlan) rank(order []int) string {
	ids := append([]uint32(nil), p.TrackIDs...)
	sort.Slice(ids, func(i, j int) bool { return ids[i] < ids[j] })
	var s []string
	for _, t := range order {
		for k, id := range ids {
			if id == p.TrackIDs[t] {
				s = append(s, fmt.Sprint(k+1))
			}
		}
	}
	return strings.Join(s, ",")
}

// OrderKey is "trak[ranks of the track ids in trak order] trex[... in trex order]".
func (p *MergePlan) OrderKey() string {
	return "trak[" + p.rank(p.TrakOrder) + "] trex[" + p.rank(p.TrexOrder) + "]"
}

// SameOrder tells whether the trex boxes are in the order of the trak boxes.
func (p *MergePlan) SameOrder() bool {
	for i := range p.TrakOrder {
		if p.TrakOrder[i] != p.TrexOrder[i] {
			return false
		}
	}
	return true
}

// IDClass classifies the track ids.
func (p *MergePlan) IDClass() string {
	inOrder, large := true, false
	for k, t := range p.TrakOrder {
		if p.TrackIDs[t] != uint32(k+1) {
			inOrder = false
		}
		if p.TrackIDs[t] > 0xffff {
			large = true
		}
	}
	switch {
	case inOrder:
		return "1..n-in-trak-order"
	case large:
		return "sparse-with-id>65535"
	}
	return "sparse-or-permuted"
}

func (p *MergePlan) String() string {
	var sl []string
	for _, s := range p.Slots {
		var t []string
		for _, x := range s.Trafs {
			t = append(t, fmt.Sprintf("t%d.f%d", x.Track, x.Frag))
		}
		sl = append(sl, fmt.Sprintf("(%s data%v)", strings.Join(t, " "), s.DataOrder))
	}
	return fmt.Sprintf("ids%v trak%v trex%v mvexFirst=%v trexDefaults%v moved%v %s %s", p.TrackIDs, p.TrakOrder, p.TrexOrder, p.MvexFirst, p.TrexDefaults, p.Moved, p.Shape, strings.Join(sl, ""))
}

var trackIDPool = []uint32{1, 2, 3, 4, 5, 7, 16, 100, 255, 256, 1000, 65535, 65536, 0x7fffffff, 0x80000000, 0xfffffffe}

// GenMergePlan draws a plan for tracks with the given fragment counts.
func GenMergePlan(r *runner.Rand, nfrags []int) *MergePlan {
	n := len(nfrags)
	p := &MergePlan{MvexFirst: r.Bool()}
	// track ids: 1..n in some order, or distinct values of the pool
	if r.Bool() {
		for _, k := range r.Perm(n) {
			p.TrackIDs = append(p.TrackIDs, uint32(k+1))
		}
	} else {
		pp := r.Perm(len(trackIDPool))
		for i := 0; i < n; i++ {
			p.TrackIDs = append(p.TrackIDs, trackIDPool[pp[i]])
		}
	}
	p.TrakOrder = r.Perm(n)
	p.TrexOrder = r.Perm(n) // independent of the trak order (equal by chance: 1/2 for two tracks, 1/6 for three)
	for i := 0; i < n; i++ {
		p.TrexDefaults = append(p.TrexDefaults, r.Chance(2, 3))
	}
	p.Shape = r.PickStr("alternating", "multi-traf", "mixed")
	next := make([]int, n)
	remaining := func() []int {
		var t []int
		for i := range next {
			if next[i] < nfrags[i] {
				t = append(t, i)
			}
		}
		return t
	}
	last := -1
	for {
		rem := remaining()
		if len(rem) == 0 {
			break
		}
		// shuffle the candidates
		pm := r.Perm(len(rem))
		cand := make([]int, len(rem))
		for i, k := range pm {
			cand[i] = rem[k]
		}
		k := 1
		switch p.Shape {
		case "multi-traf":
			k = len(cand)
			if len(cand) > 2 && r.Chance(1, 3) {
				k = 2
			}
		case "mixed":
			k = r.Range(1, len(cand))
		default:
			// alternate: prefer a track other than the one of the previous fragment
			if len(cand) > 1 && cand[0] == last {
				cand[0], cand[1] = cand[1], cand[0]
			}
		}
		var s Slot
		for _, t := range cand[:k] {
			s.Trafs = append(s.Trafs, SlotTraf{Track: t, Frag: next[t]})
			next[t]++
		}
		last = cand[0]
		s.DataOrder = make([]int, k)
		for i := range s.DataOrder {
			s.DataOrder[i] = i
		}
		if k > 1 && r.Chance(1, 3) {
			s.DataOrder = r.Perm(k)
		}
		p.Slots = append(p.Slots, s)
	}
	return p
}

type srcFrag struct {
	styp, moof, mdat *mut.E
}

type srcTrack struct {
	ftyp, moov *mut.E
	frags      []srcFrag
}

func child(e *mut.E, typ string) *mut.E {
	for _, c := range e.Children {
		if c.Type == typ {
			return c
		}
	}
	return nil
}

func descend(e *mut.E, path ...string) *mut.E {
	for _, t := range path {
		if e == nil {
			return nil
		}
		e = child(e, t)
	}
	return e
}

func parseSingleTrack(b []byte) (*srcTrack, error) {
	es := mut.Parse(b)
	if es == nil {
		return nil, fmt.Errorf("source file does not tile")
	}
	t := &srcTrack{}
	var styp *mut.E
	for i := 0; i < len(es); i++ {
		e := es[i]
		switch e.Type {
		case "ftyp":
			t.ftyp = e
		case "moov":
			t.moov = e
		case "styp":
			styp = e
		case "moof":
			if i+1 >= len(es) || es[i+1].Type != "mdat" {
				return nil, fmt.Errorf("moof not followed by mdat")
			}
			t.frags = append(t.frags, srcFrag{styp: styp, moof: e, mdat: es[i+1]})
			styp = nil
			i++
		default:
			return nil, fmt.Errorf("unexpected top-level box %q in a single-track source", e.Type)
		}
	}
	if t.moov == nil {
		return nil, fmt.Errorf("source without moov")
	}
	n := 0
	for _, c := range t.moov.Children {
		if c.Type == "trak" {
			n++
		}
	}
	if n != 1 || descend(t.moov, "mvex", "trex") == nil {
		return nil, fmt.Errorf("source is not a single-track fragmented file")
	}
	return t, nil
}

// moveDefaultsToTrex moves default_sample_duration / _size / _flags from the
// tfhd boxes of a track to its trex box where every fragment has the field
// with one and the same value (ISO/IEC 14496-12 §8.8.3, §8.8.7: the trex
// values apply where tfhd does not override them).
func moveDefaultsToTrex(s *srcTrack) ([]string, error) {
	trex := descend(s.moov, "mvex", "trex")
	if trex == nil || len(trex.Payload) != 24 {
		return nil, fmt.Errorf("trex payload of %d bytes", len(trex.Payload))
	}
	var tfhds []*mut.E
	for _, f := range s.frags {
		tfhd := descend(f.moof, "traf", "tfhd")
		if tfhd == nil || len(tfhd.Payload) < 8 {
			return nil, fmt.Errorf("traf without tfhd")
		}
		tfhds = append(tfhds, tfhd)
	}
	// offset of an optional field within the tfhd payload
	fieldOff := func(pl []byte, bit byte) int {
		off := 8
		for _, f := range []struct {
			bit byte
			n   int
		}{{0x01, 8}, {0x02, 4}, {0x08, 4}, {0x10, 4}, {0x20, 4}} {
			if f.bit == bit {
				break
			}
			if pl[3]&f.bit != 0 {
				off += f.n
			}
		}
		return off
	}
	var moved []string
	for _, fld := range []struct {
		name    string
		bit     byte
		trexOff int
	}{{"duration", 0x08, 12}, {"size", 0x10, 16}, {"flags", 0x20, 20}} {
		all := len(tfhds) > 0
		var val uint32
		for i, h := range tfhds {
			if h.Payload[3]&fld.bit == 0 {
				all = false
				break
			}
			off := fieldOff(h.Payload, fld.bit)
			if off+4 > len(h.Payload) {
				return nil, fmt.Errorf("tfhd too short")
			}
			v := binary.BigEndian.Uint32(h.Payload[off:])
			if i > 0 && v != val {
				all = false
				break
			}
			val = v
		}
		if !all {
			continue
		}
		binary.BigEndian.PutUint32(trex.Payload[fld.trexOff:], val)
		for _, h := range tfhds {
			off := fieldOff(h.Payload, fld.bit)
			h.Payload = append(append([]byte(nil), h.Payload[:off]...), h.Payload[off+4:]...)
			h.Payload[3] &^= fld.bit
		}
		moved = append(moved, fld.name)
	}
	return moved, nil
}

func put32(p []byte, off int, v uint32) error {
	if off < 0 || off+4 > len(p) {
		return fmt.Errorf("field at %d outside the %d-byte payload", off, len(p))
	}
	binary.BigEndian.PutUint32(p[off:], v)
	return nil
}

// Merge merges single-track files (ftyp moov ([styp] moof mdat)*) into one
// multi-track file according to p and returns its init part (ftyp+moov) and
// its media part. Every source traf must have exactly one trun with a data
// offset whose samples fill the mdat of its fragment.
func Merge(files [][]byte, p *MergePlan) (init, media []byte, err error) {
	if len(files) != len(p.TrackIDs) {
		return nil, nil, fmt.Errorf("%d files for %d tracks", len(files), len(p.TrackIDs))
	}
	src := make([]*srcTrack, len(files))
	for i, f := range files {
		if src[i], err = parseSingleTrack(f); err != nil {
			return nil, nil, fmt.Errorf("track %d: %w", i, err)
		}
	}
	p.Moved = nil
	for t, s := range src {
		if t < len(p.TrexDefaults) && p.TrexDefaults[t] {
			moved, err := moveDefaultsToTrex(s)
			if err != nil {
				return nil, nil, fmt.Errorf("track %d: %w", t, err)
			}
			p.Moved = append(p.Moved, moved...)
		}
	}
	// ---- moov ----
	first := src[p.TrakOrder[0]]
	moov := &mut.E{Type: "moov", Container: true}
	mvex := &mut.E{Type: "mvex", Container: true}
	var traks, psshs, tail []*mut.E
	maxID := uint32(0)
	for _, id := range p.TrackIDs {
		if id > maxID {
			maxID = id
		}
	}
	for _, t := range p.TrakOrder {
		trak := child(src[t].moov, "trak")
		tkhd := child(trak, "tkhd")
		if tkhd == nil || len(tkhd.Payload) < 4 {
			return nil, nil, fmt.Errorf("track %d: no tkhd", t)
		}
		off := 12
		if tkhd.Payload[0] == 1 {
			off = 20
		}
		if err := put32(tkhd.Payload, off, p.TrackIDs[t]); err != nil {
			return nil, nil, err
		}
		traks = append(traks, trak)
	}
	for _, t := range p.TrexOrder {
		trex := descend(src[t].moov, "mvex", "trex")
		if err := put32(trex.Payload, 4, p.TrackIDs[t]); err != nil {
			return nil, nil, err
		}
		mvex.Children = append(mvex.Children, trex)
	}
	for i, s := range src {
		for _, c := range s.moov.Children {
			switch c.Type {
			case "mvhd", "trak", "mvex":
			case "pssh":
				// the first trak's source keeps its pssh boxes among its other extra boxes, in the source's
				// order (a left-over pssh of the clear input may be followed by a vendor box, behind which
				// InitProtect has appended its own)
				if i == p.TrakOrder[0] {
					tail = append(tail, c)
				} else {
					psshs = append(psshs, c)
				}
			default:
				if i == p.TrakOrder[0] {
					tail = append(tail, c)
				}
			}
		}
	}
	mvhd := child(first.moov, "mvhd")
	if mvhd == nil {
		return nil, nil, fmt.Errorf("no mvhd")
	}
	next := maxID + 1
	if maxID == 0xffffffff {
		next = maxID
	}
	if err := put32(mvhd.Payload, len(mvhd.Payload)-4, next); err != nil {
		return nil, nil, err
	}
	moov.Children = append(moov.Children, mvhd)
	if p.MvexFirst {
		moov.Children = append(moov.Children, mvex)
	}
	moov.Children = append(moov.Children, traks...)
	if !p.MvexFirst {
		moov.Children = append(moov.Children, mvex)
	}
	moov.Children = append(moov.Children, tail...)
	moov.Children = append(moov.Children, psshs...)
	var top []*mut.E
	if first.ftyp != nil {
		top = append(top, first.ftyp)
	}
	top = append(top, moov)
	init = mut.Serialize(top)

	// ---- fragments ----
	var out []*mut.E
	for si, s := range p.Slots {
		moof := &mut.E{Type: "moof", Container: true}
		trafs := make([]*mut.E, len(s.Trafs))
		datas := make([][]byte, len(s.Trafs))
		var styp *mut.E
		for j, st := range s.Trafs {
			if st.Track >= len(src) || st.Frag >= len(src[st.Track].frags) {
				return nil, nil, fmt.Errorf("slot %d: track %d has no fragment %d", si, st.Track, st.Frag)
			}
			f := src[st.Track].frags[st.Frag]
			if j == 0 {
				styp = f.styp
			}
			ntraf := 0
			for _, c := range f.moof.Children {
				switch c.Type {
				case "mfhd":
					if j == 0 {
						if err := put32(c.Payload, 4, uint32(si+1)); err != nil {
							return nil, nil, err
						}
						moof.Children = append(moof.Children, c)
					}
				case "traf":
					ntraf++
					trafs[j] = c
					moof.Children = append(moof.Children, c)
				default:
					moof.Children = append(moof.Children, c)
				}
			}
			if ntraf != 1 {
				return nil, nil, fmt.Errorf("slot %d: source fragment with %d trafs", si, ntraf)
			}
			if f.mdat.Large {
				return nil, nil, fmt.Errorf("slot %d: source mdat with 64-bit size", si)
			}
			datas[j] = f.mdat.Payload
			tfhd := child(trafs[j], "tfhd")
			if tfhd == nil || len(tfhd.Payload) < 8 {
				return nil, nil, fmt.Errorf("slot %d: traf without tfhd", si)
			}
			if tfhd.Payload[3]&0x01 != 0 {
				return nil, nil, fmt.Errorf("slot %d: tfhd with base_data_offset", si)
			}
			tfhd.Payload[1] |= 0x02 // default-base-is-moof: every traf's offsets are relative to the moof start
			_ = put32(tfhd.Payload, 4, p.TrackIDs[st.Track])
		}
		mdat := &mut.E{Type: "mdat"}
		start := make([]int, len(s.Trafs)) // start of traf j's data within the mdat payload
		for _, j := range s.DataOrder {
			start[j] = len(mdat.Payload)
			mdat.Payload = append(mdat.Payload, datas[j]...)
		}
		moofSize := moof.Size()
		// data offsets and saio offsets, relative to the moof start
		off := 8
		for _, c := range moof.Children {
			if c.Type != "traf" {
				off += c.Size()
				continue
			}
			j := -1
			for k := range trafs {
				if trafs[k] == c {
					j = k
				}
			}
			nrun := 0
			sencData := -1
			o := off + 8
			for _, tc := range c.Children {
				if tc.Type == "senc" {
					sencData = o + 8 + 4 + 4 // header, version/flags, sample_count
				}
				o += tc.Size()
			}
			for _, tc := range c.Children {
				switch tc.Type {
				case "trun":
					nrun++
					if len(tc.Payload) < 12 || tc.Payload[3]&0x01 == 0 {
						return nil, nil, fmt.Errorf("slot %d: trun without data offset", si)
					}
					_ = put32(tc.Payload, 8, uint32(moofSize+8+start[j]))
				case "saio":
					if sencData < 0 {
						return nil, nil, fmt.Errorf("slot %d: saio without senc", si)
					}
					pl := tc.Payload
					q := 4
					if len(pl) >= 4 && pl[3]&0x01 != 0 {
						q += 8
					}
					if len(pl) < q+4 || binary.BigEndian.Uint32(pl[q:]) != 1 {
						return nil, nil, fmt.Errorf("slot %d: saio without exactly one entry", si)
					}
					q += 4
					if pl[0] == 0 {
						err = put32(pl, q, uint32(sencData))
					} else {
						if err = put32(pl, q, 0); err == nil {
							err = put32(pl, q+4, uint32(sencData))
						}
					}
					if err != nil {
						return nil, nil, err
					}
				}
			}
			if nrun != 1 {
				return nil, nil, fmt.Errorf("slot %d: source traf with %d truns", si, nrun)
			}
			off += c.Size()
		}
		if styp != nil {
			out = append(out, styp)
		}
		out = append(out, moof, mdat)
	}
	for t, s := range src {
		used := 0
		for _, sl := range p.Slots {
			for _, st := range sl.Trafs {
				if st.Track == t {
					used++
				}
			}
		}
		if used != len(s.frags) {
			return nil, nil, fmt.Errorf("track %d: %d of %d fragments placed", t, used, len(s.frags))
		}
	}
	media = mut.Serialize(out)
	return init, media, nil
}
