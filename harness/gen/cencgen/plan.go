package cencgen

import (
	"fmt"

	"verifharness/runner"
)

// Item is one entry of the case list shared by C06 and C07.
type Item struct {
	Kind   string // clear-run | many-slices | iv-guess | real | random
	Shape  Shape
	Real   int    // index into RealSpecs
	Scheme string // forced scheme ("" = drawn)
	IVLen  int    // forced IV length (0 = drawn)
}

func (it Item) String() string {
	switch it.Kind {
	case "clear-run":
		return fmt.Sprintf("clear-run=%d/%s/%s", it.Shape.ClearRun, it.Shape.Codec, it.Scheme)
	case "many-slices":
		return fmt.Sprintf("many-slices=%d/%s/%s", it.Shape.ManySlices, it.Shape.Codec, it.Scheme)
	case "iv-guess":
		return fmt.Sprintf("iv-guess=%d/%s", it.Shape.IVGuess, it.Shape.Codec)
	case "real":
		return fmt.Sprintf("real/%s/%s/iv%d", RealSpecs[it.Real].Name, it.Scheme, it.IVLen)
	}
	return "random"
}

// ClearRunTargets are the lengths of the clear run before the first
// protected range that the pinned cases hit exactly (around the 16-bit limit
// of BytesOfClearData and its multiples).
var ClearRunTargets = []int{65534, 65535, 65536, 65537, 131069, 131070, 131071, 131072, 196605, 196606}

// ManySliceCounts: numbers of protected NAL units in one sample around the
// point where IV+2+6n no longer fits the 8-bit sample_info_size of saiz
// (n=39|40 with a 16-byte IV, n=42|43 without per-sample IV).
var ManySliceCounts = []int{39, 40, 42, 43}

// Plan returns the case list: pinned boundary cases first, then nRandom
// random cases.
func Plan(nRandom int) []Item {
	var p []Item
	for _, scheme := range []string{"cenc", "cbcs"} {
		for _, codec := range []string{"avc1", "hvc1"} {
			for _, t := range ClearRunTargets {
				p = append(p, Item{Kind: "clear-run", Scheme: scheme, Shape: Shape{Codec: codec, ClearRun: t, Scheme: scheme, Small: true}})
			}
			for _, n := range ManySliceCounts {
				p = append(p, Item{Kind: "many-slices", Scheme: scheme, Shape: Shape{Codec: codec, ManySlices: n, Small: true}})
			}
		}
	}
	for _, codec := range []string{"avc1", "hvc1"} {
		for _, g := range []int{1, 2} {
			p = append(p, Item{Kind: "iv-guess", Scheme: "cenc", IVLen: 8, Shape: Shape{Codec: codec, IVGuess: g, Small: true}})
		}
	}
	for i := range RealSpecs {
		for _, scheme := range []string{"cenc", "cbcs"} {
			for _, ivl := range []int{8, 16} {
				p = append(p, Item{Kind: "real", Real: i, Scheme: scheme, IVLen: ivl})
			}
		}
	}
	for i := 0; i < nRandom; i++ {
		p = append(p, Item{Kind: "random"})
	}
	return p
}

// Build materialises an item: the clear input and the configuration.
// reals caches the loaded real streams (index -> case).
func Build(r *runner.Rand, it Item, reals []*Case) (*Case, Config, error) {
	cfg := GenConfig(r)
	if it.Scheme != "" {
		cfg.Scheme = it.Scheme
	}
	if it.IVLen != 0 && len(cfg.IV) != it.IVLen {
		if it.IVLen == 8 {
			cfg.IV = cfg.IV[:8]
		} else {
			cfg.IV = append(cfg.IV, r.Bytes(8)...)
		}
		cfg.IVKind = fmt.Sprintf("%d/forced", it.IVLen)
	}
	if it.Kind == "real" {
		if it.Real >= len(reals) || reals[it.Real] == nil {
			return nil, cfg, fmt.Errorf("real stream %d not loaded", it.Real)
		}
		return reals[it.Real], cfg, nil
	}
	c, err := Generate(r, it.Shape)
	if err != nil {
		return nil, cfg, err
	}
	c.Name = it.String()
	return c, cfg, nil
}

// ExceedsSaizLimit tells whether some sample of the case needs more
// sub-sample entries than the 8-bit sample_info_size of saiz can describe
// (ivSize + 2 + 6n > 255), counting one entry per VCL NAL unit, one for a
// trailing non-VCL run and one per 65535 bytes of an oversized NAL unit (an
// upper bound on n, used only to classify an encryption *refusal* as legitimate).
func (c *Case) ExceedsSaizLimit(ivSize int) bool {
	for _, f := range c.Frags {
		for _, s := range f.Samples {
			n := 0
			for k, nal := range s.NALs {
				if nal.VCL {
					n++
				} else if k == len(s.NALs)-1 {
					n++ // trailing clear run
				}
				if len(nal.Data) > 65535 {
					n += len(nal.Data) / 65535
				}
			}
			if ivSize+2+6*n > 255 {
				return true
			}
		}
	}
	return false
}
