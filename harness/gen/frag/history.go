// Package frag generates API histories for mp4ff's fragment-building API and
// turns them into fragmented files while keeping an independent ground-truth
// model of every sample: per track an ordered list of (unique stamped payload,
// size, duration, flags, composition offset, decode time).
//
// history.go is pure data generation (no mp4ff); build.go executes a History
// against mp4ff's public API (the code under test) and assembles the file.
package frag

import (
	"encoding/binary"
	"fmt"

	"verifharness/runner"
)

// Sample is the ground truth of one sample. The payload is a pure function
// of (Track, Ordinal, Size): see Payload.
type Sample struct {
	Track      uint32 `json:"track"`
	Ordinal    int    `json:"ord"` // 0-based ordinal in the track over the whole history
	Size       uint32 `json:"size"`
	Dur        uint32 `json:"dur"`
	Flags      uint32 `json:"flags"`
	Cto        int32  `json:"cto"`
	DecodeTime uint64 `json:"dts"`
}

// Payload returns the stamped payload of a sample: 'S', track, ordinal (4
// bytes), size (2 bytes), then a pseudo-random fill derived from (track,
// ordinal); truncated to size.
func Payload(track uint32, ordinal int, size uint32) []byte {
	b := make([]byte, size)
	var st [8]byte
	st[0] = 'S'
	st[1] = byte(track)
	binary.BigEndian.PutUint32(st[2:], uint32(ordinal))
	binary.BigEndian.PutUint16(st[6:], uint16(size))
	x := uint64(track)<<32 ^ uint64(ordinal)*0x9e3779b97f4a7c15 ^ 0x1234567
	for i := range b {
		if i < 8 {
			b[i] = st[i]
			continue
		}
		x ^= x << 13
		x ^= x >> 7
		x ^= x << 17
		b[i] = byte(x >> 11)
	}
	if size > 0 && size < 8 {
		// a short payload keeps at least the low ordinal byte
		b[size-1] = byte(ordinal) ^ byte(track<<6)
	}
	return b
}

// Data returns the payload of the sample.
func (s Sample) Data() []byte { return Payload(s.Track, s.Ordinal, s.Size) }

// Op kinds: names of the mp4.Fragment methods.
const (
	OpAddFullSample        = "AddFullSample"
	OpAddFullSampleToTrack = "AddFullSampleToTrack"
	OpAddSample            = "AddSample"
	OpAddSamples           = "AddSamples"
	OpAddSampleToTrack     = "AddSampleToTrack"
	OpAddSampleInterval    = "AddSampleInterval"
)

// Observer op kinds (drawn only with Options.Observers): calls made BETWEEN the sample
// additions that only look at the fragment / the media segment it is attached to. They
// carry no sample; Op.Arg selects a variant (Info levels, Encode vs EncodeSW).
const (
	OpObserveSize      = "Observe:Fragment.Size"
	OpObserveInfo      = "Observe:Fragment.Info"
	OpObserveMoofInfo  = "Observe:Moof.Info"
	OpObserveEncode    = "Observe:Fragment.Encode" // to a discard writer; only drawn while the fragment's EncOptimize is OptimizeNone (Encode with OptimizeTrun is documented to rewrite tfhd/trun)
	OpObserveSegSize   = "Observe:MediaSegment.Size"
	OpObserveSegInfo   = "Observe:MediaSegment.Info"
	OpObserveSegEncode = "Observe:MediaSegment.Encode" // only drawn while the segment's EncOptimize is OptimizeNone
)

// IsObserver tells whether an op kind is an observer call (adds no sample).
func IsObserver(kind string) bool { return len(kind) > 8 && kind[:8] == "Observe:" }

// Modes of a fragment: the three mdat modes of the API are exclusive.
const (
	ModeFull     = "full"     // mdat.Data filled by AddFullSample*
	ModeMeta     = "meta"     // metadata only; payload written after the encoded mdat header
	ModeInterval = "interval" // mdat.DataParts filled by AddSampleInterval
)

// Op is one API call adding samples.
type Op struct {
	Kind    string   `json:"kind"`
	Track   uint32   `json:"track"`
	Samples []Sample `json:"samples"`
	Arg     int      `json:"arg,omitempty"` // observer ops: variant
}

// ExtraBox is a box that carries no sample.
type ExtraBox struct {
	Kind string `json:"kind"` // emsg0 emsg1 prft0 prft1 free skip uuid unknown
	Via  string `json:"via"`  // AddEmsg | AddChild | Children (direct slice insertion) | top (file level)
	N    int    `json:"n"`    // payload length / variation
}

// FragmentSpec describes one fragment.
type FragmentSpec struct {
	Seq       uint32     `json:"seq"`
	Multi     bool       `json:"multi"`  // CreateMultiTrackFragment (else CreateFragment)
	Tracks    []uint32   `json:"tracks"` // traf order
	Mode      string     `json:"mode"`
	Ops       []Op       `json:"ops"`
	Pre       []ExtraBox `json:"pre,omitempty"`    // in Fragment.Children before moof
	Post      []ExtraBox `json:"post,omitempty"`   // in Fragment.Children after mdat (never in meta mode)
	Before    []ExtraBox `json:"before,omitempty"` // file-level boxes emitted before the fragment
	LargeMdat bool       `json:"large_mdat,omitempty"`
	TrexTrick bool       `json:"trex_trick,omitempty"` // drop trun fields that equal the trex defaults
	// PreOptimize: Fragment.EncOptimize is set to the history's final value right after the
	// fragment is created, before any sample is added (as a caller configuring the fragment up front would).
	PreOptimize bool `json:"pre_optimize,omitempty"`
}

// SegmentSpec describes one media segment.
type SegmentSpec struct {
	Styp            bool           `json:"styp"`
	NSidx           int            `json:"nsidx"`             // sidx boxes at the start of the segment (after styp)
	ViaMediaSegment bool           `json:"via_media_segment"` // encode through mp4.MediaSegment instead of fragment by fragment
	Fragments       []FragmentSpec `json:"fragments"`
	// AttachFirst (only with ViaMediaSegment): every fragment is added to the mp4.MediaSegment right after it is
	// created, before its samples are added, so that segment-level observers can run between the additions.
	// PreOptimize: MediaSegment.EncOptimize is set before the first fragment is added instead of right before encoding.
	AttachFirst bool `json:"attach_first,omitempty"`
	PreOptimize bool `json:"seg_pre_optimize,omitempty"`
}

// TrackSpec describes one track of the init segment.
type TrackSpec struct {
	ID        uint32 `json:"id"`
	Timescale uint32 `json:"timescale"`
	Media     string `json:"media"` // video | audio | subtitle
	TrexDur   uint32 `json:"trex_dur"`
	TrexSize  uint32 `json:"trex_size"`
	TrexFlags uint32 `json:"trex_flags"`
}

// Layout describes file-level index structures.
type Layout struct {
	TopSidx     int        `json:"top_sidx"` // 0 none; 1 one sidx over all segments; 2 two flat sidx each over half; 3 hierarchical parent + two children
	SidxVersion byte       `json:"sidx_version"`
	Mfra        int        `json:"mfra"` // 0 none; 1 one tfra entry per segment; 2 one per fragment
	TfraVersion byte       `json:"tfra_version"`
	Tail        []ExtraBox `json:"tail,omitempty"` // file-level boxes after the last fragment
}

// History is one generated API history / file description.
type History struct {
	Tracks   []TrackSpec   `json:"tracks"`
	Segments []SegmentSpec `json:"segments"`
	Optimize bool          `json:"optimize"` // EncOptimize = OptimizeTrun
	SW       bool          `json:"sw"`       // EncodeSW instead of Encode
	Layout   Layout        `json:"layout"`
}

// Options steer Generate.
type Options struct {
	MaxTracks    int  // 1..4 (default 4)
	MaxSegments  int  // default 3
	MaxFragments int  // per segment, default 3 (total capped at 5 unless Layouts)
	MaxSamples   int  // per fragment, default 12
	Tame         bool // realistic values only (sync/non-sync flags, small cto >= 0, dur in {512,1024,3000}, sizes 8..200), no zero-sample fragments
	NoMeta       bool // no metadata-only fragments
	NoInterval   bool // no AddSampleInterval fragments
	NoExtra      bool // no emsg/prft/free/uuid/unknown boxes
	EmsgOnly     bool // extra boxes are emsg boxes before the moof only (via AddEmsg or at file level)
	NoEmptyTraf  bool // every traf of a multi-track fragment receives a sample
	SingleOnly   bool // only CreateFragment fragments
	Pure         bool // with Layouts: exactly one delimiter mechanism (styp on every segment | top-level sidx | mfra | none)
	Layouts      bool // C12: random index/delimiter layouts (top-level sidx, mfra, styp on some segments, up to 6x4)
	SmallTimes   bool // decode times and durations small enough for 32-bit sidx arithmetic
	LongRuns     bool // one or two fragments of 1023..3000 small samples, half of the tracks with all fields constant (truns without per-sample fields)
	// Observers: observer calls (Fragment.Size/Info/Encode-to-discard, Moof.Info, MediaSegment.Size/Info/Encode) are
	// inserted between the sample additions, EncOptimize is set before the additions in about half of the fragments/segments,
	// and fragments of MediaSegment-encoded segments are mostly attached before they are filled. Drawn after
	// everything else: the rest of the history is the same as without the option.
	Observers bool
	// Tracks, when non-empty, are used instead of drawing tracks (C19: fragments for an
	// init built elsewhere; ids must be the 1..n that AddEmptyTrack assigns if Build's own init is used).
	Tracks []TrackSpec
}

var (
	durSet   = []uint32{0, 1, 2, 512, 1024, 3000, 3003, 90000, 0x7fffffff, 0x80000000, 0xffffffff}
	flagSet  = []uint32{0x02000000, 0x01010000, 0, 0xffffffff, 0x00010000, 0x02800040, 0x0a610000}
	ctoSet   = []int32{0, 1, -1, 2, 1024, -1024, 0x7fffffff, -0x80000000, 0x7ffffffe, -0x7fffffff}
	baseSet  = []uint64{0, 1, 0xfffffffe, 0xffffffff, 0x100000000, 0x100000001, 1 << 40, 1<<48 + 12345, 90000 * 3600}
	sizeSet  = []uint32{8, 9, 16, 31, 32, 33, 64, 100, 255, 256, 257}
	trexDurs = []uint32{0, 1, 1024, 3000, 0xffffffff}
)

func pickU32(r *runner.Rand, v []uint32) uint32 { return v[r.Intn(len(v))] }

type trackState struct {
	next    uint64
	ordinal int
}

// Generate draws a history.
func Generate(r *runner.Rand, o Options) *History {
	if o.MaxTracks == 0 {
		o.MaxTracks = 4
	}
	if o.MaxSegments == 0 {
		o.MaxSegments = 3
	}
	if o.MaxFragments == 0 {
		o.MaxFragments = 3
	}
	if o.MaxSamples == 0 {
		o.MaxSamples = 12
	}
	h := &History{Optimize: r.Bool(), SW: r.Bool()}
	if o.LongRuns {
		o.MaxTracks, o.MaxSegments, o.MaxFragments = 2, 1, 2
		h.Optimize = !r.Chance(1, 4)
	}
	nt := 1 + r.Intn(o.MaxTracks)
	if r.Chance(1, 3) {
		nt = 1
	}
	st := map[uint32]*trackState{}
	if len(o.Tracks) > 0 {
		nt = len(o.Tracks)
	}
	for i := 0; i < nt; i++ {
		t := TrackSpec{ID: uint32(i + 1), Timescale: pickU32(r, []uint32{1, 1000, 48000, 90000, 0xffffffff}),
			Media: r.PickStr("video", "audio", "audio", "subtitle", "video")}
		if o.Layouts && r.Chance(1, 2) {
			// give the reference-track rule (first video, else first audio) something to choose from
			t.Media = r.PickStr("audio", "subtitle", "video")
		}
		if !o.Tame {
			t.TrexDur, t.TrexSize, t.TrexFlags = pickU32(r, trexDurs), pickU32(r, []uint32{0, 8, 16, 100}), pickU32(r, flagSet)
		} else if r.Bool() {
			t.TrexDur, t.TrexFlags = 1024, 0x01010000
		}
		if len(o.Tracks) > 0 {
			t = o.Tracks[i]
		}
		h.Tracks = append(h.Tracks, t)
		s := &trackState{}
		switch {
		case o.Tame || o.SmallTimes:
			s.next = uint64(r.PickInt(0, 0, 1, 1000, 90000, 123456))
			if o.SmallTimes && r.Chance(1, 4) {
				s.next = uint64(r.PickInt(0x7fffffff, 0x10000))
			}
		default:
			s.next = baseSet[r.Intn(len(baseSet))]
			if r.Chance(1, 4) {
				s.next += uint64(r.Intn(100000))
			}
		}
		st[t.ID] = s
	}
	nseg := 1 + r.Intn(o.MaxSegments)
	total := 0
	maxTotal := 5
	if o.Layouts {
		maxTotal = 24
	}
	seq := uint32(1)
	if r.Chance(1, 5) {
		seq = pickU32(r, []uint32{0, 0xfffffff0, 1000})
	}
	for si := 0; si < nseg; si++ {
		seg := SegmentSpec{Styp: r.Bool()}
		nf := 1 + r.Intn(o.MaxFragments)
		for fi := 0; fi < nf && total < maxTotal; fi++ {
			fs := genFragment(r, o, h, st, seq)
			seq++
			total++
			seg.Fragments = append(seg.Fragments, fs)
		}
		if len(seg.Fragments) == 0 {
			break
		}
		h.Segments = append(h.Segments, seg)
	}
	genLayout(r, o, h)
	if o.Observers {
		genObservers(r, h)
	}
	return h
}

// genObservers inserts observer ops into the finished history (Options.Observers).
func genObservers(r *runner.Rand, h *History) {
	for si := range h.Segments {
		seg := &h.Segments[si]
		if seg.ViaMediaSegment && r.Chance(3, 4) {
			seg.AttachFirst = true
			seg.PreOptimize = r.Bool()
		}
		for fi := range seg.Fragments {
			fs := &seg.Fragments[fi]
			fs.PreOptimize = r.Bool()
			kinds := []string{OpObserveSize, OpObserveSize, OpObserveInfo, OpObserveMoofInfo}
			if !(fs.PreOptimize && h.Optimize) {
				kinds = append(kinds, OpObserveEncode)
			}
			if seg.AttachFirst {
				kinds = append(kinds, OpObserveSegSize, OpObserveSegSize, OpObserveSegInfo)
				if !(seg.PreOptimize && h.Optimize) && !(fs.PreOptimize && h.Optimize) {
					kinds = append(kinds, OpObserveSegEncode)
				}
			}
			n := r.PickInt(0, 1, 1, 2, 3)
			for k := 0; k < n; k++ {
				pos := r.Intn(len(fs.Ops) + 1)
				if len(fs.Ops) >= 2 && r.Chance(3, 4) {
					pos = 1 + r.Intn(len(fs.Ops)-1) // strictly inside the history
				}
				var track uint32
				if len(fs.Tracks) > 0 {
					track = fs.Tracks[0]
				}
				op := Op{Kind: kinds[r.Intn(len(kinds))], Track: track, Arg: r.Intn(16)}
				ops := make([]Op, 0, len(fs.Ops)+1)
				ops = append(ops, fs.Ops[:pos]...)
				ops = append(ops, op)
				ops = append(ops, fs.Ops[pos:]...)
				fs.Ops = ops
			}
		}
	}
}

// genLayout decides delimiters, index boxes and the encode route per segment.
func genLayout(r *runner.Rand, o Options, h *History) {
	ns := len(h.Segments)
	if o.Layouts && o.Pure {
		for i := range h.Segments {
			h.Segments[i].Styp = false
			h.Segments[i].NSidx = 0
		}
		switch r.Intn(5) {
		case 0:
			for i := range h.Segments {
				h.Segments[i].Styp = true
				if r.Chance(1, 4) {
					h.Segments[i].NSidx = r.Intn(3)
				}
			}
		case 1:
			h.Layout.TopSidx = 1 + r.Intn(3)
			if ns < 2 {
				h.Layout.TopSidx = 1
			}
			h.Layout.SidxVersion = byte(r.Intn(2))
		case 2:
			h.Layout.Mfra = 1 + r.Intn(2)
			h.Layout.TfraVersion = byte(r.Intn(2))
		}
	} else if o.Layouts {
		switch r.Intn(4) {
		case 0: // styp on every segment
			for i := range h.Segments {
				h.Segments[i].Styp = true
			}
		case 1: // none
			for i := range h.Segments {
				h.Segments[i].Styp = false
			}
		case 2: // some (already random)
		case 3:
			for i := range h.Segments {
				h.Segments[i].Styp = i > 0
			}
		}
		if r.Chance(2, 5) {
			h.Layout.TopSidx = 1 + r.Intn(3)
			if ns < 2 && h.Layout.TopSidx > 1 {
				h.Layout.TopSidx = 1
			}
			h.Layout.SidxVersion = byte(r.Intn(2))
		}
		if r.Chance(1, 4) {
			for i := range h.Segments {
				h.Segments[i].NSidx = r.Intn(3)
			}
		}
		if r.Chance(1, 3) {
			h.Layout.Mfra = 1 + r.Intn(2)
			h.Layout.TfraVersion = byte(r.Intn(2))
		}
	} else {
		// C05 profile: +- styp, +- sidx
		if r.Chance(1, 4) {
			h.Layout.TopSidx = 1
			h.Layout.SidxVersion = byte(r.Intn(2))
		}
		for i := range h.Segments {
			if h.Segments[i].Styp && r.Chance(1, 3) {
				h.Segments[i].NSidx = 1 + r.Intn(2)
			}
		}
	}
	for i := range h.Segments {
		seg := &h.Segments[i]
		if seg.NSidx > 0 || !r.Chance(2, 5) {
			continue
		}
		ok := true
		for j, f := range seg.Fragments {
			if f.Mode == ModeMeta || (j > 0 && len(f.Before) > 0) {
				ok = false
			}
			for _, b := range f.Before {
				if b.Kind == "emsg0" || b.Kind == "emsg1" {
					ok = false
				}
			}
		}
		seg.ViaMediaSegment = ok
	}
	if !o.NoExtra && !o.EmsgOnly && r.Chance(1, 6) {
		h.Layout.Tail = append(h.Layout.Tail, ExtraBox{Kind: r.PickStr("free", "skip", "uuid", "unknown"), Via: "top", N: r.Intn(40)})
	}
}

func genExtra(r *runner.Rand, kinds ...string) ExtraBox {
	return ExtraBox{Kind: kinds[r.Intn(len(kinds))], N: r.Intn(48)}
}

// valuePlan draws the per-field patterns of one run of samples so that every
// branch of the tfhd/trun default split is reached.
type valuePlan struct {
	durConst, sizeConst bool
	dur, size           uint32
	flagsMode           int // 0 all equal, 1 first differs, 2 all differ, 3 one in the middle differs
	flagsA, flagsB      uint32
	ctoMode             int // 0 all zero, 1 boundary values, 2 small
}

func genPlan(r *runner.Rand, o Options) valuePlan {
	p := valuePlan{durConst: r.Chance(3, 5), sizeConst: r.Chance(2, 5), flagsMode: r.Intn(4), ctoMode: r.Intn(3)}
	if o.Tame {
		p.dur = pickU32(r, []uint32{512, 1024, 3000})
		p.size = uint32(r.Range(8, 200))
		p.durConst = r.Chance(4, 5)
		p.flagsMode = 1
		p.flagsA, p.flagsB = 0x02000000, 0x01010000
		if r.Chance(1, 3) {
			p.flagsMode, p.flagsA = 0, 0x02000000
		}
		p.ctoMode = r.PickInt(0, 2)
		return p
	}
	p.dur = pickU32(r, durSet)
	if o.LongRuns {
		p.sizeConst = r.Chance(3, 4)
		p.size = pickU32(r, []uint32{8, 9, 16})
		if r.Chance(2, 3) {
			// nothing varies: after optimisation (or the trex trick) the trun carries no per-sample field
			p.durConst, p.sizeConst, p.ctoMode, p.flagsMode = true, true, 0, r.PickInt(0, 0, 1)
		}
	}
	if o.SmallTimes {
		p.dur = pickU32(r, []uint32{0, 1, 2, 512, 1024, 3000, 90000, 0x00ffffff})
	}
	p.size = pickU32(r, sizeSet)
	p.flagsA = pickU32(r, flagSet)
	p.flagsB = pickU32(r, flagSet)
	if p.flagsB == p.flagsA {
		p.flagsB ^= 0x00010000
	}
	return p
}

func (p valuePlan) sample(r *runner.Rand, o Options, i int) (size, dur, flags uint32, cto int32) {
	dur, size = p.dur, p.size
	if !p.durConst {
		if o.Tame {
			dur = pickU32(r, []uint32{512, 1024, 1025, 3000})
		} else if o.SmallTimes {
			dur = pickU32(r, []uint32{0, 1, 2, 512, 1024, 3000, 90000, 0x00ffffff})
		} else {
			dur = pickU32(r, durSet)
		}
	}
	if !p.sizeConst {
		switch {
		case o.Tame:
			size = uint32(r.Range(8, 200))
		case o.LongRuns:
			size = uint32(r.Range(8, 24))
		case r.Chance(1, 20):
			size = uint32(r.Intn(8)) // 0..7: too small for a whole stamp
		case r.Chance(1, 12):
			size = uint32(r.Range(300, 4200))
		default:
			size = uint32(r.Range(8, 72))
		}
	}
	switch p.flagsMode {
	case 0:
		flags = p.flagsA
	case 1:
		flags = p.flagsB
		if i == 0 {
			flags = p.flagsA
		}
	case 2:
		flags = r.Uint32()
		if r.Bool() {
			flags = pickU32(r, flagSet)
		}
	case 3:
		flags = p.flagsA
		if i == 2 || i == 1 && r.Bool() {
			flags = p.flagsB
		}
	}
	switch p.ctoMode {
	case 1:
		cto = ctoSet[r.Intn(len(ctoSet))]
	case 2:
		cto = int32(r.Intn(5)) * 512
		if !o.Tame && r.Bool() {
			cto = -cto
		}
	}
	return
}

func genFragment(r *runner.Rand, o Options, h *History, st map[uint32]*trackState, seq uint32) FragmentSpec {
	fs := FragmentSpec{Seq: seq}
	nt := len(h.Tracks)
	fs.Multi = !o.SingleOnly && (nt > 1 && r.Chance(2, 3) || r.Chance(1, 4))
	if fs.Multi {
		perm := r.Perm(nt)
		k := 1 + r.Intn(nt)
		if r.Bool() {
			k = nt
		}
		for _, i := range perm[:k] {
			fs.Tracks = append(fs.Tracks, h.Tracks[i].ID)
		}
		if r.Bool() { // mostly natural order
			for i := 0; i < len(fs.Tracks); i++ {
				for j := i + 1; j < len(fs.Tracks); j++ {
					if fs.Tracks[j] < fs.Tracks[i] {
						fs.Tracks[i], fs.Tracks[j] = fs.Tracks[j], fs.Tracks[i]
					}
				}
			}
		}
	} else {
		fs.Tracks = []uint32{h.Tracks[r.Intn(nt)].ID}
	}
	// mode
	fs.Mode = ModeFull
	switch x := r.Intn(10); {
	case x < 3 && !o.NoMeta:
		fs.Mode = ModeMeta
	case x == 3 && !fs.Multi && !o.NoInterval:
		fs.Mode = ModeInterval
	}
	// which tracks receive samples
	active := append([]uint32{}, fs.Tracks...)
	if fs.Multi && !o.NoEmptyTraf && len(active) > 0 {
		switch x := r.Intn(12); {
		case x == 0: // the first traf receives nothing
			active = active[1:]
		case x == 1 && len(active) > 1: // some other traf receives nothing
			k := 1 + r.Intn(len(active)-1)
			active = append(active[:k:k], active[k+1:]...)
		case x == 2 && !o.Tame: // nobody receives anything
			active = nil
		}
	}
	n := 2 + r.Intn(o.MaxSamples-1)
	switch x := r.Intn(16); {
	case x == 0 && !o.Tame:
		n = 0
	case x == 1:
		n = 1
	case x == 2:
		n = 2
	}
	if o.LongRuns {
		n = r.PickInt(1023, 1024, 1025, 1026, 1500, 3000) * len(active)
		if fs.Multi && r.Chance(1, 3) {
			n = r.PickInt(1025, 2050)
		}
	}
	if len(active) == 0 {
		n = 0
	}
	// interleaving: run lengths per track visit
	plans := map[uint32]valuePlan{}
	count := map[uint32]int{}
	for _, id := range active {
		plans[id] = genPlan(r, o)
	}
	style := r.Intn(3) // 0 blocks, 1 alternate, 2 random
	cur := 0
	otherVisited := false
	newSample := func(id uint32) Sample {
		p := plans[id]
		size, dur, flags, cto := p.sample(r, o, count[id])
		count[id]++
		s := st[id]
		smp := Sample{Track: id, Ordinal: s.ordinal, Size: size, Dur: dur, Flags: flags, Cto: cto, DecodeTime: s.next}
		s.ordinal++
		s.next += uint64(dur)
		return smp
	}
	for made := 0; made < n; {
		var id uint32
		switch style {
		case 0:
			id = active[cur%len(active)]
		case 1:
			id = active[cur%len(active)]
		default:
			id = active[r.Intn(len(active))]
		}
		run := 1
		switch style {
		case 0:
			run = (n + len(active) - 1) / len(active)
		case 2:
			run = 1 + r.Intn(3)
		}
		if run > n-made {
			run = n - made
		}
		cur++
		if id != fs.Tracks[0] {
			otherVisited = true
		}
		// choose the API call(s) for this run
		for run > 0 {
			op := Op{Track: id}
			k := 1
			switch fs.Mode {
			case ModeFull:
				op.Kind = OpAddFullSampleToTrack
				if !fs.Multi && r.Bool() {
					op.Kind = OpAddFullSample
				}
			case ModeMeta:
				op.Kind = OpAddSampleToTrack
				if !fs.Multi {
					switch r.Intn(3) {
					case 0:
						op.Kind = OpAddSample
					case 1:
						op.Kind = OpAddSamples
						k = 1 + r.Intn(run)
					}
				} else if id == fs.Tracks[0] && count[id] > 0 && !otherVisited && r.Chance(1, 3) {
					// the single-trun calls work on the first traf's first trun: legal on a multi-track
					// fragment while that run exists and is still the last one written
					if r.Bool() {
						op.Kind = OpAddSample
					} else {
						op.Kind = OpAddSamples
						k = 1 + r.Intn(run)
					}
				}
			case ModeInterval:
				op.Kind = OpAddSampleInterval
				k = 1 + r.Intn(run)
			}
			for j := 0; j < k; j++ {
				op.Samples = append(op.Samples, newSample(id))
			}
			fs.Ops = append(fs.Ops, op)
			run -= k
			made += k
		}
	}
	// a gap before the next fragment of each track, sometimes
	for _, id := range fs.Tracks {
		if r.Chance(1, 6) && !o.Tame {
			st[id].next += uint64(1 + r.Intn(5000))
		}
	}
	if o.EmsgOnly && !o.NoExtra {
		if r.Chance(1, 4) {
			e := genExtra(r, "emsg0", "emsg1")
			e.Via = "AddEmsg"
			fs.Pre = append(fs.Pre, e)
		}
		if r.Chance(1, 4) {
			e := genExtra(r, "emsg0", "emsg1")
			e.Via = "top"
			fs.Before = append(fs.Before, e)
		}
		fs.LargeMdat = r.Chance(1, 10)
	} else if !o.NoExtra {
		if r.Chance(1, 4) {
			ne := 1 + r.Intn(2)
			for i := 0; i < ne; i++ {
				e := genExtra(r, "emsg0", "emsg1")
				e.Via = "AddEmsg"
				fs.Pre = append(fs.Pre, e)
			}
		}
		if r.Chance(1, 5) {
			e := genExtra(r, "prft0", "prft1", "free", "uuid", "unknown", "skip")
			e.Via = "Children"
			fs.Pre = append(fs.Pre, e)
		}
		if fs.Mode != ModeMeta && r.Chance(1, 6) {
			e := genExtra(r, "free", "uuid", "unknown", "emsg1", "skip", "prft0")
			if o.Layouts && e.Kind == "emsg1" {
				e.Kind = "free" // an emsg that is not followed by a moof is outside C12's layouts
			}
			e.Via = "AddChild"
			fs.Post = append(fs.Post, e)
		}
		if r.Chance(1, 4) {
			nb := 1 + r.Intn(2)
			for i := 0; i < nb; i++ {
				e := genExtra(r, "free", "uuid", "unknown", "prft0", "prft1", "emsg0", "emsg1", "skip")
				e.Via = "top"
				fs.Before = append(fs.Before, e)
			}
		}
		fs.LargeMdat = r.Chance(1, 10)
		fs.TrexTrick = r.Chance(1, 8)
	}
	return fs
}

// Model is the ground truth per track.
type Model map[uint32][]Sample

// Samples returns the samples of the fragment per track in order of addition.
func (f *FragmentSpec) Samples() Model {
	m := Model{}
	for _, op := range f.Ops {
		m[op.Track] = append(m[op.Track], op.Samples...)
	}
	return m
}

// NSamples counts the samples of the fragment.
func (f *FragmentSpec) NSamples() int {
	n := 0
	for _, op := range f.Ops {
		n += len(op.Samples)
	}
	return n
}

// Truns returns the number of track runs the history implies per track: a new
// run starts whenever the track changes.
func (f *FragmentSpec) Truns() map[uint32]int {
	m := map[uint32]int{}
	var last uint32
	for _, op := range f.Ops {
		if len(op.Samples) == 0 {
			continue
		}
		if op.Track != last {
			m[op.Track]++
		}
		last = op.Track
	}
	return m
}

// Shape is a short class name of the fragment used in finding keys.
func (f *FragmentSpec) Shape(optimize bool) string {
	k := "single"
	if f.Multi {
		k = "multi"
	}
	o := "noopt"
	if optimize {
		o = "opt"
	}
	s := fmt.Sprintf("%s-%s-%s", k, f.Mode, o)
	if f.TrexTrick && !optimize {
		s += "-trextrick"
	}
	return s
}

// Track returns the spec of a track.
func (h *History) Track(id uint32) *TrackSpec {
	for i := range h.Tracks {
		if h.Tracks[i].ID == id {
			return &h.Tracks[i]
		}
	}
	return nil
}

// RefTrack is the track an index is computed for: first video, else first
// audio, else the first track (the documented rule of File.UpdateSidx).
func (h *History) RefTrack() *TrackSpec {
	for _, m := range []string{"video", "audio"} {
		for i := range h.Tracks {
			if h.Tracks[i].Media == m {
				return &h.Tracks[i]
			}
		}
	}
	return &h.Tracks[0]
}
