package frag

// A fragmented file may carry samples in moov too (ISO/IEC 14496-12 8.8.1: the
// movie fragments extend the presentation in time): AddMoovSamples gives one
// track other than the first a few samples in its sample table, byte by byte
// (no mp4ff call). The first trak is left empty: mp4ff calls a file fragmented
// when the first track has no stts entries.

import (
	"encoding/binary"
	"fmt"
	"sort"

	"verifharness/ref/boxwalk"
	"verifharness/runner"
)

// MoovSampleShape says what AddMoovSamples wrote.
type MoovSampleShape struct {
	Trak       int    `json:"trak"`        // index of the trak in moov (>= 1)
	Samples    int    `json:"samples"`     // samples in the one chunk
	SampleSize uint32 `json:"sample_size"` // bytes per sample
	SizeTable  bool   `json:"size_table"`  // stsz with a per-sample table instead of sample_size
	Offset     int    `json:"chunk_offset"`
	Added      int    `json:"bytes_added"`
}

// AddMoovSamples returns a copy of b whose moov declares 1..3 samples (one
// chunk) for one track other than the first: stts/stsc/stsz/stco of that trak
// get entries, the sizes of stbl/minf/mdia/trak/moov grow, everything behind
// moov moves (tfra offsets re-pointed, sidx offsets are relative), and the
// chunk offset points into the payload of an mdat of the file. nil, nil, nil:
// the file has fewer than two tracks or no usable sample table.
func AddMoovSamples(b *Built, r *runner.Rand) (*Built, *MoovSampleShape, error) {
	mp := -1
	for i, p := range b.Pieces {
		if p.Type == "moov" {
			mp = i
			break
		}
	}
	if mp < 0 {
		return nil, nil, nil
	}
	moov := append([]byte{}, b.Bytes[b.Pieces[mp].Start:b.Pieces[mp].End()]...)
	nodes, err := boxwalk.Walk(moov)
	if err != nil || len(nodes) != 1 {
		return nil, nil, fmt.Errorf("moov does not tile")
	}
	var traks []*boxwalk.Node
	for _, c := range nodes[0].Children {
		if c.Type == "trak" {
			traks = append(traks, c)
		}
	}
	if len(traks) < 2 {
		return nil, nil, nil
	}
	k := 1 + r.Intn(len(traks)-1)
	stbl := traks[k].Descend("mdia", "minf", "stbl")
	if stbl == nil {
		return nil, nil, nil
	}
	leaves := map[string]*boxwalk.Node{}
	for _, t := range []string{"stts", "stsc", "stsz", "stco"} {
		n := stbl.Child(t)
		if n == nil || n.HdrLen != 8 {
			return nil, nil, nil
		}
		leaves[t] = n
	}
	for a := stbl; a != nil; a = a.Parent {
		if a.HdrLen != 8 {
			return nil, nil, nil
		}
	}
	// the data: inside the payload of one mdat of the file
	type cand struct{ piece, hdr, pay int }
	var cands []cand
	for i, p := range b.Pieces {
		if p.Type != "mdat" {
			continue
		}
		hdr := 8
		if binary.BigEndian.Uint32(b.Bytes[p.Start:]) == 1 {
			hdr = 16
		}
		if p.Size-hdr >= 1 {
			cands = append(cands, cand{i, hdr, p.Size - hdr})
		}
	}
	sh := &MoovSampleShape{Trak: k, Samples: 1}
	var target cand
	if len(cands) > 0 {
		target = cands[r.Intn(len(cands))]
		sh.Samples = 1 + r.Intn(3)
		if sh.Samples > target.pay {
			sh.Samples = target.pay
		}
		max := target.pay / sh.Samples
		if max > 4 {
			max = 4
		}
		sh.SampleSize = uint32(1 + r.Intn(max))
	} else {
		// no payload anywhere: one empty sample addressed at the end of the first mdat
		for i, p := range b.Pieces {
			if p.Type == "mdat" {
				target = cand{i, p.Size, 0}
				break
			}
		}
		if target.hdr == 0 {
			return nil, nil, nil
		}
	}
	sh.SizeTable = sh.SampleSize == 0 || r.Chance(1, 3)
	n := uint32(sh.Samples)
	stsz := [][]byte{u32(0), u32(sh.SampleSize), u32(n)}
	if sh.SizeTable {
		stsz[1] = u32(0)
		for i := 0; i < sh.Samples; i++ {
			stsz = append(stsz, u32(sh.SampleSize))
		}
	}
	repl := map[string][]byte{
		"stts": mkBox("stts", u32(0), u32(1), u32(n), u32(uint32(1+r.Intn(2000)))),
		"stsc": mkBox("stsc", u32(0), u32(1), u32(1), u32(n), u32(1)),
		"stsz": mkBox("stsz", stsz...),
		"stco": mkBox("stco", u32(0), u32(1), u32(0)),
	}
	var order []*boxwalk.Node
	for _, n := range leaves {
		order = append(order, n)
	}
	sort.Slice(order, func(i, j int) bool { return order[i].Start > order[j].Start })
	delta := 0
	for _, n := range order {
		nb := repl[n.Type]
		delta += len(nb) - n.Size
		moov = append(append(append([]byte{}, moov[:n.Start]...), nb...), moov[n.End():]...)
	}
	for a := stbl; a != nil; a = a.Parent {
		binary.BigEndian.PutUint32(moov[a.Start:], uint32(a.Size+delta))
	}
	sh.Added = delta
	nb, err := replacePieces(b, map[int][]byte{mp: moov})
	if err != nil {
		return nil, nil, err
	}
	// chunk offset in the new file
	tp := nb.Pieces[target.piece]
	off := tp.Start + target.hdr
	if slack := target.pay - sh.Samples*int(sh.SampleSize); slack > 0 {
		off += r.Intn(slack + 1)
	}
	sh.Offset = off
	np := nb.Pieces[mp]
	nn, err := boxwalk.Walk(nb.Bytes[np.Start:np.End()])
	if err != nil || len(nn) != 1 {
		return nil, nil, fmt.Errorf("rewritten moov does not tile")
	}
	ti := -1
	var stco *boxwalk.Node
	for _, c := range nn[0].Children {
		if c.Type == "trak" {
			ti++
			if ti == k {
				stco = c.Descend("mdia", "minf", "stbl", "stco")
			}
		}
	}
	if stco == nil || stco.Size != 20 {
		return nil, nil, fmt.Errorf("rewritten moov lost its stco")
	}
	binary.BigEndian.PutUint32(nb.Bytes[np.Start+stco.Start+16:], uint32(off))
	if np.End() >= len(b.InitBytes)+delta && b.Pieces[mp].End() <= len(b.InitBytes) {
		nb.InitBytes = nb.Bytes[:len(b.InitBytes)+delta]
	}
	if err := VerifyAgainstHistory(nb); err != nil {
		return nil, nil, err
	}
	return nb, sh, nil
}
