package frag

// stretch.go turns a built (or reshaped) file into a file of several GiB
// without materialising it: some mdat boxes get a hole of 1..2 GiB (zeros,
// filler after the last sample byte: 8.1.1 places no constraint on unreferenced
// mdat bytes) and the result is served through a virtual io.ReadSeeker. The
// mdat size fields, the sidx references/first_offset and the tfra moof offsets
// are fixed up on the byte level (no mp4ff call); trun data offsets are
// relative to the moof and stay valid because the hole trails the data.
// Limits of the formats are respected: a sidx referenced_size has 31 bits (at
// most one hole per history segment, each below 2^31), a version-0
// first_offset and a version-0 tfra moof_offset 32 bits, a compact mdat header
// 32 bits; holes that cannot be represented are dropped.

import (
	"encoding/binary"
	"fmt"
	"io"

	"verifharness/ref/boxwalk"
	reffrag "verifharness/ref/frag"
	"verifharness/runner"
)

// Hole is a run of N zero bytes inserted in front of byte At of Stretched.Small
// (At is the end of an mdat box: the hole belongs to that mdat).
type Hole struct {
	At  int   `json:"at"`
	N   int64 `json:"n"`
	Seg int   `json:"seg"`
}

// Stretched is a virtual file: Small with Holes inserted.
type Stretched struct {
	Small []byte
	Holes []Hole // ascending At
	Size  int64
	// B is the ground truth in virtual coordinates (B.Bytes is nil).
	B *Built
	// evidence
	Aligned      string // "", or the boundary a segment start was aligned to (e.g. "2^32+0")
	Dropped      int    // holes dropped because a 31/32-bit field could not hold the result
	SegsBeyond4G int    // history segments that start at or beyond 2^32
	RefsBeyond4G int    // references of top-level sidx boxes that start 2^32 or more after their anchor
	TfraBeyond4G int    // tfra entries with a moof offset at or beyond 2^32
	HugeHoles    int    // holes of 2^32-16 bytes or more (64-bit mdat header, no sidx in the file)

	chunks []sparseChunk
}

type sparseChunk struct {
	vstart int64
	real   []byte // nil: hole
	n      int64
}

type sparseReader struct {
	s     *Stretched
	pos   int64
	reads int64
}

// Reader returns a fresh io.ReadSeeker over the virtual file.
func (s *Stretched) Reader() io.ReadSeeker { return &sparseReader{s: s} }

// BytesRead reports how many bytes a reader made by Reader has handed out.
func BytesRead(r io.ReadSeeker) int64 {
	if sr, ok := r.(*sparseReader); ok {
		return sr.reads
	}
	return -1
}

func (r *sparseReader) Read(p []byte) (int, error) {
	if r.pos >= r.s.Size {
		return 0, io.EOF
	}
	n := 0
	for n < len(p) && r.pos < r.s.Size {
		var c *sparseChunk
		for i := range r.s.chunks {
			if ch := &r.s.chunks[i]; r.pos >= ch.vstart && r.pos < ch.vstart+ch.n {
				c = ch
				break
			}
		}
		if c == nil {
			break
		}
		off := r.pos - c.vstart
		k := int64(len(p) - n)
		if k > c.n-off {
			k = c.n - off
		}
		if c.real != nil {
			copy(p[n:n+int(k)], c.real[off:off+k])
		} else {
			if k > 1<<16 {
				k = 1 << 16 // never hand out more than 64 KiB of a hole per round
			}
			for i := 0; i < int(k); i++ {
				p[n+i] = 0
			}
		}
		n += int(k)
		r.pos += k
	}
	r.reads += int64(n)
	return n, nil
}

func (r *sparseReader) Seek(off int64, whence int) (int64, error) {
	switch whence {
	case io.SeekStart:
		r.pos = off
	case io.SeekCurrent:
		r.pos += off
	case io.SeekEnd:
		r.pos = r.s.Size + off
	}
	if r.pos < 0 {
		return 0, fmt.Errorf("negative position")
	}
	return r.pos, nil
}

// mapper returns the offset mapping Small -> virtual for a set of holes.
func mapper(holes []Hole) func(int) int {
	return func(off int) int {
		if off < 0 {
			return off
		}
		v := off
		for _, h := range holes {
			if h.At <= off {
				v += int(h.N)
			}
		}
		return v
	}
}

// Stretch draws holes for b and returns the virtual file, or nil when no hole
// could be placed (nothing representable). An error is a generator matter.
func Stretch(b *Built, r *runner.Rand) (*Stretched, error) {
	if len(b.Segs) == 0 {
		return nil, nil
	}
	hasSidx := false
	mdatPiece := map[int]Piece{}
	for _, p := range b.Pieces {
		if p.Type == "sidx" {
			hasSidx = true
		}
		if p.Type == "mdat" {
			mdatPiece[p.Start] = p
		}
	}
	isLarge := func(mdat int) bool { return binary.BigEndian.Uint32(b.Bytes[mdat:]) == 1 }
	// one hole per history segment at most, in a drawn fragment's mdat
	var hs []Hole
	all := r.Chance(2, 3)
	big := r.Chance(1, 2) // mostly holes of 1.5 GiB and more: three of them pass 2^32
	for si, s := range b.Segs {
		pick := all || r.Chance(1, 2)
		gi := s.Frags[r.Intn(len(s.Frags))]
		n := int64(r.PickInt(1<<30, 1288490189, 1610612736, 1<<31-1<<21, 1<<31-1<<21-r.Intn(1<<20), 1<<30+r.Intn(1<<29)))
		if big && n < 1610612736 {
			n = int64(r.PickInt(1610612736, 1<<31-1<<21, 1<<31-1<<22-r.Intn(1<<20)))
		}
		mp, ok := mdatPiece[b.Frags[gi].Mdat]
		if !ok {
			return nil, fmt.Errorf("fragment %d has no mdat piece", gi)
		}
		if !hasSidx && isLarge(mp.Start) && r.Chance(1, 2) {
			n = int64(r.PickInt(1<<32-16, 1<<32, 1<<32+12345, 5<<30))
		}
		if pick || (si == len(b.Segs)-1 && len(hs) == 0) {
			hs = append(hs, Hole{At: mp.End(), N: n, Seg: si})
		}
	}
	align := ""
	if k := len(hs); k >= 3 && r.Chance(1, 3) {
		// the start of the history segment after the k-th hole lands at 2^32+d, absolute or
		// relative to the anchor of the first top-level sidx (= the start of the first segment)
		k = 3 + r.Intn(k-2)
		d := r.PickInt(-1, 0, 0, 1, 8)
		rel := 0
		if len(b.TopSidx) > 0 && r.Bool() {
			rel = b.Segs[0].Start
		}
		if next := hs[k-1].Seg + 1; next < len(b.Segs) {
			sum := 0
			for j := 0; j < k-1; j++ {
				hs[j].N = int64(1<<32/k + r.Intn(1<<20))
				sum += int(hs[j].N)
			}
			want := 1<<32 + d + rel - b.Segs[next].Start - sum
			if want >= 1<<20 && want < 1<<31-1<<21 {
				hs[k-1].N = int64(want)
				align = fmt.Sprintf("2^32%+d", d)
				if rel > 0 {
					align += "-after-anchor"
				}
			}
		}
	}
	dropped := 0
	for len(hs) > 0 {
		st, err := applyHoles(b, hs)
		if err != nil {
			return nil, err
		}
		if st != nil {
			st.Aligned, st.Dropped = align, dropped
			return st, nil
		}
		// some field cannot hold its value: drop one hole and retry
		k := r.Intn(len(hs))
		hs = append(hs[:k:k], hs[k+1:]...)
		dropped++
		align = ""
	}
	return nil, nil
}

// applyHoles builds Small and the virtual ground truth. nil, nil: some
// 31/32-bit field cannot hold its value.
func applyHoles(b *Built, holes []Hole) (*Stretched, error) {
	st := &Stretched{Small: append([]byte{}, b.Bytes...), Holes: append([]Hole{}, holes...)}
	m := mapper(holes)
	small := st.Small
	// mdat size fields
	for _, h := range holes {
		var mp *Piece
		for i := range b.Pieces {
			if b.Pieces[i].Type == "mdat" && b.Pieces[i].End() == h.At {
				mp = &b.Pieces[i]
			}
		}
		if mp == nil {
			return nil, fmt.Errorf("no mdat ends at %d", h.At)
		}
		ns := uint64(mp.Size) + uint64(h.N)
		if binary.BigEndian.Uint32(small[mp.Start:]) == 1 {
			binary.BigEndian.PutUint64(small[mp.Start+8:], ns)
		} else {
			if ns > 0xffffffff {
				return nil, nil
			}
			binary.BigEndian.PutUint32(small[mp.Start:], uint32(ns))
		}
		if h.N >= 1<<32-16 {
			st.HugeHoles++
		}
	}
	for _, p := range b.Pieces {
		switch p.Type {
		case "sidx":
			sx, err := reffrag.ParseSidx(b.Bytes[p.Start+8 : p.End()])
			if err != nil {
				return nil, fmt.Errorf("sidx at %d: %w", p.Start, err)
			}
			out := small[p.Start+8 : p.End()]
			at := p.End() + int(sx.FirstOffset)
			nf := uint64(m(at) - m(p.End()))
			refs := 24
			if sx.Version == 0 {
				if nf > 0xffffffff {
					return nil, nil
				}
				binary.BigEndian.PutUint32(out[16:], uint32(nf))
			} else {
				binary.BigEndian.PutUint64(out[20:], nf)
				refs = 32
			}
			anchor := m(at)
			for i, rf := range sx.Refs {
				end := at + int(rf.Size)
				sz := m(end) - m(at)
				if sz >= 1<<31 {
					return nil, nil
				}
				if p.Role == "top-sidx" && rf.Type == 0 && m(at)-anchor >= 1<<32 {
					st.RefsBeyond4G++
				}
				w := binary.BigEndian.Uint32(out[refs+12*i:])
				binary.BigEndian.PutUint32(out[refs+12*i:], w&0x80000000|uint32(sz))
				at = end
			}
		case "mfra":
			nodes, err := boxwalk.Walk(small[p.Start:p.End()])
			if err != nil || len(nodes) != 1 {
				return nil, fmt.Errorf("mfra does not tile")
			}
			for ci, c := range nodes[0].Children {
				if c.Type != "tfra" {
					continue
				}
				pl := small[p.Start+c.Start+c.HdrLen : p.Start+c.End()]
				t, err := reffrag.ParseTfra(pl)
				if err != nil {
					return nil, err
				}
				tail := int(t.LengthSizeOfTrafNum) + int(t.LengthSizeOfTrunNum) + int(t.LengthSizeOfSampleNum) + 3
				at := 16
				for _, e := range t.Entries {
					no := uint64(m(int(e.MoofOffset)))
					if ci == 0 && no >= 1<<32 {
						st.TfraBeyond4G++
					}
					if t.Version == 1 {
						binary.BigEndian.PutUint64(pl[at+8:], no)
						at += 16 + tail
					} else {
						if no > 0xffffffff {
							return nil, nil
						}
						binary.BigEndian.PutUint32(pl[at+4:], uint32(no))
						at += 8 + tail
					}
				}
			}
		}
	}
	// ground truth in virtual coordinates
	nb := &Built{H: b.H, Init: b.Init, InitBytes: b.InitBytes}
	for _, p := range b.Pieces {
		np := p
		np.Start = m(p.Start)
		np.Size = m(p.End()) - np.Start
		nb.Pieces = append(nb.Pieces, np)
	}
	for _, f := range b.Frags {
		nf := *f
		nf.Obj = nil
		if f.InFile {
			nf.Start, nf.Lead, nf.Moof, nf.Mdat, nf.End = m(f.Start), m(f.Lead), m(f.Moof), m(f.Mdat), m(f.End)
		}
		nb.Frags = append(nb.Frags, &nf)
	}
	for _, s := range b.Segs {
		ns := *s
		ns.Obj = nil
		ns.Start, ns.End, ns.Styp, ns.FirstMedia = m(s.Start), m(s.End), m(s.Styp), m(s.FirstMedia)
		ns.Sidx = nil
		for _, o := range s.Sidx {
			ns.Sidx = append(ns.Sidx, m(o))
		}
		if ns.Start >= 1<<32 {
			st.SegsBeyond4G++
		}
		nb.Segs = append(nb.Segs, &ns)
	}
	nb.MediaEnd = m(b.MediaEnd)
	for _, o := range b.TopSidx {
		nb.TopSidx = append(nb.TopSidx, m(o))
	}
	st.B = nb
	st.Size = int64(m(len(b.Bytes)))
	// chunks of the virtual file
	prev := 0
	var v int64
	for _, h := range st.Holes {
		if h.At > prev {
			st.chunks = append(st.chunks, sparseChunk{vstart: v, real: small[prev:h.At], n: int64(h.At - prev)})
			v += int64(h.At - prev)
		}
		st.chunks = append(st.chunks, sparseChunk{vstart: v, n: h.N})
		v += h.N
		prev = h.At
	}
	if prev < len(small) {
		st.chunks = append(st.chunks, sparseChunk{vstart: v, real: small[prev:], n: int64(len(small) - prev)})
		v += int64(len(small) - prev)
	}
	if v != st.Size {
		return nil, fmt.Errorf("virtual file: chunks cover %d bytes, size %d", v, st.Size)
	}
	return st, nil
}
