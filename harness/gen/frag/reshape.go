package frag

// reshape.go rewrites the movie fragments of a built file, on the byte level
// and without any mp4ff call, into equivalent legal shapes that mp4ff's own
// fragment API never writes (ISO/IEC 14496-12 8.8.6-8.8.8):
//
//   - a track run is split into 2..4 runs inside the same traf, the runs' data
//     is permuted and/or separated by filler bytes inside the mdat (one
//     data_offset per run; a run whose data directly follows the previous run of
//     its traf may carry none), per-sample fields move to tfhd defaults, trex
//     defaults and first_sample_flags where the values allow it;
//   - a traf is split into 2..3 trafs of the same track inside one moof (own
//     tfhd with the same track id, own tfdt = decode time of its first sample,
//     own runs), interleaved with the other tracks' trafs when there are any;
//   - the mdat gets a 64-bit (largesize) header.
//
// The sample list of every track (payload bytes, size, duration, flags,
// composition offset, decode time) is unchanged: the rewritten file is
// expanded with the independent reader ref/frag and compared with the
// history's ground truth before anybody sees it. Everything outside moof/mdat
// is copied; sidx references/first_offset and tfra moof offsets are re-pointed
// to the moved box boundaries.

import (
	"bytes"
	"encoding/binary"
	"fmt"

	"verifharness/ref/boxwalk"
	reffrag "verifharness/ref/frag"
	"verifharness/runner"
)

// TrafShape describes one rewritten traf.
type TrafShape struct {
	Track uint32 `json:"track"`
	Truns int    `json:"truns"`
	Part  int    `json:"part"`  // ordinal among the trafs of its track in this moof
	Parts int    `json:"parts"` // trafs of its track in this moof
	// Sources lists, per run and field, where the value comes from:
	// "dur:trun", "size:tfhd", "flags:first+trex", ...
	Sources      []string `json:"sources"`
	NoDataOffset int      `json:"no_data_offset"` // runs without data_offset
}

// FragShape describes what became of one fragment (index = position in FragsInFile).
type FragShape struct {
	Rewritten         bool        `json:"rewritten"`
	Trafs             []TrafShape `json:"trafs,omitempty"`
	MaxTruns          int         `json:"max_truns"`           // largest number of runs in one traf
	MaxTrafsPerTrack  int         `json:"max_trafs_per_track"` // largest number of trafs of one track
	Runs              int         `json:"runs"`                // runs in the moof
	Permuted          bool        `json:"permuted"`            // data not in run order
	Gapped            bool        `json:"gapped"`              // filler between runs or in front of the first
	LeadGap           bool        `json:"lead_gap"`            // filler between the mdat header and the first data byte
	TrailGap          bool        `json:"trail_gap"`           // filler after the last data byte
	LargeMdat         bool        `json:"large_mdat"`
	SizesFromDefaults bool        `json:"sizes_from_defaults"` // some run takes its sample sizes from tfhd/trex
}

// Layout names the data layout class.
func (s FragShape) Layout() string {
	switch {
	case s.Permuted && s.Gapped:
		return "permuted+gapped"
	case s.Permuted:
		return "permuted"
	case s.Gapped:
		return "gapped"
	}
	return "contiguous"
}

// Class is the coarse shape class used in finding keys.
func (s FragShape) Class() string {
	if !s.Rewritten {
		return "asbuilt"
	}
	few := func(n int) string {
		if n > 1 {
			return "N"
		}
		return "1"
	}
	l := "contig"
	if s.Permuted || s.Gapped {
		l = "noncontig"
	}
	return "truns" + few(s.MaxTruns) + "-trafs" + few(s.MaxTrafsPerTrack) + "-" + l
}

func mkBox(typ string, parts ...[]byte) []byte {
	n := 8
	for _, p := range parts {
		n += len(p)
	}
	out := make([]byte, 8, n)
	binary.BigEndian.PutUint32(out, uint32(n))
	copy(out[4:], typ)
	for _, p := range parts {
		out = append(out, p...)
	}
	return out
}

func u32(v uint32) []byte {
	var b [4]byte
	binary.BigEndian.PutUint32(b[:], v)
	return b[:]
}

func u64(v uint64) []byte {
	var b [8]byte
	binary.BigEndian.PutUint64(b[:], v)
	return b[:]
}

type rsRun struct {
	samples                          []Sample
	hasDur, hasSize, hasFlags, first bool
	hasCto, hasOffset                bool
	version                          byte
	offAt                            int // offset of the data_offset field inside the moof
	dataPos                          int // offset of the run's data inside the mdat payload
}

func (r *rsRun) dataLen() int {
	n := 0
	for _, s := range r.samples {
		n += int(s.Size)
	}
	return n
}

type rsTraf struct {
	track                     uint32
	hasSdi                    bool
	sdi                       uint32
	defDur, defSize, defFlags *uint32
	tfdt                      uint64
	tfdtV                     byte
	runs                      []*rsRun
	part, parts               int
}

func allEq(ss []Sample, f func(Sample) uint32, v uint32) bool {
	for _, s := range ss {
		if f(s) != v {
			return false
		}
	}
	return true
}

func cutPoints(r *runner.Rand, m, parts int) []int {
	// parts-1 distinct cut points in 1..m-1, ascending
	p := r.Perm(m - 1)[:parts-1]
	for i := range p {
		p[i]++
	}
	for i := 0; i < len(p); i++ {
		for j := i + 1; j < len(p); j++ {
			if p[j] < p[i] {
				p[i], p[j] = p[j], p[i]
			}
		}
	}
	return p
}

func splitSamples(ss []Sample, cuts []int) [][]Sample {
	var out [][]Sample
	prev := 0
	for _, c := range cuts {
		out = append(out, ss[prev:c])
		prev = c
	}
	return append(out, ss[prev:])
}

// planField decides, for one field of one traf, the tfhd default (nil: none)
// and which runs carry the field per sample.
func planField(r *runner.Rand, runs []*rsRun, get func(Sample) uint32, trex *uint32, forceTrex bool) (def *uint32, explicit []bool) {
	explicit = make([]bool, len(runs))
	mode := r.PickStr("explicit", "explicit", "tfhd", "tfhd", "tfhd", "trex", "trex", "decoy")
	if forceTrex {
		mode = "trex"
	}
	switch mode {
	case "explicit":
		for i := range explicit {
			explicit[i] = true
		}
	case "decoy":
		v := r.Uint32()
		def = &v
		for i := range explicit {
			explicit[i] = true
		}
	case "tfhd":
		var cands []uint32
		for _, ru := range runs {
			if len(ru.samples) > 0 && allEq(ru.samples, get, get(ru.samples[0])) {
				cands = append(cands, get(ru.samples[0]))
			}
		}
		var v uint32
		if len(cands) > 0 {
			v = cands[r.Intn(len(cands))]
		} else if len(runs) > 0 && len(runs[0].samples) > 0 {
			v = get(runs[0].samples[len(runs[0].samples)-1])
		}
		def = &v
		for i, ru := range runs {
			explicit[i] = !allEq(ru.samples, get, v)
		}
	case "trex":
		for i, ru := range runs {
			explicit[i] = trex == nil || !allEq(ru.samples, get, *trex)
		}
	}
	return
}

func (t *rsTraf) encode(shape *TrafShape) []byte {
	flags := uint32(reffrag.TfhdDefaultBaseMoof)
	var tf []byte
	tf = append(tf, u32(0)...) // version/flags patched below
	tf = append(tf, u32(t.track)...)
	if t.hasSdi {
		flags |= reffrag.TfhdSampleDescIndex
		tf = append(tf, u32(t.sdi)...)
	}
	if t.defDur != nil {
		flags |= reffrag.TfhdDefaultDuration
		tf = append(tf, u32(*t.defDur)...)
	}
	if t.defSize != nil {
		flags |= reffrag.TfhdDefaultSize
		tf = append(tf, u32(*t.defSize)...)
	}
	if t.defFlags != nil {
		flags |= reffrag.TfhdDefaultFlags
		tf = append(tf, u32(*t.defFlags)...)
	}
	binary.BigEndian.PutUint32(tf, flags)
	out := mkBox("tfhd", tf)
	if t.tfdtV == 1 {
		out = append(out, mkBox("tfdt", u32(1<<24), u64(t.tfdt))...)
	} else {
		out = append(out, mkBox("tfdt", u32(0), u32(uint32(t.tfdt)))...)
	}
	src := func(field string, explicit bool, def *uint32) string {
		switch {
		case explicit:
			return field + ":trun"
		case def != nil:
			return field + ":tfhd"
		}
		return field + ":trex"
	}
	for _, ru := range t.runs {
		var fl uint32
		var p []byte
		p = append(p, u32(0)...)
		p = append(p, u32(uint32(len(ru.samples)))...)
		if ru.hasOffset {
			fl |= reffrag.TrunDataOffset
			ru.offAt = 8 + len(out) + 8 + len(p) // traf header + boxes so far + trun header + fields so far
			p = append(p, u32(0)...)
		} else {
			shape.NoDataOffset++
		}
		if ru.first {
			fl |= reffrag.TrunFirstSampleFlags
			p = append(p, u32(ru.samples[0].Flags)...)
		}
		if ru.hasDur {
			fl |= reffrag.TrunDuration
		}
		if ru.hasSize {
			fl |= reffrag.TrunSize
		}
		if ru.hasFlags {
			fl |= reffrag.TrunFlags
		}
		if ru.hasCto {
			fl |= reffrag.TrunCto
		}
		for _, s := range ru.samples {
			if ru.hasDur {
				p = append(p, u32(s.Dur)...)
			}
			if ru.hasSize {
				p = append(p, u32(s.Size)...)
			}
			if ru.hasFlags {
				p = append(p, u32(s.Flags)...)
			}
			if ru.hasCto {
				p = append(p, u32(uint32(s.Cto))...)
			}
		}
		binary.BigEndian.PutUint32(p, uint32(ru.version)<<24|fl)
		out = append(out, mkBox("trun", p)...)
		if len(ru.samples) > 0 {
			fs := src("flags", ru.hasFlags, t.defFlags)
			if ru.first {
				fs = "flags:first"
				if len(ru.samples) > 1 {
					fs += "+" + src("", false, t.defFlags)[1:]
				}
			}
			shape.Sources = append(shape.Sources, src("dur", ru.hasDur, t.defDur), src("size", ru.hasSize, t.defSize), fs)
		}
	}
	return mkBox("traf", out)
}

// reshapeFragment builds the new moof and mdat of one fragment. ok=false: the
// fragment has a structure the rewriter does not handle and stays as built.
func reshapeFragment(r *runner.Rand, orig []byte, moof *boxwalk.Node, mi *reffrag.MoofInfo, init *reffrag.Init, spec *FragmentSpec, wasLarge bool) (newMoof, newMdat []byte, shape FragShape, ok bool) {
	var mfhd []byte
	for _, c := range moof.Children {
		switch c.Type {
		case "mfhd":
			mfhd = c.Bytes(orig)
		case "traf":
			for _, cc := range c.Children {
				if cc.Type != "tfhd" && cc.Type != "tfdt" && cc.Type != "trun" {
					return nil, nil, shape, false
				}
			}
		default:
			return nil, nil, shape, false
		}
	}
	if mfhd == nil {
		return nil, nil, shape, false
	}
	model := spec.Samples()
	seenTrack := map[uint32]bool{}
	type origTraf struct {
		ti    *reffrag.TrafInfo
		parts [][]Sample
	}
	var ots []origTraf
	for i := range mi.Trafs {
		ti := &mi.Trafs[i]
		id := ti.Tfhd.TrackID
		if seenTrack[id] || ti.Tfdt == nil || ti.Tfhd.Has(reffrag.TfhdBaseDataOffset) || !ti.Tfhd.Has(reffrag.TfhdDefaultBaseMoof) || ti.Tfhd.Has(reffrag.TfhdDurationIsEmpty) {
			return nil, nil, shape, false
		}
		seenTrack[id] = true
		ss := model[id]
		if len(ss) != len(ti.Samples) {
			return nil, nil, shape, false
		}
		m := len(ss)
		parts := 1
		switch {
		case m >= 3 && r.Chance(1, 8):
			parts = 3
		case m >= 2 && r.Chance(2, 5):
			parts = 2
		}
		ot := origTraf{ti: ti, parts: [][]Sample{ss}}
		if parts > 1 {
			ot.parts = splitSamples(ss, cutPoints(r, m, parts))
		}
		ots = append(ots, ot)
	}
	for id := range model {
		if !seenTrack[id] && len(model[id]) > 0 {
			return nil, nil, shape, false
		}
	}
	// order of the new trafs: round robin over the tracks (A1 B1 A2 B2), or adjacent (A1 A2 B1 B2)
	var trafs []*rsTraf
	mk := func(ot origTraf, k int) *rsTraf {
		t := &rsTraf{track: ot.ti.Tfhd.TrackID, hasSdi: ot.ti.Tfhd.Has(reffrag.TfhdSampleDescIndex), sdi: ot.ti.Tfhd.SampleDescriptionIndex,
			tfdt: ot.ti.Tfdt.BaseMediaDecodeTime, tfdtV: ot.ti.Tfdt.Version, part: k, parts: len(ot.parts)}
		ss := ot.parts[k]
		if k > 0 {
			t.tfdt = ss[0].DecodeTime
			if t.tfdt > 0xffffffff || r.Chance(1, 4) {
				t.tfdtV = 1
			}
		}
		// runs
		m := len(ss)
		nt := r.PickInt(1, 1, 1, 2, 2, 2, 2, 3, 3, 4)
		if nt > m {
			nt = m
		}
		if m == 0 {
			if len(ot.ti.Truns) > 0 {
				t.runs = []*rsRun{{hasOffset: true}}
			}
			return t
		}
		var chunks [][]Sample
		if nt > 1 {
			chunks = splitSamples(ss, cutPoints(r, m, nt))
		} else {
			chunks = [][]Sample{ss}
		}
		for _, ch := range chunks {
			t.runs = append(t.runs, &rsRun{samples: ch, hasOffset: true})
		}
		return t
	}
	if r.Chance(2, 3) {
		for k := 0; k < 3; k++ {
			for _, ot := range ots {
				if k < len(ot.parts) {
					trafs = append(trafs, mk(ot, k))
				}
			}
		}
	} else {
		for _, ot := range ots {
			for k := range ot.parts {
				trafs = append(trafs, mk(ot, k))
			}
		}
	}
	// field sources per traf
	for _, t := range trafs {
		var trex *reffrag.Trex
		if tr := init.TrackByID(t.track); tr != nil {
			trex = tr.Trex
		}
		var xd, xs, xf *uint32
		if trex != nil {
			xd, xs, xf = &trex.DefaultSampleDuration, &trex.DefaultSampleSize, &trex.DefaultSampleFlags
		}
		var e []bool
		t.defDur, e = planField(r, t.runs, func(s Sample) uint32 { return s.Dur }, xd, false)
		for i, ru := range t.runs {
			ru.hasDur = e[i]
		}
		t.defSize, e = planField(r, t.runs, func(s Sample) uint32 { return s.Size }, xs, false)
		for i, ru := range t.runs {
			ru.hasSize = e[i]
			if !ru.hasSize && len(ru.samples) > 0 {
				shape.SizesFromDefaults = true
			}
		}
		t.defFlags, e = planField(r, t.runs, func(s Sample) uint32 { return s.Flags }, xf, false)
		eff := xf
		if t.defFlags != nil {
			eff = t.defFlags
		}
		for i, ru := range t.runs {
			ru.hasFlags = e[i]
			// first_sample_flags: possible when every sample but the first has the default in force
			if len(ru.samples) > 0 && eff != nil && allEq(ru.samples[1:], func(s Sample) uint32 { return s.Flags }, *eff) {
				if (ru.hasFlags && r.Chance(3, 4)) || (!ru.hasFlags && r.Chance(1, 6)) {
					ru.hasFlags, ru.first = false, true
				}
			}
		}
		for _, ru := range t.runs {
			neg, nz := false, false
			for _, s := range ru.samples {
				neg = neg || s.Cto < 0
				nz = nz || s.Cto != 0
			}
			ru.hasCto = nz || r.Chance(1, 4)
			ru.version = byte(r.Intn(2))
			if neg {
				ru.version = 1
			}
		}
	}
	// data layout
	var runs []*rsRun
	for _, t := range trafs {
		runs = append(runs, t.runs...)
	}
	n := len(runs)
	order := make([]int, n)
	for i := range order {
		order[i] = i
	}
	layout := r.PickInt(0, 0, 0, 1, 1, 2, 2, 3, 3)
	if layout&1 != 0 && n > 1 {
		order = r.Perm(n)
		for i, v := range order {
			if i != v {
				shape.Permuted = true
			}
		}
	}
	var payload []byte
	filler := func(k int) {
		for i := 0; i < k; i++ {
			payload = append(payload, "GAP!"[i%4])
		}
	}
	gapAt := -1
	if layout&2 != 0 && n > 0 {
		gapAt = r.Intn(n) // at least this position gets a gap
	}
	for pos, ri := range order {
		if layout&2 != 0 && (pos == gapAt || r.Chance(1, 3)) {
			filler(r.PickInt(1, 1, 2, 3, 4, 7, 8, 9, 16, 33))
			shape.Gapped = true
			if pos == 0 {
				shape.LeadGap = true
			}
		}
		ru := runs[ri]
		ru.dataPos = len(payload)
		for _, s := range ru.samples {
			payload = append(payload, s.Data()...)
		}
	}
	if layout&2 != 0 && r.Chance(1, 4) {
		filler(r.PickInt(1, 4, 8, 13))
		shape.TrailGap = true
	}
	// a run whose data directly follows the previous run of its traf may go without data_offset
	for _, t := range trafs {
		for i := 1; i < len(t.runs); i++ {
			p, q := t.runs[i-1], t.runs[i]
			if q.dataPos == p.dataPos+p.dataLen() && r.Chance(1, 3) {
				q.hasOffset = false
			}
		}
	}
	shape.LargeMdat = wasLarge || r.Chance(1, 4)
	// encode
	perTrack := map[uint32]int{}
	body := append([]byte{}, mfhd...)
	type patch struct {
		at  int
		run *rsRun
	}
	var patches []patch
	for _, t := range trafs {
		ts := TrafShape{Track: t.track, Truns: len(t.runs), Part: t.part, Parts: t.parts}
		tb := t.encode(&ts)
		for _, ru := range t.runs {
			if ru.hasOffset {
				patches = append(patches, patch{8 + len(body) + ru.offAt, ru})
			}
		}
		body = append(body, tb...)
		shape.Trafs = append(shape.Trafs, ts)
		perTrack[t.track]++
		if len(t.runs) > shape.MaxTruns {
			shape.MaxTruns = len(t.runs)
		}
		if perTrack[t.track] > shape.MaxTrafsPerTrack {
			shape.MaxTrafsPerTrack = perTrack[t.track]
		}
	}
	shape.Runs = n
	newMoof = mkBox("moof", body)
	hdr := 8
	if shape.LargeMdat {
		hdr = 16
	}
	for _, p := range patches {
		binary.BigEndian.PutUint32(newMoof[p.at:], uint32(len(newMoof)+hdr+p.run.dataPos))
	}
	if shape.LargeMdat {
		newMdat = make([]byte, 16, 16+len(payload))
		binary.BigEndian.PutUint32(newMdat, 1)
		copy(newMdat[4:], "mdat")
		binary.BigEndian.PutUint64(newMdat[8:], uint64(16+len(payload)))
		newMdat = append(newMdat, payload...)
	} else {
		newMdat = mkBox("mdat", payload)
	}
	shape.Rewritten = true
	return newMoof, newMdat, shape, true
}

// Reshape rewrites the fragments of b (see the file comment) and returns the
// new file with its ground truth (same History, moved positions) and the shape
// of every in-file fragment. An error means the rewriter or the built file is
// not usable (a generator matter, never a finding about mp4ff).
func Reshape(b *Built, r *runner.Rand) (*Built, []FragShape, error) {
	exp, err := reffrag.ExpandFile(b.Bytes, nil)
	if err != nil {
		return nil, nil, fmt.Errorf("reference reader cannot expand the built file: %w", err)
	}
	frags := b.FragsInFile()
	if len(exp.Moofs) != len(frags) {
		return nil, nil, fmt.Errorf("built file has %d moof boxes, history says %d fragments", len(exp.Moofs), len(frags))
	}
	var moofNodes []*boxwalk.Node
	for _, n := range exp.Top {
		if n.Type == "moof" {
			moofNodes = append(moofNodes, n)
		}
	}
	fragOrd := map[int]int{} // global fragment index -> ordinal in file
	k := 0
	for gi, f := range b.Frags {
		if f.InFile {
			fragOrd[gi] = k
			k++
		}
	}
	shapes := make([]FragShape, len(frags))
	type repl struct{ moof, mdat []byte }
	repls := map[int]*repl{}
	for i, f := range frags {
		if moofNodes[i].Start != f.Moof {
			return nil, nil, fmt.Errorf("fragment %d: moof at %d, ground truth says %d", i, moofNodes[i].Start, f.Moof)
		}
		if r.Chance(1, 6) {
			continue // stays as built
		}
		wasLarge := f.Mdat >= 0 && f.Mdat+4 <= len(b.Bytes) && binary.BigEndian.Uint32(b.Bytes[f.Mdat:]) == 1
		nm, nd, sh, ok := reshapeFragment(r, b.Bytes, moofNodes[i], exp.Moofs[i], exp.Init, f.Spec, wasLarge)
		if !ok {
			continue
		}
		shapes[i] = sh
		repls[i] = &repl{nm, nd}
	}
	// assemble
	nb := &Built{H: b.H, Init: b.Init, InitBytes: b.InitBytes}
	var file []byte
	pos := map[int]int{}
	for pi, p := range b.Pieces {
		if pi > 0 && b.Pieces[pi-1].End() != p.Start {
			return nil, nil, fmt.Errorf("pieces do not tile at %d", p.Start)
		}
		pos[p.Start] = len(file)
		np := p
		np.Start = len(file)
		src := b.Bytes[p.Start:p.End()]
		if p.Frag >= 0 && (p.Role == "moof" || p.Role == "mdat") {
			if rp := repls[fragOrd[p.Frag]]; rp != nil {
				if p.Role == "moof" {
					src = rp.moof
				} else {
					src = rp.mdat
				}
			}
		}
		np.Size = len(src)
		file = append(file, src...)
		nb.Pieces = append(nb.Pieces, np)
	}
	pos[len(b.Bytes)] = len(file)
	mp := func(old int) (int, error) {
		if old < 0 {
			return old, nil
		}
		v, ok := pos[old]
		if !ok {
			return 0, fmt.Errorf("offset %d of the built file is not a top-level box boundary", old)
		}
		return v, nil
	}
	var merr error
	m := func(old int) int {
		v, err := mp(old)
		if err != nil && merr == nil {
			merr = err
		}
		return v
	}
	// re-point sidx boxes and tfra entries
	for pi, p := range b.Pieces {
		np := nb.Pieces[pi]
		switch p.Type {
		case "sidx":
			if err := repointSidx(b.Bytes, file, p, np, m); err != nil {
				return nil, nil, err
			}
		case "mfra":
			if err := repointMfra(file, np, m); err != nil {
				return nil, nil, err
			}
		}
	}
	// ground truth positions
	for _, f := range b.Frags {
		nf := *f
		nf.Obj = nil
		if f.InFile {
			nf.Start, nf.Lead, nf.Moof, nf.Mdat, nf.End = m(f.Start), m(f.Lead), m(f.Moof), m(f.Mdat), m(f.End)
		}
		nb.Frags = append(nb.Frags, &nf)
	}
	for _, s := range b.Segs {
		ns := *s
		ns.Obj = nil
		ns.Start, ns.End, ns.Styp, ns.FirstMedia = m(s.Start), m(s.End), m(s.Styp), m(s.FirstMedia)
		ns.Sidx = nil
		for _, o := range s.Sidx {
			ns.Sidx = append(ns.Sidx, m(o))
		}
		nb.Segs = append(nb.Segs, &ns)
	}
	nb.MediaEnd = m(b.MediaEnd)
	for _, o := range b.TopSidx {
		nb.TopSidx = append(nb.TopSidx, m(o))
	}
	if merr != nil {
		return nil, nil, merr
	}
	nb.Bytes = file
	if err := VerifyAgainstHistory(nb); err != nil {
		return nil, nil, err
	}
	return nb, shapes, nil
}

func repointSidx(old, file []byte, p, np Piece, m func(int) int) error {
	pay := old[p.Start+8 : p.End()]
	sx, err := reffrag.ParseSidx(pay)
	if err != nil {
		return fmt.Errorf("sidx at %d: %w", p.Start, err)
	}
	at := p.End() + int(sx.FirstOffset)
	newAt := m(at)
	out := file[np.Start+8 : np.End()]
	refs := 0
	if sx.Version == 0 {
		binary.BigEndian.PutUint32(out[16:], uint32(newAt-np.End()))
		refs = 24
	} else {
		binary.BigEndian.PutUint64(out[20:], uint64(newAt-np.End()))
		refs = 32
	}
	for i, rf := range sx.Refs {
		end := at + int(rf.Size)
		w := binary.BigEndian.Uint32(out[refs+12*i:])
		binary.BigEndian.PutUint32(out[refs+12*i:], w&0x80000000|uint32(m(end)-m(at)))
		at = end
	}
	return nil
}

func repointMfra(file []byte, np Piece, m func(int) int) error {
	nodes, err := boxwalk.Walk(file[np.Start:np.End()])
	if err != nil || len(nodes) != 1 {
		return fmt.Errorf("mfra does not tile")
	}
	for _, c := range nodes[0].Children {
		if c.Type != "tfra" {
			continue
		}
		p := file[np.Start+c.Start+c.HdrLen : np.Start+c.End()]
		t, err := reffrag.ParseTfra(p)
		if err != nil {
			return err
		}
		tail := int(t.LengthSizeOfTrafNum) + int(t.LengthSizeOfTrunNum) + int(t.LengthSizeOfSampleNum) + 3
		at := 16
		for range t.Entries {
			if t.Version == 1 {
				o := binary.BigEndian.Uint64(p[at+8:])
				binary.BigEndian.PutUint64(p[at+8:], uint64(m(int(o))))
				at += 16 + tail
			} else {
				o := binary.BigEndian.Uint32(p[at+4:])
				binary.BigEndian.PutUint32(p[at+4:], uint32(m(int(o))))
				at += 8 + tail
			}
		}
	}
	return nil
}

// VerifyAgainstHistory expands b.Bytes with the independent reader and
// compares, fragment by fragment and track by track, the samples with the
// history (payload bytes, size, duration, flags, composition offset, decode
// time) and checks that every sample's data lies inside its fragment's mdat.
func VerifyAgainstHistory(b *Built) error {
	exp, err := reffrag.ExpandFile(b.Bytes, nil)
	if err != nil {
		return fmt.Errorf("reference reader cannot expand the rewritten file: %w", err)
	}
	frags := b.FragsInFile()
	if len(exp.Moofs) != len(frags) {
		return fmt.Errorf("rewritten file has %d moof boxes, history says %d fragments", len(exp.Moofs), len(frags))
	}
	var mdats []*boxwalk.Node
	for _, n := range exp.Top {
		if n.Type == "mdat" {
			mdats = append(mdats, n)
		}
	}
	if len(mdats) != len(frags) {
		return fmt.Errorf("rewritten file has %d mdat boxes for %d fragments", len(mdats), len(frags))
	}
	for i, f := range frags {
		mi := exp.Moofs[i]
		if mi.Start != f.Moof || mdats[i].Start != f.Mdat {
			return fmt.Errorf("fragment %d: moof/mdat at %d/%d, ground truth says %d/%d", i, mi.Start, mdats[i].Start, f.Moof, f.Mdat)
		}
		model := f.Spec.Samples()
		ids := map[uint32]bool{}
		for id := range model {
			ids[id] = true
		}
		for _, t := range mi.Trafs {
			ids[t.Tfhd.TrackID] = true
		}
		for id := range ids {
			want, got := model[id], mi.TrackSamples(id)
			if len(want) != len(got) {
				return fmt.Errorf("fragment %d track %d: %d samples expanded, history has %d", i, id, len(got), len(want))
			}
			for k, w := range want {
				g := got[k]
				if g.Size != w.Size || g.Duration != w.Dur || g.Flags != w.Flags || g.Cto != int64(w.Cto) || g.DecodeTime != w.DecodeTime {
					return fmt.Errorf("fragment %d track %d sample %d: expanded (size %d dur %d flags %#x cto %d dts %d), history (size %d dur %d flags %#x cto %d dts %d)",
						i, id, k, g.Size, g.Duration, g.Flags, g.Cto, g.DecodeTime, w.Size, w.Dur, w.Flags, w.Cto, w.DecodeTime)
				}
				if g.Offset < mdats[i].Start+mdats[i].HdrLen || g.Offset+int(g.Size) > mdats[i].End() {
					return fmt.Errorf("fragment %d track %d sample %d: data [%d,%d) outside its mdat", i, id, k, g.Offset, g.Offset+int(g.Size))
				}
				if !bytes.Equal(g.Data, w.Data()) {
					return fmt.Errorf("fragment %d track %d sample %d: payload differs from the history's", i, id, k)
				}
			}
		}
	}
	return nil
}
