package frag

// encboxes.go inserts, on the byte level and without any mp4ff call,
// syntactically valid sample-encryption boxes (ISO/IEC 23001-7: senc, or its
// PIFF uuid form; ISO/IEC 14496-12 8.7.8/8.7.9: saiz + saio pointing at the
// senc's per-sample data) into the trafs of a built (or reshaped) file whose
// sample entries are clear: the shape of a file that was decrypted without
// dropping the now unused boxes, which is what add-sidx's -removeEnc is for.
// The moofs grow, so every trun data_offset of the moof, the sidx
// references/first_offset and the tfra moof offsets are fixed up. The sample
// lists are unchanged: the result is verified against the history with
// ref/frag before anybody sees it.

import (
	"encoding/binary"
	"fmt"

	"verifharness/ref/boxwalk"
	reffrag "verifharness/ref/frag"
	"verifharness/runner"
)

// EncShape describes what was inserted into one fragment (index = position in FragsInFile).
type EncShape struct {
	Trafs int      `json:"trafs"` // trafs that received boxes
	Bytes int      `json:"bytes"` // bytes added to the moof
	Kinds []string `json:"kinds"` // per traf, e.g. "senc+saiz+saio/subsamples/after-truns"
}

var piffSencUUID = []byte{0xa2, 0x39, 0x4f, 0x52, 0x5a, 0x9b, 0x4f, 0x14, 0xa2, 0x44, 0x6c, 0x42, 0x7c, 0x64, 0x8d, 0xf4}

// replacePieces builds a new Built from b with the bytes of some top-level
// boxes replaced (key: index into b.Pieces); sidx boxes and tfra entries are
// re-pointed, the ground-truth positions moved.
func replacePieces(b *Built, repl map[int][]byte) (*Built, error) {
	nb := &Built{H: b.H, Init: b.Init, InitBytes: b.InitBytes}
	var file []byte
	pos := map[int]int{}
	for pi, p := range b.Pieces {
		if pi > 0 && b.Pieces[pi-1].End() != p.Start {
			return nil, fmt.Errorf("pieces do not tile at %d", p.Start)
		}
		pos[p.Start] = len(file)
		np := p
		np.Start = len(file)
		src := b.Bytes[p.Start:p.End()]
		if rp, ok := repl[pi]; ok {
			src = rp
		}
		np.Size = len(src)
		file = append(file, src...)
		nb.Pieces = append(nb.Pieces, np)
	}
	pos[len(b.Bytes)] = len(file)
	var merr error
	m := func(old int) int {
		if old < 0 {
			return old
		}
		v, ok := pos[old]
		if !ok && merr == nil {
			merr = fmt.Errorf("offset %d of the built file is not a top-level box boundary", old)
		}
		return v
	}
	for pi, p := range b.Pieces {
		np := nb.Pieces[pi]
		switch p.Type {
		case "sidx":
			if err := repointSidx(b.Bytes, file, p, np, m); err != nil {
				return nil, err
			}
		case "mfra":
			if err := repointMfra(file, np, m); err != nil {
				return nil, err
			}
		}
	}
	for _, f := range b.Frags {
		nf := *f
		nf.Obj = nil
		if f.InFile {
			nf.Start, nf.Lead, nf.Moof, nf.Mdat, nf.End = m(f.Start), m(f.Lead), m(f.Moof), m(f.Mdat), m(f.End)
		}
		nb.Frags = append(nb.Frags, &nf)
	}
	for _, s := range b.Segs {
		ns := *s
		ns.Obj = nil
		ns.Start, ns.End, ns.Styp, ns.FirstMedia = m(s.Start), m(s.End), m(s.Styp), m(s.FirstMedia)
		ns.Sidx = nil
		for _, o := range s.Sidx {
			ns.Sidx = append(ns.Sidx, m(o))
		}
		nb.Segs = append(nb.Segs, &ns)
	}
	nb.MediaEnd = m(b.MediaEnd)
	for _, o := range b.TopSidx {
		nb.TopSidx = append(nb.TopSidx, m(o))
	}
	if merr != nil {
		return nil, merr
	}
	nb.Bytes = file
	return nb, nil
}

type encPlan struct {
	at    int    // offset inside the old traf (relative to the traf start) where the boxes go
	boxes []byte // saiz/saio/senc in their drawn order
	saio  int    // offset of the saio offset field inside boxes, -1 when there is no saio
	saioV byte
	aux   int // offset of the first per-sample auxiliary byte inside boxes
	kind  string
}

// planEncBoxes draws the boxes for one traf with n samples.
func planEncBoxes(r *runner.Rand, n int) *encPlan {
	p := &encPlan{saio: -1}
	piff := r.Chance(1, 5)
	sub := r.Chance(1, 3)
	ivSize := r.PickInt(8, 8, 8, 16)
	var aux []byte
	var sizes []byte
	allEq := true
	for i := 0; i < n; i++ {
		start := len(aux)
		aux = append(aux, r.Bytes(ivSize)...)
		if sub {
			k := 1 + r.Intn(2)
			aux = append(aux, byte(k>>8), byte(k))
			for j := 0; j < k; j++ {
				aux = append(aux, 0, byte(r.Intn(32)))
				aux = append(aux, u32(uint32(r.Intn(4000)))...)
			}
		}
		sizes = append(sizes, byte(len(aux)-start))
		if sizes[i] != sizes[0] {
			allEq = false
		}
	}
	var sencFlags uint32
	if sub {
		sencFlags = 2
	}
	var senc []byte
	if piff {
		senc = mkBox("uuid", piffSencUUID, u32(sencFlags), u32(uint32(n)), aux)
	} else {
		senc = mkBox("senc", u32(sencFlags), u32(uint32(n)), aux)
	}
	auxInSenc := len(senc) - len(aux)
	p.kind = "senc"
	if piff {
		p.kind = "uuid-senc"
	}
	withSai := !r.Chance(1, 6)
	var saiz, saio []byte
	saioField := 0
	if withSai {
		var typ []byte
		var fl uint32
		if r.Bool() {
			fl = 1
			typ = append([]byte("cenc"), 0, 0, 0, 0)
		}
		if allEq && n > 0 && !r.Chance(1, 4) {
			saiz = mkBox("saiz", u32(fl), typ, []byte{sizes[0]}, u32(uint32(n)))
			p.kind += "+saiz-default"
		} else {
			saiz = mkBox("saiz", u32(fl), typ, []byte{0}, u32(uint32(n)), sizes)
			p.kind += "+saiz-table"
		}
		p.saioV = byte(r.Intn(2))
		if p.saioV == 1 {
			saio = mkBox("saio", u32(1<<24|fl), typ, u32(1), u64(0))
		} else {
			saio = mkBox("saio", u32(fl), typ, u32(1), u32(0))
		}
		saioField = 8 + 4 + len(typ) + 4
		p.kind += fmt.Sprintf("+saio-v%d", p.saioV)
	}
	if sub {
		p.kind += "/subsamples"
	}
	p.kind += fmt.Sprintf("/iv%d", ivSize)
	if withSai && r.Chance(1, 3) {
		// senc first
		p.boxes = append(append(append([]byte{}, senc...), saiz...), saio...)
		p.aux = auxInSenc
		p.saio = len(senc) + len(saiz) + saioField
		p.kind += "/senc-first"
	} else {
		p.boxes = append(append(append([]byte{}, saiz...), saio...), senc...)
		p.aux = len(saiz) + len(saio) + auxInSenc
		if withSai {
			p.saio = len(saiz) + saioField
		}
	}
	return p
}

// AddEncBoxes inserts sample-encryption boxes into the trafs of 5 of 6
// fragments of b (at least one). It returns the new file with its ground truth
// and what was inserted per in-file fragment. An error is a generator matter.
func AddEncBoxes(b *Built, r *runner.Rand) (*Built, []EncShape, error) {
	exp, err := reffrag.ExpandFile(b.Bytes, nil)
	if err != nil {
		return nil, nil, fmt.Errorf("reference reader cannot expand the file: %w", err)
	}
	frags := b.FragsInFile()
	if len(exp.Moofs) != len(frags) {
		return nil, nil, fmt.Errorf("file has %d moof boxes, history says %d fragments", len(exp.Moofs), len(frags))
	}
	var moofNodes []*boxwalk.Node
	for _, n := range exp.Top {
		if n.Type == "moof" {
			moofNodes = append(moofNodes, n)
		}
	}
	moofPiece := map[int]int{} // moof offset -> piece index
	for pi, p := range b.Pieces {
		if p.Type == "moof" {
			moofPiece[p.Start] = pi
		}
	}
	shapes := make([]EncShape, len(frags))
	repl := map[int][]byte{}
	forced := r.Intn(len(frags))
	for i := range frags {
		if i != forced && r.Chance(1, 6) {
			continue
		}
		mn, mi := moofNodes[i], exp.Moofs[i]
		pi, ok := moofPiece[mn.Start]
		if !ok || mn.HdrLen != 8 {
			continue
		}
		usable := true
		ti := 0
		for _, c := range mn.Children {
			if c.Type != "traf" {
				continue
			}
			if ti >= len(mi.Trafs) || c.HdrLen != 8 {
				usable = false
				break
			}
			h := mi.Trafs[ti].Tfhd
			if h.Has(reffrag.TfhdBaseDataOffset) || !h.Has(reffrag.TfhdDefaultBaseMoof) {
				usable = false
			}
			ti++
		}
		if !usable || ti == 0 {
			continue
		}
		// plans per traf
		plans := make([]*encPlan, ti)
		any := r.Intn(ti)
		total := 0
		for k := 0; k < ti; k++ {
			if k != any && r.Chance(1, 4) {
				continue
			}
			plans[k] = planEncBoxes(r, len(mi.Trafs[k].Samples))
			total += len(plans[k].boxes)
		}
		// rebuild the moof
		orig := b.Bytes
		out := make([]byte, 8, mn.Size+total)
		copy(out[4:], "moof")
		ti = 0
		sh := EncShape{Bytes: total}
		for _, c := range mn.Children {
			if c.Type != "traf" {
				out = append(out, c.Bytes(orig)...)
				continue
			}
			p := plans[ti]
			ti++
			trafStart := len(out)
			out = append(out, c.Bytes(orig)[:8]...)
			// insertion point: before the first trun, or after the last child
			before := p != nil && r.Chance(1, 3)
			inserted := p == nil
			ins := func() {
				if p.saio >= 0 {
					off := uint64(len(out) + p.aux) // relative to the moof start (default-base-is-moof)
					if p.saioV == 1 {
						binary.BigEndian.PutUint64(p.boxes[p.saio:], off)
					} else {
						binary.BigEndian.PutUint32(p.boxes[p.saio:], uint32(off))
					}
				}
				out = append(out, p.boxes...)
				inserted = true
			}
			for _, cc := range c.Children {
				if cc.Type == "trun" && before && !inserted {
					ins()
				}
				at := len(out)
				out = append(out, cc.Bytes(orig)...)
				if cc.Type == "trun" && cc.HdrLen == 8 && cc.Size >= 20 {
					fl := binary.BigEndian.Uint32(out[at+8:]) & 0xffffff
					if fl&reffrag.TrunDataOffset != 0 {
						v := int32(binary.BigEndian.Uint32(out[at+16:]))
						binary.BigEndian.PutUint32(out[at+16:], uint32(v+int32(total)))
					}
				}
			}
			if !inserted {
				ins()
			}
			binary.BigEndian.PutUint32(out[trafStart:], uint32(len(out)-trafStart))
			if p != nil {
				sh.Trafs++
				pl := "/after-truns"
				if before {
					pl = "/before-truns"
				}
				sh.Kinds = append(sh.Kinds, p.kind+pl)
			}
		}
		binary.BigEndian.PutUint32(out, uint32(len(out)))
		if len(out) != mn.Size+total {
			return nil, nil, fmt.Errorf("fragment %d: rebuilt moof has %d bytes, expected %d", i, len(out), mn.Size+total)
		}
		repl[pi] = out
		shapes[i] = sh
	}
	nb, err := replacePieces(b, repl)
	if err != nil {
		return nil, nil, err
	}
	if err := VerifyAgainstHistory(nb); err != nil {
		return nil, nil, err
	}
	return nb, shapes, nil
}
