package frag

// readdress.go rewrites, on the byte level and without any mp4ff call, the
// way the track fragments of a fragmented file ADDRESS their media data. The
// sample tables and the mdat boxes stay as they are; only the fields that say
// where the data of a track run starts change (ISO/IEC 14496-12 8.8.7.1 and
// 8.8.8.1: base-data-offset-present, default-base-is-moof, data-offset-present):
//
//   - "tfhd-base,no-trun-offset": the tfhd carries an absolute base_data_offset
//     that points at the first data byte of the traf and its first trun has NO
//     data_offset field (the form of older Smooth-Streaming style content);
//   - "tfhd-base+trun-offset": the tfhd carries an absolute base_data_offset
//     (start of the moof, start of the mdat payload, start of the file or the
//     first data byte) and every data_offset is relative to it;
//   - "after-previous-traf,no-trun-offset": neither tfhd flag; the data of the
//     first run follows the data of the previous traf (only for a second or later
//     traf whose data really follows), no data_offset in the first trun;
//   - "implicit-base+trun-offset": neither tfhd flag; data_offset relative to the
//     implied base (the moof for the first traf, else the end of the previous
//     traf's data).
//
// mp4ff's own fragment API writes none of these: every trun made by CreateTrun
// has data-offset-present and every tfhd default-base-is-moof.
//
// Box sizes change (a base_data_offset is 8 bytes, a data_offset 4), so the
// moof grows or shrinks, everything behind it moves, absolute offsets are
// computed for the new layout, and sidx references / first_offset and tfra moof
// offsets are re-pointed. Before the result is handed out it is expanded with
// the independent reader ref/frag and compared, sample by sample (payload
// bytes, size, duration, flags, composition offset, decode time), with the
// expansion of the input.

import (
	"bytes"
	"encoding/binary"
	"fmt"

	"verifharness/ref/boxwalk"
	reffrag "verifharness/ref/frag"
	"verifharness/runner"
)

// Addressing modes of a rewritten traf.
const (
	AddrAsBuilt          = "as-built"
	AddrTfhdBaseNoOffset = "tfhd-base,no-trun-offset"
	AddrTfhdBaseOffset   = "tfhd-base+trun-offset"
	AddrPrevTrafNoOffset = "after-previous-traf,no-trun-offset"
	AddrImplicitOffset   = "implicit-base+trun-offset"
)

// AddrShape describes how one traf addresses its data after Readdress.
type AddrShape struct {
	Moof            int    `json:"moof"`  // ordinal of the moof in the file
	Traf            int    `json:"traf"`  // ordinal of the traf in its moof
	Trafs           int    `json:"trafs"` // trafs in the moof
	Truns           int    `json:"truns"` // runs in the traf
	Mode            string `json:"mode"`
	Base            string `json:"base,omitempty"` // tfhd-base modes: first-data | moof | mdat-payload | file
	DefaultBaseMoof bool   `json:"default_base_is_moof"`
	NoOffsetRuns    int    `json:"no_offset_runs"` // runs of the traf without data_offset
}

type raRun struct {
	node   *boxwalk.Node
	flags  uint32
	abs    int64 // old absolute position of the first data byte
	end    int64 // old absolute position after the last data byte
	hadOff bool
	hasOff bool
	offAt  int // position of the data_offset field relative to the start of the new moof
}

type raTraf struct {
	node, tfhd *boxwalk.Node
	tf         reffrag.Tfhd
	runs       []*raRun
	mode       string
	newFlags   uint32
	baseKind   string
	baseAt     int // position of base_data_offset relative to the start of the new moof
}

type raMoof struct {
	node     *boxwalk.Node
	mdat     *boxwalk.Node
	trafs    []*raTraf
	newBytes []byte // nil: copied as it is
}

// Readdress rewrites the data addressing of the movie fragments of file (see
// the file comment) and returns the new file and the shape of every traf. An
// error means that the file is not one the rewriter handles (no fragments, data
// outside the mdat that follows the moof, empty runs in every fragment, index
// boxes that do not point at box boundaries ...) or that the self-check failed;
// it is a generator matter, never a finding about mp4ff.
func Readdress(file []byte, r *runner.Rand) ([]byte, []AddrShape, error) {
	exp, err := reffrag.ExpandFile(file, nil)
	if err != nil {
		return nil, nil, fmt.Errorf("reference reader cannot expand the file: %w", err)
	}
	if len(exp.Moofs) == 0 {
		return nil, nil, fmt.Errorf("no movie fragments")
	}
	top := exp.Top
	var moofs []*raMoof
	k := 0
	for ti, n := range top {
		if n.Type != "moof" {
			continue
		}
		mp := &raMoof{node: n}
		mi := exp.Moofs[k]
		k++
		moofs = append(moofs, mp)
		for _, nx := range top[ti+1:] {
			if nx.Type == "moof" {
				break
			}
			if nx.Type == "mdat" {
				mp.mdat = nx
				break
			}
		}
		mp.trafs = planTrafs(file, n, mi, mp.mdat)
	}
	// choose the modes
	rewritten := 0
	for _, mp := range moofs {
		var prevEnd int64 = -1
		for t, tp := range mp.trafs {
			tp.mode = AddrAsBuilt
			opts := []string{AddrAsBuilt, AddrTfhdBaseNoOffset, AddrTfhdBaseNoOffset, AddrTfhdBaseNoOffset, AddrTfhdBaseOffset, AddrTfhdBaseOffset, AddrImplicitOffset}
			if t > 0 && prevEnd == tp.runs[0].abs {
				opts = append(opts, AddrPrevTrafNoOffset, AddrPrevTrafNoOffset, AddrPrevTrafNoOffset)
			}
			tp.mode = opts[r.Intn(len(opts))]
			tp.newFlags = tp.tf.Flags
			for _, ru := range tp.runs {
				ru.hasOff = ru.hadOff
			}
			switch tp.mode {
			case AddrTfhdBaseNoOffset:
				tp.newFlags |= reffrag.TfhdBaseDataOffset
				tp.baseKind = "first-data"
				tp.runs[0].hasOff = false
			case AddrTfhdBaseOffset:
				tp.newFlags |= reffrag.TfhdBaseDataOffset
				// (a base at the first data byte gives data_offset 0, which mp4ff decodes but refuses to write again: rare)
				tp.baseKind = r.PickStr("moof", "moof", "moof", "file", "file")
				if r.Chance(1, 8) {
					tp.baseKind = r.PickStr("mdat-payload", "first-data")
				}
				tp.runs[0].hasOff = true
			case AddrPrevTrafNoOffset:
				tp.newFlags &^= reffrag.TfhdBaseDataOffset | reffrag.TfhdDefaultBaseMoof
				tp.runs[0].hasOff = false
			case AddrImplicitOffset:
				tp.newFlags &^= reffrag.TfhdBaseDataOffset | reffrag.TfhdDefaultBaseMoof
				tp.runs[0].hasOff = true
			}
			if tp.mode == AddrTfhdBaseNoOffset || tp.mode == AddrTfhdBaseOffset {
				// default-base-is-moof is ignored when base-data-offset-present is set (8.8.7.1)
				if r.Bool() {
					tp.newFlags &^= reffrag.TfhdDefaultBaseMoof
				} else if r.Chance(1, 3) {
					tp.newFlags |= reffrag.TfhdDefaultBaseMoof
				}
			}
			if tp.mode != AddrAsBuilt {
				// a later run whose data directly follows the previous run needs no data_offset
				for i := 1; i < len(tp.runs); i++ {
					if tp.runs[i].abs == tp.runs[i-1].end {
						tp.runs[i].hasOff = !r.Chance(1, 3)
					} else {
						tp.runs[i].hasOff = true
					}
				}
				rewritten++
			}
			prevEnd = tp.runs[len(tp.runs)-1].end
		}
	}
	if rewritten == 0 {
		return nil, nil, fmt.Errorf("no traf that the rewriter handles (or all drawn as-built)")
	}
	// new moof boxes (with placeholders for the offsets)
	for _, mp := range moofs {
		touched := false
		for _, tp := range mp.trafs {
			touched = touched || tp.mode != AddrAsBuilt
		}
		if touched {
			mp.newBytes = mp.encode(file)
		}
	}
	// layout
	newStart := map[*boxwalk.Node]int{}
	newSize := map[*boxwalk.Node]int{}
	byMoof := map[*boxwalk.Node]*raMoof{}
	for _, mp := range moofs {
		byMoof[mp.node] = mp
	}
	pos := 0
	boundary := map[int]int{}
	for _, n := range top {
		newStart[n] = pos
		boundary[n.Start] = pos
		sz := n.Size
		if mp := byMoof[n]; mp != nil && mp.newBytes != nil {
			sz = len(mp.newBytes)
		}
		newSize[n] = sz
		pos += sz
	}
	boundary[len(file)] = pos
	out := make([]byte, 0, pos)
	for _, n := range top {
		if mp := byMoof[n]; mp != nil && mp.newBytes != nil {
			out = append(out, mp.newBytes...)
		} else {
			out = append(out, n.Bytes(file)...)
		}
	}
	// offsets
	var shapes []AddrShape
	for mi, mp := range moofs {
		if mp.newBytes == nil {
			for t, tp := range mp.trafs {
				shapes = append(shapes, tp.shape(mi, t, len(mp.trafs)))
			}
			continue
		}
		ms := newStart[mp.node]
		inMdat := func(old int64) int64 { return int64(newStart[mp.mdat]) + (old - int64(mp.mdat.Start)) }
		var prevEnd int64 = -1
		for t, tp := range mp.trafs {
			var base int64
			switch {
			case tp.newFlags&reffrag.TfhdBaseDataOffset != 0:
				switch tp.baseKind {
				case "first-data":
					base = inMdat(tp.runs[0].abs)
				case "moof":
					base = int64(ms)
				case "mdat-payload":
					base = int64(newStart[mp.mdat] + mp.mdat.HdrLen)
				case "file":
					base = 0
				default: // the tfhd had a base_data_offset already and the traf stays as built
					base = -1
				}
				if tp.mode != AddrAsBuilt {
					binary.BigEndian.PutUint64(out[ms+tp.baseAt:], uint64(base))
				} else {
					// as-built absolute base: it points into the mdat, which moved
					base = inMdat(int64(tp.tf.BaseDataOffset))
					if int64(tp.tf.BaseDataOffset) < int64(mp.mdat.Start) || int64(tp.tf.BaseDataOffset) > int64(mp.mdat.End()) {
						return nil, nil, fmt.Errorf("as-built base_data_offset outside the mdat")
					}
					binary.BigEndian.PutUint64(out[ms+tp.baseAt:], uint64(base))
				}
			case tp.newFlags&reffrag.TfhdDefaultBaseMoof != 0, t == 0 || prevEnd < 0:
				base = int64(ms)
			default:
				base = prevEnd
			}
			for _, ru := range tp.runs {
				if !ru.hasOff {
					continue
				}
				v := inMdat(ru.abs) - base
				if v < -1<<31 || v > 1<<31-1 {
					return nil, nil, fmt.Errorf("data_offset %d does not fit 32 bits", v)
				}
				binary.BigEndian.PutUint32(out[ms+ru.offAt:], uint32(int32(v)))
			}
			prevEnd = inMdat(tp.runs[len(tp.runs)-1].end)
			shapes = append(shapes, tp.shape(mi, t, len(mp.trafs)))
		}
	}
	// index boxes
	var merr error
	m := func(old int) int {
		v, ok := boundary[old]
		if !ok && merr == nil {
			merr = fmt.Errorf("offset %d of the input is not a top-level box boundary", old)
		}
		return v
	}
	for _, n := range top {
		p := Piece{Type: n.Type, Start: n.Start, Size: n.Size}
		np := Piece{Type: n.Type, Start: newStart[n], Size: newSize[n]}
		switch n.Type {
		case "sidx":
			if n.HdrLen != 8 {
				return nil, nil, fmt.Errorf("sidx with a 64-bit header")
			}
			if err := repointSidx(file, out, p, np, m); err != nil {
				return nil, nil, err
			}
		case "mfra":
			if err := repointMfra(out, np, m); err != nil {
				return nil, nil, err
			}
		}
	}
	if merr != nil {
		return nil, nil, merr
	}
	if err := sameExpansion(exp, out); err != nil {
		return nil, nil, fmt.Errorf("readdress self-check: %w", err)
	}
	return out, shapes, nil
}

// planTrafs returns the trafs of one moof when the rewriter handles the moof:
// compact headers, every traf with a tfhd and at least one run and no saio,
// every run with at least one sample, all data inside the mdat that follows the
// moof. nil
// otherwise (the moof is copied).
func planTrafs(file []byte, moof *boxwalk.Node, mi *reffrag.MoofInfo, mdat *boxwalk.Node) []*raTraf {
	if mdat == nil || moof.HdrLen != 8 || moof.BodyOff != 8 {
		return nil
	}
	var out []*raTraf
	t := 0
	for _, c := range moof.Children {
		if c.HdrLen != 8 {
			return nil
		}
		if c.Type != "traf" {
			continue
		}
		if t >= len(mi.Trafs) || c.BodyOff != 8 {
			return nil
		}
		ti := &mi.Trafs[t]
		tp := &raTraf{node: c, tf: ti.Tfhd}
		k := 0
		for _, cc := range c.Children {
			if cc.HdrLen != 8 {
				return nil
			}
			switch cc.Type {
			case "saio":
				return nil // its offsets are relative to the traf's base and point into the moof, which changes
			case "tfhd":
				if tp.tfhd != nil {
					return nil
				}
				tp.tfhd = cc
			case "trun":
				if k >= len(ti.Truns) {
					return nil
				}
				tp.runs = append(tp.runs, &raRun{node: cc, flags: ti.Truns[k].Flags, hadOff: ti.Truns[k].Has(reffrag.TrunDataOffset), abs: -1})
				k++
			}
		}
		if tp.tfhd == nil || len(tp.runs) == 0 || k != len(ti.Truns) {
			return nil
		}
		for _, s := range ti.Samples {
			if s.TrunIndex < 0 || s.TrunIndex >= len(tp.runs) {
				return nil
			}
			ru := tp.runs[s.TrunIndex]
			if ru.abs < 0 {
				ru.abs = int64(s.Offset)
				ru.end = ru.abs
			}
			if int64(s.Offset) != ru.end {
				return nil
			}
			ru.end += int64(s.Size)
		}
		for _, ru := range tp.runs {
			if ru.abs < int64(mdat.Start+mdat.HdrLen) || ru.end > int64(mdat.End()) {
				return nil // an empty run, or data outside the mdat
			}
		}
		out = append(out, tp)
		t++
	}
	if t != len(mi.Trafs) || t == 0 {
		return nil
	}
	return out
}

func (tp *raTraf) shape(moof, traf, trafs int) AddrShape {
	s := AddrShape{Moof: moof, Traf: traf, Trafs: trafs, Truns: len(tp.runs), Mode: tp.mode, Base: tp.baseKind,
		DefaultBaseMoof: tp.newFlags&reffrag.TfhdDefaultBaseMoof != 0}
	for _, ru := range tp.runs {
		if !ru.hasOff {
			s.NoOffsetRuns++
		}
	}
	return s
}

// encode builds the new moof; field positions are recorded in the plans.
func (mp *raMoof) encode(file []byte) []byte {
	body := []byte{}
	for _, c := range mp.node.Children {
		var tp *raTraf
		for _, x := range mp.trafs {
			if x.node == c {
				tp = x
			}
		}
		if tp == nil {
			body = append(body, c.Bytes(file)...)
			continue
		}
		trafAt := 8 + len(body) // of the traf box, relative to the moof start
		tb := []byte{}
		for _, cc := range c.Children {
			at := trafAt + 8 + len(tb)
			switch {
			case cc == tp.tfhd:
				p := cc.Payload(file)
				np := append([]byte{}, p[:8]...)
				binary.BigEndian.PutUint32(np, uint32(tp.tf.Version)<<24|tp.newFlags)
				rest := p[8:]
				if tp.tf.Has(reffrag.TfhdBaseDataOffset) {
					rest = rest[8:]
				}
				if tp.newFlags&reffrag.TfhdBaseDataOffset != 0 {
					tp.baseAt = at + 8 + len(np)
					np = append(np, u64(0)...)
				}
				np = append(np, rest...)
				tb = append(tb, mkBox("tfhd", np)...)
			default:
				var ru *raRun
				for _, x := range tp.runs {
					if x.node == cc {
						ru = x
					}
				}
				if ru == nil {
					tb = append(tb, cc.Bytes(file)...)
					continue
				}
				p := cc.Payload(file)
				np := append([]byte{}, p[:8]...)
				fl := binary.BigEndian.Uint32(np)
				fl &^= reffrag.TrunDataOffset
				if ru.hasOff {
					fl |= reffrag.TrunDataOffset
				}
				binary.BigEndian.PutUint32(np, fl)
				rest := p[8:]
				if ru.hadOff {
					rest = rest[4:]
				}
				if ru.hasOff {
					ru.offAt = at + 8 + len(np)
					np = append(np, u32(0)...)
				}
				np = append(np, rest...)
				tb = append(tb, mkBox("trun", np)...)
			}
		}
		body = append(body, mkBox("traf", tb)...)
	}
	return mkBox("moof", body)
}

// sameExpansion expands out and compares it with the expansion of the input.
func sameExpansion(want *reffrag.File, out []byte) error {
	got, err := reffrag.ExpandFile(out, nil)
	if err != nil {
		return fmt.Errorf("reference reader cannot expand the rewritten file: %w", err)
	}
	if len(got.Moofs) != len(want.Moofs) {
		return fmt.Errorf("%d moof boxes, input has %d", len(got.Moofs), len(want.Moofs))
	}
	for i, wm := range want.Moofs {
		gm := got.Moofs[i]
		if len(gm.Trafs) != len(wm.Trafs) {
			return fmt.Errorf("moof %d: %d trafs, input has %d", i, len(gm.Trafs), len(wm.Trafs))
		}
		for t := range wm.Trafs {
			w, g := wm.Trafs[t], gm.Trafs[t]
			if w.Tfhd.TrackID != g.Tfhd.TrackID || len(w.Samples) != len(g.Samples) {
				return fmt.Errorf("moof %d traf %d: track %d with %d samples, input has track %d with %d", i, t, g.Tfhd.TrackID, len(g.Samples), w.Tfhd.TrackID, len(w.Samples))
			}
			for k, ws := range w.Samples {
				gs := g.Samples[k]
				if ws.Size != gs.Size || ws.Duration != gs.Duration || ws.Flags != gs.Flags || ws.Cto != gs.Cto || ws.DecodeTime != gs.DecodeTime || ws.TrunIndex != gs.TrunIndex || !bytes.Equal(ws.Data, gs.Data) {
					return fmt.Errorf("moof %d traf %d sample %d differs from the input's (data at %d, was at %d)", i, t, k, gs.Offset, ws.Offset)
				}
			}
		}
	}
	return nil
}
