package frag

import (
	"bytes"
	"fmt"
	"io"
	"verifharness/dirtysw"

	"github.com/Eyevinn/mp4ff/mp4"

	"verifharness/ref/boxwalk"
	"verifharness/runner"
)

// GuardFunc has the signature of (*runner.Ctx).Guard.
type GuardFunc func(func()) *runner.PanicInfo

// BuildOptions steer Build.
type BuildOptions struct {
	// Guard, when set, is wrapped around the construction+encoding of every
	// fragment/segment chunk: a panic is recorded in the chunk (Panic) and the
	// chunk is left out of the file instead of aborting the whole build.
	Guard GuardFunc
}

// Piece is one top-level box of the built file (ground truth of the layout).
type Piece struct {
	Type  string // box type
	Role  string // ftyp moov top-sidx styp seg-sidx before pre moof mdat post tail mfra
	Start int
	Size  int
	Seg   int // segment index, -1 outside segments
	Frag  int // global fragment index (into Built.Frags), -1 when not part of a fragment
}

// End returns the offset after the piece.
func (p Piece) End() int { return p.Start + p.Size }

// BuiltFrag is one fragment of the history and what became of it.
type BuiltFrag struct {
	Spec    *FragmentSpec
	Seg     int
	Obj     *mp4.Fragment // the live object (after encoding)
	Err     error         // an API call or the encoder returned an error: the fragment is not in the file
	Panic   *runner.PanicInfo
	Stage   string // where Err/Panic happened: build | encode
	InFile  bool
	Start   int // first byte of the first box of the fragment (Pre boxes included, Before boxes not)
	Lead    int // first byte of the run of file-level emsg boxes directly before the fragment (= Start when there is none)
	Moof    int // offset of the moof box
	Mdat    int // offset of the mdat box
	End     int // after the last box of the fragment (Post boxes included)
	OpsDone map[string]int
}

// BuiltSeg is the ground truth of one segment.
type BuiltSeg struct {
	Spec       *SegmentSpec
	Start      int   // first byte of the first box of the segment (styp, else segment sidx, else first before-emsg/fragment box)
	End        int   // start of the next segment, or the end of the media
	Styp       int   // offset of the styp, -1
	Sidx       []int // offsets of the segment-level sidx boxes
	FirstMedia int   // offset of the first box after styp/sidx (where the sidx references point)
	Frags      []int // indices into Built.Frags of the fragments present in the file
	Obj        *mp4.MediaSegment
}

// Built is a history turned into bytes.
type Built struct {
	H         *History
	Init      *mp4.InitSegment
	InitBytes []byte
	Bytes     []byte // init + media (+ mfra)
	Pieces    []Piece
	Frags     []*BuiltFrag
	Segs      []*BuiltSeg // only segments with at least one fragment in the file
	MediaEnd  int         // start of mfra, or len(Bytes)
	TopSidx   []int       // offsets of the top-level sidx boxes
}

// Media returns the bytes after the init segment (media segments + mfra). With
// Layout.Mfra == 0 they can be appended to any init that declares the same
// track ids: all offsets inside are relative (moof-relative data offsets, sidx first_offset).
func (b *Built) Media() []byte { return b.Bytes[len(b.InitBytes):] }

// Model returns, per track, the samples of the fragments that made it into the file.
func (b *Built) Model() Model {
	m := Model{}
	for _, f := range b.Frags {
		if !f.InFile {
			continue
		}
		for _, op := range f.Spec.Ops {
			m[op.Track] = append(m[op.Track], op.Samples...)
		}
	}
	return m
}

// FragsInFile returns the fragments present in the file, in file order.
func (b *Built) FragsInFile() []*BuiltFrag {
	var out []*BuiltFrag
	for _, f := range b.Frags {
		if f.InFile {
			out = append(out, f)
		}
	}
	return out
}

// BuildInit builds the init segment of the history through
// mp4.CreateEmptyInit / AddEmptyTrack and sets the trex defaults.
func BuildInit(h *History) (*mp4.InitSegment, []byte, error) {
	init := mp4.CreateEmptyInit()
	for _, t := range h.Tracks {
		init.AddEmptyTrack(t.Timescale, t.Media, "und")
	}
	for i, t := range h.Tracks {
		if i >= len(init.Moov.Mvex.Trexs) {
			return nil, nil, fmt.Errorf("mvex has %d trex boxes for %d tracks", len(init.Moov.Mvex.Trexs), len(h.Tracks))
		}
		tx := init.Moov.Mvex.Trexs[i]
		if tx.TrackID != t.ID {
			return nil, nil, fmt.Errorf("trex %d has track id %d, want %d", i, tx.TrackID, t.ID)
		}
		tx.DefaultSampleDuration, tx.DefaultSampleSize, tx.DefaultSampleFlags = t.TrexDur, t.TrexSize, t.TrexFlags
	}
	var buf bytes.Buffer
	if err := init.Encode(&buf); err != nil {
		return nil, nil, err
	}
	return init, buf.Bytes(), nil
}

// MakeExtraBox builds an extra box through mp4ff's constructors.
func MakeExtraBox(e ExtraBox) mp4.Box {
	pay := Payload(0xee, e.N, uint32(e.N))
	switch e.Kind {
	case "emsg0":
		return &mp4.EmsgBox{Version: 0, TimeScale: 90000, PresentationTimeDelta: uint32(e.N) * 1000, EventDuration: 0xffffffff,
			ID: uint32(e.N), SchemeIDURI: "urn:verif:" + fmt.Sprint(e.N%7), Value: fmt.Sprint(e.N % 3), MessageData: pay}
	case "emsg1":
		return &mp4.EmsgBox{Version: 1, TimeScale: 1000, PresentationTime: 1<<33 + uint64(e.N), EventDuration: uint32(e.N),
			ID: uint32(e.N) + 7, SchemeIDURI: "urn:scte:scte35:2013:bin", Value: "", MessageData: pay}
	case "prft0":
		return mp4.CreatePrftBox(0, mp4.PrftTimeCaptured, 1, mp4.NTP64(0xe1234567_89abcdef), uint64(e.N)*3000)
	case "prft1":
		return mp4.CreatePrftBox(1, mp4.PrftTimeEncoderOutput, 2, mp4.NTP64(0xe1234567_00000000+uint64(e.N)), 1<<34+uint64(e.N))
	case "free":
		return mp4.NewFreeBox(pay)
	case "skip":
		return mp4.NewSkipBox(pay)
	case "uuid":
		u := &mp4.UUIDBox{UnknownPayload: pay}
		_ = u.SetUUID("0123456789abcdef0123456789abcd" + fmt.Sprintf("%02x", e.N&0xff))
		return u
	default:
		return mp4.CreateUnknownBox([]string{"zzz1", "abcd", "xyzw"}[e.N%3], uint64(8+len(pay)), pay)
	}
}

// poisonSamples overwrites a caller-owned metadata slice (including its spare
// capacity) after it was handed to the library, as a caller recycling its
// buffer would (e.g. SampleInterval.Reset followed by appends).
func poisonSamples(ss []mp4.Sample) {
	ss = ss[:cap(ss)]
	for i := range ss {
		ss[i] = mp4.Sample{Flags: 0xdeadbeef, Dur: 0xfffffff1, Size: 0xfffffff2, CompositionTimeOffset: -77}
	}
}

// scratchCopy returns b in a buffer with spare capacity; poisonBytes overwrites
// the whole backing array afterwards.
func scratchCopy(b []byte) []byte {
	buf := make([]byte, len(b), len(b)+64)
	copy(buf, b)
	return buf
}

func poisonBytes(b []byte) {
	b = b[:cap(b)]
	for i := range b {
		b[i] = 0xDB
	}
}

func encodeBox(b mp4.Box, sw bool) ([]byte, error) {
	if sw {
		w := dirtysw.New(int(b.Size()))
		if err := b.EncodeSW(w); err != nil {
			return nil, err
		}
		return w.Bytes(), nil
	}
	var buf bytes.Buffer
	if err := b.Encode(&buf); err != nil {
		return nil, err
	}
	return buf.Bytes(), nil
}

// BuildFragment executes the operations of one FragmentSpec against mp4ff and
// returns the live fragment and, for metadata-only fragments, the payload
// that must be written after the encoded mdat header. opsDone counts the API
// calls made.
func BuildFragment(h *History, fs *FragmentSpec) (f *mp4.Fragment, tail []byte, opsDone map[string]int, err error) {
	return BuildFragmentIn(h, fs, nil)
}

var infoLevels = []string{"", "all:1", "trun:1", "all:2", "tfhd:1,trun:2"}

// observe executes one observer op (history.go: OpObserve*). Errors of an observer do not end the history:
// they are counted in opsDone under "<kind>:error".
func observe(f *mp4.Fragment, ms *mp4.MediaSegment, op Op, opsDone map[string]int) {
	var err error
	lv := infoLevels[(op.Arg>>1)%len(infoLevels)]
	switch op.Kind {
	case OpObserveSize:
		_ = f.Size()
	case OpObserveInfo:
		err = f.Info(io.Discard, lv, "", "  ")
	case OpObserveMoofInfo:
		err = f.Moof.Info(io.Discard, lv, "", "  ")
	case OpObserveEncode:
		if op.Arg&1 == 1 {
			err = f.EncodeSW(dirtysw.New(int(f.Size()) + 64))
		} else {
			err = f.Encode(io.Discard)
		}
	case OpObserveSegSize, OpObserveSegInfo, OpObserveSegEncode:
		if ms == nil {
			opsDone[op.Kind+":skipped-not-attached"]++
			return
		}
		switch op.Kind {
		case OpObserveSegSize:
			_ = ms.Size()
		case OpObserveSegInfo:
			err = ms.Info(io.Discard, lv, "", "  ")
		default:
			if op.Arg&1 == 1 {
				err = ms.EncodeSW(dirtysw.New(int(ms.Size()) + 64))
			} else {
				err = ms.Encode(io.Discard)
			}
		}
	}
	if err != nil {
		opsDone[op.Kind+":error"]++
	}
}

// BuildFragmentIn is BuildFragment for a fragment that is attached to ms (when non-nil) right after it is created,
// before its samples are added; segment-level observer ops then go to ms.
func BuildFragmentIn(h *History, fs *FragmentSpec, ms *mp4.MediaSegment) (f *mp4.Fragment, tail []byte, opsDone map[string]int, err error) {
	opsDone = map[string]int{}
	if fs.Multi {
		f, err = mp4.CreateMultiTrackFragment(fs.Seq, fs.Tracks)
		opsDone["CreateMultiTrackFragment"]++
	} else {
		f, err = mp4.CreateFragment(fs.Seq, fs.Tracks[0])
		opsDone["CreateFragment"]++
	}
	if err != nil {
		return nil, nil, opsDone, err
	}
	if fs.LargeMdat {
		f.Mdat.LargeSize = true
	}
	if fs.PreOptimize {
		f.EncOptimize = mp4.OptimizeNone
		if h.Optimize {
			f.EncOptimize = mp4.OptimizeTrun
		}
		opsDone["EncOptimize-set-before-additions:"+f.EncOptimize.String()]++
	}
	if ms != nil {
		ms.AddFragment(f)
		opsDone["MediaSegment.AddFragment-before-additions"]++
	}
	var mdatOff uint32
	for _, op := range fs.Ops {
		opsDone[op.Kind]++
		if IsObserver(op.Kind) {
			observe(f, ms, op, opsDone)
			continue
		}
		switch op.Kind {
		case OpAddFullSample:
			s := op.Samples[0]
			// the payload sits in a scratch buffer with spare capacity that the caller overwrites right
			// after the call (a read buffer reused per sample): the library must have copied it
			d := scratchCopy(s.Data())
			f.AddFullSample(mp4.FullSample{Sample: mp4.NewSample(s.Flags, s.Dur, s.Size, s.Cto), DecodeTime: s.DecodeTime, Data: d})
			poisonBytes(d)
		case OpAddFullSampleToTrack:
			s := op.Samples[0]
			d := scratchCopy(s.Data())
			err = f.AddFullSampleToTrack(mp4.FullSample{Sample: mp4.NewSample(s.Flags, s.Dur, s.Size, s.Cto), DecodeTime: s.DecodeTime, Data: d}, op.Track)
			poisonBytes(d)
		case OpAddSample:
			s := op.Samples[0]
			f.AddSample(mp4.NewSample(s.Flags, s.Dur, s.Size, s.Cto), s.DecodeTime)
			tail = append(tail, s.Data()...)
		case OpAddSamples:
			// the caller's metadata slice has spare capacity and is recycled
			// (overwritten) right after the call: the library must have copied it
			ss := make([]mp4.Sample, 0, len(op.Samples)+4)
			for _, s := range op.Samples {
				ss = append(ss, mp4.NewSample(s.Flags, s.Dur, s.Size, s.Cto))
				tail = append(tail, s.Data()...)
			}
			f.AddSamples(ss, op.Samples[0].DecodeTime)
			poisonSamples(ss)
		case OpAddSampleToTrack:
			s := op.Samples[0]
			err = f.AddSampleToTrack(mp4.NewSample(s.Flags, s.Dur, s.Size, s.Cto), op.Track, s.DecodeTime)
			tail = append(tail, s.Data()...)
		case OpAddSampleInterval:
			si := mp4.SampleInterval{FirstDecodeTime: op.Samples[0].DecodeTime, OffsetInMdat: mdatOff}
			si.Samples = make([]mp4.Sample, 0, len(op.Samples)+4)
			for _, s := range op.Samples {
				si.Samples = append(si.Samples, mp4.NewSample(s.Flags, s.Dur, s.Size, s.Cto))
				si.Data = append(si.Data, s.Data()...)
				si.Size += s.Size
			}
			mdatOff += si.Size
			err = f.AddSampleInterval(si)
			poisonSamples(si.Samples) // metadata only: Data is documented to be kept by reference
		default:
			err = fmt.Errorf("unknown op %q", op.Kind)
		}
		if err != nil {
			return f, tail, opsDone, fmt.Errorf("%s: %w", op.Kind, err)
		}
	}
	// extra boxes inside the fragment
	for _, e := range fs.Pre {
		if e.Via == "AddEmsg" {
			f.AddEmsg(MakeExtraBox(e).(*mp4.EmsgBox))
			opsDone["AddEmsg"]++
		}
	}
	for _, e := range fs.Pre {
		if e.Via == "AddEmsg" {
			continue
		}
		// insert directly before the moof
		box := MakeExtraBox(e)
		idx := 0
		for i, c := range f.Children {
			if c == mp4.Box(f.Moof) {
				idx = i
			}
		}
		ch := make([]mp4.Box, 0, len(f.Children)+1)
		ch = append(ch, f.Children[:idx]...)
		ch = append(ch, box)
		ch = append(ch, f.Children[idx:]...)
		f.Children = ch
		if p, ok := box.(*mp4.PrftBox); ok {
			f.Prft = p
		}
		opsDone["Children-insert:"+e.Kind]++
	}
	for _, e := range fs.Post {
		f.AddChild(MakeExtraBox(e))
		opsDone["AddChild:"+e.Kind]++
	}
	if fs.TrexTrick && !h.Optimize {
		// a legal state the API never produces by itself: fields that equal
		// the trex defaults of the track are not stored in the trun
		for _, traf := range f.Moof.Trafs {
			t := h.Track(traf.Tfhd.TrackID)
			if t == nil {
				continue
			}
			for _, trun := range traf.Truns {
				if len(trun.Samples) == 0 {
					continue
				}
				eqD, eqS, eqF := true, true, true
				for _, s := range trun.Samples {
					eqD = eqD && s.Dur == t.TrexDur
					eqS = eqS && s.Size == t.TrexSize
					eqF = eqF && s.Flags == t.TrexFlags
				}
				if eqD {
					trun.Flags &^= mp4.TrunSampleDurationPresentFlag
					opsDone["trex-trick:dur"]++
				}
				if eqS {
					trun.Flags &^= mp4.TrunSampleSizePresentFlag
					opsDone["trex-trick:size"]++
				}
				if eqF {
					trun.Flags &^= mp4.TrunSampleFlagsPresentFlag
					opsDone["trex-trick:flags"]++
				}
			}
		}
	}
	return f, tail, opsDone, nil
}

// EncodeFragment encodes a fragment with the chosen encoder and optimisation
// and appends tail (the separately written payload of a metadata-only
// fragment).
func EncodeFragment(f *mp4.Fragment, optimize, sw bool, tail []byte) ([]byte, error) {
	f.EncOptimize = mp4.OptimizeNone
	if optimize {
		f.EncOptimize = mp4.OptimizeTrun
	}
	var out []byte
	if sw {
		w := dirtysw.New(int(f.Size()) + 64)
		if err := f.EncodeSW(w); err != nil {
			return nil, err
		}
		out = append(out, w.Bytes()...)
	} else {
		var buf bytes.Buffer
		if err := f.Encode(&buf); err != nil {
			return nil, err
		}
		out = buf.Bytes()
	}
	return append(out, tail...), nil
}

type desc struct {
	role      string
	seg, frag int
}

type chunk struct {
	bytes []byte
	descs []desc
	sidx  *sidxPlan // the chunk is a sidx placeholder
}

type sidxPlan struct {
	kind     string // top | seg
	seg      int    // for seg kind
	idx      int    // ordinal among its siblings
	nrefs    int
	version  byte
	childOf  int // top hierarchical: -1 parent, else 0
	firstSeg int // for top kinds: first segment covered (index into Built.Segs)
	lastSeg  int // exclusive
	perFrag  bool
}

func fragDescs(f *mp4.Fragment, seg, frag int) []desc {
	var d []desc
	role := "pre"
	for _, c := range f.Children {
		switch c.Type() {
		case "moof":
			d = append(d, desc{"moof", seg, frag})
			role = "post"
			continue
		case "mdat":
			d = append(d, desc{"mdat", seg, frag})
			continue
		}
		d = append(d, desc{role, seg, frag})
	}
	return d
}

func placeholderSidx(version byte, nrefs int) []byte {
	s := &mp4.SidxBox{Version: version, SidxRefs: make([]mp4.SidxRef, nrefs)}
	b, _ := encodeBox(s, false)
	return b
}

// Build executes the history: builds init, fragments, segments, index boxes,
// and assembles the file. An error means the *harness* could not build (the
// result is unusable); errors and panics of individual fragments are recorded
// in Built.Frags and the fragment is left out.
func Build(h *History, bo BuildOptions) (*Built, error) {
	b := &Built{H: h}
	var err error
	if b.Init, b.InitBytes, err = BuildInit(h); err != nil {
		return nil, fmt.Errorf("init: %w", err)
	}
	guard := bo.Guard
	if guard == nil {
		guard = func(f func()) *runner.PanicInfo { f(); return nil }
	}
	// 1. fragments / segments -> chunks
	type segChunks struct {
		seg    *BuiltSeg
		chunks []chunk // styp, sidx placeholders, fragments with their before boxes
	}
	var segs []segChunks
	for si := range h.Segments {
		ss := &h.Segments[si]
		bs := &BuiltSeg{Spec: ss, Styp: -1}
		segIdx := len(segs)
		var media []chunk // everything after styp/sidx
		var lead []chunk  // non-emsg before-boxes of the first fragment: go in front of the styp
		first := true
		addBefore := func(fs *FragmentSpec, fragIdx int) {
			for _, e := range fs.Before {
				eb, err2 := encodeBox(MakeExtraBox(e), false)
				if err2 != nil {
					err = err2
					return
				}
				c := chunk{bytes: eb, descs: []desc{{"before", segIdx, -1}}}
				isEmsg := e.Kind == "emsg0" || e.Kind == "emsg1"
				if first && !isEmsg {
					lead = append(lead, c)
				} else {
					media = append(media, c)
				}
			}
		}
		if ss.ViaMediaSegment {
			// all fragments through one mp4.MediaSegment
			var ms *mp4.MediaSegment
			if ss.Styp {
				ms = mp4.NewMediaSegment()
			} else {
				ms = mp4.NewMediaSegmentWithoutStyp()
			}
			bs.Obj = ms
			var attach *mp4.MediaSegment
			if ss.AttachFirst {
				attach = ms
				if ss.PreOptimize && h.Optimize {
					ms.EncOptimize = mp4.OptimizeTrun
				}
			}
			var bfs []*BuiltFrag
			failed := false
			for fi := range ss.Fragments {
				fs := &ss.Fragments[fi]
				bf := &BuiltFrag{Spec: fs, Seg: segIdx}
				b.Frags = append(b.Frags, bf)
				bfs = append(bfs, bf)
				bf.Panic = guard(func() {
					bf.Obj, _, bf.OpsDone, bf.Err = BuildFragmentIn(h, fs, attach)
				})
				if bf.Panic != nil || bf.Err != nil {
					bf.Stage = "build"
					failed = true
					continue
				}
				if attach == nil {
					ms.AddFragment(bf.Obj)
				}
			}
			var out []byte
			var encErr error
			var pi *runner.PanicInfo
			if !failed {
				ms.EncOptimize = mp4.OptimizeNone
				if h.Optimize {
					ms.EncOptimize = mp4.OptimizeTrun
				}
				pi = guard(func() {
					if h.SW {
						w := dirtysw.New(int(ms.Size()) + 64)
						encErr = ms.EncodeSW(w)
						out = w.Bytes()
					} else {
						var buf bytes.Buffer
						encErr = ms.Encode(&buf)
						out = buf.Bytes()
					}
				})
			}
			if failed || encErr != nil || pi != nil {
				for _, bf := range bfs {
					if bf.Err == nil && bf.Panic == nil {
						bf.Err, bf.Panic, bf.Stage = encErr, pi, "encode-segment"
						if failed {
							bf.Err = fmt.Errorf("another fragment of the media segment failed")
						}
					}
				}
				continue
			}
			if len(ss.Fragments) > 0 {
				addBefore(&ss.Fragments[0], -1)
				if err != nil {
					return nil, err
				}
			}
			first = false
			var ds []desc
			if ss.Styp {
				ds = append(ds, desc{"styp", segIdx, -1})
			}
			for _, bf := range bfs {
				bf.InFile = true
				gi := indexOf(b.Frags, bf)
				bs.Frags = append(bs.Frags, gi)
				ds = append(ds, fragDescs(bf.Obj, segIdx, gi)...)
			}
			all := append(append([]chunk{}, lead...), chunk{bytes: out, descs: ds})
			// emsg before-boxes of the first fragment are not possible on this route (excluded by the generator)
			segs = append(segs, segChunks{seg: bs, chunks: append(all, media...)})
			continue
		}
		for fi := range ss.Fragments {
			fs := &ss.Fragments[fi]
			bf := &BuiltFrag{Spec: fs, Seg: segIdx}
			gi := len(b.Frags)
			b.Frags = append(b.Frags, bf)
			var tail, out []byte
			bf.Panic = guard(func() {
				bf.Obj, tail, bf.OpsDone, bf.Err = BuildFragment(h, fs)
			})
			if bf.Panic != nil || bf.Err != nil {
				bf.Stage = "build"
				continue
			}
			bf.Panic = guard(func() {
				out, bf.Err = EncodeFragment(bf.Obj, h.Optimize, h.SW, tail)
			})
			if bf.Panic != nil || bf.Err != nil {
				bf.Stage = "encode"
				continue
			}
			addBefore(fs, gi)
			if err != nil {
				return nil, err
			}
			first = false
			bf.InFile = true
			bs.Frags = append(bs.Frags, gi)
			media = append(media, chunk{bytes: out, descs: fragDescs(bf.Obj, segIdx, gi)})
		}
		if len(bs.Frags) == 0 {
			continue // nothing of this segment made it
		}
		cs := append([]chunk{}, lead...)
		if ss.Styp {
			sb, err := encodeBox(mp4.CreateStyp(), h.SW)
			if err != nil {
				return nil, err
			}
			cs = append(cs, chunk{bytes: sb, descs: []desc{{"styp", segIdx, -1}}})
		}
		for k := 0; k < ss.NSidx; k++ {
			p := &sidxPlan{kind: "seg", seg: segIdx, idx: k, nrefs: 1, version: byte(k & 1)}
			if k == ss.NSidx-1 && len(bs.Frags) > 1 {
				p.perFrag, p.nrefs = true, len(bs.Frags)
			}
			cs = append(cs, chunk{bytes: placeholderSidx(p.version, p.nrefs), descs: []desc{{"seg-sidx", segIdx, -1}}, sidx: p})
		}
		cs = append(cs, media...)
		segs = append(segs, segChunks{seg: bs, chunks: cs})
	}
	// 2. file-level chunks
	var chunks []chunk
	chunks = append(chunks, chunk{bytes: b.InitBytes, descs: []desc{{"ftyp", -1, -1}, {"moov", -1, -1}}})
	ns := len(segs)
	if ns > 0 {
		v := h.Layout.SidxVersion
		switch ts := h.Layout.TopSidx; {
		case ts == 1 || ts > 1 && ns < 2:
			p := &sidxPlan{kind: "top", nrefs: ns, version: v, childOf: -2, firstSeg: 0, lastSeg: ns}
			chunks = append(chunks, chunk{bytes: placeholderSidx(v, ns), descs: []desc{{"top-sidx", -1, -1}}, sidx: p})
		case ts == 2 || ts == 3:
			half := (ns + 1) / 2
			if ts == 3 {
				p := &sidxPlan{kind: "top", nrefs: 2, version: v, childOf: -1}
				chunks = append(chunks, chunk{bytes: placeholderSidx(v, 2), descs: []desc{{"top-sidx", -1, -1}}, sidx: p})
			}
			p1 := &sidxPlan{kind: "top", idx: 1, nrefs: half, version: v, childOf: -2, firstSeg: 0, lastSeg: half}
			p2 := &sidxPlan{kind: "top", idx: 2, nrefs: ns - half, version: 1 - v, childOf: -2, firstSeg: half, lastSeg: ns}
			chunks = append(chunks, chunk{bytes: placeholderSidx(p1.version, p1.nrefs), descs: []desc{{"top-sidx", -1, -1}}, sidx: p1})
			chunks = append(chunks, chunk{bytes: placeholderSidx(p2.version, p2.nrefs), descs: []desc{{"top-sidx", -1, -1}}, sidx: p2})
		}
	}
	for _, sc := range segs {
		chunks = append(chunks, sc.chunks...)
		b.Segs = append(b.Segs, sc.seg)
	}
	for _, e := range h.Layout.Tail {
		eb, err := encodeBox(MakeExtraBox(e), false)
		if err != nil {
			return nil, err
		}
		chunks = append(chunks, chunk{bytes: eb, descs: []desc{{"tail", -1, -1}}})
	}
	// 3. assemble, walk, attribute
	var file []byte
	var pl []placed
	for i := range chunks {
		pl = append(pl, placed{&chunks[i], len(file)})
		file = append(file, chunks[i].bytes...)
	}
	b.MediaEnd = len(file)
	nodes, err := boxwalk.Walk(file)
	if err != nil {
		return nil, fmt.Errorf("assembled file does not tile: %w", err)
	}
	var ds []desc
	for _, c := range chunks {
		ds = append(ds, c.descs...)
	}
	if len(ds) != len(nodes) {
		return nil, fmt.Errorf("assembled file has %d top-level boxes, %d expected", len(nodes), len(ds))
	}
	for i, n := range nodes {
		d := ds[i]
		want := map[string]string{"ftyp": "ftyp", "moov": "moov", "top-sidx": "sidx", "styp": "styp", "seg-sidx": "sidx", "moof": "moof", "mdat": "mdat"}[d.role]
		if want != "" && want != n.Type {
			return nil, fmt.Errorf("top-level box %d is %q, expected role %s", i, n.Type, d.role)
		}
		b.Pieces = append(b.Pieces, Piece{Type: n.Type, Role: d.role, Start: n.Start, Size: n.Size, Seg: d.seg, Frag: d.frag})
	}
	// positions of fragments and segments
	for i := range b.Frags {
		b.Frags[i].Start, b.Frags[i].Moof, b.Frags[i].Mdat = -1, -1, -1
	}
	segStart := map[int]int{}
	segFirstMedia := map[int]int{}
	pendingEmsg := -1
	for _, p := range b.Pieces {
		if p.Frag < 0 {
			if p.Role == "before" && p.Type == "emsg" {
				if pendingEmsg < 0 {
					pendingEmsg = p.Start
				}
			} else {
				pendingEmsg = -1
			}
		}
		if p.Frag >= 0 {
			f := b.Frags[p.Frag]
			if f.Start < 0 {
				f.Start = p.Start
				f.Lead = p.Start
				if pendingEmsg >= 0 {
					f.Lead = pendingEmsg
				}
			}
			pendingEmsg = -1
			f.End = p.End()
			switch p.Role {
			case "moof":
				f.Moof = p.Start
			case "mdat":
				f.Mdat = p.Start
			}
		}
		if p.Role == "top-sidx" {
			b.TopSidx = append(b.TopSidx, p.Start)
		}
		if p.Seg >= 0 {
			isLead := p.Role == "before" && p.Type != "emsg"
			if _, ok := segFirstMedia[p.Seg]; ok {
				isLead = false
			}
			if _, ok := segStart[p.Seg]; !ok && !isLead {
				segStart[p.Seg] = p.Start
			}
			switch p.Role {
			case "styp":
				b.Segs[p.Seg].Styp = p.Start
			case "seg-sidx":
				b.Segs[p.Seg].Sidx = append(b.Segs[p.Seg].Sidx, p.Start)
			default:
				if _, ok := segFirstMedia[p.Seg]; !ok && !isLead {
					segFirstMedia[p.Seg] = p.Start
				}
			}
		}
	}
	for i, s := range b.Segs {
		s.Start = segStart[i]
		s.FirstMedia = segFirstMedia[i]
	}
	for i, s := range b.Segs {
		if i+1 < len(b.Segs) {
			s.End = b.Segs[i+1].Start
		} else {
			s.End = b.MediaEnd
		}
	}
	// 4. fill the sidx placeholders
	ref := h.RefTrack()
	for _, p := range pl {
		sp := p.c.sidx
		if sp == nil {
			continue
		}
		end := p.start + len(p.c.bytes)
		sx := &mp4.SidxBox{Version: sp.version, ReferenceID: ref.ID, Timescale: ref.Timescale}
		mkRef := func(size int, dur uint64, typ uint8) mp4.SidxRef {
			return mp4.SidxRef{ReferencedSize: uint32(size), SubSegmentDuration: uint32(dur), ReferenceType: typ, StartsWithSAP: 1, SAPType: 1}
		}
		switch {
		case sp.kind == "top" && sp.childOf == -1:
			// parent of a hierarchy: two references to the following sidx boxes
			c1, c2 := pl[indexOfChunk(pl, p.c)+1], pl[indexOfChunk(pl, p.c)+2]
			sx.FirstOffset = 0
			sx.SidxRefs = []mp4.SidxRef{mkRef(len(c1.c.bytes), b.segsDur(ref.ID, c1.c.sidx.firstSeg, c1.c.sidx.lastSeg), 1),
				mkRef(len(c2.c.bytes), b.segsDur(ref.ID, c2.c.sidx.firstSeg, c2.c.sidx.lastSeg), 1)}
			sx.EarliestPresentationTime = b.ept(ref.ID, 0)
		case sp.kind == "top":
			first := b.Segs[sp.firstSeg]
			sx.FirstOffset = uint64(first.Start - end)
			sx.EarliestPresentationTime = b.ept(ref.ID, sp.firstSeg)
			for k := sp.firstSeg; k < sp.lastSeg; k++ {
				sx.SidxRefs = append(sx.SidxRefs, mkRef(b.Segs[k].End-b.Segs[k].Start, b.segsDur(ref.ID, k, k+1), 0))
			}
		default: // segment level
			s := b.Segs[sp.seg]
			sx.FirstOffset = uint64(s.FirstMedia - end)
			sx.EarliestPresentationTime = b.ept(ref.ID, sp.seg)
			if sp.perFrag {
				for j, gi := range s.Frags {
					start := b.Frags[gi].Start
					if j == 0 {
						start = s.FirstMedia
					}
					stop := s.End
					if j+1 < len(s.Frags) {
						stop = b.Frags[s.Frags[j+1]].Start
					}
					sx.SidxRefs = append(sx.SidxRefs, mkRef(stop-start, b.fragDur(ref.ID, gi), 0))
				}
			} else {
				sx.SidxRefs = []mp4.SidxRef{mkRef(s.End-s.FirstMedia, b.segsDur(ref.ID, sp.seg, sp.seg+1), 0)}
			}
		}
		sb, err := encodeBox(sx, h.SW)
		if err != nil {
			return nil, err
		}
		if len(sb) != len(p.c.bytes) {
			return nil, fmt.Errorf("sidx placeholder %d bytes, final %d", len(p.c.bytes), len(sb))
		}
		copy(file[p.start:], sb)
	}
	// 5. mfra
	if h.Layout.Mfra > 0 && len(b.Segs) > 0 {
		mfra := &mp4.MfraBox{}
		for _, t := range h.Tracks {
			tfra := &mp4.TfraBox{Version: h.Layout.TfraVersion, TrackID: t.ID}
			// the three length_size_of_* fields (1..4 bytes per number) vary with the history
			x := t.ID*2654435761 ^ uint32(len(b.Frags))*40503 ^ uint32(len(file))*97
			tfra.LengthSizeOfTrafNum, tfra.LengthSizeOfTrunNum, tfra.LengthSizeOfSampleNum = byte(x>>3)&3, byte(x>>7)&3, byte(x>>11)&3
			for _, s := range b.Segs {
				for j, gi := range s.Frags {
					if h.Layout.Mfra == 1 && j > 0 {
						continue
					}
					f := b.Frags[gi]
					var tm uint64
					if ss := f.Spec.Samples()[t.ID]; len(ss) > 0 {
						tm = ss[0].DecodeTime
					}
					if tfra.Version == 0 {
						tm &= 0xffffffff
					}
					tfra.Entries = append(tfra.Entries, mp4.TfraEntry{Time: tm, MoofOffset: uint64(f.Moof), TrafNumber: 1, TrunNumber: 1, SampleNumber: 1})
				}
			}
			_ = mfra.AddChild(tfra)
		}
		mfro := &mp4.MfroBox{}
		_ = mfra.AddChild(mfro)
		mfro.ParentSize = uint32(mfra.Size())
		mb, err := encodeBox(mfra, h.SW)
		if err != nil {
			return nil, err
		}
		b.Pieces = append(b.Pieces, Piece{Type: "mfra", Role: "mfra", Start: len(file), Size: len(mb), Seg: -1, Frag: -1})
		file = append(file, mb...)
	}
	b.Bytes = file
	return b, nil
}

func indexOf(fs []*BuiltFrag, f *BuiltFrag) int {
	for i := range fs {
		if fs[i] == f {
			return i
		}
	}
	return -1
}

type placed struct {
	c     *chunk
	start int
}

func indexOfChunk(pl []placed, c *chunk) int {
	for i := range pl {
		if pl[i].c == c {
			return i
		}
	}
	return -1
}

// fragDur is the ground-truth sum of the durations of one track in one fragment.
func (b *Built) fragDur(track uint32, gi int) uint64 {
	var d uint64
	for _, s := range b.Frags[gi].Spec.Samples()[track] {
		d += uint64(s.Dur)
	}
	return d
}

// SegDur is the ground-truth sum of the sample durations of a track in segment i.
func (b *Built) SegDur(track uint32, i int) uint64 { return b.segsDur(track, i, i+1) }

func (b *Built) segsDur(track uint32, from, to int) uint64 {
	var d uint64
	for k := from; k < to; k++ {
		for _, gi := range b.Segs[k].Frags {
			d += b.fragDur(track, gi)
		}
	}
	return d
}

// ept is the presentation time of the first sample of the track at or after segment i (0 if none).
func (b *Built) ept(track uint32, i int) uint64 {
	for k := i; k < len(b.Segs); k++ {
		for _, gi := range b.Segs[k].Frags {
			if ss := b.Frags[gi].Spec.Samples()[track]; len(ss) > 0 {
				v := int64(ss[0].DecodeTime) + int64(ss[0].Cto)
				if v < 0 {
					v = 0
				}
				return uint64(v)
			}
		}
	}
	return 0
}

// FirstSample returns the first sample of a track in segment i (ok=false if none).
func (b *Built) FirstSample(track uint32, i int) (Sample, bool) {
	for _, gi := range b.Segs[i].Frags {
		if ss := b.Frags[gi].Spec.Samples()[track]; len(ss) > 0 {
			return ss[0], true
		}
	}
	return Sample{}, false
}
