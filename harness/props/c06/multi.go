package c06

import (
	"bytes"
	"encoding/hex"
	"fmt"
	"sort"
	"strings"

	"verifharness/gen/cencgen"
	"verifharness/ref/boxwalk"
	"verifharness/ref/cenc"
	"verifharness/runner"
)

// Multi-track cases: two or three independently generated single-track inputs
// are encrypted one by one (the library refuses to encrypt a multi-track
// file), merged on the byte level into one file (gen/cencgen.Merge) and then
// decrypted as one file. Everything in DecryptInit / DecryptSegment /
// DecryptFragment that has to pick the right track (trex by track id, sinf by
// track id, senc of the right traf, data offsets of every traf) is exercised
// only here.

func nMulti(env *runner.Env) int {
	if env.Tier == "thorough" {
		return 60000
	}
	return 3000
}

type mtrack struct {
	cs    *cencgen.Case
	cfg   cencgen.Config
	clear bool // left unencrypted
	enc   string
	id    uint32
	pre   string // multi/<scheme|clear>/<family>
	shape []string
}

type multi struct {
	tracks []*mtrack
	plan   *cencgen.MergePlan
}

func (t *mtrack) scheme() string {
	if t.clear {
		return "clear"
	}
	return t.cfg.Scheme
}

// encryptTrack is the encryption step of the single-track cases for one
// track of a multi-track case (same verdicts, same keys: it *is* a
// single-track encryption).
func (x *ctx) encryptTrack(tools *cencgen.Tools, encTool bool, eopt cencgen.LibOpt) (*cencgen.EncOut, bool) {
	c, cs, cfg := x.c, x.cs, x.cfg
	var enc *cencgen.EncOut
	var err error
	if encTool {
		x.enc = "tool"
		enc, err = tools.Encrypt(cs, cfg, false)
	} else {
		x.enc = "lib/" + eopt.String()
		if pi := c.Guard(func() { enc, err = cencgen.EncryptLib(cs, cfg, eopt) }); pi != nil {
			x.viol("encrypt-panic/"+pi.TopFrame+"/"+pi.Class, "panic while encrypting: "+pi.Value+"\n"+firstLines(pi.Stack, 14))
			return nil, false
		}
	}
	c.Seen("multi_encrypt_path", x.enc)
	if err != nil && encTool && !isToolError(err) {
		c.Inconclusive("tool binary could not be started or its files not written (harness environment)")
		return nil, false
	}
	if te, ok := err.(*cencgen.ToolError); ok && (strings.Contains(te.Stderr, "panic:") || strings.Contains(te.Stderr, "goroutine ")) {
		x.viol("encrypt-panic/mp4ff-encrypt", "mp4ff-encrypt crashed: "+err.Error())
		return nil, false
	}
	if err != nil {
		if why := documentedRefusal(cs, cfg, false, err); why != "" {
			c.Count("encrypt_refused_documented", 1)
			c.Seen("encrypt_refusal", why)
			return nil, false
		}
		x.viol("encrypt-error/"+errClass(err)+"/"+cs.TraitKey(), "encrypting a valid clear input failed: "+err.Error())
		return nil, false
	}
	return enc, true
}

func runMulti(c *runner.Ctx, k int) {
	r := c.Rand
	n := 2
	if r.Chance(1, 4) {
		n = 3
	}
	video := r.PickStr("avc1", "avc1", "avc3", "hvc1", "hvc1", "hev1")
	audio := r.PickStr("mp4a", "mp4a", "ac-3")
	codecs := []string{video, audio, ""}
	switch r.Intn(8) {
	case 0:
		codecs = []string{"", "", ""} // anything, e.g. two video tracks
	case 1, 2, 3:
		codecs[0], codecs[1] = codecs[1], codecs[0]
	}
	base := cencgen.GenConfig(r)
	clearTrack := -1
	if r.Chance(1, 8) {
		clearTrack = r.Intn(n)
	}
	m := &multi{}
	for i := 0; i < n; i++ {
		cs, err := cencgen.Generate(r, cencgen.Shape{Codec: codecs[i], Small: r.Chance(2, 3)})
		if err != nil {
			c.Inconclusive("generator: " + errClass(err))
			return
		}
		cs.Name = fmt.Sprintf("multi/track%d/%s", i, cs.Codec)
		// shapes of the clear track that the library's writer never produces (as in the single-track cases)
		var shape []string
		var ok bool
		if cs, shape, ok = reshapeClear(c, cs, 4, 3); !ok {
			return
		}
		cfg := cencgen.GenConfig(r)
		cfg.Key, cfg.KeyKind = base.Key, base.KeyKind // DecryptSegment takes one key for the whole file
		if cfg.Pssh && r.Bool() {
			cfg.PsshN = 2
		}
		m.tracks = append(m.tracks, &mtrack{cs: cs, cfg: cfg, clear: i == clearTrack, shape: shape})
	}
	tools := &cencgen.Tools{BinDir: c.Env.BinDir + "/tools", Scratch: c.Env.Scratch}
	haveTools := tools.Available()
	if !haveTools {
		c.Count("tool_binaries_missing", 1)
	}

	// ---- the merge plan (drawn before the encryption: with key rotation the key of a track fragment is the
	// key of the fragment of the merged file it will be part of) ----
	nfrags := make([]int, n)
	for i, t := range m.tracks {
		nfrags[i] = len(t.cs.Frags)
	}
	m.plan = cencgen.GenMergePlan(r, nfrags)
	// key rotation (library on both sides only): fragment g of the MERGED file is decrypted with key number
	// g/period through one DecryptInfo; every traf in it was encrypted with that key
	rotate := 0
	if len(m.plan.Slots) >= 2 && r.Chance(1, 3) {
		rotate = r.PickInt(1, 1, 2, 3)
	}
	var decRot cencgen.RotStats

	// ---- encrypt every track on its own ----
	encFiles := make([][]byte, n)
	clearFiles := make([][]byte, n)
	for i, t := range m.tracks {
		encTool := !t.clear && haveTools && r.Chance(1, 6) && rotate == 0
		eopt := cencgen.LibOpt{SliceReader: r.Bool()}
		if rotate > 0 {
			eopt.RotateKeys, eopt.Rot = rotate, &cencgen.RotStats{}
			eopt.KeyIdx = make([]int, nfrags[i])
			for g, sl := range m.plan.Slots {
				for _, st := range sl.Trafs {
					if st.Track == i {
						eopt.KeyIdx[st.Frag] = g / rotate
					}
				}
			}
		}
		// the clear file as the encryption side writes it (segment-mode encode)
		var err error
		clearFiles[i], err = cencgen.Reencode(t.cs.File(), cencgen.LibOpt{SliceReader: eopt.SliceReader && !encTool})
		if err != nil {
			c.Inconclusive("baseline re-encode of the clear input failed: " + errClass(err))
			return
		}
		if t.clear {
			t.enc = "none"
			encFiles[i] = clearFiles[i]
			continue
		}
		x := &ctx{c: c, cs: t.cs, cfg: t.cfg, pre: t.cfg.Scheme + "/" + fam(t.cs.Codec), dec: "not reached (track of a multi-track case)"}
		enc, ok := x.encryptTrack(tools, encTool, eopt)
		if !ok {
			return
		}
		t.enc = x.enc
		if cencgen.SizeSignalledByTrexOnly(t.cs) {
			c.Seen("sample_size_from_trex_only_encrypted_by", fam(t.cs.Codec)+" "+x.enc+" (track of a multi-track case)")
		}
		encFiles[i] = enc.File()
	}

	// ---- merge ----
	var schemes []string
	for i, t := range m.tracks {
		t.id = m.plan.TrackIDs[i]
		t.pre = "multi/" + t.scheme() + "/" + fam(t.cs.Codec)
		schemes = append(schemes, t.scheme())
	}
	sort.Strings(schemes)
	encInit, encMedia, err := cencgen.Merge(encFiles, m.plan)
	if err != nil {
		c.Inconclusive("generator: merge of the encrypted tracks: " + errClass(err))
		return
	}
	clrInit, clrMedia, err := cencgen.Merge(clearFiles, m.plan)
	if err != nil {
		c.Inconclusive("generator: merge of the clear tracks: " + errClass(err))
		return
	}
	// self-check of the merge with the reference readers: the clear merged file
	// carries the generated samples, the encrypted one the generated sizes and
	// timing and saio offsets that point at the senc entries
	if _, clause, msg, _ := m.check(clrInit, clrMedia, true); clause != "" {
		c.Inconclusive("generator: merged clear file does not carry the generated samples (" + clause + ")")
		_ = msg
		return
	}
	if _, clause, _, _ := m.check(encInit, encMedia, false); clause != "" {
		c.Inconclusive("generator: merged encrypted file does not carry the generated sample table (" + clause + ")")
		return
	}
	encFile := append(append([]byte(nil), encInit...), encMedia...)
	protTracks, why := m.auxInfo(encFile)
	if why != "" {
		c.Inconclusive("generator: merged encrypted file: " + why)
		return
	}

	x := &ctx{c: c, pre: "multi/" + strings.Join(uniq(schemes), "+")}
	x.det = func() map[string]interface{} {
		var tr []map[string]interface{}
		for _, t := range m.tracks {
			tr = append(tr, map[string]interface{}{"codec": t.cs.Codec, "traits": t.cs.Traits, "track_id": t.id, "scheme": t.scheme(), "iv": t.cfg.IVHex(), "kid": t.cfg.KIDHex(),
				"pssh": t.cfg.Pssh, "pssh_boxes_to_initprotect": t.cfg.NPssh(), "clear_input_rewrites": t.shape, "encrypt_path": t.enc, "fragments": len(t.cs.Frags)})
		}
		d := map[string]interface{}{"kind": "multi-track", "tracks": tr, "key": base.KeyHex(), "plan": m.plan.String(), "order": m.plan.OrderKey(), "decrypt_path": x.dec,
			"merged_encrypted_moov_children": cencgen.MoovLayout(encInit)}
		if rotate > 0 {
			d["key_rotation"] = fmt.Sprintf("fragment g (0-based) of the merged file is decrypted with key number g/%d (every traf in it was encrypted with that key): key 0 = the case key, key k = SHA-256(case key || \"rot\" || uint32 k)[:16]; one DecryptInfo for the whole file", rotate)
		}
		if len(encFile) <= 20000 {
			d["merged_encrypted_file_hex"] = hex.EncodeToString(encFile)
			d["merged_clear_file_hex"] = hex.EncodeToString(append(append([]byte(nil), clrInit...), clrMedia...))
		}
		return d
	}

	// ---- decrypt the merged file ----
	separate := r.Chance(1, 3)
	decTool := haveTools && r.Chance(1, 5) && rotate == 0
	dopt := cencgen.LibOpt{SliceReader: r.Bool(), Separate: separate, BoxTree: r.Bool()}
	if rotate > 0 {
		dopt.RotateKeys, dopt.Rot = rotate, &decRot
	}
	var decInit, decMedia []byte
	if decTool {
		x.dec = "tool"
		if separate {
			x.dec = "tool+separate-init"
			decMedia, err = tools.Decrypt(encInit, encMedia, base.KeyHex())
		} else {
			decMedia, err = tools.Decrypt(nil, encFile, base.KeyHex())
		}
	} else {
		x.dec = "lib/" + dopt.String()
		var pi *runner.PanicInfo
		if separate {
			pi = c.Guard(func() { decInit, decMedia, err = cencgen.DecryptLib(encInit, encMedia, base.Key, dopt) })
		} else {
			pi = c.Guard(func() { decInit, decMedia, err = cencgen.DecryptLib(nil, encFile, base.Key, dopt) })
		}
		if pi != nil {
			x.viol("decrypt-panic/"+pi.TopFrame+"/"+pi.Class, "panic while decrypting a multi-track file: "+pi.Value+"\n"+firstLines(pi.Stack, 14))
			return
		}
	}
	if err != nil && decTool && !isToolError(err) {
		c.Inconclusive("tool binary could not be started or its files not written (harness environment)")
		return
	}
	if te, ok := err.(*cencgen.ToolError); ok && (strings.Contains(te.Stderr, "panic:") || strings.Contains(te.Stderr, "goroutine ")) {
		x.viol("decrypt-panic/mp4ff-decrypt", "mp4ff-decrypt crashed on a multi-track file merged from the library's own encrypted tracks: "+err.Error())
		return
	}
	if err != nil {
		x.viol("decrypt-error/"+errClass(err), "decrypting a multi-track file merged from the library's own encrypted tracks failed: "+err.Error())
		return
	}

	// ---- coverage ----
	c.Seen("multi_tracks", fmt.Sprint(n))
	c.Seen("multi_decrypt_path", x.dec)
	c.Seen("multi_schemes", strings.Join(schemes, "+"))
	var fams, ivs []string
	for _, i := range m.plan.TrakOrder {
		t := m.tracks[i]
		fams = append(fams, fam(t.cs.Codec))
		c.Seen("multi_codec", t.cs.Codec)
		switch {
		case t.clear:
			ivs = append(ivs, "-")
		case t.cfg.Scheme == "cbcs":
			ivs = append(ivs, "0")
		default:
			ivs = append(ivs, "16")
		}
	}
	c.Seen("multi_families_in_trak_order", strings.Join(fams, "+"))
	c.Seen("multi_per_sample_iv_sizes_in_trak_order", strings.Join(ivs, "+"))
	c.Seen("multi_trak_vs_trex_order", m.plan.OrderKey())
	if m.plan.SameOrder() {
		c.Count("multi_trex_order_equals_trak_order", 1)
	} else {
		c.Count("multi_trex_order_differs_from_trak_order", 1)
	}
	c.Seen("multi_track_ids", m.plan.IDClass())
	c.Seen("multi_mvex_position", map[bool]string{true: "before-traks", false: "after-traks"}[m.plan.MvexFirst])
	c.Seen("multi_fragment_shape", m.plan.Shape)
	if len(m.plan.Moved) == 0 {
		c.Seen("multi_tfhd_default_moved_to_trex", "none")
	}
	for _, mv := range m.plan.Moved {
		c.Seen("multi_tfhd_default_moved_to_trex", mv)
	}
	for _, s := range m.plan.Slots {
		shape := fmt.Sprintf("%d-traf", len(s.Trafs))
		if len(s.Trafs) > 1 {
			c.Count("multi_fragments_with_several_trafs", 1)
			swapped := false
			for i, j := range s.DataOrder {
				if i != j {
					swapped = true
				}
			}
			if swapped {
				shape += "/mdat-order-differs-from-traf-order"
			} else {
				shape += "/mdat-in-traf-order"
			}
			var sc []string
			for _, st := range s.Trafs {
				sc = append(sc, m.tracks[st.Track].scheme())
			}
			c.Seen("multi_traf_schemes_in_one_moof", strings.Join(sc, "+"))
		} else {
			c.Count("multi_fragments_with_one_traf", 1)
		}
		c.Seen("multi_fragment", shape)
	}
	c.Seen("multi_protected_tracks", fmt.Sprintf("%d of %d", len(protTracks), n))
	lay := cencgen.PsshNeighbourhood(encInit)
	c.Seen("multi_encrypted_moov_pssh_layout", lay)
	if strings.Contains(lay, "separated") {
		c.Count("encrypted_moov_with_pssh_boxes_separated_by_another_box", 1)
	}
	countRotation(c, "multi_", rotate, nil, &decRot)

	// ---- baseline: the merged clear file after the decryption side's encode ----
	dmode := cencgen.LibOpt{SliceReader: dopt.SliceReader, BoxTree: dopt.BoxTree}
	second := func(b []byte) ([]byte, error) {
		if decTool {
			return cencgen.ReencodeToolLike(b)
		}
		return cencgen.Reencode(b, dmode)
	}
	var baseInit, baseMedia []byte
	if !separate {
		baseMedia, err = second(append(append([]byte(nil), clrInit...), clrMedia...))
	} else {
		baseInit, err = cencgen.Reencode(clrInit, cencgen.LibOpt{SliceReader: dopt.SliceReader})
		if err == nil {
			baseMedia, err = second(clrMedia)
		}
	}
	if err != nil {
		c.Inconclusive("baseline re-encode of the merged clear input failed: " + errClass(err))
		return
	}
	c.Count("round_trips", 1)
	c.Count("multi_round_trips", 1)

	// ---- boxes ----
	if separate && !decTool {
		x.compareBoxes("init", baseInit, decInit)
	}
	damaged, _ := x.compareBoxes("file", baseMedia, decMedia)
	suffix := ""
	if damaged {
		suffix = "/after-moof-box-difference"
	}
	// ---- sample entries ----
	global := x.pre
	initBytes := decMedia
	if separate {
		initBytes = decInit
	}
	if initBytes != nil {
		if nodes, err := boxwalk.Walk(initBytes); err == nil {
			prots, err := cenc.TrackProtections(initBytes, nodes)
			if err != nil || len(prots) != n {
				x.viol("sample-entry/unreadable", fmt.Sprintf("decrypted init: %v (tracks %d, merged %d)", err, len(prots), n))
			} else {
				for k, p := range prots {
					t := m.tracks[m.plan.TrakOrder[k]]
					x.pre = t.pre
					switch {
					case p.TrackID != t.id:
						x.viol("sample-entry/track-id", fmt.Sprintf("trak %d of the decrypted init has track id %d, merged file %d", k, p.TrackID, t.id))
					case p.EntryType != t.cs.Codec:
						x.viol("sample-entry/type", fmt.Sprintf("track %d: sample entry type after decryption %q, original %q", t.id, p.EntryType, t.cs.Codec))
					case p.Sinf != nil:
						x.viol("sample-entry/sinf-left", fmt.Sprintf("track %d: sinf still present in the sample entry after decryption", t.id))
					}
				}
				x.pre = global
			}
			for _, nd := range nodes {
				if nd.Type == "moov" && nd.Child("pssh") != nil {
					x.viol("pssh-left-in-moov", "pssh still present in moov after decryption")
				}
			}
		}
	}
	// ---- samples ----
	src := decMedia
	if separate {
		src = decInit
		if src == nil {
			src = clrInit // the tool does not write the init: the trex defaults are those of the merged init
		}
	}
	ti, clause, msg, evals := m.check(src, decMedia, true)
	if clause != "" {
		if ti >= 0 {
			x.pre = m.tracks[ti].pre
		}
		if clause == "output-does-not-tile" {
			// reported by compareBoxes
		} else {
			x.viol(clause+suffix, msg)
		}
		x.pre = global
	} else if err := cencgen.DecodeCheck(append(append([]byte(nil), decInit...), decMedia...)); err != nil && !(separate && decInit == nil) {
		x.viol("output-not-decodable", "mp4ff cannot decode its own decrypted output: "+err.Error())
	}
	c.Evals(evals)
	if len(protTracks) > 0 {
		c.Nontrivial(runner.Hash64(encFile, base.Key, []byte(x.dec)))
		if c.WantSample() {
			var tr []string
			for _, i := range m.plan.TrakOrder {
				t := m.tracks[i]
				tr = append(tr, fmt.Sprintf("id %d %s %s iv %s via %s, %d fragments", t.id, t.cs.Codec, t.scheme(), t.cfg.IVHex(), t.enc, len(t.cs.Frags)))
			}
			c.Sample(map[string]interface{}{"case": "multi-track", "traks": tr, "order": m.plan.OrderKey(), "plan": m.plan.String(), "decrypt_path": x.dec, "encrypted_bytes": len(encFile)})
		}
	} else {
		c.Count("round_trips_without_protected_range", 1)
	}
}

func uniq(s []string) []string {
	var out []string
	for i, v := range s {
		if i == 0 || v != s[i-1] {
			out = append(out, v)
		}
	}
	return out
}

// check reads a merged (clear, encrypted or decrypted) file with the
// reference readers and compares every traf of every fragment with the
// generator's ground truth of the track fragment the plan put there.
// withBytes=false: sizes, timing and flags only (encrypted file).
// track is the index of the offending track (-1: not attributable).
func (m *multi) check(initSrc, media []byte, withBytes bool) (track int, clause, msg string, evals int64) {
	var trex map[uint32]*cenc.Trex
	if nodes, err := boxwalk.Walk(initSrc); err == nil {
		trex, _ = cenc.TrexMap(initSrc, nodes)
	}
	on, err := boxwalk.Walk(media)
	if err != nil {
		return -1, "output-does-not-tile", err.Error(), 0
	}
	var moofs []*boxwalk.Node
	for _, nd := range on {
		if nd.Type == "moof" {
			moofs = append(moofs, nd)
		}
	}
	if len(moofs) != len(m.plan.Slots) {
		return -1, "samples/fragment-count", fmt.Sprintf("%d fragments, %d merged", len(moofs), len(m.plan.Slots)), 0
	}
	for fi, mf := range moofs {
		slot := m.plan.Slots[fi]
		trs, err := cenc.LocateFragment(media, mf, trex)
		if err != nil || len(trs) != len(slot.Trafs) {
			return -1, "samples/unreadable", fmt.Sprintf("fragment %d: %v (trafs %d, merged %d)", fi, err, len(trs), len(slot.Trafs)), evals
		}
		for j, tr := range trs {
			st := slot.Trafs[j]
			t := m.tracks[st.Track]
			if tr.Tfhd.TrackID != t.id {
				return st.Track, "samples/track-id", fmt.Sprintf("fragment %d traf %d: track id %d, merged %d", fi, j, tr.Tfhd.TrackID, t.id), evals
			}
			ss := tr.Samples()
			gt := t.cs.Frags[st.Frag].Samples
			if len(ss) != len(gt) {
				return st.Track, "samples/count", fmt.Sprintf("fragment %d traf %d (track %d): %d samples, %d generated", fi, j, t.id, len(ss), len(gt)), evals
			}
			for i, s := range ss {
				evals++
				g := gt[i]
				if s.Size != uint32(len(g.Data)) || s.Dur != g.Dur || s.Flags != g.Flags || s.Cto != int64(g.Cto) || s.DecodeTime != g.DecodeTime {
					return st.Track, "samples/metadata", fmt.Sprintf("fragment %d traf %d (track %d) sample %d: size %d dur %d flags %#x cto %d dts %d; generated size %d dur %d flags %#x cto %d dts %d",
						fi, j, t.id, i, s.Size, s.Dur, s.Flags, s.Cto, s.DecodeTime, len(g.Data), g.Dur, g.Flags, g.Cto, g.DecodeTime), evals
				}
				if !withBytes {
					continue
				}
				got := media[s.Off : s.Off+int(s.Size)]
				if !bytes.Equal(got, g.Data) {
					kind := "bytes"
					if md := mdatOf(on, mf); md != nil {
						if p := bytes.Index(media[md.Start:md.End()], g.Data); len(g.Data) >= 8 && p >= 0 && md.Start+p != s.Off {
							kind = "data-offset"
						}
					}
					d := 0
					for d < len(got) && got[d] == g.Data[d] {
						d++
					}
					return st.Track, "samples/" + kind, fmt.Sprintf("fragment %d traf %d (track %d, %s) sample %d (%d bytes at file offset %d): differs from the clear sample from byte %d on: got %x want %x",
						fi, j, t.id, t.scheme(), i, len(got), s.Off, d, clip(got[d:]), clip(g.Data[d:])), evals
				}
			}
		}
	}
	return -1, "", "", evals
}

// auxInfo reads the merged encrypted file: every traf of an encrypted track
// has a senc that tiles with that track's Per_Sample_IV_Size, one entry per
// sample, and a saio whose single offset is the moof-relative position of the
// first senc entry. It returns the ids of the tracks that have at least one
// sample with a protected range.
func (m *multi) auxInfo(b []byte) (map[uint32]bool, string) {
	nodes, err := boxwalk.Walk(b)
	if err != nil {
		return nil, "does not tile"
	}
	prots, err := cenc.TrackProtections(b, nodes)
	if err != nil || len(prots) != len(m.tracks) {
		return nil, "track protections unreadable"
	}
	pm := map[uint32]*cenc.Protection{}
	for _, p := range prots {
		pm[p.TrackID] = p
	}
	byID := map[uint32]*mtrack{}
	for _, t := range m.tracks {
		byID[t.id] = t
		p := pm[t.id]
		if p == nil || (p.Tenc == nil) != t.clear {
			return nil, fmt.Sprintf("track %d: protection of the trak does not match the plan", t.id)
		}
	}
	trex, _ := cenc.TrexMap(b, nodes)
	out := map[uint32]bool{}
	for _, mf := range nodes {
		if mf.Type != "moof" {
			continue
		}
		trs, err := cenc.LocateFragment(b, mf, trex)
		if err != nil {
			return nil, "fragment unreadable"
		}
		for _, tr := range trs {
			id := tr.Tfhd.TrackID
			t := byID[id]
			if t == nil {
				return nil, "traf of an unknown track"
			}
			sn, pl, plOff, piff := cenc.FindSenc(b, tr.Node)
			if t.clear {
				if sn != nil {
					return nil, "senc in a traf of the clear track"
				}
				continue
			}
			if sn == nil {
				return nil, fmt.Sprintf("track %d: traf without senc", id)
			}
			s, err := cenc.ParseSenc(pl, pm[id].Tenc.PerSampleIVSize, piff)
			ss := tr.Samples()
			if err != nil || int(s.Count) != len(ss) {
				return nil, fmt.Sprintf("track %d: senc does not tile with the IV size of its own track", id)
			}
			on := tr.Node.Child("saio")
			if on == nil {
				return nil, fmt.Sprintf("track %d: traf without saio", id)
			}
			sa, err := cenc.ParseSaio(on.Payload(b))
			if err != nil || len(sa.Offsets) != 1 || mf.Start+int(sa.Offsets[0]) != plOff+s.FirstOff {
				return nil, fmt.Sprintf("track %d: saio offset does not point at the first senc entry", id)
			}
			for i, e := range s.Entries {
				if !e.HasSub {
					if ss[i].Size > 0 {
						out[id] = true
					}
					continue
				}
				for _, sub := range e.Sub {
					if sub.Protected > 0 {
						out[id] = true
					}
				}
			}
		}
	}
	return out, ""
}
