// Package c06 decides property C06 (decrypting what was encrypted restores
// the content): generated clear inputs are encrypted and decrypted through
// the library call protocol and through the mp4ff-encrypt/mp4ff-decrypt
// binaries; the decrypted, encoded output is read with the independent
// readers (ref/boxwalk, ref/cenc) and compared with the generator's ground
// truth (samples) and with the same-mode re-encode of the clear input (boxes).
package c06

import (
	"bytes"
	"encoding/binary"
	"encoding/hex"
	"fmt"
	"strings"

	"verifharness/gen/cencgen"
	"verifharness/ref/boxwalk"
	"verifharness/ref/cenc"
	"verifharness/runner"
)

type tpItem struct {
	Spec int
	Key  string // right | wrong | zero
	Path string // lib-reader-segment | lib-sr-boxtree | lib-sr-segment | tool
}

var (
	plan  []cencgen.Item
	reals []*cencgen.Case
	tps   []tpItem
)

func nRandom(env *runner.Env) int {
	if env.Tier == "thorough" {
		return 250000
	}
	return 5400
}

func tpPlan() []tpItem {
	var out []tpItem
	for i := range cencgen.ThirdParty {
		for _, k := range []string{"right", "wrong", "zero"} {
			for _, p := range []string{"lib-reader-segment", "lib-sr-boxtree", "lib-sr-segment", "tool"} {
				out = append(out, tpItem{i, k, p})
			}
		}
	}
	return out
}

func setup(env *runner.Env) error {
	plan = cencgen.Plan(nRandom(env))
	tps = tpPlan()
	reals = make([]*cencgen.Case, len(cencgen.RealSpecs))
	for i, s := range cencgen.RealSpecs {
		c, err := cencgen.LoadReal(env.RepoDir, s)
		if err != nil {
			return fmt.Errorf("real stream %s: %v", s.Name, err)
		}
		reals[i] = c
	}
	return nil
}

func init() {
	runner.Register(&runner.Prop{
		ID: "C06",
		Rule: "One case = one clear single-track CMAF input (same generator and pinned boundary cases as C07: AVC/HEVC with own parameter sets and slice headers, AAC/AC-3 audio, NAL size classes 5..15/16/17..91/92..130/131..999/~1k/~70k, non-VCL NAL > 65535, 1..4 fragments, uuid tfxd/tfrf/unknown, unknown 4cc, free, pssh boxes in moof/traf; the repo's real clear streams) x one configuration (cenc|cbcs, key random|zero|ff, IV 8|16 incl. counter wraps, optional pssh), " +
			"encrypted by library protocol (InitProtect, EncryptFragment, Encode; reader|slice reader; combined|separate init; ExtractInitProtectData) or mp4ff-encrypt, then decrypted by library protocol (DecryptInit, DecryptSegment, Encode in segment or box-tree mode) or mp4ff-decrypt (combined, combined plus -init naming a copy of the file's own init part, or media with -init), independently chosen. " +
			"Oracle on the decrypted *bytes*, read with ref/boxwalk + ref/cenc: samples (bytes via moof start + data_offset, size, duration, flags, cto, decode time) = generator ground truth; sample entry type restored and no sinf left; every non-protection box of the same-mode re-encode of the clear input present, in order, byte-identical (trun data_offset masked and checked through the sample bytes; container size fields excluded; top-level sidx excluded). " +
			"Case list: the 88 pinned cases of C07, 5400 (quick) / 250000 (thorough) random cases, 60 third-party cases, 3000 (quick) / 60000 (thorough) multi-track cases. Third-party cases (appended): the repo's cenc/cbcs/cbcs-audio/PIFF files decrypted with the test key, a wrong key and the zero key by library (3 variants) and tool: per track and fragment sample count/size/duration/cto/decode time unchanged, and the sample bytes equal the reference cipher's decryption with that key. " +
			"Multi-track cases (appended after the third-party cases; 3000 quick / 60000 thorough): 2 (3/4) or 3 (1/4) independently generated single-track inputs (mostly video+audio in either order, 1/8 any codecs; own scheme, IV, KID and pssh choice per track, one shared key; 1/8: one of the tracks stays unencrypted) are encrypted one by one (library reader|slice reader, 1/6 mp4ff-encrypt) and MERGED on the byte level (gen/cencgen.Merge on the editable tree of the independent walker) into one file: one moov with the trak boxes in a PRNG order, track ids rewritten to a permutation of 1..n or to distinct values of {1,2,3,4,5,7,16,100,255,256,1000,65535,65536,2^31-1,2^31,2^32-2}, one mvex (before or after the traks) whose trex boxes are in an independently drawn order, all pssh boxes; fragments are single-traf fragments alternating between the tracks, fragments with one traf per track (traf order and the order of the tracks' sample data in mdat drawn independently; every traf keeps its own senc/saiz/saio, the saio offset is recomputed to the moof-relative position of that traf's first senc entry, every trun data_offset recomputed, tfhd default-base-is-moof), or a random mix; for 2/3 of the tracks tfhd default duration/size/flags that are equal in all fragments of the track are moved into its trex, so that reading the samples needs the right trex. The same merge of the clear re-encodes is the baseline input. The merged encrypted file is decrypted as one file (DecryptInit + DecryptSegment, reader|slice reader, segment|box-tree encode, combined or separate init; 1/5 mp4ff-decrypt, combined or -init) and judged per track exactly like a single-track case: every traf of every fragment = the generated samples of the track fragment the plan put there (bytes, size, duration, flags, cto, decode time), every trak's sample entry type restored without sinf, no pssh left in moov, all non-protection boxes of the merged clear baseline present, in order and byte-identical, output decodable. Before judging, the harness reads its own merged files with ref/cenc (clear merge carries the generated samples; encrypted merge: senc of every traf tiles with the IV size of its own track and saio points at it), a failure there is inconclusive (generator), never a violation. Keys multi/<scheme set>/<clause> and multi/<scheme|clear>/<avc|hevc|audio>/<clause>; evidence: multi_trak_vs_trex_order (ranks of the track ids in trak and trex order), multi_fragment, multi_fragment_shape, multi_track_ids, multi_traf_schemes_in_one_moof, multi_per_sample_iv_sizes_in_trak_order, multi_tfhd_default_moved_to_trex, counters multi_*. " +
			"Round-5 input/history extensions (single-track random cases and every track of a multi-track case; evidence clear_*, *key_rotation*, pssh_boxes_to_initprotect, *encrypted_moov_pssh_layout): " +
			"(a) moov extras: with chance 1/3 (multi-track: 1/4 per track) the moov of the CLEAR init gets 1..4 extra children by a byte-level rewrite (gen/cencgen.AddMoovExtras): left-over pssh (v0/v1), unknown four-character code (abcd|zzzz|vndr), uuid with a random extended type, free, udta (empty or with an unknown child), each at the end of moov (3/4), right behind mvhd or in front of the last trak/mvex; InitProtect is given 0, 1 or 2 pssh boxes, which it appends behind them, so the pssh boxes of the encrypted moov are often not neighbours (pssh vndr pssh); the merge of a multi-track case keeps the first trak's extra boxes and pssh boxes in their order; every non-pssh extra box must survive decryption byte-identical and in place, every pssh must be gone from moov. " +
			"(b) trex-only defaults: with chance 1/2 (multi-track: 1/3 per track) the clear input is rewritten on the byte level BEFORE encryption (gen/cencgen.TrexOnlyDefaults) so that sample duration/size/flags are signalled by the trex defaults alone: a tfhd default present with one value in every fragment is moved to trex, and (1/2) a field whose effective value is equal for all samples of the track is taken out of every trun and tfhd and written to trex (flags only without first_sample_flags); trun data_offset reduced by the bytes the moof lost. Encryption (library and mp4ff-encrypt, combined or with separate init) must then find the samples through the trex of InitProtectData. The generated sample list stays the ground truth; the rewritten input is first re-read with ref/cenc (VerifyClear: sample entry, per-sample size/duration/flags/cto/decode time/bytes = generated), a failure is inconclusive (generator). " +
			"(c) key rotation: with chance 1/3 of the cases where both sides are the library and the file has at least 2 fragments, fragment g (0-based, file order; multi-track: fragment g of the MERGED file, the plan being drawn before the tracks are encrypted so that all trafs of one merged fragment share a key) is encrypted with EncryptFragment(key number g/period) and decrypted with that same key, period 1|2 (multi-track 1|2|3), key 0 = the case key, key k = SHA-256(case key||\"rot\"||uint32 k)[:16]; the decryption side uses ONE DecryptInfo for the whole file: DecryptSegment(segment, di, key) where all fragments of the decoded segment share a key, otherwise DecryptFragment(fragment, di, key) fragment by fragment. The tool paths take one key and never rotate. The oracle needs no key (ground truth = generated clear samples). " +
			"Non-trivial = the encryption produced at least one sample with a protected range (read from the encrypted bytes) and the decryption ran; distinct_nontrivial counts distinct (clear file, configuration, path) hashes (multi-track: merged encrypted file, key, path); evaluations counts compared samples.",
		Assumptions: []string{
			"a refusal to encrypt is accepted only where documented: ExtractInitProtectData/-init with avc3/hev1, more than one trun per traf, and samples whose auxiliary information cannot be described by the 8-bit saiz size",
			"encryption side always encodes in segment mode (EncryptFragment does not maintain trun.data_offset; Fragment.Encode recomputes it); box-tree mode is exercised on the decryption side",
			"third-party sample bytes: reference cipher per ISO/IEC 23001-7 with the tenc/senc values as written (PIFF: uuid tenc/senc, AES-CTR)",
			"the key is a parameter of every EncryptFragment / DecryptSegment / DecryptFragment call and DecryptInfo is documented as what DecryptInit returns for the init segment, so decrypting each fragment with the key it was encrypted with through one DecryptInfo is legal API use ('decrypting with the same key' is read per call)",
			"a pssh box that the CLEAR input already carries in moov (or moof) is protection signalling: it may be removed by decryption and is excluded from the identity clause; every other box of the clear moov (unknown 4cc, uuid, free, udta) must be kept",
			"sample size/duration/flags signalled only by trex defaults is legal ISO/IEC 14496-12 (8.8.3, 8.8.7, 8.8.8) although mp4ff's writer never produces it; such inputs are made by a byte-level rewrite whose result is verified against the generated sample list with the reference readers before use",
			"multi-track: the library refuses to encrypt a multi-track file (InitProtect: only one track), so the multi-track encrypted input is assembled by the harness from single-track encryptions; all tracks of one file share the key because DecryptSegment takes one key; a track left in the clear must come out unchanged",
		},
		Setup:      setup,
		NumCases:   func(env *runner.Env) int { return len(cencgen.Plan(nRandom(env))) + len(tpPlan()) + nMulti(env) },
		Run:        run,
		CaseCPUSec: 120,
		Finalize: func(a *runner.Agg) {
			if a.Counters["round_trips"] == 0 {
				a.Nothing = "no encrypt->decrypt round trip completed"
			}
			tool := int64(0)
			for k, v := range a.Seen["decrypt_path"] {
				if strings.HasPrefix(k, "tool") {
					tool += v
				}
			}
			if tool == 0 {
				a.Note("the mp4ff-decrypt binary was never run (binaries missing?)")
			}
			if a.Counters["multi_round_trips"] == 0 {
				a.Note("no multi-track file was decrypted")
			}
			if a.Counters["multi_trex_order_differs_from_trak_order"] == 0 || a.Counters["multi_fragments_with_several_trafs"] == 0 {
				a.Note("multi-track cases: trex order never differed from trak order (%d) or no fragment had several trafs (%d)", a.Counters["multi_trex_order_differs_from_trak_order"], a.Counters["multi_fragments_with_several_trafs"])
			}
			if a.Counters["key_rotation_round_trips_with_key_change_on_one_decryptinfo"]+a.Counters["multi_key_rotation_round_trips_with_key_change_on_one_decryptinfo"] == 0 {
				a.Note("no round trip changed the key between two calls on one DecryptInfo (key rotation never exercised)")
			}
			if a.Counters["clear_inputs_with_sample_size_from_trex_only"] == 0 {
				a.Note("no clear input had its sample size signalled by the trex default alone")
			}
			if a.Counters["encrypted_moov_with_pssh_boxes_separated_by_another_box"] == 0 {
				a.Note("no encrypted moov had a non-pssh box between two pssh boxes")
			}
			if a.Counters["thirdparty_decryptions"] == 0 {
				a.Note("no third-party encrypted file was decrypted")
			}
			if a.Counters["encrypt_refused_documented"]*4 > a.Counters["round_trips"] {
				a.Note("%d inputs were refused by the encryptor for documented reasons vs %d round trips", a.Counters["encrypt_refused_documented"], a.Counters["round_trips"])
			}
		},
	})
}

func fam(codec string) string {
	switch codec {
	case "avc1", "avc3":
		return "avc"
	case "hvc1", "hev1":
		return "hevc"
	}
	return "audio"
}

func errClass(err error) string {
	s := err.Error()
	if te, ok := err.(*cencgen.ToolError); ok {
		s = te.Tool + ": " + strings.TrimSpace(te.Stderr)
		if i := strings.Index(s, "Usage of"); i > 0 {
			s = s[:i]
		}
	}
	if se, ok := err.(*cencgen.StageError); ok {
		s = se.Err.Error()
	}
	// the innermost two segments of the error chain identify the cause on
	// both the library and the tool path
	parts := strings.Split(s, ": ")
	if len(parts) > 2 {
		parts = parts[len(parts)-2:]
	}
	s = strings.Join(parts, ": ")
	var b strings.Builder
	for _, r := range s {
		if r >= '0' && r <= '9' {
			continue
		}
		b.WriteRune(r)
	}
	s = strings.TrimSpace(b.String())
	if len(s) > 100 {
		s = s[:100]
	}
	return s
}

type ctx struct {
	c      *runner.Ctx
	cs     *cencgen.Case
	cfg    cencgen.Config
	enc    string
	dec    string
	pre    string
	evals  int64
	encOut *cencgen.EncOut
	det    func() map[string]interface{} // multi-track cases: witness description instead of the single-track one
	rotate int                           // key rotation period in fragments (0 = one key)
	shape  []string                      // byte-level rewrites applied to the clear input
}

func (x *ctx) viol(clause, what string) {
	if x.det != nil {
		x.c.Violation(x.pre+"/"+clause, what, x.det())
		return
	}
	det := map[string]interface{}{
		"case": x.cs.Name, "codec": x.cs.Codec, "traits": x.cs.Traits, "encrypt_path": x.enc, "decrypt_path": x.dec,
		"scheme": x.cfg.Scheme, "key": x.cfg.KeyHex(), "iv": x.cfg.IVHex(), "kid": x.cfg.KIDHex(), "pssh": x.cfg.Pssh, "pssh_boxes_to_initprotect": x.cfg.NPssh(),
		"clear_moov_children": cencgen.MoovLayout(x.cs.Init), "clear_input_rewrites": x.shape,
	}
	if x.rotate > 0 {
		det["key_rotation"] = fmt.Sprintf("fragment g (0-based, file order) is encrypted and decrypted with key number g/%d: key 0 = the case key, key k = SHA-256(case key || \"rot\" || uint32 k)[:16]; one DecryptInfo for the whole file", x.rotate)
	}
	var extras []string
	for _, f := range x.cs.Frags {
		extras = append(extras, strings.Join(f.Extras, ","))
	}
	det["extras_per_fragment"] = extras
	if x.cs.Kind == "gen" && len(x.cs.File()) <= 24000 {
		det["clear_file_hex"] = hex.EncodeToString(x.cs.File())
	}
	x.c.Violation(x.pre+"/"+clause, what, det)
}

// documentedRefusal: an encryption error that the documentation/usage text
// announces.
func documentedRefusal(cs *cencgen.Case, cfg cencgen.Config, separate bool, err error) string {
	s := err.Error()
	switch {
	case strings.Contains(s, "unsupported video codec descriptor") && (cs.Codec == "avc3" || cs.Codec == "hev1") && separate:
		return "separate-init with avc3/hev1 (usage text: only avc1/hvc1)"
	case strings.Contains(s, "only one trun supported"):
		return "more than one trun"
	}
	ivSize := 16
	if cfg.Scheme == "cbcs" {
		ivSize = 0
	}
	if cs.ExceedsSaizLimit(ivSize) {
		return "auxiliary information larger than saiz can describe"
	}
	return ""
}

func run(c *runner.Ctx, idx int) {
	if idx >= len(plan)+len(tps) {
		runMulti(c, idx-len(plan)-len(tps))
		return
	}
	if idx >= len(plan) {
		runThirdParty(c, tps[idx-len(plan)])
		return
	}
	it := plan[idx]
	cs, cfg, err := cencgen.Build(c.Rand, it, reals)
	if err != nil {
		c.Inconclusive("generator: " + errClass(err))
		return
	}
	c.Seen("item_kind", it.Kind)
	c.Seen("codec", cs.Codec)
	c.Seen("scheme", cfg.Scheme)
	c.Seen("key_kind", cfg.KeyKind)
	c.Seen("iv_kind", cfg.IVKind)
	for _, f := range cs.Frags {
		for _, e := range f.Extras {
			c.Seen("extra_box", e)
		}
	}
	for _, t := range cs.Traits {
		c.Seen("input_trait", t)
	}
	// ---- shapes of the clear input that the library's own writer never produces (byte-level rewrites;
	// the generator's sample list stays the ground truth and is re-read from the rewritten bytes first) ----
	var shape []string
	if it.Kind == "random" {
		var ok bool
		if cs, shape, ok = reshapeClear(c, cs, 3, 2); !ok {
			return
		}
	}
	if cfg.Pssh && c.Rand.Bool() {
		cfg.PsshN = 2
	}
	c.Seen("pssh_boxes_to_initprotect", fmt.Sprint(cfg.NPssh()))
	x := &ctx{c: c, cs: cs, cfg: cfg, pre: cfg.Scheme + "/" + fam(cs.Codec), shape: shape}
	tools := &cencgen.Tools{BinDir: c.Env.BinDir + "/tools", Scratch: c.Env.Scratch}
	haveTools := tools.Available()
	if !haveTools {
		c.Count("tool_binaries_missing", 1)
	}
	separate := (cs.Kind == "gen" || cencgen.RealSpecs[it.Real].Init != "") && c.Rand.Chance(1, 3)
	if it.Kind == "iv-guess" {
		separate = true // the media segments are decoded without their init segment
	}
	encTool := haveTools && c.Rand.Chance(1, 5)
	decTool := haveTools && c.Rand.Chance(1, 5)
	eopt := cencgen.LibOpt{SliceReader: c.Rand.Bool(), Separate: separate, Extract: separate && c.Rand.Bool()}
	dopt := cencgen.LibOpt{SliceReader: c.Rand.Bool(), Separate: separate, BoxTree: c.Rand.Bool()}
	// which serialiser writes the encrypted / the decrypted file (chosen by the case index: no draw)
	eopt.EncodeSW, dopt.EncodeSW = c.Idx%3 == 1, c.Idx%4 == 2
	eopt.SinfFirst = c.Idx%5 == 3
	c.Seen("serialiser", fmt.Sprintf("encrypt-side-EncodeSW=%v,decrypt-side-EncodeSW=%v,sinf-first=%v", eopt.EncodeSW, dopt.EncodeSW, eopt.SinfFirst))
	// key rotation (library on both sides only: the tools take one key): fragment g is encrypted and decrypted
	// with key number g/period, the decryption side uses ONE DecryptInfo for all of them
	var encRot, decRot cencgen.RotStats
	if !encTool && !decTool && it.Kind != "iv-guess" && len(cs.Frags) >= 2 && c.Rand.Chance(1, 3) {
		x.rotate = c.Rand.PickInt(1, 1, 2)
		eopt.RotateKeys, eopt.Rot = x.rotate, &encRot
		dopt.RotateKeys, dopt.Rot = x.rotate, &decRot
	}

	// ---- encrypt ----
	var enc *cencgen.EncOut
	if encTool {
		x.enc = "tool"
		if separate {
			x.enc = "tool+separate-init"
		}
		enc, err = tools.Encrypt(cs, cfg, separate)
	} else {
		x.enc = "lib/" + eopt.String()
		if pi := c.Guard(func() { enc, err = cencgen.EncryptLib(cs, cfg, eopt) }); pi != nil {
			x.viol("encrypt-panic/"+pi.TopFrame+"/"+pi.Class, "panic while encrypting: "+pi.Value+"\n"+firstLines(pi.Stack, 14))
			return
		}
	}
	c.Seen("encrypt_path", x.enc)
	if cencgen.SizeSignalledByTrexOnly(cs) {
		c.Seen("sample_size_from_trex_only_encrypted_by", fam(cs.Codec)+" "+x.enc)
	}
	if err != nil && encTool && !isToolError(err) {
		c.Inconclusive("tool binary could not be started or its files not written (harness environment)")
		return
	}
	if te, ok := err.(*cencgen.ToolError); ok && (strings.Contains(te.Stderr, "panic:") || strings.Contains(te.Stderr, "goroutine ")) {
		x.viol("encrypt-panic/mp4ff-encrypt", "mp4ff-encrypt crashed: "+err.Error())
		return
	}
	if err != nil {
		if why := documentedRefusal(cs, cfg, separate, err); why != "" {
			c.Count("encrypt_refused_documented", 1)
			c.Seen("encrypt_refusal", why)
			return
		}
		x.viol("encrypt-error/"+errClass(err)+"/"+cs.TraitKey(), "encrypting a valid clear input failed: "+err.Error())
		return
	}
	x.encOut = enc
	protected := x.hasProtectedRange(enc)
	lay := cencgen.PsshNeighbourhood(enc.File())
	c.Seen("encrypted_moov_pssh_layout", lay)
	if strings.Contains(lay, "separated") {
		c.Count("encrypted_moov_with_pssh_boxes_separated_by_another_box", 1)
	}

	// ---- decrypt ----
	var decInit, decMedia []byte
	if decTool {
		x.dec = "tool"
		if separate {
			x.dec = "tool+separate-init"
			decMedia, err = tools.Decrypt(enc.Init, enc.Media, cfg.KeyHex())
			// the tool does not write a decrypted init in this mode
		} else {
			var extraInit []byte
			if c.Rand.Chance(1, 3) {
				// the combined file together with -init naming a copy of its own init part: the file's
				// own init segment is the one that is decrypted and written, as without the option
				if nodes, werr := boxwalk.Walk(enc.Media); werr == nil {
					for _, n := range nodes {
						if n.Type == "moov" {
							extraInit = append([]byte{}, enc.Media[:n.End()]...)
						}
					}
				}
				if extraInit != nil {
					x.dec = "tool+redundant-init"
				}
			}
			decMedia, err = tools.Decrypt(extraInit, enc.Media, cfg.KeyHex())
		}
	} else {
		x.dec = "lib/" + dopt.String()
		if pi := c.Guard(func() { decInit, decMedia, err = cencgen.DecryptLib(enc.Init, enc.Media, cfg.Key, dopt) }); pi != nil {
			x.viol("decrypt-panic/"+pi.TopFrame+"/"+pi.Class, "panic while decrypting: "+pi.Value+"\n"+firstLines(pi.Stack, 14))
			return
		}
	}
	c.Seen("decrypt_path", x.dec)
	if err != nil && decTool && !isToolError(err) {
		c.Inconclusive("tool binary could not be started or its files not written (harness environment)")
		return
	}
	if te, ok := err.(*cencgen.ToolError); ok && (strings.Contains(te.Stderr, "panic:") || strings.Contains(te.Stderr, "goroutine ")) {
		x.viol("decrypt-panic/mp4ff-decrypt", "mp4ff-decrypt crashed on the output of mp4ff's own encryption: "+err.Error())
		return
	}
	if err != nil {
		x.viol("decrypt-error/"+errClass(err), "decrypting the library's own encrypted output failed: "+err.Error())
		return
	}

	// ---- baseline: the clear input after the same sequence of plain encodes:
	// the encryption side writes in segment mode (File.Encode), the decryption
	// side in its own mode ----
	var baseInit, baseMedia []byte
	seg := cencgen.LibOpt{SliceReader: eopt.SliceReader && !encTool}
	dmode := cencgen.LibOpt{SliceReader: dopt.SliceReader, BoxTree: dopt.BoxTree}
	second := func(b []byte) ([]byte, error) {
		if decTool {
			return cencgen.ReencodeToolLike(b)
		}
		return cencgen.Reencode(b, dmode)
	}
	if !separate {
		baseMedia, err = cencgen.Reencode(cs.File(), seg)
		if err == nil {
			baseMedia, err = second(baseMedia)
		}
	} else {
		baseInit, err = cencgen.Reencode(cs.Init, seg)
		if err == nil {
			baseInit, err = cencgen.Reencode(baseInit, cencgen.LibOpt{SliceReader: dopt.SliceReader}) // DecryptLib writes the init in segment mode
		}
		var m []byte
		for _, sg := range cs.Segs {
			if err != nil {
				break
			}
			var b []byte
			b, err = cencgen.Reencode(sg, seg)
			m = append(m, b...)
		}
		if err == nil {
			baseMedia, err = second(m)
		}
	}
	if err != nil {
		c.Inconclusive("baseline re-encode of the clear input failed: " + errClass(err))
		return
	}
	c.Count("round_trips", 1)
	countRotation(c, "", x.rotate, &encRot, &decRot)
	x.compare(baseInit, baseMedia, decInit, decMedia, separate, decTool)
	c.Evals(x.evals)
	if protected {
		c.Nontrivial(runner.Hash64(cs.File(), cfg.Key, cfg.IV, []byte(cfg.Scheme+x.enc+x.dec)))
		if c.WantSample() {
			c.Sample(map[string]interface{}{"case": cs.Name, "codec": cs.Codec, "scheme": cfg.Scheme, "iv": cfg.IVHex(), "key_kind": cfg.KeyKind,
				"encrypt_path": x.enc, "decrypt_path": x.dec, "fragments": len(cs.Frags), "extras": cs.Frags[0].Extras, "clear_bytes": len(cs.File())})
		}
	} else {
		c.Count("round_trips_without_protected_range", 1)
	}
}

// reshapeClear applies, with chance 1/extrasDen and 1/trexDen, the two byte-level rewrites of a clear
// single-track input (gen/cencgen/clearshapes.go) and re-reads the result with the reference readers:
// a rewritten input that does not carry the generated samples is inconclusive (generator), never a verdict.
func reshapeClear(c *runner.Ctx, cs *cencgen.Case, extrasDen, trexDen int) (*cencgen.Case, []string, bool) {
	var shape []string
	changed := false
	if c.Rand.Chance(1, extrasDen) {
		d, names, err := cencgen.AddMoovExtras(c.Rand, cs)
		if err != nil {
			c.Inconclusive("generator: moov extras: " + errClass(err))
			return nil, nil, false
		}
		cs, changed = d, true
		c.Count("clear_inputs_with_moov_extras", 1)
		for _, n := range names {
			c.Seen("clear_moov_extra", n)
			shape = append(shape, "moov:"+n)
		}
	}
	if c.Rand.Chance(1, trexDen) {
		hoist := c.Rand.Bool()
		d, moved, err := cencgen.TrexOnlyDefaults(cs, hoist)
		if err != nil {
			c.Inconclusive("generator: trex-only defaults: " + errClass(err))
			return nil, nil, false
		}
		if d == nil {
			c.Seen("clear_trex_only_default", "nothing-to-move")
		} else {
			cs, changed = d, true
			c.Count("clear_inputs_with_defaults_moved_to_trex", 1)
			for _, m := range moved {
				c.Seen("clear_trex_only_default", m)
				shape = append(shape, "trex:"+m)
			}
		}
	}
	if changed {
		if err := cencgen.VerifyClear(cs); err != nil {
			c.Inconclusive("generator: rewritten clear input does not carry the generated samples (" + errClass(err) + ")")
			return nil, nil, false
		}
	}
	c.Seen("clear_moov_pssh_layout", cencgen.PsshNeighbourhood(cs.Init))
	if cencgen.SizeSignalledByTrexOnly(cs) {
		c.Count("clear_inputs_with_sample_size_from_trex_only", 1)
	}
	return cs, shape, true
}

// countRotation records what a rotating round trip did.
func countRotation(c *runner.Ctx, pre string, period int, enc, dec *cencgen.RotStats) {
	if period == 0 {
		c.Seen(pre+"key_rotation", "none")
		return
	}
	c.Seen(pre+"key_rotation", fmt.Sprintf("period=%d/keys=%d", period, dec.Keys))
	c.Count(pre+"key_rotation_round_trips", 1)
	if dec.Switches > 0 {
		c.Count(pre+"key_rotation_round_trips_with_key_change_on_one_decryptinfo", 1)
	}
	c.Count(pre+"key_rotation_key_changes_on_one_decryptinfo", int64(dec.Switches))
	c.Count(pre+"key_rotation_decryptsegment_calls", int64(dec.SegmentCalls))
	c.Count(pre+"key_rotation_decryptfragment_calls", int64(dec.FragmentCalls))
	_ = enc
}

func isToolError(err error) bool {
	_, ok := err.(*cencgen.ToolError)
	return ok
}

func firstLines(s string, n int) string {
	l := strings.Split(s, "\n")
	if len(l) > n {
		l = l[:n]
	}
	return strings.Join(l, "\n")
}

// hasProtectedRange reads the encrypted bytes: is there a sample with a
// protected range (sub-sample with protected > 0, or a non-empty sample
// without sub-samples)?
func (x *ctx) hasProtectedRange(enc *cencgen.EncOut) bool {
	b := enc.File()
	nodes, err := boxwalk.Walk(b)
	if err != nil {
		return false
	}
	prots, err := cenc.TrackProtections(b, nodes)
	if err != nil || len(prots) == 0 || prots[0].Tenc == nil {
		return false
	}
	trex, _ := cenc.TrexMap(b, nodes)
	for _, m := range nodes {
		if m.Type != "moof" {
			continue
		}
		trs, err := cenc.LocateFragment(b, m, trex)
		if err != nil || len(trs) == 0 {
			continue
		}
		_, pl, _, piff := cenc.FindSenc(b, trs[0].Node)
		if pl == nil {
			continue
		}
		s, err := cenc.ParseSenc(pl, prots[0].Tenc.PerSampleIVSize, piff)
		if err != nil {
			continue
		}
		ss := trs[0].Samples()
		for i, e := range s.Entries {
			if !e.HasSub {
				if i < len(ss) && ss[i].Size > 0 {
					return true
				}
				continue
			}
			for _, sub := range e.Sub {
				if sub.Protected > 0 {
					return true
				}
			}
		}
	}
	return false
}

// ---------------------------------------------------------------------------

var protectionTypes = map[string]bool{"sinf": true, "schm": true, "schi": true, "tenc": true, "frma": true, "senc": true, "saiz": true, "saio": true, "pssh": true}

func excluded(b []byte, n *boxwalk.Node, top bool) bool {
	if protectionTypes[n.Type] {
		return true
	}
	if top && n.Type == "sidx" {
		return true
	}
	pl := n.Payload(b)
	switch n.Type {
	case "sbgp", "sgpd":
		if len(pl) >= 8 && string(pl[4:8]) == "seig" {
			return true
		}
	case "uuid":
		if len(pl) >= 16 && bytes.Equal(pl[:16], cenc.UUIDPiffSenc) {
			return true
		}
	}
	return false
}

type flat struct {
	path  string
	typ   string
	bytes []byte
	node  *boxwalk.Node
}

func flatten(b []byte, nodes []*boxwalk.Node, path string, out *[]flat) {
	for _, n := range nodes {
		if excluded(b, n, path == "") {
			continue
		}
		p := path + "/" + n.Type
		if n.Container {
			// header without the size field(s): type + fixed prefix
			hdr := append([]byte(nil), b[n.Start+4:n.Start+8]...)
			hdr = append(hdr, b[n.Start+n.HdrLen:n.Start+n.BodyOff]...)
			*out = append(*out, flat{p + "{", n.Type, hdr, n})
			flatten(b, n.Children, p, out)
			continue
		}
		bb := n.Bytes(b)
		if n.Type == "trun" {
			bb = append([]byte(nil), bb...)
			if tr, err := cenc.ParseTrun(n.Payload(b)); err == nil && tr.HasDataOffset {
				o := n.HdrLen + tr.DataOffsetPos
				copy(bb[o:o+4], []byte{0, 0, 0, 0})
			}
		}
		*out = append(*out, flat{p, n.Type, bb, n})
	}
}

func boxClass(t string) string {
	switch t {
	case "ftyp", "styp", "moov", "mvhd", "trak", "tkhd", "mdia", "mdhd", "hdlr", "minf", "stbl", "stsd", "mvex", "trex", "moof", "mfhd", "traf", "tfhd", "tfdt", "trun",
		"uuid", "free", "pssh", "mdat", "avcC", "hvcC", "esds", "dac3", "avc1", "avc3", "hvc1", "hev1", "mp4a", "ac-3", "encv", "enca", "btrt", "mfra", "tfra", "mfro":
		return t
	}
	return "other"
}

// compareBoxes checks the identity clause on one byte string pair and returns
// whether a box of a moof was lost or added (data offsets then necessarily move).
func (x *ctx) compareBoxes(what string, base, out []byte) (moofDamaged bool, ok bool) {
	bn, err := boxwalk.Walk(base)
	if err != nil {
		x.c.Inconclusive("reference walker cannot tile the clear baseline")
		return false, false
	}
	on, err := boxwalk.Walk(out)
	if err != nil {
		x.viol("output-does-not-tile", fmt.Sprintf("%s: the decrypted output is not a sequence of well-formed boxes: %v", what, err))
		return false, false
	}
	var fb, fo []flat
	flatten(base, bn, "", &fb)
	flatten(out, on, "", &fo)
	i := 0
	for i < len(fb) && i < len(fo) && fb[i].path == fo[i].path {
		if !bytes.Equal(fb[i].bytes, fo[i].bytes) {
			x.viol("box-bytes/"+boxClass(fb[i].typ), fmt.Sprintf("%s: box %s differs from the clear baseline: baseline %x, decrypted %x", what, fb[i].path, clip(fb[i].bytes), clip(fo[i].bytes)))
			if strings.Contains(fb[i].path, "/moof") && fb[i].typ != "trun" {
				moofDamaged = true
			}
		}
		i++
	}
	if i < len(fb) || i < len(fo) {
		// structural difference: decide missing vs extra by looking ahead
		var bp, op string
		if i < len(fb) {
			bp = fb[i].path
		}
		if i < len(fo) {
			op = fo[i].path
		}
		missing := i < len(fb)
		if missing && i < len(fo) {
			// is the baseline box found later in the output? then the output has an extra box here
			for j := i + 1; j < len(fo) && j < i+8; j++ {
				if fo[j].path == bp && bytes.Equal(fo[j].bytes, fb[i].bytes) {
					missing = false
				}
			}
		}
		if missing {
			x.viol("box-missing/"+boxClass(fb[i].typ), fmt.Sprintf("%s: box %s (%d bytes, %x) of the clear baseline is missing from the decrypted output (output continues with %q)", what, bp, len(fb[i].bytes), clip(fb[i].bytes), op))
			if strings.Contains(bp, "/moof") {
				moofDamaged = true
			}
		} else {
			x.viol("box-extra/"+boxClass(fo[i].typ), fmt.Sprintf("%s: the decrypted output has box %s (%x) where the clear baseline has %q", what, op, clip(fo[i].bytes), bp))
			if strings.Contains(op, "/moof") {
				moofDamaged = true
			}
		}
		return moofDamaged, false
	}
	return moofDamaged, true
}

func clip(b []byte) []byte {
	if len(b) > 48 {
		return b[:48]
	}
	return b
}

func (x *ctx) compare(baseInit, baseMedia, decInit, decMedia []byte, separate, decTool bool) {
	cs := x.cs
	// ---- boxes ----
	damaged := false
	if separate && !decTool {
		x.compareBoxes("init", baseInit, decInit)
	}
	damaged, _ = x.compareBoxes("file", baseMedia, decMedia)
	// observation, not a verdict: protection signalling that survives in a decrypted fragment. The statement
	// lists what must be restored and kept; it does not say that senc/saiz/saio must be gone.
	if nodes, err := boxwalk.Walk(decMedia); err == nil {
		for _, n := range nodes {
			if n.Type != "moof" {
				continue
			}
			for _, t := range n.Children {
				for _, ch := range t.Children {
					if ch.Type == "senc" || ch.Type == "saiz" || ch.Type == "saio" {
						x.c.Seen("protection_box_left_in_decrypted_fragment", ch.Type)
					}
				}
			}
		}
	}
	suffix := ""
	if damaged {
		suffix = "/after-moof-box-difference"
	}
	// ---- sample entry restored ----
	initBytes := decMedia
	if separate {
		initBytes = decInit
	}
	if initBytes != nil {
		if nodes, err := boxwalk.Walk(initBytes); err == nil {
			prots, err := cenc.TrackProtections(initBytes, nodes)
			switch {
			case err != nil || len(prots) != 1:
				x.viol("sample-entry/unreadable", fmt.Sprintf("decrypted init: %v (tracks %d)", err, len(prots)))
			case prots[0].EntryType != cs.Codec:
				x.viol("sample-entry/type", fmt.Sprintf("sample entry type after decryption %q, original %q", prots[0].EntryType, cs.Codec))
			case prots[0].Sinf != nil:
				x.viol("sample-entry/sinf-left", "sinf still present in the sample entry after decryption")
			}
			if len(boxwalk.Find(nodes, "pssh")) > 0 && !separate {
				// pssh inside moof of the *clear input* is removed as protection signalling; a pssh in moov must be gone
				for _, n := range nodes {
					if n.Type == "moov" && n.Child("pssh") != nil {
						x.viol("pssh-left-in-moov", "pssh still present in moov after decryption")
					}
				}
			}
		}
	}
	// ---- samples ----
	// the trex defaults come from the init (decrypted one, or the clear one when the tool did not write it)
	var trex map[uint32]*cenc.Trex
	src := decMedia
	if separate {
		src = decInit
		if src == nil {
			src = cs.Init
		}
	}
	if nodes, err := boxwalk.Walk(src); err == nil {
		trex, _ = cenc.TrexMap(src, nodes)
	}
	on, err := boxwalk.Walk(decMedia)
	if err != nil {
		return // reported by compareBoxes
	}
	var moofs []*boxwalk.Node
	for _, n := range on {
		if n.Type == "moof" {
			moofs = append(moofs, n)
		}
	}
	if len(moofs) != len(cs.Frags) {
		x.viol("samples/fragment-count"+suffix, fmt.Sprintf("%d fragments after decryption, %d generated", len(moofs), len(cs.Frags)))
		return
	}
	for fi, m := range moofs {
		trs, err := cenc.LocateFragment(decMedia, m, trex)
		if err != nil || len(trs) != 1 {
			x.viol("samples/unreadable"+suffix, fmt.Sprintf("fragment %d of the decrypted output: %v (trafs %d)", fi, err, len(trs)))
			return
		}
		ss := trs[0].Samples()
		gt := cs.Frags[fi].Samples
		if len(ss) != len(gt) {
			x.viol("samples/count"+suffix, fmt.Sprintf("fragment %d: %d samples after decryption, %d generated", fi, len(ss), len(gt)))
			return
		}
		for i, s := range ss {
			x.evals++
			g := gt[i]
			if s.Size != uint32(len(g.Data)) || s.Dur != g.Dur || s.Flags != g.Flags || s.Cto != int64(g.Cto) || s.DecodeTime != g.DecodeTime {
				x.viol("samples/metadata"+suffix, fmt.Sprintf("fragment %d sample %d: after decryption size %d dur %d flags %#x cto %d dts %d; generated size %d dur %d flags %#x cto %d dts %d",
					fi, i, s.Size, s.Dur, s.Flags, s.Cto, s.DecodeTime, len(g.Data), g.Dur, g.Flags, g.Cto, g.DecodeTime))
				return
			}
			got := decMedia[s.Off : s.Off+int(s.Size)]
			if !bytes.Equal(got, g.Data) {
				// distinguish "points at the wrong bytes" from "wrong bytes at the right place"
				kind := "bytes"
				md := mdatOf(on, m)
				if md != nil {
					if p := bytes.Index(decMedia[md.Start:md.End()], g.Data); len(g.Data) >= 8 && p >= 0 && md.Start+p != s.Off {
						kind = "data-offset"
					}
				}
				d := 0
				for d < len(got) && got[d] == g.Data[d] {
					d++
				}
				x.viol("samples/"+kind+suffix, fmt.Sprintf("fragment %d sample %d (%d bytes at file offset %d): differs from the clear sample from byte %d on: got %x want %x",
					fi, i, len(got), s.Off, d, clip(got[d:]), clip(g.Data[d:])))
				return
			}
		}
	}
	if err := cencgen.DecodeCheck(append(append([]byte(nil), decInit...), decMedia...)); err != nil && !(separate && decInit == nil) {
		x.viol("output-not-decodable", "mp4ff cannot decode its own decrypted output: "+err.Error())
	}
}

func mdatOf(top []*boxwalk.Node, moof *boxwalk.Node) *boxwalk.Node {
	seen := false
	for _, n := range top {
		if n == moof {
			seen = true
			continue
		}
		if seen && n.Type == "mdat" {
			return n
		}
		if seen && n.Type == "moof" {
			return nil
		}
	}
	return nil
}

var _ = binary.BigEndian
