package c06

import (
	"bytes"
	"encoding/hex"
	"fmt"

	"verifharness/gen/cencgen"
	"verifharness/ref/boxwalk"
	"verifharness/ref/cenc"
	"verifharness/runner"
)

// tpSample is what the third-party clause compares per sample.
type tpSample struct {
	Size, Dur uint32
	Cto       int64
	DT        uint64
	Want      []byte // reference decryption (nil for tracks in the clear)
}

// tpModel reads an encrypted file with the reference readers: per track id
// and fragment the sample metadata and the reference-decrypted bytes.
func tpModel(init, media []byte, key []byte) (map[uint32][][]tpSample, string, error) {
	file := append(append([]byte(nil), init...), media...)
	nodes, err := boxwalk.Walk(file)
	if err != nil {
		return nil, "", err
	}
	prots, err := cenc.TrackProtections(file, nodes)
	if err != nil {
		return nil, "", err
	}
	pm := map[uint32]*cenc.Protection{}
	for _, p := range prots {
		pm[p.TrackID] = p
	}
	trex, err := cenc.TrexMap(file, nodes)
	if err != nil {
		return nil, "", err
	}
	out := map[uint32][][]tpSample{}
	schemes := ""
	for _, m := range nodes {
		if m.Type != "moof" {
			continue
		}
		trs, err := cenc.LocateFragment(file, m, trex)
		if err != nil {
			return nil, "", err
		}
		for _, tr := range trs {
			id := tr.Tfhd.TrackID
			p := pm[id]
			ss := tr.Samples()
			row := make([]tpSample, len(ss))
			for i, s := range ss {
				row[i] = tpSample{Size: s.Size, Dur: s.Dur, Cto: s.Cto, DT: s.DecodeTime}
			}
			if p != nil && p.Sinf != nil && p.Tenc != nil && p.Schm != nil {
				scheme := p.Schm.SchemeType
				if scheme == "piff" {
					scheme = "cenc"
				}
				schemes += scheme + " "
				_, pl, _, piff := cenc.FindSenc(file, tr.Node)
				if pl == nil {
					return nil, "", fmt.Errorf("track %d: no senc", id)
				}
				if tr.Node.Child("sbgp") != nil || tr.Node.Child("sgpd") != nil {
					return nil, "", fmt.Errorf("track %d: sample groups present (not modelled)", id)
				}
				senc, err := cenc.ParseSenc(pl, p.Tenc.PerSampleIVSize, piff)
				if err != nil {
					return nil, "", err
				}
				if int(senc.Count) != len(ss) {
					return nil, "", fmt.Errorf("track %d: senc has %d entries for %d samples", id, senc.Count, len(ss))
				}
				for i, s := range ss {
					data := file[s.Off : s.Off+int(s.Size)]
					e := senc.Entries[i]
					var ranges []cenc.Range
					if e.HasSub {
						ranges = []cenc.Range{}
						pos := 0
						for _, sub := range e.Sub {
							pos += int(sub.Clear)
							if sub.Protected > 0 {
								ranges = append(ranges, cenc.Range{Off: pos, Len: int(sub.Protected)})
							}
							pos += int(sub.Protected)
						}
						if pos > len(data) {
							return nil, "", fmt.Errorf("track %d sample %d: sub-samples exceed the sample", id, i)
						}
					}
					iv := e.IV
					if len(iv) == 0 {
						iv = p.Tenc.ConstantIV
					}
					var want []byte
					switch scheme {
					case "cenc":
						want, _, err = cenc.CTR(key, iv, data, ranges)
					case "cbcs":
						want, err = cenc.CBCS(key, iv, data, ranges, p.Tenc.CryptByteBlock, p.Tenc.SkipByteBlock, true)
					default:
						err = fmt.Errorf("scheme %q", scheme)
					}
					if err != nil {
						return nil, "", err
					}
					row[i].Want = want
				}
			} else {
				for i, s := range ss {
					row[i].Want = append([]byte(nil), file[s.Off:s.Off+int(s.Size)]...)
				}
			}
			out[id] = append(out[id], row)
		}
	}
	return out, schemes, nil
}

func runThirdParty(c *runner.Ctx, it tpItem) {
	spec := cencgen.ThirdParty[it.Spec]
	init, media, err := cencgen.LoadThirdParty(c.Env.RepoDir, spec)
	if err != nil {
		c.Inconclusive("third-party file unreadable: " + spec.Name)
		return
	}
	key, _ := hex.DecodeString(spec.KeyHex)
	switch it.Key {
	case "wrong":
		key = c.Rand.Bytes(16)
	case "zero":
		key = make([]byte, 16)
	}
	pre := "thirdparty/" + spec.Name
	viol := func(clause, what string) {
		c.Violation(pre+"/"+clause, what, map[string]interface{}{"file": spec.Media, "init": spec.Init, "key": hex.EncodeToString(key), "key_kind": it.Key, "path": it.Path})
	}
	c.Seen("thirdparty", spec.Name+"/"+it.Key+"/"+it.Path)
	model, schemes, err := tpModel(init, media, key)
	if err != nil {
		c.Inconclusive("reference model cannot read third-party file " + spec.Name + ": " + errClass(err))
		return
	}
	separate := init != nil
	var decInit, decMedia []byte
	switch it.Path {
	case "tool":
		tools := &cencgen.Tools{BinDir: c.Env.BinDir + "/tools", Scratch: c.Env.Scratch}
		if !tools.Available() {
			c.Count("tool_binaries_missing", 1)
			return
		}
		decMedia, err = tools.Decrypt(init, media, hex.EncodeToString(key))
	default:
		o := cencgen.LibOpt{Separate: separate}
		switch it.Path {
		case "lib-sr-boxtree":
			o.SliceReader, o.BoxTree = true, true
		case "lib-sr-segment":
			o.SliceReader = true
		}
		if pi := c.Guard(func() { decInit, decMedia, err = cencgen.DecryptLib(init, media, key, o) }); pi != nil {
			viol("decrypt-panic/"+pi.TopFrame+"/"+pi.Class, "panic while decrypting: "+pi.Value+"\n"+firstLines(pi.Stack, 14))
			return
		}
	}
	if err != nil && it.Path == "tool" && !isToolError(err) {
		c.Inconclusive("tool binary could not be started or its files not written (harness environment)")
		return
	}
	if err != nil {
		viol("decrypt-error/"+errClass(err), "decrypting third-party content that decodes failed: "+err.Error())
		return
	}
	c.Count("thirdparty_decryptions", 1)
	// read the output
	trexSrc := decMedia
	if separate {
		trexSrc = decInit
		if trexSrc == nil {
			trexSrc = init
		}
	}
	var trex map[uint32]*cenc.Trex
	if n, err := boxwalk.Walk(trexSrc); err == nil {
		trex, _ = cenc.TrexMap(trexSrc, n)
	}
	on, err := boxwalk.Walk(decMedia)
	if err != nil {
		viol("output-does-not-tile", err.Error())
		return
	}
	got := map[uint32][][]cenc.Sample{}
	for _, m := range on {
		if m.Type != "moof" {
			continue
		}
		trs, err := cenc.LocateFragment(decMedia, m, trex)
		if err != nil {
			viol("samples/unreadable", err.Error())
			return
		}
		for _, tr := range trs {
			got[tr.Tfhd.TrackID] = append(got[tr.Tfhd.TrackID], tr.Samples())
		}
	}
	var evals int64
	for id, frs := range model {
		if len(got[id]) != len(frs) {
			viol("samples/fragment-count", fmt.Sprintf("track %d: %d fragments before, %d after decryption", id, len(frs), len(got[id])))
			return
		}
		for fi, row := range frs {
			g := got[id][fi]
			if len(g) != len(row) {
				viol("samples/count", fmt.Sprintf("track %d fragment %d: %d samples before, %d after decryption", id, fi, len(row), len(g)))
				return
			}
			for i, w := range row {
				evals++
				s := g[i]
				if s.Size != w.Size || s.Dur != w.Dur || s.Cto != w.Cto || s.DecodeTime != w.DT {
					viol("samples/metadata", fmt.Sprintf("track %d fragment %d sample %d: before size %d dur %d cto %d dts %d, after size %d dur %d cto %d dts %d",
						id, fi, i, w.Size, w.Dur, w.Cto, w.DT, s.Size, s.Dur, s.Cto, s.DecodeTime))
					return
				}
				if b := decMedia[s.Off : s.Off+int(s.Size)]; !bytes.Equal(b, w.Want) {
					viol("samples/bytes-vs-reference", fmt.Sprintf("track %d fragment %d sample %d: decrypted bytes differ from the reference cipher's decryption with the same key (got %x want %x)",
						id, fi, i, clip(b), clip(w.Want)))
					return
				}
			}
		}
	}
	c.Evals(evals)
	c.Nontrivial(runner.HashStr("thirdparty", spec.Name, it.Key, it.Path))
	if c.WantSample() {
		c.Sample(map[string]interface{}{"thirdparty": spec.Name, "schemes": schemes, "key_kind": it.Key, "path": it.Path, "samples_compared": evals})
	}
}
