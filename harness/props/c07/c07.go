// Package c07 decides property C07: the *encoded encrypted file* produced by
// mp4ff (library call protocol and the mp4ff-encrypt binary) is read with the
// independent readers of ref/cenc + ref/boxwalk only and checked against the
// generator's ground truth (NAL boundaries, types, slice-header lengths) and
// the reference AES-CTR / AES-CBC-pattern ciphers.
package c07

import (
	"bytes"
	"encoding/hex"
	"fmt"
	"github.com/Eyevinn/mp4ff/mp4"
	"strings"

	"verifharness/gen/cencgen"
	"verifharness/ref/boxwalk"
	"verifharness/ref/cenc"
	"verifharness/runner"
)

var (
	plan  []cencgen.Item
	reals []*cencgen.Case
)

func nRandom(env *runner.Env) int {
	if env.Tier == "thorough" {
		return 250000
	}
	return 6000
}

func setup(env *runner.Env) error {
	plan = cencgen.Plan(nRandom(env))
	reals = make([]*cencgen.Case, len(cencgen.RealSpecs))
	for i, s := range cencgen.RealSpecs {
		c, err := cencgen.LoadReal(env.RepoDir, s)
		if err != nil {
			return fmt.Errorf("real stream %s: %v", s.Name, err)
		}
		reals[i] = c
	}
	return nil
}

func init() {
	runner.Register(&runner.Prop{
		ID: "C07",
		Rule: "One case = one clear single-track CMAF input (own generator: AVC avc1/avc3, HEVC hvc1/hev1 with SPS/PPS/slice headers from the harness' serializer so that the slice-header byte length is ground truth, pps id != sps id, decoy SPS, CABAC/CAVLC, varying frame_num/poc widths, IDR/non-IDR, emulation prevention inside headers; half of the generated cases switch the HEVC reference-picture shapes on (extra PRNG stream, the other draws stay as they are): B, P and I slices, explicitly coded short-term sets in the SPS (0..5) and in the slice header with used-by-curr counts before/after the current picture (1,0) (0,1) (2,1) (1,3) (1,1) (2,0) (0,2) (2,2) (3,1) (0,0) (1,2) (3,0) (0,3) (4,1) plus unused pictures, long-term pictures from the SPS (lt_idx_sps) and from the slice header, PPS lists_modification_present_flag with ref_pic_lists_modification( ) absent (NumPicTotalCurr 0/1) or present with flag_l0/l1 and list_entry_lX of 1..4 bits, num_ref_idx overrides up to 8 entries, mvd_l1_zero, collocated_from_l0, weighted bi-prediction tables; never inter RPS prediction; AAC/AC-3 audio sizes 0..4095 covering every residue mod 16; " +
			"VCL NAL sizes 5..15, 16, 17..91, 92..130, 131..999, ~1k, ~70k; non-VCL NAL > 65535 bytes; 1..4 fragments, optional uuid/unknown/free/pssh boxes in moof/traf) x one configuration (scheme cenc|cbcs, key random|zero|ff, IV 8|16 bytes incl. low-64-bit and 128-bit wrap), " +
			"encrypted through InitProtect/EncryptFragment/Encode (reader or slice reader, combined or separate init, ExtractInitProtectData) or through the mp4ff-encrypt binary (combined or -init). Pinned cases first (88): clear runs of exactly 65534..65537, 131069..131072, 196605/196606 bytes, samples with 39/40/42/43 protected NAL units, senc layouts that also tile with a wrong IV size, the repo's 7 real clear streams x scheme x IV length (slice-header clause not evaluated for those); then 6000 (quick) / 250000 (thorough) random cases. " +
			"A case is non-trivial when the encryption succeeded and at least one sample has >= 2 sub-sample entries or a protected part that is not a multiple of 16 bytes; distinct_nontrivial counts distinct (clear file, configuration) hashes; evaluations counts samples checked.",
		Assumptions: []string{
			"reference ciphers (ref/cenc) use crypto/aes only for the 16-byte block function; they are cross-checked against NIST SP 800-38A vectors in ref/cenc tests",
			"AES-CTR counter is incremented as a 128-bit big-endian number (the library always writes 16-byte per-sample IVs)",
			"slice header length = number of NAL bytes (NAL header and emulation prevention bytes included) that hold slice-header bits; when an emulation prevention byte sits exactly between header and slice data both positions are accepted",
			"a refusal to encrypt (error) is outside C07 (nothing was encrypted); it is counted and left to C06",
			"HEVC ground truth: every generated SPS, PPS and slice segment header is also serialized from the same values by the independent ref/h265 encoder; both must give the same bits, the same header length and the same NumPicTotalCurr, otherwise the case is inconclusive (generator_selfcheck_failed), never a violation",
		},
		Setup:      setup,
		NumCases:   func(env *runner.Env) int { return len(cencgen.Plan(nRandom(env))) },
		Run:        run,
		CaseCPUSec: 120,
		Finalize: func(a *runner.Agg) {
			if a.Counters["encrypted_files"] == 0 {
				a.Nothing = "no file was encrypted successfully"
			}
			tool := int64(0)
			for k, v := range a.Seen["path"] {
				if strings.HasPrefix(k, "tool") {
					tool += v
				}
			}
			if tool == 0 {
				a.Note("the mp4ff-encrypt binary was never run (binaries missing?)")
			}
			if a.Counters["cbcs_start_evaluated"] == 0 {
				a.Note("no cbcs slice-header start was compared with the generator's ground truth")
			}
			for _, want := range []string{"type=B", "type=P", "long-term=", "lists-modification=present", "lists-modification=absent/NumPicTotalCurr:1",
				"used-by-curr=s0:1,s1:0,lt:0", "used-by-curr=s0:0,s1:1,lt:0", "used-by-curr=s0:2,s1:1,lt:0", "used-by-curr=s0:1,s1:3,lt:0"} {
				n := int64(0)
				for k, v := range a.Seen["cbcs_hevc_slice_header"] {
					if strings.HasPrefix(k, want) {
						n += v
					}
				}
				if n == 0 {
					a.Note("no cbcs slice-header start was evaluated for an HEVC slice segment header with %s", want)
				}
			}
			if len(a.Seen["nonvcl_over_65535"]) == 0 {
				a.Note("no non-VCL NAL unit > 65535 bytes was seen in an encrypted sample")
			}
			for _, cl := range []string{"<16", "16", "17..91", "92..107", "108..127", "128..130", "131..999", "1000..65535", ">65535"} {
				if a.Seen["vcl_size_class"][cl+"/protected"]+a.Seen["vcl_size_class"][cl+"/clear"] == 0 {
					a.Note("VCL NAL size class %s never observed", cl)
				}
			}
			if n := a.Counters["encrypt_rejected_generated_sample_not_understood"]; n > 0 {
				a.Note("%d generated video inputs were refused because the library could not determine the protected ranges of a generated sample (slice header not understood?); outside C07 since nothing was encrypted, see encrypt_error", n)
			}
			if a.Counters["encrypt_rejected"]*4 > a.Counters["encrypted_files"] {
				a.Note("%d of %d inputs were refused by the encryptor (see encrypt_error)", a.Counters["encrypt_rejected"], a.Counters["encrypt_rejected"]+a.Counters["encrypted_files"])
			}
		},
	})
}

func fam(codec string) string {
	switch codec {
	case "avc1", "avc3":
		return "avc"
	case "hvc1", "hev1":
		return "hevc"
	}
	return "audio"
}

func errClass(err error) string {
	s := err.Error()
	if te, ok := err.(*cencgen.ToolError); ok {
		s = te.Tool + ": " + strings.TrimSpace(te.Stderr)
		if i := strings.Index(s, "Usage of"); i > 0 {
			s = s[:i]
		}
	}
	if se, ok := err.(*cencgen.StageError); ok {
		s = se.Stage + ": " + se.Err.Error()
	}
	// drop numbers so that the class is stable
	var b strings.Builder
	for _, r := range s {
		if r >= '0' && r <= '9' {
			continue
		}
		b.WriteRune(r)
	}
	s = b.String()
	if len(s) > 90 {
		s = s[:90]
	}
	return s
}

type ctx struct {
	c          *runner.Ctx
	cs         *cencgen.Case
	cfg        cencgen.Config
	path       string
	pre        string // key prefix scheme/family
	evals      int64
	nontrivial bool
}

func (x *ctx) viol(clause, sub, what string) {
	key := x.pre + "/" + clause + "/" + sub
	det := map[string]interface{}{
		"case": x.cs.Name, "codec": x.cs.Codec, "traits": x.cs.Traits, "path": x.path,
		"scheme": x.cfg.Scheme, "key": x.cfg.KeyHex(), "iv": x.cfg.IVHex(), "kid": x.cfg.KIDHex(), "pssh": x.cfg.Pssh,
	}
	if x.cs.Kind == "gen" && len(x.cs.File()) <= 24000 {
		det["clear_file_hex"] = hex.EncodeToString(x.cs.File())
	}
	x.c.Violation(key, what, det)
}

var recycledKey [32]byte

func run(c *runner.Ctx, idx int) {
	it := plan[idx]
	if it.Kind != "real" {
		// half of the generated cases get the HEVC reference-picture shapes (they only change HEVC tracks);
		// what they add is drawn from a stream of its own, the draws of the other shapes stay as they were
		xr := runner.NewRand(uint64(c.Env.Seed), runner.HashStr("C07/hevc-refpic-shapes"), uint64(idx))
		if xr.Bool() {
			it.Shape.RefPics = xr
		}
	}
	cs, cfg, err := cencgen.Build(c.Rand, it, reals)
	if err != nil {
		c.Inconclusive("generator: " + errClass(err))
		return
	}
	if cs.SelfCheck != "" {
		// the two independent HEVC serializers (gen/cencgen, ref/h265) disagree: no ground truth for this case
		c.Seen("generator_selfcheck_failed", errClass(fmt.Errorf("%s", cs.SelfCheck)))
		c.Inconclusive("generator self-check: gen/cencgen and ref/h265 disagree on the HEVC syntax of this case")
		return
	}
	c.Seen("item_kind", it.Kind)
	c.Seen("codec", cs.Codec)
	c.Seen("scheme", cfg.Scheme)
	c.Seen("key_kind", cfg.KeyKind)
	c.Seen("iv_kind", cfg.IVKind)
	for _, t := range cs.Traits {
		c.Seen("trait", t)
	}
	// the key reaches the library in a buffer the harness recycles from case to case (a key store
	// handing out one scratch slice): the library may not remember the slice itself
	if len(cfg.Key) <= len(recycledKey) {
		// first another key through the same buffer (so that a single replayed case has a predecessor too)
		for i := range recycledKey {
			recycledKey[i] = 0x11 + byte(i)
		}
		scratch := make([]byte, 48)
		_ = c.Guard(func() { _ = mp4.CryptSampleCenc(scratch, recycledKey[:16:16], make([]byte, 16), nil) })
		copy(recycledKey[:], cfg.Key)
		cfg.Key = recycledKey[:len(cfg.Key):len(cfg.Key)]
		c.Count("keys_passed_in_recycled_buffer", 1)
	}
	x := &ctx{c: c, cs: cs, cfg: cfg, pre: cfg.Scheme + "/" + fam(cs.Codec)}

	// choose the path
	opt := cencgen.LibOpt{SliceReader: c.Rand.Bool()}
	separate := cs.Kind == "gen" || cencgen.RealSpecs[it.Real].Init != ""
	separate = separate && c.Rand.Chance(1, 3)
	if it.Kind == "iv-guess" {
		separate = true
	}
	opt.Separate = separate
	opt.Extract = separate && c.Rand.Bool()
	useTool := c.Rand.Chance(1, 6)
	tools := &cencgen.Tools{BinDir: c.Env.BinDir + "/tools", Scratch: c.Env.Scratch}
	if useTool && !tools.Available() {
		useTool = false
		c.Count("tool_binaries_missing", 1)
	}
	var enc *cencgen.EncOut
	if useTool {
		x.path = "tool"
		if separate {
			x.path = "tool+separate-init"
		}
		opt = cencgen.LibOpt{Separate: separate} // baseline as the tool encodes: reader, segment mode
		enc, err = tools.Encrypt(cs, cfg, separate)
	} else {
		x.path = "lib/" + opt.String()
		pi := c.Guard(func() { enc, err = cencgen.EncryptLib(cs, cfg, opt) })
		if pi != nil {
			// a crash while encrypting is C06's finding (nothing was produced); counted here
			c.Count("encrypt_panicked", 1)
			c.Seen("encrypt_panic", pi.TopFrame+"/"+pi.Class)
			return
		}
	}
	c.Seen("path", x.path)
	if _, isTool := err.(*cencgen.ToolError); err != nil && useTool && !isTool {
		c.Inconclusive("tool binary could not be started or its files not written (harness environment)")
		return
	}
	if err != nil {
		c.Count("encrypt_rejected", 1)
		c.Seen("encrypt_error", x.pre+": "+errClass(err))
		if cs.Kind == "gen" && cs.Media == "video" && strings.Contains(err.Error(), "get protect ranges") {
			// the library could not walk a sample whose NAL layout and slice headers are the generator's own
			// (and, for HEVC, confirmed by ref/h265): still a refusal, not a C07 violation, but worth a note
			c.Count("encrypt_rejected_generated_sample_not_understood", 1)
		}
		return
	}
	c.Count("encrypted_files", 1)

	// baseline: the clear input after one plain decode->encode cycle in the same mode
	var base []byte
	bopt := cencgen.LibOpt{SliceReader: opt.SliceReader}
	if !separate {
		base, err = cencgen.Reencode(cs.File(), bopt)
	} else {
		var bi []byte
		bi, err = cencgen.Reencode(cs.Init, bopt)
		base = append(base, bi...)
		for _, s := range cs.Segs {
			if err != nil {
				break
			}
			var bs []byte
			bs, err = cencgen.Reencode(s, bopt)
			base = append(base, bs...)
		}
	}
	if err != nil {
		c.Inconclusive("baseline re-encode of the clear input failed: " + errClass(err))
		return
	}
	x.check(base, enc.File())
	c.Evals(x.evals)
	if x.nontrivial {
		c.Nontrivial(runner.Hash64(cs.File(), cfg.Key, cfg.IV, []byte(cfg.Scheme)))
	}
	if c.WantSample() && x.nontrivial {
		c.Sample(map[string]interface{}{"case": cs.Name, "codec": cs.Codec, "traits": cs.Traits, "scheme": cfg.Scheme, "iv": cfg.IVHex(), "key_kind": cfg.KeyKind,
			"path": x.path, "fragments": len(cs.Frags), "clear_bytes": len(cs.File()), "encrypted_bytes": len(enc.File())})
	}
}

// check runs the five clause groups on the encoded encrypted file.
func (x *ctx) check(base, enc []byte) {
	c, cs, cfg := x.c, x.cs, x.cfg
	bn, err := boxwalk.Walk(base)
	if err != nil {
		c.Inconclusive("reference walker cannot tile the clear baseline")
		return
	}
	en, err := boxwalk.Walk(enc)
	if err != nil {
		x.viol("c5", "encrypted-file-does-not-tile", fmt.Sprintf("the encrypted file is not a sequence of well-formed boxes: %v", err))
		return
	}
	// ---- init: tenc / schm / frma (clause 3) ----
	prots, err := cenc.TrackProtections(enc, en)
	if err != nil || len(prots) != 1 {
		x.viol("c3", "protection-info-unreadable", fmt.Sprintf("cannot read the protection scheme information of the encrypted init: %v (tracks %d)", err, len(prots)))
		return
	}
	p := prots[0]
	wantEntry := "encv"
	if cs.Media == "audio" {
		wantEntry = "enca"
	}
	if p.EntryType != wantEntry || p.Sinf == nil {
		x.viol("c3", "sample-entry", fmt.Sprintf("sample entry of the encrypted init is %q (sinf present: %v), want %s with sinf", p.EntryType, p.Sinf != nil, wantEntry))
		return
	}
	if p.Frma != cs.Codec {
		x.viol("c3", "frma", fmt.Sprintf("frma.data_format = %q, original sample entry type %q", p.Frma, cs.Codec))
	}
	if p.Schm == nil || p.Schm.SchemeType != cfg.Scheme || p.Schm.SchemeVersion != 0x00010000 || p.Schm.Flags != 0 {
		x.viol("c3", "schm", fmt.Sprintf("schm = %+v, want scheme_type %s version 0x00010000", p.Schm, cfg.Scheme))
	}
	iv16, _ := cenc.IV16(cfg.IV)
	t := p.Tenc
	if t == nil || p.PiffTenc {
		x.viol("c3", "tenc-missing", "no tenc box under sinf/schi")
		return
	}
	{
		var bad []string
		if t.IsProtected != 1 {
			bad = append(bad, fmt.Sprintf("default_isProtected=%d", t.IsProtected))
		}
		if !bytes.Equal(t.KID, cfg.KID) {
			bad = append(bad, fmt.Sprintf("default_KID=%x want %x", t.KID, cfg.KID))
		}
		if t.Reserved != 0 {
			bad = append(bad, "reserved bits set")
		}
		switch cfg.Scheme {
		case "cenc":
			if t.PerSampleIVSize != 8 && t.PerSampleIVSize != 16 {
				bad = append(bad, fmt.Sprintf("default_Per_Sample_IV_Size=%d", t.PerSampleIVSize))
			}
			if t.CryptByteBlock != 0 || t.SkipByteBlock != 0 {
				bad = append(bad, fmt.Sprintf("pattern %d:%d on cenc", t.CryptByteBlock, t.SkipByteBlock))
			}
		case "cbcs":
			wc, ws := 1, 9
			if cs.Media == "audio" {
				wc, ws = 0, 0
			}
			if t.Version < 1 {
				bad = append(bad, "version 0 cannot carry a pattern")
			}
			if t.CryptByteBlock != wc || t.SkipByteBlock != ws {
				bad = append(bad, fmt.Sprintf("pattern %d:%d want %d:%d", t.CryptByteBlock, t.SkipByteBlock, wc, ws))
			}
			if t.PerSampleIVSize != 0 {
				bad = append(bad, fmt.Sprintf("default_Per_Sample_IV_Size=%d want 0 (constant IV)", t.PerSampleIVSize))
			}
			civ, e := cenc.IV16(t.ConstantIV)
			if e != nil || !bytes.Equal(civ, iv16) {
				bad = append(bad, fmt.Sprintf("default_constant_IV=%x want %x", t.ConstantIV, cfg.IV))
			}
		}
		if len(bad) > 0 {
			x.viol("c3", "tenc", "tenc content: "+strings.Join(bad, "; "))
		}
	}
	// ---- fragments ----
	var bmoofs, emoofs []*boxwalk.Node
	for _, n := range bn {
		if n.Type == "moof" {
			bmoofs = append(bmoofs, n)
		}
	}
	for _, n := range en {
		if n.Type == "moof" {
			emoofs = append(emoofs, n)
		}
	}
	if len(bmoofs) != len(cs.Frags) {
		c.Inconclusive("clear baseline does not have the generated number of fragments")
		return
	}
	if len(emoofs) != len(bmoofs) {
		x.viol("c5", "fragment-count", fmt.Sprintf("%d moof boxes in the encrypted file, %d in the clear input", len(emoofs), len(bmoofs)))
		return
	}
	// top-level boxes other than moov/moof/mdat are untouched
	x.compareTop(base, bn, enc, en)
	btrex, err1 := cenc.TrexMap(base, bn)
	etrex, err2 := cenc.TrexMap(enc, en)
	if err1 != nil || err2 != nil {
		c.Inconclusive("trex unreadable")
		return
	}
	for fi := range bmoofs {
		x.checkFragment(fi, base, bmoofs[fi], mdatAfter(bn, bmoofs[fi]), btrex, enc, emoofs[fi], mdatAfter(en, emoofs[fi]), etrex, t, iv16)
	}
}

// mdatAfter returns the first mdat that follows moof at top level before the next moof.
func mdatAfter(top []*boxwalk.Node, moof *boxwalk.Node) *boxwalk.Node {
	seen := false
	for _, n := range top {
		if n == moof {
			seen = true
			continue
		}
		if !seen {
			continue
		}
		if n.Type == "mdat" {
			return n
		}
		if n.Type == "moof" {
			return nil
		}
	}
	return nil
}

func (x *ctx) compareTop(base []byte, bn []*boxwalk.Node, enc []byte, en []*boxwalk.Node) {
	var a, b [][]byte
	var an, bnm []string
	for _, n := range bn {
		if n.Type != "moov" && n.Type != "moof" && n.Type != "mdat" {
			a = append(a, n.Bytes(base))
			an = append(an, n.Type)
		}
	}
	for _, n := range en {
		if n.Type != "moov" && n.Type != "moof" && n.Type != "mdat" {
			b = append(b, n.Bytes(enc))
			bnm = append(bnm, n.Type)
		}
	}
	if strings.Join(an, " ") != strings.Join(bnm, " ") {
		x.viol("c5", "top-level-boxes", fmt.Sprintf("top-level boxes besides moov/moof/mdat: clear [%s], encrypted [%s]", strings.Join(an, " "), strings.Join(bnm, " ")))
		return
	}
	for i := range a {
		if !bytes.Equal(a[i], b[i]) {
			x.viol("c5", "top-level-box-bytes/"+an[i], fmt.Sprintf("top-level %s differs between clear and encrypted file", an[i]))
		}
	}
}

// maskedTrun returns the trun bytes with data_offset zeroed.
func maskedTrun(b []byte, n *boxwalk.Node) []byte {
	out := append([]byte(nil), n.Bytes(b)...)
	tr, err := cenc.ParseTrun(n.Payload(b))
	if err == nil && tr.HasDataOffset {
		p := n.HdrLen + tr.DataOffsetPos
		copy(out[p:p+4], []byte{0, 0, 0, 0})
	}
	return out
}

func (x *ctx) checkFragment(fi int, base []byte, bm, bmd *boxwalk.Node, btrex map[uint32]*cenc.Trex,
	enc []byte, em, emd *boxwalk.Node, etrex map[uint32]*cenc.Trex, tenc *cenc.Tenc, iv16 []byte) {
	c, cs, cfg := x.c, x.cs, x.cfg
	gt := cs.Frags[fi]
	btr, err := cenc.LocateFragment(base, bm, btrex)
	if err != nil || len(btr) != 1 {
		c.Inconclusive("clear baseline fragment unreadable by the reference reader")
		return
	}
	bs := btr[0].Samples()
	if len(bs) != len(gt.Samples) {
		c.Inconclusive("clear baseline does not hold the generated samples")
		return
	}
	for i, s := range bs {
		if !bytes.Equal(base[s.Off:s.Off+int(s.Size)], gt.Samples[i].Data) {
			c.Inconclusive("clear baseline does not hold the generated samples")
			return
		}
	}
	etr, err := cenc.LocateFragment(enc, em, etrex)
	if err != nil || len(etr) != 1 {
		x.viol("c5", "fragment-unreadable", fmt.Sprintf("fragment %d of the encrypted file: %v (trafs %d)", fi, err, len(etr)))
		return
	}
	es := etr[0].Samples()
	if len(es) != len(bs) {
		x.viol("c5", "sample-count", fmt.Sprintf("fragment %d: %d samples encrypted, %d clear", fi, len(es), len(bs)))
		return
	}
	// mdat: the sample data must sit in the mdat following the moof at the same relative position
	if bmd == nil || emd == nil {
		x.viol("c5", "mdat-missing", fmt.Sprintf("fragment %d: no mdat after moof", fi))
		return
	}
	if bmd.Size != emd.Size {
		x.viol("c5", "mdat-size", fmt.Sprintf("fragment %d: mdat %d bytes clear, %d bytes encrypted", fi, bmd.Size, emd.Size))
		return
	}
	for i := range es {
		if es[i].Size != bs[i].Size || es[i].Dur != bs[i].Dur || es[i].Flags != bs[i].Flags || es[i].Cto != bs[i].Cto || es[i].DecodeTime != bs[i].DecodeTime {
			x.viol("c5", "sample-metadata", fmt.Sprintf("fragment %d sample %d: clear %+v, encrypted %+v", fi, i, bs[i], es[i]))
			return
		}
		if es[i].Off-emd.Start != bs[i].Off-bmd.Start {
			x.viol("c5", "data-offset", fmt.Sprintf("fragment %d sample %d: data offset points %d bytes into mdat, the clear sample sits at %d", fi, i, es[i].Off-emd.Start, bs[i].Off-bmd.Start))
			return
		}
	}
	// ---- everything else in moof byte-identical (modulo saiz/saio/senc, data_offset, container sizes) ----
	etraf, btraf := etr[0].Node, btr[0].Node
	x.compareChildren(fi, "moof", base, bm.Children, enc, em.Children, nil)
	added := map[string]bool{"saiz": true, "saio": true, "senc": true}
	x.compareChildren(fi, "traf", base, btraf.Children, enc, etraf.Children, added)

	// ---- senc / saiz / saio ----
	sn, payload, payloadOff, piff := cenc.FindSenc(enc, etraf)
	if sn == nil || piff {
		x.viol("c3", "senc-missing", fmt.Sprintf("fragment %d: no senc box in the encrypted traf", fi))
		return
	}
	ivSize := tenc.PerSampleIVSize
	senc, err := cenc.ParseSenc(payload, ivSize, false)
	if err != nil {
		x.viol("c3", "senc-unreadable", fmt.Sprintf("fragment %d: senc does not parse with Per_Sample_IV_Size %d from tenc: %v", fi, ivSize, err))
		return
	}
	if int(senc.Count) != len(es) {
		x.viol("c3", "senc-sample-count", fmt.Sprintf("fragment %d: senc sample_count %d, trun has %d samples", fi, senc.Count, len(es)))
		return
	}
	zn, on := etraf.Child("saiz"), etraf.Child("saio")
	if zn == nil || on == nil {
		x.viol("c3", "saiz-saio-missing", fmt.Sprintf("fragment %d: saiz present %v, saio present %v", fi, zn != nil, on != nil))
	} else {
		saiz, err := cenc.ParseSaiz(zn.Payload(enc))
		if err != nil {
			x.viol("c3", "saiz-unreadable", fmt.Sprintf("fragment %d: %v", fi, err))
		} else {
			if int(saiz.Count) > len(es) {
				x.viol("c3", "saiz-sample-count", fmt.Sprintf("fragment %d: saiz sample_count %d > %d samples", fi, saiz.Count, len(es)))
			}
			for i := range senc.Entries {
				if saiz.Size(i) != senc.Entries[i].Len {
					nsub := len(senc.Entries[i].Sub)
					sub := "saiz-size"
					if senc.Entries[i].Len > 255 {
						sub = "saiz-size-over-255"
					}
					x.viol("c3", sub, fmt.Sprintf("fragment %d sample %d: saiz says %d bytes of auxiliary information, the senc entry written has %d bytes (IV %d + %d sub-sample entries)",
						fi, i, saiz.Size(i), senc.Entries[i].Len, len(senc.Entries[i].IV), nsub))
					break
				}
			}
			if saiz.Flags&1 != 0 && saiz.AuxType != cfg.Scheme && saiz.AuxType != "cenc" {
				x.viol("c3", "saiz-aux-type", fmt.Sprintf("saiz aux_info_type %q", saiz.AuxType))
			}
		}
		saio, err := cenc.ParseSaio(on.Payload(enc))
		if err != nil {
			x.viol("c3", "saio-unreadable", fmt.Sprintf("fragment %d: %v", fi, err))
		} else if len(saio.Offsets) != 1 {
			x.viol("c3", "saio-entry-count", fmt.Sprintf("fragment %d: saio has %d offsets", fi, len(saio.Offsets)))
		} else {
			want := payloadOff + senc.FirstOff - em.Start
			if saio.Offsets[0] != int64(want) {
				x.viol("c3", "saio-offset", fmt.Sprintf("fragment %d: moof start + saio.offset = moof+%d, the first per-sample entry in senc is at moof+%d", fi, saio.Offsets[0], want))
			}
		}
	}

	// ---- per sample: clauses 1, 2, 4, 5 ----
	type used struct {
		iv []byte
		n  uint64
	}
	var ctrs []used
	for i := range es {
		x.evals++
		clear := gt.Samples[i].Data
		got := enc[es[i].Off : es[i].Off+int(es[i].Size)]
		e := senc.Entries[i]
		// clause 1: partition
		ranges := []cenc.Range{} // protected ranges as written (non-nil: nil would mean "whole sample" to the reference ciphers)
		pos := 0
		ok := true
		if cs.Media == "audio" {
			if e.HasSub && len(e.Sub) > 0 {
				x.viol("c2", "audio-subsamples", fmt.Sprintf("fragment %d sample %d: audio sample with %d sub-sample entries", fi, i, len(e.Sub)))
				ok = false
			}
			ranges = []cenc.Range{{Off: 0, Len: len(clear)}}
		} else {
			if !e.HasSub {
				x.viol("c1", "video-without-subsamples", fmt.Sprintf("fragment %d sample %d: video sample without sub-sample entries", fi, i))
				ok = false
			}
			for _, s := range e.Sub {
				pos += int(s.Clear)
				if s.Protected > 0 {
					ranges = append(ranges, cenc.Range{Off: pos, Len: int(s.Protected)})
				}
				pos += int(s.Protected)
			}
			if ok && pos != len(clear) {
				sub := "sum"
				if len(clear) > 65535 {
					sub = "sum/sample>65535"
				}
				x.viol("c1", sub, fmt.Sprintf("fragment %d sample %d: sub-sample entries cover %d bytes, the sample has %d (entries %v)", fi, i, pos, len(clear), brief(e.Sub)))
				ok = false
			}
			if len(e.Sub) >= 2 {
				x.nontrivial = true
			}
		}
		if !ok {
			continue
		}
		// clause 2: classification against the ground-truth NAL layout
		if cs.Media == "video" {
			x.classify(fi, i, gt.Samples[i].NALs, ranges)
		}
		// clause 4 + 5
		var want []byte
		switch cfg.Scheme {
		case "cenc":
			if len(e.IV) != ivSize || ivSize == 0 {
				x.viol("c4", "iv-missing", fmt.Sprintf("fragment %d sample %d: per-sample IV of %d bytes", fi, i, len(e.IV)))
				continue
			}
			ivs, _ := cenc.IV16(e.IV)
			var nb int
			want, nb, err = cenc.CTR(cfg.Key, ivs, clear, ranges)
			if err != nil {
				c.Inconclusive("reference CTR: " + err.Error())
				continue
			}
			if i == 0 && !bytes.Equal(ivs, iv16) {
				x.viol("c4", "first-iv", fmt.Sprintf("fragment %d: IV of the first sample %x, configured IV %x", fi, e.IV, cfg.IV))
			}
			if len(ctrs) > 0 {
				prev := ctrs[len(ctrs)-1]
				if !bytes.Equal(cenc.Add128(prev.iv, prev.n), ivs) {
					x.viol("c4", "iv-advance", fmt.Sprintf("fragment %d sample %d: IV %x, previous IV %x used %d cipher blocks (expected %x)", fi, i, ivs, prev.iv, prev.n, cenc.Add128(prev.iv, prev.n)))
				}
			}
			ctrs = append(ctrs, used{ivs, uint64(nb)})
			total := 0
			for _, r := range ranges {
				total += r.Len
			}
			if total%16 != 0 {
				x.nontrivial = true
			}
		case "cbcs":
			if len(e.IV) != 0 {
				x.viol("c4", "cbcs-per-sample-iv", fmt.Sprintf("fragment %d sample %d: per-sample IV present in cbcs", fi, i))
				continue
			}
			crypt, skip := 1, 9
			if cs.Media == "audio" {
				crypt, skip = 0, 0
			}
			want, err = cenc.CBCS(cfg.Key, iv16, clear, ranges, crypt, skip, false)
			if err != nil {
				c.Inconclusive("reference CBCS: " + err.Error())
				continue
			}
			for _, r := range ranges {
				if r.Len%16 != 0 {
					x.nontrivial = true
				}
			}
		}
		if !bytes.Equal(got, want) {
			d := firstDiff(got, want)
			where := "clear"
			for _, r := range ranges {
				if d >= r.Off && d < r.Off+r.Len {
					where = "protected"
				}
			}
			x.viol("c5", "bytes-"+where, fmt.Sprintf("fragment %d sample %d (%d bytes, entries %v): first difference from the reference cipher output at byte %d (in a %s part): got %x want %x",
				fi, i, len(clear), brief(e.Sub), d, where, got[d:minInt(d+16, len(got))], want[d:minInt(d+16, len(want))]))
		}
	}
	// clause 4, literally: no counter block used twice inside the fragment
	if len(ctrs) <= 400 {
	outer:
		for a := 0; a < len(ctrs); a++ {
			for b := a + 1; b < len(ctrs); b++ {
				if ctrs[a].n == 0 || ctrs[b].n == 0 {
					continue
				}
				hi, lo := cenc.Sub128(ctrs[b].iv, ctrs[a].iv)
				hi2, lo2 := cenc.Sub128(ctrs[a].iv, ctrs[b].iv)
				if (hi == 0 && lo < ctrs[a].n) || (hi2 == 0 && lo2 < ctrs[b].n) {
					x.viol("c4", "counter-reuse", fmt.Sprintf("fragment %d: samples %d (IV %x, %d blocks) and %d (IV %x, %d blocks) share counter blocks", fi, a, ctrs[a].iv, ctrs[a].n, b, ctrs[b].iv, ctrs[b].n))
					break outer
				}
			}
		}
	}
}

func brief(s []cenc.SubSample) string {
	var b strings.Builder
	for i, e := range s {
		if i == 12 {
			fmt.Fprintf(&b, " ...(%d entries)", len(s))
			break
		}
		fmt.Fprintf(&b, " %d+%d", e.Clear, e.Protected)
	}
	return "[" + strings.TrimSpace(b.String()) + "]"
}

func firstDiff(a, b []byte) int {
	n := minInt(len(a), len(b))
	for i := 0; i < n; i++ {
		if a[i] != b[i] {
			return i
		}
	}
	return n
}

func minInt(a, b int) int {
	if a < b {
		return a
	}
	return b
}

// compareChildren: the children of a container in the encrypted file, minus
// the added protection boxes, are the clear children in order and byte for
// byte (trun with data_offset masked; nested traf compared separately).
func (x *ctx) compareChildren(fi int, where string, base []byte, bch []*boxwalk.Node, enc []byte, ech []*boxwalk.Node, added map[string]bool) {
	var keep []*boxwalk.Node
	for _, n := range ech {
		if !added[n.Type] {
			keep = append(keep, n)
		}
	}
	names := func(ns []*boxwalk.Node) string {
		var s []string
		for _, n := range ns {
			s = append(s, n.Type)
		}
		return strings.Join(s, " ")
	}
	if names(keep) != names(bch) {
		x.viol("c5", where+"-children", fmt.Sprintf("fragment %d: %s children clear [%s], encrypted [%s]", fi, where, names(bch), names(ech)))
		return
	}
	for i := range bch {
		if bch[i].Type == "traf" {
			continue
		}
		a, b := bch[i].Bytes(base), keep[i].Bytes(enc)
		if bch[i].Type == "trun" {
			a, b = maskedTrun(base, bch[i]), maskedTrun(enc, keep[i])
		}
		if !bytes.Equal(a, b) {
			x.viol("c5", where+"-child-bytes/"+boxClass(bch[i].Type), fmt.Sprintf("fragment %d: %s/%s differs: clear %x, encrypted %x", fi, where, bch[i].Type, clip(a), clip(b)))
		}
	}
}

func boxClass(t string) string {
	switch t {
	case "mfhd", "tfhd", "tfdt", "trun", "uuid", "free", "pssh":
		return t
	}
	return "other"
}

func clip(b []byte) []byte {
	if len(b) > 64 {
		return b[:64]
	}
	return b
}

func sizeClass(n int) string {
	switch {
	case n < 16:
		return "<16"
	case n == 16:
		return "16"
	case n <= 91:
		return "17..91"
	case n <= 107:
		return "92..107"
	case n <= 127:
		return "108..127"
	case n <= 130:
		return "128..130"
	case n <= 999:
		return "131..999"
	case n <= 65535:
		return "1000..65535"
	}
	return ">65535"
}

// classify checks clause 2 for one video sample: ranges are the protected
// ranges as written, nals the ground truth.
func (x *ctx) classify(fi, si int, nals []cencgen.NAL, ranges []cenc.Range) {
	hdr := 1
	if fam(x.cs.Codec) == "hevc" {
		hdr = 2
	}
	scheme := x.cfg.Scheme
	// cbcs ranges depend on the library's slice-header parse: the traits that can
	// explain a disagreement (pps id != sps id, decoy SPS) are part of those keys
	tk := ""
	if scheme == "cbcs" {
		tk = "/" + x.cs.TraitKey()
	}
	pos := 0
	for k, n := range nals {
		lenStart, payStart := pos, pos+4
		end := payStart + len(n.Data)
		pos = end
		var mine []cenc.Range
		for _, r := range ranges {
			if r.Off < end && r.Off+r.Len > lenStart {
				mine = append(mine, r)
			}
		}
		where := fmt.Sprintf("fragment %d sample %d NAL %d (type %d, %d bytes at %d)", fi, si, k, n.Type, len(n.Data), payStart)
		if !n.VCL {
			if len(n.Data) > 65535 {
				x.c.Seen("nonvcl_over_65535", "seen")
			}
			if len(mine) > 0 {
				x.viol("c2", "non-vcl-protected", fmt.Sprintf("%s: non-VCL NAL unit overlaps protected range %+v", where, mine[0]))
			}
			continue
		}
		if len(mine) == 0 {
			x.c.Seen("vcl_size_class", sizeClass(len(n.Data))+"/clear")
			if len(n.Data) > 127 {
				x.viol("c2", "vcl-over-127-unprotected"+tk, fmt.Sprintf("%s: VCL NAL unit longer than 127 bytes has no protected range", where))
			}
			continue
		}
		x.c.Seen("vcl_size_class", sizeClass(len(n.Data))+"/protected")
		if len(mine) > 1 {
			x.viol("c2", "vcl-multiple-ranges"+tk, fmt.Sprintf("%s: %d protected ranges touch the NAL unit", where, len(mine)))
			continue
		}
		r := mine[0]
		switch {
		case r.Off < payStart:
			x.viol("c2", "length-field-protected"+tk, fmt.Sprintf("%s: protected range %+v starts before the NAL payload (length field at %d)", where, r, lenStart))
			continue
		case r.Off < payStart+hdr:
			x.viol("c2", "nal-header-protected"+tk, fmt.Sprintf("%s: protected range %+v covers the NAL header", where, r))
			continue
		}
		if r.Off+r.Len != end {
			x.viol("c2", "protected-not-to-nal-end"+tk, fmt.Sprintf("%s: protected range %+v does not end at the NAL end %d", where, r, end))
			continue
		}
		startIn := r.Off - payStart
		switch scheme {
		case "cenc":
			if r.Len%16 != 0 {
				x.viol("c2", "cenc-not-whole-blocks", fmt.Sprintf("%s: protected range of %d bytes is not a multiple of 16", where, r.Len))
			}
			if startIn > 127 {
				x.viol("c2", "cenc-start-over-127", fmt.Sprintf("%s: protected range starts %d bytes into the NAL unit", where, startIn))
			}
		case "cbcs":
			if n.HdrMin == 0 {
				x.c.Count("cbcs_start_not_evaluated_real_stream", 1)
				continue
			}
			x.c.Count("cbcs_start_evaluated", 1)
			for _, tg := range n.Tags {
				x.c.Seen("cbcs_hevc_slice_header", tg)
			}
			if startIn < n.HdrMin || startIn > n.HdrMax {
				x.viol("c2", "cbcs-start-vs-slice-header"+tk, fmt.Sprintf("%s: protected range starts %d bytes into the NAL unit, the slice header is %d bytes long (NAL starts %x; header shape %v)", where, startIn, n.HdrMin, clip(n.Data)[:minInt(24, len(n.Data))], n.Tags))
			}
		}
	}
	// a protected range that lies in no NAL at all cannot exist (ranges are inside the sample and NALs tile it)
}
