package c01

// One-off proposal mode used to build /verif/c01_dontcare.json:
//
//	C01_SWEEP=/tmp/boxrt-sweep VERIF_SHARDS=4 /verif/run.sh C01 quick
//
// Every position (box type, version byte, payload offset, bit mask) that a
// round trip does not reproduce and that the current list does not explain is
// appended to $C01_SWEEP.<pid> as one JSON line instead of being reported as a
// violation. The proposals are then pruned BY HAND against ISO/IEC
// 14496-12/-15/23001-7: only reserved / pre_defined / matrix / pad fields go
// into the list; everything else is a finding.

import (
	"encoding/json"
	"fmt"
	"os"

	"verifharness/props/c01/work"
)

var sweepOut *os.File

func init() {
	if p := os.Getenv("C01_SWEEP"); p != "" {
		f, err := os.OpenFile(fmt.Sprintf("%s.%d", p, os.Getpid()), os.O_CREATE|os.O_WRONLY|os.O_APPEND, 0o644)
		if err == nil {
			sweepOut = f
		}
	}
}

type sweepLine struct {
	Kind string `json:"kind"`
	Type string `json:"type"`
	Ver  byte   `json:"ver"`
	Off  int    `json:"off"`
	Mask string `json:"mask"`
	Seed string `json:"seed"`
	Mut  string `json:"mut"`
	What string `json:"what,omitempty"`
}

func sweepRecord(s *cmp, in work.Input) {
	for _, l := range s.lost {
		b, _ := json.Marshal(sweepLine{Kind: l.Kind, Type: l.Type, Ver: l.Ver, Off: l.Off, Mask: fmt.Sprintf("%02x", l.Mask), Seed: in.Name, Mut: in.Desc, What: l.What})
		_, _ = sweepOut.Write(append(b, '\n'))
	}
}
