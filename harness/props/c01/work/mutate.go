package work

// mutate.go: API histories of the form "construct, observe, mutate through a
// public setter, encode". A box whose size depends on its kind (uuid sub
// type, senc/saiz flags, trun flags, tfdt version, ...) is built or decoded,
// read-only observers (Size, Info, SubType, Encode / EncodeSW into a
// discarded buffer) are applied to it or to its parent, then a public
// mutator changes the kind, and the resulting structure is handed to the
// usual clauses. Every member is rebuilt from its recipe string
// ("hist subj=... "); Struct.Twin is the same history without the observers.

import (
	"bytes"
	"encoding/base64"
	"encoding/hex"
	"fmt"
	"io"
	"strconv"
	"strings"

	"github.com/Eyevinn/mp4ff/bits"
	"github.com/Eyevinn/mp4ff/mp4"

	"verifharness/runner"
)

const histPrivateUUID = "00112233-4455-6677-8899-aabbccddeeff"

var (
	histUUIDKinds = []string{"tfxd0", "tfxd1", "tfrf0", "tfrf1", "senc", "unk0", "unk4", "unk100", "mssm"}
	histObservers = []string{"size", "info", "info2", "subtype", "encode", "encodesw"}
)

// generic subjects: name -> (ways to make, mutations)
var histSubjects = map[string][2][]string{
	"senc": {{"create0", "create2iv8", "create2iv16", "create2sub", "new1iv16", "decoded-parsed", "decoded-parsed-emptysubs"}, {"add-iv", "add-iv-sub", "add-iv,add-iv-sub", "add-iv-sub,add-iv-sub", "none"}},
	"vsen": {{"avc1", "hev1+btrt", "decoded"}, {"name-2byte", "name-3byte", "name-empty", "name-31", "none"}},
	"saiz": {{"new", "new+iv", "new+sub"}, {"add-iv", "add-sub", "add-iv,add-sub", "add-sub,add-iv"}},
	"trun": {{"create", "create+2", "decoded"}, {"add1", "add3", "addsamples", "setfirst", "rmfirst", "setfirst,add1", "add1,rmfirst"}},
	"tfdt": {{"small", "big", "decoded0", "decoded1"}, {"set-big", "set-small", "set-limit", "set-limit-1"}},
	"stsd": {{"new", "new+mp4a", "decoded"}, {"add-mp4a", "add-mp4a-btrt", "add-mp4a,add-mp4a-btrt", "add-wvtt"}},
	"emsg": {{"v0", "v1", "decoded0", "decoded1"}, {"ver-flip", "scheme-longer", "data-longer", "strings-empty", "ver-flip,data-longer"}},
	"ftyp": {{"create", "new", "decoded"}, {"add-brands", "add-none", "add-brands,add-brands"}},
	"styp": {{"create", "new"}, {"add-brands", "add-brands,add-brands"}},
	"stsc": {{"literal", "literal+1"}, {"add-entry", "add-entry,add-entry", "set-single"}},
	"ctts": {{"literal", "literal+2"}, {"add-counts", "add-counts,add-counts"}},
	"mdat": {{"empty", "data", "parts"}, {"set-lazy", "add-data", "set-data"}},
}

var histSubjectNames = []string{"vsen", "senc", "saiz", "trun", "tfdt", "stsd", "emsg", "ftyp", "styp", "stsc", "ctts", "mdat"}

func pickObs(r *runner.Rand) string {
	if r.Chance(1, 6) {
		return "none"
	}
	n := 1 + r.Intn(2)
	var o []string
	for i := 0; i < n; i++ {
		o = append(o, histObservers[r.Intn(len(histObservers))])
	}
	return strings.Join(o, "+")
}

// PickHistRecipe draws one member of the observe-then-mutate family. Two in
// three are UUIDBox histories (made as a literal / by NewTfxdBox, NewTfrfBox
// / decoded, of one kind; relabelled through SetUUID to another kind with the
// public field of that kind set), alone, inside udta, inside the traf of an
// API-built fragment, or inside a decoded file; the rest are other boxes with
// public mutators and kind-dependent sizes.
func PickHistRecipe(r *runner.Rand) string {
	on := r.PickStr("self", "self", "parent")
	if r.Chance(2, 3) {
		from := "empty"
		if !r.Chance(1, 8) {
			from = histUUIDKinds[r.Intn(len(histUUIDKinds))]
		}
		to := histUUIDKinds[r.Intn(len(histUUIDKinds))]
		return fmt.Sprintf("hist subj=uuid from=%s how=%s obs=%s on=%s to=%s fmt=%d clear=%d wrap=%s", from,
			r.PickStr("literal", "ctor", "decoded", "decoded"), pickObs(r), on, to, r.Intn(3), r.Intn(2),
			r.PickStr("box", "udta", "traf", "file-seg", "file-tree"))
	}
	subj := histSubjectNames[r.Intn(len(histSubjectNames))]
	t := histSubjects[subj]
	return fmt.Sprintf("hist subj=%s make=%s obs=%s on=%s mut=%s wrap=%s", subj, t[0][r.Intn(len(t[0]))], pickObs(r), on,
		t[1][r.Intn(len(t[1]))], r.PickStr("box", "box", "udta"))
}

// HistClass is a short class of a hist recipe for coverage sets (no values).
func HistClass(recipe string) string {
	fam, f := recipeFields(recipe)
	if fam != "hist" {
		return ""
	}
	obs := "observed"
	if f["obs"] == "none" || f["obs"] == "" {
		obs = "not-observed"
	}
	kind := func(k string) string {
		switch {
		case strings.HasPrefix(k, "unk"), k == "mssm":
			return "unknown"
		case len(k) > 4:
			return k[:4]
		}
		return k
	}
	if f["subj"] == "uuid" {
		return fmt.Sprintf("uuid %s:%s->%s %s %s", f["how"], kind(f["from"]), kind(f["to"]), f["wrap"], obs)
	}
	return fmt.Sprintf("%s %s %s %s", f["subj"], f["make"], f["mut"], obs)
}

// histObserve applies read-only calls whose results are thrown away.
func histObserve(x Encodable, obs string) {
	if x == nil || obs == "" || obs == "none" {
		return
	}
	for _, o := range strings.Split(obs, "+") {
		switch o {
		case "size":
			_ = x.Size()
		case "info":
			_ = x.Info(io.Discard, "all:1", "", "  ")
		case "info2":
			_ = x.Info(io.Discard, "", "", " ")
		case "subtype":
			if u, ok := x.(*mp4.UUIDBox); ok {
				_ = u.SubType()
			} else {
				_ = x.Size()
			}
		case "encode":
			_ = x.Encode(io.Discard)
		case "encodesw":
			sw := bits.NewFixedSliceWriter(int(minU64(x.Size(), 1<<20)) + 64)
			_ = x.EncodeSW(sw)
		}
	}
}

func histBytes(n, salt int) []byte {
	b := make([]byte, n)
	for i := range b {
		b[i] = byte(salt + 7*i)
	}
	return b
}

func histSubs(n int) []mp4.SubSamplePattern {
	var s []mp4.SubSamplePattern
	for i := 0; i < n; i++ {
		s = append(s, mp4.SubSamplePattern{BytesOfClearData: uint16(10 + i), BytesOfProtectedData: uint32(100 + i)})
	}
	return s
}

// histUUIDString gives the uuid string of a kind in one of the three formats SetUUID documents.
func histUUIDString(kind string, format int) string {
	s := histPrivateUUID
	switch {
	case strings.HasPrefix(kind, "tfxd"):
		s = mp4.UUIDTfxd
	case strings.HasPrefix(kind, "tfrf"):
		s = mp4.UUIDTfrf
	case kind == "senc":
		s = mp4.UUIDPiffSenc
	case kind == "mssm":
		s = "3c2fe51b-efee-40a3-ae81-5300199dc348"
	}
	plain := strings.ReplaceAll(s, "-", "")
	switch format {
	case 1:
		return plain
	case 2:
		raw, _ := hex.DecodeString(plain)
		return base64.StdEncoding.EncodeToString(raw)
	}
	return s
}

// histSetKind relabels u through SetUUID and sets the public field the new kind needs.
func histSetKind(u *mp4.UUIDBox, kind string, format int, clear bool) bool {
	if u.SetUUID(histUUIDString(kind, format)) != nil {
		return false
	}
	if clear {
		u.Tfxd, u.Tfrf, u.Senc, u.UnknownPayload = nil, nil, nil, nil
	}
	switch kind {
	case "tfxd0":
		u.Tfxd = &mp4.TfxdData{Version: 0, FragmentAbsoluteTime: 1_000_000, FragmentAbsoluteDuration: 20_000}
	case "tfxd1":
		u.Tfxd = &mp4.TfxdData{Version: 1, Flags: 1, FragmentAbsoluteTime: 1<<33 + 5, FragmentAbsoluteDuration: 20_000}
	case "tfrf0":
		u.Tfrf = &mp4.TfrfData{Version: 0, FragmentCount: 2, FragmentAbsoluteTimes: []uint64{1000, 2000}, FragmentAbsoluteDurations: []uint64{1000, 1000}}
	case "tfrf1":
		u.Tfrf = &mp4.TfrfData{Version: 1, FragmentCount: 3, FragmentAbsoluteTimes: []uint64{1 << 33, 1<<33 + 10, 1<<33 + 20}, FragmentAbsoluteDurations: []uint64{10, 10, 10}}
	case "senc":
		s := mp4.CreateSencBox()
		_ = s.AddSample(mp4.SencSample{IV: histBytes(8, 1), SubSamples: histSubs(1)})
		_ = s.AddSample(mp4.SencSample{IV: histBytes(8, 2), SubSamples: histSubs(2)})
		u.Senc = s
	case "unk0":
		u.UnknownPayload = []byte{}
	case "unk4":
		u.UnknownPayload = []byte{0xde, 0xad, 0xbe, 0xef}
	case "unk100", "mssm":
		u.UnknownPayload = histBytes(100, 3)
	default:
		return false
	}
	return true
}

// histRawUUID is a uuid box of the given kind written by hand.
func histRawUUID(kind string) []byte {
	id := func(k string) []byte {
		b, _ := hex.DecodeString(histUUIDString(k, 1))
		return b
	}
	switch kind {
	case "tfxd0":
		return rawBox("uuid", id(kind), rb32(0), rb32(90000), rb32(180000))
	case "tfxd1":
		return rawBox("uuid", id(kind), rb32(0x01000000), rb64(0x0105c649bda4), rb64(0x054600))
	case "tfrf0":
		return rawBox("uuid", id(kind), rb32(0), []byte{1}, rb32(5000), rb32(500))
	case "tfrf1":
		return rawBox("uuid", id(kind), rb32(0x01000000), []byte{2}, rb64(1<<34), rb64(500), rb64(1<<34+500), rb64(500))
	case "senc":
		return rawBox("uuid", id(kind), rb32(2), rb32(2), histBytes(8, 5), []byte{0, 1}, []byte{0, 16}, rb32(300), histBytes(8, 6), []byte{0, 1}, []byte{0, 12}, rb32(200))
	case "unk0":
		return rawBox("uuid", id(kind))
	case "unk4":
		return rawBox("uuid", id(kind), []byte{1, 2, 3, 4})
	case "unk100", "mssm":
		return rawBox("uuid", id(kind), histBytes(100, 9))
	}
	return nil
}

func histFragment(extra mp4.Box) *mp4.Fragment {
	fr, err := mp4.CreateFragment(7, 1)
	if err != nil {
		return nil
	}
	for i := 0; i < 2; i++ {
		fr.AddFullSample(mp4.FullSample{Sample: mp4.Sample{Flags: mp4.SyncSampleFlags, Dur: 1024, Size: 5}, DecodeTime: uint64(i) * 1024, Data: []byte{9, 8, 7, 6, byte(i)}})
	}
	if extra != nil {
		if fr.Moof.Traf.AddChild(extra) != nil {
			return nil
		}
	}
	return fr
}

func fromHistRecipe(c *runner.Ctx, recipe string, f map[string]string) []Struct {
	var build func(obs string) Encodable
	kind := "api/hist[" + f["subj"] + "," + f["wrap"] + "]"
	obs, onParent, wrap := f["obs"], f["on"] == "parent", f["wrap"]
	segMode := false
	if f["subj"] == "uuid" {
		from, how, to := f["from"], f["how"], f["to"]
		format, _ := strconv.Atoi(f["fmt"])
		clear := f["clear"] == "1"
		// a uuid box of kind `from` as the caller makes it
		mkAPI := func() *mp4.UUIDBox {
			switch {
			case from == "empty":
				return &mp4.UUIDBox{}
			case how == "ctor" && from == "tfxd0":
				return mp4.NewTfxdBox(1_000_000, 20_000)
			case how == "ctor" && from == "tfrf0":
				return mp4.NewTfrfBox(2, []uint64{1000, 2000}, []uint64{1000, 1000})
			}
			u := &mp4.UUIDBox{}
			if !histSetKind(u, from, 0, false) {
				return nil
			}
			return u
		}
		decoded := how == "decoded" && from != "empty"
		build = func(obs string) Encodable {
			var u *mp4.UUIDBox
			var parent Encodable
			switch wrap {
			case "box":
				if decoded {
					b, err := mp4.DecodeBox(0, bytes.NewReader(histRawUUID(from)))
					if err != nil {
						return nil
					}
					u, _ = b.(*mp4.UUIDBox)
				} else {
					u = mkAPI()
				}
				parent = u
			case "udta":
				if decoded {
					b, err := mp4.DecodeBox(0, bytes.NewReader(rawBox("udta", histRawUUID(from))))
					ud, ok := b.(*mp4.UdtaBox)
					if err != nil || !ok || len(ud.Children) != 1 {
						return nil
					}
					u, _ = ud.Children[0].(*mp4.UUIDBox)
					parent = ud
				} else {
					u = mkAPI()
					ud := &mp4.UdtaBox{}
					if u != nil {
						ud.AddChild(u)
					}
					parent = ud
				}
			case "traf":
				u = mkAPI()
				if u == nil {
					return nil
				}
				if from == "empty" { // an unlabelled box cannot sit in a fragment that is sized: label it first
					return nil
				}
				fr := histFragment(u)
				if fr == nil {
					return nil
				}
				parent = fr
			case "file-seg", "file-tree":
				// a fragment with a uuid child in its traf, written by hand (uuid) and by the API (the rest), decoded as a file
				if from == "empty" {
					return nil
				}
				fr := histFragment(nil)
				if fr == nil {
					return nil
				}
				var child mp4.Box
				if decoded {
					b, err := mp4.DecodeBox(0, bytes.NewReader(histRawUUID(from)))
					if err != nil {
						return nil
					}
					child = b
				} else {
					child = mkAPI()
				}
				if child == nil || fr.Moof.Traf.AddChild(child) != nil {
					return nil
				}
				var buf bytes.Buffer
				if fr.Encode(&buf) != nil {
					return nil
				}
				fl, err := mp4.DecodeFile(bytes.NewReader(buf.Bytes()))
				if err != nil || len(fl.Segments) != 1 || len(fl.Segments[0].Fragments) != 1 {
					return nil
				}
				for _, ch := range fl.Segments[0].Fragments[0].Moof.Traf.Children {
					if x, ok := ch.(*mp4.UUIDBox); ok {
						u = x
					}
				}
				if wrap == "file-tree" {
					fl.FragEncMode = mp4.EncModeBoxTree
				} else {
					fl.FragEncMode = mp4.EncModeSegment
				}
				parent = fl
			default:
				return nil
			}
			if u == nil || parent == nil {
				return nil
			}
			if onParent {
				histObserve(parent, obs)
			} else {
				histObserve(u, obs)
			}
			if !histSetKind(u, to, format, clear) {
				return nil
			}
			return parent
		}
		segMode = wrap == "file-seg"
	} else {
		mk, mut := f["make"], f["mut"]
		if _, ok := histSubjects[f["subj"]]; !ok {
			return nil
		}
		build = func(obs string) Encodable {
			b := histMake(f["subj"], mk)
			if b == nil {
				return nil
			}
			var parent Encodable = b
			if wrap == "udta" {
				ud := &mp4.UdtaBox{}
				ud.AddChild(b)
				parent = ud
			}
			if onParent {
				histObserve(parent, obs)
			} else {
				histObserve(b, obs)
			}
			for _, m := range strings.Split(mut, ",") {
				if !histMutate(b, m) {
					return nil
				}
			}
			return parent
		}
	}
	guarded := func(obs string) func() Encodable {
		return func() Encodable {
			var x Encodable
			if pi := c.Guard(func() { x = build(obs) }); pi != nil {
				c.Count("hist_recipe_panics_while_building(C04)", 1)
				return nil
			}
			return x
		}
	}
	s := Struct{Kind: kind, Recipe: recipe, Desc: recipe, SegMode: segMode, New: guarded(obs)}
	if obs != "none" && obs != "" {
		s.Twin = guarded("none")
	}
	return []Struct{s}
}

func histDecode(raw []byte) mp4.Box {
	b, err := mp4.DecodeBox(0, bytes.NewReader(raw))
	if err != nil {
		return nil
	}
	return b
}

func histAudioEntry(btrt bool) *mp4.AudioSampleEntryBox {
	a := mp4.CreateAudioSampleEntryBox("mp4a", 2, 16, 48000, mp4.CreateEsdsBox([]byte{0x11, 0x90}))
	if btrt {
		a.AddChild(&mp4.BtrtBox{BufferSizeDB: 6144, MaxBitrate: 128000, AvgBitrate: 96000})
	}
	return a
}

// histMake constructs the subject box (nil: not available).
func histMake(subj, mk string) mp4.Box {
	switch subj {
	case "senc":
		add := func(s *mp4.SencBox, iv, n, subs int) *mp4.SencBox {
			for i := 0; i < n; i++ {
				if s.AddSample(mp4.SencSample{IV: histBytes(iv, i), SubSamples: histSubs(subs)}) != nil {
					return nil
				}
			}
			return s
		}
		switch mk {
		case "create0":
			return mp4.CreateSencBox()
		case "create2iv8":
			return add(mp4.CreateSencBox(), 8, 2, 0)
		case "create2iv16":
			return add(mp4.CreateSencBox(), 16, 2, 0)
		case "create2sub":
			return add(mp4.CreateSencBox(), 8, 2, 2)
		case "new1iv16":
			return add(mp4.NewSencBox(4, 4), 16, 1, 1)
		case "decoded-parsed":
			b := histDecode(rawBox("senc", rb32(2), rb32(2), histBytes(8, 5), []byte{0, 1}, []byte{0, 16}, rb32(300), histBytes(8, 6), []byte{0, 1}, []byte{0, 12}, rb32(200)))
			s, ok := b.(*mp4.SencBox)
			if !ok || s.ParseReadBox(8, nil) != nil {
				return nil
			}
			return s
		case "decoded-parsed-emptysubs":
			// the subsample form with a subsample_count of 0 for every sample (whole samples protected)
			b := histDecode(rawBox("senc", rb32(2), rb32(2), histBytes(8, 5), []byte{0, 0}, histBytes(8, 6), []byte{0, 0}))
			s, ok := b.(*mp4.SencBox)
			if !ok || s.ParseReadBox(8, nil) != nil {
				return nil
			}
			return s
		}
	case "vsen":
		switch mk {
		case "avc1":
			return mp4.CreateVisualSampleEntryBox("avc1", 1280, 720, nil)
		case "hev1+btrt":
			return mp4.CreateVisualSampleEntryBox("hev1", 1920, 1080, &mp4.BtrtBox{BufferSizeDB: 1, MaxBitrate: 2, AvgBitrate: 3})
		case "decoded":
			v := mp4.CreateVisualSampleEntryBox("avc1", 640, 360, &mp4.PaspBox{HSpacing: 1, VSpacing: 1})
			var buf bytes.Buffer
			if v.Encode(&buf) != nil {
				return nil
			}
			return histDecode(buf.Bytes())
		}
	case "saiz":
		s := mp4.NewSaizBox(4)
		switch mk {
		case "new":
		case "new+iv":
			s.AddSampleInfo(histBytes(8, 1), nil)
		case "new+sub":
			s.AddSampleInfo(histBytes(8, 1), histSubs(2))
		default:
			return nil
		}
		return s
	case "trun":
		switch mk {
		case "create":
			t := mp4.CreateTrun(0)
			t.DataOffset = 120 // a trun on its own: its encoder wants the offset that Fragment.Encode would set
			return t
		case "create+2":
			t := mp4.CreateTrun(0)
			t.DataOffset = 120
			t.AddSample(mp4.Sample{Flags: mp4.SyncSampleFlags, Dur: 1024, Size: 100})
			t.AddSample(mp4.Sample{Flags: mp4.NonSyncSampleFlags, Dur: 1024, Size: 50, CompositionTimeOffset: -512})
			return t
		case "decoded":
			return histDecode(rawBox("trun", rb32(0x000301), rb32(2), rb32(120), rb32(1024), rb32(10), rb32(1024), rb32(11)))
		}
	case "tfdt":
		switch mk {
		case "small":
			return mp4.CreateTfdt(90000)
		case "big":
			return mp4.CreateTfdt(1<<32 + 90000)
		case "decoded0":
			return histDecode(rawBox("tfdt", rb32(0), rb32(90000)))
		case "decoded1":
			return histDecode(rawBox("tfdt", rb32(0x01000000), rb64(1<<33)))
		}
	case "stsd":
		switch mk {
		case "new":
			return mp4.NewStsdBox()
		case "new+mp4a":
			s := mp4.NewStsdBox()
			s.AddChild(histAudioEntry(false))
			return s
		case "decoded":
			s := mp4.NewStsdBox()
			s.AddChild(histAudioEntry(true))
			var buf bytes.Buffer
			if s.Encode(&buf) != nil {
				return nil
			}
			return histDecode(buf.Bytes())
		}
	case "emsg":
		e := &mp4.EmsgBox{TimeScale: 90000, PresentationTimeDelta: 45000, PresentationTime: 1<<32 + 45000, EventDuration: 90000, ID: 42,
			SchemeIDURI: "urn:mpeg:dash:event:2012", Value: "1", MessageData: histBytes(10, 4)}
		switch mk {
		case "v0":
			return e
		case "v1":
			e.Version = 1
			return e
		case "decoded0":
			return histDecode(rawBox("emsg", rb32(0), []byte("urn:a\x00"), []byte("v\x00"), rb32(90000), rb32(100), rb32(9000), rb32(5), []byte{1, 2, 3}))
		case "decoded1":
			return histDecode(rawBox("emsg", rb32(0x01000000), rb32(90000), rb64(1<<33), rb32(9000), rb32(5), []byte("urn:a\x00"), []byte("v\x00"), []byte{1, 2, 3}))
		}
	case "ftyp":
		switch mk {
		case "create":
			return mp4.CreateFtyp()
		case "new":
			return mp4.NewFtyp("iso6", 1, []string{"cmfc"})
		case "decoded":
			return histDecode(rawBox("ftyp", []byte("isom"), rb32(512), []byte("isomiso2")))
		}
	case "styp":
		switch mk {
		case "create":
			return mp4.CreateStyp()
		case "new":
			return mp4.NewStyp("msdh", 0, []string{"msdh", "msix"})
		}
	case "stsc":
		s := &mp4.StscBox{}
		if mk == "literal+1" {
			if s.AddEntry(1, 10, 1) != nil {
				return nil
			}
		}
		return s
	case "ctts":
		s := &mp4.CttsBox{}
		if mk == "literal+2" {
			if s.AddSampleCountsAndOffset([]uint32{2, 3}, []int32{1024, 0}) != nil {
				return nil
			}
		}
		return s
	case "mdat":
		m := &mp4.MdatBox{}
		switch mk {
		case "empty":
		case "data":
			m.AddSampleData(histBytes(33, 1))
		case "parts":
			m.AddSampleDataPart(histBytes(20, 1))
			m.AddSampleDataPart(histBytes(21, 2))
		default:
			return nil
		}
		return m
	}
	return nil
}

// histMutate applies one public mutator (false: not applicable).
func histMutate(b mp4.Box, m string) bool {
	if m == "none" {
		return true
	}
	switch x := b.(type) {
	case *mp4.VisualSampleEntryBox:
		switch m {
		case "name-2byte":
			x.CompressorName = "Kodierer f\u00fcr Video"
		case "name-3byte":
			x.CompressorName = "\u7f16\u7801\u5668 H.264"
		case "name-empty":
			x.CompressorName = ""
		case "name-31":
			x.CompressorName = strings.Repeat("n", 31)
		default:
			return false
		}
		return true
	case *mp4.SencBox:
		iv := x.GetPerSampleIVSize()
		if x.SampleCount == 0 {
			iv = 8
		}
		switch m {
		case "add-iv":
			return x.AddSample(mp4.SencSample{IV: histBytes(iv, 40)}) == nil
		case "add-iv-sub":
			return x.AddSample(mp4.SencSample{IV: histBytes(iv, 41), SubSamples: histSubs(3)}) == nil
		}
	case *mp4.SaizBox:
		switch m {
		case "add-iv":
			x.AddSampleInfo(histBytes(8, 2), nil)
			return true
		case "add-sub":
			x.AddSampleInfo(histBytes(8, 3), histSubs(3))
			return true
		}
	case *mp4.TrunBox:
		switch m {
		case "add1":
			x.AddSample(mp4.Sample{Flags: mp4.NonSyncSampleFlags, Dur: 1024, Size: 77})
			return true
		case "add3":
			for i := 0; i < 3; i++ {
				x.AddFullSample(&mp4.FullSample{Sample: mp4.Sample{Flags: mp4.NonSyncSampleFlags, Dur: 512, Size: uint32(20 + i)}})
			}
			return true
		case "addsamples":
			x.AddSamples([]mp4.Sample{{Dur: 1, Size: 2}, {Dur: 3, Size: 4}})
			return true
		case "setfirst":
			x.SetFirstSampleFlags(mp4.SyncSampleFlags)
			return true
		case "rmfirst":
			x.RemoveFirstSampleFlags()
			return true
		}
	case *mp4.TfdtBox:
		switch m {
		case "set-big":
			x.SetBaseMediaDecodeTime(1<<40 + 1)
		case "set-small":
			x.SetBaseMediaDecodeTime(1234)
		case "set-limit":
			x.SetBaseMediaDecodeTime(1 << 32)
		case "set-limit-1":
			x.SetBaseMediaDecodeTime(1<<32 - 1)
		default:
			return false
		}
		return true
	case *mp4.StsdBox:
		switch m {
		case "add-mp4a":
			x.AddChild(histAudioEntry(false))
		case "add-mp4a-btrt":
			x.AddChild(histAudioEntry(true))
		case "add-wvtt":
			x.AddChild(mp4.NewWvttBox())
		default:
			return false
		}
		return true
	case *mp4.EmsgBox:
		switch m {
		case "ver-flip":
			x.Version ^= 1
		case "scheme-longer":
			x.SchemeIDURI += "/extended/scheme/identifier"
		case "data-longer":
			x.MessageData = append(x.MessageData, histBytes(300, 8)...)
		case "strings-empty":
			x.SchemeIDURI, x.Value = "", ""
		default:
			return false
		}
		return true
	case *mp4.FtypBox:
		switch m {
		case "add-brands":
			x.AddCompatibleBrands([]string{"dash", "msdh"})
		case "add-none":
			x.AddCompatibleBrands(nil)
		default:
			return false
		}
		return true
	case *mp4.StypBox:
		if m == "add-brands" {
			x.AddCompatibleBrands([]string{"dash", "lmsg"})
			return true
		}
	case *mp4.StscBox:
		switch m {
		case "add-entry":
			n := uint32(len(x.Entries))
			return x.AddEntry(1+2*n, 5+n, 1+n%2) == nil
		case "set-single":
			x.SetSingleSampleDescriptionID(1)
			return true
		}
	case *mp4.CttsBox:
		if m == "add-counts" {
			return x.AddSampleCountsAndOffset([]uint32{1, 4}, []int32{-512, 512}) == nil
		}
	case *mp4.MdatBox:
		switch m {
		case "set-lazy":
			if len(x.Data) > 0 || len(x.DataParts) > 0 {
				return false // documented: no data in lazy mode
			}
			x.SetLazyDataSize(5000)
		case "add-data":
			if len(x.DataParts) > 0 {
				return false // the library refuses the mix
			}
			x.AddSampleData(histBytes(17, 5))
		case "set-data":
			x.SetData(histBytes(19, 6))
		default:
			return false
		}
		return true
	}
	return false
}
