package work

import (
	"bytes"
	"fmt"
	"strconv"
	"strings"

	"github.com/Eyevinn/mp4ff/mp4"

	genfrag "verifharness/gen/frag"
	"verifharness/runner"
)

// Struct is one structure of the C02/C03(a) domain together with a recipe
// to obtain a fresh, identical instance (encoding may legitimately change a
// structure: trun optimisation, data offsets), so that each observation
// starts from the same state.
type Struct struct {
	Kind     string // decoded/<path>[/segment-mode] | api/<type>
	Decoded  bool   // obtained from the decoder (else built through constructors)
	Optimize bool   // trun optimisation is on (Size() before the first encode may differ)
	SegMode  bool   // a fragmented File in EncModeSegment: Children is not the encoding order
	Input    []byte // decoded: the accepted byte string
	Desc     string
	Recipe   string           // api structures of the fixed codec-configuration family: the recipe FromRecipe rebuilds them from
	New      func() Encodable // fresh instance (nil result: could not be rebuilt)
	Twin     func() Encodable // optional (mutate.go): the same public history without its read-only observer calls (Size, Info, Encode to a discarded buffer)
}

// FromInput decodes in through every path and returns the resulting
// structures (files additionally in segment mode when fragmented).
func FromInput(c *runner.Ctx, in Input) []Struct {
	var out []Struct
	for _, path := range []string{PBox, PBoxSR, PFile, PFileSR} {
		path := path
		d := Decode(c, path, in.Data)
		if !d.OK {
			c.Count("rejected/"+path, 1)
			continue
		}
		c.Count("accepted/"+path, 1)
		x := in.Data[:d.Consumed]
		mk := func(seg bool) func() Encodable {
			return func() Encodable {
				dd := Decode(c, path, x)
				if !dd.OK {
					return nil
				}
				if dd.File != nil {
					if seg {
						dd.File.FragEncMode = mp4.EncModeSegment
					} else {
						SetLossless(dd.File)
					}
				}
				return dd.Obj()
			}
		}
		out = append(out, Struct{Kind: "decoded/" + path, Decoded: true, Input: x, Desc: in.Name + " | " + in.Desc, New: mk(false)})
		if d.File != nil && d.File.IsFragmented() {
			out = append(out, Struct{Kind: "decoded/" + path + "/segment-mode", Decoded: true, SegMode: true, Input: x, Desc: in.Name + " | " + in.Desc, New: mk(true)})
			// the public optimisation knobs on a decoded file: on the file, or on its segments only
			onFile := c.Rand.Bool()
			knob := map[bool]string{true: "file-optimize", false: "segment-optimize"}[onFile]
			base := mk(true)
			out = append(out, Struct{Kind: "decoded/" + path + "/segment-mode," + knob, Decoded: true, SegMode: true, Optimize: true, Input: x, Desc: in.Name + " | " + in.Desc,
				New: func() Encodable {
					e := base()
					f, ok := e.(*mp4.File)
					if e == nil || !ok {
						return e
					}
					if onFile {
						f.EncOptimize = mp4.OptimizeTrun
					} else {
						for _, sg := range f.Segments {
							sg.EncOptimize = mp4.OptimizeTrun
						}
					}
					return f
				}})
		}
	}
	return out
}

// HistoryOptions are the generator options of the API-built structures.
func HistoryOptions(r *runner.Rand) genfrag.Options {
	o := genfrag.Options{MaxTracks: 3, MaxSegments: 2, MaxFragments: 3, MaxSamples: 8}
	o.NoMeta = !r.Chance(1, 4)
	o.Tame = r.Chance(1, 3)
	return o
}

// FromHistory builds the API structures of one generated history: the init
// segment, every fragment (fresh from the spec on each New), every media
// segment with 0..3 sidx boxes, and the decoded file of the assembled bytes.
func FromHistory(c *runner.Ctx, r *runner.Rand, h *genfrag.History) []Struct {
	var out []Struct
	desc := fmt.Sprintf("history: %d tracks, %d segments, optimize=%v", len(h.Tracks), len(h.Segments), h.Optimize)
	out = append(out, Struct{Kind: "api/InitSegment", Desc: desc, New: func() Encodable {
		var init *mp4.InitSegment
		if pi := c.Guard(func() { init, _, _ = genfrag.BuildInit(h) }); pi != nil || init == nil {
			return nil
		}
		return init
	}})
	// the same init with header times and durations that do not fit 32 bits
	// while the boxes keep the version the constructors gave them (public fields)
	big := []uint64{1 << 32, 1<<32 + 12345, 1<<40 + 7, 0xfffffffffffffff0}[r.Intn(4)]
	which := r.Intn(4)
	out = append(out, Struct{Kind: "api/InitSegment-large-times", Desc: desc + fmt.Sprintf(", value %#x in field set %d", big, which), New: func() Encodable {
		var init *mp4.InitSegment
		if pi := c.Guard(func() { init, _, _ = genfrag.BuildInit(h) }); pi != nil || init == nil || init.Moov == nil || init.Moov.Mvhd == nil {
			return nil
		}
		for _, t := range init.Moov.Traks {
			if t.Tkhd == nil || t.Mdia == nil || t.Mdia.Mdhd == nil {
				return nil
			}
			switch which {
			case 0:
				t.Tkhd.Duration = big
			case 1:
				t.Tkhd.CreationTime, t.Tkhd.ModificationTime = big, big+1
			case 2:
				t.Mdia.Mdhd.Duration = big
			default:
				init.Moov.Mvhd.Duration = big
				t.Tkhd.Duration = big
				t.Mdia.Mdhd.CreationTime = big
			}
		}
		return init
	}})
	// an mdat box (alone and inside a fragment) that is used a second time through its public
	// fields: filled, emptied by truncating DataParts / Data, filled again with other amounts
	reuse := r.Intn(4)
	a, b2 := 1+r.Intn(3000), 1+r.Intn(600)
	out = append(out, Struct{Kind: fmt.Sprintf("api/MdatBox[reused,%d]", reuse), Desc: fmt.Sprintf("mdat filled with %d bytes, emptied, filled with %d bytes (variant %d)", a, b2, reuse), New: func() Encodable {
		m := &mp4.MdatBox{}
		fill := func(n int, parts bool) {
			for left := n; left > 0; {
				k := 1 + left/2
				chunk := make([]byte, k)
				for i := range chunk {
					chunk[i] = byte(left + i)
				}
				if parts {
					m.AddSampleDataPart(chunk)
				} else {
					m.AddSampleData(chunk)
				}
				left -= k
			}
		}
		var sink bytes.Buffer
		switch reuse {
		case 0: // parts, encode, truncate, parts
			fill(a, true)
			_ = m.Size()
			_ = m.Encode(&sink)
			m.DataParts = m.DataParts[:0]
			fill(b2, true)
		case 1: // parts, nil, parts (never encoded in between)
			fill(a, true)
			_ = m.DataLength()
			m.DataParts = nil
			fill(b2, true)
		case 2: // monolithic data, encode, truncate, monolithic data
			fill(a, false)
			_ = m.Size()
			_ = m.Encode(&sink)
			m.Data = m.Data[:0]
			fill(b2, false)
		default: // monolithic data replaced through SetData, then parts
			// (a lazy size together with data is not built: SetLazyDataSize documents
			// "Don't put any data in m.Data in this mode")
			fill(a, false)
			_ = m.Size()
			m.SetData(nil)
			fill(b2, true)
		}
		return m
	}})
	// an mdat box on which both ways of filling were used: DataParts through AddSampleDataPart, then Data
	// through AddSampleData / SetData (the other order is refused by the library: AddSampleDataPart panics
	// with "cannot mix sample parts with monolithic sample data"). Whatever such a box holds, Size and
	// both encoders must agree. Should the library one day refuse this order too, the box stays parts-only.
	both := (a + b2) % 4
	out = append(out, Struct{Kind: fmt.Sprintf("api/MdatBox[parts-then-data,%d]", both), Desc: fmt.Sprintf("mdat with %d bytes added as DataParts, then %d bytes as Data (variant %d)", b2, a, both), New: func() Encodable {
		m := &mp4.MdatBox{}
		mk := func(n, salt int) []byte {
			b := make([]byte, n)
			for i := range b {
				b[i] = byte(salt + 3*i)
			}
			return b
		}
		m.AddSampleDataPart(mk(b2, 1))
		if both >= 2 {
			m.AddSampleDataPart(mk(1+b2/2, 2))
		}
		func() {
			defer func() { _ = recover() }()
			if both%2 == 0 {
				m.AddSampleData(mk(a, 3))
			} else {
				m.SetData(mk(a, 4))
			}
		}()
		if both == 3 {
			u := mp4.NewGenericContainerBox("udta")
			u.AddChild(m)
			return u
		}
		return m
	}})
	// a container whose size sits at the limit of the compact header (2^32-1 | 2^32 | 2^32+1) thanks to a
	// lazy mdat child (only headers are written): both encoders must draw the line at the same size
	limit := []uint64{1<<32 - 1, 1 << 32, 1<<32 + 1, 1<<32 - 2}[r.Intn(4)]
	out = append(out, Struct{Kind: "api/udta[lazy-mdat,size-at-2^32]", Desc: fmt.Sprintf("udta holding a lazy mdat, total size %d", limit), New: func() Encodable {
		m := &mp4.MdatBox{}
		m.SetLazyDataSize(limit - 16)
		u := mp4.NewGenericContainerBox("udta")
		u.AddChild(m)
		if u.Size() != limit {
			// the mdat chose a 64-bit header: adjust so that the container still has the wanted size
			m.SetLazyDataSize(limit - 8 - m.HeaderSize())
		}
		return u
	}})
	newFrag := func(fs *genfrag.FragmentSpec, optimize bool) *mp4.Fragment {
		var f *mp4.Fragment
		var err error
		if pi := c.Guard(func() { f, _, _, err = genfrag.BuildFragment(h, fs) }); pi != nil || err != nil || f == nil {
			return nil
		}
		f.EncOptimize = mp4.OptimizeNone
		if optimize {
			f.EncOptimize = mp4.OptimizeTrun
		}
		return f
	}
	for si := range h.Segments {
		ss := &h.Segments[si]
		for fi := range ss.Fragments {
			fs := &ss.Fragments[fi]
			for _, opt := range []bool{false, true} {
				opt := opt
				if opt != h.Optimize && !r.Chance(1, 3) {
					continue
				}
				out = append(out, Struct{Kind: "api/Fragment[" + fs.Mode + "]", Optimize: opt,
					Desc: fmt.Sprintf("%s; segment %d fragment %d seq %d multi=%v tracks=%v pre=%d post=%d", desc, si, fi, fs.Seq, fs.Multi, fs.Tracks, len(fs.Pre), len(fs.Post)),
					New: func() Encodable {
						if f := newFrag(fs, opt); f != nil {
							return f
						}
						return nil
					}})
			}
		}
		// media segment (only non-lazy fragments: a lazily written mdat in the
		// middle of a segment leaves its payload to the caller)
		meta := false
		for fi := range ss.Fragments {
			if ss.Fragments[fi].Mode == genfrag.ModeMeta {
				meta = true
			}
		}
		if meta {
			continue
		}
		nsidx := r.Intn(4)
		styp := ss.Styp
		opt := h.Optimize
		sidxVer := byte(r.Intn(2))
		out = append(out, Struct{Kind: fmt.Sprintf("api/MediaSegment[sidx=%d]", nsidx), Optimize: opt,
			Desc: fmt.Sprintf("%s; segment %d styp=%v nsidx=%d", desc, si, styp, nsidx),
			New: func() Encodable {
				var ms *mp4.MediaSegment
				if styp {
					ms = mp4.NewMediaSegment()
				} else {
					ms = mp4.NewMediaSegmentWithoutStyp()
				}
				for k := 0; k < nsidx; k++ {
					sx := &mp4.SidxBox{Version: sidxVer, ReferenceID: 1, Timescale: 90000, EarliestPresentationTime: uint64(k) * 1000}
					for j := 0; j <= k; j++ {
						sx.SidxRefs = append(sx.SidxRefs, mp4.SidxRef{ReferencedSize: uint32(1000 + j), SubSegmentDuration: 90000, StartsWithSAP: 1, SAPType: 1})
					}
					ms.AddSidx(sx)
				}
				for fi := range ss.Fragments {
					f := newFrag(&ss.Fragments[fi], opt)
					if f == nil {
						return nil
					}
					ms.AddFragment(f)
				}
				ms.EncOptimize = mp4.OptimizeNone
				if opt {
					ms.EncOptimize = mp4.OptimizeTrun
				}
				return ms
			}})
	}
	// one member of the family of codec-configuration structures (esds descriptor sizes and flags, dec3 substreams)
	out = append(out, FromRecipe(c, PickRecipe(r))...)
	// one member of the sidx family (fragaddr.go): Version x values around 2^32 in the public 64-bit fields
	out = append(out, FromRecipe(c, PickSidxRecipe(r))...)
	return out
}

// ---------------------------------------------------------------------------
// API-built codec configuration: esds (MPEG-4 descriptors) and dec3

// A recipe is a self-contained description of one API-built structure family
// member, e.g. "esds n=104 flags=0x20 url=0 fill=0 wrap=stsd" or
// "dec3 deps=0,1,0 nis=0 fill=0 wrap=init". FromRecipe(recipe) always builds
// the same structures, so a witness needs nothing but the string.

// Sizes at which the base-128 size field of a descriptor needs one more digit.
var descLimits = []int{1 << 7, 1 << 14, 1 << 21}

// esFixed is the number of bytes around the DecoderSpecificInfo payload in an
// ES_Descriptor payload as CreateESDescriptor lays it out with one-digit size
// fields (14496-1 syntax: ES_ID 2, flags 1, DecoderConfigDescriptor tag+size 2
// and fixed part 13, DecoderSpecificInfo tag+size 2, SLConfigDescriptor 3).
const esFixed = 3 + 2 + 13 + 2 + 3

var esURLLens = []int{0, 1, 23, 255}

// PickRecipe draws one recipe: descriptor payload sizes swept through the
// windows below 2^7, 2^14 and 2^21 (wide enough that the payload of each of
// the three nested descriptors passes limit-2 .. limit+1 whatever the lengths
// of the inner size fields), the flag lattice of the ES_Descriptor with the
// dependent fields, and dec3 boxes with 1..8 independent substreams.
func PickRecipe(r *runner.Rand) string {
	wraps := []string{"mp4a", "mp4a+btrt", "stsd", "init"}
	window := func() int {
		switch roll := r.Intn(100); {
		case roll < 60:
			return 96 + r.Intn(37) // 96..132
		case roll < 85:
			return 1<<14 - 34 + r.Intn(39) // 16350..16388
		case roll < 87: // 2 MiB configurations: few
			return 1<<21 - 34 + r.Intn(38) // 2097118..2097155
		}
		return []int{0, 1, 2, 5, 50}[r.Intn(5)]
	}
	fill := 0
	if r.Chance(1, 4) {
		fill = 1
	}
	switch roll := r.Intn(100); {
	case roll < 45:
		return fmt.Sprintf("esds n=%d flags=0x00 url=0 fill=%d wrap=%s", window(), fill, wraps[r.Intn(len(wraps))])
	case roll < 75:
		flags := r.Intn(8) << 5
		if r.Bool() {
			flags |= r.Intn(32)
		}
		url := 0
		if flags&0x40 != 0 || fill == 1 {
			url = esURLLens[r.Intn(len(esURLLens))]
		}
		extra := 0
		if flags&0x80 != 0 {
			extra += 2
		}
		if flags&0x40 != 0 {
			extra += 1 + url
		}
		if flags&0x20 != 0 {
			extra += 2
		}
		n := 2
		switch k := r.Intn(4); {
		case k < 2: // ES_Descriptor payload at limit-2 .. limit+1
			lim := descLimits[0]
			if r.Chance(1, 5) {
				lim = descLimits[1]
			}
			n = lim - 2 + r.Intn(4) - esFixed - extra
			if n < 0 {
				n = 5
			}
		case k == 2:
			n = window()
		default:
			n = []int{2, 5}[r.Intn(2)]
		}
		return fmt.Sprintf("esds n=%d flags=0x%02x url=%d fill=%d wrap=%s", n, flags, url, fill, wraps[r.Intn(len(wraps))])
	}
	nInd := 1 + r.Intn(3)
	if r.Chance(1, 8) {
		nInd = 4 + r.Intn(5)
	}
	deps := make([]string, nInd)
	for i := range deps {
		d := 0
		if r.Chance(1, 3) {
			d = 1 + r.Intn(15)
			if r.Bool() {
				d = 1
			}
		}
		deps[i] = strconv.Itoa(d)
	}
	nis := 0 // NumIndSub left at its zero value, as in a literal that only lists the substreams
	if r.Chance(1, 3) {
		nis = 1 // NumIndSub = len(EC3Subs)-1
	}
	return fmt.Sprintf("dec3 deps=%s nis=%d fill=%d wrap=%s", strings.Join(deps, ","), nis, fill,
		[]string{"dec3", "ec-3", "init", "init", "decoded+append"}[r.Intn(5)])
}

func recipeFields(recipe string) (string, map[string]string) {
	parts := strings.Fields(recipe)
	if len(parts) == 0 {
		return "", nil
	}
	m := map[string]string{}
	for _, p := range parts[1:] {
		if i := strings.IndexByte(p, '='); i > 0 {
			m[p[:i]] = p[i+1:]
		}
	}
	return parts[0], m
}

// configOf is a decoder configuration of n bytes that starts like an
// AudioSpecificConfig (AAC-LC, 48 kHz, stereo).
func configOf(n int) []byte {
	b := make([]byte, n)
	for i := range b {
		b[i] = byte(0x21 + i)
	}
	copy(b, []byte{0x11, 0x90})
	return b
}

func newAudioInit(c *runner.Ctx) *mp4.InitSegment {
	var init *mp4.InitSegment
	if pi := c.Guard(func() {
		init = mp4.CreateEmptyInit()
		init.AddEmptyTrack(48000, "audio", "en")
	}); pi != nil || init == nil || init.Moov == nil || init.Moov.Trak == nil {
		return nil
	}
	return init
}

// FromRecipe builds the structures of one recipe (nil for an unknown one).
func FromRecipe(c *runner.Ctx, recipe string) []Struct {
	fam, f := recipeFields(recipe)
	atoi := func(k string) int {
		v, _ := strconv.ParseInt(f[k], 0, 32)
		return int(v)
	}
	switch fam {
	case "sidx":
		return fromSidxRecipe(c, recipe, f)
	case "hist":
		return fromHistRecipe(c, recipe, f)
	case "esds":
		n, flags, url, fill, wrap := atoi("n"), byte(atoi("flags")), atoi("url"), atoi("fill") == 1, f["wrap"]
		if n < 0 || n > 4<<20 || url < 0 || url > 255 {
			return nil
		}
		class := "descriptor-size sweep"
		if flags != 0 {
			class = "ES_Descriptor flags"
		}
		// CreateEsdsBox, then the public fields of the embedded ES_Descriptor
		mkEsds := func() *mp4.EsdsBox {
			e := mp4.CreateEsdsBox(configOf(n))
			e.FlagsAndPriority = flags
			if flags&0x80 != 0 || fill {
				e.DependsOnEsID = 0x0a0b
			}
			if flags&0x40 != 0 || fill {
				e.URLString = strings.Repeat("http://example.com/es/", 12)[:url]
			}
			if flags&0x20 != 0 || fill {
				e.OCResID = 0x0102
			}
			return e
		}
		mkEntry := func() *mp4.AudioSampleEntryBox {
			a := mp4.CreateAudioSampleEntryBox("mp4a", 2, 16, 48000, mkEsds())
			if wrap == "mp4a+btrt" {
				a.AddChild(&mp4.BtrtBox{BufferSizeDB: 6144, MaxBitrate: 128000, AvgBitrate: 96000})
			}
			return a
		}
		out := []Struct{{Kind: "api/esds[" + class + "]", Recipe: recipe, Desc: recipe, New: func() Encodable {
			var e *mp4.EsdsBox
			if pi := c.Guard(func() { e = mkEsds() }); pi != nil || e == nil {
				return nil
			}
			return e
		}}}
		var outer func() Encodable
		typ := "mp4a"
		switch wrap {
		case "mp4a", "mp4a+btrt":
			outer = func() Encodable { return mkEntry() }
		case "stsd":
			typ = "stsd"
			outer = func() Encodable {
				st := mp4.NewStsdBox()
				st.AddChild(mkEntry())
				return st
			}
		case "init":
			typ = "InitSegment"
			outer = func() Encodable {
				init := newAudioInit(c)
				if init == nil {
					return nil
				}
				init.Moov.Trak.Mdia.Minf.Stbl.Stsd.AddChild(mkEntry())
				return init
			}
		default:
			return out
		}
		return append(out, Struct{Kind: "api/" + typ + "[esds " + class + "]", Recipe: recipe, Desc: recipe, New: func() Encodable {
			var x Encodable
			if pi := c.Guard(func() { x = outer() }); pi != nil {
				return nil
			}
			return x
		}})
	case "dec3":
		var deps []int
		for _, d := range strings.Split(f["deps"], ",") {
			v, err := strconv.Atoi(d)
			if err != nil || v < 0 || v > 15 {
				return nil
			}
			deps = append(deps, v)
		}
		if len(deps) == 0 || len(deps) > 8 {
			return nil
		}
		nis, fill, wrap := atoi("nis"), atoi("fill") == 1, f["wrap"]
		sub := func(i int) mp4.EC3Sub {
			s := mp4.EC3Sub{FSCod: byte(i % 3), BSID: 16, ASVC: byte(i & 1), BSMod: byte(i % 8), ACMod: byte((7 - i) % 8), LFEOn: byte((i + 1) & 1), NumDepSub: byte(deps[i])}
			if deps[i] > 0 || fill {
				s.ChanLoc = uint16(0x101>>uint(i)) & 0x1ff
			}
			return s
		}
		// the box as a caller writes it (there is no constructor): a literal that lists the substreams
		mkDec3 := func() *mp4.Dec3Box {
			d := &mp4.Dec3Box{DataRate: uint16(192 * len(deps))}
			first := 0
			if wrap == "decoded+append" {
				// a decoded one-substream box (5.1) to which the caller appends substreams
				raw := []byte{0, 0, 0, 0x0d, 'd', 'e', 'c', '3', 0x08, 0x00, 0x20, 0x0f, 0x00}
				b, err := mp4.DecodeBox(0, bytes.NewReader(raw))
				dd, ok := b.(*mp4.Dec3Box)
				if err != nil || !ok {
					return nil
				}
				d, first = dd, 1
				if deps[0] > 0 {
					d.EC3Subs[0].NumDepSub, d.EC3Subs[0].ChanLoc = byte(deps[0]), 0x101
				}
			}
			for i := first; i < len(deps); i++ {
				d.EC3Subs = append(d.EC3Subs, sub(i))
			}
			if nis == 1 {
				d.NumIndSub = uint16(len(d.EC3Subs) - 1)
			}
			return d
		}
		var build func() Encodable
		kind := "api/dec3[literal]"
		switch wrap {
		case "dec3":
			build = func() Encodable {
				if d := mkDec3(); d != nil {
					return d
				}
				return nil
			}
		case "ec-3":
			kind = "api/ec-3[dec3 literal]"
			build = func() Encodable {
				d := mkDec3()
				if d == nil {
					return nil
				}
				return mp4.CreateAudioSampleEntryBox("ec-3", 6, 16, 48000, d)
			}
		case "init", "decoded+append":
			kind = "api/InitSegment[SetEC3Descriptor]"
			if wrap != "init" {
				kind = "api/InitSegment[SetEC3Descriptor,decoded dec3 + appended substreams]"
			}
			build = func() Encodable {
				d, init := mkDec3(), newAudioInit(c)
				if d == nil || init == nil || init.Moov.Trak.SetEC3Descriptor(d) != nil {
					return nil
				}
				return init
			}
		default:
			return nil
		}
		return []Struct{{Kind: kind, Recipe: recipe, Desc: recipe, New: func() Encodable {
			var x Encodable
			if pi := c.Guard(func() { x = build() }); pi != nil {
				return nil
			}
			return x
		}}}
	}
	return nil
}

// BuildFileBytes assembles the whole file of a history (init + media
// segments + index boxes) through gen/frag.Build; nil if it cannot be built.
func BuildFileBytes(c *runner.Ctx, h *genfrag.History) []byte {
	var b *genfrag.Built
	var err error
	if pi := c.Guard(func() { b, err = genfrag.Build(h, genfrag.BuildOptions{Guard: c.Guard}) }); pi != nil || err != nil || b == nil {
		return nil
	}
	return b.Bytes
}
