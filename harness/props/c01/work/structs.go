package work

import (
	"bytes"
	"fmt"

	"github.com/Eyevinn/mp4ff/mp4"

	genfrag "verifharness/gen/frag"
	"verifharness/runner"
)

// Struct is one structure of the C02/C03(a) domain together with a recipe
// to obtain a fresh, identical instance (encoding may legitimately change a
// structure: trun optimisation, data offsets), so that each observation
// starts from the same state.
type Struct struct {
	Kind     string // decoded/<path>[/segment-mode] | api/<type>
	Decoded  bool   // obtained from the decoder (else built through constructors)
	Optimize bool   // trun optimisation is on (Size() before the first encode may differ)
	SegMode  bool   // a fragmented File in EncModeSegment: Children is not the encoding order
	Input    []byte // decoded: the accepted byte string
	Desc     string
	New      func() Encodable // fresh instance (nil result: could not be rebuilt)
}

// FromInput decodes in through every path and returns the resulting
// structures (files additionally in segment mode when fragmented).
func FromInput(c *runner.Ctx, in Input) []Struct {
	var out []Struct
	for _, path := range []string{PBox, PBoxSR, PFile, PFileSR} {
		path := path
		d := Decode(c, path, in.Data)
		if !d.OK {
			c.Count("rejected/"+path, 1)
			continue
		}
		c.Count("accepted/"+path, 1)
		x := in.Data[:d.Consumed]
		mk := func(seg bool) func() Encodable {
			return func() Encodable {
				dd := Decode(c, path, x)
				if !dd.OK {
					return nil
				}
				if dd.File != nil {
					if seg {
						dd.File.FragEncMode = mp4.EncModeSegment
					} else {
						SetLossless(dd.File)
					}
				}
				return dd.Obj()
			}
		}
		out = append(out, Struct{Kind: "decoded/" + path, Decoded: true, Input: x, Desc: in.Name + " | " + in.Desc, New: mk(false)})
		if d.File != nil && d.File.IsFragmented() {
			out = append(out, Struct{Kind: "decoded/" + path + "/segment-mode", Decoded: true, SegMode: true, Input: x, Desc: in.Name + " | " + in.Desc, New: mk(true)})
			// the public optimisation knobs on a decoded file: on the file, or on its segments only
			onFile := c.Rand.Bool()
			knob := map[bool]string{true: "file-optimize", false: "segment-optimize"}[onFile]
			base := mk(true)
			out = append(out, Struct{Kind: "decoded/" + path + "/segment-mode," + knob, Decoded: true, SegMode: true, Optimize: true, Input: x, Desc: in.Name + " | " + in.Desc,
				New: func() Encodable {
					e := base()
					f, ok := e.(*mp4.File)
					if e == nil || !ok {
						return e
					}
					if onFile {
						f.EncOptimize = mp4.OptimizeTrun
					} else {
						for _, sg := range f.Segments {
							sg.EncOptimize = mp4.OptimizeTrun
						}
					}
					return f
				}})
		}
	}
	return out
}

// HistoryOptions are the generator options of the API-built structures.
func HistoryOptions(r *runner.Rand) genfrag.Options {
	o := genfrag.Options{MaxTracks: 3, MaxSegments: 2, MaxFragments: 3, MaxSamples: 8}
	o.NoMeta = !r.Chance(1, 4)
	o.Tame = r.Chance(1, 3)
	return o
}

// FromHistory builds the API structures of one generated history: the init
// segment, every fragment (fresh from the spec on each New), every media
// segment with 0..3 sidx boxes, and the decoded file of the assembled bytes.
func FromHistory(c *runner.Ctx, r *runner.Rand, h *genfrag.History) []Struct {
	var out []Struct
	desc := fmt.Sprintf("history: %d tracks, %d segments, optimize=%v", len(h.Tracks), len(h.Segments), h.Optimize)
	out = append(out, Struct{Kind: "api/InitSegment", Desc: desc, New: func() Encodable {
		var init *mp4.InitSegment
		if pi := c.Guard(func() { init, _, _ = genfrag.BuildInit(h) }); pi != nil || init == nil {
			return nil
		}
		return init
	}})
	// the same init with header times and durations that do not fit 32 bits
	// while the boxes keep the version the constructors gave them (public fields)
	big := []uint64{1 << 32, 1<<32 + 12345, 1<<40 + 7, 0xfffffffffffffff0}[r.Intn(4)]
	which := r.Intn(4)
	out = append(out, Struct{Kind: "api/InitSegment-large-times", Desc: desc + fmt.Sprintf(", value %#x in field set %d", big, which), New: func() Encodable {
		var init *mp4.InitSegment
		if pi := c.Guard(func() { init, _, _ = genfrag.BuildInit(h) }); pi != nil || init == nil || init.Moov == nil || init.Moov.Mvhd == nil {
			return nil
		}
		for _, t := range init.Moov.Traks {
			if t.Tkhd == nil || t.Mdia == nil || t.Mdia.Mdhd == nil {
				return nil
			}
			switch which {
			case 0:
				t.Tkhd.Duration = big
			case 1:
				t.Tkhd.CreationTime, t.Tkhd.ModificationTime = big, big+1
			case 2:
				t.Mdia.Mdhd.Duration = big
			default:
				init.Moov.Mvhd.Duration = big
				t.Tkhd.Duration = big
				t.Mdia.Mdhd.CreationTime = big
			}
		}
		return init
	}})
	// an mdat box (alone and inside a fragment) that is used a second time through its public
	// fields: filled, emptied by truncating DataParts / Data, filled again with other amounts
	reuse := r.Intn(4)
	a, b2 := 1+r.Intn(3000), 1+r.Intn(600)
	out = append(out, Struct{Kind: fmt.Sprintf("api/MdatBox[reused,%d]", reuse), Desc: fmt.Sprintf("mdat filled with %d bytes, emptied, filled with %d bytes (variant %d)", a, b2, reuse), New: func() Encodable {
		m := &mp4.MdatBox{}
		fill := func(n int, parts bool) {
			for left := n; left > 0; {
				k := 1 + left/2
				chunk := make([]byte, k)
				for i := range chunk {
					chunk[i] = byte(left + i)
				}
				if parts {
					m.AddSampleDataPart(chunk)
				} else {
					m.AddSampleData(chunk)
				}
				left -= k
			}
		}
		var sink bytes.Buffer
		switch reuse {
		case 0: // parts, encode, truncate, parts
			fill(a, true)
			_ = m.Size()
			_ = m.Encode(&sink)
			m.DataParts = m.DataParts[:0]
			fill(b2, true)
		case 1: // parts, nil, parts (never encoded in between)
			fill(a, true)
			_ = m.DataLength()
			m.DataParts = nil
			fill(b2, true)
		case 2: // monolithic data, encode, truncate, monolithic data
			fill(a, false)
			_ = m.Size()
			_ = m.Encode(&sink)
			m.Data = m.Data[:0]
			fill(b2, false)
		default: // monolithic data replaced through SetData, then parts
			// (a lazy size together with data is not built: SetLazyDataSize documents
			// "Don't put any data in m.Data in this mode")
			fill(a, false)
			_ = m.Size()
			m.SetData(nil)
			fill(b2, true)
		}
		return m
	}})
	// a container whose size sits at the limit of the compact header (2^32-1 | 2^32 | 2^32+1) thanks to a
	// lazy mdat child (only headers are written): both encoders must draw the line at the same size
	limit := []uint64{1<<32 - 1, 1 << 32, 1<<32 + 1, 1<<32 - 2}[r.Intn(4)]
	out = append(out, Struct{Kind: "api/udta[lazy-mdat,size-at-2^32]", Desc: fmt.Sprintf("udta holding a lazy mdat, total size %d", limit), New: func() Encodable {
		m := &mp4.MdatBox{}
		m.SetLazyDataSize(limit - 16)
		u := mp4.NewGenericContainerBox("udta")
		u.AddChild(m)
		if u.Size() != limit {
			// the mdat chose a 64-bit header: adjust so that the container still has the wanted size
			m.SetLazyDataSize(limit - 8 - m.HeaderSize())
		}
		return u
	}})
	newFrag := func(fs *genfrag.FragmentSpec, optimize bool) *mp4.Fragment {
		var f *mp4.Fragment
		var err error
		if pi := c.Guard(func() { f, _, _, err = genfrag.BuildFragment(h, fs) }); pi != nil || err != nil || f == nil {
			return nil
		}
		f.EncOptimize = mp4.OptimizeNone
		if optimize {
			f.EncOptimize = mp4.OptimizeTrun
		}
		return f
	}
	for si := range h.Segments {
		ss := &h.Segments[si]
		for fi := range ss.Fragments {
			fs := &ss.Fragments[fi]
			for _, opt := range []bool{false, true} {
				opt := opt
				if opt != h.Optimize && !r.Chance(1, 3) {
					continue
				}
				out = append(out, Struct{Kind: "api/Fragment[" + fs.Mode + "]", Optimize: opt,
					Desc: fmt.Sprintf("%s; segment %d fragment %d seq %d multi=%v tracks=%v pre=%d post=%d", desc, si, fi, fs.Seq, fs.Multi, fs.Tracks, len(fs.Pre), len(fs.Post)),
					New: func() Encodable {
						if f := newFrag(fs, opt); f != nil {
							return f
						}
						return nil
					}})
			}
		}
		// media segment (only non-lazy fragments: a lazily written mdat in the
		// middle of a segment leaves its payload to the caller)
		meta := false
		for fi := range ss.Fragments {
			if ss.Fragments[fi].Mode == genfrag.ModeMeta {
				meta = true
			}
		}
		if meta {
			continue
		}
		nsidx := r.Intn(4)
		styp := ss.Styp
		opt := h.Optimize
		sidxVer := byte(r.Intn(2))
		out = append(out, Struct{Kind: fmt.Sprintf("api/MediaSegment[sidx=%d]", nsidx), Optimize: opt,
			Desc: fmt.Sprintf("%s; segment %d styp=%v nsidx=%d", desc, si, styp, nsidx),
			New: func() Encodable {
				var ms *mp4.MediaSegment
				if styp {
					ms = mp4.NewMediaSegment()
				} else {
					ms = mp4.NewMediaSegmentWithoutStyp()
				}
				for k := 0; k < nsidx; k++ {
					sx := &mp4.SidxBox{Version: sidxVer, ReferenceID: 1, Timescale: 90000, EarliestPresentationTime: uint64(k) * 1000}
					for j := 0; j <= k; j++ {
						sx.SidxRefs = append(sx.SidxRefs, mp4.SidxRef{ReferencedSize: uint32(1000 + j), SubSegmentDuration: 90000, StartsWithSAP: 1, SAPType: 1})
					}
					ms.AddSidx(sx)
				}
				for fi := range ss.Fragments {
					f := newFrag(&ss.Fragments[fi], opt)
					if f == nil {
						return nil
					}
					ms.AddFragment(f)
				}
				ms.EncOptimize = mp4.OptimizeNone
				if opt {
					ms.EncOptimize = mp4.OptimizeTrun
				}
				return ms
			}})
	}
	return out
}

// BuildFileBytes assembles the whole file of a history (init + media
// segments + index boxes) through gen/frag.Build; nil if it cannot be built.
func BuildFileBytes(c *runner.Ctx, h *genfrag.History) []byte {
	var b *genfrag.Built
	var err error
	if pi := c.Guard(func() { b, err = genfrag.Build(h, genfrag.BuildOptions{Guard: c.Guard}) }); pi != nil || err != nil || b == nil {
		return nil
	}
	return b.Bytes
}
