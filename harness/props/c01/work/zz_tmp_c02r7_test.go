package work

import (
	"bytes"
	"testing"

	"github.com/Eyevinn/mp4ff/mp4"

	"verifharness/corpus"
	genfrag "verifharness/gen/frag"
	reffrag "verifharness/ref/frag"
	"verifharness/runner"
)

func TestTmpC02r7(t *testing.T) {
	cor, err := corpus.Load("/repo")
	if err != nil {
		t.Fatal(err)
	}
	for _, s := range fragmentAddressingSeeds(cor) {
		_, err := reffrag.ExpandFile(s.data, nil)
		f, derr := mp4.DecodeFile(bytes.NewReader(s.data))
		if derr != nil {
			t.Errorf("%s: decode %v", s.name, derr)
			continue
		}
		var b1, b2 bytes.Buffer
		s0 := f.Size()
		e1 := f.Encode(&b1)
		s1 := f.Size()
		e2 := f.Encode(&b2)
		t.Logf("%s: %d bytes, expand err=%v, segs=%d size %d/%d enc %d %v %v same=%v equalInput=%v", s.name, len(s.data), err, len(f.Segments), s0, s1, b1.Len(), e1, e2, bytes.Equal(b1.Bytes(), b2.Bytes()), bytes.Equal(b1.Bytes(), s.data))
	}
	// readdress of API-built files
	modes := map[string]int{}
	fails := map[string]int{}
	for i := 0; i < 2000; i++ {
		r := runner.NewRand(1, uint64(i))
		h := genfrag.Generate(r, HistoryOptions(r))
		b, err := genfrag.Build(h, genfrag.BuildOptions{})
		if err != nil || b == nil {
			fails["build"]++
			continue
		}
		nb, shapes, err := genfrag.Readdress(b.Bytes, r)
		if err != nil {
			e := err.Error()
			if len(e) > 70 {
				e = e[:70]
			}
			fails[e]++
			continue
		}
		for _, s := range shapes {
			k := s.Mode
			if s.Truns == 1 && s.Trafs == 1 {
				k += " single"
			}
			modes[k]++
		}
		if _, err := mp4.DecodeFile(bytes.NewReader(nb)); err != nil {
			fails["decode: "+err.Error()]++
		}
	}
	t.Logf("modes %v", modes)
	t.Logf("fails %v", fails)
}
