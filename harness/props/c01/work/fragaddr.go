package work

// fragaddr.go: movie fragments that address their media data in the legal
// ways mp4ff's own fragment API never writes (a first trun without
// data_offset, tfhd.base_data_offset, default-base-is-moof clear), as corpus
// seeds on the byte level and as rewritten API-built files; the fragments and
// media segments of a decoded file as structures of their own; and the family
// of API-built / decoded-then-modified sidx boxes.

import (
	"bytes"
	"encoding/binary"
	"fmt"
	"strconv"

	"github.com/Eyevinn/mp4ff/mp4"

	"verifharness/corpus"
	genfrag "verifharness/gen/frag"
	"verifharness/runner"
)

func rawBox(typ string, parts ...[]byte) []byte {
	n := 8
	for _, p := range parts {
		n += len(p)
	}
	out := make([]byte, 8, n)
	binary.BigEndian.PutUint32(out, uint32(n))
	copy(out[4:], typ)
	for _, p := range parts {
		out = append(out, p...)
	}
	return out
}

func rb32(v uint32) []byte { b := make([]byte, 4); binary.BigEndian.PutUint32(b, v); return b }
func rb64(v uint64) []byte { b := make([]byte, 8); binary.BigEndian.PutUint64(b, v); return b }

// plainFragment returns moof+mdat with one traf and one trun of n samples
// (sizes 5+i). tfFlags are the tf_flags (0x08/0x10/0x20: default duration, size
// and flags, unused because the trun carries its own; 0x000001 base-data-offset-present;
// 0x020000 default-base-is-moof); trunOffset tells whether the trun has a
// data_offset field. at is the file position of the moof.
func plainFragment(at int, seq uint32, tfFlags uint32, trunOffset bool, n int, largeMdat bool) []byte {
	build := func(base uint64, off uint32) []byte {
		tf := [][]byte{rb32(tfFlags), rb32(1)}
		if tfFlags&1 != 0 {
			tf = append(tf, rb64(base))
		}
		if tfFlags&0x08 != 0 {
			tf = append(tf, rb32(1024))
		}
		if tfFlags&0x10 != 0 {
			tf = append(tf, rb32(7))
		}
		if tfFlags&0x20 != 0 {
			tf = append(tf, rb32(0x01010000))
		}
		trFlags := uint32(0x000300) // duration + size
		tr := [][]byte{nil, rb32(uint32(n))}
		if trunOffset {
			trFlags |= 1
			tr = append(tr, rb32(off))
		}
		tr[0] = rb32(trFlags)
		for i := 0; i < n; i++ {
			tr = append(tr, rb32(1024), rb32(uint32(5+i)))
		}
		return rawBox("moof", rawBox("mfhd", rb32(0), rb32(seq)),
			rawBox("traf", rawBox("tfhd", tf...), rawBox("tfdt", rb32(0), rb32(1024*(seq-1)*uint32(n))), rawBox("trun", tr...)))
	}
	hdr := 8
	if largeMdat {
		hdr = 16
	}
	sz := len(build(0, 0))
	// base_data_offset: the first payload byte when the trun has no data_offset, else the moof
	// start with data_offset relative to it
	base := uint64(at + sz + hdr)
	if trunOffset {
		base = uint64(at)
	}
	moof := build(base, uint32(sz+hdr))
	var payload []byte
	for i := 0; i < n; i++ {
		for k := 0; k < 5+i; k++ {
			payload = append(payload, byte(0x40+i))
		}
	}
	if largeMdat {
		m := append(rb32(1), []byte("mdat")...)
		m = append(m, rb64(uint64(16+len(payload)))...)
		return append(moof, append(m, payload...)...)
	}
	return append(moof, rawBox("mdat", payload)...)
}

type namedSeed struct {
	name string
	data []byte
}

// fragmentAddressingSeeds are small fragment sequences without init segment:
// the lattice (base-data-offset-present, default-base-is-moof, data-offset-
// present in the only trun) x (with/without styp) plus two-fragment and
// 64-bit-mdat members; and up to 16 rewritings of fragmented corpus files of at
// most 64 KiB by gen/frag.Readdress with fixed PRNG seeds.
func fragmentAddressingSeeds(cor *corpus.Corpus) []namedSeed {
	var out []namedSeed
	styp := rawBox("styp", []byte("msdh"), rb32(0), []byte("msdhmsix"))
	for _, tf := range []uint32{0x000000, 0x020000, 0x000001, 0x020001, 0x000039, 0x020038} {
		for _, off := range []bool{false, true} {
			for _, withStyp := range []bool{false, true} {
				var f []byte
				if withStyp {
					f = append(f, styp...)
				}
				f = append(f, plainFragment(len(f), 1, tf, off, 3, false)...)
				out = append(out, namedSeed{fmt.Sprintf("crafted#frag-addr[tfhd=%06x,trun-offset=%v,styp=%v]", tf, off, withStyp), f})
			}
		}
	}
	// two fragments in one segment / in two segments, and a 64-bit mdat header
	for _, tf := range []uint32{0x000001, 0x020000} {
		a := plainFragment(0, 1, tf, false, 2, false)
		b := plainFragment(len(a), 2, tf, false, 4, true)
		out = append(out, namedSeed{fmt.Sprintf("crafted#frag-addr[tfhd=%06x,no-trun-offset,2 fragments]", tf), append(append([]byte{}, a...), b...)})
		s1 := append(append([]byte{}, styp...), plainFragment(len(styp), 1, tf, false, 2, true)...)
		s2 := append(append([]byte{}, styp...), plainFragment(len(s1)+len(styp), 2, tf, false, 1, false)...)
		out = append(out, namedSeed{fmt.Sprintf("crafted#frag-addr[tfhd=%06x,no-trun-offset,2 segments]", tf), append(s1, s2...)})
	}
	// corpus files, data addressing rewritten
	n := 0
	for _, f := range cor.Files {
		if len(f.Data) > 64<<10 || !bytes.Contains(f.Data, []byte("moof")) {
			continue
		}
		for v := uint64(0); v < 2 && n < 16; v++ {
			r := runner.NewRand(0xadd7e55, uint64(len(f.Data)), v)
			nb, _, err := genfrag.Readdress(f.Data, r)
			if err != nil {
				break
			}
			out = append(out, namedSeed{fmt.Sprintf("%s#readdressed%d", f.Name, v), nb})
			n++
		}
	}
	return out
}

// sidxSpec describes one hand-written sidx box of topSidxSeeds.
type sidxSpec struct {
	ver         byte
	refID       uint32
	firstOffset uint64
	refs        [][2]uint32 // reference_type (0 media, 1 sidx), referenced_size
}

func (s sidxSpec) bytes() []byte {
	p := [][]byte{rb32(uint32(s.ver) << 24), rb32(s.refID), rb32(90000)}
	if s.ver == 0 {
		p = append(p, rb32(0), rb32(uint32(s.firstOffset)))
	} else {
		p = append(p, rb64(0), rb64(s.firstOffset))
	}
	p = append(p, []byte{0, 0, byte(len(s.refs) >> 8), byte(len(s.refs))})
	for _, r := range s.refs {
		p = append(p, rb32(r[0]<<31|r[1]&0x7fffffff), rb32(3072), rb32(0x90000000))
	}
	return rawBox("sidx", p...)
}

// trackFragment is plainFragment (default-base-is-moof, trun with data_offset:
// position independent) for another track id.
func trackFragment(seq, trackID uint32, n int) []byte {
	f := plainFragment(0, seq, 0x020000, true, n, false)
	if i := bytes.Index(f, []byte("tfhd")); i >= 0 {
		binary.BigEndian.PutUint32(f[i+8:], trackID)
	}
	return f
}

// topSidxSeeds are fragmented files (DASH on-demand style) with 1, 2 and 3
// sidx boxes at the top level in front of the first segment, every
// first_offset and referenced_size correct: one sidx per track (different
// reference_ID, each over all the media), two flat sidx boxes each over one
// segment, a hierarchical index (a parent whose references point at two child
// sidx boxes); versions 0 and 1 mixed; with and without an init segment (made
// by CreateEmptyInit/AddEmptyTrack), with and without styp boxes in front of
// the segments, and with further sidx boxes between the segments (which
// belong to the second segment).
func topSidxSeeds() []namedSeed {
	var out []namedSeed
	var initBytes []byte
	func() {
		defer func() { _ = recover() }()
		init := mp4.CreateEmptyInit()
		for i := 0; i < 3; i++ {
			init.AddEmptyTrack(90000, []string{"video", "audio", "video"}[i], "und")
		}
		var buf bytes.Buffer
		if init.Encode(&buf) == nil {
			initBytes = buf.Bytes()
		}
	}()
	styp := rawBox("styp", []byte("msdh"), rb32(0), []byte("msdhmsix"))
	for _, layout := range []string{"one", "per-track-2", "per-track-3", "flat-2", "hierarchical-3"} {
		for _, withInit := range []bool{true, false} {
			for _, withStyp := range []bool{false, true} {
				for _, between := range []bool{false, true} {
					if withInit && initBytes == nil || between && !withStyp {
						continue
					}
					// the media: two segments, one fragment per track in each (per-track layouts) or one fragment each
					ntr := 1
					if layout == "per-track-2" {
						ntr = 2
					} else if layout == "per-track-3" {
						ntr = 3
					}
					var segs [2][]byte
					seq := uint32(1)
					for si := range segs {
						if withStyp {
							segs[si] = append(segs[si], styp...)
						}
						if between && si == 1 {
							// segment-level index of the second segment: two sidx boxes between the segments
							var fr []byte
							for t := 1; t <= ntr; t++ {
								fr = append(fr, trackFragment(seq+uint32(t-1), uint32(t), 2+si)...)
							}
							b := sidxSpec{ver: 1, refID: 1, refs: [][2]uint32{{0, uint32(len(fr))}}}.bytes()
							a := sidxSpec{ver: 0, refID: 1, firstOffset: uint64(len(b)), refs: [][2]uint32{{0, uint32(len(fr))}}}.bytes()
							segs[si] = append(append(segs[si], a...), b...)
						}
						for t := 1; t <= ntr; t++ {
							segs[si] = append(segs[si], trackFragment(seq, uint32(t), 2+si)...)
							seq++
						}
					}
					l0, l1 := uint32(len(segs[0])), uint32(len(segs[1]))
					var sx []sidxSpec
					switch layout {
					case "one":
						sx = []sidxSpec{{ver: 0, refID: 1, refs: [][2]uint32{{0, l0}, {0, l1}}}}
					case "per-track-2", "per-track-3":
						for t := 1; t <= ntr; t++ {
							sx = append(sx, sidxSpec{ver: byte(t & 1), refID: uint32(t), refs: [][2]uint32{{0, l0}, {0, l1}}})
						}
					case "flat-2":
						sx = []sidxSpec{{ver: 1, refID: 1, refs: [][2]uint32{{0, l0}}}, {ver: 0, refID: 1, firstOffset: uint64(l0), refs: [][2]uint32{{0, l1}}}}
					case "hierarchical-3":
						sx = []sidxSpec{{ver: 0, refID: 1}, {ver: 0, refID: 1, refs: [][2]uint32{{0, l0}}}, {ver: 1, refID: 1, firstOffset: uint64(l0), refs: [][2]uint32{{0, l1}}}}
						sx[0].refs = [][2]uint32{{1, uint32(len(sx[1].bytes()))}, {1, uint32(len(sx[2].bytes()))}}
					}
					// first_offset counts from the end of the sidx box itself: add the sidx boxes that follow
					// (the parent of the hierarchy points at its first child, which follows directly)
					for i := range sx {
						if layout == "hierarchical-3" && i == 0 {
							continue
						}
						for j := i + 1; j < len(sx); j++ {
							sx[i].firstOffset += uint64(len(sx[j].bytes()))
						}
					}
					var f []byte
					if withInit {
						f = append(f, initBytes...)
					}
					for _, s := range sx {
						f = append(f, s.bytes()...)
					}
					f = append(append(f, segs[0]...), segs[1]...)
					out = append(out, namedSeed{fmt.Sprintf("crafted#top-sidx[%s,init=%v,styp=%v,sidx-between-segments=%v]", layout, withInit, withStyp, between), f})
				}
			}
		}
	}
	return out
}

// PartsOf returns, for an input that decodes to a fragmented file, one media
// segment and one of its fragments (per file decode path for unmutated seeds
// and replays, else through one of the two paths) as structures of their
// own (MediaSegment.Encode / Fragment.Encode are public entry points that a
// segmenter calls on decoded structures), 1 in 4 with trun optimisation on.
func PartsOf(c *runner.Ctx, in Input) []Struct {
	var out []Struct
	paths := FilePaths
	if in.Gen != "seed" && in.Gen != "replay" {
		paths = []string{FilePaths[c.Rand.Intn(len(FilePaths))]}
	}
	for _, path := range paths {
		path := path
		d := Decode(c, path, in.Data)
		if !d.OK || d.File == nil || !d.File.IsFragmented() || len(d.File.Segments) == 0 {
			continue
		}
		x := in.Data[:d.Consumed]
		nseg := len(d.File.Segments)
		add := func(si, fi int, opt bool) {
			level, nfr := "MediaSegment", len(d.File.Segments[si].Fragments)
			if fi >= 0 {
				level = "Fragment"
			}
			kind := "decoded/" + path + "/" + level
			if opt {
				kind += ",optimize"
			}
			out = append(out, Struct{Kind: kind, Decoded: true, Optimize: opt, Input: x,
				Desc: fmt.Sprintf("%s | %s | segment %d of %d, fragment %d of %d", in.Name, in.Desc, si, nseg, fi, nfr),
				New: func() Encodable {
					dd := Decode(c, path, x)
					if !dd.OK || dd.File == nil || si >= len(dd.File.Segments) {
						return nil
					}
					sg := dd.File.Segments[si]
					if fi < 0 {
						if opt {
							sg.EncOptimize = mp4.OptimizeTrun
						}
						return sg
					}
					if fi >= len(sg.Fragments) {
						return nil
					}
					fr := sg.Fragments[fi]
					if opt {
						fr.EncOptimize = mp4.OptimizeTrun
					}
					return fr
				}})
		}
		if in.Gen == "replay" {
			// a witness: every segment and fragment (up to 8 each), with and without optimisation
			for si := 0; si < nseg && si < 8; si++ {
				for _, opt := range []bool{false, true} {
					add(si, -1, opt)
					for fi := 0; fi < len(d.File.Segments[si].Fragments) && fi < 8; fi++ {
						add(si, fi, opt)
					}
				}
			}
			continue
		}
		si := c.Rand.Intn(nseg)
		add(si, -1, c.Rand.Chance(1, 4))
		if n := len(d.File.Segments[si].Fragments); n > 0 {
			add(si, c.Rand.Intn(n), c.Rand.Chance(1, 4))
		}
	}
	return out
}

// ---------------------------------------------------------------------------
// sidx family

// sidxValues are the values for the 64-bit public fields of a SidxBox: below,
// at and above the 32-bit limit (a version 0 box has 32-bit fields).
var sidxValues = []uint64{0, 1000, 1<<31 + 5, 1<<32 - 1, 1 << 32, 1<<32 + 3003, 1<<40 + 7, 0xfffffffffffffff0}

// PickSidxRecipe draws one member of the sidx family: Version 0/1 x values
// below/at/above 2^32 in EarliestPresentationTime and FirstOffset x reference
// fields at their bit-field limits x how the box came to be (CreateSidx and
// public fields, struct literal, decoded box whose public fields are changed)
// x where it sits (alone, in an API-built MediaSegment, in a decoded File).
func PickSidxRecipe(r *runner.Rand) string {
	ver := r.Intn(2)
	ept, fo := sidxValues[r.Intn(len(sidxValues))], uint64(0)
	switch r.Intn(4) {
	case 0:
		fo = sidxValues[r.Intn(len(sidxValues))]
	case 1:
		fo, ept = ept, uint64(r.Intn(5000))
	}
	return fmt.Sprintf("sidx ver=%d ept=%#x fo=%#x refs=%d big=%d how=%s wrap=%s", ver, ept, fo, r.Intn(4), r.Intn(2),
		r.PickStr("create", "create", "literal", "decoded"), r.PickStr("box", "segment", "segment", "file", "file"))
}

// rawSidx is a sidx box written by hand: small values, nrefs references.
func rawSidx(ver byte, nrefs int) []byte {
	p := [][]byte{rb32(uint32(ver) << 24), rb32(1), rb32(90000)}
	if ver == 0 {
		p = append(p, rb32(9000), rb32(0))
	} else {
		p = append(p, rb64(9000), rb64(0))
	}
	p = append(p, []byte{0, 0, byte(nrefs >> 8), byte(nrefs)})
	for i := 0; i < nrefs; i++ {
		p = append(p, rb32(uint32(1000+i)), rb32(90000), rb32(0x90000000))
	}
	return rawBox("sidx", p...)
}

func fromSidxRecipe(c *runner.Ctx, recipe string, f map[string]string) []Struct {
	u := func(k string) uint64 {
		v, _ := strconv.ParseUint(f[k], 0, 64)
		return v
	}
	ver, ept, fo, nrefs, big, how, wrap := byte(u("ver")), u("ept"), u("fo"), int(u("refs")), u("big") == 1, f["how"], f["wrap"]
	if ver > 1 || nrefs < 0 || nrefs > 64 {
		return nil
	}
	// set applies the recipe's values through the public fields
	set := func(sx *mp4.SidxBox) {
		sx.ReferenceID, sx.Timescale = 1, 90000
		sx.EarliestPresentationTime, sx.FirstOffset = ept, fo
		sx.SidxRefs = sx.SidxRefs[:0]
		for i := 0; i < nrefs; i++ {
			rf := mp4.SidxRef{ReferencedSize: uint32(1000 + i), SubSegmentDuration: 90000, StartsWithSAP: 1, SAPType: 1}
			if big {
				// the limits of the bit fields (31-bit referenced_size, 28-bit SAP_delta_time, 3-bit SAP_type)
				rf = mp4.SidxRef{ReferencedSize: 1<<31 - 1, SubSegmentDuration: 0xffffffff, SAPDeltaTime: 1<<28 - 1, ReferenceType: uint8(i & 1), StartsWithSAP: 1, SAPType: 7}
			}
			sx.SidxRefs = append(sx.SidxRefs, rf)
		}
	}
	mkSidx := func() *mp4.SidxBox {
		var sx *mp4.SidxBox
		switch how {
		case "create":
			// CreateSidx chooses the version from the base media decode time
			base := uint64(0)
			if ver == 1 {
				base = 1 << 32
			}
			sx = mp4.CreateSidx(base)
			if sx == nil || sx.Version != ver {
				return nil
			}
		case "literal":
			sx = &mp4.SidxBox{Version: ver}
		case "decoded":
			b, err := mp4.DecodeBox(0, bytes.NewReader(rawSidx(ver, nrefs)))
			d, ok := b.(*mp4.SidxBox)
			if err != nil || !ok {
				return nil
			}
			sx = d
		default:
			return nil
		}
		set(sx)
		return sx
	}
	mkFrag := func() *mp4.Fragment {
		fr, err := mp4.CreateFragment(1, 1)
		if err != nil {
			return nil
		}
		for i := 0; i < 2; i++ {
			fr.AddFullSample(mp4.FullSample{Sample: mp4.Sample{Flags: mp4.SyncSampleFlags, Dur: 90000, Size: 4, CompositionTimeOffset: 3003},
				DecodeTime: ept + uint64(i)*90000, Data: []byte{1, 2, 3, byte(i)}})
		}
		return fr
	}
	var build func() Encodable
	kind := "api/sidx[" + how + "]"
	switch wrap {
	case "box":
		build = func() Encodable {
			if sx := mkSidx(); sx != nil {
				return sx
			}
			return nil
		}
	case "segment":
		kind = "api/MediaSegment[sidx " + how + "]"
		build = func() Encodable {
			sx, fr := mkSidx(), mkFrag()
			if sx == nil || fr == nil {
				return nil
			}
			var ms *mp4.MediaSegment
			if nrefs%2 == 0 {
				ms = mp4.NewMediaSegment()
			} else {
				ms = mp4.NewMediaSegmentWithoutStyp()
			}
			ms.AddSidx(sx)
			ms.AddFragment(fr)
			return ms
		}
	case "file":
		// a decoded file (styp, sidx, moof, mdat written by hand and by the API with small values)
		// whose segment index is then brought up to date through the public fields; or (how=create)
		// a file assembled from API-made boxes through File.AddChild
		kind = "api/File[decoded, sidx fields set," + how + "]"
		if how == "create" {
			kind = "api/File[AddChild, sidx create]"
		}
		build = func() Encodable {
			fr := mkFrag()
			if fr == nil {
				return nil
			}
			if how == "create" {
				// a file put together through File.AddChild: styp, sidx, moof, mdat
				sx := mkSidx()
				if sx == nil {
					return nil
				}
				fl := mp4.NewFile()
				var pos uint64
				for _, b := range append([]mp4.Box{mp4.NewMediaSegment().Styp, sx}, fr.Children...) {
					fl.AddChild(b, pos)
					pos += b.Size()
				}
				// (segment mode only: in box-tree mode the moof of an API-made fragment is refused,
				// its data offset is only set by Fragment.Encode)
				return fl
			}
			var buf bytes.Buffer
			buf.Write(rawBox("styp", []byte("msdh"), rb32(0), []byte("msdhmsix")))
			buf.Write(rawSidx(ver, nrefs))
			if fr.Encode(&buf) != nil {
				return nil
			}
			fl, err := mp4.DecodeFile(bytes.NewReader(buf.Bytes()))
			if err != nil || len(fl.Segments) != 1 || len(fl.Segments[0].Sidxs) != 1 {
				return nil
			}
			sx := fl.Segments[0].Sidxs[0]
			if how == "literal" {
				// the caller replaces the decoded box by one of its own
				nx := &mp4.SidxBox{Version: ver}
				for i, ch := range fl.Children {
					if ch == mp4.Box(sx) {
						fl.Children[i] = nx
					}
				}
				fl.Segments[0].Sidxs[0] = nx
				sx = nx
			}
			set(sx)
			if nrefs%2 == 1 {
				fl.FragEncMode = mp4.EncModeBoxTree
			}
			return fl
		}
	default:
		return nil
	}
	return []Struct{{Kind: kind, Recipe: recipe, Desc: recipe, SegMode: false, New: func() Encodable {
		var x Encodable
		if pi := c.Guard(func() { x = build() }); pi != nil {
			return nil
		}
		return x
	}}}
}
