package work

import (
	"reflect"

	"github.com/Eyevinn/mp4ff/mp4"
)

// TypeOf names a structure: the box type for boxes, else the Go type name.
func TypeOf(x Encodable) string {
	if b, ok := x.(mp4.Box); ok {
		return b.Type()
	}
	t := reflect.TypeOf(x)
	for t.Kind() == reflect.Ptr {
		t = t.Elem()
	}
	return t.Name()
}

var boxSliceType = reflect.TypeOf([]mp4.Box(nil))

// Children returns the direct children of a library structure in encoding
// order: GetChildren() where it exists, otherwise the exported field
// `Children []Box` (sample entries, stsd, dref, trep, stpp, InitSegment,
// File); for a MediaSegment styp, sidx boxes and fragments; nil for leaves.
func Children(x Encodable) []Encodable {
	var out []Encodable
	switch v := x.(type) {
	case *mp4.MediaSegment:
		if v.Styp != nil {
			out = append(out, v.Styp)
		}
		for _, s := range v.Sidxs {
			out = append(out, s)
		}
		for _, f := range v.Fragments {
			out = append(out, f)
		}
		return out
	case interface{ GetChildren() []mp4.Box }:
		for _, b := range v.GetChildren() {
			if b != nil {
				out = append(out, b)
			}
		}
		return out
	}
	rv := reflect.ValueOf(x)
	for rv.Kind() == reflect.Ptr {
		if rv.IsNil() {
			return nil
		}
		rv = rv.Elem()
	}
	if rv.Kind() != reflect.Struct {
		return nil
	}
	f := rv.FieldByName("Children")
	if !f.IsValid() || f.Type() != boxSliceType || !f.CanInterface() {
		return nil
	}
	for _, b := range f.Interface().([]mp4.Box) {
		if b != nil {
			out = append(out, b)
		}
	}
	return out
}

// LazyMdatBytes sums the payload sizes of lazily handled mdat boxes in the
// structure: by the documented contract of MdatBox (SetLazyDataSize /
// DecodeMdatLazily) their payload is counted by Size() but written by the
// caller, not by Encode.
func LazyMdatBytes(x Encodable) uint64 {
	if m, ok := x.(*mp4.MdatBox); ok {
		if m.IsLazy() {
			return m.GetLazyDataSize()
		}
		return 0
	}
	var n uint64
	for _, ch := range Children(x) {
		n += LazyMdatBytes(ch)
	}
	return n
}
