// Package work is the workload shared by the three round-trip monitors C01
// (lossless re-encode), C02 (Size = bytes = size fields) and C03 (the two
// decoders / two encoders are interchangeable): one case list, three oracles.
package work

import (
	"bytes"
	"fmt"
	"io"

	"github.com/Eyevinn/mp4ff/bits"
	"github.com/Eyevinn/mp4ff/mp4"

	"verifharness/corpus"
	"verifharness/mut"
	"verifharness/runner"
)

const (
	// MaxFileLen: whole files above this length are only used in their
	// mdat-shrunk form.
	MaxFileLen = 256 << 10
	// MaxEncode: structures whose Size() claims more than this are not encoded
	// (a Size() that inflated is C04's business).
	MaxEncode = 16 << 20
)

// Input is one case input.
type Input struct {
	Name string // seed name
	Kind string // seed kind: file | file-shrunk | box | built | fuzz
	Type string // box type of box seeds
	Desc string // mutation description ("none" for corpus seeds)
	Gen  string // generator class: seed | gentle | bitflip | field | N1 | N2 | N3 | nest | sequence
	Data []byte
}

var (
	// Seeds is the unmutated seed list (set by Setup).
	Seeds []Input
	// smallIdx: indices of seeds of at most 8 KiB (mutation favours them).
	smallIdx []int
	boxIdx   []int // indices of box seeds (single boxes)
	moovIdx  []int // seeds containing a moov
)

// Setup loads the corpus (once per process).
func Setup(env *runner.Env) error {
	if Seeds != nil {
		return nil
	}
	cor, err := corpus.Load(env.RepoDir)
	if err != nil {
		return err
	}
	for _, f := range cor.Files {
		if len(f.Data) <= MaxFileLen {
			Seeds = append(Seeds, Input{Name: f.Name, Kind: "file", Data: f.Data})
		}
		sh := mut.ShrinkMdat(f.Data, 64)
		if len(sh) != len(f.Data) && len(sh) <= MaxFileLen {
			Seeds = append(Seeds, Input{Name: f.Name + "#shrunk", Kind: "file-shrunk", Data: sh})
		}
	}
	for _, f := range cor.Files {
		for i, v := range sencShapes(mut.ShrinkMdat(f.Data, 64)) {
			if len(v) <= MaxFileLen {
				Seeds = append(Seeds, Input{Name: fmt.Sprintf("%s#senc-shape%d", f.Name, i), Kind: "file-shrunk", Data: v})
			}
		}
	}
	for i, v := range multiTrackEncrypted(cor) {
		if len(v) <= MaxFileLen {
			Seeds = append(Seeds, Input{Name: fmt.Sprintf("crafted#multi-track-encrypted%d", i), Kind: "file-shrunk", Data: v})
		}
	}
	for _, v := range fragmentAddressingSeeds(cor) {
		if len(v.data) <= MaxFileLen {
			Seeds = append(Seeds, Input{Name: v.name, Kind: "file-shrunk", Data: v.data})
		}
	}
	// fragmented files with 1..3 sidx boxes at the top level in front of the first segment
	for _, v := range topSidxSeeds() {
		if len(v.data) <= MaxFileLen {
			Seeds = append(Seeds, Input{Name: v.name, Kind: "file-shrunk", Data: v.data})
		}
	}
	// whole hand-built files (several top-level boxes): handler-name shapes in progressive and
	// fragmented files, encrypted fragments with sample-group boxes next to the senc
	for _, f := range corpus.BuiltFiles() {
		if len(f.Data) <= MaxFileLen {
			Seeds = append(Seeds, Input{Name: f.Name, Kind: f.Kind, Type: f.Type, Data: f.Data})
		}
	}
	for _, b := range cor.Boxes {
		Seeds = append(Seeds, Input{Name: b.Name, Kind: b.Kind, Type: b.Type, Data: b.Data})
	}
	for _, f := range cor.Fuzz {
		if len(f.Data) <= MaxFileLen {
			Seeds = append(Seeds, Input{Name: f.Name, Kind: "fuzz", Data: f.Data})
		}
	}
	if len(Seeds) == 0 {
		return fmt.Errorf("empty corpus under %s", env.RepoDir)
	}
	for i := range Seeds {
		Seeds[i].Desc, Seeds[i].Gen = "none", "seed"
		if len(Seeds[i].Data) <= 8<<10 {
			smallIdx = append(smallIdx, i)
		}
		if Seeds[i].Kind == "box" || Seeds[i].Kind == "built" {
			boxIdx = append(boxIdx, i)
		}
		if bytes.Contains(Seeds[i].Data, []byte("moov")) && len(Seeds[i].Data) <= 32<<10 {
			moovIdx = append(moovIdx, i)
		}
	}
	return nil
}

// NumMutants is the number of generated inputs per tier.
func NumMutants(tier string) int {
	if tier == "thorough" {
		return 3000000
	}
	return 120000
}

// NumInputs is the size of the shared case list.
func NumInputs(env *runner.Env) int {
	return len(Seeds) + NumMutants(env.Tier)
}

func pickSmall(r *runner.Rand) Input {
	if len(smallIdx) > 0 && !r.Chance(1, 12) {
		return Seeds[smallIdx[r.Intn(len(smallIdx))]]
	}
	return Seeds[r.Intn(len(Seeds))]
}

func pickBox(r *runner.Rand) Input {
	if len(boxIdx) == 0 {
		return pickSmall(r)
	}
	return Seeds[boxIdx[r.Intn(len(boxIdx))]]
}

// InputAt builds input idx of the case list; all randomness from r.
func InputAt(r *runner.Rand, idx int) Input {
	if idx < len(Seeds) {
		return Seeds[idx]
	}
	var in Input
	roll := r.Intn(100)
	switch {
	case roll < 32:
		s, o := pickSmall(r), pickSmall(r)
		in = s
		in.Gen = "gentle"
		in.Data, in.Desc = mut.Mutate(r, s.Data, o.Data, mut.Gentle)
	case roll < 52:
		s := pickBox(r)
		in = s
		in.Gen = "bitflip"
		in.Data, in.Desc = mut.BitFlip(r, s.Data)
	case roll < 70:
		s := pickBox(r)
		in = s
		in.Gen = "field"
		in.Data, in.Desc = mut.FieldValue(r, s.Data)
		if r.Chance(1, 4) {
			var d string
			in.Data, d = mut.FieldValue(r, in.Data)
			in.Desc += "; " + d
		}
	case roll < 78:
		s := pickSmall(r)
		in = s
		in.Gen = "N1"
		in.Data, in.Desc = mut.LargeSize(r, s.Data)
	case roll < 83:
		s := pickSmall(r)
		if len(moovIdx) > 0 {
			s = Seeds[moovIdx[r.Intn(len(moovIdx))]]
		}
		in = s
		in.Gen = "N2"
		in.Data, in.Desc = mut.TrakShuffle(r, s.Data)
	case roll < 88:
		s := pickBox(r)
		in = s
		in.Gen = "N3"
		in.Data, in.Desc = mut.Surplus(r, s.Data)
	case roll < 95:
		s := pickBox(r)
		in = s
		in.Gen = "nest"
		in.Data, in.Desc = mut.Nest(r, s.Data)
		if r.Chance(1, 3) {
			var d string
			in.Data, d = mut.BitFlip(r, in.Data)
			in.Desc += "; " + d
		}
	default:
		s, o := pickSmall(r), pickBox(r)
		in = s
		in.Gen = "sequence"
		in.Data, in.Desc = mut.Sequence(r, s.Data, o.Data)
	}
	if len(in.Data) > 4*MaxFileLen {
		in.Data = in.Data[:4*MaxFileLen]
		in.Desc += "; cap"
	}
	return in
}

// ---------------------------------------------------------------------------
// decode paths

// Path names.
const (
	PBox    = "DecodeBox"
	PBoxSR  = "DecodeBoxSR"
	PFile   = "DecodeFile"
	PFileSR = "DecodeFileSR"
)

// BoxPaths / FilePaths list the paths of each level.
var (
	BoxPaths  = []string{PBox, PBoxSR}
	FilePaths = []string{PFile, PFileSR}
)

// Dec is the result of one decode path on one input.
type Dec struct {
	Path     string
	OK       bool
	Err      error
	Panic    *runner.PanicInfo
	Box      mp4.Box   // box level
	File     *mp4.File // file level
	Consumed int       // bytes of the input the path consumed (box level: the first box)
}

// Obj returns the decoded structure as an Encodable.
func (d *Dec) Obj() Encodable {
	if d.File != nil {
		return d.File
	}
	return d.Box
}

// Decode runs one path on in. A panic is recovered and reported in Dec.Panic
// (crashes are C04's subject; here the input is then outside the path's domain).
func Decode(c *runner.Ctx, path string, in []byte) *Dec {
	return DecodeVia(c, path, in, nil)
}

// DecodeVia is Decode with a wrapper around the reader of the io.Reader
// paths (1-byte / short-chunk delivery).
func DecodeVia(c *runner.Ctx, path string, in []byte, wrap func(io.Reader) io.Reader) *Dec {
	d := &Dec{Path: path}
	d.Panic = c.Guard(func() {
		switch path {
		case PBox:
			br := bytes.NewReader(in)
			var r io.Reader = br
			if wrap != nil {
				r = wrap(br)
			}
			d.Box, d.Err = mp4.DecodeBox(0, r)
			d.Consumed = len(in) - br.Len()
		case PBoxSR:
			sr := bits.NewFixedSliceReader(in)
			d.Box, d.Err = mp4.DecodeBoxSR(0, sr)
			if d.Err == nil {
				// the SR decoders store errors in the reader ("accumulated error"); a
				// caller must check it, an input that sets it is not accepted
				d.Err = sr.AccError()
			}
			d.Consumed = sr.GetPos()
		case PFile:
			br := bytes.NewReader(in)
			var r io.Reader = br
			if wrap != nil {
				r = wrap(br)
			}
			d.File, d.Err = mp4.DecodeFile(r)
			d.Consumed = len(in) - br.Len()
		case PFileSR:
			sr := bits.NewFixedSliceReader(in)
			d.File, d.Err = mp4.DecodeFileSR(sr)
			if d.Err == nil {
				d.Err = sr.AccError()
			}
			d.Consumed = sr.GetPos()
		}
	})
	if d.Panic != nil {
		c.Seen("panic_outside_domain(C04)", runner.PanicKey("decode", d.Panic))
		d.Box, d.File = nil, nil
		return d
	}
	if d.Err != nil || (d.Box == nil && d.File == nil) {
		d.Box, d.File = nil, nil
		return d
	}
	if d.Consumed < 0 || d.Consumed > len(in) {
		d.Consumed = len(in)
	}
	if d.Box != nil {
		// the accepted byte string is the first box as delimited by its own
		// header (the SliceReader leaf decoders do not advance to the end of a
		// box with surplus bytes; the io.Reader path always reads the whole body)
		if n := FirstBoxLen(in); n > 0 && n <= len(in) {
			d.Consumed = n
		}
	}
	d.OK = true
	return d
}

// FirstBoxLen reads the size of the first box from its header (0 if there is
// no complete header or the size is smaller than the header).
func FirstBoxLen(in []byte) int {
	if len(in) < 8 {
		return 0
	}
	n := uint64(in[0])<<24 | uint64(in[1])<<16 | uint64(in[2])<<8 | uint64(in[3])
	h := uint64(8)
	if n == 1 {
		if len(in) < 16 {
			return 0
		}
		n = 0
		for _, b := range in[8:16] {
			n = n<<8 | uint64(b)
		}
		h = 16
	}
	if n < h || n > uint64(len(in)) {
		return 0
	}
	return int(n)
}

// OneByteReader delivers one byte per Read.
type OneByteReader struct{ R io.Reader }

func (o OneByteReader) Read(p []byte) (int, error) {
	if len(p) == 0 {
		return 0, nil
	}
	return o.R.Read(p[:1])
}

// ChunkReader delivers 1..7 bytes per Read.
type ChunkReader struct {
	R   io.Reader
	Rng *runner.Rand
}

func (o ChunkReader) Read(p []byte) (int, error) {
	if len(p) == 0 {
		return 0, nil
	}
	n := 1 + o.Rng.Intn(7)
	if n > len(p) {
		n = len(p)
	}
	return o.R.Read(p[:n])
}

// ---------------------------------------------------------------------------
// encoders

// Encodable is what boxes, files, fragments, media segments and init
// segments have in common.
type Encodable interface {
	Size() uint64
	Encode(w io.Writer) error
	EncodeSW(sw bits.SliceWriter) error
	Info(w io.Writer, specificBoxLevels, indent, indentStep string) error
}

// Enc is the result of one encode.
type Enc struct {
	Bytes []byte
	Err   error
	Panic *runner.PanicInfo
	Skip  bool // Size() above MaxEncode: not attempted
}

// OK tells whether the encoder reported success.
func (e *Enc) OK() bool { return e.Err == nil && e.Panic == nil && !e.Skip }

// EncodeW encodes through the io.Writer path.
func EncodeW(c *runner.Ctx, x Encodable) *Enc {
	e := &Enc{}
	var buf bytes.Buffer
	e.Panic = c.Guard(func() {
		// bytes that will really be written: a lazy mdat contributes its header only
		if sz := x.Size(); sz-minU64(LazyMdatBytes(x), sz) > MaxEncode {
			e.Skip = true
			return
		}
		e.Err = x.Encode(&buf)
	})
	if e.Panic != nil {
		c.Seen("panic_outside_domain(C04)", runner.PanicKey("encode", e.Panic))
	}
	e.Bytes = buf.Bytes()
	return e
}

func minU64(a, b uint64) uint64 {
	if a < b {
		return a
	}
	return b
}

// EncodeSW encodes through the SliceWriter path into a FixedSliceWriter of
// capacity Size()+slack (so that an over-long encode is seen as length).
func EncodeSW(c *runner.Ctx, x Encodable, slack int) *Enc {
	e := &Enc{}
	e.Panic = c.Guard(func() {
		s := x.Size()
		s -= minU64(LazyMdatBytes(x), s) // a lazy mdat contributes its header only
		if s > MaxEncode {
			e.Skip = true
			return
		}
		// a caller-owned buffer that is not zeroed (a recycled one): every byte of the box must be written
		buf := make([]byte, int(s)+slack)
		for i := range buf {
			buf[i] = 0xA5
		}
		sw := bits.NewFixedSliceWriterFromSlice(buf)
		e.Err = x.EncodeSW(sw)
		if e.Err == nil {
			e.Err = sw.AccError()
		}
		e.Bytes = sw.Bytes()
	})
	if e.Panic != nil {
		c.Seen("panic_outside_domain(C04)", runner.PanicKey("encode", e.Panic))
	}
	return e
}

// SetLossless puts a decoded file into the documented lossless encode mode:
// box-tree mode when fragmented (progressive files are a plain child loop).
func SetLossless(f *mp4.File) {
	if f.IsFragmented() {
		f.FragEncMode = mp4.EncModeBoxTree
	}
}

// sencShapes rewrites every senc box of a file that also carries a tenc (so
// that the decoder parses the senc) into the per-sample shapes real content
// rarely has: sub-sample flag set with zero sub-samples for every sample, and
// sub-sample flag cleared (IVs only). Sizes are re-derived by the serializer.
func sencShapes(data []byte) [][]byte {
	ivSize := -1
	if es := mut.Parse(data); es != nil {
		var find func([]*mut.E)
		find = func(l []*mut.E) {
			for _, e := range l {
				if e.Type == "tenc" && len(e.Payload) >= 8 && ivSize < 0 {
					ivSize = int(e.Payload[7])
				}
				find(e.Children)
			}
		}
		find(es)
	}
	if ivSize != 0 && ivSize != 8 && ivSize != 16 {
		return nil
	}
	var out [][]byte
	for _, shape := range []int{0, 1} {
		es := mut.Parse(data)
		n := 0
		var walk func([]*mut.E)
		walk = func(l []*mut.E) {
			for _, e := range l {
				if e.Type == "senc" && len(e.Payload) >= 8 {
					p := e.Payload
					flags := p[3]
					count := int(p[4])<<24 | int(p[5])<<16 | int(p[6])<<8 | int(p[7])
					pos := 8
					np := append([]byte(nil), p[:8]...)
					ok := count < 4096
					for i := 0; ok && i < count; i++ {
						if pos+ivSize > len(p) {
							ok = false
							break
						}
						np = append(np, p[pos:pos+ivSize]...)
						pos += ivSize
						if flags&2 != 0 {
							if pos+2 > len(p) {
								ok = false
								break
							}
							pos += 2 + 6*(int(p[pos])<<8|int(p[pos+1]))
						}
						if shape == 0 {
							np = append(np, 0, 0) // subsample_count 0
						}
					}
					if ok && pos == len(p) {
						if shape == 0 {
							np[3] |= 2
						} else {
							np[3] &^= 2
						}
						e.Payload = np
						n++
					}
				}
				walk(e.Children)
			}
		}
		walk(es)
		if n > 0 {
			out = append(out, mut.Serialize(es))
		}
	}
	return out
}

func findE(l []*mut.E, path ...string) *mut.E {
	for _, e := range l {
		if e.Type == path[0] {
			if len(path) == 1 {
				return e
			}
			if r := findE(e.Children, path[1:]...); r != nil {
				return r
			}
		}
	}
	return nil
}

func findDeep(l []*mut.E, t string) *mut.E {
	for _, e := range l {
		if e.Type == t {
			return e
		}
		if r := findDeep(e.Children, t); r != nil {
			return r
		}
	}
	return nil
}

// encInfo describes an encrypted fragmented file of the corpus and the track
// its first fragment belongs to.
type encInfo struct {
	name   string
	data   []byte
	ivSize int
	track  uint32
}

func be32(p []byte, off int) uint32 {
	if len(p) < off+4 {
		return 0
	}
	return uint32(p[off])<<24 | uint32(p[off+1])<<16 | uint32(p[off+2])<<8 | uint32(p[off+3])
}

func tkhdIDOff(tk *mut.E) int {
	if len(tk.Payload) > 0 && tk.Payload[0] == 1 {
		return 4 + 16
	}
	return 4 + 8
}

// trakByID returns the trak (and its trex) of moov with the given track id.
func trakByID(moov *mut.E, id uint32) (trak, trex *mut.E) {
	for _, c := range moov.Children {
		if c.Type == "trak" {
			if tk := findE(c.Children, "tkhd"); tk != nil && be32(tk.Payload, tkhdIDOff(tk)) == id {
				trak = c
			}
		}
		if c.Type == "mvex" {
			for _, x := range c.Children {
				if x.Type == "trex" && be32(x.Payload, 4) == id {
					trex = x
				}
			}
		}
	}
	return
}

// multiTrackEncrypted merges pairs of encrypted files whose fragment tracks
// have different per-sample IV sizes into one file whose fragments carry two
// trafs: the protection parameters of every traf must then be looked up by
// that traf's own track id.
func multiTrackEncrypted(cor *corpus.Corpus) [][]byte {
	var encs []encInfo
	for _, f := range cor.Files {
		d := mut.ShrinkMdat(f.Data, 64)
		es := mut.Parse(d)
		if es == nil {
			continue
		}
		moov, traf := findE(es, "moov"), findE(es, "moof", "traf")
		if moov == nil || traf == nil || findE(traf.Children, "senc") == nil {
			continue
		}
		tfhd := findE(traf.Children, "tfhd")
		if tfhd == nil {
			continue
		}
		id := be32(tfhd.Payload, 4)
		trak, trex := trakByID(moov, id)
		if trak == nil || trex == nil {
			continue
		}
		tenc := findDeep(trak.Children, "tenc")
		if tenc == nil || len(tenc.Payload) < 8 {
			continue
		}
		encs = append(encs, encInfo{f.Name, d, int(tenc.Payload[7]), id})
	}
	setID := func(e *mut.E, off int, id uint32) {
		if e != nil && len(e.Payload) >= off+4 {
			e.Payload[off], e.Payload[off+1], e.Payload[off+2], e.Payload[off+3] = byte(id>>24), byte(id>>16), byte(id>>8), byte(id)
		}
	}
	var out [][]byte
	for _, a := range encs {
		for _, b := range encs {
			if a.ivSize == b.ivSize || len(out) >= 6 {
				continue
			}
			ea, eb := mut.Parse(a.data), mut.Parse(b.data)
			moovA, moovB := findE(ea, "moov"), findE(eb, "moov")
			// a new track id for b's track, above all ids of a
			newID := uint32(0)
			for _, c := range moovA.Children {
				if c.Type == "trak" {
					if tk := findE(c.Children, "tkhd"); tk != nil {
						if id := be32(tk.Payload, tkhdIDOff(tk)); id > newID {
							newID = id
						}
					}
				}
			}
			newID++
			trakB, trexB := trakByID(moovB, b.track)
			mvexA := findE(moovA.Children, "mvex")
			if trakB == nil || trexB == nil || mvexA == nil {
				continue
			}
			tkB := findE(trakB.Children, "tkhd")
			setID(tkB, tkhdIDOff(tkB), newID)
			setID(trexB, 4, newID)
			// moov of a: its traks, then b's trak; mvex gets b's trex
			var ch []*mut.E
			lastTrak := -1
			for i, c := range moovA.Children {
				if c.Type == "trak" {
					lastTrak = i
				}
			}
			for i, c := range moovA.Children {
				ch = append(ch, c)
				if i == lastTrak {
					ch = append(ch, trakB)
				}
			}
			moovA.Children = ch
			mvexA.Children = append(mvexA.Children, trexB)
			n := 0
			for _, e := range ea {
				if e.Type != "moof" || findE(e.Children, "traf") == nil {
					continue
				}
				// a fresh copy of b's traf for this moof, with its saio offset
				// pointing at its own senc data (relative to the moof start)
				tb := findE(mut.Parse(b.data), "moof", "traf")
				setID(findE(tb.Children, "tfhd"), 4, newID)
				off := 8
				for _, c := range e.Children {
					off += c.Size()
				}
				off += 8
				for _, c := range tb.Children {
					if c.Type == "senc" {
						break
					}
					off += c.Size()
				}
				off += 16
				if saio := findE(tb.Children, "saio"); saio != nil && len(saio.Payload) >= 12 {
					p := 4
					if saio.Payload[3]&1 != 0 {
						p += 8
					}
					p += 4 // entry_count
					if saio.Payload[0] == 0 && len(saio.Payload) >= p+4 {
						setID(saio, p, uint32(off))
					} else if len(saio.Payload) >= p+8 {
						setID(saio, p, 0)
						setID(saio, p+4, uint32(off))
					}
				}
				e.Children = append(e.Children, tb)
				n++
			}
			if n > 0 {
				out = append(out, mut.Serialize(ea))
			}
		}
	}
	return out
}
