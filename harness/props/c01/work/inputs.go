// Package work is the workload shared by the three round-trip monitors C01
// (lossless re-encode), C02 (Size = bytes = size fields) and C03 (the two
// decoders / two encoders are interchangeable): one case list, three oracles.
package work

import (
	"bytes"
	"fmt"
	"io"

	"github.com/Eyevinn/mp4ff/bits"
	"github.com/Eyevinn/mp4ff/mp4"

	"verifharness/corpus"
	"verifharness/mut"
	"verifharness/runner"
)

const (
	// MaxFileLen: whole files above this length are only used in their
	// mdat-shrunk form.
	MaxFileLen = 256 << 10
	// MaxEncode: structures whose Size() claims more than this are not encoded
	// (a Size() that inflated is C04's business).
	MaxEncode = 16 << 20
)

// Input is one case input.
type Input struct {
	Name string // seed name
	Kind string // seed kind: file | file-shrunk | box | built | fuzz
	Type string // box type of box seeds
	Desc string // mutation description ("none" for corpus seeds)
	Gen  string // generator class: seed | gentle | bitflip | field | N1 | N2 | N3 | nest | sequence
	Data []byte
}

var (
	// Seeds is the unmutated seed list (set by Setup).
	Seeds []Input
	// smallIdx: indices of seeds of at most 8 KiB (mutation favours them).
	smallIdx []int
	boxIdx   []int // indices of box seeds (single boxes)
	moovIdx  []int // seeds containing a moov
)

// Setup loads the corpus (once per process).
func Setup(env *runner.Env) error {
	if Seeds != nil {
		return nil
	}
	cor, err := corpus.Load(env.RepoDir)
	if err != nil {
		return err
	}
	for _, f := range cor.Files {
		if len(f.Data) <= MaxFileLen {
			Seeds = append(Seeds, Input{Name: f.Name, Kind: "file", Data: f.Data})
		}
		sh := mut.ShrinkMdat(f.Data, 64)
		if len(sh) != len(f.Data) && len(sh) <= MaxFileLen {
			Seeds = append(Seeds, Input{Name: f.Name + "#shrunk", Kind: "file-shrunk", Data: sh})
		}
	}
	for _, b := range cor.Boxes {
		Seeds = append(Seeds, Input{Name: b.Name, Kind: b.Kind, Type: b.Type, Data: b.Data})
	}
	for _, f := range cor.Fuzz {
		if len(f.Data) <= MaxFileLen {
			Seeds = append(Seeds, Input{Name: f.Name, Kind: "fuzz", Data: f.Data})
		}
	}
	if len(Seeds) == 0 {
		return fmt.Errorf("empty corpus under %s", env.RepoDir)
	}
	for i := range Seeds {
		Seeds[i].Desc, Seeds[i].Gen = "none", "seed"
		if len(Seeds[i].Data) <= 8<<10 {
			smallIdx = append(smallIdx, i)
		}
		if Seeds[i].Kind == "box" || Seeds[i].Kind == "built" {
			boxIdx = append(boxIdx, i)
		}
		if bytes.Contains(Seeds[i].Data, []byte("moov")) && len(Seeds[i].Data) <= 32<<10 {
			moovIdx = append(moovIdx, i)
		}
	}
	return nil
}

// NumMutants is the number of generated inputs per tier.
func NumMutants(tier string) int {
	if tier == "thorough" {
		return 3000000
	}
	return 120000
}

// NumInputs is the size of the shared case list.
func NumInputs(env *runner.Env) int {
	return len(Seeds) + NumMutants(env.Tier)
}

func pickSmall(r *runner.Rand) Input {
	if len(smallIdx) > 0 && !r.Chance(1, 12) {
		return Seeds[smallIdx[r.Intn(len(smallIdx))]]
	}
	return Seeds[r.Intn(len(Seeds))]
}

func pickBox(r *runner.Rand) Input {
	if len(boxIdx) == 0 {
		return pickSmall(r)
	}
	return Seeds[boxIdx[r.Intn(len(boxIdx))]]
}

// InputAt builds input idx of the case list; all randomness from r.
func InputAt(r *runner.Rand, idx int) Input {
	if idx < len(Seeds) {
		return Seeds[idx]
	}
	var in Input
	roll := r.Intn(100)
	switch {
	case roll < 32:
		s, o := pickSmall(r), pickSmall(r)
		in = s
		in.Gen = "gentle"
		in.Data, in.Desc = mut.Mutate(r, s.Data, o.Data, mut.Gentle)
	case roll < 52:
		s := pickBox(r)
		in = s
		in.Gen = "bitflip"
		in.Data, in.Desc = mut.BitFlip(r, s.Data)
	case roll < 70:
		s := pickBox(r)
		in = s
		in.Gen = "field"
		in.Data, in.Desc = mut.FieldValue(r, s.Data)
		if r.Chance(1, 4) {
			var d string
			in.Data, d = mut.FieldValue(r, in.Data)
			in.Desc += "; " + d
		}
	case roll < 78:
		s := pickSmall(r)
		in = s
		in.Gen = "N1"
		in.Data, in.Desc = mut.LargeSize(r, s.Data)
	case roll < 83:
		s := pickSmall(r)
		if len(moovIdx) > 0 {
			s = Seeds[moovIdx[r.Intn(len(moovIdx))]]
		}
		in = s
		in.Gen = "N2"
		in.Data, in.Desc = mut.TrakShuffle(r, s.Data)
	case roll < 88:
		s := pickBox(r)
		in = s
		in.Gen = "N3"
		in.Data, in.Desc = mut.Surplus(r, s.Data)
	case roll < 95:
		s := pickBox(r)
		in = s
		in.Gen = "nest"
		in.Data, in.Desc = mut.Nest(r, s.Data)
		if r.Chance(1, 3) {
			var d string
			in.Data, d = mut.BitFlip(r, in.Data)
			in.Desc += "; " + d
		}
	default:
		s, o := pickSmall(r), pickBox(r)
		in = s
		in.Gen = "sequence"
		in.Data, in.Desc = mut.Sequence(r, s.Data, o.Data)
	}
	if len(in.Data) > 4*MaxFileLen {
		in.Data = in.Data[:4*MaxFileLen]
		in.Desc += "; cap"
	}
	return in
}

// ---------------------------------------------------------------------------
// decode paths

// Path names.
const (
	PBox    = "DecodeBox"
	PBoxSR  = "DecodeBoxSR"
	PFile   = "DecodeFile"
	PFileSR = "DecodeFileSR"
)

// BoxPaths / FilePaths list the paths of each level.
var (
	BoxPaths  = []string{PBox, PBoxSR}
	FilePaths = []string{PFile, PFileSR}
)

// Dec is the result of one decode path on one input.
type Dec struct {
	Path     string
	OK       bool
	Err      error
	Panic    *runner.PanicInfo
	Box      mp4.Box   // box level
	File     *mp4.File // file level
	Consumed int       // bytes of the input the path consumed (box level: the first box)
}

// Obj returns the decoded structure as an Encodable.
func (d *Dec) Obj() Encodable {
	if d.File != nil {
		return d.File
	}
	return d.Box
}

// Decode runs one path on in. A panic is recovered and reported in Dec.Panic
// (crashes are C04's subject; here the input is then outside the path's domain).
func Decode(c *runner.Ctx, path string, in []byte) *Dec {
	return DecodeVia(c, path, in, nil)
}

// DecodeVia is Decode with a wrapper around the reader of the io.Reader
// paths (1-byte / short-chunk delivery).
func DecodeVia(c *runner.Ctx, path string, in []byte, wrap func(io.Reader) io.Reader) *Dec {
	d := &Dec{Path: path}
	d.Panic = c.Guard(func() {
		switch path {
		case PBox:
			br := bytes.NewReader(in)
			var r io.Reader = br
			if wrap != nil {
				r = wrap(br)
			}
			d.Box, d.Err = mp4.DecodeBox(0, r)
			d.Consumed = len(in) - br.Len()
		case PBoxSR:
			sr := bits.NewFixedSliceReader(in)
			d.Box, d.Err = mp4.DecodeBoxSR(0, sr)
			if d.Err == nil {
				// the SR decoders store errors in the reader ("accumulated error"); a
				// caller must check it, an input that sets it is not accepted
				d.Err = sr.AccError()
			}
			d.Consumed = sr.GetPos()
		case PFile:
			br := bytes.NewReader(in)
			var r io.Reader = br
			if wrap != nil {
				r = wrap(br)
			}
			d.File, d.Err = mp4.DecodeFile(r)
			d.Consumed = len(in) - br.Len()
		case PFileSR:
			sr := bits.NewFixedSliceReader(in)
			d.File, d.Err = mp4.DecodeFileSR(sr)
			if d.Err == nil {
				d.Err = sr.AccError()
			}
			d.Consumed = sr.GetPos()
		}
	})
	if d.Panic != nil {
		c.Seen("panic_outside_domain(C04)", runner.PanicKey("decode", d.Panic))
		d.Box, d.File = nil, nil
		return d
	}
	if d.Err != nil || (d.Box == nil && d.File == nil) {
		d.Box, d.File = nil, nil
		return d
	}
	if d.Consumed < 0 || d.Consumed > len(in) {
		d.Consumed = len(in)
	}
	if d.Box != nil {
		// the accepted byte string is the first box as delimited by its own
		// header (the SliceReader leaf decoders do not advance to the end of a
		// box with surplus bytes; the io.Reader path always reads the whole body)
		if n := FirstBoxLen(in); n > 0 && n <= len(in) {
			d.Consumed = n
		}
	}
	d.OK = true
	return d
}

// FirstBoxLen reads the size of the first box from its header (0 if there is
// no complete header or the size is smaller than the header).
func FirstBoxLen(in []byte) int {
	if len(in) < 8 {
		return 0
	}
	n := uint64(in[0])<<24 | uint64(in[1])<<16 | uint64(in[2])<<8 | uint64(in[3])
	h := uint64(8)
	if n == 1 {
		if len(in) < 16 {
			return 0
		}
		n = 0
		for _, b := range in[8:16] {
			n = n<<8 | uint64(b)
		}
		h = 16
	}
	if n < h || n > uint64(len(in)) {
		return 0
	}
	return int(n)
}

// OneByteReader delivers one byte per Read.
type OneByteReader struct{ R io.Reader }

func (o OneByteReader) Read(p []byte) (int, error) {
	if len(p) == 0 {
		return 0, nil
	}
	return o.R.Read(p[:1])
}

// ChunkReader delivers 1..7 bytes per Read.
type ChunkReader struct {
	R   io.Reader
	Rng *runner.Rand
}

func (o ChunkReader) Read(p []byte) (int, error) {
	if len(p) == 0 {
		return 0, nil
	}
	n := 1 + o.Rng.Intn(7)
	if n > len(p) {
		n = len(p)
	}
	return o.R.Read(p[:n])
}

// ---------------------------------------------------------------------------
// encoders

// Encodable is what boxes, files, fragments, media segments and init
// segments have in common.
type Encodable interface {
	Size() uint64
	Encode(w io.Writer) error
	EncodeSW(sw bits.SliceWriter) error
	Info(w io.Writer, specificBoxLevels, indent, indentStep string) error
}

// Enc is the result of one encode.
type Enc struct {
	Bytes []byte
	Err   error
	Panic *runner.PanicInfo
	Skip  bool // Size() above MaxEncode: not attempted
}

// OK tells whether the encoder reported success.
func (e *Enc) OK() bool { return e.Err == nil && e.Panic == nil && !e.Skip }

// EncodeW encodes through the io.Writer path.
func EncodeW(c *runner.Ctx, x Encodable) *Enc {
	e := &Enc{}
	var buf bytes.Buffer
	e.Panic = c.Guard(func() {
		if x.Size() > MaxEncode {
			e.Skip = true
			return
		}
		e.Err = x.Encode(&buf)
	})
	if e.Panic != nil {
		c.Seen("panic_outside_domain(C04)", runner.PanicKey("encode", e.Panic))
	}
	e.Bytes = buf.Bytes()
	return e
}

// EncodeSW encodes through the SliceWriter path into a FixedSliceWriter of
// capacity Size()+slack (so that an over-long encode is seen as length).
func EncodeSW(c *runner.Ctx, x Encodable, slack int) *Enc {
	e := &Enc{}
	e.Panic = c.Guard(func() {
		s := x.Size()
		if s > MaxEncode {
			e.Skip = true
			return
		}
		sw := bits.NewFixedSliceWriter(int(s) + slack)
		e.Err = x.EncodeSW(sw)
		if e.Err == nil {
			e.Err = sw.AccError()
		}
		e.Bytes = sw.Bytes()
	})
	if e.Panic != nil {
		c.Seen("panic_outside_domain(C04)", runner.PanicKey("encode", e.Panic))
	}
	return e
}

// SetLossless puts a decoded file into the documented lossless encode mode:
// box-tree mode when fragmented (progressive files are a plain child loop).
func SetLossless(f *mp4.File) {
	if f.IsFragmented() {
		f.FragEncMode = mp4.EncModeBoxTree
	}
}
