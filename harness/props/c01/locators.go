package c01

// Independent byte-level locators for don't-care fields whose position
// depends on the content of the box. Each returns base offsets (relative to
// the first payload byte) from a reading of the *input* bytes alone.

var locators = map[string]func(payload []byte) []int{
	// VisualSampleEntry compressorname: 1 length byte at offset 42, then 31
	// bytes of which the first n are the name and the rest padding.
	"visual.compressorname.pad": func(p []byte) []int {
		if len(p) < 74 {
			return nil
		}
		n := int(p[42])
		if n > 31 {
			return nil
		}
		var out []int
		for o := 43 + n; o < 74; o++ {
			out = append(out, o)
		}
		return out
	},
	// AVCDecoderConfigurationRecord: the four bytes after the PPS list for
	// profiles that carry them; bases are the offsets of the three bytes with
	// reserved bit groups (chroma_format, bit_depth_luma, bit_depth_chroma).
	"avcC.ext": func(p []byte) []int {
		o, ok := avcCAfterPPS(p)
		if !ok || o+4 > len(p) {
			return nil
		}
		return []int{o}
	},
	// HEVCDecoderConfigurationRecord: first byte of every array
	// (array_completeness(1) reserved(1) NAL_unit_type(6)).
	"hvcC.array": func(p []byte) []int {
		if len(p) < 23 {
			return nil
		}
		n := int(p[22])
		o := 23
		var out []int
		for a := 0; a < n; a++ {
			if o+3 > len(p) {
				break
			}
			out = append(out, o)
			num := int(p[o+1])<<8 | int(p[o+2])
			o += 3
			for k := 0; k < num; k++ {
				if o+2 > len(p) {
					return out
				}
				l := int(p[o])<<8 | int(p[o+1])
				o += 2 + l
			}
		}
		return out
	},
}

func init() {
	// ColourInformationBox with colour_type 'nclx': the byte holding
	// full_range_flag(1) reserved(7) is payload byte 10.
	locators["colr.nclx.flags"] = func(p []byte) []int {
		if len(p) >= 11 && string(p[:4]) == "nclx" {
			return []int{10}
		}
		return nil
	}
	// EC3SpecificBox (dec3): first byte of every independent substream
	// (3 bytes, or 4 with num_dep_sub > 0). "dec3.sub.nodep" yields only the
	// substreams with num_dep_sub == 0, whose last bit is reserved.
	dec3 := func(onlyNoDep bool) func(p []byte) []int {
		return func(p []byte) []int {
			if len(p) < 2 {
				return nil
			}
			n := int(p[1]&7) + 1
			o := 2
			var out []int
			for i := 0; i < n && o+3 <= len(p); i++ {
				dep := (p[o+2] >> 1) & 0x0f
				if !onlyNoDep || dep == 0 {
					out = append(out, o)
				}
				o += 3
				if dep > 0 {
					o++
				}
			}
			return out
		}
	}
	locators["dec3.sub"] = dec3(false)
	locators["dec3.sub.nodep"] = dec3(true)
	// SampleGroupDescriptionBox with grouping_type 'seig': first byte of every
	// CencSampleEncryptionInformationGroupEntry.
	locators["sgpd.seig.entry"] = func(p []byte) []int {
		if len(p) < 12 || string(p[4:8]) != "seig" {
			return nil
		}
		ver := p[0]
		o := 8
		var defLen uint32
		if ver >= 1 {
			defLen = uint32(p[8])<<24 | uint32(p[9])<<16 | uint32(p[10])<<8 | uint32(p[11])
			o += 4
		}
		if ver >= 2 {
			o += 4
		}
		if o+4 > len(p) {
			return nil
		}
		n := int(uint32(p[o])<<24 | uint32(p[o+1])<<16 | uint32(p[o+2])<<8 | uint32(p[o+3]))
		o += 4
		var out []int
		for i := 0; i < n && i < 4096; i++ {
			l := defLen
			if ver >= 1 && defLen == 0 {
				if o+4 > len(p) {
					break
				}
				l = uint32(p[o])<<24 | uint32(p[o+1])<<16 | uint32(p[o+2])<<8 | uint32(p[o+3])
				o += 4
			}
			if l == 0 || o+int(l) > len(p) || int(l) < 0 {
				break
			}
			out = append(out, o)
			o += int(l)
		}
		return out
	}
	// LoudnessBaseBox (tlou/alou): first byte of every loudness base.
	locators["lou.base"] = func(p []byte) []int {
		if len(p) < 5 {
			return nil
		}
		ver := p[0]
		o, n := 4, 1
		if ver >= 1 {
			n = int(p[4] & 0x3f)
			o = 5
		}
		var out []int
		for i := 0; i < n; i++ {
			fixed := 7 // downmix/DRC 2, peak levels 3, measurement system 1, measurement_count 1
			if ver >= 1 {
				fixed = 8
			}
			if o+fixed > len(p) {
				break
			}
			out = append(out, o)
			cnt := int(p[o+fixed-1])
			o += fixed + 3*cnt
		}
		return out
	}
}

func avcCAfterPPS(p []byte) (int, bool) {
	if len(p) < 6 {
		return 0, false
	}
	o := 6
	nsps := int(p[5] & 0x1f)
	for i := 0; i < nsps; i++ {
		if o+2 > len(p) {
			return 0, false
		}
		o += 2 + (int(p[o])<<8 | int(p[o+1]))
	}
	if o+1 > len(p) {
		return 0, false
	}
	npps := int(p[o])
	o++
	for i := 0; i < npps; i++ {
		if o+2 > len(p) {
			return 0, false
		}
		o += 2 + (int(p[o])<<8 | int(p[o+1]))
	}
	return o, o <= len(p)
}
