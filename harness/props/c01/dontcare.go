package c01

import (
	"encoding/hex"
	"encoding/json"
	"fmt"
	"os"
	"path/filepath"
	"strconv"
	"strings"
)

// maskEntry is one entry of /verif/c01_dontcare.json.
type maskEntry struct {
	ID       string   `json:"id"`
	Types    []string `json:"types"`
	Version  string   `json:"version"`
	Locator  string   `json:"locator,omitempty"`
	Offset   int      `json:"offset"`
	Length   int      `json:"length"`
	Bitmask  string   `json:"bitmask"`
	Category string   `json:"category"`
	IsoField string   `json:"iso_field"`
	Ref      string   `json:"ref"`

	bits   []byte
	anyVer bool
	ver    byte
	orMore bool // "N+": version byte >= N (the layout the decoder applies to all higher versions)
}

type normEntry struct {
	ID            string `json:"id"`
	Name          string `json:"name"`
	Rule          string `json:"rule"`
	Justification string `json:"justification"`
}

type dontCare struct {
	Masks          []*maskEntry `json:"masks"`
	Normalisations []normEntry  `json:"normalisations"`
	byType         map[string][]*maskEntry
}

var allowedCategories = map[string]bool{"reserved": true, "pre_defined": true, "matrix": true, "pad": true}

func loadDontCare(verifDir string) (*dontCare, error) {
	b, err := os.ReadFile(filepath.Join(verifDir, "c01_dontcare.json"))
	if err != nil {
		return nil, err
	}
	dc := &dontCare{}
	if err := json.Unmarshal(b, dc); err != nil {
		return nil, fmt.Errorf("c01_dontcare.json: %w", err)
	}
	dc.byType = map[string][]*maskEntry{}
	ids := map[string]bool{}
	for _, m := range dc.Masks {
		if m.ID == "" || ids[m.ID] {
			return nil, fmt.Errorf("c01_dontcare.json: missing or duplicate id %q", m.ID)
		}
		ids[m.ID] = true
		if !allowedCategories[m.Category] {
			return nil, fmt.Errorf("c01_dontcare.json: %s: category %q is not reserved/pre_defined/matrix/pad", m.ID, m.Category)
		}
		if m.IsoField == "" {
			return nil, fmt.Errorf("c01_dontcare.json: %s: iso_field missing", m.ID)
		}
		raw, err := hex.DecodeString(m.Bitmask)
		if err != nil || (len(raw) != 1 && len(raw) != m.Length) || m.Length <= 0 {
			return nil, fmt.Errorf("c01_dontcare.json: %s: bad bitmask/length", m.ID)
		}
		m.bits = make([]byte, m.Length)
		for i := range m.bits {
			if len(raw) == 1 {
				m.bits[i] = raw[0]
			} else {
				m.bits[i] = raw[i]
			}
		}
		if m.Version == "any" || m.Version == "" {
			m.anyVer = true
		} else {
			vs := m.Version
			if strings.HasSuffix(vs, "+") {
				m.orMore = true
				vs = strings.TrimSuffix(vs, "+")
			}
			v, err := strconv.Atoi(vs)
			if err != nil || v < 0 || v > 255 {
				return nil, fmt.Errorf("c01_dontcare.json: %s: bad version %q", m.ID, m.Version)
			}
			m.ver = byte(v)
		}
		if m.Locator != "" && locators[m.Locator] == nil {
			return nil, fmt.Errorf("c01_dontcare.json: %s: unknown locator %q", m.ID, m.Locator)
		}
		for _, t := range m.Types {
			dc.byType[t] = append(dc.byType[t], m)
		}
	}
	return dc, nil
}

// cover returns the don't-care bits of payload byte off of a box of the
// given type (payload = the input's bytes after the header), and the entry
// that covers them.
func (dc *dontCare) cover(typ string, payload []byte, off int, locCache map[string][]int) (byte, *maskEntry) {
	var ver byte
	if len(payload) > 0 {
		ver = payload[0]
	}
	var bits byte
	var by *maskEntry
	for _, m := range dc.byType[typ] {
		if !m.anyVer && m.ver != ver && !(m.orMore && ver > m.ver) {
			continue
		}
		if m.Locator == "" {
			if off >= m.Offset && off < m.Offset+m.Length {
				bits |= m.bits[off-m.Offset]
				by = m
			}
			continue
		}
		bases, ok := locCache[m.Locator]
		if !ok {
			bases = locators[m.Locator](payload)
			locCache[m.Locator] = bases
		}
		for _, base := range bases {
			if off >= base+m.Offset && off < base+m.Offset+m.Length {
				bits |= m.bits[off-base-m.Offset]
				by = m
			}
		}
	}
	return bits, by
}
