// Package c01 decides property C01: for every byte string a decode path
// accepts, re-encoding the decoded structure reproduces the input bit for bit
// outside the committed don't-care list (/verif/c01_dontcare.json), decoding
// the output again succeeds and yields an equal structure, and encoding once
// more gives exactly the same bytes.
//
// Oracle: byte comparison of input and output, differences attributed to the
// innermost box with the independent walker (ref/boxwalk) and checked against
// the committed list; reflective structural comparison of first and second
// decode (treecmp).
package c01

import (
	"bytes"
	"encoding/base64"
	"encoding/json"
	"fmt"
	"os"
	"regexp"
	"sort"
	"strings"

	"github.com/Eyevinn/mp4ff/av1"
	"github.com/Eyevinn/mp4ff/avc"
	"github.com/Eyevinn/mp4ff/hevc"
	"github.com/Eyevinn/mp4ff/mp4"

	"verifharness/props/c01/work"
	"verifharness/ref/boxwalk"
	"verifharness/runner"
	"verifharness/treecmp"
)

var (
	dc         *dontCare
	registered map[string]bool
	regList    []string
)

func setup(env *runner.Env) error {
	if err := work.Setup(env); err != nil {
		return err
	}
	buildFlips()
	var err error
	if dc, err = loadDontCare(env.VerifDir); err != nil {
		return err
	}
	registered = map[string]bool{}
	rd, srd := mp4.VerifRegisteredBoxTypes()
	for _, t := range append(rd, srd...) {
		if !registered[t] {
			registered[t] = true
			regList = append(regList, t)
		}
	}
	sort.Strings(regList)
	return nil
}

func init() {
	runner.Register(&runner.Prop{
		ID: "C01",
		Rule: "case = one input byte string x {DecodeBox, DecodeBoxSR, DecodeFile, DecodeFileSR} x {Encode, EncodeSW} (files: box-tree mode when fragmented, plain child loop when progressive), each combination on a fresh decode. " +
			"Inputs: every corpus seed unmutated (repo testdata files <= 256 KiB and their mdat-shrunk variants, every box of every file cut out by the reference walker, hand-built instances of every registered type no file contains and of every version/flag shape (hdlr name fields that are more than one C string, alone and inside mdia/trak/moov/meta), " +
			"hand-built whole files (corpus.BuiltFiles: those handler names in progressive and fragmented files; encrypted fragmented files over tenc IV size {16,8,constant} x seig IV size x sample-group boxes in the traf {none, sgpd only, sgpd + foreign sbgp, sbgp+sgpd, sbgp only, unsupported mappings} x senc with/without sub-sample table x saiz/saio), upstream fuzz seeds), " +
			"then generated inputs (quick 120 000, thorough 3 000 000): 32% 1..3 stacked size-consistent structure-aware mutations (mut.Gentle), 20% single/multi bit flips in a box payload, 18% boundary/random values in aligned fields, 8% N1 largesize headers, 5% N2 non-adjacent trak children, 5% N3 surplus bytes after a leaf, 7% nesting 1..6 deep in typed/generic containers, 5% box sequences; then every single-bit flip of the payload of every hand-built box seed with at most 96 payload bytes (about 104 000 inputs, both tiers: a field-survival defect on one bit of one box type does not depend on a draw); " +
			"additionally DecodeAVCDecConfRec / DecodeHEVCDecConfRec / DecodeAV1CodecConfRec -> Encode on every avcC/hvcC/av1C payload found in an accepted input. " +
			"Oracle: y = E(P(x)) must equal x except in positions covered by /verif/c01_dontcare.json (masks looked up by innermost box type via the reference walker, version byte, payload offset; normalisations N1/N2/N3 recognised on the two walker trees; N3 is never granted to a leaf whose last syntax element extends to the end of the box by definition (hdlr, sdtp, mime, the cue text boxes, emsg, av1C, data, cdat: lost-bytes/<type>/<shape>), to an unmutated corpus seed, or to a senc without sub-sample table cut below 8 + sample_count x Per_Sample_IV_Size of the only track's tenc when no sbgp+sgpd pair in the traf can override it: lost-bytes/senc/iv-table-cut); if y != x then P(y) must succeed, be structurally equal to P(x) (reflective comparison incl. unexported fields, nil == empty; position fields ignored only if a size/order normalisation applied) and E(P(y)) == y. A re-encode error on a decoded structure is a violation. " +
			"non-trivial = accepted by at least one path and containing at least one registered non-container box other than free/skip; distinct by input hash. evaluations = (path, encoder) round trips performed.",
		Assumptions: []string{
			"the committed don't-care list /verif/c01_dontcare.json (every entry names the ISO field it covers)",
			"an input on which the SliceReader stored an accumulated error is treated as rejected by that path (callers must check AccError)",
			"the reference walker's container table; inputs it cannot tile while the output differs are counted inconclusive (unmappable)",
		},
		Setup:    setup,
		NumCases: func(env *runner.Env) int { return work.NumInputs(env) + len(flips) },
		Run:      run,
		Replay:   replay,
		Finalize: finalize,
	})
}

type detail struct {
	Path    string `json:"path"`
	Encoder string `json:"encoder"`
	Seed    string `json:"seed_name"`
	Mut     string `json:"mutation"`
	Input   string `json:"input_b64"`
	Output  string `json:"output_b64,omitempty"`
}

func run(c *runner.Ctx, idx int) {
	if k := idx - work.NumInputs(c.Env); k >= 0 && k < len(flips) {
		f := flips[k]
		in := work.Seeds[f.seed]
		d := append([]byte(nil), in.Data...)
		d[f.bit/8] ^= 0x80 >> (f.bit % 8)
		in.Data, in.Gen, in.Desc = d, "bitflip-all", fmt.Sprintf("bit %d of byte %d flipped", f.bit%8, f.bit/8)
		c.Count("exhaustive_single_bit_flips", 1)
		exercise(c, in)
		return
	}
	in := work.InputAt(c.Rand, idx)
	exercise(c, in)
}

// flips lists every single-bit flip of the payload of every hand-built box seed of at most 96 payload bytes:
// the random bit-flip mutants sample this set, a field-survival defect that shows on one bit of one box type
// must not depend on the draw (two earlier catches moved when the seed list grew).
type flip struct{ seed, bit int }

var flips []flip

func buildFlips() {
	flips = flips[:0]
	for i, s := range work.Seeds {
		if s.Kind != "built" || len(s.Data) <= 8 || len(s.Data) > 8+96 {
			continue
		}
		for bit := 64; bit < 8*len(s.Data); bit++ {
			flips = append(flips, flip{i, bit})
		}
	}
}

func replay(c *runner.Ctx, raw json.RawMessage) {
	var d detail
	if json.Unmarshal(raw, &d) != nil {
		return
	}
	b, err := base64.StdEncoding.DecodeString(d.Input)
	if err != nil {
		return
	}
	exercise(c, work.Input{Name: d.Seed, Desc: d.Mut, Gen: "replay", Data: b})
}

var encoders = []string{"Encode", "EncodeSW"}

func encode(c *runner.Ctx, encoder string, d *work.Dec) *work.Enc {
	if d.File != nil {
		work.SetLossless(d.File)
	}
	if encoder == "Encode" {
		return work.EncodeW(c, d.Obj())
	}
	return work.EncodeSW(c, d.Obj(), 64)
}

var digits = regexp.MustCompile(`[0-9]+`)
var decodePrefix = regexp.MustCompile(`decode .{4} pos [0-9]+: `)

func errClass(err error) string {
	if err == nil {
		return "panic"
	}
	// the chain of "decode <type> pos <n>: " prefixes names the path to the
	// failing box, which varies per input: keep the innermost message
	s := decodePrefix.ReplaceAllString(err.Error(), "")
	s = digits.ReplaceAllString(s, "N")
	if len(s) > 70 {
		s = s[:70]
	}
	return s
}

func level(path string) string {
	if path == work.PFile || path == work.PFileSR {
		return "file"
	}
	return "box"
}

func exercise(c *runner.Ctx, in work.Input) {
	c.Count("inputs", 1)
	c.Seen("generator", in.Gen)
	accepted := 0
	var acceptedX []byte
	for _, path := range []string{work.PBox, work.PBoxSR, work.PFile, work.PFileSR} {
		d0 := work.Decode(c, path, in.Data)
		if !d0.OK {
			c.Count("rejected/"+path, 1)
			continue
		}
		c.Count("accepted/"+path, 1)
		accepted++
		x := in.Data[:d0.Consumed]
		if len(x) > len(acceptedX) {
			acceptedX = x
		}
		for ei, encoder := range encoders {
			d := d0
			if ei > 0 {
				d = work.Decode(c, path, x) // fresh structure per encoder
				if !d.OK {
					c.Inconclusive("second decode of the same bytes rejected")
					continue
				}
			}
			roundTrip(c, in, path, encoder, x, d)
		}
	}
	if accepted == 0 {
		c.Count("inputs_rejected_by_all_paths", 1)
		return
	}
	c.Count("inputs_accepted", 1)
	nontrivial := accountTypes(c, acceptedX)
	confRecs(c, in, acceptedX)
	if nontrivial {
		c.Nontrivial(runner.Hash64(in.Data))
	}
	if c.WantSample() && in.Gen != "seed" {
		c.Sample(map[string]interface{}{"seed": in.Name, "generator": in.Gen, "mutation": in.Desc, "len": len(in.Data), "accepted_by_paths": accepted,
			"first_bytes_hex": fmt.Sprintf("%x", in.Data[:minInt(len(in.Data), 48)])})
	}
}

// safeType renders a box type printable (the 0xa9 of the iTunes types is not
// valid UTF-8 and would not survive the JSON evidence file).
func safeType(t string) string {
	var sb strings.Builder
	for i := 0; i < len(t); i++ {
		if t[i] < 0x20 || t[i] > 0x7e {
			fmt.Fprintf(&sb, "\\x%02x", t[i])
		} else {
			sb.WriteByte(t[i])
		}
	}
	return sb.String()
}

func minInt(a, b int) int {
	if a < b {
		return a
	}
	return b
}

// accountTypes records which registered box types (and version/flag shapes)
// occur in an accepted input; it reports whether the input is non-trivial.
func accountTypes(c *runner.Ctx, x []byte) bool {
	nodes, err := boxwalk.Walk(x)
	if err != nil {
		if len(x) >= 8 && registered[string(x[4:8])] {
			c.Seen("accepted_type", safeType(string(x[4:8])))
			return true
		}
		return false
	}
	non := false
	for _, n := range boxwalk.All(nodes) {
		if !registered[n.Type] {
			continue
		}
		c.Seen("accepted_type", safeType(n.Type))
		if !n.Container && n.Type != "free" && n.Type != "skip" {
			non = true
		}
		if n.Type == "hdlr" {
			c.Seen("hdlr_name_field", hdlrNameShape(n.Payload(x)))
		}
		if n.Type == "senc" && n.Parent != nil {
			grp := ""
			for _, sib := range n.Parent.Children {
				if sib.Type == "sbgp" || sib.Type == "sgpd" {
					grp += "+" + sib.Type
				}
			}
			if len(grp) > 20 {
				grp = "+many"
			}
			c.Seen("senc_sample_group_siblings", "senc"+grp)
		}
		if shapeTypes[n.Type] {
			v, fl := n.FullBox(x)
			vs := fmt.Sprintf("v%d", v)
			if v > 3 {
				vs = "v4+"
			}
			c.Seen("version_shape", n.Type+"/"+vs)
			if m, ok := flagMasks[n.Type]; ok && v <= 1 {
				c.Seen("flags_shape/"+n.Type, fmt.Sprintf("v%d/f%06x", v, fl&m))
			}
		}
	}
	return non
}

// hdlrNameShape classifies the name field (everything after the 24 fixed bytes).
func hdlrNameShape(p []byte) string {
	if len(p) <= 24 {
		return "absent"
	}
	f := p[24:]
	inner := bytes.IndexByte(f[:len(f)-1], 0) >= 0
	switch {
	case inner && f[len(f)-1] == 0:
		return "inner-nul,terminated"
	case inner:
		return "inner-nul,unterminated"
	case f[len(f)-1] == 0:
		return "one-string"
	}
	return "unterminated"
}

var shapeTypes = map[string]bool{"mvhd": true, "tkhd": true, "mdhd": true, "mehd": true, "elst": true, "tfdt": true, "sidx": true, "emsg": true, "prft": true,
	"pssh": true, "ctts": true, "cslg": true, "subs": true, "saio": true, "saiz": true, "sgpd": true, "sbgp": true, "tfra": true, "trun": true, "tfhd": true,
	"senc": true, "stsz": true, "tenc": true, "trex": true, "leva": true, "ssix": true, "tlou": true, "alou": true, "kind": true, "emib": true, "schm": true, "colr": false}

var flagMasks = map[string]uint32{"trun": 0x000f05, "tfhd": 0x03003b, "senc": 0x000002, "saio": 1, "saiz": 1}

// culprit descends into the children of a structure whose encode failed and
// returns the type of the innermost node that fails on its own.
func culprit(c *runner.Ctx, x work.Encodable, sw bool) string {
	typ := work.TypeOf(x)
	for depth := 0; depth < 32; depth++ {
		found := false
		for _, ch := range work.Children(x) {
			var e *work.Enc
			if sw {
				e = work.EncodeSW(c, ch, 64)
			} else {
				e = work.EncodeW(c, ch)
			}
			if !e.OK() && !e.Skip {
				x, typ, found = ch, work.TypeOf(ch), true
				break
			}
		}
		if !found {
			break
		}
	}
	return typ
}

func roundTrip(c *runner.Ctx, in work.Input, path, encoder string, x []byte, d *work.Dec) {
	c.Evals(1)
	det := func(out []byte) detail {
		dd := detail{Path: path, Encoder: encoder, Seed: in.Name, Mut: in.Desc, Input: base64.StdEncoding.EncodeToString(in.Data)}
		if out != nil && len(out) <= 64<<10 {
			dd.Output = base64.StdEncoding.EncodeToString(out)
		}
		return dd
	}
	e := encode(c, encoder, d)
	if e.Skip {
		c.Count("encode_skipped_size_inflated", 1)
		return
	}
	if e.Panic != nil {
		c.Count("encode_panics_left_to_C04", 1)
		return
	}
	if e.Err != nil {
		t := culprit(c, d.Obj(), encoder == "EncodeSW")
		c.Violation(fmt.Sprintf("reencode-fails/%s/%s", t, errClass(e.Err)),
			fmt.Sprintf("%s accepted the input but %s of the decoded structure fails: %v (innermost failing node: %s)\nseed %s, mutation: %s", path, encoder, e.Err, t, in.Name, in.Desc), det(nil))
		return
	}
	y := e.Bytes
	if bytes.Equal(x, y) {
		c.Count("roundtrip_exact", 1)
		return
	}
	// attribute differences
	nx, errx := boxwalk.Walk(x)
	if errx != nil {
		c.Inconclusive("output differs but the reference walker cannot tile the accepted input (unmappable)")
		return
	}
	ny, erry := boxwalk.Walk(y)
	if erry != nil {
		c.Violation(fmt.Sprintf("output-not-a-box-sequence/%s", tilingCulprit(erry)),
			fmt.Sprintf("%s + %s: the output (%d bytes, input %d) is not a well-formed box sequence: %v\nseed %s, mutation: %s", path, encoder, len(y), len(x), erry, in.Name, in.Desc), det(y))
		return
	}
	s := &cmp{x: x, y: y, dc: dc, explained: map[string]int64{}, all: sweepOut != nil}
	s.forest(nx, ny, nil)
	for k, v := range s.explained {
		c.Count("explained/"+k, v)
	}
	for _, t := range s.n3Types {
		c.Seen("N3_leaf_type", safeType(t))
	}
	if sweepOut != nil {
		sweepRecord(s, in)
		return
	}
	if in.Gen == "seed" && in.Kind != "fuzz" && len(s.n3Types) > 0 && len(s.lost) == 0 {
		// N3 (surplus after the last syntax element is dropped) is a licence for
		// mutated inputs whose count/length fields were made smaller. An
		// unmutated corpus box (testdata, or hand-built from the syntax tables)
		// has no surplus: bytes dropped from it are syntax the decoder ignores.
		for _, t := range s.n3Types {
			c.Violation("trailing-syntax-dropped/"+t, fmt.Sprintf("%s + %s: the unmutated corpus seed %s loses trailing bytes of its %s box on re-encoding (%d bytes in all): they are part of the box syntax, not surplus", path, encoder, in.Name, t, s.explained["N3.bytes_dropped"]), det(y))
		}
		return
	}
	if len(s.lost) > 0 {
		seen := map[string]bool{}
		for _, l := range s.lost {
			k := l.key()
			if seen[k] {
				continue
			}
			seen[k] = true
			c.Violation(k, fmt.Sprintf("%s + %s: %s\nseed %s, mutation: %s", path, encoder, l.What, in.Name, in.Desc), det(y))
		}
		return
	}
	c.Count("roundtrip_explained_by_list", 1)
	// y differs from x only in listed positions: y must decode to an equal
	// structure and be a fixed point
	d0 := work.Decode(c, path, x) // pristine first decode
	dy := work.Decode(c, path, y)
	if !d0.OK {
		c.Inconclusive("repeat decode of the same bytes rejected")
		return
	}
	if !dy.OK {
		if dy.Panic != nil {
			c.Count("decode_panics_left_to_C04", 1)
			return
		}
		if s.sizeChanged && strings.Contains(dy.Err.Error(), "offset from saio") {
			// a size normalisation (N1/N3) moved the senc data, and the saio box in
			// the same fragment holds its byte offset, which no normalisation of
			// another box can keep up to date: the re-decode clause is undecidable
			c.Inconclusive("size normalisation in front of a saio-referenced senc (stale byte offset in saio)")
			return
		}
		c.Violation(fmt.Sprintf("redecode-fails/%s/%s", normsUsed(s), errClass(dy.Err)),
			fmt.Sprintf("%s accepted x, %s gave y (differences all in the don't-care list: %s), but %s rejects y: %v\nseed %s, mutation: %s", path, encoder, explainedStr(s), path, dy.Err, in.Name, in.Desc), det(y))
		return
	}
	opt := treecmp.Options{}
	if s.sizeChanged || s.reordered {
		opt.Ignore = treecmp.Positions()
		// senc keeps the bytes it was read from (rawData, internal intermediate
		// storage) also after parsing: they differ by the dropped surplus only
		// (the payload itself was compared byte for byte above)
		if s.explained["N3"] > 0 {
			opt.Ignore["rawData"] = true
		}
	}
	if diffs := treecmp.Diff(d0.Obj(), dy.Obj(), opt); len(diffs) > 0 {
		if kp := treecmp.KeyPath(diffs); s.sizeChanged && bytes.Contains(x, []byte("sidx")) && strings.HasPrefix(kp, "(File).Segments") {
			// the grouping into segments follows the byte offsets stored in a
			// top-level sidx; a size normalisation of another box makes them stale
			c.Inconclusive("size normalisation in a file whose segments are delimited by sidx byte offsets")
			return
		}
		c.Violation(fmt.Sprintf("redecode-differs/%s", treecmp.KeyPath(diffs)),
			fmt.Sprintf("%s + %s: P(y) is not structurally equal to P(x) (y differs from x only in listed positions: %s): %s\nseed %s, mutation: %s", path, encoder, explainedStr(s), strings.Join(diffs, "; "), in.Name, in.Desc), det(y))
		return
	}
	e2 := encode(c, encoder, dy)
	if !e2.OK() {
		if e2.Err != nil {
			c.Violation(fmt.Sprintf("reencode-fails/second/%s", errClass(e2.Err)),
				fmt.Sprintf("%s + %s: second encode fails: %v\nseed %s, mutation: %s", path, encoder, e2.Err, in.Name, in.Desc), det(y))
		}
		return
	}
	if !bytes.Equal(e2.Bytes, y) {
		first := 0
		for first < len(y) && first < len(e2.Bytes) && y[first] == e2.Bytes[first] {
			first++
		}
		t := "?"
		if n := boxwalk.InnermostAt(ny, first); n != nil {
			t = n.Type
		}
		c.Violation(fmt.Sprintf("not-a-fixed-point/%s", t),
			fmt.Sprintf("%s + %s: E(P(y)) differs from y at byte %d (in %s; lengths %d and %d)\nseed %s, mutation: %s", path, encoder, first, t, len(y), len(e2.Bytes), in.Name, in.Desc), det(y))
		return
	}
	c.Count("fixed_point_checked", 1)
}

var quotedType = regexp.MustCompile(`"(.{4})"|of (\S{4}) at|parent ([^ )]+)\)`)

// tilingCulprit extracts from a reference-walker error the type of the box
// whose size does not fit ("unknown" for unregistered types).
func tilingCulprit(err error) string {
	m := quotedType.FindStringSubmatch(err.Error())
	t := "?"
	for _, g := range m[minInt(1, len(m)):] {
		if g != "" {
			t = g
			break
		}
	}
	if i := strings.LastIndex(t, "/"); i >= 0 {
		t = t[i+1:]
	}
	if !registered[t] && t != "?" && t != "<top>" {
		return "unknown"
	}
	return t
}

func normsUsed(s *cmp) string {
	var n []string
	for _, k := range []string{"N1", "N2", "N3"} {
		if s.explained[k] > 0 {
			n = append(n, k)
		}
	}
	if len(n) == 0 {
		return "masks-only"
	}
	return strings.Join(n, "+")
}

func explainedStr(s *cmp) string {
	var ks []string
	for k := range s.explained {
		ks = append(ks, k)
	}
	sort.Strings(ks)
	return strings.Join(ks, ",")
}

// confRecs runs the three codec configuration records directly.
func confRecs(c *runner.Ctx, in work.Input, x []byte) {
	nodes, err := boxwalk.Walk(x)
	if err != nil {
		return
	}
	for _, n := range boxwalk.All(nodes) {
		if n.Type != "avcC" && n.Type != "hvcC" && n.Type != "av1C" {
			continue
		}
		p := n.Payload(x)
		var out []byte
		var derr, eerr error
		pi := c.Guard(func() {
			var buf bytes.Buffer
			switch n.Type {
			case "avcC":
				r, e := avc.DecodeAVCDecConfRec(p)
				if derr = e; e == nil {
					eerr = r.Encode(&buf)
				}
			case "hvcC":
				r, e := hevc.DecodeHEVCDecConfRec(p)
				if derr = e; e == nil {
					eerr = r.Encode(&buf)
				}
			case "av1C":
				r, e := av1.DecodeAV1CodecConfRec(p)
				if derr = e; e == nil {
					eerr = r.Encode(&buf)
				}
			}
			out = buf.Bytes()
		})
		if pi != nil || derr != nil {
			continue
		}
		c.Count("confrec_roundtrips/"+n.Type, 1)
		c.Evals(1)
		det := detail{Path: "Decode" + n.Type + "ConfRec", Encoder: "Encode", Seed: in.Name, Mut: in.Desc, Input: base64.StdEncoding.EncodeToString(in.Data)}
		if eerr != nil {
			c.Violation(fmt.Sprintf("reencode-fails/confrec/%s/%s", n.Type, errClass(eerr)), fmt.Sprintf("%s configuration record decoded but Encode fails: %v\nseed %s, mutation: %s", n.Type, eerr, in.Name, in.Desc), det)
			continue
		}
		if bytes.Equal(out, p) {
			continue
		}
		if len(out) > len(p) {
			c.Violation("lost-grew/confrec/"+n.Type, fmt.Sprintf("%s configuration record: %d bytes in, %d out", n.Type, len(p), len(out)), det)
			continue
		}
		// compare as a leaf of that type (masks and N3 apply alike)
		fake := &boxwalk.Node{Type: n.Type, Start: 0, Size: len(p), HdrLen: 0}
		s := &cmp{x: p, y: out, dc: dc, explained: map[string]int64{}}
		s.bytes(fake, p[:len(out)], out, p)
		for k, v := range s.explained {
			c.Count("explained/"+k, v)
		}
		if len(out) < len(p) {
			c.Count("explained/N3", 1)
		}
		if sweepOut != nil {
			continue
		}
		for _, l := range s.lost {
			c.Violation(l.key()+"/confrec", fmt.Sprintf("%s configuration record via Decode%sConfRec + Encode: %s\nseed %s, mutation: %s", n.Type, n.Type, l.What, in.Name, in.Desc), det)
		}
	}
}

func finalize(a *runner.Agg) {
	if a.Counters["inputs_accepted"] == 0 {
		a.Nothing = "no input was accepted by any decode path"
	}
	// per mask: positions explained; dead entries visible
	per := map[string]int64{}
	var dead []string
	if d, err := loadDontCare(a.Env.VerifDir); err == nil {
		for _, m := range d.Masks {
			per[m.ID] = a.Counters["explained/"+m.ID]
			if per[m.ID] == 0 {
				dead = append(dead, m.ID)
			}
		}
		for _, n := range d.Normalisations {
			per[n.ID] = a.Counters["explained/"+n.ID]
			if per[n.ID] == 0 {
				dead = append(dead, n.ID)
			}
		}
	}
	a.Extra["dontcare_positions_explained"] = per
	a.Extra["dontcare_dead_entries"] = dead
	// per registered type: accepted instances
	rd, srd := mp4.VerifRegisteredBoxTypes()
	types := map[string]bool{}
	for _, t := range append(rd, srd...) {
		types[t] = true
	}
	perType := map[string]int64{}
	var missing []string
	for t := range types {
		perType[safeType(t)] = a.Seen["accepted_type"][safeType(t)]
		if perType[safeType(t)] == 0 {
			missing = append(missing, safeType(t))
		}
	}
	sort.Strings(missing)
	a.Extra["accepted_instances_per_registered_type"] = perType
	if len(missing) > 0 && os.Getenv("VERIF_MAXCASES") == "" {
		a.Note("registered box types without an accepted instance: %s", strings.Join(missing, " "))
	}
}
