package c01

import (
	"fmt"
	"strings"

	"verifharness/ref/boxwalk"
)

// lost is one difference between input and re-encoded output that the
// committed list does not explain.
type lost struct {
	Kind   string // bits | grew | children | header | prefix-length | type
	Type   string // innermost box type
	Path   string
	Ver    byte
	Off    int  // payload offset of the first unexplained byte
	Mask   byte // unexplained differing bits of that byte
	What   string
	NBytes int    // number of payload bytes with unexplained bits in this box
	Shape  string // bytes: where in the last syntax element the dropped bytes began
}

// restOfBox lists the leaf types whose last syntax element extends to the end
// of the box by definition (14496-12 8.4.3 hdlr name, 8.6.4 sdtp, 12.3.3.2
// mime content_type; 14496-30 cue text boxes; 23009-1 5.10.3.3 emsg
// message_data; AV1-ISOBMFF 2.3 configOBUs; iTunes data value; CEA-608 cdat):
// such a box has no bytes after its last syntax element, so N3 never applies
// and a shorter output has lost bytes of that element.
var restOfBox = map[string]bool{"hdlr": true, "sdtp": true, "mime": true, "payl": true, "iden": true, "ctim": true, "sttg": true, "vlab": true,
	"vttC": true, "vtta": true, "emsg": true, "av1C": true, "data": true, "cdat": true}

// keyClass names the codec a box type is decoded by: all visual sample
// entries share one decoder/encoder pair, as do all audio sample entries, so
// a lost field there is one finding, not one per four-character code.
func keyClass(t string) string {
	switch t {
	case "avc1", "avc3", "hvc1", "hev1", "encv", "av01", "vp08", "vp09":
		return "VisualSampleEntry"
	case "mp4a", "enca", "ac-3", "ec-3":
		return "AudioSampleEntry"
	case "tlou", "alou":
		return "LoudnessBaseBox"
	}
	return safeType(t)
}

var fixedLayout = map[string]bool{"VisualSampleEntry": true, "AudioSampleEntry": true, "mvhd": true, "tkhd": true, "mdhd": true, "hdlr": true,
	"mehd": true, "tfdt": true, "mfhd": true, "trex": true, "tenc": true, "smhd": true, "vmhd": true, "btrt": true, "pasp": true, "clap": true,
	"colr": true, "prft": true, "sidx": true, "tfra": true, "SmDm": true, "CoLL": true, "vpcC": true, "av1C": true, "dac3": true, "mfro": true,
	"cslg": true, "hvcC": true, "avcC": true}

var noVersion = map[string]bool{"VisualSampleEntry": true, "AudioSampleEntry": true, "btrt": true, "pasp": true, "clap": true, "colr": true,
	"av1C": true, "dac3": true, "hvcC": true, "avcC": true}

func (l lost) key() string {
	switch l.Kind {
	case "bits":
		// the payload offset identifies the field only where the layout is
		// fixed; behind variable-length elements (strings, loops, descriptors)
		// it varies per input and is bucketed
		off := fmt.Sprint(l.Off)
		if l.Off >= 8 && !fixedLayout[keyClass(l.Type)] {
			off = "8.."
		}
		if l.Off >= 256 {
			off = "256+"
		}
		// the version byte is part of the key only where it selects a fixed
		// layout (FullBoxes of the fixed-layout set); sample entries and
		// configuration records have no version byte, and behind a
		// variable-length element the offset bucket says nothing version-specific
		cls := keyClass(l.Type)
		if noVersion[cls] || !fixedLayout[cls] {
			return fmt.Sprintf("lost-bits/%s/+%s", cls, off)
		}
		ver := fmt.Sprint(l.Ver)
		if l.Ver > 3 {
			ver = "4+" // not a version any syntax defines (mutated input)
		}
		if l.Off == 0 {
			ver = "*" // the differing byte is the version byte itself
		}
		return fmt.Sprintf("lost-bits/%s/v%s/+%s", keyClass(l.Type), ver, off)
	default:
		if l.Shape != "" {
			return "lost-" + l.Kind + "/" + keyClass(l.Type) + "/" + l.Shape
		}
		return "lost-" + l.Kind + "/" + keyClass(l.Type)
	}
}

// cmp compares the trees of x (input) and y (re-encoded output).
type cmp struct {
	n3Types     []string // box types whose trailing bytes were dropped (N3)
	x, y        []byte
	dc          *dontCare
	explained   map[string]int64 // mask id / normalisation id -> positions (bytes) / occurrences
	lost        []lost
	rootsX      []*boxwalk.Node // top-level boxes of x
	sizeChanged bool            // N1 or N3 applied
	reordered   bool            // N2 applied
	// sweep: collect every unexplained position instead of the first per box
	all bool
}

func (s *cmp) addLost(l lost) {
	if len(s.lost) < 64 {
		s.lost = append(s.lost, l)
	}
}

func typeList(ns []*boxwalk.Node) string {
	var t []string
	for _, n := range ns {
		t = append(t, n.Type)
	}
	return strings.Join(t, " ")
}

func sameTypes(a, b []*boxwalk.Node) bool {
	if len(a) != len(b) {
		return false
	}
	for i := range a {
		if a[i].Type != b[i].Type {
			return false
		}
	}
	return true
}

func (s *cmp) forest(nx, ny []*boxwalk.Node, parent *boxwalk.Node) {
	if parent == nil && s.rootsX == nil {
		s.rootsX = nx
	}
	if !sameTypes(nx, ny) {
		ptype, ppath := "<top>", "<top>"
		if parent != nil {
			ptype, ppath = parent.Type, parent.Path()
		}
		if ptype == "moov" {
			// N2: multiset equal, relative order within traks and within
			// non-traks preserved (deliberately not the library's index arithmetic)
			var tx, ox, ty, oy []*boxwalk.Node
			for _, n := range nx {
				if n.Type == "trak" {
					tx = append(tx, n)
				} else {
					ox = append(ox, n)
				}
			}
			for _, n := range ny {
				if n.Type == "trak" {
					ty = append(ty, n)
				} else {
					oy = append(oy, n)
				}
			}
			if len(tx) == len(ty) && sameTypes(ox, oy) {
				s.explained["N2"]++
				s.reordered = true
				for i := range tx {
					s.node(tx[i], ty[i])
				}
				for i := range ox {
					s.node(ox[i], oy[i])
				}
				return
			}
		}
		s.addLost(lost{Kind: "children", Type: ptype, Path: ppath,
			What: fmt.Sprintf("children of %s: input [%s], output [%s]", ppath, typeList(nx), typeList(ny))})
		return
	}
	for i := range nx {
		s.node(nx[i], ny[i])
	}
}

func (s *cmp) node(a, b *boxwalk.Node) {
	if a.Large != b.Large {
		if a.Large && !b.Large && a.Type != "mdat" {
			s.explained["N1"]++
			s.sizeChanged = true
		} else {
			s.addLost(lost{Kind: "header", Type: a.Type, Path: a.Path(), What: fmt.Sprintf("%s: largesize header %v in the input, %v in the output", a.Path(), a.Large, b.Large)})
		}
	}
	pa := s.x[a.Start+a.HdrLen : a.End()]
	pb := s.y[b.Start+b.HdrLen : b.End()]
	if a.Container != b.Container {
		s.addLost(lost{Kind: "type", Type: a.Type, Path: a.Path(), What: a.Path() + ": container form changed"})
		return
	}
	// VTTEmptyCueBox is defined without content (14496-30): the walker's
	// generic container table descends into it, the comparison treats it as a
	// leaf so that N3 applies to whatever it holds.
	if a.Container && a.Type != "vtte" {
		fa := pa[:a.BodyOff-a.HdrLen]
		fb := pb[:b.BodyOff-b.HdrLen]
		if len(fa) != len(fb) {
			s.addLost(lost{Kind: "prefix-length", Type: a.Type, Path: a.Path(), What: fmt.Sprintf("%s: %d bytes before the first child in the input, %d in the output", a.Path(), len(fa), len(fb))})
			return
		}
		s.bytes(a, fa, fb, pa)
		s.forest(a.Children, b.Children, a)
		return
	}
	switch {
	case len(pb) > len(pa):
		s.addLost(lost{Kind: "grew", Type: a.Type, Path: a.Path(), What: fmt.Sprintf("%s: payload %d bytes in the input, %d in the output", a.Path(), len(pa), len(pb))})
		return
	case len(pb) < len(pa):
		// N3 candidate: must be a pure truncation (checked by bytes()) and
		// the caller checks structural equality of the re-decode.
		if a.Type == "mdat" || a.Type == "free" || a.Type == "skip" {
			s.addLost(lost{Kind: "shrunk", Type: a.Type, Path: a.Path(), What: fmt.Sprintf("%s: payload %d bytes in the input, %d in the output", a.Path(), len(pa), len(pb))})
			return
		}
		if restOfBox[a.Type] {
			// the last element runs to the end of the box: nothing is surplus
			shape := "rewritten"
			before := len(s.lost)
			s.bytes(a, pa[:len(pb)], pb, pa)
			if len(s.lost) == before { // the kept part equals the input modulo the listed masks
				shape = "tail-dropped"
				if len(pb) > 0 && pb[len(pb)-1] == 0 {
					shape = "cut-after-nul"
				}
			}
			s.addLost(lost{Kind: "bytes", Type: a.Type, Path: a.Path(), Shape: shape,
				What: fmt.Sprintf("%s: payload %d bytes in the input, %d in the output (%s): the last syntax element of a %s box extends to the end of the box, the dropped bytes % x belong to it",
					a.Path(), len(pa), len(pb), shape, a.Type, clip(pa[len(pb):], 32))})
			return
		}
		if need, ok := s.sencTableLen(a, pa); ok && len(pa) >= need && len(pb) < need {
			s.addLost(lost{Kind: "bytes", Type: a.Type, Path: a.Path(), Shape: "iv-table-cut",
				What: fmt.Sprintf("%s: payload %d bytes in the input, %d in the output, but sample_count x Per_Sample_IV_Size of the track's tenc (no sbgp+sgpd pair in the traf overrides it) needs %d: initialization vectors were dropped",
					a.Path(), len(pa), len(pb), need)})
			return
		}
		s.explained["N3"]++
		s.n3Types = append(s.n3Types, a.Type)
		s.explained["N3.bytes_dropped"] += int64(len(pa) - len(pb))
		s.sizeChanged = true
		s.bytes(a, pa[:len(pb)], pb, pa)
	default:
		s.bytes(a, pa, pb, pa)
	}
}

// bytes compares two equally long byte ranges that start at payload offset 0
// of box a. full is the input's whole payload (for version and locators).
func (s *cmp) bytes(a *boxwalk.Node, fa, fb, full []byte) {
	var first *lost
	var cache map[string][]int
	for i := range fa {
		d := fa[i] ^ fb[i]
		if d == 0 {
			continue
		}
		if cache == nil {
			cache = map[string][]int{}
		}
		bits, by := s.dc.cover(a.Type, full, i, cache)
		if by != nil && d&bits != 0 {
			s.explained[by.ID]++
		}
		if rest := d &^ bits; rest != 0 {
			var ver byte
			if len(full) > 0 {
				ver = full[0]
			}
			if s.all {
				s.addLostAll(lost{Kind: "bits", Type: a.Type, Path: a.Path(), Ver: ver, Off: i, Mask: rest})
				continue
			}
			if first == nil {
				first = &lost{Kind: "bits", Type: a.Type, Path: a.Path(), Ver: ver, Off: i, Mask: rest,
					What: fmt.Sprintf("%s (version byte %d): payload byte %d is %02x in the input and %02x in the output (bits %02x not in the don't-care list)", a.Path(), ver, i, fa[i], fb[i], rest)}
			}
			first.NBytes++
		}
	}
	if first != nil {
		s.addLost(*first)
	}
}

// sencTableLen is the harness's own reading (23001-7 7.2, 8.2, 10.1) of how
// many payload bytes the syntax of a senc box without sub-sample table
// occupies: 8 + sample_count x Per_Sample_IV_Size, where the IV size is the
// track default of the tenc box unless the samples are mapped (sbgp) to a seig
// description. It decides only the plain case: one trak in a moov in front of
// the fragment, its first sample entry enca/encv with sinf/schi/tenc announcing
// 8- or 16-byte IVs, and a traf without any sbgp/sgpd pair.
func (s *cmp) sencTableLen(a *boxwalk.Node, pa []byte) (int, bool) {
	if a.Type != "senc" || len(pa) < 8 || pa[3]&2 != 0 || a.Parent == nil || a.Parent.Type != "traf" {
		return 0, false
	}
	hasSbgp, hasSgpd := false, false
	for _, sib := range a.Parent.Children {
		hasSbgp = hasSbgp || sib.Type == "sbgp"
		hasSgpd = hasSgpd || sib.Type == "sgpd"
	}
	if hasSbgp && hasSgpd {
		return 0, false
	}
	var moov *boxwalk.Node
	for _, r := range s.rootsX {
		if r.Type == "moov" && r.Start < a.Start {
			if moov != nil {
				return 0, false
			}
			moov = r
		}
	}
	if moov == nil {
		return 0, false
	}
	var trak *boxwalk.Node
	for _, c := range moov.Children {
		if c.Type == "trak" {
			if trak != nil {
				return 0, false
			}
			trak = c
		}
	}
	if trak == nil {
		return 0, false
	}
	stsd := trak.Descend("mdia", "minf", "stbl", "stsd")
	if stsd == nil || len(stsd.Children) == 0 || (stsd.Children[0].Type != "enca" && stsd.Children[0].Type != "encv") {
		return 0, false
	}
	one := func(t string) bool { return len(boxwalk.Find([]*boxwalk.Node{moov}, t)) == 1 }
	if !one("tenc") || !one("sinf") || !one("schi") || !one("stsd") || !one("stbl") || !one("minf") || !one("mdia") {
		return 0, false
	}
	tenc := stsd.Children[0].Descend("sinf", "schi", "tenc")
	if tenc == nil {
		return 0, false
	}
	tp := tenc.Payload(s.x)
	if len(tp) < 8 || (tp[7] != 8 && tp[7] != 16) {
		return 0, false
	}
	n := int(pa[4])<<24 | int(pa[5])<<16 | int(pa[6])<<8 | int(pa[7])
	if n <= 0 || n > 1<<20 {
		return 0, false
	}
	return 8 + n*int(tp[7]), true
}

func clip(b []byte, n int) []byte {
	if len(b) > n {
		return b[:n]
	}
	return b
}

func (s *cmp) addLostAll(l lost) {
	if len(s.lost) < 4096 {
		s.lost = append(s.lost, l)
	}
}
