package c11

import (
	"bytes"
	"fmt"

	gfrag "verifharness/gen/frag"
	"verifharness/ref/frag"
	"verifharness/runner"
)

// fragInput is a generated single-track fragmented file with its model.
type fragInput struct {
	h         *gfrag.History // nil for shaped inputs
	built     *gfrag.Built   // nil for shaped inputs
	initBytes []byte         // ftyp + moov
	media     []byte         // everything after the init
	all       []byte         // init + media
	want      *wantTrack
	label     string
	route     string // history | generate | bytes | api-optimized
	styp      bool
	optimize  bool // history routes: written with mp4.OptimizeTrun
	nsegs     int
	gapped    bool // a decode-time gap between two fragments
	hostile   bool // boundary field values
	gopDur    uint64
	total     uint64
	xf        *frag.File // reference expansion of the input (self-check)
}

type fragGenOptions struct {
	tool          string // for the evidence: resegmenter | fragmentify | combine-segs
	media         string // "" = random
	hostile       bool   // boundary values for dur/cto/flags/base
	noTrexDeps    bool   // the media must be expandable without trex
	oneFrag       bool   // exactly one segment with one fragment
	separateMedia bool   // the tool reads the media part as a file of its own (absolute offsets count from its start)
	allowGap      bool
	allowNoStyp   bool
}

var (
	syncFlagSet    = []uint32{0x02000000, 0x02000000, 0, 0x02400000, 0x0200abcd, 0x02800040}
	nonSyncFlagSet = []uint32{0x01010000, 0x01010000, 0x00010000, 0x01410000, 0x0101ffff, 0x0a610000}
)

// genFragHistory builds an API history for one track by hand (gen/frag
// executes it and keeps the model).
func genFragHistory(r *runner.Rand, o fragGenOptions) (*gfrag.History, string, bool) {
	media := o.media
	if media == "" {
		media = r.PickStr("video", "video", "audio")
	}
	ts := uint32(r.PickInt(90000, 90000, 48000, 44100, 1000, 12800, 25, 600, 10000000))
	n := r.Range(8, 80)
	if r.Chance(1, 8) {
		n = r.Range(1, 7)
	}
	if o.oneFrag {
		n = r.Range(1, 40)
	}
	gop := n
	if media == "video" {
		gop = r.PickInt(1, 2, 3, 5, 8, 12, 25, n)
	} else if r.Chance(7, 8) {
		gop = 1
	} else {
		gop = r.Range(2, 4)
	}
	d := uint32(r.PickInt(1, 40, 512, 1024, 3000, 3600, 3003))
	if ts == 25 || ts == 600 {
		d = uint32(r.PickInt(1, 1, 2, 24))
	}
	irregular := r.Chance(1, 5)
	ctoMode := r.Intn(4) // 0 none, 1 positive, 2 signed, 3 sync=0 others positive
	if media == "audio" && r.Chance(3, 4) {
		ctoMode = 0
	}
	base := uint64(0)
	if r.Chance(3, 10) {
		base = r.PickU64(1, uint64(d), 90000, 123456789, 0xffffffff, 0x100000000, 1<<40+7)
	}
	sf, nf := syncFlagSet[r.Intn(len(syncFlagSet))], nonSyncFlagSet[r.Intn(len(nonSyncFlagSet))]
	randomFlags := r.Chance(1, 6)
	sizeConst := r.Chance(1, 6)
	size0 := uint32(r.Range(8, 120))
	label := fmt.Sprintf("%s ts=%d n=%d gop=%d d=%d base=%d cto=%d", media, ts, n, gop, d, base, ctoMode)
	if irregular {
		label += " irregular"
	}
	if o.hostile {
		label += " hostile"
	}
	track := gfrag.TrackSpec{ID: 1, Timescale: ts, Media: media}
	if r.Bool() {
		track.TrexDur, track.TrexFlags = d, nf
		if sizeConst {
			track.TrexSize = size0
		}
	}
	// samples
	samples := make([]gfrag.Sample, n)
	t := base
	for i := range samples {
		s := gfrag.Sample{Track: 1, Ordinal: i, DecodeTime: t}
		s.Size = uint32(r.Range(8, 120))
		if sizeConst {
			s.Size = size0
		}
		s.Dur = d
		if irregular && r.Chance(1, 3) {
			s.Dur = d + uint32(r.Range(1, int(d)))
		}
		sync := i%gop == 0
		if sync {
			s.Flags = sf
		} else {
			s.Flags = nf
		}
		if randomFlags && i > 0 {
			s.Flags = r.Uint32()
			if sync {
				s.Flags &^= 0x00010000
			} else {
				s.Flags |= 0x00010000
			}
		}
		switch ctoMode {
		case 1:
			s.Cto = int32(r.Intn(4)) * int32(d)
			if sync {
				s.Cto = 2 * int32(d)
			}
		case 2:
			s.Cto = int32(r.Range(-2, 3)) * int32(d)
		case 3:
			s.Cto = int32(r.Intn(3)) * int32(d)
			if sync {
				s.Cto = 0
			}
		}
		if o.hostile {
			if r.Chance(1, 6) {
				s.Dur = uint32(r.PickU64(0, 1, 2, 0x7fffffff, 0x80000000, 0xffffffff, 90000))
			}
			if r.Chance(1, 6) {
				s.Cto = int32(r.PickInt(0x7fffffff, -0x80000000, -1, 1, 0x7ffffffe, -0x7fffffff))
			}
			if r.Chance(1, 6) {
				s.Flags = r.Uint32()
			}
			if r.Chance(1, 10) {
				s.Size = uint32(r.PickInt(0, 1, 7, 8, 9, 4000))
			}
		}
		if i == 0 {
			s.Flags &^= 0x00010000 // the track starts with a sync sample
		}
		samples[i] = s
		t += uint64(s.Dur)
	}
	// cut into fragments and segments
	var cuts []int // fragment starts (besides 0)
	if !o.oneFrag {
		aligned := r.Chance(3, 4)
		nfr := r.Range(1, 8)
		for k := 0; k < nfr; k++ {
			p := r.Range(1, n-1)
			if aligned && gop < n {
				p = (p / gop) * gop
			}
			if p > 0 && p < n {
				cuts = append(cuts, p)
			}
		}
		if r.Chance(1, 6) {
			cuts = nil // one fragment
		}
		if r.Chance(1, 10) && gop < n { // one fragment per GOP
			cuts = nil
			for p := gop; p < n; p += gop {
				cuts = append(cuts, p)
			}
		}
	}
	isCut := map[int]bool{}
	for _, p := range cuts {
		isCut[p] = true
	}
	h := &gfrag.History{Tracks: []gfrag.TrackSpec{track}, Optimize: r.Bool(), SW: r.Bool()}
	styp := true
	if o.allowNoStyp && r.Chance(1, 10) {
		styp = false
	}
	seq := uint32(1)
	if r.Chance(1, 6) {
		seq = uint32(r.PickInt(0, 1000, 0xfffffff0))
	}
	gapAt := -1
	if o.allowGap && len(cuts) > 0 && r.Chance(2, 25) {
		gapAt = cuts[r.Intn(len(cuts))]
		gap := uint64(r.PickInt(1, int(d), 5000, 1000000))
		if back := samples[gapAt].DecodeTime - samples[0].DecodeTime; r.Chance(1, 3) && back > 0 {
			// a backward jump (overlap / timestamp reset): later samples restart earlier
			if gap > back {
				gap = back
			}
			for i := gapAt; i < n; i++ {
				samples[i].DecodeTime -= gap
			}
			label += " backjump"
		} else {
			for i := gapAt; i < n; i++ {
				samples[i].DecodeTime += gap
			}
			label += " gap"
		}
	}
	var seg *gfrag.SegmentSpec
	var fs *gfrag.FragmentSpec
	flushFrag := func() {
		if fs != nil {
			seg.Fragments = append(seg.Fragments, *fs)
			fs = nil
		}
	}
	flushSeg := func() {
		flushFrag()
		if seg != nil && len(seg.Fragments) > 0 {
			h.Segments = append(h.Segments, *seg)
		}
		seg = nil
	}
	for i := 0; i < n; {
		if i == 0 || isCut[i] {
			newSeg := seg == nil || r.Chance(1, 2)
			if newSeg {
				flushSeg()
				seg = &gfrag.SegmentSpec{Styp: styp}
			} else {
				flushFrag()
			}
			fs = &gfrag.FragmentSpec{Seq: seq, Tracks: []uint32{1}, Mode: gfrag.ModeFull}
			seq++
			switch x := r.Intn(10); {
			case x < 2:
				fs.Mode = gfrag.ModeMeta
			case x == 2:
				fs.Mode = gfrag.ModeInterval
			}
			fs.LargeMdat = r.Chance(1, 12)
			fs.TrexTrick = !o.noTrexDeps && r.Chance(1, 3)
		}
		// the run up to the next cut
		j := i + 1
		for j < n && !isCut[j] {
			j++
		}
		for i < j {
			op := gfrag.Op{Track: 1}
			k := 1
			switch fs.Mode {
			case gfrag.ModeFull:
				op.Kind = r.PickStr(gfrag.OpAddFullSample, gfrag.OpAddFullSampleToTrack)
			case gfrag.ModeMeta:
				switch r.Intn(3) {
				case 0:
					op.Kind = gfrag.OpAddSample
				case 1:
					op.Kind = gfrag.OpAddSamples
					k = 1 + r.Intn(j-i)
				default:
					op.Kind = gfrag.OpAddSampleToTrack
				}
			default:
				op.Kind = gfrag.OpAddSampleInterval
				k = 1 + r.Intn(j-i)
			}
			op.Samples = append(op.Samples, samples[i:i+k]...)
			fs.Ops = append(fs.Ops, op)
			i += k
		}
	}
	flushSeg()
	for si := range h.Segments {
		ok := r.Chance(1, 3)
		for _, f := range h.Segments[si].Fragments {
			if f.Mode == gfrag.ModeMeta {
				ok = false
			}
		}
		h.Segments[si].ViaMediaSegment = ok
	}
	label += fmt.Sprintf(" segs=%d frags=%d opt=%v", len(h.Segments), len(cuts)+1, h.Optimize)
	return h, label, gapAt >= 0
}

// makeFragInput draws a single-track fragmented input and checks that the
// reference expansion of its bytes equals the model.
func makeFragInput(c *runner.Ctx, o fragGenOptions, useGenerate bool) *fragInput {
	// 45% hand-assembled shaped inputs, 10% multi-trun inputs built through the API with
	// trun optimisation, the rest single-trun API histories as before
	switch x := c.Rand.Intn(20); {
	case x < 9:
		return makeShapedInput(c, o, false)
	case x < 11:
		return makeShapedInput(c, o, true)
	}
	in := &fragInput{hostile: o.hostile, route: "history"}
	if useGenerate {
		in.route = "generate"
		gts := gfrag.TrackSpec{ID: 1, Timescale: uint32(c.Rand.PickInt(1000, 48000, 90000, 12800)), Media: c.Rand.PickStr("video", "audio")}
		if o.media != "" {
			gts.Media = o.media
		}
		if c.Rand.Bool() {
			gts.TrexDur, gts.TrexFlags = 1024, 0x01010000
		}
		in.h = gfrag.Generate(c.Rand, gfrag.Options{Tracks: []gfrag.TrackSpec{gts}, MaxTracks: 1, Tame: !o.hostile, SingleOnly: true, NoExtra: true, NoEmptyTraf: true, MaxSegments: 4, MaxFragments: 3, MaxSamples: 16})
		if o.noTrexDeps {
			for si := range in.h.Segments {
				for fi := range in.h.Segments[si].Fragments {
					in.h.Segments[si].Fragments[fi].TrexTrick = false
				}
			}
		}
		in.label = fmt.Sprintf("gen/frag.Generate %s ts=%d segs=%d", in.h.Tracks[0].Media, in.h.Tracks[0].Timescale, len(in.h.Segments))
		for si := range in.h.Segments {
			in.h.Segments[si].Styp = true
		}
	} else {
		in.h, in.label, in.gapped = genFragHistory(c.Rand, o)
	}
	in.h.Layout = gfrag.Layout{}
	for si := range in.h.Segments {
		in.h.Segments[si].NSidx = 0
	}
	var built *gfrag.Built
	var err error
	if pi := c.Guard(func() { built, err = gfrag.Build(in.h, gfrag.BuildOptions{Guard: c.Guard}) }); pi != nil || err != nil || built == nil {
		c.Inconclusive("input generator: the fragmented input could not be built")
		return nil
	}
	in.built = built
	for _, f := range built.Frags {
		if !f.InFile {
			c.Inconclusive("input generator: a fragment of the input could not be built")
			return nil
		}
	}
	ts := in.h.Tracks[0]
	kind := ts.Media
	in.want = &wantTrack{Kind: kind, Timescale: ts.Timescale, FullFlags: true, Label: in.label}
	model := built.Model()[ts.ID]
	if len(model) == 0 {
		c.Inconclusive("input generator: empty input")
		return nil
	}
	for _, s := range model {
		in.want.Samples = append(in.want.Samples, wantSample{Data: s.Data(), Dur: s.Dur, Cto: int64(s.Cto), DTS: s.DecodeTime, Sync: syncOfFlags(s.Flags), Flags: s.Flags})
	}
	// gaps between fragments that Generate may have made
	for i := 1; i < len(model); i++ {
		if model[i].DecodeTime != model[i-1].DecodeTime+uint64(model[i-1].Dur) {
			in.gapped = true
		}
	}
	in.initBytes, in.media, in.all = built.InitBytes, built.Media(), built.Bytes
	in.styp, in.optimize, in.nsegs = in.h.Segments[0].Styp, in.h.Optimize, len(in.h.Segments)
	if !in.selfCheck(c, o) {
		return nil
	}
	in.finish(c)
	return in
}

// selfCheck: the independent expansion of the input bytes equals the model.
// It also books the census of the input's shape (from the bytes).
func (in *fragInput) selfCheck(c *runner.Ctx, o fragGenOptions) bool {
	var xf *frag.File
	var err error
	if o.separateMedia {
		var init *frag.Init
		if init, err = parseInitBytes(in.initBytes); err == nil {
			xf, err = frag.ExpandFile(in.media, init)
		}
	} else {
		xf, err = frag.ExpandFile(in.all, nil)
	}
	if err != nil {
		c.Inconclusive("harness-selfcheck: reference expansion rejects the generated fragmented input (" + in.route + ")")
		return false
	}
	if !sameAsModel(in.want, xf.TrackSamples(1)) {
		c.Inconclusive("harness-selfcheck: reference expansion of the fragmented input differs from the generator's record (" + in.route + ")")
		return false
	}
	in.xf = xf
	return true
}

// writer names how the media part was written.
func (in *fragInput) writer() string {
	switch in.route {
	case "bytes":
		return "hand-assembled"
	case "api-optimized":
		return "api multi-trun optimize=true"
	}
	return fmt.Sprintf("api single-trun optimize=%v", in.optimize)
}

// finish computes GOP duration and total for the duration classes.
func (in *fragInput) finish(c *runner.Ctx) {
	var syncs []int
	for i, s := range in.want.Samples {
		in.total += uint64(s.Dur)
		if s.Sync {
			syncs = append(syncs, i)
		}
	}
	in.gopDur = in.total
	if len(syncs) >= 2 {
		k := c.Rand.Intn(len(syncs) - 1)
		in.gopDur = in.want.Samples[syncs[k+1]].DTS - in.want.Samples[syncs[k]].DTS
	}
}

// census books, from the reference reading of the input bytes, how many runs
// the track fragments hold and where durations / sizes / flags come from.
func (in *fragInput) census(c *runner.Ctx, tool string) {
	if in.xf == nil {
		return
	}
	c.Seen("frag_input_route", tool+" "+in.route)
	var trex *frag.Trex
	if t := in.xf.Init.TrackByID(1); t != nil {
		trex = t.Trex
	}
	_ = trex
	for _, m := range in.xf.Moofs {
		for _, tf := range m.Trafs {
			c.Seen("input_truns_per_traf", fmt.Sprintf("%s truns=%d", tool, len(tf.Truns)))
			if len(tf.Truns) > 1 {
				c.Count("input_multi_trun_trafs/"+tool, 1)
			}
			base := "moof (default-base-is-moof)"
			switch {
			case tf.Tfhd.Has(frag.TfhdBaseDataOffset):
				base = "tfhd base_data_offset"
			case !tf.Tfhd.Has(frag.TfhdDefaultBaseMoof):
				base = "moof (first traf, no flag)"
			}
			c.Seen("input_data_offset_base", base)
			for ti, tr := range tf.Truns {
				src := func(inTrun bool, tfhdBit uint32) string {
					switch {
					case inTrun:
						return "trun"
					case tf.Tfhd.Has(tfhdBit):
						return "tfhd"
					}
					return "trex"
				}
				ds := src(tr.Has(frag.TrunDuration), frag.TfhdDefaultDuration)
				ss := src(tr.Has(frag.TrunSize), frag.TfhdDefaultSize)
				fs := src(tr.Has(frag.TrunFlags), frag.TfhdDefaultFlags)
				if !tr.Has(frag.TrunFlags) && tr.Has(frag.TrunFirstSampleFlags) {
					fs = "first_sample_flags+" + fs
				}
				pos := "first-trun"
				if ti > 0 {
					pos = "later-trun"
				}
				c.Seen("input_duration_source", tool+" "+pos+" "+ds)
				c.Seen("input_size_source", tool+" "+pos+" "+ss)
				c.Seen("input_flags_source", tool+" "+pos+" "+fs)
				cto := "cto"
				if !tr.Has(frag.TrunCto) {
					cto = "no-cto"
				}
				c.Seen("input_trun_shape", fmt.Sprintf("dur=%s size=%s flags=%s %s v%d", ds, ss, fs, cto, tr.Version))
				if ti > 0 && ds == "trex" {
					c.Count("input_later_truns_with_trex_only_duration/"+tool, 1)
				}
				if ti > 0 && ds == "tfhd" {
					c.Count("input_later_truns_with_tfhd_duration/"+tool, 1)
				}
			}
		}
	}
}

func sameAsModel(wt *wantTrack, got []frag.Sample) bool {
	if len(got) != len(wt.Samples) {
		return false
	}
	for i, g := range got {
		w := wt.Samples[i]
		if !bytes.Equal(g.Data, w.Data) || g.Duration != w.Dur || g.Cto != w.Cto || g.DecodeTime != w.DTS || g.Flags != w.Flags {
			return false
		}
	}
	return true
}

// wantFromFragBytes derives the expected list of one track from the reference
// expansion of input bytes (repo files: no generator record exists).
func wantFromFragBytes(b []byte, init *frag.Init, trackID uint32, kind string, timescale uint32) (*wantTrack, error) {
	xf, err := frag.ExpandFile(b, init)
	if err != nil {
		return nil, err
	}
	wt := &wantTrack{Kind: kind, Timescale: timescale, FullFlags: true}
	for _, s := range xf.TrackSamples(trackID) {
		wt.Samples = append(wt.Samples, wantSample{Data: s.Data, Dur: s.Duration, Cto: s.Cto, DTS: s.DecodeTime, Sync: syncOfFlags(s.Flags), Flags: s.Flags})
	}
	return wt, nil
}
