package c11

// Shaped fragmented inputs: single-track fragmented files whose track
// fragments hold 1..4 track runs and whose sample durations / sizes / flags
// come from every source ISO/IEC 14496-12 8.8.7/8.8.8 offers (per-sample trun
// fields, first_sample_flags, tfhd defaults, trex defaults) in all
// combinations. The media part (styp, moof, mdat) is assembled byte by byte
// here (no mp4ff call), or, on the "api-optimized" route, built through
// mp4ff's fragment API with several trun boxes and written with
// mp4.OptimizeTrun. The ground truth is the generator's own resolved sample
// list; the independent expansion of the produced bytes (ref/frag) must agree
// with it before a tool sees the file.

import (
	"bytes"
	"encoding/binary"
	"fmt"
	"verifharness/dirtysw"

	"github.com/Eyevinn/mp4ff/mp4"

	gfrag "verifharness/gen/frag"
	"verifharness/ref/frag"
	"verifharness/runner"
)

// shTrun is one track run of the plan: samples [from,to) of the track.
type shTrun struct {
	from, to                          int
	expDur, expSize, expFlags, expCto bool // per-sample field present in the trun
	first                             bool // first_sample_flags present (never together with expFlags)
	firstFlags                        uint32
	version                           byte
}

// shFrag is one movie fragment (one traf).
type shFrag struct {
	seq                                 uint32
	truns                               []shTrun
	tfhdHasDur, tfhdHasSize, tfhdHasFlg bool
	tfhdDur, tfhdSize, tfhdFlags        uint32
	sdi                                 bool   // sample_description_index present
	baseMode                            string // moof-flag | implicit | abs-moof | abs-mdat | abs-mid | abs-zero
	tfdtV0                              bool
	order                               []int // order of the runs' data in the mdat
	pads                                []int // filler bytes in front of each run's data (in mdat order)
	largeMdat                           bool
}

type shSeg struct {
	styp  bool
	frags []shFrag
}

type shapedPlan struct {
	track   gfrag.TrackSpec
	samples []gfrag.Sample // resolved ground truth
	segs    []shSeg
	label   string
	gapped  bool
	route   string // bytes | api-optimized
}

var (
	hostileDurs  = []uint32{0, 1, 2, 0x7fffffff, 0x80000000, 0xffffffff, 90000}
	hostileSizes = []uint32{0, 1, 7, 8, 9, 4000}
)

// fieldMode is how one field (duration, size, flags) of one traf is sourced.
// explicit: every trun carries it; decoy: every trun carries it and the tfhd
// has an (unused) default; tfhd / trex: no trun carries it; mixed-*: some do.
var fieldModes = []string{"explicit", "decoy", "tfhd", "trex", "mixed-tfhd", "mixed-trex"}

func drawFieldMode(r *runner.Rand, noTrex bool) string {
	for {
		m := fieldModes[r.Intn(len(fieldModes))]
		if noTrex && (m == "trex" || m == "mixed-trex") {
			continue
		}
		return m
	}
}

// genShapedPlan draws a plan. api = true: everything explicit, values that
// the trun optimisation can fold (the library decides the final shape).
func genShapedPlan(r *runner.Rand, o fragGenOptions, api bool) *shapedPlan {
	media := o.media
	if media == "" {
		media = r.PickStr("video", "video", "audio")
	}
	ts := uint32(r.PickInt(90000, 90000, 48000, 44100, 1000, 12800, 25, 600, 10000000))
	n := r.Range(8, 80)
	if r.Chance(1, 8) {
		n = r.Range(2, 7)
	}
	if o.oneFrag {
		n = r.Range(2, 40)
	}
	gop := n
	if media == "video" {
		gop = r.PickInt(1, 2, 3, 5, 8, 12, 25, n)
	} else if r.Chance(7, 8) {
		gop = 1
	} else {
		gop = r.Range(2, 4)
	}
	d := uint32(r.PickInt(1, 40, 512, 1024, 3000, 3600, 3003))
	if ts == 25 || ts == 600 {
		d = uint32(r.PickInt(1, 1, 2, 24))
	}
	irregular := r.Chance(1, 5) && !api
	ctoMode := r.Intn(4) // 0 none, 1 positive, 2 signed, 3 sync=0 others positive
	if media == "audio" && r.Chance(3, 4) {
		ctoMode = 0
	}
	base := uint64(0)
	if r.Chance(3, 10) {
		base = r.PickU64(1, uint64(d), 90000, 123456789, 0xffffffff, 0x100000000, 1<<40+7)
	}
	sf, nf := syncFlagSet[r.Intn(len(syncFlagSet))], nonSyncFlagSet[r.Intn(len(nonSyncFlagSet))]
	if gop == 1 {
		nf = sf // every sample is a sync sample
	}
	randomFlags := r.Chance(1, 6) && !api
	sizeConst := r.Chance(1, 4)
	size0 := uint32(r.Range(8, 120))
	p := &shapedPlan{route: "bytes"}
	if api {
		p.route = "api-optimized"
	}
	p.label = fmt.Sprintf("shaped/%s %s ts=%d n=%d gop=%d d=%d base=%d cto=%d", p.route, media, ts, n, gop, d, base, ctoMode)
	if irregular {
		p.label += " irregular"
	}
	if o.hostile {
		p.label += " hostile"
	}
	// trex defaults: always set; what they are only matters where a run relies on them
	p.track = gfrag.TrackSpec{ID: 1, Timescale: ts, Media: media}
	p.track.TrexDur = uint32(r.PickU64(uint64(d), uint64(d), uint64(d), 1, uint64(d)*2+1))
	p.track.TrexSize = uint32(r.PickU64(uint64(size0), uint64(size0), uint64(r.Range(8, 120))))
	p.track.TrexFlags = uint32(r.PickU64(uint64(nf), uint64(nf), uint64(nf), uint64(sf), uint64(r.Uint32()|0x00010000)))
	if o.hostile && !api && r.Chance(1, 4) {
		p.track.TrexDur = hostileDurs[r.Intn(len(hostileDurs))]
	}
	if api {
		p.track.TrexDur, p.track.TrexSize, p.track.TrexFlags = d, size0, nf
	}
	// the samples as they would be with explicit values everywhere
	samples := make([]gfrag.Sample, n)
	for i := range samples {
		s := gfrag.Sample{Track: 1, Ordinal: i}
		s.Size = uint32(r.Range(8, 120))
		if sizeConst {
			s.Size = size0
		}
		s.Dur = d
		if irregular && r.Chance(1, 3) {
			s.Dur = d + uint32(r.Range(1, int(d)))
		}
		sync := i%gop == 0
		if sync {
			s.Flags = sf
		} else {
			s.Flags = nf
		}
		if randomFlags && i > 0 {
			s.Flags = r.Uint32()
			if sync {
				s.Flags &^= 0x00010000
			} else {
				s.Flags |= 0x00010000
			}
		}
		switch ctoMode {
		case 1:
			s.Cto = int32(r.Intn(4)) * int32(d)
			if sync {
				s.Cto = 2 * int32(d)
			}
		case 2:
			s.Cto = int32(r.Range(-2, 3)) * int32(d)
		case 3:
			s.Cto = int32(r.Intn(3)) * int32(d)
			if sync {
				s.Cto = 0
			}
		}
		if o.hostile && !api {
			if r.Chance(1, 6) {
				s.Dur = hostileDurs[r.Intn(len(hostileDurs))]
			}
			if r.Chance(1, 6) {
				s.Cto = int32(r.PickInt(0x7fffffff, -0x80000000, -1, 1, 0x7ffffffe, -0x7fffffff))
			}
			if r.Chance(1, 6) {
				s.Flags = r.Uint32()
			}
			if r.Chance(1, 10) {
				s.Size = hostileSizes[r.Intn(len(hostileSizes))]
			}
		}
		samples[i] = s
	}
	// fragments and segments
	var cuts []int
	if !o.oneFrag {
		aligned := r.Chance(3, 4)
		nfr := r.Range(1, 6)
		for k := 0; k < nfr; k++ {
			q := r.Range(1, n-1)
			if aligned && gop < n {
				q = (q / gop) * gop
			}
			if q > 0 && q < n {
				cuts = append(cuts, q)
			}
		}
		if r.Chance(1, 5) {
			cuts = nil
		}
	}
	isCut := map[int]bool{}
	for _, q := range cuts {
		isCut[q] = true
	}
	styp := true
	if o.allowNoStyp && r.Chance(1, 10) {
		styp = false
	}
	seq := uint32(1)
	if r.Chance(1, 6) {
		seq = uint32(r.PickInt(0, 1000, 0xfffffff0))
	}
	var fragStarts []int
	for i := 0; i < n; i++ {
		if i == 0 || isCut[i] {
			fragStarts = append(fragStarts, i)
		}
	}
	for fi, from := range fragStarts {
		to := n
		if fi+1 < len(fragStarts) {
			to = fragStarts[fi+1]
		}
		fr := shFrag{seq: seq, baseMode: "moof-flag"}
		seq++
		// 1..4 runs
		cnt := to - from
		k := r.PickInt(1, 2, 2, 2, 3, 3, 4, 4)
		if k > cnt {
			k = cnt
		}
		starts := map[int]bool{from: true}
		atGop := r.Bool()
		for tries := 0; len(starts) < k && tries < 40; tries++ {
			q := r.Range(from+1, to-1)
			if atGop && gop > 1 {
				q = (q / gop) * gop
			}
			if q > from && q < to {
				starts[q] = true
			}
		}
		prev := from
		for q := from + 1; q <= to; q++ {
			if q == to || starts[q] {
				fr.truns = append(fr.truns, shTrun{from: prev, to: q, expDur: true, expSize: true, expFlags: true, expCto: true, version: 1})
				prev = q
			}
		}
		if !api {
			shapeFragment(r, p, &fr, samples, o, d, size0, sf, nf)
		} else {
			fr.order = identity(len(fr.truns))
			fr.pads = make([]int, len(fr.truns))
			fr.largeMdat = r.Chance(1, 12)
		}
		if len(p.segs) == 0 || r.Bool() {
			p.segs = append(p.segs, shSeg{styp: styp})
		}
		sg := &p.segs[len(p.segs)-1]
		sg.frags = append(sg.frags, fr)
	}
	// the track starts with a sync sample
	if samples[0].Flags&0x00010000 != 0 {
		samples[0].Flags &^= 0x00010000
		t0 := &p.segs[0].frags[0].truns[0]
		if !t0.expFlags {
			t0.first, t0.firstFlags = true, samples[0].Flags
		}
	} else if t0 := &p.segs[0].frags[0].truns[0]; t0.first {
		t0.firstFlags = samples[0].Flags
	}
	// decode times (a gap is only possible between two fragments)
	gapAt := -1
	if o.allowGap && len(fragStarts) > 1 && r.Chance(2, 25) {
		gapAt = fragStarts[1+r.Intn(len(fragStarts)-1)]
	}
	t := base
	for i := range samples {
		if i == gapAt {
			gap := uint64(r.PickInt(1, int(d), 5000, 1000000))
			if back := t - base; r.Chance(1, 3) && back > 0 {
				if gap > back {
					gap = back
				}
				t -= gap
				p.label += " backjump"
			} else {
				t += gap
				p.label += " gap"
			}
			p.gapped = true
		}
		samples[i].DecodeTime = t
		t += uint64(samples[i].Dur)
	}
	p.samples = samples
	p.label += fmt.Sprintf(" segs=%d frags=%d", len(p.segs), len(fragStarts))
	return p
}

func identity(n int) []int {
	l := make([]int, n)
	for i := range l {
		l[i] = i
	}
	return l
}

// shapeFragment decides where the values of one traf come from and rewrites
// the samples of the runs that rely on a default accordingly.
func shapeFragment(r *runner.Rand, p *shapedPlan, fr *shFrag, samples []gfrag.Sample, o fragGenOptions, d, size0, sf, nf uint32) {
	noTrex := o.noTrexDeps
	first := samples[fr.truns[0].from]
	// the three fields
	for _, field := range []string{"dur", "size", "flags"} {
		mode := drawFieldMode(r, noTrex)
		hasTfhd := mode == "decoy" || mode == "tfhd" || mode == "mixed-tfhd"
		var def uint32 // the tfhd default
		switch field {
		case "dur":
			def = uint32(r.PickU64(uint64(d), uint64(d), uint64(first.Dur), uint64(p.track.TrexDur)+1, uint64(d)*3))
			if o.hostile && r.Chance(1, 4) {
				def = hostileDurs[r.Intn(len(hostileDurs))]
			}
			fr.tfhdHasDur, fr.tfhdDur = hasTfhd, def
		case "size":
			def = uint32(r.PickU64(uint64(size0), uint64(first.Size), uint64(r.Range(8, 120)), uint64(p.track.TrexSize)+1))
			if o.hostile && r.Chance(1, 6) {
				def = hostileSizes[r.Intn(len(hostileSizes))]
			}
			fr.tfhdHasSize, fr.tfhdSize = hasTfhd, def
		default:
			def = uint32(r.PickU64(uint64(nf), uint64(nf), uint64(nf), uint64(sf), uint64(r.Uint32()|0x00010000), uint64(p.track.TrexFlags^0x00400000)))
			fr.tfhdHasFlg, fr.tfhdFlags = hasTfhd, def
		}
		eff := def
		if !hasTfhd {
			switch field {
			case "dur":
				eff = p.track.TrexDur
			case "size":
				eff = p.track.TrexSize
			default:
				eff = p.track.TrexFlags
			}
		}
		for ti := range fr.truns {
			tr := &fr.truns[ti]
			explicit := true
			switch mode {
			case "tfhd", "trex":
				explicit = false
			case "mixed-tfhd", "mixed-trex":
				explicit = r.Bool()
			}
			if explicit {
				continue
			}
			switch field {
			case "dur":
				tr.expDur = false
				for i := tr.from; i < tr.to; i++ {
					samples[i].Dur = eff
				}
			case "size":
				tr.expSize = false
				for i := tr.from; i < tr.to; i++ {
					samples[i].Size = eff
				}
			default:
				tr.expFlags = false
				// first_sample_flags: the run's first sample keeps flags of its own
				if r.Chance(3, 5) {
					tr.first = true
					tr.firstFlags = samples[tr.from].Flags
					if r.Chance(1, 3) {
						tr.firstFlags = sf
					}
				}
				for i := tr.from; i < tr.to; i++ {
					samples[i].Flags = eff
				}
				if tr.first {
					samples[tr.from].Flags = tr.firstFlags
				}
			}
		}
	}
	// composition offsets: a run may leave the field out when all are 0; version 0 holds them unsigned
	for ti := range fr.truns {
		tr := &fr.truns[ti]
		allZero, allNonNeg := true, true
		for i := tr.from; i < tr.to; i++ {
			allZero = allZero && samples[i].Cto == 0
			allNonNeg = allNonNeg && samples[i].Cto >= 0
		}
		if !allZero && r.Chance(1, 5) {
			for i := tr.from; i < tr.to; i++ {
				samples[i].Cto = 0
			}
			allZero = true
		}
		if allZero && r.Chance(2, 3) {
			tr.expCto = false
		}
		if allNonNeg && r.Bool() {
			tr.version = 0
		}
	}
	fr.sdi = r.Chance(1, 4)
	fr.baseMode = r.PickStr("moof-flag", "moof-flag", "moof-flag", "implicit", "abs-moof", "abs-mdat", "abs-mid", "abs-zero")
	fr.tfdtV0 = r.Bool()
	fr.order = identity(len(fr.truns))
	if len(fr.truns) > 1 && r.Chance(1, 4) {
		fr.order = r.Perm(len(fr.truns))
	}
	fr.pads = make([]int, len(fr.truns))
	if r.Chance(1, 5) {
		for i := range fr.pads {
			fr.pads[i] = r.PickInt(0, 0, 1, 3, 16)
		}
	}
	fr.largeMdat = r.Chance(1, 12)
}

// ---------------------------------------------------------------------------
// byte assembly (no mp4ff)

func be32(v uint32) []byte { var b [4]byte; binary.BigEndian.PutUint32(b[:], v); return b[:] }
func be64(v uint64) []byte { var b [8]byte; binary.BigEndian.PutUint64(b[:], v); return b[:] }

func rawBox(typ string, parts ...[]byte) []byte {
	n := 8
	for _, q := range parts {
		n += len(q)
	}
	out := make([]byte, 0, n)
	out = append(out, be32(uint32(n))...)
	out = append(out, typ...)
	for _, q := range parts {
		out = append(out, q...)
	}
	return out
}

func stypBytes() []byte {
	return rawBox("styp", []byte("msdh"), be32(0), []byte("msdh"), []byte("msix"))
}

// encodeFragment serializes one fragment whose moof box starts at absolute
// file offset moofAbs (absolute = in the file the tool will read).
func (p *shapedPlan) encodeFragment(fr *shFrag, moofAbs int) []byte {
	nt := len(fr.truns)
	// mdat payload layout
	runOff := make([]int, nt)
	var payload []byte
	for oi, ti := range fr.order {
		for k := 0; k < fr.pads[oi]; k++ {
			payload = append(payload, 0xAA)
		}
		runOff[ti] = len(payload)
		tr := fr.truns[ti]
		for i := tr.from; i < tr.to; i++ {
			payload = append(payload, p.samples[i].Data()...)
		}
	}
	build := func(dataOff []int32, baseAbs uint64) []byte {
		tf := uint32(0)
		var tfhd []byte
		switch fr.baseMode {
		case "moof-flag":
			tf |= frag.TfhdDefaultBaseMoof
		case "implicit":
		default:
			tf |= frag.TfhdBaseDataOffset
		}
		if fr.sdi {
			tf |= frag.TfhdSampleDescIndex
		}
		if fr.tfhdHasDur {
			tf |= frag.TfhdDefaultDuration
		}
		if fr.tfhdHasSize {
			tf |= frag.TfhdDefaultSize
		}
		if fr.tfhdHasFlg {
			tf |= frag.TfhdDefaultFlags
		}
		tfhd = append(tfhd, be32(tf)...)
		tfhd = append(tfhd, be32(p.track.ID)...)
		if tf&frag.TfhdBaseDataOffset != 0 {
			tfhd = append(tfhd, be64(baseAbs)...)
		}
		if fr.sdi {
			tfhd = append(tfhd, be32(1)...)
		}
		if fr.tfhdHasDur {
			tfhd = append(tfhd, be32(fr.tfhdDur)...)
		}
		if fr.tfhdHasSize {
			tfhd = append(tfhd, be32(fr.tfhdSize)...)
		}
		if fr.tfhdHasFlg {
			tfhd = append(tfhd, be32(fr.tfhdFlags)...)
		}
		dts := p.samples[fr.truns[0].from].DecodeTime
		var tfdt []byte
		if fr.tfdtV0 && dts <= 0xffffffff {
			tfdt = append(be32(0), be32(uint32(dts))...)
		} else {
			tfdt = append(be32(1<<24), be64(dts)...)
		}
		traf := [][]byte{rawBox("tfhd", tfhd), rawBox("tfdt", tfdt)}
		for ti, tr := range fr.truns {
			fl := uint32(frag.TrunDataOffset)
			if tr.first {
				fl |= frag.TrunFirstSampleFlags
			}
			if tr.expDur {
				fl |= frag.TrunDuration
			}
			if tr.expSize {
				fl |= frag.TrunSize
			}
			if tr.expFlags {
				fl |= frag.TrunFlags
			}
			if tr.expCto {
				fl |= frag.TrunCto
			}
			var b []byte
			b = append(b, be32(uint32(tr.version)<<24|fl)...)
			b = append(b, be32(uint32(tr.to-tr.from))...)
			b = append(b, be32(uint32(dataOff[ti]))...)
			if tr.first {
				b = append(b, be32(tr.firstFlags)...)
			}
			for i := tr.from; i < tr.to; i++ {
				s := p.samples[i]
				if tr.expDur {
					b = append(b, be32(s.Dur)...)
				}
				if tr.expSize {
					b = append(b, be32(s.Size)...)
				}
				if tr.expFlags {
					b = append(b, be32(s.Flags)...)
				}
				if tr.expCto {
					b = append(b, be32(uint32(s.Cto))...)
				}
			}
			traf = append(traf, rawBox("trun", b))
		}
		return rawBox("moof", rawBox("mfhd", be32(0), be32(fr.seq)), rawBox("traf", traf...))
	}
	moof := build(make([]int32, nt), 0)
	hdr := 8
	if fr.largeMdat {
		hdr = 16
	}
	payloadAbs := moofAbs + len(moof) + hdr
	baseAbs := moofAbs
	switch fr.baseMode {
	case "abs-mdat":
		baseAbs = payloadAbs
	case "abs-mid":
		baseAbs = payloadAbs + len(payload)/2
	case "abs-zero":
		baseAbs = 0
	}
	offs := make([]int32, nt)
	for ti := range offs {
		offs[ti] = int32(payloadAbs + runOff[ti] - baseAbs)
	}
	moof = build(offs, uint64(baseAbs))
	var out []byte
	out = append(out, moof...)
	if fr.largeMdat {
		out = append(out, be32(1)...)
		out = append(out, "mdat"...)
		out = append(out, be64(uint64(16+len(payload)))...)
	} else {
		out = append(out, be32(uint32(8+len(payload)))...)
		out = append(out, "mdat"...)
	}
	return append(out, payload...)
}

// encodeMedia assembles the media part; mediaAbs is the absolute offset of its first byte.
func (p *shapedPlan) encodeMedia(mediaAbs int) []byte {
	var out []byte
	for si := range p.segs {
		sg := &p.segs[si]
		if sg.styp {
			out = append(out, stypBytes()...)
		}
		for fi := range sg.frags {
			out = append(out, p.encodeFragment(&sg.frags[fi], mediaAbs+len(out))...)
		}
	}
	return out
}

// encodeMediaAPI builds every fragment through mp4ff (CreateFragment, further
// trun boxes added to the traf, one AddSample per sample) and writes it with
// trun optimisation on. trexTrick additionally clears, in every run, the
// per-sample fields that equal the trex defaults.
func (p *shapedPlan) encodeMediaAPI(trexTrick, sw bool) ([]byte, error) {
	var out bytes.Buffer
	for si := range p.segs {
		sg := &p.segs[si]
		if sg.styp {
			out.Write(stypBytes())
		}
		for fi := range sg.frags {
			fr := &sg.frags[fi]
			f, err := mp4.CreateFragment(fr.seq, p.track.ID)
			if err != nil {
				return nil, err
			}
			traf := f.Moof.Traf
			if fr.largeMdat {
				f.Mdat.LargeSize = true
			}
			traf.Tfdt.SetBaseMediaDecodeTime(p.samples[fr.truns[0].from].DecodeTime)
			// the trex trick is only applied to a field when the first run also qualifies: the
			// optimiser then leaves the tfhd without a default for it and trex really is the source
			t0 := fr.truns[0]
			okD, okS, okF := trexTrick, trexTrick, trexTrick
			for i := t0.from; i < t0.to; i++ {
				s := p.samples[i]
				okD = okD && s.Dur == p.track.TrexDur
				okS = okS && s.Size == p.track.TrexSize
				okF = okF && s.Flags == p.track.TrexFlags
			}
			for ti, tr := range fr.truns {
				trun := traf.Trun
				if ti > 0 {
					trun = mp4.CreateTrun(uint32(ti))
					if err := traf.AddChild(trun); err != nil {
						return nil, err
					}
				}
				eqD, eqS, eqF := true, true, true
				for i := tr.from; i < tr.to; i++ {
					s := p.samples[i]
					trun.AddSample(mp4.NewSample(s.Flags, s.Dur, s.Size, s.Cto))
					f.Mdat.AddSampleData(s.Data())
					eqD = eqD && s.Dur == p.track.TrexDur
					eqS = eqS && s.Size == p.track.TrexSize
					eqF = eqF && s.Flags == p.track.TrexFlags
				}
				if okD && eqD {
					trun.Flags &^= mp4.TrunSampleDurationPresentFlag
				}
				if okS && eqS {
					trun.Flags &^= mp4.TrunSampleSizePresentFlag
				}
				if okF && eqF {
					trun.Flags &^= mp4.TrunSampleFlagsPresentFlag
				}
			}
			f.EncOptimize = mp4.OptimizeTrun
			if sw {
				b, err := encodeFragSW(f)
				if err != nil {
					return nil, err
				}
				out.Write(b)
			} else if err := f.Encode(&out); err != nil {
				return nil, err
			}
		}
	}
	return out.Bytes(), nil
}

func encodeFragSW(f *mp4.Fragment) ([]byte, error) {
	w := dirtysw.New(int(f.Size()) + 64)
	if err := f.EncodeSW(w); err != nil {
		return nil, err
	}
	return w.Bytes(), nil
}

// ---------------------------------------------------------------------------
// from a plan to an input

// makeShapedInput draws a shaped input, serializes it and checks that the
// reference expansion of the bytes equals the plan's sample list.
func makeShapedInput(c *runner.Ctx, o fragGenOptions, api bool) *fragInput {
	p := genShapedPlan(c.Rand, o, api)
	in := &fragInput{hostile: o.hostile, label: p.label, gapped: p.gapped, route: p.route}
	h := &gfrag.History{Tracks: []gfrag.TrackSpec{p.track}}
	var err error
	if pi := c.Guard(func() { _, in.initBytes, err = gfrag.BuildInit(h) }); pi != nil || err != nil {
		c.Inconclusive("input generator: the init segment could not be built")
		return nil
	}
	mediaAbs := len(in.initBytes)
	if o.separateMedia {
		mediaAbs = 0 // the tool reads the media segment as a file of its own
	}
	if api {
		trick := !o.noTrexDeps && c.Rand.Chance(1, 3)
		sw := c.Rand.Bool()
		if trick {
			in.label += " trex-trick"
		}
		if pi := c.Guard(func() { in.media, err = p.encodeMediaAPI(trick, sw) }); pi != nil || err != nil {
			c.Inconclusive("input generator: the library could not build / encode the multi-trun input fragment")
			return nil
		}
	} else {
		in.media = p.encodeMedia(mediaAbs)
	}
	in.styp = p.segs[0].styp
	in.nsegs = len(p.segs)
	in.all = append(append([]byte{}, in.initBytes...), in.media...)
	in.want = &wantTrack{Kind: p.track.Media, Timescale: p.track.Timescale, FullFlags: true, Label: in.label}
	for _, s := range p.samples {
		in.want.Samples = append(in.want.Samples, wantSample{Data: s.Data(), Dur: s.Dur, Cto: int64(s.Cto), DTS: s.DecodeTime, Sync: syncOfFlags(s.Flags), Flags: s.Flags})
	}
	if !in.selfCheck(c, o) {
		return nil
	}
	in.finish(c)
	return in
}
