// Package c11 decides property C11: segmenting (examples/segmenter in its four
// flag combinations), resegmenting (examples/resegmenter), splitting a segment
// into shorter fragments (MediaSegment.Fragmentify) and multiplexing
// single-track segments (examples/combine-segs) conserve, per track, the
// complete ordered sample sequence, and every produced segment starts with a
// sync sample of the reference track.
//
// The tools are black boxes: the built binaries are run on generated files in
// the worker's scratch directory. Oracle: the per-track sample list the
// generator recorded when it made the input (gen/prog: own serializer;
// gen/frag: API history) -- cross-checked against the independent expansion of
// the input bytes -- must equal the concatenation, over all produced segments
// in order, of the independent expansion (ref/frag) of the produced bytes.
package c11

import (
	"bytes"
	"context"
	"fmt"
	"os"
	"os/exec"
	"path/filepath"
	"sort"
	"strings"
	"time"

	"verifharness/gen/prog"
	"verifharness/ref/frag"
	"verifharness/runner"
)

// ---------------------------------------------------------------------------
// case plan

type caseSpec struct {
	kind string // segmenter | segmenter-corpus | resegmenter | resegmenter-corpus | combine | combine-corpus | fragmentify | fragmentify-corpus
	sub  int
}

var (
	plan    []caseSpec
	entries *prog.EntrySet
	tools   = map[string]string{}
)

var segmenterCorpus = []string{"mp4/testdata/prog_8s.mp4", "mp4/testdata/bbb_prog_10s.mp4"}

const (
	segRunsPerCase   = 8
	resegRunsPerCase = 6
	fragifyPerCase   = 8
)

func counts(tier string) (seg, reseg, comb, fragify int) {
	if tier == "thorough" {
		return 9600, 6600, 9000, 24000
	}
	return 320, 220, 300, 800
}

func buildPlan(env *runner.Env) {
	plan = nil
	for i := range segmenterCorpus {
		plan = append(plan, caseSpec{"segmenter-corpus", i})
	}
	plan = append(plan, caseSpec{"resegmenter-corpus", 0}, caseSpec{"combine-corpus", 0}, caseSpec{"fragmentify-corpus", 0})
	ns, nr, nc, nf := counts(env.Tier)
	var gen []caseSpec
	for i := 0; i < ns; i++ {
		gen = append(gen, caseSpec{"segmenter", i})
	}
	for i := 0; i < nr; i++ {
		gen = append(gen, caseSpec{"resegmenter", i})
	}
	for i := 0; i < nc; i++ {
		gen = append(gen, caseSpec{"combine", i})
	}
	for i := 0; i < nf; i++ {
		gen = append(gen, caseSpec{"fragmentify", i})
	}
	// fixed interleaving so that every shard gets every kind (the content of a
	// case comes from c.Rand, i.e. from (seed, idx), not from this order)
	r := runner.NewRand(0xc11)
	p := r.Perm(len(gen))
	for _, j := range p {
		plan = append(plan, gen[j])
	}
}

func setup(env *runner.Env) error {
	buildPlan(env)
	entries = prog.LoadEntries(env.RepoDir)
	if entries == nil {
		return fmt.Errorf("no avc1/hvc1/mp4a sample entries could be lifted from the repo's test files")
	}
	for _, name := range []string{"segmenter", "resegmenter", "combine-segs"} {
		src := filepath.Join(env.BinDir, "tools", name)
		bin, err := os.ReadFile(src)
		if err != nil {
			return fmt.Errorf("built tool missing (run.sh builds it): %w", err)
		}
		// private copy: the shared bin directory may be rebuilt or cleaned while this worker runs
		dst := filepath.Join(env.Scratch, "tool-"+name)
		if err := os.WriteFile(dst, bin, 0o755); err != nil {
			return fmt.Errorf("cannot copy the tool into the scratch directory: %w", err)
		}
		tools[name] = dst
	}
	return nil
}

func init() {
	runner.Register(&runner.Prop{
		ID: "C11",
		Rule: "quick: 5 repo-file cases + 320 segmenter + 220 resegmenter + 300 combine-segs + 800 Fragmentify cases (about 4 100 tool runs + 6 400 library calls); thorough: 9 600 + 6 600 + 9 000 + 24 000 (about 125 000 tool runs + 192 000 library calls). " +
			"segmenter case = one generated progressive movie (gen/prog.RandomMovie, own serializer, real avc1/hvc1/mp4a sample entries; exactly one video track and at most one audio track as the tool documents, 5% other track sets; stss/ctts v0,v1/sdtp/edts, stco|co64, all chunkings and interleavings, 35% adversarial timing) x 8 runs of bin/tools/segmenter over the flag sets {}, -m, -lazy, -m -lazy with -d from {1 ms, half a GOP, GOP-1, GOP, GOP+1, 1.5 GOP, 2..3 GOP, random, total, total+1000 ms}; " +
			"resegmenter case = one generated single-track fragmented file (input routes, shared by resegmenter, Fragmentify and combine-segs cases: 45% shaped/bytes, 10% shaped/api-optimized, the rest the single-trun API histories described next; " +
			"shaped/bytes = media part (styp, moof{mfhd, traf{tfhd, tfdt, trun x 1..4}}, mdat) assembled byte by byte in props/c11/shapes.go without any mp4ff call: per traf and per field (duration, size, flags) one of explicit in every trun | explicit + unused tfhd default (decoy) | tfhd default only | trex default only | mixed trun/tfhd | mixed trun/trex, runs without sample flags get first_sample_flags in 3 of 5 draws, composition offsets absent when all 0 (2/3), trun version 0 or 1, tfdt version 0 or 1, sample_description_index present or not, data offsets relative to the moof (default-base-is-moof flag, or no flag) or to a tfhd base_data_offset (moof start, mdat payload start, middle of the payload = negative trun data offsets, file start), runs' data in mdat in run order or permuted (1/4), filler bytes between runs (1/5), 64-bit mdat size (1/12), tfhd / trex defaults equal to or different from each other, hostile variant with boundary durations/sizes/flags also as default values; runs cut at GOP boundaries or anywhere; the samples of a run that relies on a default take the default's value, so the ground truth is the generator's resolved sample list; " +
			"shaped/api-optimized = the same 1..4-run plan with explicit values built through mp4.CreateFragment + traf.AddChild(mp4.CreateTrun(k)) + TrunBox.AddSample and written with EncOptimize = mp4.OptimizeTrun (Encode or EncodeSW), in 1/3 of the non-combine draws with the per-sample fields that equal the trex defaults cleared in every run; " +
			"every input is accepted only if the reference expansion (ref/frag) of its bytes equals the generator's sample list; seen.input_truns_per_traf / input_duration_source / input_size_source / input_flags_source / input_trun_shape / input_data_offset_base are read from the input bytes by the reference reader; " +
			"single-trun API histories = gen/frag history built by hand: video GOPs 1..n or audio, 8..80 samples, 1..4 segments x 1..3 fragments, cuts GOP-aligned or arbitrary, full/metadata-only/interval mdat modes, trun optimisation on/off, fields defaulted through trex, with/without styp, base decode time 0 or not, cto 0/positive/negative, 1/6 with boundary field values (durations 0/2^31/2^32-1, cto at the 2^31 edges, random flags, sizes 0..7), 8% with a decode-time gap between two fragments; 20% from gen/frag.Generate single-track) x 6 runs of bin/tools/resegmenter -d ticks from {1, half GOP, GOP-1, GOP, GOP+1, 2..3 GOP, presentation time of a later sync sample exactly and -1/+1, total+1000, 2^40}; " +
			"Fragmentify case = the same generator (also with hostile field values) -> mp4.DecodeFile -> MediaSegment.Fragmentify(timescale, trex, d) for every segment and 8 values of d, output fragments encoded with Fragment.Encode; " +
			"combine-segs case = two generated single-track inputs (one segment, one fragment with 1..4 runs, all three input routes restricted to what the tool documents: no field may come from trex, tfhd defaults / first_sample_flags / trun optimisation are in scope; absolute base_data_offset values count from the start of 1.m4s; arbitrary field values incl. 2^31 cto edges and 64-bit decode times, verified by the reference expansion not to depend on trex) placed as testdata/V300/{init.mp4,1.m4s} and testdata/A48/{init.mp4,1.m4s} in a scratch cwd; " +
			"repo-file cases: mp4/testdata/prog_8s.mp4 and bbb_prog_10s.mp4 through the segmenter, examples/resegmenter/testdata/testV300.mp4 through the resegmenter and Fragmentify, the combine-segs testdata (ground truth = reference expansion of the input bytes). " +
			"Oracle, only for exit status 0 / nil error: every produced file tiles (reference walker); per track the concatenation over all produced segments (in segment-number order, expanded by ref/frag with the produced init) equals the input list: payload bytes, size, duration, composition offset, decode time, flags (progressive input: sync bit, and the sdtp fields when the track has sdtp; fragmented input: all 32 bits); nothing missing or extra at the end (when only the end differs the fields of the common prefix are still compared); no produced segment without samples; the first reference-track sample of every produced segment (segmenter, resegmenter) is a sync sample of the input. " +
			"Non-zero exits are counted by reason; exit status 2 / goroutine dump / recovered panic of the library call is counted under tool_crash, not a C11 violation. Non-trivial = a successful run whose output was compared (hash of input bytes, tool, flags and duration); evaluations = tool runs + Fragmentify calls.",
		Assumptions: []string{
			"reference track of the segmenter = first trak with handler vide (getSegmentStartsFromVideo); of resegmenter/Fragmentify = the single track; combine-segs produces one segment whose start is whatever its inputs start with (sync-start is not evaluated there)",
			"a track without stss consists of sync samples only (ISO/IEC 14496-12 8.6.2); sync in a fragment = sample_is_non_sync_sample bit clear (8.8.3.1)",
			"progressive -> fragmented flags: sample_is_non_sync_sample must equal !sync; with an sdtp box is_leading/sample_depends_on/sample_is_depended_on/sample_has_redundancy must equal the sdtp entry; without sdtp a sample_depends_on consistent with the sync bit (0, or 2 for sync, or 1 for non-sync) is accepted",
			"decode times of a progressive input start at 0 (edit lists do not shift decode times)",
			"the segmenter documents 'at most one audio and one video track' and needs a video track with stss: other inputs are run for evidence only (5%)",
			"an output segment without any sample has no first sample: it is reported under its own key (empty-segment), not under sync-start",
			"input files whose first sample of the reference track is not a sync sample are not generated",
			"generated track runs never combine first-sample-flags-present with sample-flags-present (ISO/IEC 14496-12 8.8.8.1 forbids it), every generated trun carries a data_offset and every traf a tfdt (runs whose data implicitly follows the previous run, and trafs whose decode time continues from the previous fragment, are not generated)",
		},
		Setup:    setup,
		NumCases: func(env *runner.Env) int { buildPlan(env); return len(plan) },
		Run:      run,
		Finalize: func(a *runner.Agg) {
			runs := a.Counters["tool_runs"]
			ok := a.Counters["tool_ok"]
			if runs > 0 && ok == 0 {
				a.Nothing = "no successful tool run"
			}
			for _, t := range []string{"segmenter", "resegmenter", "combine-segs", "fragmentify"} {
				r, o := a.Counters["runs/"+t], a.Counters["ok/"+t]
				if r > 0 {
					a.Extra["share_ok/"+t] = float64(o) / float64(r)
				}
				if r > 0 && o == 0 {
					a.Note("no successful run of %s (%d runs)", t, r)
				}
			}
			if n := a.Counters["tool_crashes"]; n > 0 {
				a.Note("%d of %d runs crashed (exit status 2 / panic); see seen.tool_crash; not a C11 violation", n, runs)
			}
		},
		CaseCPUSec: 300,
	})
}

func run(c *runner.Ctx, idx int) {
	if idx < 0 || idx >= len(plan) {
		return
	}
	cs := plan[idx]
	c.Seen("case_kind", cs.kind)
	switch cs.kind {
	case "segmenter", "segmenter-corpus":
		runSegmenterCase(c, idx, cs)
	case "resegmenter", "resegmenter-corpus":
		runResegmenterCase(c, idx, cs)
	case "combine", "combine-corpus":
		runCombineCase(c, idx, cs)
	case "fragmentify", "fragmentify-corpus":
		runFragmentifyCase(c, idx, cs)
	}
}

// ---------------------------------------------------------------------------
// running a tool

type toolResult struct {
	exit     int
	stdout   string
	stderr   string
	timedOut bool
}

func runTool(name, dir string, args ...string) toolResult {
	ctx, cancel := context.WithTimeout(context.Background(), 120*time.Second)
	defer cancel()
	cmd := exec.CommandContext(ctx, tools[name], args...)
	cmd.Dir = dir
	var so, se bytes.Buffer
	cmd.Stdout, cmd.Stderr = &so, &se
	err := cmd.Run()
	r := toolResult{stdout: so.String(), stderr: se.String()}
	if ctx.Err() != nil {
		r.timedOut = true
		r.exit = -1
		return r
	}
	if err != nil {
		if ee, ok := err.(*exec.ExitError); ok {
			r.exit = ee.ExitCode()
		} else {
			r.exit = -2
		}
	}
	return r
}

var errorPatterns = []string{
	"no matching sample found", "not supported", "error decoding", "error creating segmenter", "error setting target segmentation",
	"expected exactly one media segment", "expected exactly one fragment", "expected exactly one traf", "expected exactly one track",
	"failed to decode", "failed to get full samples", "input file is not fragmented", "error resegmenting", "no track with trackID",
}

func errorClass(stderr string) string {
	s := strings.TrimSpace(stderr)
	if i := strings.Index(s, "\n"); i >= 0 {
		s = s[:i]
	}
	for _, pat := range errorPatterns {
		if strings.Contains(s, pat) {
			return pat
		}
	}
	// drop numbers so that the class stays small
	var b strings.Builder
	for _, r := range s {
		if r >= '0' && r <= '9' {
			if b.Len() > 0 && strings.HasSuffix(b.String(), "#") {
				continue
			}
			b.WriteByte('#')
			continue
		}
		b.WriteRune(r)
	}
	s = b.String()
	if len(s) > 70 {
		s = s[:70]
	}
	return s
}

// crashFrame extracts "crash/<first mp4ff or main function>/<class>" from a goroutine dump.
func crashFrame(stderr string) string {
	lines := strings.Split(stderr, "\n")
	val := ""
	for i, l := range lines {
		if strings.HasPrefix(l, "panic: ") && val == "" {
			val = strings.TrimPrefix(l, "panic: ")
			if j := strings.Index(val, " ["); j > 0 {
				val = val[:j]
			}
			switch {
			case strings.Contains(val, "index out of range"):
				val = "index"
			case strings.Contains(val, "slice bounds"):
				val = "slice"
			case strings.Contains(val, "nil pointer"):
				val = "nil-deref"
			case strings.Contains(val, "divide"):
				val = "divide"
			case strings.Contains(val, "makeslice"), strings.Contains(val, "out of range"):
				val = "makeslice"
			case strings.Contains(val, "out of memory"):
				val = "oom"
			default:
				if len(val) > 50 {
					val = val[:50]
				}
			}
		}
		if strings.HasPrefix(l, "fatal error: ") && val == "" {
			val = strings.TrimPrefix(l, "fatal error: ")
			if len(val) > 40 {
				val = val[:40]
			}
		}
		if strings.HasPrefix(l, "github.com/Eyevinn/mp4ff/") || strings.HasPrefix(l, "main.") {
			if strings.Contains(l, "panic") && i < 3 {
				continue
			}
			fn := l
			if j := strings.LastIndex(fn, "("); j > 0 {
				fn = fn[:j]
			}
			return "crash/" + strings.TrimPrefix(fn, "github.com/Eyevinn/mp4ff/") + "/" + val
		}
	}
	return "crash/unknown/" + val
}

// classify books a tool run; it returns true when the run succeeded (exit 0).
func classify(c *runner.Ctx, tool, mode string, res toolResult, note string) bool {
	c.Count("tool_runs", 1)
	c.Count("runs/"+tool, 1)
	switch {
	case res.timedOut:
		c.Inconclusive("tool run exceeded the 120 s watchdog")
	case res.exit == -2:
		c.Inconclusive("the tool binary could not be executed")
	case res.exit == 0:
		c.Count("tool_ok", 1)
		c.Count("ok/"+tool, 1)
		return true
	case res.exit == 2 || strings.Contains(res.stderr, "goroutine "):
		c.Count("tool_crashes", 1)
		c.Seen("tool_crash", tool+" "+mode+": "+crashFrame(res.stderr)+" ["+note+"]")
	default:
		c.Count("tool_exit_nonzero", 1)
		c.Seen("tool_error", fmt.Sprintf("%s %s: exit=%d %q [%s]", tool, mode, res.exit, errorClass(res.stderr), note))
	}
	return false
}

func clip(s string, n int) string {
	if len(s) > n {
		return s[:n] + "...(truncated)"
	}
	return s
}

// ---------------------------------------------------------------------------
// the model and the comparison

// wantSample is one sample of the input as recorded by the generator.
type wantSample struct {
	Data  []byte
	Dur   uint32
	Cto   int64
	DTS   uint64
	Sync  bool
	Flags uint32 // fragmented inputs: the 32 flag bits as added
	Sdtp  byte   // progressive inputs with sdtp
}

// wantTrack is the expected content of one track.
type wantTrack struct {
	Kind      string // video | audio | other handler
	Timescale uint32
	Samples   []wantSample
	FullFlags bool // compare all 32 flag bits (the input was fragmented)
	HasSdtp   bool
	Label     string
}

// gotSample is one sample of the produced output.
type gotSample struct {
	frag.Sample
	Seg        int  // ordinal of the produced segment (file, or fragment for single-file outputs)
	FirstOfSeg bool // first sample of this track in that segment
	LastOfSeg  bool
}

func markSegEnds(g []gotSample) {
	for i := range g {
		g[i].FirstOfSeg = i == 0 || g[i-1].Seg != g[i].Seg
		g[i].LastOfSeg = i == len(g)-1 || g[i+1].Seg != g[i].Seg
	}
}

type comparer struct {
	c      *runner.Ctx
	tool   string // segmenter | resegmenter | fragmentify | combine-segs
	mode   string // flag set / input class
	what   string // readable description of the run
	detail map[string]interface{}
	failed bool
}

func (k *comparer) viol(kind, clause, msg string, extra map[string]interface{}) {
	k.failed = true
	key := k.tool + "/"
	if k.mode != "" {
		key += k.mode + "/"
	}
	key += kind + "/" + clause
	d := map[string]interface{}{}
	for a, b := range k.detail {
		d[a] = b
	}
	for a, b := range extra {
		d[a] = b
	}
	k.c.Violation(key, k.what+": "+msg, d)
}

func syncOfFlags(f uint32) bool { return f&0x00010000 == 0 }

func posClass(i, n int, g gotSample) string {
	switch {
	case i == n-1:
		return "last-sample"
	case g.FirstOfSeg && g.Seg == 0 && i == 0:
		return "first-sample"
	case g.FirstOfSeg:
		return "first-of-segment"
	case g.LastOfSeg:
		return "last-of-segment"
	}
	return "inside-segment"
}

func describeWant(w wantSample, i int) string {
	return fmt.Sprintf("#%d{size %d dur %d cto %d dts %d sync %v flags %#x sdtp %#x}", i+1, len(w.Data), w.Dur, w.Cto, w.DTS, w.Sync, w.Flags, w.Sdtp)
}

func describeGot(g gotSample) string {
	return fmt.Sprintf("{size %d dur %d cto %d dts %d flags %#x segment %d}", g.Size, g.Duration, g.Cto, g.DecodeTime, g.Flags, g.Seg+1)
}

// compareTrack checks one track. It returns true when the payload sequence of
// the common prefix agrees (positions in the output then name input samples).
func (k *comparer) compareTrack(wt *wantTrack, got []gotSample) bool {
	markSegEnds(got)
	kind := wt.Kind
	n := len(wt.Samples)
	ordinalOf := map[string][]int{}
	for i, w := range wt.Samples {
		ordinalOf[string(w.Data)] = append(ordinalOf[string(w.Data)], i)
	}
	// 1. the sequence of payloads
	m := len(got)
	if n < m {
		m = n
	}
	for i := 0; i < m; i++ {
		if bytes.Equal(got[i].Data, wt.Samples[i].Data) {
			continue
		}
		g := got[i]
		where := "inside-segment"
		if g.FirstOfSeg {
			where = "at-segment-start"
		} else if i > 0 && got[i-1].LastOfSeg {
			where = "at-segment-start"
		}
		src := -1
		if l := ordinalOf[string(g.Data)]; len(l) > 0 {
			src = l[0]
			for _, o := range l {
				if o >= i-2 && src < i-2 {
					src = o
				}
			}
		}
		extra := map[string]interface{}{"track_kind": kind, "position": i + 1, "expected": describeWant(wt.Samples[i], i), "got": describeGot(g), "got_is_input_sample": src + 1,
			"input_samples": n, "output_samples": len(got)}
		switch {
		case src < 0 && int(g.Size) == len(wt.Samples[i].Data):
			k.viol(kind, "bytes/"+posClass(i, n, g), fmt.Sprintf("%s track: payload of sample %d of %d differs from the input's (same size %d)", kind, i+1, n, g.Size), extra)
		case src < 0:
			k.viol(kind, "sequence/foreign-sample/"+where, fmt.Sprintf("%s track: output sample %d (size %d) is no sample of the input (expected sample %d, size %d)", kind, i+1, g.Size, i+1, len(wt.Samples[i].Data)), extra)
		case src < i:
			k.viol(kind, "sequence/duplicated/"+where, fmt.Sprintf("%s track: output position %d holds input sample %d again (expected sample %d of %d), segment %d", kind, i+1, src+1, i+1, n, g.Seg+1), extra)
		default:
			k.viol(kind, "sequence/dropped/"+where, fmt.Sprintf("%s track: input samples %d..%d of %d are missing: output position %d holds input sample %d, segment %d", kind, i+1, src, n, i+1, src+1, g.Seg+1), extra)
		}
		return false
	}
	if len(got) < n {
		cls := "last-sample"
		if n-len(got) > 1 {
			cls = "several-samples"
		}
		if len(got) == 0 {
			cls = "all-samples"
		}
		k.viol(kind, "missing-at-end/"+cls, fmt.Sprintf("%s track: the output holds the first %d of the %d input samples: the last %d are missing (first missing: %s)", kind, len(got), n, n-len(got), describeWant(wt.Samples[len(got)], len(got))),
			map[string]interface{}{"track_kind": kind, "input_samples": n, "output_samples": len(got)})
		// the fields of the common prefix are still compared
	}
	if len(got) > n {
		g := got[n]
		src := -1
		if l := ordinalOf[string(g.Data)]; len(l) > 0 {
			src = l[len(l)-1]
		}
		k.viol(kind, "extra-at-end", fmt.Sprintf("%s track: the output holds %d samples after the last of the %d input samples; the first of them %s is input sample %d", kind, len(got)-n, n, describeGot(g), src+1),
			map[string]interface{}{"track_kind": kind, "input_samples": n, "output_samples": len(got)})
	}
	// 2. the fields (of the common prefix when the counts differ)
	reported := map[string]bool{}
	for i := 0; i < m; i++ {
		w, g := wt.Samples[i], got[i]
		field, msg := "", ""
		switch {
		case g.Duration != w.Dur:
			field, msg = "duration", fmt.Sprintf("duration %d, input %d", g.Duration, w.Dur)
		case g.Cto != w.Cto:
			field, msg = "composition-offset", fmt.Sprintf("composition offset %d, input %d", g.Cto, w.Cto)
		case g.DecodeTime != w.DTS:
			field, msg = "decode-time", fmt.Sprintf("decode time %d, input %d", g.DecodeTime, w.DTS)
			// an input discontinuity (decode time != previous decode time + duration) between the
			// start of this output fragment and this sample: implicit decode times cannot follow it
			for j := i; j > 0 && got[j].Seg == g.Seg; j-- {
				if wt.Samples[j].DTS != wt.Samples[j-1].DTS+uint64(wt.Samples[j-1].Dur) && !got[j].FirstOfSeg {
					field = "decode-time-after-input-discontinuity"
					msg += fmt.Sprintf(" (input sample %d starts at %d although sample %d ends at %d, and both are in output fragment %d)", j+1, wt.Samples[j].DTS, j, wt.Samples[j-1].DTS+uint64(wt.Samples[j-1].Dur), g.Seg+1)
					break
				}
			}
		case wt.FullFlags && g.Flags != w.Flags:
			field, msg = "flags", fmt.Sprintf("flags %#08x, input %#08x", g.Flags, w.Flags)
			if syncOfFlags(g.Flags) != syncOfFlags(w.Flags) {
				field = "flags-sync-bit"
			}
		case !wt.FullFlags && syncOfFlags(g.Flags) != w.Sync:
			field, msg = "flags-sync-bit", fmt.Sprintf("flags %#08x (sync %v), input sync %v", g.Flags, syncOfFlags(g.Flags), w.Sync)
		case !wt.FullFlags:
			lead, dep, isDep, red := (g.Flags>>26)&3, (g.Flags>>24)&3, (g.Flags>>22)&3, (g.Flags>>20)&3
			if wt.HasSdtp {
				if byte(lead<<6|dep<<4|isDep<<2|red) != w.Sdtp {
					field, msg = "flags-dependency", fmt.Sprintf("flags %#08x (is_leading %d depends_on %d is_depended_on %d has_redundancy %d), input sdtp entry %#02x", g.Flags, lead, dep, isDep, red, w.Sdtp)
				}
			} else if lead != 0 || isDep != 0 || red != 0 || (dep == 2 && !w.Sync) || (dep == 1 && w.Sync) || dep == 3 {
				field, msg = "flags-dependency-invented", fmt.Sprintf("flags %#08x carry dependency information the input (no sdtp, sync %v) does not have", g.Flags, w.Sync)
			}
		}
		if field == "" {
			continue
		}
		pc := posClass(i, n, g)
		if reported[field] {
			continue
		}
		reported[field] = true
		if field == "decode-time-after-input-discontinuity" {
			pc = "merged-fragments"
		}
		k.viol(kind, field+"/"+pc, fmt.Sprintf("%s track sample %d of %d (segment %d): %s", kind, i+1, n, g.Seg+1, msg),
			map[string]interface{}{"track_kind": kind, "position": i + 1, "expected": describeWant(w, i), "got": describeGot(g), "input_samples": n})
	}
	return true
}

// checkSyncStart checks that the first reference-track sample of every
// produced segment is a sync sample of the input (positions are only
// meaningful when the sequence comparison passed).
func (k *comparer) checkSyncStart(wt *wantTrack, got []gotSample) {
	markSegEnds(got)
	for i, g := range got {
		if !g.FirstOfSeg || i >= len(wt.Samples) {
			continue
		}
		if i == 0 && !wt.Samples[0].Sync {
			continue // not the tool's doing
		}
		k.c.Count("sync_start_segments_checked", 1)
		if i > 0 {
			k.c.Count("sync_start_later_segments_checked", 1)
		}
		if !wt.Samples[i].Sync {
			cls := "later-segment"
			if g.Seg == 0 {
				cls = "first-segment"
			}
			k.viol(wt.Kind, "sync-start/"+cls, fmt.Sprintf("produced segment %d starts with input sample %d of the reference (%s) track, which is not a sync sample", g.Seg+1, i+1, wt.Kind),
				map[string]interface{}{"segment": g.Seg + 1, "input_sample": i + 1})
			return
		}
	}
}

// ---------------------------------------------------------------------------
// helpers on reference expansions

func kindOfHandler(h string) string {
	switch h {
	case "vide":
		return "video"
	case "soun":
		return "audio"
	}
	return h
}

func toGot(samples []frag.Sample, seg int) []gotSample {
	out := make([]gotSample, len(samples))
	for i, s := range samples {
		out[i] = gotSample{Sample: s, Seg: seg}
	}
	return out
}

func sortedInts(m map[int]bool) []int {
	var l []int
	for k := range m {
		l = append(l, k)
	}
	sort.Ints(l)
	return l
}
