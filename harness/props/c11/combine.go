package c11

import (
	"bytes"
	"fmt"
	"os"
	"path/filepath"

	"verifharness/ref/boxwalk"
	"verifharness/ref/frag"
	"verifharness/runner"
)

// combineInput is one of the two inputs of combine-segs.
type combineInput struct {
	init, seg []byte
	want      *wantTrack
	label     string
}

// the fixed relative paths examples/combine-segs/main.go reads
var combinePaths = [2][2]string{{"testdata/V300/init.mp4", "testdata/V300/1.m4s"}, {"testdata/A48/init.mp4", "testdata/A48/1.m4s"}}

func parseInitBytes(b []byte) (*frag.Init, error) {
	top, err := boxwalk.Walk(b)
	if err != nil {
		return nil, err
	}
	for _, n := range top {
		if n.Type == "moov" {
			return frag.ParseInit(b, n)
		}
	}
	return nil, fmt.Errorf("no moov")
}

// independentOfTrex tells whether the expansion of seg is the same with and
// without the trex defaults of its init (the domain restriction combine-segs
// documents).
func independentOfTrex(seg []byte, init *frag.Init, trackID uint32) bool {
	a, err1 := frag.ExpandFile(seg, init)
	b, err2 := frag.ExpandFile(seg, &frag.Init{Tracks: []frag.Track{{ID: trackID}}})
	if err1 != nil || err2 != nil {
		return false
	}
	x, y := a.TrackSamples(trackID), b.TrackSamples(trackID)
	if len(x) != len(y) {
		return false
	}
	for i := range x {
		if x[i].Size != y[i].Size || x[i].Duration != y[i].Duration || x[i].Flags != y[i].Flags || x[i].Cto != y[i].Cto || x[i].DecodeTime != y[i].DecodeTime || x[i].Offset != y[i].Offset {
			return false
		}
	}
	return true
}

func makeCombineInputs(c *runner.Ctx, cs caseSpec) *[2]combineInput {
	var ins [2]combineInput
	if cs.kind == "combine-corpus" {
		for i := 0; i < 2; i++ {
			ib, err1 := os.ReadFile(filepath.Join(c.Env.RepoDir, "examples/combine-segs", combinePaths[i][0]))
			sb, err2 := os.ReadFile(filepath.Join(c.Env.RepoDir, "examples/combine-segs", combinePaths[i][1]))
			if err1 != nil || err2 != nil {
				c.Inconclusive("repo test files of combine-segs missing")
				return nil
			}
			init, err := parseInitBytes(ib)
			if err != nil || len(init.Tracks) != 1 {
				c.Inconclusive("harness-selfcheck: reference reader rejects the combine-segs test data")
				return nil
			}
			tr := init.Tracks[0]
			if !independentOfTrex(sb, init, tr.ID) {
				c.Inconclusive("combine-segs test data relies on trex defaults")
				return nil
			}
			wt, err := wantFromFragBytes(sb, init, tr.ID, kindOfHandler(tr.Handler), tr.Timescale)
			if err != nil || len(wt.Samples) == 0 {
				c.Inconclusive("harness-selfcheck: reference reader rejects the combine-segs test data")
				return nil
			}
			ins[i] = combineInput{ib, sb, wt, "repo " + combinePaths[i][1]}
		}
		return &ins
	}
	for i := 0; i < 2; i++ {
		media := "video"
		if i == 1 {
			media = "audio"
		}
		if c.Rand.Chance(1, 10) {
			media = c.Rand.PickStr("video", "audio")
		}
		var in *fragInput
		for try := 0; try < 8 && in == nil; try++ {
			in = makeFragInput(c, fragGenOptions{tool: "combine-segs", media: media, hostile: c.Rand.Chance(1, 2), noTrexDeps: true, oneFrag: true, separateMedia: true}, false)
			if in != nil {
				init, err := parseInitBytes(in.initBytes)
				if err != nil || !independentOfTrex(in.media, init, 1) {
					c.Count("combine_inputs_rejected_trex_dependent", 1)
					c.Seen("combine_inputs_rejected_trex_dependent_route", in.route)
					in = nil
				}
			}
		}
		if in == nil {
			c.Inconclusive("input generator: no trex-independent input drawn")
			return nil
		}
		in.census(c, "combine-segs")
		c.Seen("combine_input_writer", in.writer())
		ins[i] = combineInput{in.initBytes, in.media, in.want, in.label}
	}
	return &ins
}

func runCombineCase(c *runner.Ctx, idx int, cs caseSpec) {
	ins := makeCombineInputs(c, cs)
	if ins == nil {
		return
	}
	dir := filepath.Join(c.Env.Scratch, fmt.Sprintf("comb-%d", idx))
	defer os.RemoveAll(dir)
	for i := 0; i < 2; i++ {
		for j, b := range [][]byte{ins[i].init, ins[i].seg} {
			p := filepath.Join(dir, combinePaths[i][j])
			if err := os.MkdirAll(filepath.Dir(p), 0o755); err != nil {
				c.Inconclusive("cannot create scratch directory")
				return
			}
			if err := os.WriteFile(p, b, 0o644); err != nil {
				c.Inconclusive("cannot write scratch input")
				return
			}
		}
	}
	res := runTool("combine-segs", dir)
	c.Evals(1)
	name := ins[0].label + " + " + ins[1].label
	c.Seen("combine_input", ins[0].want.Kind+"+"+ins[1].want.Kind)
	if c.WantSample() {
		c.Sample(map[string]interface{}{"tool": "combine-segs", "inputs": name, "samples": []int{len(ins[0].want.Samples), len(ins[1].want.Samples)}, "exit": res.exit})
	}
	if !classify(c, "combine-segs", "two-tracks", res, cs.kind) {
		return
	}
	k := &comparer{c: c, tool: "combine-segs", mode: "", what: "combine-segs [" + name + "]",
		detail: map[string]interface{}{"inputs": []string{ins[0].label, ins[1].label}, "input_samples": []int{len(ins[0].want.Samples), len(ins[1].want.Samples)}, "tool_stdout": clip(res.stdout, 400)}}
	ib, err1 := os.ReadFile(filepath.Join(dir, "combined-init.mp4"))
	sb, err2 := os.ReadFile(filepath.Join(dir, "combined-1.m4s"))
	if err1 != nil || err2 != nil {
		k.viol("output", "missing", "exit status 0 but combined-init.mp4 / combined-1.m4s are missing", nil)
		return
	}
	init, err := parseInitBytes(ib)
	if err != nil {
		k.viol("output", "init-unreadable", "combined-init.mp4 cannot be read: "+err.Error(), nil)
		return
	}
	if len(init.Tracks) != 2 || init.Tracks[0].ID != 1 || init.Tracks[1].ID != 2 {
		k.viol("output", "init-track-count", fmt.Sprintf("combined init declares tracks %v, want ids 1 and 2", init.Tracks), nil)
		return
	}
	xf, err := frag.ExpandFile(sb, init)
	if err != nil {
		k.viol("output", "segment-unreadable", "combined-1.m4s does not tile / expand: "+err.Error(), nil)
		return
	}
	for _, m := range xf.Moofs {
		for _, tf := range m.Trafs {
			if tf.Tfhd.TrackID != 1 && tf.Tfhd.TrackID != 2 {
				k.viol("output", "unknown-track-id", fmt.Sprintf("traf for track id %d", tf.Tfhd.TrackID), nil)
				return
			}
		}
	}
	for i := 0; i < 2; i++ {
		tr := init.Tracks[i]
		w := ins[i].want
		if tr.Timescale != w.Timescale || kindOfHandler(tr.Handler) != w.Kind {
			k.viol(w.Kind, "init-track-identity", fmt.Sprintf("track %d: handler/timescale %s/%d, input %s/%d", i+1, tr.Handler, tr.Timescale, w.Kind, w.Timescale), nil)
			continue
		}
		// label the track by its position: the two inputs may have the same kind
		wt := *w
		wt.Kind = fmt.Sprintf("track%d-%s", i+1, w.Kind)
		var got []gotSample
		for mi, m := range xf.Moofs {
			got = append(got, toGot(m.TrackSamples(tr.ID), mi)...)
		}
		k.compareTrack(&wt, got)
	}
	c.Seen("combine_output_moofs", sizeClass(len(xf.Moofs)))
	c.Nontrivial(runner.Hash64(ins[0].seg, ins[1].seg, []byte("combine")))
	_ = bytes.Equal
}
