package c11

import (
	"bytes"
	"fmt"
	"os"
	"path/filepath"

	"github.com/Eyevinn/mp4ff/mp4"

	"verifharness/ref/boxwalk"
	"verifharness/ref/frag"
	"verifharness/runner"
)

const resegCorpusFile = "examples/resegmenter/testdata/testV300.mp4"

type tickDur struct {
	d     uint64
	class string
}

// tickDurations derives durations in ticks from the model of a track.
func tickDurations(r *runner.Rand, wt *wantTrack, gopDur, total uint64) []tickDur {
	pos := func(v uint64) uint64 {
		if v < 1 {
			return 1
		}
		return v
	}
	l := []tickDur{{1, "1-tick"}, {pos(gopDur / 2), "half-gop"}, {pos(gopDur - 1), "gop-1"}, {pos(gopDur), "gop"}, {gopDur + 1, "gop+1"},
		{pos(gopDur * uint64(r.Range(2, 3))), "multi-gop"}, {pos(gopDur*3/2 + 1), "1.5-gop"}, {total + 1000, "beyond-end"}, {1 << 40, "huge"}}
	if len(wt.Samples) > 0 {
		l = append(l, tickDur{pos(uint64(wt.Samples[0].Dur)), "one-sample"})
	}
	// presentation time of a later sync sample: the boundary comparison hits equality
	var pts []uint64
	for i, s := range wt.Samples {
		if i > 0 && s.Sync {
			p := int64(s.DTS) + s.Cto
			if p > 0 {
				pts = append(pts, uint64(p))
			}
		}
	}
	if len(pts) > 0 {
		p := pts[r.Intn(len(pts))]
		l = append(l, tickDur{p, "pts-of-sync-sample"}, tickDur{pos(p - 1), "pts-of-sync-sample-1"}, tickDur{p + 1, "pts-of-sync-sample+1"})
		if p%2 == 0 {
			l = append(l, tickDur{pos(p / 2), "half-pts-of-sync-sample"})
		}
		if p%3 == 0 {
			l = append(l, tickDur{pos(p / 3), "third-pts-of-sync-sample"})
		}
	}
	return l
}

func pickDurations(r *runner.Rand, l []tickDur, n int) []tickDur {
	p := r.Perm(len(l))
	var out []tickDur
	for i := 0; i < n; i++ {
		out = append(out, l[p[i%len(p)]])
	}
	return out
}

// ---------------------------------------------------------------------------
// resegmenter

func runResegmenterCase(c *runner.Ctx, idx int, cs caseSpec) {
	var data []byte
	var want *wantTrack
	var name, cls string
	var gopDur, total uint64
	gapped := false
	if cs.kind == "resegmenter-corpus" {
		b, err := os.ReadFile(filepath.Join(c.Env.RepoDir, resegCorpusFile))
		if err != nil {
			c.Inconclusive("repo test file missing: " + resegCorpusFile)
			return
		}
		xf, err := frag.ExpandFile(b, nil)
		if err != nil || xf.Init == nil || len(xf.Init.Tracks) != 1 {
			c.Inconclusive("harness-selfcheck: reference reader rejects " + resegCorpusFile)
			return
		}
		tr := xf.Init.Tracks[0]
		want, err = wantFromFragBytes(b, nil, tr.ID, kindOfHandler(tr.Handler), tr.Timescale)
		if err != nil || len(want.Samples) == 0 {
			c.Inconclusive("harness-selfcheck: reference reader rejects " + resegCorpusFile)
			return
		}
		data, name, cls = b, resegCorpusFile, "corpus"
		for _, s := range want.Samples {
			total += uint64(s.Dur)
		}
		gopDur = total
		first := -1
		for i, s := range want.Samples {
			if s.Sync && i > 0 && first < 0 {
				first = i
				gopDur = s.DTS - want.Samples[0].DTS
			}
		}
	} else {
		hostile := c.Rand.Chance(1, 6)
		in := makeFragInput(c, fragGenOptions{tool: "resegmenter", allowGap: true, allowNoStyp: true, hostile: hostile}, c.Rand.Chance(1, 5))
		if in == nil {
			return
		}
		in.census(c, "resegmenter")
		c.Seen("resegmenter_input_values", fmt.Sprintf("hostile=%v", hostile))
		data, want, name, gopDur, total, gapped = in.all, in.want, in.label, in.gopDur, in.total, in.gapped
		cls = "generated"
		c.Seen("resegmenter_input", fmt.Sprintf("%s gapped=%v styp=%v", want.Kind, gapped, in.styp))
		c.Seen("resegmenter_input_layout", fmt.Sprintf("segs=%s %s", sizeClass(in.nsegs), in.writer()))
	}
	dir := filepath.Join(c.Env.Scratch, fmt.Sprintf("reseg-%d", idx))
	if err := os.MkdirAll(dir, 0o755); err != nil {
		c.Inconclusive("cannot create scratch directory")
		return
	}
	defer os.RemoveAll(dir)
	inPath := filepath.Join(dir, "in.mp4")
	if err := os.WriteFile(inPath, data, 0o644); err != nil {
		c.Inconclusive("cannot write scratch input")
		return
	}
	durs := pickDurations(c.Rand, tickDurations(c.Rand, want, gopDur, total), resegRunsPerCase)
	mode := "contiguous"
	if gapped {
		mode = "gapped-input"
	}
	var sampleRuns []string
	for ri, d := range durs {
		outPath := filepath.Join(dir, fmt.Sprintf("out-%d.mp4", ri))
		res := runTool("resegmenter", dir, "-d", fmt.Sprint(d.d), inPath, outPath)
		sampleRuns = append(sampleRuns, fmt.Sprintf("-d %d (%s): exit %d", d.d, d.class, res.exit))
		if classify(c, "resegmenter", mode, res, cls) {
			c.Seen("resegmenter_run", mode+" d="+d.class)
			out, err := os.ReadFile(outPath)
			if err != nil {
				c.Violation("resegmenter/output/missing", fmt.Sprintf("resegmenter -d %d: exit status 0 but no output file [%s]", d.d, name), nil)
			} else if checkResegmenterOutput(c, mode, name, data, want, d, out) {
				c.Nontrivial(runner.Hash64(data, []byte("reseg"), []byte(fmt.Sprint(d.d))))
			}
		}
		os.Remove(outPath)
	}
	c.Evals(int64(len(durs)))
	if c.WantSample() {
		c.Sample(map[string]interface{}{"tool": "resegmenter", "input": name, "bytes": len(data), "samples": len(want.Samples), "runs": sampleRuns})
	}
}

func checkResegmenterOutput(c *runner.Ctx, mode, name string, inData []byte, want *wantTrack, d tickDur, out []byte) bool {
	nsync := 0
	for _, s := range want.Samples {
		if s.Sync {
			nsync++
		}
	}
	k := &comparer{c: c, tool: "resegmenter", mode: "", what: fmt.Sprintf("resegmenter -d %d [%s]", d.d, name),
		detail: map[string]interface{}{"input": name, "input_bytes": len(inData), "ticks": d.d, "duration_class": d.class,
			"input_track": fmt.Sprintf("%s timescale %d samples %d sync %d first dts %d first cto %d", want.Kind, want.Timescale, len(want.Samples), nsync, want.Samples[0].DTS, want.Samples[0].Cto)}}
	xf, err := frag.ExpandFile(out, nil)
	if err != nil {
		k.viol("output", "unreadable", "the output does not tile / expand: "+err.Error(), nil)
		return true
	}
	if xf.Init == nil || len(xf.Init.Tracks) != 1 {
		k.viol("output", "init", "the output has no moov with exactly one track", nil)
		return true
	}
	tr := xf.Init.Tracks[0]
	if tr.Timescale != want.Timescale {
		k.viol(want.Kind, "init-track-identity", fmt.Sprintf("timescale %d, input %d", tr.Timescale, want.Timescale), nil)
		return true
	}
	// one produced segment per moof (the tool writes styp+moof+mdat per segment)
	var got []gotSample
	empty := 0
	for mi, m := range xf.Moofs {
		for _, tf := range m.Trafs {
			if tf.Tfhd.TrackID != tr.ID {
				k.viol("output", "unknown-track-id", fmt.Sprintf("traf for track id %d, the init declares %d", tf.Tfhd.TrackID, tr.ID), nil)
				return true
			}
		}
		s := m.TrackSamples(tr.ID)
		if len(s) == 0 {
			empty++
			pos := "later"
			if mi == 0 {
				pos = "first"
			} else if mi == len(xf.Moofs)-1 {
				pos = "last"
			}
			k.viol(want.Kind, "empty-segment/"+pos, fmt.Sprintf("produced segment %d of %d holds no sample (first input sample: dts %d cto %d sync %v)", mi+1, len(xf.Moofs), want.Samples[0].DTS, want.Samples[0].Cto, want.Samples[0].Sync),
				map[string]interface{}{"segment": mi + 1, "segments": len(xf.Moofs)})
		}
		got = append(got, toGot(s, mi)...)
	}
	c.Seen("resegmenter_segments", sizeClass(len(xf.Moofs)))
	if k.compareTrack(want, got) {
		k.checkSyncStart(want, got)
	}
	return true
}

// ---------------------------------------------------------------------------
// MediaSegment.Fragmentify (library call, in process)

func runFragmentifyCase(c *runner.Ctx, idx int, cs caseSpec) {
	var data, initBytes []byte
	var want *wantTrack
	var name string
	var gopDur, total uint64
	mode := "contiguous"
	if cs.kind == "fragmentify-corpus" {
		b, err := os.ReadFile(filepath.Join(c.Env.RepoDir, resegCorpusFile))
		if err != nil {
			c.Inconclusive("repo test file missing: " + resegCorpusFile)
			return
		}
		xf, err := frag.ExpandFile(b, nil)
		if err != nil || xf.Init == nil || len(xf.Init.Tracks) != 1 {
			c.Inconclusive("harness-selfcheck: reference reader rejects " + resegCorpusFile)
			return
		}
		tr := xf.Init.Tracks[0]
		want, err = wantFromFragBytes(b, nil, tr.ID, kindOfHandler(tr.Handler), tr.Timescale)
		if err != nil || len(want.Samples) == 0 {
			c.Inconclusive("harness-selfcheck: reference reader rejects " + resegCorpusFile)
			return
		}
		for _, n := range xf.Top {
			if n.Type == "moov" {
				initBytes = b[:n.End()]
			}
		}
		data, name = b, resegCorpusFile
		for _, s := range want.Samples {
			total += uint64(s.Dur)
		}
		gopDur = total
		for i, s := range want.Samples {
			if s.Sync && i > 0 {
				gopDur = s.DTS - want.Samples[0].DTS
				break
			}
		}
	} else {
		hostile := c.Rand.Chance(1, 4)
		in := makeFragInput(c, fragGenOptions{tool: "fragmentify", allowGap: true, hostile: hostile}, c.Rand.Chance(1, 4))
		if in == nil {
			return
		}
		in.census(c, "fragmentify")
		data, initBytes, want, name, gopDur, total = in.all, in.initBytes, in.want, in.label, in.gopDur, in.total
		if in.gapped {
			mode = "gapped-input"
		}
		if hostile {
			mode += "-hostile-values"
		}
		c.Seen("fragmentify_input", fmt.Sprintf("%s %s", want.Kind, mode))
		c.Seen("fragmentify_input_layout", fmt.Sprintf("segs=%s %s", sizeClass(in.nsegs), in.writer()))
	}
	durs := pickDurations(c.Rand, tickDurations(c.Rand, want, gopDur, total), fragifyPerCase)
	durs[0] = tickDur{0, "zero"}
	if c.Rand.Bool() {
		durs[0] = tickDur{0xffffffff, "max-uint32"}
	}
	for _, d := range durs {
		if d.d > 0xffffffff {
			d = tickDur{0xfffffffe, "max-uint32-1"}
		}
		// a fresh decode per call: the call under test gets an object nobody else has touched
		var file *mp4.File
		var derr error
		if pi := c.Guard(func() { file, derr = mp4.DecodeFile(bytes.NewReader(data)) }); pi != nil || derr != nil || file == nil || file.Init == nil || file.Init.Moov == nil || file.Init.Moov.Mvex == nil {
			c.Inconclusive("the library does not decode the fragmented input (C04/C05 matter)")
			return
		}
		trex := file.Init.Moov.Mvex.Trex
		c.Count("tool_runs", 1)
		c.Count("runs/fragmentify", 1)
		var outBuf bytes.Buffer
		outBuf.Write(initBytes)
		var ferr error
		nOut := 0
		var fragStarts []int
		pi := c.Guard(func() {
			for _, seg := range file.Segments {
				frags, err := seg.Fragmentify(uint64(want.Timescale), trex, uint32(d.d))
				if err != nil {
					ferr = err
					return
				}
				for _, f := range frags {
					fragStarts = append(fragStarts, outBuf.Len())
					if err := f.Encode(&outBuf); err != nil {
						ferr = fmt.Errorf("encoding an output fragment: %w", err)
						return
					}
					nOut++
				}
			}
		})
		switch {
		case pi != nil:
			c.Count("tool_crashes", 1)
			c.Seen("tool_crash", "fragmentify "+mode+": crash/"+pi.TopFrame+"/"+pi.Class)
			continue
		case ferr != nil:
			c.Count("tool_exit_nonzero", 1)
			c.Seen("tool_error", fmt.Sprintf("fragmentify %s: %q", mode, errorClass(ferr.Error())))
			continue
		}
		c.Count("tool_ok", 1)
		c.Count("ok/fragmentify", 1)
		c.Seen("fragmentify_run", mode+" d="+d.class)
		c.Seen("fragmentify_fragments", sizeClass(nOut))
		k := &comparer{c: c, tool: "fragmentify", mode: "", what: fmt.Sprintf("MediaSegment.Fragmentify(%d, trex, %d) [%s]", want.Timescale, d.d, name),
			detail: map[string]interface{}{"input": name, "input_bytes": len(data), "ticks": d.d, "duration_class": d.class, "input_samples": len(want.Samples), "output_fragments": nOut}}
		out := outBuf.Bytes()
		top, err := boxwalk.Walk(out)
		if err != nil {
			k.viol("output", "unreadable", "the encoded output fragments do not tile: "+err.Error(), nil)
			continue
		}
		_ = top
		xf, err := frag.ExpandFile(out, nil)
		if err != nil || xf.Init == nil || len(xf.Init.Tracks) != 1 {
			k.viol("output", "unreadable", fmt.Sprintf("the encoded output fragments do not expand: %v", err), nil)
			continue
		}
		tr := xf.Init.Tracks[0]
		var got []gotSample
		for mi, m := range xf.Moofs {
			s := m.TrackSamples(tr.ID)
			if len(s) == 0 {
				k.viol(want.Kind, "empty-fragment", fmt.Sprintf("output fragment %d of %d holds no sample", mi+1, len(xf.Moofs)), nil)
			}
			got = append(got, toGot(s, mi)...)
		}
		k.compareTrack(want, got)
		c.Nontrivial(runner.Hash64(data, []byte("fragmentify"), []byte(fmt.Sprint(d.d))))
	}
	c.Evals(int64(len(durs)))
	if c.WantSample() {
		c.Sample(map[string]interface{}{"tool": "Fragmentify", "input": name, "bytes": len(data), "samples": len(want.Samples), "durations": durs})
	}
}
