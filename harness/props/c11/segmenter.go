package c11

import (
	"bytes"
	"fmt"
	"os"
	"path/filepath"
	"regexp"
	"sort"
	"strconv"
	"strings"

	"verifharness/gen/prog"
	"verifharness/ref/boxwalk"
	"verifharness/ref/frag"
	"verifharness/ref/stbl"
	"verifharness/runner"
)

// segInput is a progressive input with its expected per-track lists.
type segInput struct {
	name   string
	kind   string // generated | corpus
	data   []byte
	tracks []*wantTrack // moov order
	ref    int          // index of the first video track, -1
	inDoc  bool         // exactly one video (with stss) and at most one audio track
	stss   bool         // reference track has stss
}

func wantFromStbl(data []byte) ([]*wantTrack, *stbl.Movie, error) {
	m, err := stbl.ParseFile(data)
	if err != nil {
		return nil, nil, err
	}
	var out []*wantTrack
	for _, tr := range m.Tracks {
		if tr.ExpandErr != nil {
			return nil, nil, tr.ExpandErr
		}
		wt := &wantTrack{Kind: kindOfHandler(tr.Handler), Timescale: tr.Timescale, HasSdtp: tr.Tables.HasSdtp}
		for i, s := range tr.Samples {
			d := tr.SampleBytes(data, i+1)
			if d == nil && s.Size > 0 {
				return nil, nil, fmt.Errorf("sample %d of track %d lies outside the file", i+1, tr.ID)
			}
			wt.Samples = append(wt.Samples, wantSample{Data: d, Dur: s.Dur, Cto: s.Cto, DTS: s.DecodeTime, Sync: s.Sync, Sdtp: s.Sdtp})
		}
		out = append(out, wt)
	}
	return out, m, nil
}

// genMovie draws a movie. Inside the documented domain it has exactly one
// video track and at most one audio track.
func genMovie(r *runner.Rand) (*prog.File, bool) {
	anything := r.Chance(1, 20)
	for try := 0; ; try++ {
		o := prog.MovieOptions{Entries: entries, MaxTracks: 2, MaxSamples: r.PickInt(24, 60, 60, 90), ZeroSizes: true, LateSync: true}
		if anything {
			o.MaxTracks = 3
		}
		f := prog.RandomMovie(r, o)
		nv, na := 0, 0
		for _, t := range f.Tracks {
			if t.Kind == "video" {
				nv++
			} else {
				na++
			}
		}
		if anything || (nv == 1 && na <= 1) || try > 60 {
			return f, nv == 1 && na <= 1
		}
	}
}

func makeSegInput(c *runner.Ctx, cs caseSpec) *segInput {
	in := &segInput{ref: -1}
	if cs.kind == "segmenter-corpus" {
		in.name, in.kind = segmenterCorpus[cs.sub], "corpus"
		b, err := os.ReadFile(filepath.Join(c.Env.RepoDir, in.name))
		if err != nil {
			c.Inconclusive("repo test file missing: " + in.name)
			return nil
		}
		in.data = b
		wts, m, err := wantFromStbl(b)
		if err != nil {
			c.Inconclusive("harness-selfcheck: reference reader rejects the repo file " + in.name)
			return nil
		}
		in.tracks = wts
		nv, na := 0, 0
		for i, tr := range m.Tracks {
			if tr.Handler == "vide" {
				nv++
				if in.ref < 0 {
					in.ref = i
					in.stss = tr.Tables.HasStss
				}
			} else {
				na++
			}
		}
		in.inDoc = nv == 1 && na <= 1
		return in
	}
	f, inDoc := genMovie(c.Rand)
	in.name, in.kind, in.data, in.inDoc = f.DescriptionLabel, "generated", f.Bytes, inDoc
	c.Seen("segmenter_file_layout", fmt.Sprintf("mdat-first=%v large-mdat=%v gaps=%v", f.MdatFirst, f.LargeMdat, len(f.Gaps) > 0 && strings.Contains(f.DescriptionLabel, "+gaps")))
	// the generator's record is the ground truth; the reference expansion of the bytes must agree
	wts, _, err := wantFromStbl(f.Bytes)
	if err != nil || len(wts) != len(f.Tracks) {
		c.Inconclusive("harness-selfcheck: reference reader rejects the generated input")
		return nil
	}
	for ti, t := range f.Tracks {
		wt := &wantTrack{Kind: t.Kind, Timescale: t.Timescale, HasSdtp: t.HasSdtp}
		for _, s := range t.Samples {
			wt.Samples = append(wt.Samples, wantSample{Data: s.Data, Dur: s.Dur, Cto: int64(s.Cto), DTS: s.DecodeTime, Sync: s.Sync, Sdtp: s.Sdtp})
		}
		x := wts[ti]
		same := len(x.Samples) == len(wt.Samples) && x.Timescale == wt.Timescale && x.Kind == wt.Kind
		for i := 0; same && i < len(x.Samples); i++ {
			a, b := x.Samples[i], wt.Samples[i]
			same = bytes.Equal(a.Data, b.Data) && a.Dur == b.Dur && a.Cto == b.Cto && a.DTS == b.DTS && a.Sync == b.Sync && a.Sdtp == b.Sdtp
		}
		if !same {
			c.Inconclusive("harness-selfcheck: reference expansion differs from the generator's record")
			return nil
		}
		in.tracks = append(in.tracks, wt)
		if t.Kind == "video" && in.ref < 0 {
			in.ref = ti
			in.stss = t.HasStss
		}
		c.Seen("segmenter_track_shape", fmt.Sprintf("%s stss=%v ctts=%v/v%d sdtp=%v", t.Kind, t.HasStss, t.HasCtts, t.CttsVersion, t.HasSdtp))
		c.Seen("segmenter_track_layout", fmt.Sprintf("%s edts=%v co64=%v uniform-stsz=%v chunks=%s", t.Kind, t.Elst != nil, t.Co64, t.Tables.StszUniform != 0, sizeClass(len(t.ChunkLens))))
	}
	return in
}

type segRun struct {
	flags []string
	mode  string
	ms    uint64
	class string
}

// segDurations derives the -d values from the reference (video) track.
func segDurations(r *runner.Rand, in *segInput) []struct {
	ms    uint64
	class string
} {
	type dc = struct {
		ms    uint64
		class string
	}
	var vt *wantTrack
	if in.ref >= 0 {
		vt = in.tracks[in.ref]
	} else {
		vt = in.tracks[0]
	}
	ts := uint64(vt.Timescale)
	var total uint64
	var syncs []int
	for i, s := range vt.Samples {
		total += uint64(s.Dur)
		if s.Sync {
			syncs = append(syncs, i)
		}
	}
	totalMS := total * 1000 / ts
	gop := total
	if len(syncs) >= 2 {
		k := r.Intn(len(syncs) - 1)
		gop = vt.Samples[syncs[k+1]].DTS - vt.Samples[syncs[k]].DTS
	}
	gopMS := gop * 1000 / ts
	pos := func(v uint64) uint64 {
		if v < 1 {
			return 1
		}
		return v
	}
	l := []dc{
		{1, "1ms"}, {pos(gopMS / 2), "half-gop"}, {pos(gopMS - 1), "gop-1"}, {pos(gopMS), "gop"}, {gopMS + 1, "gop+1"},
		{pos(gopMS * 3 / 2), "1.5-gop"}, {pos(gopMS * uint64(r.Range(2, 3))), "multi-gop"}, {1 + r.Uint64()%pos(totalMS), "random"},
		{pos(totalMS), "total"}, {totalMS + 1000, "beyond-end"},
	}
	return l
}

var (
	reTrackInit = regexp.MustCompile(`^o_([va])(\d+)_init\.mp4$`)
	reTrackSeg  = regexp.MustCompile(`^o_([va])(\d+)_(\d+)\.m4s$`)
	reMuxSeg    = regexp.MustCompile(`^o_media_(\d+)\.m4s$`)
)

func runSegmenterCase(c *runner.Ctx, idx int, cs caseSpec) {
	in := makeSegInput(c, cs)
	if in == nil {
		return
	}
	c.Seen("segmenter_input", fmt.Sprintf("%s tracks=%d documented-domain=%v ref-stss=%v", in.kind, len(in.tracks), in.inDoc, in.stss))
	dir := filepath.Join(c.Env.Scratch, fmt.Sprintf("seg-%d", idx))
	if err := os.MkdirAll(dir, 0o755); err != nil {
		c.Inconclusive("cannot create scratch directory")
		return
	}
	defer os.RemoveAll(dir)
	inPath := filepath.Join(dir, "in.mp4")
	if err := os.WriteFile(inPath, in.data, 0o644); err != nil {
		c.Inconclusive("cannot write scratch input")
		return
	}
	durs := segDurations(c.Rand, in)
	modes := []segRun{{nil, "single", 0, ""}, {[]string{"-m"}, "mux", 0, ""}, {[]string{"-lazy"}, "lazy", 0, ""}, {[]string{"-m", "-lazy"}, "mux-lazy", 0, ""}}
	var runs []segRun
	perm := c.Rand.Perm(len(durs))
	nruns := segRunsPerCase
	if cs.kind == "segmenter-corpus" {
		nruns = 4
	}
	if in.ref < 0 || !in.stss {
		nruns = 2 // the tool cannot work without a video track with stss: evidence only
	}
	for i := 0; i < nruns; i++ {
		m := modes[i%4]
		d := durs[perm[i%len(perm)]]
		m.ms, m.class = d.ms, d.class
		runs = append(runs, m)
	}
	var sampleRuns []string
	for ri, rn := range runs {
		out := filepath.Join(dir, fmt.Sprintf("r%d", ri))
		_ = os.MkdirAll(out, 0o755)
		args := append([]string{"-d", fmt.Sprint(rn.ms)}, rn.flags...)
		args = append(args, inPath, "o")
		res := runTool("segmenter", out, args...)
		note := fmt.Sprintf("documented-domain=%v ref-stss=%v", in.inDoc, in.stss)
		sampleRuns = append(sampleRuns, fmt.Sprintf("%s -d %d (%s): exit %d", rn.mode, rn.ms, rn.class, res.exit))
		if classify(c, "segmenter", rn.mode, res, note) {
			c.Seen("segmenter_run", rn.mode+" d="+rn.class)
			if checkSegmenterOutput(c, in, rn, out, res) {
				c.Nontrivial(runner.Hash64(in.data, []byte(rn.mode), []byte(fmt.Sprint(rn.ms))))
			}
		}
		os.RemoveAll(out)
	}
	c.Evals(int64(len(runs)))
	if c.WantSample() {
		c.Sample(map[string]interface{}{"tool": "segmenter", "input": in.name, "kind": in.kind, "bytes": len(in.data), "runs": sampleRuns})
	}
}

// checkSegmenterOutput evaluates one successful run; it returns true when
// the output could be compared.
func checkSegmenterOutput(c *runner.Ctx, in *segInput, rn segRun, out string, res toolResult) bool {
	what := fmt.Sprintf("segmenter -d %d %s [%s]", rn.ms, strings.Join(rn.flags, " "), in.name)
	var tl []string
	for i, t := range in.tracks {
		nsync := 0
		for _, s := range t.Samples {
			if s.Sync {
				nsync++
			}
		}
		tl = append(tl, fmt.Sprintf("track %d: %s timescale %d samples %d sync %d", i+1, t.Kind, t.Timescale, len(t.Samples), nsync))
	}
	k := &comparer{c: c, tool: "segmenter", mode: rn.mode, what: what,
		detail: map[string]interface{}{"input": in.name, "input_bytes": len(in.data), "ms": rn.ms, "duration_class": rn.class, "flags": rn.flags, "input_tracks": tl, "tool_stdout": clip(res.stdout, 1500)}}
	ents, err := os.ReadDir(out)
	if err != nil {
		c.Inconclusive("cannot list the output directory")
		return false
	}
	mux := rn.mode == "mux" || rn.mode == "mux-lazy"
	type trackFiles struct {
		init []byte
		segs map[int][]byte
	}
	// single-track modes: per (letter, id); mux: one set
	sets := map[string]*trackFiles{}
	get := func(key string) *trackFiles {
		if sets[key] == nil {
			sets[key] = &trackFiles{segs: map[int][]byte{}}
		}
		return sets[key]
	}
	for _, e := range ents {
		name := e.Name()
		b, err := os.ReadFile(filepath.Join(out, name))
		if err != nil {
			c.Inconclusive("cannot read an output file")
			return false
		}
		switch {
		case mux && name == "o_init.mp4":
			get("mux").init = b
		case mux && reMuxSeg.MatchString(name):
			n, _ := strconv.Atoi(reMuxSeg.FindStringSubmatch(name)[1])
			get("mux").segs[n] = b
		case !mux && reTrackInit.MatchString(name):
			m := reTrackInit.FindStringSubmatch(name)
			get(m[1] + m[2]).init = b
		case !mux && reTrackSeg.MatchString(name):
			m := reTrackSeg.FindStringSubmatch(name)
			n, _ := strconv.Atoi(m[3])
			get(m[1] + m[2]).segs[n] = b
		default:
			k.viol("output", "unexpected-file", "unexpected output file "+name, nil)
			return true
		}
	}
	// which set belongs to which input track
	type binding struct {
		set     *trackFiles
		trackID uint32 // 0: the only track of the init
		want    *wantTrack
		isRef   bool
		label   string
	}
	var binds []binding
	if mux {
		s := sets["mux"]
		if s == nil || s.init == nil {
			k.viol("output", "init-missing", "no o_init.mp4 produced", nil)
			return true
		}
		for i, wt := range in.tracks {
			binds = append(binds, binding{s, uint32(i + 1), wt, i == in.ref, fmt.Sprintf("track %d", i+1)})
		}
	} else {
		// every single-track init gets track id 1; the file name carries v/a
		nv, na := 0, 0
		for i, wt := range in.tracks {
			letter := "a"
			if wt.Kind == "video" {
				letter = "v"
				nv++
			} else {
				na++
			}
			if (letter == "v" && nv > 1) || (letter == "a" && na > 1) {
				c.Count("segmenter_name_collision_inputs", 1)
				return false // outside the documented domain: two tracks share the file names
			}
			s := sets[letter+"1"]
			if s == nil || s.init == nil {
				k.viol(wt.Kind, "init-missing", fmt.Sprintf("no init segment o_%s1_init.mp4 for input track %d", letter, i+1), nil)
				return true
			}
			binds = append(binds, binding{s, 0, wt, i == in.ref, "o_" + letter + "1"})
		}
		if len(sets) != len(binds) {
			k.viol("output", "unexpected-file", fmt.Sprintf("%d output file sets for %d input tracks", len(sets), len(binds)), nil)
			return true
		}
	}
	compared := false
	for _, b := range binds {
		top, err := boxwalk.Walk(b.set.init)
		if err != nil {
			k.viol("output", "init-not-tiling", "produced init segment does not tile into boxes: "+err.Error(), nil)
			return true
		}
		var moov *boxwalk.Node
		for _, n := range top {
			if n.Type == "moov" {
				moov = n
			}
		}
		init, err := frag.ParseInit(b.set.init, moov)
		if err != nil {
			k.viol("output", "init-unreadable", "produced init segment cannot be read: "+err.Error(), nil)
			return true
		}
		var tr *frag.Track
		if b.trackID == 0 {
			if len(init.Tracks) != 1 {
				k.viol("output", "init-track-count", fmt.Sprintf("single-track init has %d tracks", len(init.Tracks)), nil)
				return true
			}
			tr = &init.Tracks[0]
		} else {
			if len(init.Tracks) != len(in.tracks) {
				k.viol("output", "init-track-count", fmt.Sprintf("multiplexed init has %d tracks, input %d", len(init.Tracks), len(in.tracks)), nil)
				return true
			}
			tr = &init.Tracks[int(b.trackID)-1]
		}
		if tr.Timescale != b.want.Timescale || kindOfHandler(tr.Handler) != b.want.Kind {
			k.viol(b.want.Kind, "init-track-identity", fmt.Sprintf("%s: handler/timescale %s/%d, input %s/%d", b.label, tr.Handler, tr.Timescale, b.want.Kind, b.want.Timescale), nil)
			return true
		}
		var got []gotSample
		nrs := sortedSegNrs(b.set.segs)
		for si, nr := range nrs {
			seg := b.set.segs[nr]
			xf, err := frag.ExpandFile(seg, init)
			if err != nil {
				k.viol(b.want.Kind, "segment-unreadable", fmt.Sprintf("%s segment %d does not tile / expand: %v", b.label, nr, err), map[string]interface{}{"segment": nr})
				return true
			}
			// every byte of the mdat boxes must belong to a sample of the segment
			for _, mi := range xf.Moofs {
				for _, tf := range mi.Trafs {
					if init.TrackByID(tf.Tfhd.TrackID) == nil {
						k.viol("output", "unknown-track-id", fmt.Sprintf("segment %d has a traf for track id %d which the init does not declare", nr, tf.Tfhd.TrackID), nil)
						return true
					}
				}
			}
			if msg := mdatCoverage(seg, xf); msg != "" {
				c.Seen("mdat_coverage", rn.mode+": samples do not fill the mdat payload exactly (evidence only)")
			} else {
				c.Seen("mdat_coverage", rn.mode+": exact")
			}
			got = append(got, toGot(xf.TrackSamples(tr.ID), si)...)
		}
		if k.compareTrack(b.want, got) && b.isRef {
			k.checkSyncStart(b.want, got)
		}
		compared = true
		c.Seen("segmenter_segments", fmt.Sprintf("%s %s", b.want.Kind, sizeClass(len(nrs))))
	}
	return compared
}

func sizeClass(n int) string {
	switch {
	case n <= 3:
		return fmt.Sprint(n)
	case n <= 8:
		return "4-8"
	case n <= 20:
		return "9-20"
	}
	return ">20"
}

func sortedSegNrs(m map[int][]byte) []int {
	var l []int
	for k := range m {
		l = append(l, k)
	}
	sort.Ints(l)
	return l
}

// mdatCoverage checks that the samples of a produced segment fill its mdat
// payloads exactly (nothing copied in surplus, nothing cut).
func mdatCoverage(b []byte, xf *frag.File) string {
	var payload int
	for _, n := range xf.Top {
		if n.Type == "mdat" {
			payload += n.Size - n.HdrLen
		}
	}
	var sum int
	for _, mi := range xf.Moofs {
		for _, tf := range mi.Trafs {
			for _, s := range tf.Samples {
				sum += int(s.Size)
				in := false
				for _, n := range xf.Top {
					if n.Type == "mdat" && s.Offset >= n.Start+n.HdrLen && s.Offset+int(s.Size) <= n.End() {
						in = true
					}
				}
				if !in && s.Size > 0 {
					return fmt.Sprintf("a sample occupies [%d,%d), outside every mdat payload", s.Offset, s.Offset+int(s.Size))
				}
			}
		}
	}
	if sum != payload {
		return fmt.Sprintf("the samples have %d bytes in total, the mdat payloads %d", sum, payload)
	}
	return ""
}
