// Package c05 decides property C05 (samples written into fragments are read
// back exactly): generated API histories over mp4.CreateFragment /
// CreateMultiTrackFragment and the sample-adding calls are executed against
// the real library, encoded, and read back (a) through DecodeFile and
// DecodeFileSR + Fragment.GetFullSamples(trex) and (b) independently from the
// bytes through ref/frag. Both must return the generator's ground-truth list.
package c05

import (
	"bytes"
	"encoding/json"
	"fmt"
	"strings"
	"verifharness/ref/boxwalk"

	"github.com/Eyevinn/mp4ff/bits"
	"github.com/Eyevinn/mp4ff/mp4"

	genfrag "verifharness/gen/frag"
	reffrag "verifharness/ref/frag"
	"verifharness/runner"
)

func init() {
	runner.Register(&runner.Prop{
		ID: "C05",
		Rule: "One case = one generated API history: 1..4 tracks (trex defaults from a boundary set), 1..3 segments, up to 5 fragments in total; " +
			"each fragment is CreateFragment or CreateMultiTrackFragment (traf order permuted, some trafs receive nothing, rarely none), in exactly one mdat mode " +
			"(full: AddFullSample/AddFullSampleToTrack; meta: AddSample/AddSamples/AddSampleToTrack with the payload written by the harness after the encoded mdat header; " +
			"interval: AddSampleInterval), 0..13 samples, interleaving blocks/alternating/random so that new truns are forced; per run dur/size constant or varying, " +
			"flags all-equal/first-differs/all-differ/middle-differs, cto zero/boundary/small (values from boundary sets incl. 0, 1, 2^31 edges, 2^32-1); " +
			"decode times start at a boundary value (0, 2^32-1, 2^32, 2^40 ...), are cumulative, with occasional gaps between fragments; " +
			"extra boxes: emsg v0/v1 via AddEmsg, prft/free/skip/uuid/unknown inserted before moof, boxes via AddChild after mdat, file-level boxes between fragments, " +
			"large-size mdat header, trun fields dropped in favour of trex defaults (only without optimisation); EncOptimize on/off, Encode/EncodeSW, " +
			"fragment-wise or MediaSegment encode, +-styp, +-sidx (top-level and per-segment, filled with true offsets). " +
			"idx%4 == 1: the same histories with 0..3 observer calls per fragment inserted between the sample additions (Fragment.Size, Fragment.Info, Moof.Info at several detail levels, " +
			"Fragment.Encode/EncodeSW to a discard writer while EncOptimize is still OptimizeNone, and MediaSegment.Size/Info/Encode for fragments that are added to their MediaSegment before they are filled), " +
			"EncOptimize set on the fragment / the segment BEFORE the additions in half of them instead of right before encoding. idx%8 selects an emphasis " +
			"(5: single-track fragments only, 6: no extra boxes, 7: tame realistic values); idx%64 == 9: long runs (1 or 2 fragments of 1023..3000 samples per track of 8..24 bytes, " +
			"two thirds of the tracks with every field constant so that the optimised trun carries no per-sample field). " +
			"Every payload is stamped with (track, ordinal). Non-trivial = the file holds >= 2 samples and at least one of {a traf with >1 trun, a multi-track fragment, " +
			"optimisation on, an extra box}; distinct_nontrivial counts distinct encoded files.",
		Assumptions: []string{
			"within one fragment only one mdat mode is used (the API documents Data / DataParts / lazy size as exclusive)",
			"AddFullSample/AddSample/AddSamples/AddSampleInterval only on CreateFragment fragments (documented single-trun calls)",
			"track ids passed to the *ToTrack calls exist in the fragment; decode times passed with the samples are consistent (cumulative durations)",
			"nothing is placed between moof and mdat (the file decoder documents that it rejects it); file-level emsg boxes sit directly before their fragment, after styp/sidx",
			"a mid-history Encode is only made while EncOptimize is OptimizeNone (Encode with OptimizeTrun is documented to rewrite tfhd/trun: OptimizeTfhdTrun 'Don't optimize again'); Size and Info are pure observers at any time",
			"API calls or encoders that return an error put the fragment outside the property: counted in op_errors, the fragment is left out of the file",
			"reference expansion follows ISO/IEC 14496-12 8.8.7/8.8.8 (ref/frag), box boundaries from ref/boxwalk",
		},
		NumCases: func(env *runner.Env) int {
			if env.Tier == "thorough" {
				return 1500000
			}
			return 30000
		},
		Run:        run,
		Replay:     replay,
		CaseCPUSec: 60,
	})
}

type got struct {
	data             []byte
	size, dur, flags uint32
	cto              int64
	time             uint64
}

func fromLib(fs []mp4.FullSample) []got {
	out := make([]got, len(fs))
	for i, s := range fs {
		out[i] = got{s.Data, s.Size, s.Dur, s.Flags, int64(s.CompositionTimeOffset), s.DecodeTime}
	}
	return out
}

func fromRef(ss []reffrag.Sample) []got {
	out := make([]got, len(ss))
	for i, s := range ss {
		out[i] = got{s.Data, s.Size, s.Duration, s.Flags, s.Cto, s.DecodeTime}
	}
	return out
}

// diff returns the first differing field ("" if equal) and a description.
func diff(want []genfrag.Sample, g []got) (field, what string) {
	if len(want) != len(g) {
		return "count", fmt.Sprintf("%d samples read back, %d added", len(g), len(want))
	}
	for i, w := range want {
		x := g[i]
		switch {
		case x.size != w.Size:
			return "size", fmt.Sprintf("sample %d (ordinal %d): size %d, added %d", i, w.Ordinal, x.size, w.Size)
		case !bytes.Equal(x.data, w.Data()):
			return "data", fmt.Sprintf("sample %d (ordinal %d): data %s, added %s", i, w.Ordinal, head(x.data), head(w.Data()))
		case x.dur != w.Dur:
			return "dur", fmt.Sprintf("sample %d (ordinal %d): duration %d, added %d", i, w.Ordinal, x.dur, w.Dur)
		case x.flags != w.Flags:
			return "flags", fmt.Sprintf("sample %d (ordinal %d): flags %08x, added %08x", i, w.Ordinal, x.flags, w.Flags)
		case x.cto != int64(w.Cto):
			return "cto", fmt.Sprintf("sample %d (ordinal %d): composition offset %d, added %d", i, w.Ordinal, x.cto, w.Cto)
		case x.time != w.DecodeTime:
			return "time", fmt.Sprintf("sample %d (ordinal %d): decode time %d, added %d", i, w.Ordinal, x.time, w.DecodeTime)
		}
	}
	return "", ""
}

func head(b []byte) string {
	if len(b) > 12 {
		return fmt.Sprintf("%x..(%d bytes)", b[:12], len(b))
	}
	return fmt.Sprintf("%x", b)
}

func errClass(err error) string {
	s := err.Error()
	for i, r := range s {
		if r >= '0' && r <= '9' {
			s = s[:i]
			break
		}
	}
	if len(s) > 60 {
		s = s[:60]
	}
	return strings.TrimSpace(s)
}

// innerErrClass is the innermost message of a wrapped decode error ("decode
// moof pos 24: decode traf pos 48: <inner>") with every number replaced by #.
// longRunKinds classifies the truns of more than 1024 samples of a file (reference expansion).
func longRunKinds(rf *reffrag.File) string {
	bare, withFields := false, false
	for _, m := range rf.Moofs {
		for _, t := range m.Trafs {
			for _, tr := range t.Truns {
				if tr.SampleCount > 1024 {
					if tr.Flags&0xf00 == 0 {
						bare = true
					} else {
						withFields = true
					}
				}
			}
		}
	}
	switch {
	case bare:
		return "a-run-over-1024-has-no-per-sample-field"
	case withFields:
		return "every-run-over-1024-has-per-sample-fields"
	}
	return "no-run-over-1024"
}

func innerErrClass(err error) string {
	s := err.Error()
	for {
		i := strings.Index(s, ": ")
		if i < 0 || !strings.HasPrefix(s, "decode ") || !strings.Contains(s[:i], " pos ") {
			break
		}
		s = s[i+2:]
	}
	var sb strings.Builder
	digit := false
	for _, r := range s {
		if r >= '0' && r <= '9' {
			if !digit {
				sb.WriteByte('#')
			}
			digit = true
			continue
		}
		digit = false
		sb.WriteRune(r)
	}
	s = sb.String()
	if len(s) > 80 {
		s = s[:80]
	}
	return s
}

type detail struct {
	History  *genfrag.History `json:"history"`
	Fragment int              `json:"fragment_in_file"`
	Track    uint32           `json:"track"`
	Reader   string           `json:"reader"`
	What     string           `json:"what"`
	FileHex  string           `json:"file_hex,omitempty"`
}

func options(idx int) genfrag.Options {
	var o genfrag.Options
	switch idx % 8 {
	case 5:
		o.SingleOnly = true
	case 6:
		o.NoExtra = true
	case 7:
		o.Tame = true
	}
	if idx%4 == 1 {
		o.Observers = true
	}
	if idx%64 == 9 {
		o = genfrag.Options{LongRuns: true, NoExtra: idx%128 == 9}
	}
	return o
}

func run(c *runner.Ctx, idx int) {
	h := genfrag.Generate(c.Rand, options(idx))
	check(c, h)
}

// replay re-runs the history saved in a violation's detail.
func replay(c *runner.Ctx, raw json.RawMessage) {
	var d struct {
		History *genfrag.History `json:"history"`
	}
	if err := json.Unmarshal(raw, &d); err != nil || d.History == nil {
		c.Inconclusive("replay-without-history")
		return
	}
	check(c, d.History)
}

func check(c *runner.Ctx, h *genfrag.History) {
	var b *genfrag.Built
	var berr error
	if pi := c.Guard(func() { b, berr = genfrag.Build(h, genfrag.BuildOptions{Guard: c.Guard}) }); pi != nil {
		c.Violation(runner.PanicKey("build", pi), "panic while building the file: "+pi.Value, map[string]interface{}{"history": h, "stack": pi.Stack})
		return
	}
	if berr != nil {
		c.Violation("build/"+errClass(berr), "the encoded pieces could not be assembled into a file: "+berr.Error(), map[string]interface{}{"history": h})
		return
	}
	if len(h.Tracks) >= 2 && len(b.Bytes)%3 == 1 {
		// the trex boxes of the written init in another order than the track ids (their order in mvex
		// is free): reversed on the byte level, all trex boxes have the same size
		if reverseTrex(b.Bytes) {
			c.Count("inits_with_trex_boxes_not_in_track_order", 1)
		}
	}
	enc := "Encode"
	if h.SW {
		enc = "EncodeSW"
	}
	opt := "noopt"
	if h.Optimize {
		opt = "opt"
	}
	for _, f := range b.Frags {
		for k, n := range f.OpsDone {
			c.Count("op:"+k, int64(n))
		}
		if f.Panic != nil {
			stage := "api"
			if f.Stage != "build" {
				stage = "encode"
			}
			c.Violation(runner.PanicKey(stage, f.Panic),
				fmt.Sprintf("%s of a %s fragment (%s, %s) panics: %s", f.Stage, f.Spec.Shape(h.Optimize), enc, opt, f.Panic.Value),
				map[string]interface{}{"history": h, "fragment_spec": f.Spec, "stack": f.Panic.Stack})
			continue
		}
		if f.Err != nil {
			c.Seen("op_errors", f.Stage+": "+errClass(f.Err))
			continue
		}
	}
	frags := b.FragsInFile()
	c.Seen("fragments_in_file", fmt.Sprint(len(frags)))
	if len(frags) == 0 {
		c.Count("cases_without_fragment", 1)
		return
	}
	// coverage accounting
	nsamples, multiTrun, multiTrack, extra := 0, false, false, false
	for _, f := range frags {
		fs := f.Spec
		nsamples += fs.NSamples()
		c.Seen("fragment_shape", fs.Shape(h.Optimize)+"/"+enc)
		m := fs.Samples()
		empty := 0
		for i, id := range fs.Tracks {
			if len(m[id]) == 0 {
				empty++
				if i == 0 && fs.Multi {
					c.Count("multi_fragments_first_traf_empty", 1)
				}
			}
		}
		c.Seen("tracks_empty_in_fragment", fmt.Sprintf("%d of %d", empty, len(fs.Tracks)))
		for _, n := range fs.Truns() {
			c.Seen("truns_per_traf", fmt.Sprint(n))
			if n > 1 {
				multiTrun = true
			}
		}
		if fs.Multi && len(fs.Tracks) > 1 {
			multiTrack = true
		}
		for _, l := range [][]genfrag.ExtraBox{fs.Pre, fs.Post, fs.Before} {
			for _, e := range l {
				extra = true
				c.Seen("extra_box", e.Kind+" via "+e.Via)
			}
		}
		if fs.LargeMdat {
			c.Count("large_mdat_header", 1)
		}
		// observer calls between the additions (idx%4 == 1): where they sit and what the configuration was at that moment
		added := 0
		for _, op := range fs.Ops {
			if !genfrag.IsObserver(op.Kind) {
				added += len(op.Samples)
				continue
			}
			where := "between-additions"
			switch {
			case added == 0:
				where = "before-first-sample"
			case added == fs.NSamples():
				where = "after-last-sample"
			}
			c.Seen("observer_position", where)
			c.Seen("observer_config", fmt.Sprintf("%s fragment.EncOptimize-set-before=%v final=%s", strings.TrimPrefix(op.Kind, "Observe:"), fs.PreOptimize, opt))
			if where == "between-additions" && h.Optimize && fs.PreOptimize {
				c.Count("observers_between_additions_with_OptimizeTrun_already_set", 1)
			}
		}
	}
	for _, s := range b.Segs {
		c.Seen("segment_layout", fmt.Sprintf("styp=%v sidx=%d viaMediaSegment=%v", s.Spec.Styp, s.Spec.NSidx, s.Spec.ViaMediaSegment))
		if s.Spec.AttachFirst {
			c.Seen("media_segment_filled_after_attach", fmt.Sprintf("MediaSegment.EncOptimize-set-before=%v final=%s", s.Spec.PreOptimize, opt))
		}
	}
	c.Seen("top_sidx", fmt.Sprint(len(b.TopSidx)))
	if nsamples >= 2 && (multiTrun || multiTrack || h.Optimize || extra) {
		c.Nontrivial(runner.Hash64(b.Bytes))
	}
	if c.WantSample() {
		c.Sample(map[string]interface{}{"tracks": len(h.Tracks), "optimize": h.Optimize, "encoder": enc, "file_bytes": len(b.Bytes),
			"fragments": describe(frags, h)})
	}
	viol := func(reader, field string, fi int, f *genfrag.BuiltFrag, track uint32, what string) {
		d := detail{History: h, Fragment: fi, Track: track, Reader: reader, What: what}
		if len(b.Bytes) <= 6000 {
			d.FileHex = fmt.Sprintf("%x", b.Bytes)
		}
		shape := "file"
		if f != nil {
			shape = f.Spec.Shape(h.Optimize)
		}
		c.Violation("readback/"+reader+"/"+field+"/"+shape,
			fmt.Sprintf("%s, fragment %d (%s, %s), track %d: %s", reader, fi, shape, enc, track, what), d)
	}

	// (b) independent expansion from the bytes
	rf, err := reffrag.ExpandFile(b.Bytes, nil)
	if err != nil {
		viol("ref", "expand-error", -1, nil, 0, "reference expansion of the encoded bytes fails: "+err.Error())
	} else if len(rf.Moofs) != len(frags) {
		viol("ref", "fragment-count", -1, nil, 0, fmt.Sprintf("%d moof boxes in the file, %d fragments encoded", len(rf.Moofs), len(frags)))
	} else {
		for fi, f := range frags {
			want := f.Spec.Samples()
			mi := rf.Moofs[fi]
			if mi.Start != f.Moof {
				viol("ref", "moof-position", fi, f, 0, fmt.Sprintf("moof at %d, expected %d", mi.Start, f.Moof))
			}
			if mi.Mfhd.SequenceNumber != f.Spec.Seq {
				viol("ref", "sequence-number", fi, f, 0, fmt.Sprintf("mfhd sequence number %d, created with %d", mi.Mfhd.SequenceNumber, f.Spec.Seq))
			}
			if len(mi.Trafs) > 0 {
				t0 := mi.Trafs[0]
				tf := uint32(0)
				if len(t0.Truns) > 0 {
					tf = t0.Truns[0].Flags
				}
				c.Seen("first_traf_tfhd_trun_flags", fmt.Sprintf("%s tfhd=%06x trun0=%06x", opt, t0.Tfhd.Flags, tf))
			}
			for _, t := range h.Tracks {
				c.Evals(1)
				if field, what := diff(want[t.ID], fromRef(mi.TrackSamples(t.ID))); field != "" {
					viol("ref", field, fi, f, t.ID, what)
				}
			}
		}
	}

	// (a) through the library's two file decoders
	for _, reader := range []string{"DecodeFile", "DecodeFileSR"} {
		var file *mp4.File
		var derr error
		pi := c.Guard(func() {
			if reader == "DecodeFile" {
				file, derr = mp4.DecodeFile(bytes.NewReader(b.Bytes))
			} else {
				file, derr = mp4.DecodeFileSR(bits.NewFixedSliceReader(b.Bytes))
			}
		})
		if pi != nil {
			c.Violation(runner.PanicKey("decode-"+reader, pi), reader+" of the encoded file panics: "+pi.Value,
				detail{History: h, Reader: reader, What: pi.Stack, FileHex: fmt.Sprintf("%x", b.Bytes)})
			continue
		}
		if derr != nil {
			cls := innerErrClass(derr)
			if strings.Contains(cls, "is big but no sample data present") && err == nil {
				// the decoder's guard against a short box claiming a huge count: say which kind of long
				// run the file holds, so that a refusal of runs that DO carry per-sample fields is
				// a different finding from the refusal of runs without any
				cls += "/" + longRunKinds(rf)
			}
			viol(reader, "decode-error/"+cls, -1, nil, 0, "decoding the encoded file fails: "+derr.Error())
			continue
		}
		if file.Init == nil || file.Init.Moov == nil || file.Init.Moov.Mvex == nil {
			viol(reader, "no-init", -1, nil, 0, "decoded file has no init segment / mvex")
			continue
		}
		var lf []*mp4.Fragment
		bad := false
		for _, s := range file.Segments {
			for _, f := range s.Fragments {
				if f.Moof == nil || f.Mdat == nil {
					bad = true
					continue
				}
				lf = append(lf, f)
			}
		}
		if bad {
			viol(reader, "fragment-without-moof-or-mdat", -1, nil, 0, "a decoded fragment has no moof or no mdat")
		}
		if len(lf) != len(frags) {
			viol(reader, "fragment-count", -1, nil, 0, fmt.Sprintf("%d decoded fragments, %d encoded", len(lf), len(frags)))
			continue
		}
		for fi, f := range frags {
			want := f.Spec.Samples()
			for _, t := range h.Tracks {
				trex, ok := file.Init.Moov.Mvex.GetTrex(t.ID)
				if !ok {
					viol(reader, "no-trex", fi, f, t.ID, "no trex for the track in the decoded init")
					continue
				}
				var fsamples []mp4.FullSample
				var gerr error
				if pi := c.Guard(func() { fsamples, gerr = lf[fi].GetFullSamples(trex) }); pi != nil {
					c.Violation(runner.PanicKey("getfullsamples-"+reader, pi), "GetFullSamples panics: "+pi.Value,
						detail{History: h, Fragment: fi, Track: t.ID, Reader: reader, What: pi.Stack})
					continue
				}
				c.Evals(1)
				if gerr != nil {
					viol(reader, "getfullsamples-error", fi, f, t.ID, "GetFullSamples: "+gerr.Error())
					continue
				}
				if field, what := diff(want[t.ID], fromLib(fsamples)); field != "" {
					viol(reader, field, fi, f, t.ID, what)
				}
			}
		}
	}
	c.Count("histories_checked", 1)
	c.Count("samples_checked", int64(nsamples))
}

func describe(frags []*genfrag.BuiltFrag, h *genfrag.History) []string {
	var out []string
	for _, f := range frags {
		var ops []string
		for _, op := range f.Spec.Ops {
			ops = append(ops, fmt.Sprintf("%s(t%d x%d)", op.Kind, op.Track, len(op.Samples)))
		}
		s := fmt.Sprintf("%s tracks=%v: %s", f.Spec.Shape(h.Optimize), f.Spec.Tracks, strings.Join(ops, " "))
		if len(s) > 400 {
			s = s[:400] + "..."
		}
		out = append(out, s)
	}
	return out
}

// reverseTrex reverses the order of the trex boxes inside moov/mvex of file bytes in place
// (only when they are adjacent and of equal size); it reports whether anything moved.
func reverseTrex(file []byte) bool {
	nodes, err := boxwalk.Walk(file)
	if err != nil {
		return false
	}
	for _, n := range nodes {
		if n.Type != "moov" {
			continue
		}
		for _, m := range n.Children {
			if m.Type != "mvex" {
				continue
			}
			var tr []*boxwalk.Node
			for _, t := range m.Children {
				if t.Type == "trex" {
					if len(tr) > 0 && (t.Start != tr[len(tr)-1].Start+tr[len(tr)-1].Size || t.Size != tr[0].Size) {
						return false
					}
					tr = append(tr, t)
				}
			}
			if len(tr) < 2 {
				return false
			}
			sz := tr[0].Size
			tmp := make([]byte, sz)
			for i, j := 0, len(tr)-1; i < j; i, j = i+1, j-1 {
				a, b := file[tr[i].Start:tr[i].Start+sz], file[tr[j].Start:tr[j].Start+sz]
				copy(tmp, a)
				copy(a, b)
				copy(b, tmp)
			}
			return true
		}
	}
	return false
}
