// Package c12 decides property C12 (fragments are grouped into segments
// faithfully and segment indexes tile the media). Files are assembled by
// gen/frag from library-encoded boxes with the ground truth of every box
// position (first family) and then rewritten on the byte level into other
// legal fragment shapes (second family, gen/frag/reshape.go); three oracles observe DecodeFile/DecodeFileSR, the default
// segment-mode Encode/EncodeSW, and UpdateSidx (+ the add-sidx binary). All
// positions and index fields are read from the produced bytes with
// ref/boxwalk and ref/frag. Two more families (families.go) derive from these
// files: unused senc/saiz/saio boxes inserted into the trafs
// (gen/frag/encboxes.go; add-sidx also runs with -removeEnc), and files
// stretched to several GiB by holes in their mdat boxes, decoded lazily
// through a virtual ReadSeeker (gen/frag/stretch.go). A fifth family gives a
// non-first track samples in moov (gen/frag/moovsamples.go); lazily decoded
// files get oracle 2 on moof boxes and mdat headers; 1 in 3 of the decoded files
// is mutated with Fragment.AddEmsg before UpdateSidx (oracle 3).
package c12

import (
	"bytes"
	"fmt"
	"os"
	"os/exec"
	"path/filepath"
	"strings"

	"github.com/Eyevinn/mp4ff/bits"
	"github.com/Eyevinn/mp4ff/mp4"

	genfrag "verifharness/gen/frag"
	"verifharness/ref/boxwalk"
	reffrag "verifharness/ref/frag"
	"verifharness/runner"
)

func init() {
	runner.Register(&runner.Prop{
		ID: "C12",
		Rule: "One case = one generated fragmented file (gen/frag, Layouts profile): init with 1..3 tracks + 1..6 segments x 1..4 fragments (single- and multi-track, " +
			"full/meta/interval sample calls), styp on every/some/no/all-but-first segment, top-level sidx none | one | two flat | hierarchical parent (reference_type=1) + two children " +
			"(v0/v1, filled with the true offsets/durations), 0..2 sidx boxes per segment, mfra+mfro with one tfra entry per segment or per fragment, emsg boxes before the moof " +
			"(inside the fragment via AddEmsg or at file level); idx%8==7 additionally places prft/free/skip/uuid/unknown boxes in and between fragments (weak oracle only); " +
			"idx%8 in {5,6} draws layouts with exactly one delimiter mechanism (5: without emsg) so that the strong form is exercised often. " +
			"Each file is decoded with a drawn flag set {0, DecISMFlag, DecStartOnMoof, both} through DecodeFile and DecodeFileSR (with both flags a top-level sidx or an mfra in force keeps precedence over start-on-moof, as the flag's doc comment says). " +
			"Oracle 1 (grouping): weak form always; strong form (segment boundaries exactly at the ground-truth delimiters) only when a single mechanism is present; emsg boxes are not a mechanism: sidx- and tfra-delimited files with emsg boxes in front of the moofs stay in the strong form " +
			"(a tfra entry addresses the moof: the segment starts there and the emsg boxes in front stay with the fragment before; only the first segment starts at its emsg). " +
			"Oracle 2: default segment-mode Encode and EncodeSW keep ftyp, moov and every emsg/moof/mdat byte-identical and in order. " +
			"Oracle 3: UpdateSidx(addIfNotExists, nonZeroEPT drawn) then Encode (segment mode, and box-tree mode when the top level holds only boxes that segment mode writes too), and for 1 file in 4 the add-sidx binary: the first top-level sidx read from the output bytes tiles the media. " +
			"Files with a 64-bit mdat header (and 1 in 8 of the others) are additionally decoded with DecodeFile + DecModeLazyMdat: oracle 1 against the ground truth, the partition must equal the non-lazy one, and oracle 2 in its lazy form: segment-mode Encode and EncodeSW of the lazily decoded file write ftyp, moov, every emsg and every moof byte-identically and every mdat as its unchanged header (oracle 3 does not apply: a lazy mdat is written without payload). " +
			"For 1 in 3 of the decoded files the history goes on after decoding: Fragment.AddEmsg (1..2 new v0/v1 emsg boxes) on a drawn non-empty set of fragments (first or later fragments of their segments, with or without leading emsg boxes; fragments holding an emsg after their mdat are left alone), then UpdateSidx(true, nonZeroEPT) and segment-mode Encode: oracle 3 on the written bytes (a segment starts at the first box written for it, the new emsg included). " +
			"Second family, 'reshaped files' (every case, after the first family, same history): gen/frag.Reshape rewrites 5 of 6 fragments of the built file byte by byte (no mp4ff call) into equivalent legal shapes with the same per-track sample lists: " +
			"every traf split into 1..3 trafs of the same track (own tfhd, tfdt = decode time of its first sample), round-robin interleaved with the other tracks' trafs or adjacent; every traf's samples split into 1..4 truns; " +
			"duration/size/flags per traf drawn from {per-sample trun fields, tfhd default, trex default, unused tfhd default} as far as the values allow, first_sample_flags where all but the first sample have the default, cto present or absent, trun version 0/1; " +
			"run data contiguous in run order | permuted | separated by filler (also in front of the first and after the last run) | both, one data_offset per run (1 in 3 of the runs that directly follow their predecessor in the same traf carry none); 8- or 16-byte mdat header; " +
			"sidx references/first_offset and tfra moof offsets re-pointed to the moved boxes. The rewritten file is expanded with ref/frag and compared, fragment by fragment and track by track, with the history (payload bytes, size, duration, flags, cto, decode time; data inside the fragment's own mdat): a mismatch is inconclusive. " +
			"The same readers, flags (redrawn for 1 in 3) and oracles 1-3 run on it; oracle 3's durations (both families) come from the history and are cross-checked against ref/frag's expansion of the moofs inside each referenced byte range of the output (disagreement = inconclusive). " +
			"Third family, 'encboxes' (every case; base = the built or the reshaped file): gen/frag.AddEncBoxes inserts, byte by byte, syntactically valid sample-encryption boxes into the trafs of 5 of 6 fragments (3 of 4 trafs each): senc or its PIFF uuid form (8/16-byte IVs, with/without subsample entries), " +
			"saiz (default size or per-sample table, with/without aux_info_type) and saio v0/v1 pointing at the senc's first IV (1 in 6 without saiz/saio), before the first trun or after the last child, senc first or last; the sample entries stay clear (the boxes are unused, as in a decrypted file), " +
			"every trun data_offset of the moof, sidx references and tfra offsets are fixed up and the file is verified against the history with ref/frag. The same readers and oracles 1-3 run on it (flags mostly without DecISMFlag), and the add-sidx binary runs on 3 of 5 of these files, 3 in 4 of the runs with -removeEnc: " +
			"oracle 3 on the tool's output (reference count = segments, references contiguous, each at the first byte of its segment in the output, ending at the end of the media, durations/EPT); what -removeEnc removed and whether the samples are still addressed correctly is counted. " +
			"Fourth family, 'stretched' (every case; base = the built or the reshaped file): gen/frag.Stretch gives one mdat of all / of a random half of the history segments a trailing hole of 1..2 GiB (files without any sidx and a 64-bit mdat header: also 2^32-16..5 GiB), 1 in 3 of the files with >= 3 holes tuned so that a later segment starts at 2^32+{-1,0,1,8} (absolute, or after the first sidx's anchor); " +
			"mdat size fields, sidx referenced sizes/first_offset and tfra moof offsets are fixed up (holes that a 31-bit referenced_size, a v0 first_offset, a v0 tfra offset or a compact mdat header cannot hold are dropped). The 1..21 GiB file exists only as a virtual io.ReadSeeker (bytes + zero holes) given to DecodeFile + DecModeLazyMdat with the case's flags: " +
			"oracle 1 (weak + strong) against the moved ground truth; the partition must equal that of the unstretched file under the same flags; then UpdateSidx(addIfNotExists 7 in 8, nonZeroEPT drawn) and the filled sidx box, encoded alone and read back with ref/frag, is compared with the construction: reference count = decoded segments, " +
			"referenced_size k = distance between the ground-truth starts of decoded segments k and k+1 (files without prft/free/... boxes), first_offset = size of the other top-level sidx boxes, durations/timescale/EPT from the history; a decoded segment of 2^31 bytes or more must make UpdateSidx fail. " +
			"Fifth family, 'moovsamples' (cases with >= 2 tracks; base = the built or the reshaped file): gen/frag.AddMoovSamples gives, byte by byte, one trak other than the first 1..3 samples in moov (stts/stsc/stsz/stco entries, one chunk whose offset points into the payload of an mdat of the file; box sizes up to moov grown, tfra offsets re-pointed); the first trak stays empty (the library's definition of a fragmented file). The same readers and oracles 1-3 run on it. " +
			"Non-trivial = decoded by at least one reader and holding >= 2 fragments (first family) / at least one rewritten fragment (second) / at least one traf with inserted boxes (third) / decoded with the weak form holding (fourth); distinct_nontrivial counts distinct (file, flags).",
		Assumptions: []string{
			"mixed delimiter layouts (styp on some segments, styp + flag, sidx + styp, segment-level sidx without styp, mfra + styp ...) get only the weak grouping form: the statement lists the mechanisms as alternatives; an emsg is no delimiter mechanism",
			"with the mfra mechanism a segment starts at the moof its tfra entry addresses; emsg boxes directly in front of that moof are kept (in file order) at the end of the fragment before, except in front of the first moof of the file",
			"the mfra mechanism is in force only with DecISMFlag through DecodeFile (DecodeFileSR cannot seek and documents nothing else); counted as ism_flag_without_effect otherwise",
			"'its segment' in the index clause is the segment partition the decoder produced (checked separately by oracle 1)",
			"prft/free/uuid/unknown top-level boxes are outside Init/segments and documented to be dropped by segment-mode encode: oracle 2 compares ftyp/moov/emsg/moof/mdat only",
			"EPT is compared only when the reference track has a sample in the first fragment of the first segment and its presentation time is >= 0",
			"UpdateSidx returning an error is outside the property (counted)",
			"reshaped family: 'byte-identically' covers the decoded data_offset fields of every trun, whatever the number of truns/trafs and wherever the data lies in the mdat (filler bytes are legal: 8.8.8 only requires the offsets to point at the data); the mdat header form (8/16 bytes) is part of the fragment's bytes",
			"reshaped family: with several trafs of the reference track in one moof, 'the summed sample durations of the reference track in that segment' sums all of them, and the first presentation time (EPT clause) is that of the first sample of the first of them",
			"tfra traf_number/trun_number/sample_number are not re-pointed by the rewriter (the decoder uses moof_offset only)",
			"encboxes family: senc/saiz/saio in a traf whose sample entry is clear are legal unused boxes; byte-identical re-encoding covers them; with -removeEnc 'the media' is what the tool writes (the index clauses are checked on the output bytes); the per-segment sidx boxes of the input are not the index and may go stale",
			"lazy form of oracle 2: 'emits every fragment byte-identically' for a file decoded with DecModeLazyMdat covers what segment mode writes for it: the moof (with every trun data_offset) and the mdat header; the payload is documented to be written separately",
			"mutator histories: Fragment.AddEmsg on a decoded fragment is part of 'after UpdateSidx and encoding' (any File the public API leaves in a state UpdateSidx accepts); only segment-mode Encode is judged (box-tree mode writes File.Children, which the mutator does not touch); AddEmsg is documented for 'a sequence of emsg boxes at the start of the fragment': fragments with an emsg after the mdat are not mutated",
			"moovsamples family: samples in moov of a track other than the first next to movie fragments are legal (14496-12 8.8: fragments extend the movie); a file whose FIRST track has stts entries is by the library's definition not fragmented and is not generated; the chunk may share bytes with a fragment's samples",
			"stretched family: zero filler after the last sample byte of an mdat is legal; the written media of a lazily decoded file cannot be produced, so the index clauses are checked on the sidx box UpdateSidx filled (sizes against the input's segment extents, which segment mode reproduces when no prft/free/... box is dropped); a segment that no 31-bit referenced_size can hold must be refused with an error",
		},
		NumCases: func(env *runner.Env) int {
			if env.Tier == "thorough" {
				return 250000
			}
			return 5000
		},
		Run:        run,
		CaseCPUSec: 60,
	})
}

func options(idx int) genfrag.Options {
	o := genfrag.Options{Layouts: true, SmallTimes: true, MaxTracks: 3, MaxSegments: 6, MaxFragments: 4, MaxSamples: 6, EmsgOnly: true}
	switch idx % 8 {
	case 7:
		o.EmsgOnly = false
	case 6:
		o.Pure = true
	case 5:
		o.Pure = true
		o.NoExtra = true
	}
	return o
}

type layout struct {
	class     string // joined mechanisms, used in keys
	strong    string // "", or styp-all | topsidx | mfra1 | mfra2 | som | none
	hasEmsg   bool
	hasExtras bool
}

func classify(h *genfrag.History, b *genfrag.Built, flags mp4.DecFileFlags, reader string) layout {
	var l layout
	nStyp, segSidx := 0, false
	for _, s := range b.Segs {
		if s.Spec.Styp {
			nStyp++
		}
		if len(s.Sidx) > 0 {
			segSidx = true
		}
	}
	for _, p := range b.Pieces {
		if p.Type == "emsg" {
			l.hasEmsg = true
		}
		switch p.Role {
		case "pre", "post", "before", "tail":
			if p.Type != "emsg" {
				l.hasExtras = true
			}
		}
	}
	top := len(b.TopSidx) > 0
	mfraEff := 0
	if h.Layout.Mfra > 0 && flags&mp4.DecISMFlag != 0 && reader == "DecodeFile" {
		mfraEff = h.Layout.Mfra
	}
	som := flags&mp4.DecStartOnMoof != 0
	var parts []string
	switch {
	case nStyp == len(b.Segs) && nStyp > 0:
		parts = append(parts, "styp-all")
	case nStyp > 0:
		parts = append(parts, "styp-some")
	}
	if top {
		parts = append(parts, fmt.Sprintf("topsidx%d", len(b.TopSidx)))
	}
	if segSidx {
		parts = append(parts, "segsidx")
	}
	if mfraEff > 0 {
		parts = append(parts, fmt.Sprintf("mfra%d", mfraEff))
	}
	if som {
		parts = append(parts, "som")
	}
	if l.hasEmsg {
		parts = append(parts, "emsg")
	}
	if l.hasExtras {
		parts = append(parts, "extras")
	}
	if len(parts) == 0 {
		parts = []string{"none"}
	}
	l.class = strings.Join(parts, "+")
	mech := 0
	if nStyp > 0 {
		mech++
	}
	if top {
		mech++
	}
	if mfraEff > 0 {
		mech++
	}
	// "DecStartOnMoof starts a segment at each moof boundary. This is provided no styp, or
	// sidx/mfra box gives other information" (doc comment of the flag): a top-level sidx or
	// an mfra in force takes precedence, so the flag is then not a mechanism of its own.
	somEff := som && !top && mfraEff == 0
	if somEff {
		mech++
	}
	switch {
	case l.hasExtras:
	case mech == 0 && !segSidx:
		l.strong = "none"
	case mech == 1 && nStyp == len(b.Segs) && nStyp > 0:
		l.strong = "styp-all"
	case mech == 1 && top && !segSidx:
		l.strong = "topsidx"
	case mech == 1 && mfraEff > 0 && !segSidx:
		l.strong = fmt.Sprintf("mfra%d", mfraEff)
	case mech == 1 && somEff && !segSidx:
		l.strong = "som"
	}
	return l
}

type detail struct {
	History *genfrag.History `json:"history"`
	Flags   uint32           `json:"dec_flags"`
	Reader  string           `json:"reader"`
	What    string           `json:"what"`
	Pieces  []string         `json:"ground_truth_boxes,omitempty"`
	FileHex string           `json:"file_hex,omitempty"`
	// stretched family: the file is SmallHex (when small enough) with Holes zero runs inserted
	Holes []genfrag.Hole `json:"holes,omitempty"`
}

type env struct {
	c      *runner.Ctx
	h      *genfrag.History
	b      *genfrag.Built
	flags  mp4.DecFileFlags
	reader string
	lay    layout
	// sidxClass, when set (oracle 3), replaces the cause: number of top-level
	// sidx boxes and the largest number of sidx boxes in one segment as decoded
	sidxClass string
	// reshaped family: shape of every in-file fragment (nil for files as built) and the
	// fragments a finding is about (nil: the whole file)
	shapes   []genfrag.FragShape
	keyFrags []int
	// keyRefTrafs: the finding depends only on the number of trafs of the reference track (EPT)
	keyRefTrafs bool
	lazy        bool // DecodeFile with DecModeLazyMdat
	// fam names the family in finding keys ("" first/reshaped, "encboxes", "stretched")
	fam string
	// virt, when set, is the virtual multi-GiB file e.b describes (e.b.Bytes is nil)
	virt *genfrag.Stretched
	// segStartGT: ground-truth offset of the first box of each decoded segment (set by oracle1)
	segStartGT []int
	// removeEnc: the add-sidx tool runs with -removeEnc
	removeEnc bool
}

func (e *env) viol(key, what string) { e.violKey(key+"/"+e.cause(), what) }

// violKey reports under exactly the given key (no layout class appended).
func (e *env) violKey(key, what string) {
	d := detail{History: e.h, Flags: uint32(e.flags), Reader: e.reader, What: what}
	for _, p := range e.b.Pieces {
		d.Pieces = append(d.Pieces, fmt.Sprintf("%s@%d+%d %s seg%d frag%d", p.Type, p.Start, p.Size, p.Role, p.Seg, p.Frag))
	}
	if e.virt != nil {
		d.Holes = e.virt.Holes
		if len(e.virt.Small) <= 5000 {
			d.FileHex = fmt.Sprintf("%x", e.virt.Small)
		}
	} else if len(e.b.Bytes) <= 5000 {
		d.FileHex = fmt.Sprintf("%x", e.b.Bytes)
	}
	e.c.Violation(key, fmt.Sprintf("%s flags=%d layout %s: %s", e.reader, e.flags, e.lay.class, what), d)
}

// cause is the coarse layout class used in finding keys: decode flag and emsg
// presence (the strong-form keys carry their mechanism themselves).
func (e *env) cause() string {
	if e.fam != "" {
		return e.fam + "/" + e.cause0()
	}
	return e.cause0()
}

func (e *env) cause0() string {
	fl := map[mp4.DecFileFlags]string{0: "noflag", mp4.DecISMFlag: "ism", mp4.DecStartOnMoof: "som", mp4.DecISMFlag | mp4.DecStartOnMoof: "ism+som"}[e.flags]
	if e.shapes != nil && e.keyFrags != nil {
		// reshaped family, finding about particular fragments: their shape class
		if e.keyRefTrafs {
			n, ref := 0, e.h.RefTrack().ID
			for _, fi := range e.keyFrags {
				if fi >= 0 && fi < len(e.shapes) {
					for _, t := range e.shapes[fi].Trafs {
						if t.Track == ref {
							n++
						}
					}
				}
			}
			if n > 1 {
				return "reshaped-reftrafsN"
			}
			return "reshaped-reftrafs1"
		}
		return "reshaped-" + e.shapeClass(e.keyFrags)
	}
	pre := ""
	if e.shapes != nil {
		pre = "reshaped/"
	}
	if e.sidxClass != "" {
		return pre + e.sidxClass
	}
	if e.lay.hasEmsg {
		fl += "+emsg"
	}
	if e.lazy {
		fl += "+lazy"
	}
	return pre + fl
}

// shapeClass merges the shapes of the given in-file fragments into one class name.
func (e *env) shapeClass(frs []int) string {
	var m genfrag.FragShape
	for _, fi := range frs {
		if fi < 0 || fi >= len(e.shapes) || !e.shapes[fi].Rewritten {
			continue
		}
		s := e.shapes[fi]
		m.Rewritten = true
		if s.MaxTruns > m.MaxTruns {
			m.MaxTruns = s.MaxTruns
		}
		if s.MaxTrafsPerTrack > m.MaxTrafsPerTrack {
			m.MaxTrafsPerTrack = s.MaxTrafsPerTrack
		}
		m.Permuted = m.Permuted || s.Permuted
		m.Gapped = m.Gapped || s.Gapped
	}
	return m.Class()
}

func (e *env) decode() (f *mp4.File, err error, pi *runner.PanicInfo) {
	pi = e.c.Guard(func() {
		if e.virt != nil {
			f, err = mp4.DecodeFile(e.virt.Reader(), mp4.WithDecodeFlags(e.flags), mp4.WithDecodeMode(mp4.DecModeLazyMdat))
		} else if e.lazy {
			f, err = mp4.DecodeFile(bytes.NewReader(e.b.Bytes), mp4.WithDecodeFlags(e.flags), mp4.WithDecodeMode(mp4.DecModeLazyMdat))
		} else if e.reader == "DecodeFile" {
			f, err = mp4.DecodeFile(bytes.NewReader(e.b.Bytes), mp4.WithDecodeFlags(e.flags))
		} else {
			f, err = mp4.DecodeFileSR(bits.NewFixedSliceReader(e.b.Bytes), mp4.WithDecodeFlags(e.flags))
		}
	})
	return
}

func run(c *runner.Ctx, idx int) {
	h := genfrag.Generate(c.Rand, options(idx))
	var b *genfrag.Built
	var berr error
	if pi := c.Guard(func() { b, berr = genfrag.Build(h, genfrag.BuildOptions{Guard: c.Guard}) }); pi != nil {
		c.Inconclusive("generator panicked (C05 matter): " + pi.TopFrame)
		return
	}
	if berr != nil {
		c.Inconclusive("generator could not assemble the file (C05 matter)")
		return
	}
	if len(b.FragsInFile()) == 0 {
		c.Count("cases_without_fragment", 1)
		return
	}
	flags := mp4.DecFileFlags(c.Rand.PickInt(0, 0, int(mp4.DecISMFlag), int(mp4.DecStartOnMoof), int(mp4.DecISMFlag|mp4.DecStartOnMoof)))
	if h.Layout.Mfra > 0 && c.Rand.Chance(3, 4) {
		flags = mp4.DecISMFlag
		if c.Rand.Chance(1, 3) {
			flags |= mp4.DecStartOnMoof // combined flags: the mfra keeps precedence
		}
	}
	o3add, o3nz, tool := c.Rand.Chance(3, 4), c.Rand.Bool(), c.Rand.Chance(1, 4)
	decoded := runFile(c, h, b, fileOpts{flags: flags, o3add: o3add, o3nz: o3nz, tool: tool})
	if decoded && len(b.FragsInFile()) >= 2 {
		c.Nontrivial(runner.Hash64(b.Bytes, []byte{byte(flags)}))
	}
	if c.WantSample() {
		var ps []string
		for _, p := range b.Pieces {
			ps = append(ps, p.Type)
		}
		c.Sample(map[string]interface{}{"boxes": strings.Join(ps, " "), "dec_flags": flags, "tracks": len(h.Tracks), "bytes": len(b.Bytes)})
	}
	// second family: the same history, fragments rewritten on the byte level (all draws
	// come after those of the first family)
	nb, shapes := runReshaped(c, h, b, flags)
	// third family: sample-encryption boxes in the trafs of the built or the reshaped file
	// (all draws after those of the first two families)
	base, baseShapes := b, []genfrag.FragShape(nil)
	if nb != nil && c.Rand.Bool() {
		base, baseShapes = nb, shapes
	}
	runEncBoxes(c, h, base, baseShapes, flags)
	// fourth family: the built or the reshaped file stretched to several GiB
	base, baseShapes = b, nil
	if nb != nil && c.Rand.Bool() {
		base, baseShapes = nb, shapes
	}
	runStretched(c, h, base, baseShapes, flags)
	// fifth family: a track other than the first carries samples in moov (files with >= 2 tracks;
	// all draws after those of the other families)
	base, baseShapes = b, nil
	if nb != nil && c.Rand.Bool() {
		base, baseShapes = nb, shapes
	}
	runMoovSamples(c, h, base, baseShapes, flags)
}

// fileOpts are the per-file draws of runFile.
type fileOpts struct {
	shapes      []genfrag.FragShape // nil for a file as built
	flags       mp4.DecFileFlags
	o3add, o3nz bool
	tool        bool   // run the add-sidx binary too
	removeEnc   bool   // ... with -removeEnc
	fam         string // family name in finding keys
}

// runFile runs the readers and oracles on one file; shapes is nil for a file as built.
func runFile(c *runner.Ctx, h *genfrag.History, b *genfrag.Built, o fileOpts) (decoded bool) {
	shapes, flags, o3add, o3nz, tool := o.shapes, o.flags, o.o3add, o.o3nz, o.tool
	// lazy mdat decoding as one more decode path: always when some mdat has a 64-bit header
	large := false
	for _, p := range b.Pieces {
		if p.Type == "mdat" && p.Start+4 <= len(b.Bytes) && b.Bytes[p.Start+3] == 1 && b.Bytes[p.Start] == 0 && b.Bytes[p.Start+1] == 0 && b.Bytes[p.Start+2] == 0 {
			large = true
		}
	}
	lazy := large || c.Rand.Chance(1, 8)
	var partDF partition
	for _, reader := range []string{"DecodeFile", "DecodeFileSR", "DecodeFile-lazy"} {
		e := &env{c: c, h: h, b: b, flags: flags, reader: reader, shapes: shapes, fam: o.fam, removeEnc: o.removeEnc}
		if reader == "DecodeFile-lazy" {
			if !lazy {
				continue
			}
			e.reader, e.lazy = "DecodeFile", true
		}
		e.lay = classify(h, b, flags, e.reader)
		if !e.lazy {
			c.Seen("layout_class", e.lay.class)
			c.Seen("strong_form", reader+":"+orNone(e.lay.strong))
			if flags&mp4.DecISMFlag != 0 && h.Layout.Mfra > 0 && reader != "DecodeFile" {
				c.Count("ism_flag_without_effect", 1)
			}
		}
		f, err, pi := e.decode()
		if pi != nil {
			c.Violation(runner.PanicKey("decode-"+reader, pi), fmt.Sprintf("%s flags=%d panics on layout %s: %s", reader, flags, e.lay.class, pi.Value),
				detail{History: h, Flags: uint32(flags), Reader: reader, What: pi.Stack, FileHex: hexIfSmall(b.Bytes)})
			continue
		}
		if err != nil {
			e.viol("decode-error/"+reader, "decoding fails: "+err.Error())
			continue
		}
		decoded = true
		c.Evals(1)
		part, ok := e.oracle1(f)
		if !ok {
			continue
		}
		if e.lazy {
			// a lazily decoded mdat is written without payload: oracles 2 and 3 do not apply. The
			// partition and every StartPos were checked against the ground truth by oracle 1;
			// additionally the partition must be the one of the non-lazy decode.
			c.Seen("lazy_decode", fmt.Sprintf("large_mdat=%v strong=%s", large, orNone(e.lay.strong)))
			if partDF != nil && fmt.Sprint(partDF) != fmt.Sprint(part) {
				e.viol("grouping-lazy/partition-differs", fmt.Sprintf("lazy decode groups the fragments as %v, the non-lazy decode as %v", part, partDF))
			} else if partDF != nil {
				c.Count("lazy_partition_equals_nonlazy", 1)
			}
			// oracle 2 in the form a lazy decode allows: init, emsg and moof boxes byte-identical, mdat headers identical
			e.oracle2Lazy(f)
			// oracle 3 after public mutators (Fragment.AddEmsg) needs the payload: not here
			continue
		}
		if reader == "DecodeFile" {
			partDF = part
		}
		e.oracle2(f)
		// oracle 3 on a fresh decode (UpdateSidx mutates)
		f3, err, pi := e.decode()
		if err == nil && pi == nil {
			e.oracle3(f3, part, o3add, o3nz)
		}
		if tool && reader == "DecodeFile" && flags&mp4.DecISMFlag == 0 {
			e.addSidxTool(part, o3nz)
		}
		// oracle 3 on a history that goes on after decoding: public mutators, then UpdateSidx and Encode
		if c.Rand.Chance(1, 3) {
			if f4, err, pi := e.decode(); err == nil && pi == nil {
				e.oracle3AfterAddEmsg(f4, part, o3nz)
			}
		}
	}
	return decoded
}

func trafPattern(s genfrag.FragShape) string {
	letters := map[uint32]byte{}
	var out []byte
	for _, t := range s.Trafs {
		l, ok := letters[t.Track]
		if !ok {
			l = byte('A' + len(letters))
			letters[t.Track] = l
		}
		out = append(out, l)
	}
	return string(out)
}

// runReshaped is the second family: the fragments of the built file are rewritten
// byte by byte into equivalent legal shapes (gen/frag.Reshape) and the same readers
// and oracles run on the result.
func runReshaped(c *runner.Ctx, h *genfrag.History, b *genfrag.Built, flags mp4.DecFileFlags) (*genfrag.Built, []genfrag.FragShape) {
	r := c.Rand
	nb, shapes, err := genfrag.Reshape(b, r)
	if err != nil {
		c.Inconclusive("reshaped family: the rewritten file does not expand to the history's samples (generator matter): " + short(err.Error()))
		return nil, nil
	}
	if r.Chance(1, 3) {
		flags = mp4.DecFileFlags(r.PickInt(0, 0, int(mp4.DecISMFlag), int(mp4.DecStartOnMoof), int(mp4.DecISMFlag|mp4.DecStartOnMoof)))
	}
	o3add, o3nz, tool := r.Chance(7, 8), r.Bool(), r.Chance(1, 8)
	ref := h.RefTrack().ID
	rewritten := 0
	for _, s := range shapes {
		if !s.Rewritten {
			c.Count("reshaped_fragments_kept_as_built", 1)
			continue
		}
		rewritten++
		c.Count("reshaped_fragments_rewritten", 1)
		c.Seen("reshaped_frag_class", s.Class())
		lay := s.Layout()
		if s.LeadGap {
			lay += "+lead"
		}
		if s.TrailGap {
			lay += "+trail"
		}
		c.Seen("reshaped_data_layout", lay)
		c.Seen("reshaped_mdat_header_bytes", map[bool]string{false: "8", true: "16"}[s.LargeMdat])
		c.Seen("reshaped_traf_order", trafPattern(s))
		c.Seen("reshaped_runs_per_moof", fmt.Sprint(s.Runs))
		refTrafs := 0
		for _, t := range s.Trafs {
			c.Seen("reshaped_truns_per_traf", fmt.Sprint(t.Truns))
			if t.Part == 0 {
				c.Seen("reshaped_trafs_per_track_per_moof", fmt.Sprint(t.Parts))
			}
			for _, src := range t.Sources {
				c.Seen("reshaped_field_source", src)
			}
			c.Count("reshaped_truns_without_data_offset", int64(t.NoDataOffset))
			if t.Track == ref {
				refTrafs++
			}
		}
		if refTrafs > 1 {
			c.Count("reshaped_moofs_with_several_trafs_of_the_reference_track", 1)
		}
		if len(s.Trafs) == 1 && s.MaxTruns > 1 && (s.Permuted || s.Gapped || s.SizesFromDefaults) {
			c.Count("reshaped_single_traf_multi_trun_noncontiguous_or_default_sizes", 1)
		}
		if s.Runs == 1 && s.LeadGap {
			c.Count("reshaped_single_trun_with_lead_gap", 1)
		}
	}
	if rewritten == 0 {
		c.Count("reshaped_files_without_rewritten_fragment", 1)
		return nil, nil
	}
	decoded := runFile(c, h, nb, fileOpts{shapes: shapes, flags: flags, o3add: o3add, o3nz: o3nz, tool: tool})
	if decoded {
		c.Nontrivial(runner.Hash64(nb.Bytes, []byte{byte(flags), 'r'}))
	}
	if c.WantSample() {
		var ps []string
		for _, s := range shapes {
			ps = append(ps, fmt.Sprintf("%s[%s %s]", trafPattern(s), s.Class(), s.Layout()))
		}
		c.Sample(map[string]interface{}{"family": "reshaped", "fragments": strings.Join(ps, " "), "dec_flags": flags, "bytes": len(nb.Bytes)})
	}
	return nb, shapes
}

func orNone(s string) string {
	if s == "" {
		return "weak-only"
	}
	return s
}

func hexIfSmall(b []byte) string {
	if len(b) > 5000 {
		return ""
	}
	return fmt.Sprintf("%x", b)
}

// partition is the decoder's grouping expressed on the ground truth: for each
// decoded segment the in-file fragment indices it holds.
type partition [][]int

func (e *env) gtFragPieces() []genfrag.Piece {
	var out []genfrag.Piece
	for _, p := range e.b.Pieces {
		if p.Type == "emsg" || p.Type == "moof" || p.Type == "mdat" {
			out = append(out, p)
		}
	}
	return out
}

// oracle1 checks the grouping. It returns the decoder's partition when the
// weak form held (the later oracles need it).
func (e *env) oracle1(f *mp4.File) (partition, bool) {
	gt := e.gtFragPieces()
	var styps []genfrag.Piece
	for _, p := range e.b.Pieces {
		if p.Type == "styp" {
			styps = append(styps, p)
		}
	}
	if f.Init == nil || f.Init.Ftyp == nil || f.Init.Moov == nil {
		e.viol("grouping-weak/no-init", "decoded file has no Init with ftyp and moov")
		return nil, false
	}
	k := 0 // index into gt
	stypSeen := 0
	fragNo := -1 // running index of fragments-with-moof = in-file fragment index
	var part partition
	ok := true
	e.segStartGT = nil
	for si, seg := range f.Segments {
		var segFirst = -1
		var frs []int
		gtStart := -1
		if seg.Styp != nil {
			if stypSeen >= len(styps) {
				e.viol("grouping-weak/styp-count", fmt.Sprintf("segment %d has a styp but the file holds only %d", si, len(styps)))
				return nil, false
			}
			if int(seg.StartPos) != styps[stypSeen].Start {
				e.viol("grouping-weak/segment-startpos", fmt.Sprintf("segment %d starts with styp number %d at %d, StartPos says %d", si, stypSeen, styps[stypSeen].Start, seg.StartPos))
				ok = false
			}
			gtStart = styps[stypSeen].Start
			stypSeen++
		}
		for fi, fr := range seg.Fragments {
			nmoof, nmdat := 0, 0
			for ci, ch := range fr.Children {
				t := ch.Type()
				if k >= len(gt) {
					e.viol("grouping-weak/surplus-box", fmt.Sprintf("segment %d fragment %d child %d (%s): more fragment boxes than the file holds", si, fi, ci, t))
					return nil, false
				}
				g := gt[k]
				if g.Type != t || uint64(g.Size) != ch.Size() {
					e.viol("grouping-weak/order", fmt.Sprintf("segment %d fragment %d child %d is %s(%d bytes), the next emsg/moof/mdat of the file is %s(%d bytes) at %d", si, fi, ci, t, ch.Size(), g.Type, g.Size, g.Start))
					return nil, false
				}
				if ci == 0 {
					if int(fr.StartPos) != g.Start {
						e.viol("grouping-weak/fragment-startpos", fmt.Sprintf("segment %d fragment %d: first box %s at %d, Fragment.StartPos %d", si, fi, t, g.Start, fr.StartPos))
						ok = false
					}
					if fi == 0 {
						segFirst = g.Start
					}
				}
				switch t {
				case "moof":
					nmoof++
					if fr.Moof != ch.(*mp4.MoofBox) {
						e.viol("grouping-weak/moof-field", fmt.Sprintf("segment %d fragment %d: Fragment.Moof is not its moof child", si, fi))
						ok = false
					}
					if int(fr.Moof.StartPos) != g.Start {
						e.viol("grouping-weak/moof-startpos", fmt.Sprintf("moof at %d has StartPos %d", g.Start, fr.Moof.StartPos))
						ok = false
					}
				case "mdat":
					nmdat++
					if fr.Mdat != ch.(*mp4.MdatBox) {
						e.viol("grouping-weak/mdat-field", fmt.Sprintf("segment %d fragment %d: Fragment.Mdat is not its mdat child", si, fi))
						ok = false
					}
					if int(fr.Mdat.StartPos) != g.Start {
						e.viol("grouping-weak/mdat-startpos", fmt.Sprintf("mdat at %d has StartPos %d", g.Start, fr.Mdat.StartPos))
						ok = false
					}
					if ci == 0 || fr.Children[ci-1].Type() != "moof" {
						e.viol("grouping-weak/mdat-without-moof", fmt.Sprintf("segment %d fragment %d: mdat not directly after its moof", si, fi))
						ok = false
					}
				}
				k++
			}
			if nmoof != 1 || nmdat != 1 {
				e.viol("grouping-weak/fragment-without-moof-mdat-pair", fmt.Sprintf("segment %d fragment %d holds %d moof and %d mdat boxes (children: %s)", si, fi, nmoof, nmdat, childTypes(fr)))
				ok = false
			}
			if nmoof > 0 {
				fragNo += nmoof
				frs = append(frs, fragNo)
			}
		}
		if seg.Styp == nil {
			if segFirst < 0 {
				e.viol("grouping-weak/empty-segment", fmt.Sprintf("segment %d has neither styp nor fragment", si))
				ok = false
			} else if int(seg.StartPos) != segFirst {
				e.viol("grouping-weak/segment-startpos", fmt.Sprintf("segment %d: first box at %d, StartPos %d", si, segFirst, seg.StartPos))
				ok = false
			}
		}
		part = append(part, frs)
		if gtStart < 0 {
			gtStart = segFirst
		}
		e.segStartGT = append(e.segStartGT, gtStart)
	}
	if k != len(gt) {
		e.viol("grouping-weak/missing-box", fmt.Sprintf("%d of the %d emsg/moof/mdat boxes of the file are in no fragment (first missing: %s at %d)", len(gt)-k, len(gt), gt[k].Type, gt[k].Start))
		return nil, false
	}
	if stypSeen != len(styps) {
		e.viol("grouping-weak/styp-count", fmt.Sprintf("%d styp boxes in the file, %d segments with a styp", len(styps), stypSeen))
		ok = false
	}
	if !ok {
		return nil, false
	}
	e.c.Count("oracle1_weak_held", 1)
	// strong form
	if e.lay.strong != "" {
		frags := e.b.FragsInFile()
		idxOf := map[*genfrag.BuiltFrag]int{}
		for i, fr := range frags {
			idxOf[fr] = i
		}
		type exp struct {
			frags []int
			start int
		}
		var want []exp
		switch e.lay.strong {
		case "none":
			x := exp{start: frags[0].Lead}
			for i := range frags {
				x.frags = append(x.frags, i)
			}
			want = []exp{x}
		case "styp-all", "topsidx", "mfra1":
			for _, s := range e.b.Segs {
				x := exp{start: s.Start}
				if e.lay.strong == "mfra1" {
					// a tfra entry points at the moof: emsg boxes in front of it stay with the
					// fragment before (only the first segment, which always starts with the first
					// emsg/moof of the file, begins at its emsg)
					x.start = e.b.Frags[s.Frags[0]].Moof
					if len(want) == 0 {
						x.start = e.b.Frags[s.Frags[0]].Lead
					}
				}
				for _, gi := range s.Frags {
					x.frags = append(x.frags, idxOf[e.b.Frags[gi]])
				}
				want = append(want, x)
			}
		case "som", "mfra2":
			for i, fr := range frags {
				st := fr.Lead
				if e.lay.strong == "mfra2" && i > 0 {
					st = fr.Moof
				}
				want = append(want, exp{frags: []int{i}, start: st})
			}
		}
		good := len(want) == len(part)
		var why string
		if !good {
			why = fmt.Sprintf("%d segments decoded, the delimiters define %d", len(part), len(want))
		}
		for i := 0; good && i < len(want); i++ {
			if fmt.Sprint(want[i].frags) != fmt.Sprint(part[i]) {
				good, why = false, fmt.Sprintf("segment %d holds fragments %v, the delimiters put %v there", i, part[i], want[i].frags)
			} else if int(f.Segments[i].StartPos) != want[i].start {
				good, why = false, fmt.Sprintf("segment %d StartPos %d, its first byte is at %d", i, f.Segments[i].StartPos, want[i].start)
			}
		}
		if !good {
			e.viol("grouping-strong/"+e.lay.strong, why)
		} else {
			e.c.Count("oracle1_strong_held", 1)
		}
		if strings.HasPrefix(e.lay.strong, "mfra") || e.lay.strong == "topsidx" {
			// segment starts (not the first) whose delimiter points behind an emsg: the emsg in
			// front of a tfra-addressed moof, or the emsg a sidx reference starts with
			n := 0
			for i := 1; i < len(want); i++ {
				if fr := frags[want[i].frags[0]]; fr.Lead < fr.Moof {
					n++
				}
			}
			if n > 0 {
				e.c.Count("oracle1_strong_"+e.lay.strong+"_segment_starts_with_emsg_before_the_moof", int64(n))
				e.c.Count("oracle1_strong_"+e.lay.strong+"_files_with_emsg_at_a_later_segment_start", 1)
			}
		}
	}
	return part, true
}

// fragOrdinal maps a global fragment index (Piece.Frag) to its ordinal among the in-file fragments.
func (e *env) fragOrdinal(gi int) int {
	k := 0
	for i, f := range e.b.Frags {
		if i == gi {
			return k
		}
		if f.InFile {
			k++
		}
	}
	return -1
}

func childTypes(fr *mp4.Fragment) string {
	var t []string
	for _, c := range fr.Children {
		t = append(t, c.Type())
	}
	return strings.Join(t, ",")
}

func encodeFile(c *runner.Ctx, f *mp4.File, sw bool, hint int) (out []byte, err error, pi *runner.PanicInfo) {
	pi = c.Guard(func() {
		if sw {
			// a caller-owned, recycled (not zero-filled) destination, as NewFixedSliceWriterFromSlice allows
			store := make([]byte, hint+4096)
			for i := range store {
				store[i] = 0xA5
			}
			w := bits.NewFixedSliceWriterFromSlice(store)
			err = f.EncodeSW(w)
			out = w.Bytes()
		} else {
			var buf bytes.Buffer
			err = f.Encode(&buf)
			out = buf.Bytes()
		}
	})
	return
}

var kept = map[string]bool{"ftyp": true, "moov": true, "emsg": true, "moof": true, "mdat": true}

// oracle2: default segment-mode re-encode keeps init and fragment boxes.
func (e *env) oracle2(f *mp4.File) {
	in := e.b.Bytes
	for _, sw := range []bool{false, true} {
		name := "Encode"
		if sw {
			name = "EncodeSW"
		}
		out, err, pi := encodeFile(e.c, f, sw, len(in))
		if pi != nil {
			e.c.Violation(runner.PanicKey("reencode-"+name, pi), "segment-mode "+name+" panics: "+pi.Value,
				detail{History: e.h, Flags: uint32(e.flags), Reader: e.reader, What: pi.Stack})
			continue
		}
		if err != nil {
			e.viol("reencode/"+name+"-error", "segment-mode "+name+" of the decoded file fails: "+err.Error())
			continue
		}
		nodes, werr := boxwalk.Walk(out)
		if werr != nil {
			e.viol("reencode/"+name+"-not-tiling", "output does not tile into boxes: "+werr.Error())
			continue
		}
		var a []genfrag.Piece
		for _, p := range e.b.Pieces {
			if kept[p.Type] {
				a = append(a, p)
			}
		}
		var bn []*boxwalk.Node
		for _, n := range nodes {
			if kept[n.Type] {
				bn = append(bn, n)
			}
		}
		bad, badAt := "", 0
		for i := 0; i < len(a) || i < len(bn); i++ {
			badAt = i
			switch {
			case i >= len(bn):
				bad = fmt.Sprintf("%s at input offset %d is missing from the output", a[i].Type, a[i].Start)
			case i >= len(a):
				bad = fmt.Sprintf("surplus %s at output offset %d", bn[i].Type, bn[i].Start)
			case a[i].Type != bn[i].Type:
				bad = fmt.Sprintf("box %d of the kept sequence: input %s at %d, output %s at %d", i, a[i].Type, a[i].Start, bn[i].Type, bn[i].Start)
			case !bytes.Equal(in[a[i].Start:a[i].End()], bn[i].Bytes(out)):
				bad = fmt.Sprintf("%s at input offset %d differs in the output (offset %d)", a[i].Type, a[i].Start, bn[i].Start)
			}
			if bad != "" {
				break
			}
		}
		if bad != "" {
			if e.shapes != nil && badAt < len(a) && a[badAt].Frag >= 0 {
				e.keyFrags = []int{e.fragOrdinal(a[badAt].Frag)}
			}
			e.viol("reencode/"+name+"-differs", bad)
			e.keyFrags = nil
			continue
		}
		e.c.Count("oracle2_held", 1)
		// observation, not a verdict: which other boxes the segment mode dropped
		cnt := map[string]int{}
		for _, p := range e.b.Pieces {
			cnt[p.Type]++
		}
		for _, n := range nodes {
			cnt[n.Type]--
		}
		for t, n := range cnt {
			if n > 0 && !kept[t] {
				e.c.Count("segment_mode_dropped:"+t, int64(n))
			}
		}
	}
}

// lazyBox is one top-level box of a segment-mode output of a lazily decoded file: an mdat
// is written as its header only (the declared size covers the payload that is not there).
type lazyBox struct {
	Type       string
	Start, Len int // bytes present in the output
}

// walkLazy tiles such an output: every box by its size field, an mdat by its header length.
func walkLazy(out []byte) ([]lazyBox, error) {
	var bs []lazyBox
	pos := 0
	for pos < len(out) {
		if pos+8 > len(out) {
			return nil, fmt.Errorf("truncated box header at %d", pos)
		}
		size := int(uint32(out[pos])<<24 | uint32(out[pos+1])<<16 | uint32(out[pos+2])<<8 | uint32(out[pos+3]))
		typ := string(out[pos+4 : pos+8])
		hdr := 8
		if size == 1 {
			if pos+16 > len(out) {
				return nil, fmt.Errorf("truncated 64-bit box header at %d", pos)
			}
			var v uint64
			for _, c := range out[pos+8 : pos+16] {
				v = v<<8 | uint64(c)
			}
			if v > 1<<40 {
				return nil, fmt.Errorf("box %s at %d declares %d bytes", typ, pos, v)
			}
			size, hdr = int(v), 16
		}
		n := size
		if typ == "mdat" {
			n = hdr
		}
		if n < hdr || pos+n > len(out) {
			return nil, fmt.Errorf("box %s at %d with size %d does not fit the %d bytes written", typ, pos, size, len(out))
		}
		bs = append(bs, lazyBox{typ, pos, n})
		pos += n
	}
	return bs, nil
}

// oracle2Lazy is oracle 2 for a file decoded with DecModeLazyMdat: segment-mode Encode and
// EncodeSW write every mdat as its header only, so ftyp, moov, emsg and moof are compared
// byte by byte with the input and every mdat by its header (size field and header form).
func (e *env) oracle2Lazy(f *mp4.File) {
	in := e.b.Bytes
	leadGap := false
	for _, s := range e.shapes {
		if s.Rewritten && s.Runs == 1 && s.LeadGap {
			leadGap = true
		}
	}
	for _, sw := range []bool{false, true} {
		name := "Encode"
		if sw {
			name = "EncodeSW"
		}
		out, err, pi := encodeFile(e.c, f, sw, len(in))
		if pi != nil {
			e.c.Violation(runner.PanicKey("reencode-lazy-"+name, pi), "segment-mode "+name+" of the lazily decoded file panics: "+pi.Value,
				detail{History: e.h, Flags: uint32(e.flags), Reader: e.reader, What: pi.Stack})
			continue
		}
		if err != nil {
			e.viol("reencode-lazy/"+name+"-error", "segment-mode "+name+" of the lazily decoded file fails: "+err.Error())
			continue
		}
		obs, werr := walkLazy(out)
		if werr != nil {
			e.viol("reencode-lazy/"+name+"-not-tiling", "output does not tile into boxes and mdat headers: "+werr.Error())
			continue
		}
		var a []genfrag.Piece
		for _, p := range e.b.Pieces {
			if kept[p.Type] {
				a = append(a, p)
			}
		}
		var bn []lazyBox
		for _, n := range obs {
			if kept[n.Type] {
				bn = append(bn, n)
			}
		}
		bad, badAt := "", 0
		for i := 0; i < len(a) || i < len(bn); i++ {
			badAt = i
			switch {
			case i >= len(bn):
				bad = fmt.Sprintf("%s at input offset %d is missing from the output", a[i].Type, a[i].Start)
			case i >= len(a):
				bad = fmt.Sprintf("surplus %s at output offset %d", bn[i].Type, bn[i].Start)
			case a[i].Type != bn[i].Type:
				bad = fmt.Sprintf("box %d of the kept sequence: input %s at %d, output %s at %d", i, a[i].Type, a[i].Start, bn[i].Type, bn[i].Start)
			default:
				want := in[a[i].Start:a[i].End()]
				if a[i].Type == "mdat" {
					hl := 8
					if len(want) >= 16 && want[0] == 0 && want[1] == 0 && want[2] == 0 && want[3] == 1 {
						hl = 16
					}
					if a[i].Size == hl {
						hl = a[i].Size // empty payload: the whole box is there
					}
					want = want[:hl]
				}
				if !bytes.Equal(want, out[bn[i].Start:bn[i].Start+bn[i].Len]) {
					bad = fmt.Sprintf("%s at input offset %d differs in the output of the lazily decoded file (offset %d)", a[i].Type, a[i].Start, bn[i].Start)
				}
			}
			if bad != "" {
				break
			}
		}
		if bad != "" {
			if e.shapes != nil && badAt < len(a) && a[badAt].Frag >= 0 {
				e.keyFrags = []int{e.fragOrdinal(a[badAt].Frag)}
			}
			e.viol("reencode-lazy/"+name+"-differs", bad)
			e.keyFrags = nil
			continue
		}
		e.c.Count("oracle2_lazy_held", 1)
		if leadGap {
			e.c.Count("oracle2_lazy_held_on_files_with_single_trun_lead_gap", 1)
		}
	}
}

// segFirstBytes computes, from the output bytes alone plus the decoder's
// partition (number of boxes per segment), the first byte of each segment and
// the end of the media in a segment-mode output.
func segBoxCounts(f *mp4.File) (lead int, per []int) {
	lead = len(f.Sidxs)
	for _, s := range f.Segments {
		n := len(s.Sidxs)
		if s.Styp != nil {
			n++
		}
		for _, fr := range s.Fragments {
			n += len(fr.Children)
		}
		per = append(per, n)
	}
	return
}

func (e *env) checkIndex(tag string, out []byte, f *mp4.File, part partition, hadTopSidx, add, nz bool) {
	nodes, err := boxwalk.Walk(out)
	if err != nil {
		e.viol("sidx/"+tag+"/not-tiling", "output does not tile: "+err.Error())
		return
	}
	// locate: ftyp moov [sidx...] segments... [mfra]
	i := 0
	for i < len(nodes) && (nodes[i].Type == "ftyp" || nodes[i].Type == "moov") {
		i++
	}
	lead, per := segBoxCounts(f)
	maxSeg := 0
	for _, sg := range f.Segments {
		if len(sg.Sidxs) > maxSeg {
			maxSeg = len(sg.Sidxs)
		}
	}
	few := func(n int) string {
		if n > 1 {
			return "N"
		}
		return fmt.Sprint(n)
	}
	e.sidxClass = "topsidx" + few(lead) + "-segsidx" + few(maxSeg)
	if lead > 1 {
		e.sidxClass = "topsidxN"
	}
	defer func() { e.sidxClass = "" }()
	e.c.Seen("oracle3_class", tag+":"+e.sidxClass)
	if !hadTopSidx && !add {
		if lead != 0 {
			e.viol("sidx/"+tag+"/added-although-not-asked", "UpdateSidx(addIfNotExists=false) on a file without top-level sidx produced one")
		}
		e.c.Count("oracle3_nothing_to_do", 1)
		return
	}
	if lead == 0 {
		e.viol("sidx/"+tag+"/missing", "File.Sidxs is empty after UpdateSidx")
		return
	}
	var sidxNodes []*boxwalk.Node
	for k := 0; k < lead; k++ {
		if i >= len(nodes) || nodes[i].Type != "sidx" {
			e.viol("sidx/"+tag+"/top-sidx-count", fmt.Sprintf("File.Sidxs holds %d boxes but box %d after the init in the output is not a sidx", lead, k))
			return
		}
		sidxNodes = append(sidxNodes, nodes[i])
		i++
	}
	var segStart []int
	pos := i
	for _, n := range per {
		if n == 0 || pos >= len(nodes) {
			e.viol("sidx/"+tag+"/segment-without-box", "a decoded segment contributes no box to the output")
			return
		}
		segStart = append(segStart, nodes[pos].Start)
		pos += n
	}
	mediaEnd := len(out)
	if pos < len(nodes) {
		if nodes[pos].Type != "mfra" || pos != len(nodes)-1 {
			e.viol("sidx/"+tag+"/unexpected-trailing-box", fmt.Sprintf("box %s after the last segment", nodes[pos].Type))
			return
		}
		mediaEnd = nodes[pos].Start
	} else if pos > len(nodes) {
		e.viol("sidx/"+tag+"/box-count", "fewer boxes in the output than the decoded segments hold")
		return
	}
	sx, err := reffrag.ParseSidxNode(out, sidxNodes[0])
	if err != nil {
		e.viol("sidx/"+tag+"/unparsable", err.Error())
		return
	}
	if len(sx.Refs) != len(per) {
		e.viol("sidx/"+tag+"/reference-count", fmt.Sprintf("%d references, %d segments", len(sx.Refs), len(per)))
		return
	}
	for k, r := range sx.Refs {
		if r.Type != 0 {
			e.viol("sidx/"+tag+"/reference-type", fmt.Sprintf("reference %d has reference_type 1", k))
			return
		}
	}
	at := sx.Anchor()
	if at != uint64(segStart[0]) {
		e.viol("sidx/"+tag+"/anchor", fmt.Sprintf("end of sidx (%d) + first_offset (%d) = %d, the first segment starts at %d", sx.End, sx.FirstOffset, at, segStart[0]))
		return
	}
	for k, r := range sx.Refs {
		if at != uint64(segStart[k]) {
			e.viol("sidx/"+tag+"/reference-start", fmt.Sprintf("reference %d starts at %d, segment %d starts at %d (referenced sizes so far do not add up)", k, at, k, segStart[k]))
			return
		}
		at += uint64(r.Size)
	}
	if at != uint64(mediaEnd) {
		e.viol("sidx/"+tag+"/media-end", fmt.Sprintf("the last reference ends at %d, the media ends at %d", at, mediaEnd))
		return
	}
	if e.checkTimes(tag, sx, part, nz, out) {
		e.c.Count("oracle3_held:"+tag, 1)
	}
}

// checkTimes is the time half of the index clause: timescale, one duration per
// reference (= the summed sample durations of the reference track in that
// segment, from the history) and the earliest presentation time. out, when not
// nil, is the encoded output the index was read from: the durations are then
// cross-checked against ref/frag's expansion of the referenced byte ranges.
func (e *env) checkTimes(tag string, sx reffrag.Sidx, part partition, nz bool, out []byte) bool {
	// durations and timescale of the reference track (ground truth)
	ref := e.h.RefTrack()
	frags := e.b.FragsInFile()
	if sx.Timescale != ref.Timescale {
		e.viol("sidx/"+tag+"/timescale", fmt.Sprintf("timescale %d, reference track %d has %d", sx.Timescale, ref.ID, ref.Timescale))
		return false
	}
	// second ground truth: the independent expansion of the output bytes inside each referenced byte range
	var exp *reffrag.File
	xerr := fmt.Errorf("no output bytes")
	if out != nil {
		exp, xerr = reffrag.ExpandFile(out, nil)
		if xerr == nil && (exp.Init == nil || exp.Init.ReferenceTrack() == nil || exp.Init.ReferenceTrack().ID != ref.ID) {
			e.c.Inconclusive("oracle 3: the reference reader picks another reference track than the history")
			return false
		}
		if xerr != nil {
			e.c.Count("oracle3_output_not_expandable_by_reference_reader", 1)
		}
	}
	at := sx.Anchor()
	for k, r := range sx.Refs {
		var d uint64
		for _, fi := range part[k] {
			for _, s := range frags[fi].Spec.Samples()[ref.ID] {
				d += uint64(s.Dur)
			}
		}
		lo, hi := at, at+uint64(r.Size)
		at = hi
		if xerr == nil {
			var dx uint64
			for _, m := range exp.Moofs {
				if uint64(m.Start) >= lo && uint64(m.Start) < hi {
					dx += m.TrackDuration(ref.ID)
				}
			}
			if dx != d {
				e.c.Inconclusive(fmt.Sprintf("oracle 3: history and reference reader disagree on the duration of segment %d", k))
				return false
			}
			e.c.Count("oracle3_duration_ground_truths_agree", 1)
		}
		if d > 0xffffffff {
			e.c.Count("oracle3_duration_exceeds_32_bits", 1)
			continue
		}
		if uint64(r.Duration) != d {
			e.keyFrags = part[k]
			e.viol("sidx/"+tag+"/duration", fmt.Sprintf("reference %d: subsegment_duration %d, the samples of track %d in that segment sum to %d", k, r.Duration, ref.ID, d))
			e.keyFrags = nil
			return false
		}
	}
	// EPT
	if len(part) > 0 && len(part[0]) > 0 {
		ss := frags[part[0][0]].Spec.Samples()[ref.ID]
		switch {
		case !nz:
			if sx.EarliestPresentationTime != 0 {
				e.viol("sidx/"+tag+"/ept", fmt.Sprintf("earliest_presentation_time %d although zero was asked for", sx.EarliestPresentationTime))
				return false
			}
		case len(ss) == 0 || int64(ss[0].DecodeTime)+int64(ss[0].Cto) < 0:
			e.c.Count("oracle3_ept_not_compared", 1)
		default:
			if want := uint64(int64(ss[0].DecodeTime) + int64(ss[0].Cto)); sx.EarliestPresentationTime != want {
				e.keyFrags, e.keyRefTrafs = part[0][:1], true
				e.viol("sidx/"+tag+"/ept", fmt.Sprintf("earliest_presentation_time %d, first presentation time of track %d is %d", sx.EarliestPresentationTime, ref.ID, want))
				e.keyFrags, e.keyRefTrafs = nil, false
				return false
			}
		}
	}
	return true
}

func (e *env) oracle3(f *mp4.File, part partition, add, nz bool) {
	had := f.Sidx != nil
	var uerr error
	if pi := e.c.Guard(func() { uerr = f.UpdateSidx(add, nz) }); pi != nil {
		e.c.Violation(runner.PanicKey("updatesidx", pi), "UpdateSidx panics: "+pi.Value,
			detail{History: e.h, Flags: uint32(e.flags), Reader: e.reader, What: pi.Stack})
		return
	}
	e.c.Seen("updatesidx_call", fmt.Sprintf("existing=%v add=%v nonZeroEPT=%v", had, add, nz))
	if uerr != nil {
		e.c.Seen("updatesidx_error", short(uerr.Error()))
		return
	}
	out, err, pi := encodeFile(e.c, f, false, len(e.b.Bytes))
	if pi != nil || err != nil {
		// already reported by oracle 2 for the same structure unless UpdateSidx broke it
		e.c.Count("oracle3_encode_failed", 1)
		return
	}
	e.checkIndex("UpdateSidx", out, f, part, had, add, nz)
	// the same file written in box-tree mode (File.Children as they are, with the
	// sidx UpdateSidx inserted): comparable when the top level holds nothing but
	// what segment mode writes too, so that both outputs have the same layout
	for _, ch := range f.Children {
		switch ch.Type() {
		case "ftyp", "moov", "styp", "sidx", "emsg", "moof", "mdat", "mfra":
		default:
			e.c.Count("oracle3_boxtree_not_comparable", 1)
			return
		}
	}
	// a sidx after the first moof that no styp introduces is attached by the decoder to the
	// segment already running (segment mode then writes it before that segment's first
	// fragment): the box order of the two modes differs there by construction
	if ns, werr := boxwalk.Walk(e.b.Bytes); werr == nil {
		seenMoof, styp := false, false
		for _, n := range ns {
			switch n.Type {
			case "moof":
				seenMoof = true
			case "mdat":
				styp = false
			case "styp":
				styp = true
			case "sidx":
				if seenMoof && !styp {
					e.c.Count("oracle3_boxtree_not_comparable", 1)
					return
				}
			}
		}
	}
	f.FragEncMode = mp4.EncModeBoxTree
	outBT, err, pi := encodeFile(e.c, f, false, len(e.b.Bytes))
	f.FragEncMode = mp4.EncModeSegment
	if pi != nil {
		e.c.Violation(runner.PanicKey("updatesidx-boxtree-encode", pi), "box-tree Encode after UpdateSidx panics: "+pi.Value,
			detail{History: e.h, Flags: uint32(e.flags), Reader: e.reader, What: pi.Stack})
		return
	}
	if err != nil {
		e.c.Count("oracle3_boxtree_encode_failed", 1)
		return
	}
	if bytes.Equal(outBT, out) {
		e.c.Count("oracle3_boxtree_equals_segment_mode", 1)
		return
	}
	e.checkIndex("UpdateSidx-boxtree", outBT, f, part, had, add, nz)
}

// oracle3AfterAddEmsg continues the history on the decoded file with the public mutator
// Fragment.AddEmsg (1..2 new emsg boxes on a drawn, non-empty set of fragments: first or later
// fragments of their segments, with or without emsg boxes already there), then UpdateSidx and
// segment-mode Encode: the index clauses are judged on the written bytes (the first byte of a
// segment is the first box segment mode writes for it, the new emsg included; box counts per
// segment come from Fragment.Children, positions from the output).
func (e *env) oracle3AfterAddEmsg(f *mp4.File, part partition, nz bool) {
	r := e.c.Rand
	type at struct{ si, fi int }
	var all, picked []at
	for si, seg := range f.Segments {
		for fi, fr := range seg.Fragments {
			// AddEmsg is specified for 'a sequence of emsg boxes at the start of the fragment': a fragment
			// that holds an emsg after its moof/mdat (the decoder keeps the emsg boxes in front of a
			// tfra-addressed moof with the fragment before) is outside that and left alone (the call
			// panics there when the emsg is the last child: reported apart, not a matter of this property)
			lead, trailing := true, false
			for _, ch := range fr.Children {
				if ch.Type() != "emsg" {
					lead = false
				} else if !lead {
					trailing = true
				}
			}
			if trailing {
				e.c.Count("addemsg_fragments_with_trailing_emsg_left_alone", 1)
				continue
			}
			all = append(all, at{si, fi})
			if r.Chance(1, 3) {
				picked = append(picked, at{si, fi})
			}
		}
	}
	if len(all) == 0 {
		return
	}
	if len(picked) == 0 {
		picked = []at{all[r.Intn(len(all))]}
	}
	added := 0
	pi := e.c.Guard(func() {
		for _, p := range picked {
			fr := f.Segments[p.si].Fragments[p.fi]
			where := "later-fragment"
			if p.fi == 0 {
				where = "first-fragment-of-segment"
				if f.Segments[p.si].Styp != nil {
					where += "-after-styp"
				}
			}
			has := "no-emsg-before"
			if len(fr.Children) > 0 && fr.Children[0].Type() == "emsg" {
				has = "emsg-before"
			}
			n := 1 + r.Intn(2)
			for k := 0; k < n; k++ {
				em := &mp4.EmsgBox{Version: byte(r.Intn(2)), TimeScale: 1000, EventDuration: uint32(r.Intn(5000)), ID: uint32(1000 + added),
					SchemeIDURI: "urn:verif:added", Value: fmt.Sprint(r.Intn(100)), MessageData: make([]byte, r.Intn(40))}
				if em.Version == 1 {
					em.PresentationTime = uint64(r.Intn(100000))
				} else {
					em.PresentationTimeDelta = uint32(r.Intn(100000))
				}
				fr.AddEmsg(em)
				added++
			}
			e.c.Seen("addemsg_mutation_site", where+"/"+has)
		}
	})
	if pi != nil {
		e.c.Violation(runner.PanicKey("addemsg", pi), "Fragment.AddEmsg panics: "+pi.Value,
			detail{History: e.h, Flags: uint32(e.flags), Reader: e.reader, What: pi.Stack})
		return
	}
	had := f.Sidx != nil
	var uerr error
	if pi := e.c.Guard(func() { uerr = f.UpdateSidx(true, nz) }); pi != nil {
		e.c.Violation(runner.PanicKey("updatesidx-after-addemsg", pi), "UpdateSidx after Fragment.AddEmsg panics: "+pi.Value,
			detail{History: e.h, Flags: uint32(e.flags), Reader: e.reader, What: pi.Stack})
		return
	}
	if uerr != nil {
		e.c.Seen("updatesidx_error", short(uerr.Error()))
		return
	}
	out, err, pi := encodeFile(e.c, f, false, len(e.b.Bytes)+added*200)
	if pi != nil || err != nil {
		e.c.Count("oracle3_after_addemsg_encode_failed", 1)
		return
	}
	e.c.Count("oracle3_after_addemsg_runs", 1)
	e.c.Count("oracle3_after_addemsg_boxes_added", int64(added))
	// observation: the new boxes are in the output (the index check below would misalign otherwise)
	if nodes, werr := boxwalk.Walk(out); werr == nil {
		n := 0
		for _, nd := range nodes {
			if nd.Type == "emsg" {
				n++
			}
		}
		for _, p := range e.b.Pieces {
			if p.Type == "emsg" {
				n--
			}
		}
		if n == added {
			e.c.Count("oracle3_after_addemsg_all_new_boxes_written", 1)
		} else {
			e.c.Count("oracle3_after_addemsg_new_boxes_missing_in_output", 1)
		}
	}
	e.checkIndex("UpdateSidx-after-AddEmsg", out, f, part, had, true, nz)
}

func short(s string) string {
	for i, r := range s {
		if r >= '0' && r <= '9' {
			return s[:i]
		}
	}
	if len(s) > 60 {
		return s[:60]
	}
	return s
}

func (e *env) addSidxTool(part partition, nz bool) {
	bin := filepath.Join(e.c.Env.BinDir, "tools", "add-sidx")
	if _, err := os.Stat(bin); err != nil {
		e.c.Inconclusive("add-sidx binary not built")
		return
	}
	som := e.flags&mp4.DecStartOnMoof != 0
	in := filepath.Join(e.c.Env.Scratch, "in.mp4")
	outp := filepath.Join(e.c.Env.Scratch, "out.mp4")
	_ = os.Remove(outp)
	if err := os.WriteFile(in, e.b.Bytes, 0o644); err != nil {
		e.c.Inconclusive("scratch write failed")
		return
	}
	var args []string
	if nz {
		args = append(args, "-nzEPT")
	}
	if som {
		args = append(args, "-startSegOnMoof")
	}
	tag := "add-sidx-tool"
	if e.removeEnc {
		args = append(args, "-removeEnc")
		tag = "add-sidx-tool-removeEnc"
	}
	e.c.Seen("add_sidx_tool_args", strings.Join(args, " "))
	args = append(args, in, outp)
	cmd := exec.Command(bin, args...)
	var stderr bytes.Buffer
	cmd.Stderr = &stderr
	rerr := cmd.Run()
	// the in-process twin of what the tool does
	f, derr, pi := e.decode()
	if pi != nil || derr != nil {
		return
	}
	had := f.Sidx != nil
	var uerr error
	if pi := e.c.Guard(func() { uerr = f.UpdateSidx(true, nz) }); pi != nil {
		return
	}
	if _, isExit := rerr.(*exec.ExitError); rerr != nil && !isExit {
		e.c.Inconclusive("add-sidx binary could not be started")
		return
	}
	if rerr != nil {
		if strings.Contains(stderr.String(), "goroutine ") || strings.Contains(stderr.String(), "panic:") {
			e.viol("sidx/"+tag+"/crash", "add-sidx crashed: "+short(stderr.String()))
			return
		}
		if uerr == nil {
			if _, err, _ := encodeFile(e.c, f, false, len(e.b.Bytes)); err == nil {
				e.viol("sidx/"+tag+"/exit", "add-sidx fails although the same library calls succeed in process: "+strings.TrimSpace(stderr.String()))
				return
			}
		}
		e.c.Seen("add_sidx_tool_error", short(strings.TrimSpace(stderr.String())))
		return
	}
	out, err := os.ReadFile(outp)
	if err != nil {
		e.c.Inconclusive("add-sidx output unreadable")
		return
	}
	e.c.Count("add_sidx_tool_runs", 1)
	if e.removeEnc {
		e.observeRemoveEnc(out)
	}
	e.checkIndex(tag, out, f, part, had, true, nz)
}
