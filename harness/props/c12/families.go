package c12

import (
	"bytes"
	"fmt"
	"strings"

	"github.com/Eyevinn/mp4ff/mp4"

	genfrag "verifharness/gen/frag"
	"verifharness/ref/boxwalk"
	reffrag "verifharness/ref/frag"
	"verifharness/runner"
)

// runEncBoxes is the third family: senc/saiz/saio boxes (clear sample entries:
// the boxes are unused) inserted into the trafs of base; all readers and
// oracles run on it and the add-sidx binary is run with -removeEnc.
func runEncBoxes(c *runner.Ctx, h *genfrag.History, base *genfrag.Built, shapes []genfrag.FragShape, flags mp4.DecFileFlags) {
	r := c.Rand
	eb, es, err := genfrag.AddEncBoxes(base, r)
	if err != nil {
		c.Inconclusive("encboxes family: the file with inserted boxes does not expand to the history's samples (generator matter): " + short(err.Error()))
		return
	}
	// the tool cannot be given DecISMFlag: most files of this family are decoded without it
	flags = mp4.DecFileFlags(r.PickInt(int(flags&mp4.DecStartOnMoof), 0, int(mp4.DecStartOnMoof), int(flags)))
	o := fileOpts{shapes: shapes, flags: flags, o3add: r.Chance(7, 8), o3nz: r.Bool(), tool: r.Chance(3, 5), removeEnc: r.Chance(3, 4), fam: "encboxes"}
	nfr, ntr := 0, 0
	for _, s := range es {
		if s.Trafs == 0 {
			continue
		}
		nfr++
		ntr += s.Trafs
		for _, k := range s.Kinds {
			c.Seen("encboxes_traf_kind", k)
		}
	}
	if nfr == 0 {
		c.Count("encboxes_files_without_inserted_box", 1)
		return
	}
	c.Count("encboxes_files", 1)
	c.Count("encboxes_fragments_with_boxes", int64(nfr))
	c.Count("encboxes_trafs_with_boxes", int64(ntr))
	c.Seen("encboxes_base", map[bool]string{false: "as-built", true: "reshaped"}[shapes != nil])
	if runFile(c, h, eb, o) {
		c.Nontrivial(runner.Hash64(eb.Bytes, []byte{byte(flags), 'e'}))
	}
	if c.WantSample() {
		var ks []string
		for _, s := range es {
			ks = append(ks, strings.Join(s.Kinds, ","))
		}
		c.Sample(map[string]interface{}{"family": "encboxes", "trafs": strings.Join(ks, " | "), "dec_flags": flags, "bytes": len(eb.Bytes), "tool": o.tool, "removeEnc": o.removeEnc})
	}
}

var encTypes = map[string]bool{"senc": true, "saiz": true, "saio": true}

// observeRemoveEnc records what -removeEnc did to the output (observations, not verdicts:
// the property is about the index, which checkIndex judges on the same bytes).
func (e *env) observeRemoveEnc(out []byte) {
	count := func(b []byte) (boxes, moofBytes int, ok bool) {
		nodes, err := boxwalk.Walk(b)
		if err != nil {
			return 0, 0, false
		}
		for _, n := range nodes {
			if n.Type != "moof" {
				continue
			}
			moofBytes += n.Size
			for _, t := range n.Children {
				if t.Type != "traf" {
					continue
				}
				for _, ch := range t.Children {
					if encTypes[ch.Type] || ch.Type == "uuid" {
						boxes++
					}
				}
			}
		}
		return boxes, moofBytes, true
	}
	bi, mi, ok1 := count(e.b.Bytes)
	bo, mo, ok2 := count(out)
	if !ok1 || !ok2 {
		return
	}
	if bi > 0 {
		e.c.Count("add_sidx_removeenc_runs_on_input_with_enc_boxes", 1)
	}
	if mo < mi {
		e.c.Count("add_sidx_removeenc_runs_where_the_moofs_shrank", 1)
		e.c.Count("add_sidx_removeenc_bytes_removed", int64(mi-mo))
	}
	if bo > 0 {
		e.c.Count("add_sidx_removeenc_output_still_holds_enc_boxes", 1)
	}
	// are the samples still where the truns say? (the tool adjusts the data offsets)
	nb := *e.b
	nb.Bytes = out
	if exp, err := reffrag.ExpandFile(out, nil); err == nil && len(exp.Moofs) == len(e.b.FragsInFile()) {
		okAll := true
		for i, f := range e.b.FragsInFile() {
			for id, want := range f.Spec.Samples() {
				got := exp.Moofs[i].TrackSamples(id)
				if len(got) != len(want) {
					okAll = false
					continue
				}
				for k := range want {
					if !bytes.Equal(got[k].Data, want[k].Data()) {
						okAll = false
					}
				}
			}
		}
		if okAll {
			e.c.Count("add_sidx_removeenc_output_samples_match_history", 1)
		} else {
			e.c.Count("add_sidx_removeenc_output_samples_differ_from_history", 1)
		}
	}
}

// partitionOf is the bare fragment grouping of a decoded file (no checks).
func partitionOf(f *mp4.File) partition {
	var part partition
	n := 0
	for _, seg := range f.Segments {
		var frs []int
		for _, fr := range seg.Fragments {
			if fr.Moof != nil {
				frs = append(frs, n)
				n++
			}
		}
		part = append(part, frs)
	}
	return part
}

// runStretched is the fourth family: base with holes of 1..5 GiB in some mdat
// boxes, served through a virtual ReadSeeker to DecodeFile + DecModeLazyMdat.
// Oracle 1 against the moved ground truth, the partition against the one of
// the unstretched file, and the contents of the sidx UpdateSidx fills against
// the construction (the media cannot be written).
func runStretched(c *runner.Ctx, h *genfrag.History, base *genfrag.Built, shapes []genfrag.FragShape, flags mp4.DecFileFlags) {
	r := c.Rand
	st, err := genfrag.Stretch(base, r)
	if err != nil {
		c.Inconclusive("stretched family: generator matter: " + short(err.Error()))
		return
	}
	if st == nil {
		c.Count("stretched_not_possible", 1)
		return
	}
	add, nz := r.Chance(7, 8), r.Bool()
	e := &env{c: c, h: h, b: st.B, flags: flags, reader: "DecodeFile", shapes: shapes, lazy: true, virt: st, fam: "stretched"}
	e.lay = classify(h, st.B, flags, e.reader)
	c.Count("stretched_files", 1)
	c.Seen("stretched_holes_per_file", fmt.Sprint(len(st.Holes)))
	c.Seen("stretched_file_size_gib", fmt.Sprint(st.Size>>30))
	c.Seen("stretched_strong_form", orNone(e.lay.strong))
	c.Seen("stretched_base", map[bool]string{false: "as-built", true: "reshaped"}[shapes != nil])
	if st.Aligned != "" {
		c.Seen("stretched_segment_start_aligned_to", st.Aligned)
	}
	c.Count("stretched_holes_dropped_as_unrepresentable", int64(st.Dropped))
	c.Count("stretched_history_segments_starting_at_or_beyond_4gib", int64(st.SegsBeyond4G))
	c.Count("stretched_top_sidx_references_starting_4gib_or_more_after_the_anchor", int64(st.RefsBeyond4G))
	c.Count("stretched_tfra_entries_at_or_beyond_4gib", int64(st.TfraBeyond4G))
	c.Count("stretched_holes_of_4gib_or_more", int64(st.HugeHoles))
	if st.RefsBeyond4G > 0 {
		c.Count("stretched_files_with_sidx_reference_beyond_4gib", 1)
		if e.lay.strong == "topsidx" {
			c.Count("stretched_files_with_sidx_reference_beyond_4gib_strong_form", 1)
		}
	}
	if st.TfraBeyond4G > 0 && strings.HasPrefix(e.lay.strong, "mfra") {
		c.Count("stretched_files_with_tfra_entry_beyond_4gib_strong_form", 1)
	}
	f, derr, pi := e.decode()
	if pi != nil {
		c.Violation(runner.PanicKey("decode-DecodeFile-stretched", pi), fmt.Sprintf("lazy DecodeFile flags=%d panics on a %d-byte file, layout %s: %s", flags, st.Size, e.lay.class, pi.Value),
			detail{History: h, Flags: uint32(flags), Reader: e.reader, What: pi.Stack, Holes: st.Holes})
		return
	}
	if derr != nil {
		e.viol("decode-error/DecodeFile", fmt.Sprintf("lazy decoding of the %d-byte file fails: %s", st.Size, derr.Error()))
		return
	}
	c.Evals(1)
	part, ok := e.oracle1(f)
	if !ok {
		return
	}
	c.Nontrivial(runner.Hash64(st.Small, []byte(fmt.Sprint(st.Holes, flags))))
	// the grouping of the unstretched file (same flags, same decode mode): the holes move no delimiter
	e0 := &env{c: c, h: h, b: base, flags: flags, reader: "DecodeFile", lazy: true}
	if f0, err0, pi0 := e0.decode(); err0 == nil && pi0 == nil {
		if p0 := partitionOf(f0); fmt.Sprint(p0) != fmt.Sprint(part) {
			e.viol("grouping-stretched/partition-differs-from-unstretched", fmt.Sprintf("the %d-byte file is grouped as %v, the same file without the mdat holes as %v", st.Size, part, p0))
			return
		}
		c.Count("stretched_partition_equals_unstretched", 1)
	}
	e.stretchedIndex(f, part, add, nz)
	if c.WantSample() {
		c.Sample(map[string]interface{}{"family": "stretched", "holes": st.Holes, "virtual_bytes": st.Size, "layout": e.lay.class, "dec_flags": flags, "aligned": st.Aligned})
	}
}

// stretchedIndex is oracle 3 for a virtual file: the index UpdateSidx fills is
// encoded alone, read back with ref/frag and compared with the construction.
func (e *env) stretchedIndex(f *mp4.File, part partition, add, nz bool) {
	const tag = "UpdateSidx-stretched"
	had := f.Sidx != nil
	// expected referenced sizes: from the ground-truth start of each decoded segment (checked
	// against StartPos by oracle 1) to the next one / the end of the media
	var want []uint64
	unrepresentable := -1
	for k := range part {
		end := e.b.MediaEnd
		if k+1 < len(e.segStartGT) {
			end = e.segStartGT[k+1]
		}
		want = append(want, uint64(end-e.segStartGT[k]))
		if want[k] >= 1<<31 && unrepresentable < 0 {
			unrepresentable = k
		}
	}
	var uerr error
	if pi := e.c.Guard(func() { uerr = f.UpdateSidx(add, nz) }); pi != nil {
		e.c.Violation(runner.PanicKey("updatesidx-stretched", pi), "UpdateSidx panics: "+pi.Value,
			detail{History: e.h, Flags: uint32(e.flags), Reader: e.reader, What: pi.Stack, Holes: e.virt.Holes})
		return
	}
	e.c.Seen("stretched_updatesidx_call", fmt.Sprintf("existing=%v add=%v nonZeroEPT=%v", had, add, nz))
	if uerr != nil {
		e.c.Seen("stretched_updatesidx_error", short(uerr.Error()))
		if unrepresentable >= 0 {
			e.c.Count("stretched_updatesidx_refuses_segment_of_2gib_or_more", 1)
		}
		return
	}
	if !had && !add {
		if f.Sidx != nil {
			e.viol("sidx/"+tag+"/added-although-not-asked", "UpdateSidx(addIfNotExists=false) on a file without top-level sidx produced one")
		}
		return
	}
	if f.Sidx == nil || len(f.Sidxs) == 0 {
		e.viol("sidx/"+tag+"/missing", "File.Sidx is nil after UpdateSidx")
		return
	}
	few := func(n int) string {
		if n > 1 {
			return "N"
		}
		return fmt.Sprint(n)
	}
	e.sidxClass = "topsidx" + few(len(f.Sidxs))
	defer func() { e.sidxClass = "" }()
	var enc [][]byte
	for _, sx := range f.Sidxs {
		var buf bytes.Buffer
		var err error
		if pi := e.c.Guard(func() { err = sx.Encode(&buf) }); pi != nil || err != nil {
			e.c.Count("stretched_sidx_not_encodable", 1)
			return
		}
		enc = append(enc, append([]byte{}, buf.Bytes()...))
	}
	nodes, err := boxwalk.Walk(enc[0])
	if err != nil || len(nodes) != 1 || nodes[0].Type != "sidx" {
		e.viol("sidx/"+tag+"/unparsable", "the encoded index is not one sidx box")
		return
	}
	sx, err := reffrag.ParseSidxNode(enc[0], nodes[0])
	if err != nil {
		e.viol("sidx/"+tag+"/unparsable", err.Error())
		return
	}
	if len(sx.Refs) != len(part) {
		e.viol("sidx/"+tag+"/reference-count", fmt.Sprintf("%d references, %d segments", len(sx.Refs), len(part)))
		return
	}
	if unrepresentable >= 0 {
		// a segment of 2^31 bytes or more cannot be referenced (31-bit referenced_size): no index
		// tiles this media, so UpdateSidx has to refuse. (With prft/free/... boxes that segment
		// mode drops the written segment may be a few bytes shorter: not judged.)
		if e.lay.hasExtras {
			e.c.Count("stretched_sizes_not_comparable_extras", 1)
			return
		}
		k := unrepresentable
		e.violKey("sidx/"+tag+"/size-exceeds-31-bits", fmt.Sprintf("segment %d has %d bytes, referenced_size has 31 bits: UpdateSidx returns no error and writes reference_type %d, referenced_size %d", k, want[k], sx.Refs[k].Type, sx.Refs[k].Size))
		return
	}
	for k, r := range sx.Refs {
		if r.Type != 0 {
			e.viol("sidx/"+tag+"/reference-type", fmt.Sprintf("reference %d has reference_type 1", k))
			return
		}
	}
	// first_offset: segment mode writes the other top-level sidx boxes between the index and the first segment
	var between uint64
	for _, b := range enc[1:] {
		between += uint64(len(b))
	}
	if sx.FirstOffset != between {
		e.viol("sidx/"+tag+"/anchor", fmt.Sprintf("first_offset %d, %d bytes of other top-level sidx boxes lie between the index and the first segment", sx.FirstOffset, between))
		return
	}
	if e.lay.hasExtras {
		// segment mode drops prft/free/... boxes: the written segments are shorter than the input ranges
		e.c.Count("stretched_sizes_not_comparable_extras", 1)
	} else {
		var at uint64
		for k, r := range sx.Refs {
			if uint64(r.Size) != want[k] {
				e.viol("sidx/"+tag+"/reference-size", fmt.Sprintf("reference %d (starting %d bytes after the anchor) has referenced_size %d, segment %d has %d bytes", k, at, r.Size, k, want[k]))
				return
			}
			at += want[k]
		}
		e.c.Count("stretched_reference_sizes_equal_construction", 1)
	}
	if e.checkTimes(tag, sx, part, nz, nil) {
		e.c.Count("oracle3_held:"+tag, 1)
	}
}

// runMoovSamples is the fifth family: the moov of base declares a few samples (one chunk,
// data inside an mdat of the file) for one track other than the first
// (gen/frag.AddMoovSamples, byte level); the file stays fragmented (mvex, empty first
// track, moof boxes). The same readers and oracles 1-3 run on it: the Init must be there
// and ftyp/moov must be written byte-identically by segment-mode Encode/EncodeSW.
func runMoovSamples(c *runner.Ctx, h *genfrag.History, base *genfrag.Built, shapes []genfrag.FragShape, flags mp4.DecFileFlags) {
	if len(h.Tracks) < 2 {
		c.Count("moovsamples_not_possible_single_track", 1)
		return
	}
	r := c.Rand
	mb, sh, err := genfrag.AddMoovSamples(base, r)
	if err != nil {
		c.Inconclusive("moovsamples family: generator matter: " + short(err.Error()))
		return
	}
	if mb == nil {
		c.Count("moovsamples_not_possible", 1)
		return
	}
	c.Count("moovsamples_files", 1)
	c.Seen("moovsamples_trak_index", fmt.Sprint(sh.Trak))
	c.Seen("moovsamples_samples_in_moov", fmt.Sprint(sh.Samples))
	c.Seen("moovsamples_stsz_form", map[bool]string{false: "sample_size", true: "table"}[sh.SizeTable])
	if sh.SampleSize == 0 {
		c.Count("moovsamples_files_with_empty_sample", 1)
	}
	c.Seen("moovsamples_base", map[bool]string{false: "as-built", true: "reshaped"}[shapes != nil])
	o := fileOpts{shapes: shapes, flags: flags, o3add: r.Chance(7, 8), o3nz: r.Bool(), tool: r.Chance(1, 8), fam: "moovsamples"}
	if runFile(c, h, mb, o) {
		c.Nontrivial(runner.Hash64(mb.Bytes, []byte{byte(flags), 'm'}))
	}
	if c.WantSample() {
		c.Sample(map[string]interface{}{"family": "moovsamples", "shape": sh, "dec_flags": flags, "bytes": len(mb.Bytes)})
	}
}
