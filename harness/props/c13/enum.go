package c13

import (
	"bytes"
	"encoding/hex"
	"encoding/json"
	"fmt"
	"io"

	"github.com/Eyevinn/mp4ff/bits"

	"verifharness/ref/bitw"
	"verifharness/runner"
)

// strCase is one byte string with one write chunking and the read chunkings
// applied to it. Data is the RBSP (whole bytes). Widths sum to 8*len(Data).
type strCase struct {
	RBSP       hexBytes `json:"rbsp_hex"`
	Chunking   string   `json:"chunking"`
	Write      []int    `json:"write_widths"`
	Reads      [][]int  `json:"read_widths"`
	ReadBytesP int      `json:"readbytes_prefix_bits"` // ReadBytes variant: Read(p) first (0 = aligned), -1 = skip
	// Write widths: a negative entry -n is a WriteRbspTrailingBits call that
	// occupies n bits of the RBSP (a 1 and n-1 zeros); it is read back as Read(n).
	// ToEnd: additionally read to the physical end of the stream through
	// MoreRbspData / ReadRbspTrailingBits (from the last 1 bit of the RBSP).
	ToEnd bool `json:"to_end,omitempty"`
}

var chunkNames = []string{"w8", "w1", "w3-5", "w12", "w32", "prefix", "random", "trail"}

func absWidths(w []int) []int {
	out := make([]int, len(w))
	for i, n := range w {
		if n < 0 {
			n = -n
		}
		out[i] = n
	}
	return out
}

// fixedWidths cuts nbits into calls of the given repeating pattern.
func fixedWidths(nbits int, pattern ...int) []int {
	var out []int
	for i := 0; nbits > 0; i++ {
		w := pattern[i%len(pattern)]
		if w > nbits {
			w = nbits
		}
		out = append(out, w)
		nbits -= w
	}
	return out
}

func randomWidths(r *runner.Rand, nbits int) []int {
	var out []int
	for nbits > 0 {
		w := 1 + r.Intn(32)
		if r.Chance(1, 4) {
			w = r.PickInt(1, 7, 8, 9, 15, 16, 17, 24, 31, 32)
		}
		if w > nbits {
			w = nbits
		}
		out = append(out, w)
		nbits -= w
	}
	return out
}

// enumerate calls f for every string of length n over the alphabet that
// starts with the given prefix symbols.
func enumerate(prefix []int, n int, f func(sym []int)) {
	sym := make([]int, n)
	copy(sym, prefix)
	k := len(prefix)
	for {
		f(sym)
		i := n - 1
		for ; i >= k; i-- {
			sym[i]++
			if sym[i] < len(alphabet) {
				break
			}
			sym[i] = 0
		}
		if i < k {
			return
		}
	}
}

func runEnumBlock(c *runner.Ctx, blk int) {
	L := maxLen(c.Env.Tier)
	var n, ok int64
	serial := 0
	do := func(sym []int) {
		data := make([]byte, len(sym))
		for i, s := range sym {
			data[i] = alphabet[s]
		}
		serial++
		for ci := range chunkNames {
			sc := buildStrCase(c.Rand, data, ci, serial)
			n++
			if checkString(c, sc) {
				ok++
			}
		}
		if serial == 500 && c.WantSample() {
			sc := buildStrCase(c.Rand, data, 5, serial)
			c.Sample(map[string]interface{}{"block": blk, "example_string": hex.EncodeToString(data), "example_case": sc,
				"escaped_reference": hex.EncodeToString(bitw.Escape(sc.RBSP))})
		}
	}
	if blk == nPrefixBlocks {
		for l := 0; l < prefixSyms && l <= L; l++ {
			enumerate(nil, l, do)
		}
	} else {
		p := []int{blk / 36, (blk / 6) % 6, blk % 6}
		for l := prefixSyms; l <= L; l++ {
			enumerate(p, l, do)
		}
	}
	c.Evals(n)
	c.Count("enum_strings", int64(serial))
	c.Count("enum_string_chunkings", n)
	c.Count("enum_string_chunkings_ok", ok)
	c.Seen("block_kind", "enumeration")
	if ok > 0 {
		c.Nontrivial(runner.HashStr("enum", fmt.Sprint(blk), fmt.Sprint(L)))
	}
}

// hexBytes is a byte slice that is hex in JSON.
type hexBytes []byte

func (h hexBytes) MarshalJSON() ([]byte, error) { return json.Marshal(hex.EncodeToString(h)) }
func (h *hexBytes) UnmarshalJSON(b []byte) error {
	var s string
	if err := json.Unmarshal(b, &s); err != nil {
		return err
	}
	d, err := hex.DecodeString(s)
	*h = d
	return err
}

// buildStrCase derives the stream and the call widths for chunking ci.
func buildStrCase(r *runner.Rand, data []byte, ci int, serial int) *strCase {
	rbsp := data
	nb := 8 * len(data)
	sc := &strCase{Chunking: chunkNames[ci], ReadBytesP: -1}
	switch ci {
	case 0:
		sc.Write = fixedWidths(nb, 8)
		sc.Reads = [][]int{sc.Write, fixedWidths(nb, 5, 3), fixedWidths(nb, 32)}
		sc.ReadBytesP = 0
		sc.ToEnd = true
	case 1:
		sc.Write = fixedWidths(nb, 1)
		sc.Reads = [][]int{sc.Write, fixedWidths(nb, 8)}
	case 2:
		sc.Write = fixedWidths(nb, 3, 5)
		sc.Reads = [][]int{sc.Write, fixedWidths(nb, 12)}
	case 3:
		sc.Write = fixedWidths(nb, 12)
		sc.Reads = [][]int{sc.Write, fixedWidths(nb, 1)}
	case 4:
		sc.Write = fixedWidths(nb, 32)
		sc.Reads = [][]int{sc.Write, fixedWidths(nb, 7, 9, 16)}
	case 5:
		// p-bit prefix (all zeros or all ones), the data bytes, and an
		// (8-p)-bit suffix of the complementary kind: every data byte
		// straddles two bytes of the stream.
		p := 1 + serial%7
		ones := (serial/7)%2 == 1
		w := &bitw.W{}
		if ones {
			w.Put(1<<uint(p)-1, p)
		} else {
			w.Put(0, p)
		}
		w.PutBytes(data)
		if ones {
			w.Put(0, 8-p)
		} else {
			w.Put(1<<uint(8-p)-1, 8-p)
		}
		rbsp = w.Bytes()
		sc.Write = append([]int{p}, fixedWidths(8*len(data), 8)...)
		sc.Write = append(sc.Write, 8-p)
		sc.Reads = [][]int{sc.Write, fixedWidths(8*len(rbsp), 8)}
		sc.ReadBytesP = p
		sc.ToEnd = true
	case 6:
		sc.Write = randomWidths(r, nb)
		sc.Reads = [][]int{sc.Write, randomWidths(r, nb)}
	case 7:
		// the writer is used further after WriteRbspTrailingBits: p prefix bits
		// (p = 0: the call is byte aligned), the first k data bytes, the trailing
		// bits (8-p bits: a 1 and zeros to the byte boundary), the other data bytes
		p := serial % 8
		k := (serial / 8) % (len(data) + 1)
		ones := (serial/8/(len(data)+1))%2 == 1
		w := &bitw.W{}
		if p > 0 {
			if ones {
				w.Put(1<<uint(p)-1, p)
			} else {
				w.Put(0, p)
			}
			sc.Write = append(sc.Write, p)
		}
		w.PutBytes(data[:k])
		sc.Write = append(sc.Write, fixedWidths(8*k, 8)...)
		w.TrailingBits()
		sc.Write = append(sc.Write, -(8 - p))
		w.PutBytes(data[k:])
		sc.Write = append(sc.Write, fixedWidths(8*(len(data)-k), 8)...)
		rbsp = w.Bytes()
		sc.Reads = [][]int{absWidths(sc.Write), fixedWidths(8*len(rbsp), 8)}
		if p == 0 {
			sc.ReadBytesP = 0
		}
		sc.ToEnd = true
	}
	sc.RBSP = rbsp
	return sc
}

func forbiddenAt(b []byte) int {
	for i := 0; i+2 < len(b); i++ {
		if b[i] == 0 && b[i+1] == 0 && b[i+2] <= 2 {
			return i
		}
	}
	return -1
}

// checkEscapedOutput checks the stream invariants of an emulation-preventing
// writer's output against the RBSP the harness fed it. family is the key prefix.
func checkEscapedOutput(c *runner.Ctx, family, ctx string, rbsp, out []byte, wit interface{}) bool {
	want := bitw.Escape(rbsp)
	if bytes.Equal(out, want) {
		return true
	}
	desc := ctx + fmt.Sprintf("rbsp %x -> writer emitted %x, reference escaper %x", rbsp, out, want)
	switch {
	case forbiddenAt(out) >= 0:
		c.Violation(family+"/forbidden-pattern", fmt.Sprintf("output contains 0000%02x at offset %d: %s", out[forbiddenAt(out)+2], forbiddenAt(out), desc), wit)
	case !bytes.Equal(bitw.Unescape(out), rbsp):
		c.Violation(family+"/unescape-differs-from-written", fmt.Sprintf("removing the escapes gives %x: %s", bitw.Unescape(out), desc), wit)
	case len(out) > len(want):
		c.Violation(family+"/superfluous-escape", fmt.Sprintf("%d escape bytes inserted, %d required: %s", len(out)-len(rbsp), len(want)-len(rbsp), desc), wit)
	default:
		c.Violation(family+"/differs-from-reference", desc, wit)
	}
	return false
}

type counters interface {
	NrBytesRead() int
	NrBitsRead() int
	NrBitsReadInCurrentByte() int
}

// wantCounters gives the reference counters after pos RBSP bits were consumed
// (pos > 0); escIdx maps RBSP byte index -> escaped stream byte index.
func wantCounters(pos int, escIdx []int) (nbytes, nbits, inbyte int) {
	last := (pos - 1) / 8
	inbyte = (pos-1)%8 + 1
	nbytes = escIdx[last] + 1
	nbits = 8*escIdx[last] + inbyte
	return
}

func checkCounters(r counters, pos int, escIdx []int) string {
	if pos == 0 {
		if r.NrBytesRead() != 0 || r.NrBitsRead() != 0 {
			return fmt.Sprintf("before any read: NrBytesRead=%d NrBitsRead=%d, want 0 0", r.NrBytesRead(), r.NrBitsRead())
		}
		return ""
	}
	wb, wn, wi := wantCounters(pos, escIdx)
	if gb, gn, gi := r.NrBytesRead(), r.NrBitsRead(), r.NrBitsReadInCurrentByte(); gb != wb || gn != wn || gi != wi {
		return fmt.Sprintf("after %d payload bits: NrBytesRead=%d NrBitsRead=%d NrBitsReadInCurrentByte=%d, reference position in the escaped stream %d %d %d", pos, gb, gn, gi, wb, wn, wi)
	}
	return ""
}

// checkString runs one strCase. It returns true when everything held.
func checkString(c *runner.Ctx, sc *strCase) bool {
	rbsp := []byte(sc.RBSP)
	wit := &witness{Kind: "string", String: sc}
	good := true
	cls := "write chunking " + sc.Chunking + ": "

	// ---- write
	var buf bytes.Buffer
	var out []byte
	var werr error
	nbuf := ""
	pi := c.Guard(func() {
		w := bits.NewEBSPWriter(&buf)
		ref := bitw.NewR(rbsp)
		for _, n := range sc.Write {
			if n < 0 {
				ref.Get(-n)
				w.WriteRbspTrailingBits()
			} else {
				w.Write(uint(ref.Get(n)), n)
			}
			if got := int(w.NrBitsInBuffer()); got != ref.Pos()%8 && nbuf == "" {
				nbuf = fmt.Sprintf("after %d bits NrBitsInBuffer() = %d, want %d", ref.Pos(), got, ref.Pos()%8)
			}
		}
		werr = w.AccError()
		out = buf.Bytes()
	})
	switch {
	case pi != nil:
		c.Violation(runner.PanicKey("ebsp/writer/panic", pi), cls+"EBSPWriter.Write panicked: "+pi.Value, wit)
		good = false
	case werr != nil:
		c.Violation("ebsp/writer/error-on-bytes-buffer", cls+"AccError() = "+werr.Error(), wit)
		good = false
	default:
		if !checkEscapedOutput(c, "ebsp/writer", cls, rbsp, out, wit) {
			good = false
		}
		if nbuf != "" {
			c.Violation("ebsp/writer/nr-bits-in-buffer", cls+nbuf, wit)
			good = false
		}
	}

	// ---- read (from the reference-escaped stream, so that a writer defect
	// does not mask or fake a reader defect). When the stream ends in a
	// cabac_zero_word it is read a second time in the form a complete NAL unit
	// has: with the final 03 of 7.4.1 appended (the library's writer never
	// produces that form, its reader must accept it).
	esc := bitw.Escape(rbsp)
	escIdx := bitw.EscapedIndex(rbsp)
	c.Count("enum_escapes_in_reference_streams", int64(len(esc)-len(rbsp)))
	if !readString(c, sc, rbsp, esc, escIdx, false, wit) {
		good = false
	}
	if escF, appended := bitw.EscapeFinal(rbsp); appended {
		c.Count("enum_streams_read_with_final_03", 1)
		if !readString(c, sc, rbsp, escF, escIdx, true, wit) {
			good = false
		}
	}
	return good
}

// checkEndCounters: after a call that ran into the end of the stream (byte
// aligned, nothing pending) every byte of the escaped stream has been consumed.
func checkEndCounters(r counters, streamLen int) string {
	if gb, gn := r.NrBytesRead(), r.NrBitsRead(); gb != streamLen || gn != 8*streamLen {
		return fmt.Sprintf("after reading to the end of the %d byte escaped stream: NrBytesRead=%d NrBitsRead=%d, want %d %d", streamLen, gb, gn, streamLen, 8*streamLen)
	}
	return ""
}

// readString reads one escaped form (esc) of sc.RBSP through the EBSPReader.
func readString(c *runner.Ctx, sc *strCase, rbsp, esc []byte, escIdx []int, final03 bool, wit interface{}) bool {
	good := true
	form := ""
	reads := sc.Reads
	if final03 {
		form = "stream with final 03: "
		reads = reads[:1]
	}
	for ri, widths := range reads {
		mode := "mirrored"
		if ri > 0 {
			mode = "mismatched"
		}
		var msg, key string
		pi := c.Guard(func() {
			r := bits.NewEBSPReader(bytes.NewReader(esc))
			ref := bitw.NewR(rbsp)
			for _, n := range widths {
				got := r.Read(n)
				want := ref.Get(n)
				if err := r.AccError(); err != nil {
					key, msg = "error-inside-stream", fmt.Sprintf("Read(%d) at payload bit %d of %d: AccError %v", n, ref.Pos()-n, 8*len(rbsp), err)
					return
				}
				if uint64(got) != want {
					key, msg = "value", fmt.Sprintf("Read(%d) at payload bit %d returned %#x, written %#x (escaped stream %x)", n, ref.Pos()-n, got, want, esc)
					return
				}
				if m := checkCounters(r, ref.Pos(), escIdx); m != "" {
					key, msg = "counters", m+fmt.Sprintf(" (escaped stream %x)", esc)
					return
				}
			}
			if err := r.AccError(); err != nil {
				key, msg = "error-at-exact-end", "AccError after consuming exactly the stream: "+err.Error()
				return
			}
			// documented end behaviour
			v := r.Read(1)
			if r.AccError() == nil {
				key, msg = "no-error-past-end", fmt.Sprintf("Read(1) past the end returned %d with nil AccError", v)
				return
			} else if r.AccError() != io.EOF {
				c.Seen("ebspreader_past_end_error", r.AccError().Error())
			}
			if m := checkEndCounters(r, len(esc)); m != "" {
				key, msg = "counters-at-end", "Read(1) hit the end: "+m+fmt.Sprintf(" (escaped stream %x)", esc)
			}
		})
		if pi != nil {
			c.Violation(runner.PanicKey("ebsp/reader/panic", pi), form+"EBSPReader.Read panicked: "+pi.Value, wit)
			good = false
		} else if key != "" {
			c.Violation("ebsp/reader/"+key, form+mode+" read widths: "+msg, wit)
			good = false
		}
	}
	if sc.ReadBytesP >= 0 {
		p := sc.ReadBytesP
		var msg, key string
		pi := c.Guard(func() {
			r := bits.NewEBSPReader(bytes.NewReader(esc))
			ref := bitw.NewR(rbsp)
			if p > 0 {
				if got, want := r.Read(p), ref.Get(p); uint64(got) != want {
					key, msg = "value", fmt.Sprintf("Read(%d) returned %#x, written %#x", p, got, want)
					return
				}
			}
			k := (8*len(rbsp) - p) / 8
			got := r.ReadBytes(k)
			want := make([]byte, k)
			for i := range want {
				want[i] = byte(ref.Get(8))
			}
			if r.AccError() != nil {
				key, msg = "readbytes-error", fmt.Sprintf("ReadBytes(%d) after %d bits: %v", k, p, r.AccError())
				return
			}
			if !bytes.Equal(got, want) {
				key, msg = "readbytes-value", fmt.Sprintf("ReadBytes(%d) after %d bits = %x, written %x (escaped stream %x)", k, p, got, want, esc)
				return
			}
			if m := checkCounters(r, ref.Pos(), escIdx); m != "" {
				key, msg = "readbytes-counters", m
				return
			}
			if p == 0 {
				// one byte more than the stream holds: documented nil + accumulated error
				more := r.ReadBytes(1)
				if more != nil || r.AccError() == nil {
					key, msg = "readbytes-no-error-past-end", fmt.Sprintf("ReadBytes(1) past the end returned %x, AccError %v", more, r.AccError())
					return
				}
				if m := checkEndCounters(r, len(esc)); m != "" {
					key, msg = "readbytes-counters-at-end", "ReadBytes(1) hit the end: "+m+fmt.Sprintf(" (escaped stream %x)", esc)
				}
			}
		})
		if pi != nil {
			c.Violation(runner.PanicKey("ebsp/reader/panic", pi), form+"EBSPReader.ReadBytes panicked: "+pi.Value, wit)
			good = false
		} else if key != "" {
			c.Violation("ebsp/reader/"+key, form+msg, wit)
			good = false
		}
	}
	if T := lastOneBit(rbsp); sc.ToEnd && T >= 0 {
		// the way the parsers finish a NAL unit: up to the last 1 bit, then
		// MoreRbspData (false) and ReadRbspTrailingBits, both of which scan to the
		// physical end of the stream and clear the EOF
		var msg, key string
		pi := c.Guard(func() {
			r := bits.NewEBSPReader(bytes.NewReader(esc))
			ref := bitw.NewR(rbsp)
			for ref.Pos() < T {
				n := T - ref.Pos()
				if n > 32 {
					n = 32
				}
				if got, want := r.Read(n), ref.Get(n); uint64(got) != want || r.AccError() != nil {
					key, msg = "value", fmt.Sprintf("Read(%d) returned %#x (err %v), written %#x", n, got, r.AccError(), want)
					return
				}
			}
			more, err := r.MoreRbspData()
			if err != nil || r.AccError() != nil || more {
				key, msg = "more-rbsp-data", fmt.Sprintf("MoreRbspData at the last 1 bit (bit %d) = %v, %v / AccError %v (escaped stream %x)", T, more, err, r.AccError(), esc)
				return
			}
			if m := checkCounters(r, T, escIdx); m != "" {
				key, msg = "more-rbsp-data-moved-position", m+fmt.Sprintf(" (escaped stream %x)", esc)
				return
			}
			if err := r.ReadRbspTrailingBits(); err != nil || r.AccError() != nil {
				key, msg = "trailing-bits-rejected", fmt.Sprintf("ReadRbspTrailingBits at the last 1 bit (bit %d): %v / AccError %v (escaped stream %x)", T, err, r.AccError(), esc)
				return
			}
			if m := checkEndCounters(r, len(esc)); m != "" {
				key, msg = "trailing-bits-counters-at-end", "ReadRbspTrailingBits scanned to the end: "+m+fmt.Sprintf(" (escaped stream %x)", esc)
				return
			}
			r.Read(1)
			if r.AccError() == nil {
				key, msg = "no-error-past-end", "Read(1) after ReadRbspTrailingBits left AccError nil"
				return
			}
			if m := checkEndCounters(r, len(esc)); m != "" {
				key, msg = "counters-at-end", "Read(1) after ReadRbspTrailingBits: "+m+fmt.Sprintf(" (escaped stream %x)", esc)
			}
		})
		c.Count("enum_read_to_end_via_trailing_bits", 1)
		if pi != nil {
			c.Violation(runner.PanicKey("ebsp/reader/panic", pi), form+"EBSPReader panicked while finishing the stream: "+pi.Value, wit)
			good = false
		} else if key != "" {
			c.Violation("ebsp/reader/"+key, form+msg, wit)
			good = false
		}
	}
	return good
}
