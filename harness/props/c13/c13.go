// Package c13 decides property C13 (bit / Exp-Golomb / emulation-prevention
// coding are exact inverses) by running the real writers and readers of
// package bits against the independent bit model ref/bitw.
//
// Two workloads: (a) exhaustive enumeration of byte strings over the
// behaviour-relevant alphabet through EBSPWriter/EBSPReader under several
// write and read chunkings; (b) random sequences of fixed-width, flag, signed,
// ue(v), se(v), ff-run and byte operations through every writer->reader pair.
package c13

import (
	"encoding/json"

	"verifharness/runner"
)

// alphabet: the four bytes the escaper distinguishes (00, and 01 02 03 which
// need an escape after two zeros), 04 = the first value that must NOT be
// escaped (boundary of "<= 3"), 5A = an unrelated byte.
var alphabet = []byte{0x00, 0x01, 0x02, 0x03, 0x04, 0x5a}

const prefixSyms = 3 // a block fixes the first three symbols

var nPrefixBlocks = len(alphabet) * len(alphabet) * len(alphabet) // 216

func maxLen(tier string) int {
	if tier == "thorough" {
		return 9
	}
	return 8
}

func numSeqCases(tier string) int {
	if tier == "thorough" {
		return 100000
	}
	return 2000
}

const seqPerCase = 100

func init() {
	runner.Register(&runner.Prop{
		ID: "C13",
		Rule: "Case list = 217 enumeration blocks + N random blocks. " +
			"Enumeration: ALL byte strings over {00,01,02,03,04,5A} of length 0..L (quick L=8: 2 015 539 strings, thorough L=9: 12 093 235 strings); block k<216 fixes the first three symbols, block 216 holds lengths 0..2. " +
			"Every string is written through bits.EBSPWriter under 8 chunkings (8-bit calls; 1-bit calls; alternating 3/5; 12-bit; 32-bit; a 1..7-bit prefix of zeros or ones so that every data byte straddles two output bytes, closed by a complementary suffix; random widths 1..32; trail: a 0..7-bit prefix, the first k bytes, WriteRbspTrailingBits (byte aligned when the prefix is empty), then the writer is used further for the other bytes, k cycling over all positions) and the output is compared with the reference escaper; " +
			"the reference-escaped stream is read back through bits.EBSPReader with the mirrored widths, with a different chunking, and with ReadBytes, checking every returned value and NrBytesRead/NrBitsRead/NrBitsReadInCurrentByte after every call, including the last call that runs into the end of the stream (Read(1), ReadBytes(1)); for three chunkings the stream is also finished the way the parsers do it (Read up to the last 1 bit, MoreRbspData, ReadRbspTrailingBits scanning to the physical end, Read(1)). " +
			"Every string whose escaped form ends in a cabac_zero_word (two zero bytes) is read a second time in complete-NAL-unit form, i.e. with the final 03 of 7.4.1 appended by the harness's escaper (ref/bitw.EscapeFinal; the library's writer never produces that form). " +
			"Random blocks: 100 operation sequences each (quick 2 000 blocks, thorough 100 000) of 1..60 (2%: up to 400) operations drawn from fixed-width 1..32 (boundary and zero-heavy values), flag, two's-complement signed, ue(v) <= 2^32-2, se(v) in +-(2^31-1), ff-run value, byte runs, alignment, rbsp_trailing_bits in the middle of the sequence (aligned and unaligned, often followed by zero bytes), " +
			"through the pairs Writer->Reader (ue(v) written as its two fixed-width parts and read with Reader.ReadExpGolomb when the tree has that method), EBSPWriter->EBSPReader (incl. MoreRbspData at operation boundaries, ReadRbspTrailingBits; 28% of the sequences continue after the closing trailing bits with 1..5 cabac_zero_words written in 8/16/32-bit calls, are read from the stream with or without the final 03, and are finished through ReadRbspTrailingBits, Read calls or ReadBytes calls, the last of which hits the end), FixedSliceWriter bit+byte functions->Reader, ByteWriter->Reader. " +
			"distinct_nontrivial counts distinct blocks (hash of block content) in which at least one stream was written and read back completely; evaluations counts individual strings x chunkings and sequences.",
		Assumptions: []string{
			"reference bit writer/reader, ue/se codes and RBSP escaper/unescaper of ref/bitw are written from ISO/IEC 14496-10 7.2, 7.4.1, 9.1 and do not import mp4ff",
			"counter semantics: after a read that consumed k RBSP bits (k>0), NrBytesRead = 1 + index in the escaped stream of the byte holding bit k-1, NrBitsReadInCurrentByte = ((k-1) mod 8)+1, NrBitsRead = 8*(NrBytesRead-1)+NrBitsReadInCurrentByte (an escape byte is counted when the byte after it is fetched)",
			"counter semantics at the end: after a call that ran into the end of the stream with no bits pending (Read/ReadBytes past the end from a byte boundary, ReadRbspTrailingBits, which scans to the end) every byte of the escaped stream has been taken from the source, a final emulation prevention byte included: NrBytesRead = length of the escaped stream, NrBitsRead = 8 x that; MoreRbspData restores the position it had",
			"a complete NAL unit may end 00 00 03 (7.4.1: a final 03 is appended after a cabac_zero_word); the 03 is an escape, not data: the reader must report end of data there",
			"values are passed with at most `width` significant bits, except in the operations marked dirty-high-bits where the documented 'write n bits from bits' is taken to mean the n low bits",
			"reading past the end is documented to set the accumulated error (io.EOF) and return 0; that is checked as behaviour, not reported as a violation",
			"64-bit uint (amd64): widths up to 32 bits plus 7 pending bits fit the accumulator",
		},
		Exhaustive: func(tier string) bool { return false },
		NumCases:   func(env *runner.Env) int { return nPrefixBlocks + 1 + numSeqCases(env.Tier) },
		Run:        run,
		Replay:     replay,
		Finalize:   finalize,
	})
}

func run(c *runner.Ctx, idx int) {
	if idx <= nPrefixBlocks {
		runEnumBlock(c, idx)
		return
	}
	runSeqBlock(c, idx-nPrefixBlocks-1)
}

// witness is the self-contained replay record of a violation.
type witness struct {
	Kind   string   `json:"kind"` // "string" | "seq"
	String *strCase `json:"string,omitempty"`
	Seq    *seqCase `json:"seq,omitempty"`
}

func replay(c *runner.Ctx, detail json.RawMessage) {
	var w witness
	if err := json.Unmarshal(detail, &w); err != nil {
		c.Inconclusive("replay: bad detail: " + err.Error())
		return
	}
	switch {
	case w.Kind == "string" && w.String != nil:
		checkString(c, w.String)
	case w.Kind == "seq" && w.Seq != nil:
		checkSeq(c, w.Seq)
	default:
		c.Inconclusive("replay: unknown witness kind " + w.Kind)
	}
}

func finalize(a *runner.Agg) {
	for _, p := range []string{"writer-reader", "ebsp", "fsw-reader", "bytewriter-reader"} {
		if a.Seen["pair"][p] == 0 {
			a.Note("no sequence went through the pair %s", p)
		}
	}
	if a.Counters["enum_strings"] == 0 {
		a.Note("the exhaustive enumeration did not run")
	}
	if a.Counters["enum_escapes_in_reference_streams"]+a.Counters["seq_escapes_in_reference_streams"] == 0 {
		a.Note("no stream needed an emulation prevention byte")
	}
}
