package c13

import (
	"bytes"
	"fmt"
	"io"

	"github.com/Eyevinn/mp4ff/bits"

	"verifharness/ref/bitw"
	"verifharness/runner"
)

// op is one write operation (and the read that mirrors it).
type op struct {
	K     string   `json:"k"`               // u f s ue se ff bytes align trail | u8 u16 u24 u32 u48 u64 i16 i32 i64 zeros str str0 matrix
	N     int      `json:"n,omitempty"`     // width in bits (u, s) or byte count (zeros)
	V     uint64   `json:"v,omitempty"`     // unsigned value
	S     int64    `json:"s,omitempty"`     // signed value
	Dirty uint64   `json:"dirty,omitempty"` // garbage passed above the N low bits (u only)
	B     hexBytes `json:"b,omitempty"`
}

type seqCase struct {
	Pair    string `json:"pair"` // writer-reader | ebsp | fsw-reader | bytewriter-reader
	Ops     []op   `json:"ops"`
	End     string `json:"end"`      // flush | trailing | stuff
	MoreAt  []int  `json:"more_at"`  // ebsp: op boundaries (index of next op) where MoreRbspData is called
	TrailAt int    `json:"trail_at"` // ebsp: boundary at which a fresh reader tries ReadRbspTrailingBits (-1: none)
	RemAt   int    `json:"rem_at"`   // Reader pairs: boundary from which ReadRemainingBytes is used (-1: none)
	// Dst / Src: what the library writer writes into and the library reader reads from
	// ("" = bytes.Buffer / bytes.Reader; see newSink / newSource)
	Dst string `json:"dst,omitempty"`
	Src string `json:"src,omitempty"`
	// ebsp with End == "trailing": Czw cabac_zero_words (0x0000) follow the trailing
	// bits, written in calls of CzwW bits (8, 16 or 32); Final03: the reader is given
	// the complete-NAL-unit form of the stream, with the final 03 of 7.4.1 appended
	// (only when the stream ends in a zero word); EndRead: how the reader consumes
	// the end: "" ReadRbspTrailingBits | "bits" Read calls | "bytes" ReadBytes calls
	Czw     int    `json:"czw,omitempty"`
	CzwW    int    `json:"czw_w,omitempty"`
	Final03 bool   `json:"final03,omitempty"`
	EndRead string `json:"end_read,omitempty"`
}

// plainWriter exposes Write only (no WriteByte, no ReadFrom): a file or a socket as the library sees it.
type plainWriter struct{ buf *bytes.Buffer }

func (p plainWriter) Write(b []byte) (int, error) { return p.buf.Write(b) }

func newSink(kind string, buf *bytes.Buffer) io.Writer {
	if kind == "plain-writer" {
		return plainWriter{buf}
	}
	return buf
}

// The sources stay seekable: EBSPReader.MoreRbspData documents that it needs an io.ReadSeeker.
type oneByteReader struct{ r io.ReadSeeker }

func (o oneByteReader) Read(p []byte) (int, error) {
	if len(p) == 0 {
		return 0, nil
	}
	return o.r.Read(p[:1])
}
func (o oneByteReader) Seek(off int64, w int) (int64, error) { return o.r.Seek(off, w) }

// dataErrReader returns the final bytes together with io.EOF.
type dataErrReader struct {
	b   []byte
	pos int
}

func (d *dataErrReader) Read(p []byte) (int, error) {
	n := copy(p, d.b[d.pos:])
	d.pos += n
	if d.pos >= len(d.b) {
		return n, io.EOF
	}
	return n, nil
}

func (d *dataErrReader) Seek(off int64, w int) (int64, error) {
	switch w {
	case io.SeekCurrent:
		off += int64(d.pos)
	case io.SeekEnd:
		off += int64(len(d.b))
	}
	if off < 0 || off > int64(len(d.b)) {
		return 0, io.ErrUnexpectedEOF
	}
	d.pos = int(off)
	return off, nil
}

// hesitantReader returns (0, nil) on every other call.
type hesitantReader struct {
	r   io.ReadSeeker
	odd bool
}

func (h *hesitantReader) Seek(off int64, w int) (int64, error) { return h.r.Seek(off, w) }

func (h *hesitantReader) Read(p []byte) (int, error) {
	h.odd = !h.odd
	if h.odd || len(p) == 0 {
		return 0, nil
	}
	return h.r.Read(p)
}

func newSource(kind string, b []byte) io.Reader {
	switch kind {
	case "one-byte":
		return oneByteReader{bytes.NewReader(b)}
	case "data+EOF":
		return &dataErrReader{b: b}
	case "hesitant":
		return &hesitantReader{r: bytes.NewReader(b)}
	}
	return bytes.NewReader(b)
}

var boundaryWidths = []int{1, 2, 7, 8, 9, 15, 16, 17, 23, 24, 25, 31, 32}

func mask(n int) uint64 {
	if n >= 64 {
		return ^uint64(0)
	}
	return uint64(1)<<uint(n) - 1
}

func genWidth(r *runner.Rand) int {
	if r.Chance(1, 3) {
		return boundaryWidths[r.Intn(len(boundaryWidths))]
	}
	return 1 + r.Intn(32)
}

func genValue(r *runner.Rand, n int, zeroHeavy bool) uint64 {
	m := mask(n)
	k := r.Intn(10)
	if zeroHeavy {
		k = r.Intn(5)
	}
	switch k {
	case 0:
		return 0
	case 1:
		return uint64(r.Intn(4)) & m
	case 2:
		return (uint64(r.Intn(4)) << uint(8*r.Intn(4))) & m
	case 3:
		return uint64(1) << uint(r.Intn(n))
	case 4:
		if zeroHeavy {
			return uint64(r.Intn(256)) & m
		}
		return m
	case 5:
		return m >> 1
	case 6:
		return m &^ (m >> 1)
	}
	return r.Uint64() & m
}

func genUE(r *runner.Rand) uint64 {
	const maxUE = uint64(1)<<32 - 2
	switch r.Intn(6) {
	case 0:
		if r.Chance(1, 6) {
			// just beyond the range ue(v) has in H.264/H.265: codes with exactly 32 leading zeros
			// (2^32-1 .. 2^33-2), the longest prefix the library's readers accept
			return uint64(1)<<32 - 1 + uint64(r.PickInt(0, 1, 2, 1<<20, 1<<32-2, 1<<32-1))
		}
		return uint64(r.Intn(8))
	case 1:
		k := uint(1 + r.Intn(32))
		v := uint64(1)<<k - 2 + uint64(r.Intn(3)) // 2^k-2, 2^k-1, 2^k: around a prefix-length change
		if v > maxUE {
			v = maxUE
		}
		return v
	case 2:
		return maxUE - uint64(r.Intn(3))
	}
	v := r.Uint64() >> uint(32+r.Intn(32))
	if v > maxUE {
		v = maxUE
	}
	return v
}

func genSE(r *runner.Rand) int64 {
	const maxSE = int64(1)<<31 - 1
	var v int64
	switch r.Intn(5) {
	case 0:
		v = int64(r.Intn(5))
	case 1:
		k := uint(1 + r.Intn(31))
		v = int64(1)<<k - 1 + int64(r.Intn(3)) - 1
	case 2:
		v = maxSE - int64(r.Intn(2))
	default:
		v = int64(r.Uint64() >> uint(33+r.Intn(31)))
	}
	if v > maxSE {
		v = maxSE
	}
	if r.Bool() {
		v = -v
	}
	return v
}

func genSigned(r *runner.Rand, n int) int64 {
	if n == 64 {
		return int64(r.Uint64())
	}
	lo := -(int64(1) << uint(n-1))
	hi := int64(1)<<uint(n-1) - 1
	switch r.Intn(7) {
	case 0:
		return lo
	case 1:
		return hi
	case 2:
		return -1
	case 3:
		return 0
	case 4:
		if hi >= 1 {
			return 1
		}
		return 0
	}
	return lo + int64(r.Uint64()%uint64(hi-lo+1))
}

var unityMatrix = []uint32{0x00010000, 0, 0, 0, 0x00010000, 0, 0, 0, 0x40000000} // ISO/IEC 14496-12 8.2.2

func alphaBytes(r *runner.Rand, n int) []byte {
	b := make([]byte, n)
	for i := range b {
		if r.Chance(1, 5) {
			b[i] = byte(r.Intn(256))
		} else {
			b[i] = alphabet[r.Intn(len(alphabet))]
		}
	}
	return b
}

// genSeq builds a sequence for a pair.
func genSeq(r *runner.Rand, pair string) *seqCase {
	sc := &seqCase{Pair: pair, TrailAt: -1, RemAt: -1}
	sc.Dst = r.PickStr("", "", "plain-writer")
	sc.Src = r.PickStr("", "", "one-byte", "data+EOF", "hesitant")
	nops := 1 + r.Intn(60)
	if r.Chance(1, 50) {
		nops = 60 + r.Intn(340)
	}
	zeroHeavy := r.Chance(1, 2)
	pos := 0 // bit position (reference), for the ops that need alignment
	alignedAt := []int{}
	add := func(o op, nbits int) {
		if pos%8 == 0 {
			alignedAt = append(alignedAt, len(sc.Ops))
		}
		sc.Ops = append(sc.Ops, o)
		pos += nbits
	}
	bitOp := func() {
		switch k := r.Intn(10); {
		case k < 6:
			n := genWidth(r)
			if zeroHeavy && r.Chance(2, 3) {
				n = r.PickInt(8, 8, 16, 24, 32, 4, 12)
			}
			o := op{K: "u", N: n, V: genValue(r, n, zeroHeavy)}
			if r.Chance(1, 12) {
				o.Dirty = r.Uint64() | 1
			}
			add(o, n)
		case k < 8:
			add(op{K: "f", V: uint64(r.Intn(2))}, 1)
		default:
			if pair == "ebsp" {
				n := genWidth(r)
				add(op{K: "u", N: n, V: genValue(r, n, true)}, n)
			} else {
				n := genWidth(r)
				add(op{K: "s", N: n, S: genSigned(r, n)}, n)
			}
		}
	}
	alignWithU := func() {
		if pos%8 != 0 {
			n := 8 - pos%8
			add(op{K: "u", N: n, V: genValue(r, n, zeroHeavy)}, n)
		}
	}
	for len(sc.Ops) < nops {
		switch pair {
		case "writer-reader":
			if r.Chance(1, 8) {
				// ue(v) written as its two fixed-width parts (the plain Writer has no
				// Exp-Golomb function); read with Reader.ReadExpGolomb if the tree has one
				v := genUE(r)
				w := &bitw.W{}
				w.UE(v)
				add(op{K: "ue", V: v}, w.NBits())
				break
			}
			bitOp()
		case "ebsp":
			switch k := r.Intn(20); {
			case k < 9:
				bitOp()
			case k < 12:
				v := genUE(r)
				w := &bitw.W{}
				w.UE(v)
				add(op{K: "ue", V: v}, w.NBits())
			case k < 14:
				s := genSE(r)
				w := &bitw.W{}
				w.SE(s)
				add(op{K: "se", S: s}, w.NBits())
			case k < 16:
				v := uint64(r.PickInt(0, 1, 3, 4, 5, 254, 255, 256, 509, 510, 511, 764, 765, 1000, 70000))
				if r.Chance(1, 3) {
					v = uint64(r.Intn(2000))
				}
				add(op{K: "ff", V: v}, 8*(int(v)/255+1))
			case k < 18:
				n := r.Intn(9)
				add(op{K: "bytes", B: alphaBytes(r, n)}, 8*n)
			case k < 19:
				add(op{K: "align"}, (8-pos%8)%8)
			default:
				// rbsp_trailing_bits in the middle: the writer is used further afterwards
				// (cabac_zero_words, or several RBSPs through one writer)
				if r.Chance(1, 2) {
					alignWithU()
				}
				add(op{K: "trail"}, 8-pos%8)
				if r.Chance(1, 2) {
					n := 1 + r.Intn(4)
					add(op{K: "bytes", B: make([]byte, n)}, 8*n)
				}
			}
		case "fsw-reader":
			if r.Chance(2, 3) {
				bitOp()
				break
			}
			alignWithU()
			switch k := r.Intn(14); k {
			case 0:
				add(op{K: "u8", V: genValue(r, 8, zeroHeavy)}, 8)
			case 1:
				add(op{K: "u16", V: genValue(r, 16, zeroHeavy)}, 16)
			case 2:
				add(op{K: "u24", V: genValue(r, 24, zeroHeavy)}, 24)
			case 3:
				add(op{K: "u32", V: genValue(r, 32, zeroHeavy)}, 32)
			case 4:
				add(op{K: "u48", V: genValue(r, 48, zeroHeavy)}, 48)
			case 5:
				add(op{K: "u64", V: genValue(r, 64, zeroHeavy)}, 64)
			case 6:
				add(op{K: "i16", S: genSigned(r, 16)}, 16)
			case 7:
				add(op{K: "i32", S: genSigned(r, 32)}, 32)
			case 8:
				add(op{K: "i64", S: genSigned(r, 64)}, 64)
			case 9:
				n := r.Intn(6)
				add(op{K: "zeros", N: n}, 8*n)
			case 10:
				n := r.Intn(9)
				add(op{K: "bytes", B: alphaBytes(r, n)}, 8*n)
			case 11:
				n := r.Intn(6)
				add(op{K: "str", B: alphaBytes(r, n)}, 8*n)
			case 12:
				n := r.Intn(6)
				add(op{K: "str0", B: alphaBytes(r, n)}, 8*n+8)
			case 13:
				add(op{K: "matrix"}, 36*8)
			}
		case "bytewriter-reader":
			switch k := r.Intn(6); k {
			case 0:
				add(op{K: "u8", V: genValue(r, 8, zeroHeavy)}, 8)
			case 1:
				add(op{K: "u16", V: genValue(r, 16, zeroHeavy)}, 16)
			case 2:
				add(op{K: "u32", V: genValue(r, 32, zeroHeavy)}, 32)
			case 3:
				add(op{K: "u48", V: genValue(r, 48, zeroHeavy)}, 48)
			case 4:
				add(op{K: "u64", V: genValue(r, 64, zeroHeavy)}, 64)
			case 5:
				n := r.Intn(9)
				add(op{K: "bytes", B: alphaBytes(r, n)}, 8*n)
			}
		}
	}
	switch pair {
	case "ebsp":
		sc.End = "trailing"
		if r.Chance(1, 6) {
			sc.End = "stuff"
		} else if r.Chance(1, 3) {
			sc.Czw = r.PickInt(1, 1, 2, 3, 5)
			sc.CzwW = r.PickInt(8, 16, 16, 32)
			sc.Final03 = r.Chance(2, 3)
			sc.EndRead = r.PickStr("", "", "bits", "bytes")
		}
		// MoreRbspData scans to the end of the stream: all boundaries for
		// short sequences, a sample for long ones
		for i := 0; i <= len(sc.Ops); i++ {
			if len(sc.Ops) <= 40 || r.Chance(1, 10) {
				sc.MoreAt = append(sc.MoreAt, i)
			}
		}
		if r.Chance(1, 2) {
			sc.TrailAt = r.Intn(len(sc.Ops) + 1)
		}
	default:
		sc.End = "flush"
		if len(alignedAt) > 0 && r.Chance(1, 3) {
			sc.RemAt = alignedAt[r.Intn(len(alignedAt))]
		}
	}
	return sc
}

// refApply mirrors an op on the reference writer.
func refApply(w *bitw.W, o *op) {
	switch o.K {
	case "u":
		w.Put(o.V&mask(o.N), o.N)
	case "f":
		w.Put(o.V&1, 1)
	case "s":
		w.Put(uint64(o.S)&mask(o.N), o.N)
	case "ue":
		w.UE(o.V)
	case "se":
		w.SE(o.S)
	case "ff":
		v := o.V
		for v >= 255 {
			w.Put(0xff, 8)
			v -= 255
		}
		w.Put(v, 8)
	case "bytes", "str":
		w.PutBytes(o.B)
	case "str0":
		w.PutBytes(o.B)
		w.Put(0, 8)
	case "align":
		w.AlignZero()
	case "trail":
		w.TrailingBits()
	case "u8":
		w.Put(o.V, 8)
	case "u16":
		w.Put(o.V, 16)
	case "u24":
		w.Put(o.V, 24)
	case "u32":
		w.Put(o.V, 32)
	case "u48":
		w.Put(o.V, 48)
	case "u64":
		w.Put(o.V, 64)
	case "i16":
		w.Put(uint64(o.S)&0xffff, 16)
	case "i32":
		w.Put(uint64(o.S)&0xffffffff, 32)
	case "i64":
		w.Put(uint64(o.S), 64)
	case "zeros":
		for i := 0; i < o.N; i++ {
			w.Put(0, 8)
		}
	case "matrix":
		for _, x := range unityMatrix {
			w.Put(uint64(x), 32)
		}
	}
}

// ueParts splits the Exp-Golomb code of v (9.1): n zero bits, a one, then the
// n-bit suffix v+1-2^n.
func ueParts(v uint64) (n int, suffix uint64) {
	x := v + 1
	for t := x; t > 1; t >>= 1 {
		n++
	}
	return n, x - uint64(1)<<uint(n)
}

type ueReader interface{ ReadExpGolomb() uint }

func libArg(o *op) uint { return uint(o.V&mask(o.N) | o.Dirty<<uint(o.N)) }

type bitWriter interface{ Write(bits uint, n int) }

// checkSeq runs one sequence through its pair. Returns true if all held.
func checkSeq(c *runner.Ctx, sc *seqCase) bool {
	wit := &witness{Kind: "seq", Seq: sc}
	// reference stream and op boundaries (bit positions)
	rw := &bitw.W{}
	bounds := make([]int, len(sc.Ops)+1)
	for i := range sc.Ops {
		bounds[i] = rw.NBits()
		refApply(rw, &sc.Ops[i])
	}
	bounds[len(sc.Ops)] = rw.NBits()
	dataBits := rw.NBits()
	switch sc.End {
	case "trailing":
		rw.TrailingBits()
		for i := 0; i < sc.Czw; i++ {
			rw.Put(0, 16)
		}
	default:
		rw.AlignZero()
	}
	rbsp := rw.Bytes()
	fam := sc.Pair

	// ---- write through the library
	var out []byte
	var werr error
	var wnote string
	pi := c.Guard(func() {
		switch sc.Pair {
		case "writer-reader":
			var buf bytes.Buffer
			w := bits.NewWriter(newSink(sc.Dst, &buf))
			for i := range sc.Ops {
				o := &sc.Ops[i]
				switch o.K {
				case "u":
					w.Write(libArg(o), o.N)
				case "f":
					w.Write(uint(o.V), 1)
				case "s":
					w.Write(uint(o.S), o.N) // the n low bits of the two's complement
				case "ue":
					n, suffix := ueParts(o.V)
					w.Write(1, n+1)
					if n > 0 {
						w.Write(uint(suffix), n)
					}
				}
			}
			w.Flush()
			werr = w.AccError()
			out = buf.Bytes()
		case "ebsp":
			var buf bytes.Buffer
			w := bits.NewEBSPWriter(newSink(sc.Dst, &buf))
			for i := range sc.Ops {
				o := &sc.Ops[i]
				switch o.K {
				case "u":
					w.Write(libArg(o), o.N)
				case "f":
					w.Write(uint(o.V), 1)
				case "ue":
					w.WriteExpGolomb(uint(o.V))
				case "se":
					// the library has no signed writer: mapped codeNum (9.1.1)
					var k uint
					if o.S > 0 {
						k = uint(2*o.S - 1)
					} else {
						k = uint(-2 * o.S)
					}
					w.WriteExpGolomb(k)
				case "ff":
					w.WriteSEIValue(uint(o.V))
				case "bytes":
					for _, b := range o.B {
						w.Write(uint(b), 8)
					}
				case "align":
					w.StuffByteWithZeros()
				case "trail":
					w.WriteRbspTrailingBits()
				}
				if got := int(w.NrBitsInBuffer()); got != bounds[i+1]%8 && wnote == "" {
					wnote = fmt.Sprintf("after op %d (%s) NrBitsInBuffer() = %d, %d bits written so far", i, o.K, got, bounds[i+1])
				}
			}
			if sc.End == "trailing" {
				w.WriteRbspTrailingBits()
				for left := 16 * sc.Czw; left > 0; {
					n := sc.CzwW
					if n <= 0 || n > left {
						n = left
					}
					if n > 32 {
						n = 32
					}
					w.Write(0, n)
					left -= n
				}
			} else {
				w.StuffByteWithZeros()
			}
			if got := w.NrBitsInBuffer(); got != 0 && wnote == "" {
				wnote = fmt.Sprintf("NrBitsInBuffer() = %d after %s", got, sc.End)
			}
			werr = w.AccError()
			out = buf.Bytes()
		case "fsw-reader":
			w := bits.NewFixedSliceWriter(len(rbsp))
			if len(rbsp)%2 == 1 {
				w = bits.NewFixedSliceWriterFromSlice(make([]byte, len(rbsp)))
			}
			for i := range sc.Ops {
				o := &sc.Ops[i]
				switch o.K {
				case "u":
					w.WriteBits(libArg(o), o.N)
				case "f":
					w.WriteFlag(o.V == 1)
				case "s":
					w.WriteBits(uint(o.S), o.N)
				case "u8":
					w.WriteUint8(byte(o.V))
				case "u16":
					w.WriteUint16(uint16(o.V))
				case "u24":
					w.WriteUint24(uint32(o.V))
				case "u32":
					w.WriteUint32(uint32(o.V))
				case "u48":
					w.WriteUint48(o.V)
				case "u64":
					w.WriteUint64(o.V)
				case "i16":
					w.WriteInt16(int16(o.S))
				case "i32":
					w.WriteInt32(int32(o.S))
				case "i64":
					w.WriteInt64(o.S)
				case "zeros":
					w.WriteZeroBytes(o.N)
				case "bytes":
					w.WriteBytes(o.B)
				case "str":
					w.WriteString(string(o.B), false)
				case "str0":
					w.WriteString(string(o.B), true)
				case "matrix":
					w.WriteUnityMatrix()
				}
				if w.Len() != bounds[i+1]/8 && wnote == "" {
					wnote = fmt.Sprintf("after op %d (%s) Len() = %d, %d whole bytes written so far", i, o.K, w.Len(), bounds[i+1]/8)
				}
			}
			w.FlushBits()
			werr = w.AccError()
			out = w.Bytes()
			if (w.Len() != len(out) || w.Offset() != len(out) || w.Capacity() != len(rbsp)) && wnote == "" {
				wnote = fmt.Sprintf("Len %d Offset %d Capacity %d, len(Bytes()) %d, allocated %d", w.Len(), w.Offset(), w.Capacity(), len(out), len(rbsp))
			}
		case "bytewriter-reader":
			var buf bytes.Buffer
			w := bits.NewByteWriter(&buf)
			for i := range sc.Ops {
				o := &sc.Ops[i]
				switch o.K {
				case "u8":
					w.WriteUint8(byte(o.V))
				case "u16":
					w.WriteUint16(uint16(o.V))
				case "u32":
					w.WriteUint32(uint32(o.V))
				case "u48":
					w.WriteUint48(o.V)
				case "u64":
					w.WriteUint64(o.V)
				case "bytes":
					w.WriteSlice(o.B)
				}
			}
			werr = w.AccError()
			out = buf.Bytes()
		}
	})
	good := true
	stream := rbsp // what the reader will be given (before escaping)
	switch {
	case pi != nil:
		c.Violation(runner.PanicKey(fam+"/writer/panic", pi), "writer panicked: "+pi.Value, wit)
		good = false
	case werr != nil:
		c.Violation(fam+"/writer/error", "AccError() = "+werr.Error()+" (exact-size destination)", wit)
		good = false
	case sc.Pair == "ebsp":
		if !checkEscapedOutput(c, fam+"/writer", "", rbsp, out, wit) {
			good = false
		}
	default:
		if !bytes.Equal(out, rbsp) {
			c.Violation(fam+"/writer/differs-from-reference", fmt.Sprintf("writer emitted %x, reference bit layout %x", out, rbsp), wit)
			good = false
		}
	}
	if wnote != "" {
		c.Violation(fam+"/writer/position", wnote, wit)
		good = false
	}
	for i := range sc.Ops {
		c.Seen("op", sc.Pair+":"+sc.Ops[i].K)
		if sc.Ops[i].K == "u" || sc.Ops[i].K == "s" {
			c.Seen("width", fmt.Sprintf("%s:%02d", sc.Ops[i].K, sc.Ops[i].N))
			if sc.Ops[i].Dirty != 0 {
				c.Count("ops_dirty_high_bits", 1)
			}
		}
		if sc.Ops[i].K == "ue" {
			c.Seen("ue_code_bits", fmt.Sprintf("%02d", bounds[i+1]-bounds[i]))
		}
		if sc.Ops[i].K == "se" {
			c.Seen("se_code_bits", fmt.Sprintf("%02d", bounds[i+1]-bounds[i]))
		}
	}

	// ---- read back
	if sc.Pair == "ebsp" {
		if !readEBSP(c, sc, stream, bounds, dataBits, wit) {
			good = false
		}
	} else {
		if !readPlain(c, sc, stream, bounds, dataBits, wit) {
			good = false
		}
	}
	return good
}

// readPlain reads the (reference) stream through bits.Reader.
func readPlain(c *runner.Ctx, sc *seqCase, stream []byte, bounds []int, dataBits int, wit interface{}) bool {
	fam := sc.Pair
	ident := make([]int, len(stream))
	for i := range ident {
		ident[i] = i
	}
	var key, msg string
	pi := c.Guard(func() {
		r := bits.NewReader(newSource(sc.Src, stream))
		fail := func(k, m string) { key, msg = k, m }
		rd := func(i int, n int, want uint64) bool {
			got := r.Read(n)
			if err := r.AccError(); err != nil {
				fail("read-error", fmt.Sprintf("op %d (%s): Read(%d): %v", i, sc.Ops[i].K, n, err))
				return false
			}
			if uint64(got) != want {
				fail("value/"+sc.Ops[i].K, fmt.Sprintf("op %d (%s): Read(%d) = %#x, written %#x", i, sc.Ops[i].K, n, got, want))
				return false
			}
			return true
		}
		for i := range sc.Ops {
			if i == sc.RemAt {
				rest := r.ReadRemainingBytes()
				if r.AccError() != nil || !bytes.Equal(rest, stream[bounds[i]/8:]) {
					fail("read-remaining-bytes", fmt.Sprintf("at byte %d: ReadRemainingBytes = %x, err %v; stream tail %x", bounds[i]/8, rest, r.AccError(), stream[bounds[i]/8:]))
				}
				c.Count("read_remaining_bytes_calls", 1)
				return
			}
			o := &sc.Ops[i]
			switch o.K {
			case "u":
				if !rd(i, o.N, o.V&mask(o.N)) {
					return
				}
			case "f":
				got := r.ReadFlag()
				if r.AccError() != nil || got != (o.V == 1) {
					fail("value/f", fmt.Sprintf("op %d: ReadFlag = %v (err %v), written %d", i, got, r.AccError(), o.V))
					return
				}
			case "s":
				got := r.ReadSigned(o.N)
				if r.AccError() != nil || int64(got) != o.S {
					fail("value/s", fmt.Sprintf("op %d: ReadSigned(%d) = %d (err %v), written %d", i, o.N, got, r.AccError(), o.S))
					return
				}
			case "ue":
				if g, ok := interface{}(r).(ueReader); ok {
					got := g.ReadExpGolomb()
					if r.AccError() != nil || uint64(got) != o.V {
						fail("value/ue", fmt.Sprintf("op %d: Reader.ReadExpGolomb = %d (err %v), written %d", i, got, r.AccError(), o.V))
						return
					}
					c.Seen("bits_reader_has_ReadExpGolomb", "yes")
				} else {
					n, suffix := ueParts(o.V)
					if !rd(i, n+1, 1) || (n > 0 && !rd(i, n, suffix)) {
						return
					}
					c.Seen("bits_reader_has_ReadExpGolomb", "no (code read as two fixed-width fields)")
				}
			case "u8", "u16", "u24", "u32":
				n := map[string]int{"u8": 8, "u16": 16, "u24": 24, "u32": 32}[o.K]
				if !rd(i, n, o.V) {
					return
				}
			case "u48":
				if !rd(i, 16, o.V>>32) || !rd(i, 32, o.V&0xffffffff) {
					return
				}
			case "u64":
				if !rd(i, 32, o.V>>32) || !rd(i, 32, o.V&0xffffffff) {
					return
				}
			case "i16", "i32":
				n := map[string]int{"i16": 16, "i32": 32}[o.K]
				got := r.ReadSigned(n)
				if r.AccError() != nil || int64(got) != o.S {
					fail("value/"+o.K, fmt.Sprintf("op %d: ReadSigned(%d) = %d (err %v), written %d", i, n, got, r.AccError(), o.S))
					return
				}
			case "i64":
				if !rd(i, 32, uint64(o.S)>>32) || !rd(i, 32, uint64(o.S)&0xffffffff) {
					return
				}
			case "zeros":
				for k := 0; k < o.N; k++ {
					if !rd(i, 8, 0) {
						return
					}
				}
			case "bytes", "str":
				for _, b := range o.B {
					if !rd(i, 8, uint64(b)) {
						return
					}
				}
			case "str0":
				for _, b := range o.B {
					if !rd(i, 8, uint64(b)) {
						return
					}
				}
				if !rd(i, 8, 0) {
					return
				}
			case "matrix":
				for _, x := range unityMatrix {
					if !rd(i, 32, uint64(x)) {
						return
					}
				}
			}
			if m := checkCounters(r, bounds[i+1], ident); m != "" {
				fail("counters", fmt.Sprintf("after op %d (%s): %s", i, o.K, m))
				return
			}
		}
		if sc.RemAt == len(sc.Ops) {
			// remaining bytes from the end of the operations (aligned there)
			rest := r.ReadRemainingBytes()
			if r.AccError() != nil || len(rest) != 0 {
				fail("read-remaining-bytes", fmt.Sprintf("at the end: %x, %v", rest, r.AccError()))
			}
			return
		}
		// flush padding: zero bits to the byte boundary, then the documented EOF
		if pad := 8*len(stream) - dataBits; pad > 0 {
			if got := r.Read(pad); got != 0 || r.AccError() != nil {
				fail("flush-padding", fmt.Sprintf("%d padding bits read as %#x (err %v)", pad, got, r.AccError()))
				return
			}
		}
		if r.AccError() != nil {
			fail("error-at-exact-end", r.AccError().Error())
			return
		}
		r.Read(1)
		if r.AccError() == nil {
			fail("no-error-past-end", "Read(1) past the end left AccError nil")
		}
	})
	if pi != nil {
		c.Violation(runner.PanicKey(fam+"/reader/panic", pi), "reader panicked: "+pi.Value, wit)
		return false
	}
	if key != "" {
		c.Violation(fam+"/reader/"+key, msg, wit)
		return false
	}
	return true
}

// lastOneBit returns the position of the last 1 bit of b, or -1.
func lastOneBit(b []byte) int {
	for i := len(b) - 1; i >= 0; i-- {
		if b[i] != 0 {
			for k := 7; k >= 0; k-- {
				if b[i]>>uint(7-k)&1 == 1 {
					return 8*i + k
				}
			}
		}
	}
	return -1
}

// readEBSP reads the reference-escaped stream through bits.EBSPReader.
func readEBSP(c *runner.Ctx, sc *seqCase, rbsp []byte, bounds []int, dataBits int, wit interface{}) bool {
	fam := "ebsp"
	esc := bitw.Escape(rbsp)
	if sc.Final03 {
		var appended bool
		if esc, appended = bitw.EscapeFinal(rbsp); appended {
			c.Count("seq_streams_read_with_final_03", 1)
		}
	}
	escIdx := bitw.EscapedIndex(rbsp)
	if sc.Czw > 0 {
		c.Seen("seq_zero_words_after_trailing_bits", fmt.Sprintf("words=%d write-width=%d final03=%v end-read=%q", sc.Czw, sc.CzwW, sc.Final03, sc.EndRead))
	}
	c.Count("seq_escapes_in_reference_streams", int64(len(esc)-len(rbsp)))
	if len(esc) > len(rbsp) {
		c.Count("seq_streams_with_escapes", 1)
	}
	T := lastOneBit(rbsp)
	moreAt := map[int]bool{}
	for _, i := range sc.MoreAt {
		moreAt[i] = true
	}
	var key, msg string
	fail := func(k, m string) { key, msg = k, m }

	// readOps replays ops [0,upto) on r; returns false after fail().
	readOps := func(r *bits.EBSPReader, upto int, withMore bool) bool {
		for i := 0; i <= upto; i++ {
			if withMore && moreAt[i] && T >= bounds[i] && !(sc.End == "stuff" && bounds[i] >= 8*len(rbsp)) {
				more, err := r.MoreRbspData()
				want := bounds[i] < T
				if err != nil || r.AccError() != nil {
					fail("more-rbsp-data-error", fmt.Sprintf("before op %d: MoreRbspData error %v / AccError %v", i, err, r.AccError()))
					return false
				}
				if more != want {
					fail("more-rbsp-data", fmt.Sprintf("before op %d at payload bit %d: MoreRbspData = %v, last 1 bit of the RBSP is bit %d (rbsp %x)", i, bounds[i], more, T, rbsp))
					return false
				}
				c.Seen("more_rbsp_data_result", fmt.Sprint(more))
				if m := checkCounters(r, bounds[i], escIdx); m != "" {
					fail("more-rbsp-data-moved-position", fmt.Sprintf("after MoreRbspData before op %d: %s", i, m))
					return false
				}
			}
			if i == upto {
				break
			}
			o := &sc.Ops[i]
			switch o.K {
			case "u":
				got := r.Read(o.N)
				if r.AccError() != nil || uint64(got) != o.V&mask(o.N) {
					fail("value/u", fmt.Sprintf("op %d: Read(%d) = %#x (err %v), written %#x", i, o.N, got, r.AccError(), o.V&mask(o.N)))
					return false
				}
			case "f":
				got := r.ReadFlag()
				if r.AccError() != nil || got != (o.V == 1) {
					fail("value/f", fmt.Sprintf("op %d: ReadFlag = %v (err %v), written %d", i, got, r.AccError(), o.V))
					return false
				}
			case "ue":
				got := r.ReadExpGolomb()
				if r.AccError() != nil || uint64(got) != o.V {
					fail("value/ue", fmt.Sprintf("op %d: ReadExpGolomb = %d (err %v), written %d", i, got, r.AccError(), o.V))
					return false
				}
			case "se":
				got := r.ReadSignedGolomb()
				if r.AccError() != nil || int64(got) != o.S {
					fail("value/se", fmt.Sprintf("op %d: ReadSignedGolomb = %d (err %v), written %d", i, got, r.AccError(), o.S))
					return false
				}
			case "ff":
				var v uint64
				for {
					b := r.Read(8)
					if r.AccError() != nil {
						fail("value/ff", fmt.Sprintf("op %d: error %v", i, r.AccError()))
						return false
					}
					v += uint64(b)
					if b != 0xff {
						break
					}
				}
				if v != o.V {
					fail("value/ff", fmt.Sprintf("op %d: ff-run value read back as %d, written %d", i, v, o.V))
					return false
				}
			case "bytes":
				got := r.ReadBytes(len(o.B))
				if r.AccError() != nil || !bytes.Equal(got, o.B) {
					fail("value/bytes", fmt.Sprintf("op %d: ReadBytes(%d) = %x (err %v), written %x", i, len(o.B), got, r.AccError(), []byte(o.B)))
					return false
				}
			case "align":
				if n := bounds[i+1] - bounds[i]; n > 0 {
					if got := r.Read(n); got != 0 || r.AccError() != nil {
						fail("value/align", fmt.Sprintf("op %d: %d stuffing bits read as %#x (err %v)", i, n, got, r.AccError()))
						return false
					}
				}
			case "trail":
				n := bounds[i+1] - bounds[i]
				if got := r.Read(n); uint64(got) != uint64(1)<<uint(n-1) || r.AccError() != nil {
					fail("value/trail", fmt.Sprintf("op %d: %d trailing bits read as %#x (err %v)", i, n, got, r.AccError()))
					return false
				}
			}
			if bounds[i+1] > 0 {
				if m := checkCounters(r, bounds[i+1], escIdx); m != "" {
					fail("counters", fmt.Sprintf("after op %d (%s): %s (escaped stream %x)", i, o.K, m, esc))
					return false
				}
			}
		}
		return true
	}

	pi := c.Guard(func() {
		r := bits.NewEBSPReader(newSource(sc.Src, esc))
		if !readOps(r, len(sc.Ops), true) {
			return
		}
		if sc.End == "trailing" && sc.EndRead != "" {
			// the trailing bits and the zero words through Read / ReadBytes, then one
			// call more than the stream holds
			pos := dataBits
			n := 8 - pos%8
			if got := r.Read(n); uint64(got) != uint64(1)<<uint(n-1) || r.AccError() != nil {
				fail("value/trailing-bits", fmt.Sprintf("%d trailing bits read as %#x (err %v)", n, got, r.AccError()))
				return
			}
			pos += n
			if m := checkCounters(r, pos, escIdx); m != "" {
				fail("counters", fmt.Sprintf("after the trailing bits: %s (escaped stream %x)", m, esc))
				return
			}
			for pos < 8*len(rbsp) {
				if sc.EndRead == "bytes" {
					if got := r.ReadBytes(2); r.AccError() != nil || !bytes.Equal(got, []byte{0, 0}) {
						fail("value/zero-word", fmt.Sprintf("ReadBytes(2) of a zero word at payload bit %d = %x (err %v) (escaped stream %x)", pos, got, r.AccError(), esc))
						return
					}
				} else {
					if got := r.Read(16); r.AccError() != nil || got != 0 {
						fail("value/zero-word", fmt.Sprintf("Read(16) of a zero word at payload bit %d = %#x (err %v) (escaped stream %x)", pos, got, r.AccError(), esc))
						return
					}
				}
				pos += 16
				if m := checkCounters(r, pos, escIdx); m != "" {
					fail("counters", fmt.Sprintf("after a zero word: %s (escaped stream %x)", m, esc))
					return
				}
			}
			if sc.EndRead == "bytes" {
				if got := r.ReadBytes(1); got != nil || r.AccError() == nil {
					fail("no-error-past-end", fmt.Sprintf("ReadBytes(1) past the end returned %x, AccError %v", got, r.AccError()))
					return
				}
			} else {
				r.Read(1 + len(sc.Ops)%8)
				if r.AccError() == nil {
					fail("no-error-past-end", "Read past the end left AccError nil")
					return
				}
			}
			if m := checkEndCounters(r, len(esc)); m != "" {
				fail("counters-at-end", fmt.Sprintf("a %s call hit the end: %s (escaped stream %x)", sc.EndRead, m, esc))
				return
			}
			c.Seen("end_of_stream_reached_by", "Read/ReadBytes past the end: "+sc.EndRead)
		} else if sc.End == "trailing" {
			if err := r.ReadRbspTrailingBits(); err != nil || r.AccError() != nil {
				fail("trailing-bits-rejected", fmt.Sprintf("ReadRbspTrailingBits at the stop bit: %v / AccError %v (rbsp %x)", err, r.AccError(), rbsp))
				return
			}
			c.Seen("trailing_bits_check", "accepted-at-stop-bit")
			if m := checkEndCounters(r, len(esc)); m != "" {
				fail("trailing-bits-counters-at-end", fmt.Sprintf("ReadRbspTrailingBits scanned to the end: %s (escaped stream %x)", m, esc))
				return
			}
			c.Seen("end_of_stream_reached_by", "ReadRbspTrailingBits")
		} else {
			if pad := 8*len(rbsp) - dataBits; pad > 0 {
				if got := r.Read(pad); got != 0 || r.AccError() != nil {
					fail("value/stuffing", fmt.Sprintf("%d stuffing bits read as %#x (err %v)", pad, got, r.AccError()))
					return
				}
			}
			if r.AccError() != nil {
				fail("error-at-exact-end", r.AccError().Error())
				return
			}
			r.Read(1)
			if r.AccError() != io.EOF {
				c.Seen("ebspreader_past_end_error", fmt.Sprint(r.AccError()))
			}
			if r.AccError() == nil {
				fail("no-error-past-end", "Read(1) past the end left AccError nil")
				return
			}
			if m := checkEndCounters(r, len(esc)); m != "" {
				fail("counters-at-end", fmt.Sprintf("Read(1) hit the end: %s (escaped stream %x)", m, esc))
				return
			}
			c.Seen("end_of_stream_reached_by", "Read(1) past the end")
		}
	})
	if pi == nil && key == "" && sc.TrailAt >= 0 && sc.TrailAt <= len(sc.Ops) && T >= 0 {
		pi = c.Guard(func() {
			r := bits.NewEBSPReader(newSource(sc.Src, esc))
			if !readOps(r, sc.TrailAt, false) {
				return
			}
			p := bounds[sc.TrailAt]
			if p > T || p >= 8*len(rbsp) {
				return
			}
			err := r.ReadRbspTrailingBits()
			switch {
			case p == T && (err != nil || r.AccError() != nil):
				fail("trailing-bits-rejected", fmt.Sprintf("ReadRbspTrailingBits at bit %d = last 1 bit: %v / %v (rbsp %x)", p, err, r.AccError(), rbsp))
			case p < T && err == nil:
				fail("trailing-bits-accepted-early", fmt.Sprintf("ReadRbspTrailingBits at bit %d returned nil although the last 1 bit is bit %d (rbsp %x)", p, T, rbsp))
			case p < T:
				c.Seen("trailing_bits_check", "rejected-before-stop-bit")
			default:
				c.Seen("trailing_bits_check", "accepted-at-stop-bit")
				if m := checkEndCounters(r, len(esc)); m != "" {
					fail("trailing-bits-counters-at-end", fmt.Sprintf("ReadRbspTrailingBits at bit %d scanned to the end: %s (escaped stream %x)", p, m, esc))
				}
			}
		})
	}
	if pi != nil {
		c.Violation(runner.PanicKey(fam+"/reader/panic", pi), "EBSPReader panicked: "+pi.Value, wit)
		return false
	}
	if key != "" {
		c.Violation(fam+"/reader/"+key, msg, wit)
		return false
	}
	// MoreRbspData on a reader that cannot seek is documented to fail
	if len(sc.Ops)%16 == 0 {
		r := bits.NewEBSPReader(bytes.NewBuffer(esc))
		if _, err := r.MoreRbspData(); err == bits.ErrNotReadSeeker {
			c.Seen("more_rbsp_data_non_seeker", "ErrNotReadSeeker")
		} else {
			c.Seen("more_rbsp_data_non_seeker", fmt.Sprint(err))
		}
	}
	return true
}

var pairs = []string{"writer-reader", "ebsp", "ebsp", "fsw-reader", "bytewriter-reader", "ebsp"}

func runSeqBlock(c *runner.Ctx, blk int) {
	var ok int64
	h := [][]byte{}
	for i := 0; i < seqPerCase; i++ {
		pair := pairs[(blk+i)%len(pairs)]
		if pair == "bytewriter-reader" && i%4 != 0 {
			pair = "writer-reader"
		}
		sc := genSeq(c.Rand, pair)
		if checkSeq(c, sc) {
			ok++
		}
		c.Seen("pair", pair)
		c.Seen("seq_ops_class", lenClass(len(sc.Ops)))
		if i < 4 {
			h = append(h, []byte(fmt.Sprint(sc.Pair, sc.Ops)))
		}
		if i == 1 && c.WantSample() {
			short := *sc
			if len(short.Ops) > 12 {
				short.Ops = short.Ops[:12]
				short.MoreAt = nil
			}
			c.Sample(map[string]interface{}{"block": blk, "example_sequence(first<=12 ops)": short})
		}
	}
	c.Evals(seqPerCase)
	c.Count("sequences", seqPerCase)
	c.Count("sequences_ok", ok)
	c.Seen("block_kind", "random-sequences")
	if ok > 0 {
		c.Nontrivial(runner.Hash64(h...))
	}
}

func lenClass(n int) string {
	switch {
	case n <= 5:
		return "01-05"
	case n <= 20:
		return "06-20"
	case n <= 60:
		return "21-60"
	}
	return "61+"
}
