package c09

import (
	"bytes"
	"encoding/binary"
	"fmt"
	"math/big"

	"github.com/Eyevinn/mp4ff/bits"
	"github.com/Eyevinn/mp4ff/mp4"

	"verifharness/gen/prog"
	"verifharness/ref/boxwalk"
	"verifharness/ref/stbl"
	"verifharness/runner"
)

// Tables-only cases ("wide" tables). The table queries of the property never
// touch the media data, so a consistent set of tables needs no bytes behind it:
// these cases describe tracks that a generated file cannot hold - samples of up
// to 2^32-1 bytes, chunks of thousands of samples, chunks and intervals of many
// GiB, chunk offsets far beyond 2^32. The stbl box is serialized here (no mp4ff
// code), read back by ref/stbl and expanded per sample; that expansion is first
// compared with the generator's own record (computed with math/big) and is then
// the oracle for the same queries as in the file cases, on tables installed by
// mp4.DecodeBox / DecodeBoxSR of the stbl bytes and on tables installed through
// the public builders. There is no File: CopySampleData is not called.

func be32(v uint32) []byte { b := make([]byte, 4); binary.BigEndian.PutUint32(b, v); return b }
func be64(v uint64) []byte { b := make([]byte, 8); binary.BigEndian.PutUint64(b, v); return b }

// wideStblBytes serializes t.Tables as an stbl box.
func wideStblBytes(t *prog.Track) []byte {
	tb := &t.Tables
	var kids [][]byte
	kids = append(kids, prog.FullBox("stsd", 0, 0, append([][]byte{be32(uint32(len(t.Entries)))}, t.Entries...)...))
	{
		p := [][]byte{be32(uint32(len(tb.Stts)))}
		for _, r := range tb.Stts {
			p = append(p, be32(r.Count), be32(r.Delta))
		}
		kids = append(kids, prog.FullBox("stts", 0, 0, p...))
	}
	if t.HasCtts {
		p := [][]byte{be32(uint32(len(tb.Ctts)))}
		for _, r := range tb.Ctts {
			p = append(p, be32(r.Count), be32(uint32(r.Offset)))
		}
		kids = append(kids, prog.FullBox("ctts", t.CttsVersion, 0, p...))
	}
	if t.HasStss {
		p := [][]byte{be32(uint32(len(tb.Stss)))}
		for _, nr := range tb.Stss {
			p = append(p, be32(nr))
		}
		kids = append(kids, prog.FullBox("stss", 0, 0, p...))
	}
	if t.HasSdtp {
		kids = append(kids, prog.FullBox("sdtp", 0, 0, tb.Sdtp))
	}
	{
		p := [][]byte{be32(uint32(len(tb.Stsc)))}
		for _, e := range tb.Stsc {
			p = append(p, be32(e.FirstChunk), be32(e.SamplesPerChunk), be32(e.DescID))
		}
		kids = append(kids, prog.FullBox("stsc", 0, 0, p...))
	}
	{
		p := [][]byte{be32(tb.StszUniform), be32(uint32(len(tb.Sizes)))}
		if tb.StszUniform == 0 {
			for _, s := range tb.Sizes {
				p = append(p, be32(s))
			}
		}
		kids = append(kids, prog.FullBox("stsz", 0, 0, p...))
	}
	{
		p := [][]byte{be32(uint32(len(tb.ChunkOffsets)))}
		if t.Co64 {
			for _, o := range tb.ChunkOffsets {
				p = append(p, be64(o))
			}
			kids = append(kids, prog.FullBox("co64", 0, 0, p...))
		} else {
			for _, o := range tb.ChunkOffsets {
				p = append(p, be32(uint32(o)))
			}
			kids = append(kids, prog.FullBox("stco", 0, 0, p...))
		}
	}
	return prog.Box("stbl", kids...)
}

// wideRuns fills lens with runs of equal chunks of 1..maxSpc samples up to n samples.
func wideRuns(r *runner.Rand, n, maxSpc int) (lens []int) {
	left := n
	for left > 0 {
		spc := r.Range(1, maxSpc)
		for j, rl := 0, r.Range(1, 4); j < rl && left > 0; j++ {
			l := spc
			if l > left {
				l = left
			}
			lens = append(lens, l)
			left -= l
		}
	}
	return lens
}

func pow2Class(v uint64) string {
	switch {
	case v == 0:
		return "0"
	case v < 1<<10:
		return "<2^10"
	case v < 1<<20:
		return "2^10..2^20"
	case v < 1<<24:
		return "2^20..2^24"
	case v < 1<<28:
		return "2^24..2^28"
	case v < 1<<31:
		return "2^28..2^31"
	case v < 1<<32-1000:
		return "2^31..2^32-1000"
	case v < 1<<32:
		return "2^32-1000..2^32-1"
	case v < 1<<36:
		return "2^32..2^36"
	}
	return ">=2^36"
}

// genWide draws one tables-only track.
func genWide(r *runner.Rand, maxN int) (t *prog.Track, family string) {
	t = &prog.Track{ID: 1, Kind: r.PickStr("video", "audio")}
	t.Timescale = uint32(r.PickInt(1, 600, 1000, 12800, 44100, 48000, 90000, 10000000))
	family = r.PickStr("uniform-huge", "uniform-huge", "uniform-max", "explicit-huge", "many-per-chunk")
	var lens []int
	var sizes []uint32
	var uniform uint32
	switch family {
	case "uniform-huge":
		// count x size passes 2^32 inside a chunk: size 2^20..2^32-1, chunks of 0.3..3 times 2^32 bytes
		e := uint(r.Range(20, 31))
		s := uint64(1) << e
		if !r.Chance(1, 5) {
			s += r.Uint64() % s
		}
		if s > 1<<32-1 {
			s = 1<<32 - 1
		}
		uniform = uint32(s)
		wrap := int((uint64(1)<<32 + s - 1) / s)
		total := 0
		for i, runs := 0, r.Range(1, 3); i < runs; i++ {
			spc := wrap * r.Range(3, 30) / 10
			if r.Chance(1, 6) {
				spc = wrap + r.Range(-1, 1) // the chunk total is next to 2^32
			}
			if spc < 1 {
				spc = 1
			}
			if spc > maxN {
				spc = maxN
			}
			for j, cnt := 0, r.Range(1, 3); j < cnt; j++ {
				if total+spc > maxN && len(lens) > 0 {
					break
				}
				lens = append(lens, spc)
				total += spc
			}
		}
		if last := lens[len(lens)-1]; last > 1 && total < maxN && r.Chance(1, 3) {
			l := r.Range(1, last-1)
			if total+l > maxN {
				l = maxN - total
			}
			lens = append(lens, l)
		}
	case "uniform-max":
		uniform = uint32(r.PickU64(1<<32-1, 1<<32-2, 1<<32-1-uint64(r.Intn(1000)), 1<<31, 1<<31+1, 1<<31-1, 3<<30, 1<<32-1<<16, 1<<30))
		lens = wideRuns(r, r.Range(2, 48), 6)
	case "explicit-huge":
		n := r.Range(2, 48)
		if r.Chance(1, 5) {
			n = r.Range(49, 300)
		}
		lens = wideRuns(r, n, 12)
		sizes = make([]uint32, n)
		for i := range sizes {
			switch r.Intn(6) {
			case 0:
				sizes[i] = uint32(1<<32 - 1 - uint64(r.Intn(16)))
			case 1:
				sizes[i] = uint32(1<<31 - 2 + uint64(r.Intn(4)))
			case 2:
				sizes[i] = uint32(r.Range(1, 3)) << 30
			case 3:
				sizes[i] = r.Uint32()
			case 4:
				sizes[i] = uint32(r.Range(0, 1000))
			default:
				sizes[i] = uint32(r.Range(1<<20, 1<<28))
			}
		}
	default: // many-per-chunk: small samples, chunks of 50..3000 samples
		target := r.Range(200, maxN)
		total := 0
		for total < target {
			spc := r.Range(50, 3000)
			for j, cnt := 0, r.Range(1, 3); j < cnt && total < target; j++ {
				l := spc
				if total+l > maxN {
					l = maxN - total
				}
				if l == 0 {
					break
				}
				lens = append(lens, l)
				total += l
			}
			if total >= maxN {
				break
			}
		}
		if r.Bool() {
			uniform = uint32(r.Range(1, 5000))
		} else {
			sizes = make([]uint32, total)
			lo := r.Intn(2)
			for i := range sizes {
				sizes[i] = uint32(r.Range(lo, 5000))
			}
		}
	}
	n := 0
	for _, l := range lens {
		n += l
	}
	if uniform != 0 {
		sizes = make([]uint32, n)
		for i := range sizes {
			sizes[i] = uniform
		}
	}
	tb := &t.Tables
	tb.StszUniform, tb.Sizes = uniform, sizes
	t.UniformStsz = uniform != 0
	t.ChunkLens = lens
	t.Samples = make([]prog.Sample, n) // only the count is used

	// sample descriptions and stsc
	nDesc := 1
	if r.Chance(1, 4) {
		nDesc = 2
	}
	for i := 0; i < nDesc; i++ {
		switch {
		case entries == nil:
			t.Entries = append(t.Entries, prog.OpaqueEntry(t.Kind, byte(i+1)))
		case t.Kind == "video":
			t.Entries = append(t.Entries, entries.Video[r.Intn(len(entries.Video))])
		default:
			t.Entries = append(t.Entries, entries.Audio[r.Intn(len(entries.Audio))])
		}
	}
	t.ChunkDesc = make([]uint32, len(lens))
	for i := 0; i < len(lens); {
		d := uint32(r.Range(1, nDesc))
		for j, rl := 0, r.Range(1, 4); j < rl && i < len(lens); j++ {
			t.ChunkDesc[i] = d
			i++
		}
	}
	split := map[int]bool{}
	if r.Chance(1, 4) {
		for i, k := 0, r.Range(1, 3); i < k && len(lens) > 1; i++ {
			split[r.Range(1, len(lens)-1)] = true
		}
	}
	for ci, l := range lens {
		if m := len(tb.Stsc); m == 0 || tb.Stsc[m-1].SamplesPerChunk != uint32(l) || tb.Stsc[m-1].DescID != t.ChunkDesc[ci] || split[ci] {
			tb.Stsc = append(tb.Stsc, prog.StscEntry{FirstChunk: uint32(ci + 1), SamplesPerChunk: uint32(l), DescID: t.ChunkDesc[ci]})
		}
	}

	// stts: 1..3 runs
	{
		runs := r.Range(1, 3)
		if runs > n {
			runs = n
		}
		left := n
		for i := 0; i < runs; i++ {
			cnt := left
			if i < runs-1 {
				cnt = r.Range(1, left-(runs-1-i))
			}
			tb.Stts = append(tb.Stts, prog.SttsRun{Count: uint32(cnt), Delta: uint32(r.Range(1, 4000))})
			left -= cnt
		}
		for _, e := range tb.Stts {
			t.TotalDuration += uint64(e.Count) * uint64(e.Delta)
		}
	}
	if r.Chance(1, 4) {
		t.HasCtts = true
		t.CttsVersion = byte(r.Intn(2))
		unit := int32(r.Range(1, 3000))
		for left := n; left > 0; {
			cnt := r.Range(1, 8)
			if r.Chance(1, 4) {
				cnt = r.Range(1, left)
			}
			if cnt > left {
				cnt = left
			}
			v := int32(r.Intn(5)) * unit
			if t.CttsVersion == 1 && r.Chance(1, 3) {
				v = -v
			}
			tb.Ctts = append(tb.Ctts, prog.CttsRun{Count: uint32(cnt), Offset: v})
			left -= cnt
		}
	}
	switch r.Intn(4) {
	case 0:
		t.HasStss = true
		g := r.Range(1, 30)
		tb.Stss = []uint32{}
		for i := 0; i < n; i += g {
			tb.Stss = append(tb.Stss, uint32(i+1))
		}
	case 1:
		t.HasStss = true
		tb.Stss = []uint32{}
		for i := 0; i < n; i++ {
			if r.Chance(1, 5) {
				tb.Stss = append(tb.Stss, uint32(i+1))
			}
		}
	}
	if r.Chance(1, 6) {
		t.HasSdtp = true
		tb.Sdtp = r.Bytes(n)
	}

	// chunk offsets: the chunks lie behind each other (1 in 5: in another order than their numbers), with gaps
	chunkBytes := make([]uint64, len(lens))
	k := 0
	for ci, l := range lens {
		for j := 0; j < l; j++ {
			chunkBytes[ci] += uint64(sizes[k])
			k++
		}
	}
	order := make([]int, len(lens))
	for i := range order {
		order[i] = i
	}
	if r.Chance(1, 5) {
		order = r.Perm(len(lens))
	}
	pos := uint64(r.Range(8, 5000))
	if r.Chance(1, 8) {
		pos = 1<<32 - uint64(r.Range(1, 1<<20))
	}
	tb.ChunkOffsets = make([]uint64, len(lens))
	var maxOff uint64
	for _, ci := range order {
		switch r.Intn(16) {
		case 0:
			pos += 1<<33 + r.Uint64()%(1<<36)
		case 1, 2, 3:
			pos += uint64(r.Range(1, 999))
		}
		tb.ChunkOffsets[ci] = pos
		if pos > maxOff {
			maxOff = pos
		}
		pos += chunkBytes[ci]
	}
	t.Co64 = maxOff >= 1<<32 || r.Bool()
	return t, family
}

// wideSelfCheck compares the reference expansion with the generator's record, using math/big for every sum.
func wideSelfCheck(t *prog.Track, S []stbl.SampleInfo, CH []stbl.ChunkInfo) bool {
	tb := &t.Tables
	if len(S) != len(tb.Sizes) || len(CH) != len(t.ChunkLens) {
		return false
	}
	k := 0
	for ci, l := range t.ChunkLens {
		ch := CH[ci]
		if ch.Nr != ci+1 || ch.FirstSample != k+1 || ch.NrSamples != l || ch.Offset != tb.ChunkOffsets[ci] || ch.DescID != t.ChunkDesc[ci] {
			return false
		}
		off := new(big.Int).SetUint64(tb.ChunkOffsets[ci])
		for j := 0; j < l; j++ {
			s := S[k]
			if !off.IsUint64() || s.Offset != off.Uint64() || s.Size != tb.Sizes[k] || s.Chunk != ci+1 || s.FirstInChunk != ch.FirstSample || s.DescID != t.ChunkDesc[ci] {
				return false
			}
			off.Add(off, new(big.Int).SetUint64(uint64(tb.Sizes[k])))
			k++
		}
		end := new(big.Int).Add(new(big.Int).SetUint64(ch.Offset), new(big.Int).SetUint64(ch.Size))
		if end.Cmp(off) != 0 {
			return false
		}
	}
	// decode times
	k = 0
	dt := new(big.Int)
	for _, e := range tb.Stts {
		for j := uint32(0); j < e.Count; j++ {
			if k >= len(S) || !dt.IsUint64() || S[k].DecodeTime != dt.Uint64() || S[k].Dur != e.Delta {
				return false
			}
			dt.Add(dt, big.NewInt(int64(e.Delta)))
			k++
		}
	}
	return k == len(S)
}

func runWide(c *runner.Ctx, idx int) {
	c.Seen("case_kind", "tables-only")
	maxN := 6000
	if c.Env.Tier == "thorough" {
		maxN = 12000
	}
	gt, family := genWide(c.Rand, maxN)
	raw := wideStblBytes(gt)
	nodes, werr := boxwalk.Walk(raw)
	if werr != nil || len(nodes) != 1 || nodes[0].Type != "stbl" {
		c.Inconclusive("harness-selfcheck: the serialized tables-only stbl does not tile")
		return
	}
	tb, perr := stbl.ParseStbl(raw, nodes[0])
	if perr != nil {
		c.Inconclusive("harness-selfcheck: reference reader rejects the tables-only stbl")
		return
	}
	S, CH, xerr := tb.Expand()
	if xerr != nil || !wideSelfCheck(gt, S, CH) {
		c.Inconclusive("harness-selfcheck: reference expansion differs from the generator's record")
		return
	}
	tr := &stbl.Track{ID: gt.ID, Timescale: gt.Timescale, Tables: tb, Samples: S, Chunks: CH, TotalDuration: gt.TotalDuration}
	n := len(S)
	var maxChunk, total uint64
	for _, ch := range CH {
		if ch.Size > maxChunk {
			maxChunk = ch.Size
		}
		total += ch.Size
	}
	maxSpc := 0
	for _, l := range gt.ChunkLens {
		if l > maxSpc {
			maxSpc = l
		}
	}
	label := fmt.Sprintf("tables-only %s N=%d stts=%d ctts=%d/v%d stsc=%d descs=%d chunks=%d uniform=%d co64=%v stss=%v sdtp=%v largest-chunk=%d bytes", family, n, len(gt.Tables.Stts), len(gt.Tables.Ctts), gt.CttsVersion,
		len(gt.Tables.Stsc), len(gt.Entries), len(gt.ChunkLens), gt.Tables.StszUniform, gt.Co64, gt.HasStss, gt.HasSdtp, maxChunk)
	c.Seen("wide_family", family)
	c.Seen("wide_largest_chunk_bytes", pow2Class(maxChunk))
	c.Seen("wide_track_bytes", pow2Class(total))
	c.Seen("wide_samples_per_chunk", nClass(maxSpc))
	if gt.Tables.StszUniform != 0 {
		c.Seen("wide_uniform_size", pow2Class(uint64(gt.Tables.StszUniform)))
		if maxChunk >= 1<<32 {
			c.Count("tables-only tracks with uniform size and a chunk of >=2^32 bytes", 1)
		}
	}
	c.Seen("N", nClass(n))
	c.Seen("stts_runs", cntClass(len(gt.Tables.Stts)))
	c.Seen("stsc_entries", cntClass(len(gt.Tables.Stsc)))
	c.Seen("descriptions", fmt.Sprint(len(gt.Entries)))
	c.Seen("ctts", map[bool]string{false: "absent", true: fmt.Sprintf("v%d", gt.CttsVersion)}[gt.HasCtts])
	c.Seen("stsz", map[bool]string{false: "explicit", true: "uniform"}[gt.Tables.StszUniform != 0])
	c.Seen("chunk_offsets", map[bool]string{false: "stco", true: "co64"}[gt.Co64])
	c.Seen("stss", stssClass(gt))
	c.Seen("sdtp", fmt.Sprint(gt.HasSdtp))
	cut := func(n int) int { // the first 64 rows of a table are enough for a witness
		if n > 64 {
			return 64
		}
		return n
	}
	extra := map[string]interface{}{"tables_only": map[string]interface{}{"family": family, "nr_samples": n, "stts": gt.Tables.Stts, "stsc": gt.Tables.Stsc[:cut(len(gt.Tables.Stsc))],
		"stsz_uniform": gt.Tables.StszUniform, "sizes": gt.Tables.Sizes[:cut(n)], "chunk_offsets": gt.Tables.ChunkOffsets[:cut(len(CH))], "co64": gt.Co64, "chunk_lens": gt.ChunkLens[:cut(len(CH))]}}

	// path 1: the stbl bytes decoded by the library
	var box mp4.Box
	var err error
	viaSR := c.Rand.Chance(1, 3)
	c.Seen("decode_path", map[bool]string{true: "DecodeBoxSR(stbl)", false: "DecodeBox(stbl)"}[viaSR])
	pi := c.Guard(func() {
		if viaSR {
			box, err = mp4.DecodeBoxSR(0, bits.NewFixedSliceReader(raw))
		} else {
			box, err = mp4.DecodeBox(0, bytes.NewReader(raw))
		}
	})
	if pi != nil {
		c.Violation(runner.PanicKey("DecodeBox", pi), "DecodeBox panics on a consistent stbl box: "+pi.Value, map[string]interface{}{"shape": label, "stack": pi.Stack})
		return
	}
	sb, isStbl := box.(*mp4.StblBox)
	if err != nil || !isStbl {
		c.Violation("decode/rejected", fmt.Sprintf("DecodeBox does not accept a consistent stbl box (%s): %v", label, err), map[string]interface{}{"shape": label})
		return
	}
	var evals int64
	k := &checker{c: c, path: "decoded", label: label, gt: gt, ref: tr, small: n <= 48, extra: extra}
	var trak *mp4.TrakBox
	if k.guard("builders", "", func() {
		minf := mp4.NewMinfBox()
		minf.AddChild(sb)
		mdia := mp4.NewMdiaBox()
		mdia.AddChild(minf)
		trak = mp4.NewTrakBox()
		trak.AddChild(mdia)
	}) && trak != nil {
		k.checkTrack(nil, trak, nil)
		k.editPasses(trak)
	}
	evals += k.n

	// path 2: the public builders
	kb := &checker{c: c, path: "builder", label: label, gt: gt, ref: tr, small: n <= 48, extra: extra}
	if _, btrak := kb.build(nil); btrak != nil {
		kb.checkTrack(nil, btrak, nil)
		kb.editPasses(btrak)
	}
	evals += kb.n
	c.Evals(evals)
	if len(gt.Tables.Stsc) >= 2 || len(gt.Tables.Stts) >= 2 {
		c.Nontrivial(runner.Hash64(raw))
	}
	if c.WantSample() {
		c.Sample(map[string]interface{}{"shape": label, "stbl_bytes": len(raw), "query_evaluations": evals, "stts": gt.Tables.Stts, "stsc": gt.Tables.Stsc[:cut(len(gt.Tables.Stsc))]})
	}
}
