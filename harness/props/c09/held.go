package c09

import (
	"fmt"

	"github.com/Eyevinn/mp4ff/mp4"
)

// Held results. A query of the property "returns what the naive expansion
// gives": the value handed to the caller is the answer for that interval and
// stays the answer while the caller goes on querying the same track (a caller
// that plans the reads of several segments first collects the chunks/ranges of
// all of them). heldSet keeps the very slices a query returned for a few
// earlier intervals together with a copy made at return time (that copy is what
// was compared with the expansion); after every later group of queries on the
// same boxes the slices are compared with their copies again.
//
// Four slots per query with replacement periods 2, 7, 31 and 127 intervals, so
// that a held result sees both the very next calls and long runs of later calls
// (other first chunks, shorter and longer results, the internal lookups of
// GetRangesForSampleInterval and CopySampleData). The choice depends on the
// interval index only (no draw from the case's random stream).
type heldSlot struct {
	used  bool
	iv    [2]int
	at    int         // index of the interval the result belongs to
	got   interface{} // the slice the library returned
	snap  interface{} // copy made when it was returned
	later int         // calls of the same query made since
}

// heldSet works on one slice type (the module's language level has no type
// parameters): clone copies a slice, diff gives the index of the first element
// that differs (or the shorter length; -1: same), elem prints one element.
type heldSet struct {
	query string
	size  func(v interface{}) int
	clone func(v interface{}) interface{}
	diff  func(a, b interface{}) int
	elem  func(v interface{}, i int) string
	slots [4]heldSlot
	last  interface{} // the latest result of the query (for the evidence counter only)
}

var heldPeriods = [4]int{2, 7, 31, 127}

// offer is called with every successful result; it may take it into a slot.
func (h *heldSet) offer(idx int, iv [2]int, got interface{}) {
	var snap interface{}
	for j, p := range heldPeriods {
		if h.slots[j].used {
			h.slots[j].later++
		}
		if idx%p != 0 || h.size(got) == 0 {
			continue
		}
		if snap == nil {
			snap = h.clone(got)
		}
		h.slots[j] = heldSlot{used: true, iv: iv, at: idx, got: got, snap: snap}
	}
	h.last = got
}

// recheck compares every held slice with the copy made when it was returned.
func (h *heldSet) recheck(k *checker, after string) {
	n, withOther := 0, 0
	for j := range h.slots {
		s := &h.slots[j]
		if !s.used {
			continue
		}
		n++
		if h.last != nil && h.diff(h.last, s.snap) >= 0 {
			withOther++
		}
		first := h.diff(s.got, s.snap)
		if first < 0 {
			continue
		}
		s.used = false
		was, now := "(no such element)", "(no such element)"
		if first < h.size(s.snap) {
			was = h.elem(s.snap, first)
		}
		if first < h.size(s.got) {
			now = h.elem(s.got, first)
		}
		d := k.detail(s.iv, fmt.Sprintf("%+v", s.got), fmt.Sprintf("%+v", s.snap))
		d["later_calls_of_this_query"] = s.later
		d["first_changed_element"] = first
		k.c.Violation(h.query+"/earlier-result-changed-by-later-call/"+k.path,
			fmt.Sprintf("the result %s(%d,%d) returned changed after later queries on the same track (%d later calls of this query, seen after %s): element %d was %s when it was returned and reads %s now (%s)",
				h.query, s.iv[0], s.iv[1], s.later, after, first, was, now, k.label), d)
	}
	k.heldChecks += int64(n)
	k.heldChecksOther += int64(withOther)
}

func newHeldChunks() *heldSet {
	return &heldSet{query: "Stsc.GetContainingChunks",
		size:  func(v interface{}) int { return len(v.([]mp4.Chunk)) },
		clone: func(v interface{}) interface{} { return append([]mp4.Chunk(nil), v.([]mp4.Chunk)...) },
		elem:  func(v interface{}, i int) string { return fmt.Sprintf("%+v", v.([]mp4.Chunk)[i]) },
		diff: func(a, b interface{}) int {
			x, y := a.([]mp4.Chunk), b.([]mp4.Chunk)
			for i := range x {
				if i >= len(y) || x[i] != y[i] {
					return i
				}
			}
			if len(y) > len(x) {
				return len(x)
			}
			return -1
		}}
}

func newHeldRanges() *heldSet {
	return &heldSet{query: "Trak.GetRangesForSampleInterval",
		size:  func(v interface{}) int { return len(v.([]mp4.DataRange)) },
		clone: func(v interface{}) interface{} { return append([]mp4.DataRange(nil), v.([]mp4.DataRange)...) },
		elem:  func(v interface{}, i int) string { return fmt.Sprintf("%+v", v.([]mp4.DataRange)[i]) },
		diff: func(a, b interface{}) int {
			x, y := a.([]mp4.DataRange), b.([]mp4.DataRange)
			for i := range x {
				if i >= len(y) || x[i] != y[i] {
					return i
				}
			}
			if len(y) > len(x) {
				return len(x)
			}
			return -1
		}}
}

func newHeldSamples() *heldSet {
	return &heldSet{query: "Trak.GetSampleData",
		size:  func(v interface{}) int { return len(v.([]mp4.Sample)) },
		clone: func(v interface{}) interface{} { return append([]mp4.Sample(nil), v.([]mp4.Sample)...) },
		elem:  func(v interface{}, i int) string { return fmt.Sprintf("%+v", v.([]mp4.Sample)[i]) },
		diff: func(a, b interface{}) int {
			x, y := a.([]mp4.Sample), b.([]mp4.Sample)
			for i := range x {
				if i >= len(y) || x[i] != y[i] {
					return i
				}
			}
			if len(y) > len(x) {
				return len(x)
			}
			return -1
		}}
}
