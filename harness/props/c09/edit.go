package c09

import (
	"fmt"

	"github.com/Eyevinn/mp4ff/mp4"

	"verifharness/gen/prog"
	"verifharness/ref/boxwalk"
	"verifharness/ref/stbl"
	"verifharness/runner"
)

// Queries between table edits. The tables of a track are public: SampleSize,
// SampleTimeDelta, SampleOffset, SampleNumber, Entries (sdtp) and ChunkOffset are
// exported slices of the boxes, whether the boxes were decoded or made through
// the builders, and a caller that re-writes a sample, shifts the media data or
// re-times a track assigns to their elements. A query "returns what the naive
// expansion of the tables gives": of the tables as they are when it is asked.
//
// After the normal query pass on a track the tables are changed IN PLACE on the
// very box objects that have just been queried (element assignments only: every
// count stays what it was, the set of tables stays consistent), the same edits
// are made on a copy of the generator's record, that record is serialized by the
// harness, read back and expanded by ref/stbl, and the whole query pass runs
// again on the same boxes against the new expansion: every interval and sample
// number is queried before and after the edit (query -> edit -> query), one
// track in four is edited and queried a second time.
//
// The edits (at least one per round):
//   sizes    1..3 elements of StszBox.SampleSize (explicit tables); a sample that
//            grows pushes every chunk behind its own chunk back by the same
//            amount (the chunks must not overlap), or shrinks instead when the
//            offsets have no room (stco)
//   offsets  every chunk from a random chunk on (in file order) moves back
//   stts     SampleTimeDelta of a run with samples (new delta 1..3001)
//   ctts     SampleOffset of one entry
//   stss     one SampleNumber moves between its neighbours
//   sdtp     one Entries element
// stsc is left alone (an edit that keeps the counts can only change description
// ids, see the assumption on GetSampleDescriptionID).
//
// The random choices come from a stream of their own (keyed by the tables), so
// the case's stream and with it the rest of the workload is what it was.

func cloneTrack(gt *prog.Track) *prog.Track {
	g := *gt
	tb := gt.Tables
	g.Tables = prog.Tables{
		Stts:         append([]prog.SttsRun(nil), tb.Stts...),
		Ctts:         append([]prog.CttsRun(nil), tb.Ctts...),
		Stsc:         append([]prog.StscEntry(nil), tb.Stsc...),
		StszUniform:  tb.StszUniform,
		Sizes:        append([]uint32(nil), tb.Sizes...),
		Stss:         append([]uint32(nil), tb.Stss...),
		Sdtp:         append([]byte(nil), tb.Sdtp...),
		ChunkOffsets: append([]uint64(nil), tb.ChunkOffsets...),
	}
	return &g
}

// expandEdited serializes the edited record with the harness's own writer and
// expands it with ref/stbl; nil when the reference does not reproduce the record.
func expandEdited(gt *prog.Track, old *stbl.Track) *stbl.Track {
	raw := wideStblBytes(gt)
	nodes, werr := boxwalk.Walk(raw)
	if werr != nil || len(nodes) != 1 || nodes[0].Type != "stbl" {
		return nil
	}
	tb, perr := stbl.ParseStbl(raw, nodes[0])
	if perr != nil {
		return nil
	}
	S, CH, xerr := tb.Expand()
	if xerr != nil || len(S) != len(old.Samples) || len(CH) != len(old.Chunks) || len(CH) != len(gt.Tables.ChunkOffsets) {
		return nil
	}
	sync := map[uint32]bool{}
	for _, nr := range gt.Tables.Stss {
		sync[nr] = true
	}
	var total uint64
	for i, s := range S {
		if s.Size != gt.Tables.Sizes[i] || (gt.HasStss && s.Sync != sync[uint32(i+1)]) || (gt.HasSdtp && s.Sdtp != gt.Tables.Sdtp[i]) ||
			s.Chunk != old.Samples[i].Chunk || s.FirstInChunk != old.Samples[i].FirstInChunk {
			return nil
		}
		total += uint64(s.Dur)
	}
	for j, ch := range CH {
		if ch.Offset != gt.Tables.ChunkOffsets[j] {
			return nil
		}
	}
	return &stbl.Track{ID: old.ID, Timescale: old.Timescale, Tables: tb, Samples: S, Chunks: CH, TotalDuration: total}
}

// tableEditor changes the library's boxes and the record together.
type tableEditor struct {
	k   *checker
	r   *runner.Rand
	sb  *mp4.StblBox
	gt  *prog.Track // the copy that takes the edits
	ref *stbl.Track // expansion before this round (chunk of a sample: stsc is not edited)
	log []string
}

func (e *tableEditor) offsetLimit() uint64 {
	if e.gt.Co64 {
		return 1 << 62
	}
	return 1<<32 - 1
}

func (e *tableEditor) offsetsInstalled() bool {
	n := len(e.gt.Tables.ChunkOffsets)
	if e.gt.Co64 {
		return e.sb.Co64 != nil && len(e.sb.Co64.ChunkOffset) == n
	}
	return e.sb.Stco != nil && len(e.sb.Stco.ChunkOffset) == n
}

// shift moves every chunk for which sel(offset) holds back by d; false (nothing changed) when there is no room.
func (e *tableEditor) shift(d uint64, sel func(off uint64) bool) (moved int, ok bool) {
	offs := e.gt.Tables.ChunkOffsets
	if !e.offsetsInstalled() {
		return 0, false
	}
	for _, o := range offs {
		if sel(o) && (o+d > e.offsetLimit() || o+d < o) {
			return 0, false
		}
	}
	for j, o := range offs {
		if !sel(o) {
			continue
		}
		offs[j] = o + d
		if e.gt.Co64 {
			e.sb.Co64.ChunkOffset[j] = o + d
		} else {
			e.sb.Stco.ChunkOffset[j] = uint32(o + d)
		}
		moved++
	}
	return moved, true
}

func (e *tableEditor) sizes() bool {
	tb := &e.gt.Tables
	stsz := e.sb.Stsz
	n := len(tb.Sizes)
	if tb.StszUniform != 0 || stsz == nil || stsz.SampleUniformSize != 0 || len(stsz.SampleSize) != n || n == 0 {
		return false
	}
	done := false
	for cnt := 1 + e.r.Intn(3); cnt > 0; cnt-- {
		i := e.r.Intn(n)
		old := tb.Sizes[i]
		var nv uint32
		if old >= 1<<20 {
			nv = e.r.Uint32() | 1
		} else {
			nv = uint32(1 + e.r.Intn(2*int(old)+64))
		}
		if nv == old {
			nv++
		}
		note := ""
		if nv > old {
			d := uint64(nv - old)
			own := tb.ChunkOffsets[e.ref.Samples[i].Chunk-1]
			if moved, ok := e.shift(d, func(off uint64) bool { return off > own }); ok {
				note = fmt.Sprintf(", %d chunk offsets behind chunk %d +%d", moved, e.ref.Samples[i].Chunk, d)
			} else if old >= 2 {
				nv = old / 2
			} else {
				continue
			}
		}
		stsz.SampleSize[i] = nv
		tb.Sizes[i] = nv
		e.log = append(e.log, fmt.Sprintf("Stsz.SampleSize[%d] %d -> %d%s", i, old, nv, note))
		done = true
	}
	return done
}

func (e *tableEditor) offsets() bool {
	offs := e.gt.Tables.ChunkOffsets
	if len(offs) == 0 {
		return false
	}
	c := e.r.Intn(len(offs))
	from := offs[c]
	d := uint64(1 + e.r.Intn(5000))
	if e.gt.Co64 && e.r.Chance(1, 3) {
		d = uint64(e.r.Uint32())<<1 + 1
	}
	moved, ok := e.shift(d, func(off uint64) bool { return off >= from })
	if !ok {
		return false
	}
	e.log = append(e.log, fmt.Sprintf("ChunkOffset of chunk %d and the %d chunks behind it in the file +%d", c+1, moved-1, d))
	return true
}

func (e *tableEditor) stts() bool {
	tb := &e.gt.Tables
	b := e.sb.Stts
	if b == nil || len(b.SampleTimeDelta) != len(tb.Stts) || len(b.SampleCount) != len(tb.Stts) || len(tb.Stts) == 0 {
		return false
	}
	for try := 0; try < 8; try++ {
		j := e.r.Intn(len(tb.Stts))
		if tb.Stts[j].Count == 0 || b.SampleCount[j] != tb.Stts[j].Count {
			continue
		}
		old := tb.Stts[j].Delta
		nv := uint32(1 + e.r.Intn(3001))
		if nv == old {
			nv++
		}
		b.SampleTimeDelta[j] = nv
		tb.Stts[j].Delta = nv
		e.log = append(e.log, fmt.Sprintf("Stts.SampleTimeDelta[%d] %d -> %d (run of %d samples)", j, old, nv, tb.Stts[j].Count))
		return true
	}
	return false
}

func (e *tableEditor) ctts() bool {
	tb := &e.gt.Tables
	b := e.sb.Ctts
	if !e.gt.HasCtts || b == nil || len(b.SampleOffset) != len(tb.Ctts) || len(tb.Ctts) == 0 {
		return false
	}
	j := e.r.Intn(len(tb.Ctts))
	old := tb.Ctts[j].Offset
	nv := int32(e.r.Intn(10001))
	if e.gt.CttsVersion == 1 {
		nv -= 5000
	}
	if nv == old {
		nv++
	}
	b.SampleOffset[j] = nv
	tb.Ctts[j].Offset = nv
	e.log = append(e.log, fmt.Sprintf("Ctts.SampleOffset[%d] %d -> %d (entry of %d samples)", j, old, nv, tb.Ctts[j].Count))
	return true
}

func (e *tableEditor) stss() bool {
	tb := &e.gt.Tables
	b := e.sb.Stss
	n := uint32(len(tb.Sizes))
	if !e.gt.HasStss || b == nil || len(b.SampleNumber) != len(tb.Stss) || len(tb.Stss) == 0 {
		return false
	}
	for try := 0; try < 8; try++ {
		j := e.r.Intn(len(tb.Stss))
		lo, hi := uint32(1), n
		if j > 0 {
			lo = tb.Stss[j-1] + 1
		}
		if j+1 < len(tb.Stss) {
			hi = tb.Stss[j+1] - 1
		}
		old := tb.Stss[j]
		if hi <= lo || old < lo || old > hi {
			continue
		}
		nv := lo + uint32(e.r.Intn(int(hi-lo)))
		if nv >= old {
			nv++
		}
		b.SampleNumber[j] = nv
		tb.Stss[j] = nv
		e.log = append(e.log, fmt.Sprintf("Stss.SampleNumber[%d] %d -> %d", j, old, nv))
		return true
	}
	return false
}

func (e *tableEditor) sdtp() bool {
	tb := &e.gt.Tables
	b := e.sb.Sdtp
	if !e.gt.HasSdtp || b == nil || len(b.Entries) != len(tb.Sdtp) || len(tb.Sdtp) == 0 {
		return false
	}
	i := e.r.Intn(len(tb.Sdtp))
	old := tb.Sdtp[i]
	nv := byte(e.r.Intn(256))
	if nv == old {
		nv ^= 0x10
	}
	b.Entries[i] = mp4.SdtpEntry(nv)
	tb.Sdtp[i] = nv
	e.log = append(e.log, fmt.Sprintf("Sdtp.Entries[%d] 0x%02x -> 0x%02x", i, old, nv))
	return true
}

// editPasses runs after the normal query pass of k on trak.
func (k *checker) editPasses(trak *mp4.TrakBox) {
	c := k.c
	if trak == nil || trak.Mdia == nil || trak.Mdia.Minf == nil || trak.Mdia.Minf.Stbl == nil || k.ref == nil || len(k.ref.Samples) == 0 {
		return
	}
	sb := trak.Mdia.Minf.Stbl
	var sizeSum uint64
	for _, s := range k.ref.Samples {
		sizeSum += uint64(s.Size)
	}
	r := runner.NewRand(0xC09ED17, uint64(len(k.ref.Samples)), uint64(len(k.ref.Chunks)), k.ref.TotalDuration, sizeSum, uint64(len(k.path)))
	rounds := 1
	if r.Chance(1, 4) {
		rounds = 2
	}
	gt, ref := k.gt, k.ref
	var log []string
	before := map[string]bool{}
	for q := range k.fired {
		before[q] = true
	}
	for round := 1; round <= rounds; round++ {
		e := &tableEditor{k: k, r: r, sb: sb, gt: cloneTrack(gt), ref: ref}
		type edit struct {
			name string
			f    func() bool
			num  int // chance num/3
		}
		all := []edit{{"sizes", e.sizes, 2}, {"offsets", e.offsets, 1}, {"stts", e.stts, 1}, {"ctts", e.ctts, 1}, {"stss", e.stss, 1}, {"sdtp", e.sdtp, 1}}
		var kinds []string
		ok := k.guard("table-edit", "", func() {
			for _, ed := range all {
				if r.Chance(ed.num, 3) && ed.f() {
					kinds = append(kinds, ed.name)
				}
			}
			for _, ed := range all { // at least one
				if len(kinds) > 0 {
					break
				}
				if ed.f() {
					kinds = append(kinds, ed.name)
				}
			}
		})
		if !ok {
			return
		}
		if len(kinds) == 0 {
			c.Count("edit:tracks without a possible edit", 1)
			return
		}
		ref2 := expandEdited(e.gt, ref)
		if ref2 == nil {
			c.Inconclusive("harness-selfcheck: reference expansion of the edited tables differs from the edited record")
			return
		}
		sizesEdited := false
		for _, kind := range kinds {
			c.Seen("table_edit", kind)
			if kind == "sizes" {
				sizesEdited = true
			}
		}
		c.Seen("table_edit_round", fmt.Sprint(round))
		c.Seen("table_edit_path", k.path)
		c.Count("edit:query passes on boxes edited in place after a first query pass", 1)
		if sizesEdited {
			c.Count("edit:query passes after an in-place SampleSize edit of an explicit size table", 1)
		}
		log = append(log, e.log...)
		extra := map[string]interface{}{}
		for key, v := range k.extra {
			extra[key] = v
		}
		extra["table_edits"] = append([]string(nil), log...)
		k2 := &checker{c: c, path: k.path, label: fmt.Sprintf("%s | queried, then %d in-place table edits in %d round(s), then queried again", k.label, len(log), round),
			gt: e.gt, ref: ref2, small: k.small, extra: extra, edited: true, firedBefore: before}
		k2.checkTrack(nil, trak, nil)
		k.n += k2.n
		gt, ref = e.gt, ref2
	}
}
