package c08

import (
	"bytes"
	"fmt"
	"io"
	"os"
	"path/filepath"

	"verifharness/runner"
)

// Reader kinds: the io.ReadSeeker handed to the lazy data calls (and, except
// for the slow one, to the lazy DecodeFile). The API asks for an io.ReadSeeker
// and nothing else, so every kind below must give the same bytes: only Read and
// Seek define what the file is. Several kinds also have a ReadAt (promoted from
// the embedded storage) whose offsets are those of the storage, not of the file.

// window implements Read/Seek of a file that occupies [base, base+size) of a
// bigger storage.
type window struct {
	base, size, pos int64
}

func (w *window) seek(u io.Seeker, off int64, whence int) (int64, error) {
	var np int64
	switch whence {
	case io.SeekStart:
		np = off
	case io.SeekCurrent:
		np = w.pos + off
	case io.SeekEnd:
		np = w.size + off
	default:
		return 0, fmt.Errorf("bad whence %d", whence)
	}
	if np < 0 {
		return 0, fmt.Errorf("negative position")
	}
	if _, err := u.Seek(w.base+np, io.SeekStart); err != nil {
		return 0, err
	}
	w.pos = np
	return np, nil
}

func (w *window) read(u io.Reader, p []byte) (int, error) {
	if w.pos >= w.size {
		return 0, io.EOF
	}
	if left := w.size - w.pos; int64(len(p)) > left {
		p = p[:left]
	}
	n, err := u.Read(p)
	w.pos += int64(n)
	return n, err
}

// baseBytes: the MP4 file sits at a base offset inside a blob held by a *bytes.Reader.
type baseBytes struct {
	*bytes.Reader
	win window
}

func (b *baseBytes) Read(p []byte) (int, error) { return b.win.read(b.Reader, p) }
func (b *baseBytes) Seek(off int64, whence int) (int64, error) {
	return b.win.seek(b.Reader, off, whence)
}

// baseFile: the same with an *os.File as storage.
type baseFile struct {
	*os.File
	win window
}

func (b *baseFile) Read(p []byte) (int, error) { return b.win.read(b.File, p) }
func (b *baseFile) Seek(off int64, whence int) (int64, error) {
	return b.win.seek(b.File, off, whence)
}

// baseSection: the same with an *io.SectionReader over the whole blob as storage.
type baseSection struct {
	*io.SectionReader
	win window
}

func (b *baseSection) Read(p []byte) (int, error) { return b.win.read(b.SectionReader, p) }
func (b *baseSection) Seek(off int64, whence int) (int64, error) {
	return b.win.seek(b.SectionReader, off, whence)
}

// eofReader hands out the last bytes of the file together with io.EOF (allowed by io.Reader).
type eofReader struct {
	b   []byte
	pos int64
}

func (e *eofReader) Read(p []byte) (int, error) {
	if e.pos >= int64(len(e.b)) {
		return 0, io.EOF
	}
	n := copy(p, e.b[e.pos:])
	e.pos += int64(n)
	if e.pos == int64(len(e.b)) && n > 0 {
		return n, io.EOF
	}
	return n, nil
}

func (e *eofReader) Seek(off int64, whence int) (int64, error) {
	np := off
	switch whence {
	case io.SeekCurrent:
		np = e.pos + off
	case io.SeekEnd:
		np = int64(len(e.b)) + off
	}
	if np < 0 {
		return 0, fmt.Errorf("negative position")
	}
	e.pos = np
	return np, nil
}

const (
	rkBytes = iota
	rkSlow
	rkSection
	rkEOF
	rkBaseBytes
	rkBaseSection
	rkFile
	rkBaseFile
	nReaderKinds
)

var readerKindNames = [nReaderKinds]string{
	"bytes.Reader",
	"slow(1..5 bytes per Read)",
	"io.SectionReader(blob at base offset)",
	"data+io.EOF at the end",
	"base-offset wrapper embedding *bytes.Reader",
	"base-offset wrapper embedding *io.SectionReader",
	"os.File",
	"base-offset wrapper embedding *os.File",
}

// primary reader kind of a case: weights out of 16
var readerWeights = []int{rkBytes, rkBytes, rkBytes, rkBytes, rkSlow, rkSlow, rkSlow, rkSection, rkSection, rkEOF, rkEOF, rkBaseBytes, rkBaseBytes, rkBaseSection, rkFile, rkBaseFile}

// readers builds the readers of one case on demand.
type readers struct {
	c     *runner.Ctx
	b     []byte
	base  int
	blob  []byte // other bytes, the file at base, other bytes
	made  [nReaderKinds]io.ReadSeeker
	files []*os.File
	paths []string
}

func newReaders(c *runner.Ctx, b []byte) *readers {
	r := &readers{c: c, b: b, base: c.Rand.PickInt(1, 7, 1000)}
	return r
}

func (r *readers) getBlob() []byte {
	if r.blob == nil {
		tail := 1 + int(runner.Hash64(r.b)%29)
		r.blob = make([]byte, 0, r.base+len(r.b)+tail)
		for i := 0; i < r.base; i++ {
			r.blob = append(r.blob, byte(0xA5^i))
		}
		r.blob = append(r.blob, r.b...)
		for i := 0; i < tail; i++ {
			r.blob = append(r.blob, byte(0x5A+i))
		}
	}
	return r.blob
}

func (r *readers) scratchFile(content []byte) *os.File {
	p := filepath.Join(r.c.Env.Scratch, fmt.Sprintf("c08-%d-%d.bin", r.c.Idx, len(r.paths)))
	if err := os.WriteFile(p, content, 0o600); err != nil {
		return nil
	}
	f, err := os.Open(p)
	if err != nil {
		os.Remove(p)
		return nil
	}
	r.files = append(r.files, f)
	r.paths = append(r.paths, p)
	return f
}

// reopen opens another handle on a scratch file made earlier.
func (r *readers) reopen(p string) *os.File {
	f, err := os.Open(p)
	if err != nil {
		return nil
	}
	r.files = append(r.files, f)
	return f
}

// get returns the reader of kind k (nil if a scratch file cannot be made).
func (r *readers) get(k int) io.ReadSeeker {
	if r.made[k] != nil {
		return r.made[k]
	}
	var rs io.ReadSeeker
	n := int64(len(r.b))
	switch k {
	case rkBytes:
		rs = bytes.NewReader(r.b)
	case rkSlow:
		rs = &slowReader{bytes.NewReader(r.b), r.c.Rand.Fork()}
	case rkSection:
		rs = io.NewSectionReader(bytes.NewReader(r.getBlob()), int64(r.base), n)
	case rkEOF:
		rs = &eofReader{b: r.b}
	case rkBaseBytes:
		w := &baseBytes{Reader: bytes.NewReader(r.getBlob()), win: window{base: int64(r.base), size: n}}
		_, _ = w.Seek(0, io.SeekStart)
		rs = w
	case rkBaseSection:
		blob := r.getBlob()
		w := &baseSection{SectionReader: io.NewSectionReader(bytes.NewReader(blob), 0, int64(len(blob))), win: window{base: int64(r.base), size: n}}
		_, _ = w.Seek(0, io.SeekStart)
		rs = w
	case rkFile:
		if f := r.scratchFile(r.b); f != nil {
			rs = f
		}
	case rkBaseFile:
		if f := r.scratchFile(r.getBlob()); f != nil {
			w := &baseFile{File: f, win: window{base: int64(r.base), size: n}}
			_, _ = w.Seek(0, io.SeekStart)
			rs = w
		}
	}
	r.made[k] = rs
	return rs
}

func (r *readers) close() {
	for _, f := range r.files {
		f.Close()
	}
	for _, p := range r.paths {
		os.Remove(p)
	}
}
