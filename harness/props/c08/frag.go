package c08

import (
	"bytes"
	"fmt"
	"reflect"

	"github.com/Eyevinn/mp4ff/mp4"

	genfrag "verifharness/gen/frag"
	reffrag "verifharness/ref/frag"
	"verifharness/runner"
)

// Second input family: generated fragmented files. One case = one gen/frag
// history, built through the fragment API (as-built file) and then rewritten on
// the byte level by gen/frag.Reshape (multi-trun / multi-traf fragments, data
// permuted or separated by filler inside the mdat, filler between the mdat
// header and the first data byte, 64-bit mdat headers). Both files run through
// the same checks as every other file.

func fragOptions(k int) genfrag.Options {
	o := genfrag.Options{MaxTracks: 3, MaxSegments: 3, MaxFragments: 3, MaxSamples: 8}
	switch k % 8 {
	case 3:
		o.Tame = true
	case 4:
		o.SingleOnly, o.MaxTracks = true, 1
	case 5:
		o = genfrag.Options{Layouts: true, SmallTimes: true, MaxTracks: 3, MaxSegments: 4, MaxFragments: 3, MaxSamples: 6, EmsgOnly: true}
	case 6:
		o.NoExtra = true
	case 7:
		o.SingleOnly, o.MaxTracks, o.Tame, o.NoExtra = true, 1, true, true
	}
	return o
}

func runFrag(c *runner.Ctx, k int) {
	h := genfrag.Generate(c.Rand, fragOptions(k))
	var b *genfrag.Built
	var err error
	if pi := c.Guard(func() { b, err = genfrag.Build(h, genfrag.BuildOptions{Guard: c.Guard}) }); pi != nil || err != nil || b == nil || len(b.FragsInFile()) == 0 {
		// building files through the API is the matter of other properties
		c.Count("frag_histories_not_built", 1)
		return
	}
	c.Count("frag_histories_built", 1)
	flags := mp4.DecFileFlags(c.Rand.PickInt(0, 0, 0, 0, 0, int(mp4.DecISMFlag), int(mp4.DecStartOnMoof), int(mp4.DecISMFlag|mp4.DecStartOnMoof)))
	nFrags := len(b.FragsInFile())
	label := fmt.Sprintf("gen/frag history #%d (%d tracks, %d segments, %d fragments in file, mfra=%d top-sidx=%d)", k, len(h.Tracks), len(b.Segs), nFrags, h.Layout.Mfra, h.Layout.TopSidx)
	for _, f := range b.FragsInFile() {
		c.Seen("frag_asbuilt_mode", f.Spec.Mode)
		c.Seen("frag_asbuilt_mdat_header_bytes", map[bool]string{false: "8", true: "16"}[f.Spec.LargeMdat])
	}
	s := &state{c: c, b: b.Bytes, kind: "generated-frag", name: label + " as built", flags: flags, shape: "as-built"}
	s.runFile()
	c.Count("frag_files_asbuilt", 1)

	nb, shapes, rerr := genfrag.Reshape(b, c.Rand)
	if rerr != nil {
		c.Count("frag_reshape_not_usable", 1) // generator matter
		return
	}
	rewritten := 0
	var ps []string
	for _, sh := range shapes {
		if !sh.Rewritten {
			c.Count("frag_reshaped_fragments_kept_as_built", 1)
			ps = append(ps, "asbuilt")
			continue
		}
		rewritten++
		c.Count("frag_reshaped_fragments_rewritten", 1)
		c.Seen("frag_reshaped_class", sh.Class())
		lay := sh.Layout()
		if sh.LeadGap {
			lay += "+lead"
		}
		if sh.TrailGap {
			lay += "+trail"
		}
		c.Seen("frag_reshaped_data_layout", lay)
		c.Seen("frag_reshaped_mdat_header_bytes", map[bool]string{false: "8", true: "16"}[sh.LargeMdat])
		c.Seen("frag_reshaped_runs_per_moof", fmt.Sprint(sh.Runs))
		c.Seen("frag_reshaped_trafs_per_moof", fmt.Sprint(len(sh.Trafs)))
		if sh.Runs == 1 && sh.LeadGap {
			c.Count("frag_reshaped_single_trun_with_lead_gap", 1)
			if sh.LargeMdat {
				c.Count("frag_reshaped_single_trun_with_lead_gap_and_64bit_mdat_header", 1)
			}
		}
		ps = append(ps, sh.Class()+"/"+lay)
	}
	if rewritten == 0 {
		c.Count("frag_reshaped_files_without_rewritten_fragment", 1)
		return
	}
	s2 := &state{c: c, b: nb.Bytes, kind: "generated-frag", name: label + " reshaped " + fmt.Sprint(ps), flags: flags, shape: "reshaped"}
	s2.runFile()
	c.Count("frag_files_reshaped", 1)
}

func findTrex(f *mp4.File, trackID uint32) *mp4.TrexBox {
	if f.Init == nil || f.Init.Moov == nil || f.Init.Moov.Mvex == nil {
		return nil
	}
	for _, t := range f.Init.Moov.Mvex.Trexs {
		if t.TrackID == trackID {
			return t
		}
	}
	return nil
}

// checkFragSamples compares sample access in fragments between the modes:
// Fragment.GetSampleInterval (exists in both modes: in lazy mode it returns
// offset and size instead of data) followed by ReadData/CopyData of that range,
// and the in-memory Fragment.GetFullSamples against lazy ReadData of each
// sample's range. For generated files the samples' bytes are also those the
// independent reader (ref/frag) finds in the file.
func (s *state) checkFragSamples(fm, fl *mp4.File) {
	c, b := s.c, s.b
	if len(fm.Segments) != len(fl.Segments) {
		return
	}
	refMoofs := map[uint64]*reffrag.MoofInfo{}
	if exp, err := reffrag.ExpandFile(b, nil); err == nil {
		for _, m := range exp.Moofs {
			refMoofs[uint64(m.Start)] = m
		}
	} else {
		c.Count("frag_files_without_reference_expansion", 1)
	}
	gen := s.kind == "generated-frag"
	for si := range fm.Segments {
		if len(fm.Segments[si].Fragments) != len(fl.Segments[si].Fragments) {
			continue
		}
		for fi := range fm.Segments[si].Fragments {
			x, y := fm.Segments[si].Fragments[fi], fl.Segments[si].Fragments[fi]
			if x.Moof == nil || y.Moof == nil || x.Mdat == nil || y.Mdat == nil {
				c.Count("frag_fragments_without_moof_or_mdat", 1)
				continue
			}
			s.checkOneFragment(x, y, fm, fl, refMoofs[x.Moof.StartPos], gen, fmt.Sprintf("segment %d fragment %d", si, fi))
		}
	}
}

func (s *state) checkOneFragment(x, y *mp4.Fragment, fm, fl *mp4.File, ref *reffrag.MoofInfo, gen bool, where string) {
	c, b := s.c, s.b
	ps := int(y.Mdat.PayloadAbsoluteOffset())
	pe := int(y.Mdat.StartPos + y.Mdat.Size())
	if pe > len(b) || ps > pe {
		return
	}
	det := func(extra map[string]interface{}) map[string]interface{} {
		d := s.detail(extra)
		d["fragment"] = where
		d["moof_start"] = x.Moof.StartPos
		d["mdat_payload"] = fmt.Sprintf("[%d,%d)", ps, pe)
		return d
	}
	nTruns := 0
	for _, t := range x.Moof.Trafs {
		nTruns += len(t.Truns)
	}
	single := len(x.Moof.Trafs) == 1 && nTruns == 1 && len(y.Moof.Trafs) == 1 && len(y.Moof.Trafs[0].Truns) == 1
	shapeCls := "multi-trun-or-traf"
	if single {
		shapeCls = "single-trun"
	}
	if !y.Mdat.IsLazy() {
		// empty payload: nothing to read
		c.Count("frag_fragments_with_empty_mdat", 1)
		return
	}
	// lazy read of [start,start+size) with ReadData and CopyData: both judged against the file
	lazyRead := func(start, size int) ([]byte, bool) {
		ok1 := s.dataCall("lazy", "ReadData", y.Mdat, s.rs, start, size, "sample-range", true)
		ok2 := s.dataCall("lazy", "CopyData", y.Mdat, s.rs, start, size, "sample-range", true)
		if !ok1 || !ok2 {
			return nil, false
		}
		return b[start : start+size], true
	}

	// ---- GetSampleInterval (single traf, single trun) ----
	if single {
		tid := uint32(0)
		if x.Moof.Traf.Tfhd != nil {
			tid = x.Moof.Traf.Tfhd.TrackID
		}
		n := int(x.Moof.Traf.Trun.SampleCount())
		var refS []reffrag.Sample
		if ref != nil && len(ref.Trafs) == 1 && len(ref.Trafs[0].Samples) == n {
			refS = ref.Trafs[0].Samples
		}
		var ivs [][2]int
		if n <= 6 {
			for a := 1; a <= n; a++ {
				for z := a; z <= n; z++ {
					ivs = append(ivs, [2]int{a, z})
				}
			}
		} else {
			ivs = append(ivs, [2]int{1, 1}, [2]int{1, n}, [2]int{n, n}, [2]int{2, n}, [2]int{1, n - 1}, [2]int{1, 2}, [2]int{n - 1, n})
			for i := 0; i < 6; i++ {
				a := c.Rand.Range(1, n)
				ivs = append(ivs, [2]int{a, c.Rand.Range(a, n)})
			}
		}
		tm, tl := findTrex(fm, tid), findTrex(fl, tid)
		for _, iv := range ivs {
			var sm, sl mp4.SampleInterval
			var e1, e2 error
			p1 := c.Guard(func() { sm, e1 = x.GetSampleInterval(tm, uint32(iv[0]), uint32(iv[1])) })
			p2 := c.Guard(func() { sl, e2 = y.GetSampleInterval(tl, uint32(iv[0]), uint32(iv[1])) })
			s.evals += 2
			c.Count("frag_GetSampleInterval_pairs", 1)
			d := func() map[string]interface{} {
				return det(map[string]interface{}{"first_sample": iv[0], "last_sample": iv[1], "memory_offset_in_mdat": sm.OffsetInMdat, "lazy_offset_in_mdat": sl.OffsetInMdat, "memory_size": sm.Size, "lazy_size": sl.Size})
			}
			if (p1 != nil || e1 != nil) && p2 == nil && e2 == nil && (ps+int(sl.OffsetInMdat) < ps || ps+int(sl.OffsetInMdat)+int(sl.Size) > pe) {
				// the moof points outside the mdat payload: in-memory mode cannot slice, lazy mode reports the
				// (invalid) range. Not a valid sample range, so not comparable.
				c.Count("frag_sample_intervals_outside_the_payload", 1)
				continue
			}
			if (p1 != nil) != (p2 != nil) || (e1 != nil) != (e2 != nil) {
				c.Violation("frag/GetSampleInterval/outcome-differs", fmt.Sprintf("%s %s: GetSampleInterval(%d,%d) memory: err %v panic %v; lazy: err %v panic %v", s.name, where, iv[0], iv[1], e1, p1 != nil, e2, p2 != nil), d())
				continue
			}
			if p1 != nil || e1 != nil {
				c.Count("frag_GetSampleInterval_fails_in_both_modes", 1)
				c.Seen("frag_GetSampleInterval_both_modes_fail_with", fmt.Sprintf("%s: %s %s", s.kind, panicFrame(p1), noDigits(fmt.Sprint(e1))))
				continue
			}
			if sm.OffsetInMdat != sl.OffsetInMdat || sm.Size != sl.Size || sm.FirstDecodeTime != sl.FirstDecodeTime || !reflect.DeepEqual(sm.Samples, sl.Samples) {
				c.Violation("frag/GetSampleInterval/metadata-differs", fmt.Sprintf("%s %s: GetSampleInterval(%d,%d): memory offset %d size %d time %d, lazy offset %d size %d time %d", s.name, where, iv[0], iv[1], sm.OffsetInMdat, sm.Size, sm.FirstDecodeTime, sl.OffsetInMdat, sl.Size, sl.FirstDecodeTime), d())
				continue
			}
			if uint32(len(sm.Data)) != sm.Size {
				c.Count("frag_GetSampleInterval_memory_data_length_differs_from_size", 1)
				continue
			}
			start, size := ps+int(sl.OffsetInMdat), int(sl.Size)
			if size == 0 {
				c.Count("frag_sample_intervals_of_zero_bytes", 1)
				continue
			}
			if start < ps || start+size > pe {
				c.Count("frag_sample_intervals_outside_the_payload", 1)
				continue
			}
			if got, ok := lazyRead(start, size); ok {
				if !bytes.Equal(got, sm.Data) {
					c.Violation("frag/GetSampleInterval/lazy-range-differs-from-memory-data/"+shapeCls, fmt.Sprintf("%s %s: samples %d..%d: the bytes read lazily at the interval GetSampleInterval reports (payload offset %d, %d bytes) differ from the in-memory interval's Data (lazy %x.., memory %x..)", s.name, where, iv[0], iv[1], sl.OffsetInMdat, sl.Size, head(got, 8), head(sm.Data, 8)), d())
					continue
				}
				c.Count("frag_sample_intervals_compared", 1)
			}
			if gen && refS != nil {
				var want []byte
				for _, r := range refS[iv[0]-1 : iv[1]] {
					want = append(want, r.Data...)
				}
				if !bytes.Equal(want, sm.Data) {
					c.Violation("frag/GetSampleInterval/both-modes-differ-from-file/"+shapeCls, fmt.Sprintf("%s %s: samples %d..%d: both modes agree on bytes that are not the samples' bytes in the file (reference reader: offset %d)", s.name, where, iv[0], iv[1], refS[iv[0]-1].Offset), d())
				} else {
					c.Count("frag_sample_intervals_equal_to_reference", 1)
				}
			}
		}
	}

	// ---- in-memory GetFullSamples vs lazy reads of the samples' ranges ----
	seen := map[uint32]bool{}
	for ti, traf := range x.Moof.Trafs {
		if traf.Tfhd == nil || seen[traf.Tfhd.TrackID] {
			continue
		}
		tid := traf.Tfhd.TrackID
		seen[tid] = true
		trex := findTrex(fm, tid)
		if trex == nil && ti != 0 {
			continue // without a trex GetFullSamples takes the first traf
		}
		var fs []mp4.FullSample
		var err error
		pi := c.Guard(func() { fs, err = x.GetFullSamples(trex) })
		s.evals++
		if pi != nil || err != nil {
			c.Seen("frag_memory_GetFullSamples", fmt.Sprintf("fails: panic=%v %s", pi != nil, noDigits(fmt.Sprint(err))))
			continue
		}
		c.Seen("frag_memory_GetFullSamples", "ok/"+shapeCls)
		// where the samples are: the independent reader's expansion of the first traf of this track
		var refS []reffrag.Sample
		if ref != nil {
			for i := range ref.Trafs {
				if ref.Trafs[i].Tfhd.TrackID == tid {
					refS = ref.Trafs[i].Samples
					break
				}
			}
		}
		if len(refS) != len(fs) {
			if gen {
				c.Violation("frag/memory/GetFullSamples/sample-count", fmt.Sprintf("%s %s: GetFullSamples of track %d returns %d samples, the first traf of that track holds %d in the file", s.name, where, tid, len(fs), len(refS)), det(nil))
			} else {
				c.Count("frag_GetFullSamples_without_reference", 1)
			}
			continue
		}
		for i := range fs {
			if i >= 40 && i < len(fs)-10 {
				continue
			}
			r := refS[i]
			if uint32(len(fs[i].Data)) != r.Size || (gen && !bytes.Equal(fs[i].Data, r.Data)) {
				if gen {
					c.Violation("frag/memory/GetFullSamples/wrong-bytes/"+shapeCls, fmt.Sprintf("%s %s: in-memory GetFullSamples: sample %d of track %d has %d bytes %x.., the file has %d bytes %x.. at %d", s.name, where, i+1, tid, len(fs[i].Data), head(fs[i].Data, 8), r.Size, head(r.Data, 8), r.Offset), det(nil))
				} else {
					c.Count("frag_GetFullSamples_disagrees_with_reference_on_repo_file", 1)
				}
				break
			}
			if r.Size == 0 || r.Offset < ps || r.Offset+int(r.Size) > pe {
				continue
			}
			got, ok := lazyRead(r.Offset, int(r.Size))
			if !ok {
				break
			}
			if !bytes.Equal(got, fs[i].Data) {
				c.Violation("frag/GetFullSamples/lazy-sample-range-differs-from-memory-sample/"+shapeCls, fmt.Sprintf("%s %s: sample %d of track %d: lazy ReadData(%d,%d) gives %x.., the in-memory full sample holds %x..", s.name, where, i+1, tid, r.Offset, r.Size, head(got, 8), head(fs[i].Data, 8)), det(nil))
				break
			}
			c.Count("frag_full_samples_compared", 1)
		}
	}
	c.Seen("frag_sample_access_shape", shapeCls)
}

func noDigits(s string) string {
	out := make([]byte, 0, len(s))
	for i := 0; i < len(s) && len(out) < 60; i++ {
		if s[i] >= '0' && s[i] <= '9' {
			if len(out) > 0 && out[len(out)-1] == '#' {
				continue
			}
			out = append(out, '#')
			continue
		}
		out = append(out, s[i])
	}
	return string(out)
}

func panicFrame(pi *runner.PanicInfo) string {
	if pi == nil {
		return "error"
	}
	return "panic in " + pi.TopFrame + " (" + noDigits(pi.Value) + ")"
}
