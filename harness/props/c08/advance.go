package c08

import (
	"bytes"
	"fmt"
	"io"
	"os"
	"sort"
	"strings"

	"github.com/Eyevinn/mp4ff/mp4"

	"verifharness/ref/boxwalk"
	"verifharness/ref/stbl"
	"verifharness/runner"
)

// Round 7: decode starts that are not offset 0 of the ReadSeeker, the box-level
// decode loop, and Info dumps at several level specs.
//
// What the library does at /repo HEAD when DecodeFile is handed a reader that was
// already advanced (established from mp4/file.go and mp4/box.go, and observed
// here on every case through the in-memory decode from the same advanced reader):
// an io.Reader has no notion of position, DecodeFile counts box positions from 0
// at the byte it reads first, in both modes. So the tree of a lazy decode that
// starts at reader offset X is the tree of the in-memory decode of the bytes
// from X on: same boxes, sizes, segments, and positions relative to the decode
// start. MdatBox.ReadData/CopyData and File.CopySampleData seek to the recorded
// (decode-start relative) positions with io.SeekStart, so they need a reader in
// which offset 0 is the decode start (bytes.Reader over those bytes, or an
// io.SectionReader that starts at X). DecISMFlag rewinds the reader to offset 0
// in both modes and is therefore not combined with an advanced reader.

// placement: the bytes to decode are blob[x:] (or the suffix of a virtual reader).
type placement struct {
	class string // key part
	what  string
	d     []byte                               // the bytes the decode sees
	nodes []*boxwalk.Node                      // top-level boxes of d as the reference walker found them in the file
	shift int                                  // subtract from the node positions to get positions relative to d
	open  func() (io.ReadSeeker, string, bool) // a fresh reader positioned at the decode start, and its kind name
	at    int64                                // offset of the decode start in that reader
}

var advancedReaderKinds = []string{"bytes.Reader", "data+io.EOF at the end", "io.SectionReader", "os.File", "virtual reader (decode start beyond 4 GiB)"}

// advBlob is the storage of a placement; path is its scratch file once one was made.
type advBlob struct {
	b    []byte
	path string
}

func (s *state) openAdvanced(blob *advBlob, x int64, kind int) (io.ReadSeeker, string, bool) {
	var rs io.ReadSeeker
	switch kind {
	case 0:
		rs = bytes.NewReader(blob.b)
	case 1:
		rs = &eofReader{b: blob.b}
	case 2:
		rs = io.NewSectionReader(bytes.NewReader(blob.b), 0, int64(len(blob.b)))
	case 3:
		var f *os.File
		if blob.path == "" {
			if f = s.rd.scratchFile(blob.b); f != nil {
				blob.path = s.rd.paths[len(s.rd.paths)-1]
			}
		} else {
			f = s.rd.reopen(blob.path)
		}
		if f == nil {
			s.c.Count("scratch_file_unavailable", 1)
			rs = bytes.NewReader(blob.b)
			kind = 0
		} else {
			rs = f
		}
	}
	if _, err := rs.Seek(x, io.SeekStart); err != nil {
		return nil, "", false
	}
	return rs, advancedReaderKinds[kind], true
}

// checkAdvanced runs the placements of the case: the file behind a prefix of other
// bytes, the file stored behind a copy of itself (second of two back-to-back
// stored files/segments), and the tail of the file from a top-level box boundary.
func (s *state) checkAdvanced(nodes []*boxwalk.Node) {
	c, b := s.c, s.b
	if len(b) > 256<<10 {
		c.Count("advanced_skipped_large_file", 1)
		return
	}
	pickKind := func() int {
		if s.r7.Chance(1, 10) {
			return 3
		}
		return s.r7.PickInt(0, 0, 0, 1, 2, 2)
	}
	var pls []placement
	// (1) behind a prefix of other bytes
	{
		x := s.r7.PickInt(1, 7, 8, 1000, 4096, 2+s.r7.Intn(5000))
		if s.r7.Chance(1, 8) {
			hole := int64(1)<<32 + int64(s.r7.PickInt(0, 3, 8, 100000))
			pls = append(pls, placement{class: "behind-a-prefix", what: fmt.Sprintf("the file behind %d other bytes (virtual), reader positioned at %d", hole, hole), d: b, nodes: nodes, at: hole,
				open: func() (io.ReadSeeker, string, bool) {
					rs := &sparseRS{hole: hole, suffix: b}
					_, _ = rs.Seek(hole, io.SeekStart)
					return rs, advancedReaderKinds[4], true
				}})
		} else {
			blob := &advBlob{b: make([]byte, 0, x+len(b))}
			for i := 0; i < x; i++ {
				blob.b = append(blob.b, byte(0xff-i%3))
			}
			blob.b = append(blob.b, b...)
			k := pickKind()
			pls = append(pls, placement{class: "behind-a-prefix", what: fmt.Sprintf("the file behind %d other bytes, reader positioned at %d", x, x), d: b, nodes: nodes, at: int64(x),
				open: func() (io.ReadSeeker, string, bool) { return s.openAdvanced(blob, int64(x), k) }})
		}
	}
	// (2) behind a copy of itself
	{
		blob := &advBlob{b: append(append(make([]byte, 0, 2*len(b)), b...), b...)}
		k := pickKind()
		pls = append(pls, placement{class: "second-of-two-stored-copies", what: fmt.Sprintf("the file stored twice back to back, reader positioned at the start of the second copy (%d)", len(b)), d: b, nodes: nodes, at: int64(len(b)),
			open: func() (io.ReadSeeker, string, bool) { return s.openAdvanced(blob, int64(len(b)), k) }})
	}
	// (3) the tail of the file from a box boundary
	if len(nodes) >= 2 {
		k := 1 + s.r7.Intn(len(nodes)-1)
		x := nodes[k].Start
		rk := pickKind()
		whole := &advBlob{b: b}
		pls = append(pls, placement{class: "tail-from-a-box-boundary", what: fmt.Sprintf("reader over the file positioned at the start of top-level box %d (%s, offset %d)", k, nodes[k].Type, x), d: b[x:], nodes: nodes[k:], shift: x, at: int64(x),
			open: func() (io.ReadSeeker, string, bool) { return s.openAdvanced(whole, int64(x), rk) }})
	}
	// per case: one of the two whole-file placements and the tail
	skip := s.r7.Intn(2)
	for i := range pls {
		if i != skip {
			s.checkPlacement(&pls[i])
		}
	}
}

func (s *state) checkPlacement(p *placement) {
	c := s.c
	flags := s.flags &^ mp4.DecISMFlag
	det := func(extra map[string]interface{}) map[string]interface{} {
		d := s.detail(extra)
		d["placement"] = p.what
		d["decode_start_offset_of_the_reader"] = p.at
		d["dec_flags"] = int(flags)
		return d
	}
	// reference: the in-memory decode of the bytes from the decode start on
	var fm, fmAt, fl *mp4.File
	var em, emAt, el error
	pm := c.Guard(func() { fm, em = mp4.DecodeFile(bytes.NewReader(p.d), mp4.WithDecodeFlags(flags)) })
	// premise (every 4th placement): the in-memory decode from the advanced reader is that decode
	premise := s.r7.Chance(1, 4)
	var pmAt *runner.PanicInfo
	if premise {
		rsM, _, ok := p.open()
		if !ok {
			return
		}
		pmAt = c.Guard(func() { fmAt, emAt = mp4.DecodeFile(rsM, mp4.WithDecodeFlags(flags)) })
		s.evals++
		c.Count("advanced_premise_checked_in_memory_decode_from_the_advanced_reader", 1)
	}
	rsL, kind, ok := p.open()
	if !ok {
		return
	}
	pl := c.Guard(func() {
		fl, el = mp4.DecodeFile(rsL, mp4.WithDecodeMode(mp4.DecModeLazyMdat), mp4.WithDecodeFlags(flags))
	})
	s.evals += 2
	c.Count("advanced_decodes:"+p.class, 1)
	c.Seen("advanced_decode_reader", kind)
	if premise && ((pm != nil) != (pmAt != nil) || (em != nil) != (emAt != nil) || (pm == nil && em == nil && !sameDump(c, fm, fmAt, "all:1"))) {
		c.Inconclusive("the in-memory decode from an advanced reader is not the in-memory decode of the bytes from there on (premise of the advanced-reader family)")
		return
	}
	if pm != nil || pl != nil {
		if (pm != nil) != (pl != nil) {
			c.Violation("advanced-reader/"+p.class+"/panic-in-one-mode", fmt.Sprintf("%s, %s: only one decode mode panics: memory=%v lazy=%v", s.name, p.what, pm != nil, pl != nil), det(nil))
		} else {
			c.Count("advanced_both_modes_panic", 1)
		}
		return
	}
	if (em != nil) != (el != nil) {
		c.Violation("advanced-reader/"+p.class+"/accept-mismatch", fmt.Sprintf("%s, %s (%s): in-memory decode of the same bytes: error %v; lazy decode: error %v", s.name, p.what, kind, em, el), det(nil))
		return
	}
	if em != nil {
		c.Count("advanced_rejected_by_both_modes:"+p.class, 1)
		return
	}
	if clause, what := s.treeDiff(fm, fl, p.nodes, p.shift); clause != "" {
		c.Violation("advanced-reader/"+p.class+"/"+clause, fmt.Sprintf("%s, %s (%s): the lazily decoded tree is not the in-memory tree of the same bytes: %s", s.name, p.what, kind, what), det(nil))
		return
	}
	for _, spec := range []string{s.r7.PickStr("all:1", "all:1", "all:2", "mdat:2")} {
		if what, same := infoDiff(c, fm, fl, spec); !same {
			c.Violation("advanced-reader/"+p.class+"/info-differs", fmt.Sprintf("%s, %s (%s): File.Info(%s) differs between the modes: %s", s.name, p.what, kind, spec, what), det(nil))
			return
		}
		s.evals += 2
	}
	c.Count("advanced_trees_equal:"+p.class, 1)
	if p.at >= 1<<32 {
		c.Count("advanced_decode_start_beyond_4GiB", 1)
	}
	// ---- data through a reader in which offset 0 is the decode start ----
	sub := &state{c: c, b: p.d, kind: s.kind, name: s.name + " [" + p.what + "]", flags: flags, rdCalls: map[string]int64{}}
	dataReaders := []struct {
		rs   io.ReadSeeker
		kind int
	}{{bytes.NewReader(p.d), rkBytes}}
	if r, _, ok := p.open(); ok && p.at < 1<<31 {
		if ra, isRA := r.(io.ReaderAt); isRA {
			dataReaders = append(dataReaders, struct {
				rs   io.ReadSeeker
				kind int
			}{io.NewSectionReader(ra, p.at, int64(len(p.d))), rkSection})
		}
	}
	for i, ch := range fl.Children {
		ml, isMdat := ch.(*mp4.MdatBox)
		if !isMdat || !ml.IsLazy() {
			continue
		}
		nd := p.nodes[i]
		ps, pe := nd.Start-p.shift+nd.HdrLen, nd.End()-p.shift
		rgs := [][2]int{{ps, pe}, {ps, ps + 1}, {pe - 1, pe}}
		for j := 0; j < 2; j++ {
			st := ps + s.r7.Intn(pe-ps)
			rgs = append(rgs, [2]int{st, st + 1 + s.r7.Intn(pe-st)})
		}
		for _, dr := range dataReaders {
			sub.rs, sub.rsKind, sub.rsK = dr.rs, dr.kind, readerKindNames[dr.kind]
			for _, r := range rgs {
				sub.dataCall("lazy", "ReadData", ml, sub.rs, r[0], r[1]-r[0], "after-decode-from-advanced-reader", true)
				sub.dataCall("lazy", "CopyData", ml, sub.rs, r[0], r[1]-r[0], "after-decode-from-advanced-reader", true)
				c.Count("advanced_data_calls", 2)
			}
		}
	}
	if !fl.IsFragmented() && fl.Moov != nil && fl.Mdat != nil && p.shift == 0 {
		if m, err := stbl.ParseFile(p.d); err == nil && len(m.Tracks) == len(fl.Moov.Traks) {
			for ti, tr := range m.Tracks {
				n := len(tr.Samples)
				if tr.ExpandErr != nil || n == 0 {
					continue
				}
				want, okW := tr.IntervalBytes(p.d, 1, n)
				if !okW || (tr.Samples[n-1].Size == 0 && int(tr.Samples[n-1].Offset) == len(p.d)) {
					continue
				}
				for _, dr := range dataReaders {
					sub.rs, sub.rsKind, sub.rsK = dr.rs, dr.kind, readerKindNames[dr.kind]
					for _, wsN := range []int{0, 7} {
						sub.copySamples("lazy", fl, fl.Moov.Traks[ti], sub.rs, 1, n, wsN, want, "after-decode-from-advanced-reader", tr)
						c.Count("advanced_CopySampleData_calls", 1)
					}
				}
			}
		}
	}
	s.evals += sub.evals
	for k, n := range sub.rdCalls {
		s.rdCalls[k] += n
	}
}

// treeDiff compares the in-memory and the lazily decoded tree of the same bytes, whose top-level boxes the
// reference walker found at nodes (positions minus shift). It returns the clause that fails first ("" = same).
func (s *state) treeDiff(fm, fl *mp4.File, nodes []*boxwalk.Node, shift int) (string, string) {
	s.evals++
	if fm.IsFragmented() != fl.IsFragmented() || len(fm.Children) != len(fl.Children) || len(fm.Children) != len(nodes) {
		return "tree/shape", fmt.Sprintf("top-level boxes memory=%d lazy=%d walker=%d, fragmented %v/%v", len(fm.Children), len(fl.Children), len(nodes), fm.IsFragmented(), fl.IsFragmented())
	}
	if fm.Size() != fl.Size() {
		return "tree/file-size", fmt.Sprintf("File.Size memory=%d lazy=%d", fm.Size(), fl.Size())
	}
	for i := range fm.Children {
		bm, bl, nd := fm.Children[i], fl.Children[i], nodes[i]
		if bm.Type() != bl.Type() || bm.Type() != nd.Type {
			return "tree/type", fmt.Sprintf("child %d is %q in memory mode, %q in lazy mode, %q in the bytes", i, bm.Type(), bl.Type(), nd.Type)
		}
		if bm.Size() != bl.Size() || bm.Size() != uint64(nd.Size) {
			return "tree/box-size/" + keyType(bm.Type()), fmt.Sprintf("%s (child %d) Size memory=%d lazy=%d bytes=%d", bm.Type(), i, bm.Size(), bl.Size(), nd.Size)
		}
		if mm, ok := bm.(*mp4.MdatBox); ok {
			ml, ok2 := bl.(*mp4.MdatBox)
			if !ok2 {
				return "tree/type", "mdat is not an MdatBox in lazy mode"
			}
			start := uint64(nd.Start - shift)
			for _, x := range []struct {
				mode string
				m    *mp4.MdatBox
			}{{"memory", mm}, {"lazy", ml}} {
				if x.m.StartPos != start || x.m.LargeSize != nd.Large || x.m.HeaderSize() != uint64(nd.HdrLen) || x.m.PayloadAbsoluteOffset() != start+uint64(nd.HdrLen) {
					return x.mode + "/mdat-position", fmt.Sprintf("mdat (child %d) in %s mode: StartPos %d LargeSize %v HeaderSize %d PayloadAbsoluteOffset %d; relative to the decode start it begins at %d, largesize %v, header %d",
						i, x.mode, x.m.StartPos, x.m.LargeSize, x.m.HeaderSize(), x.m.PayloadAbsoluteOffset(), start, nd.Large, nd.HdrLen)
				}
			}
			continue
		}
		if !sameTree(bm, bl) {
			return "tree/box-differs/" + keyType(bm.Type()), fmt.Sprintf("%s (child %d) decodes to different structures in the two modes", bm.Type(), i)
		}
	}
	if len(fm.Segments) != len(fl.Segments) {
		return "tree/segments", fmt.Sprintf("%d segments in memory mode, %d in lazy mode", len(fm.Segments), len(fl.Segments))
	}
	for si := range fm.Segments {
		a, z := fm.Segments[si], fl.Segments[si]
		if len(a.Fragments) != len(z.Fragments) || a.StartPos != z.StartPos {
			return "tree/fragments", fmt.Sprintf("segment %d has %d/%d fragments, StartPos %d/%d", si, len(a.Fragments), len(z.Fragments), a.StartPos, z.StartPos)
		}
		for fi := range a.Fragments {
			x, y := a.Fragments[fi], z.Fragments[fi]
			if x.StartPos != y.StartPos || !sameTree(x.Moof, y.Moof) || (x.Mdat == nil) != (y.Mdat == nil) {
				return "tree/fragment-differs", fmt.Sprintf("segment %d fragment %d differs between the modes", si, fi)
			}
			if x.Mdat != nil && (x.Mdat.StartPos != y.Mdat.StartPos || x.Mdat.Size() != y.Mdat.Size()) {
				return "tree/fragment-mdat", fmt.Sprintf("segment %d fragment %d mdat StartPos %d/%d Size %d/%d", si, fi, x.Mdat.StartPos, y.Mdat.StartPos, x.Mdat.Size(), y.Mdat.Size())
			}
		}
	}
	if (fm.Mdat == nil) != (fl.Mdat == nil) || (fm.Moov == nil) != (fl.Moov == nil) || (fm.Init == nil) != (fl.Init == nil) {
		return "tree/file-fields", "File.Mdat/Moov/Init set in only one mode"
	}
	return "", ""
}

// infoDiff renders both trees with File.Info at the given level spec. same is false when the outcomes or the
// outputs differ; what names the first differing line.
func infoDiff(c *runner.Ctx, fm, fl *mp4.File, spec string) (what string, same bool) {
	var im, il bytes.Buffer
	var e1, e2 error
	p1 := c.Guard(func() { e1 = fm.Info(&im, spec, "", "  ") })
	p2 := c.Guard(func() { e2 = fl.Info(&il, spec, "", "  ") })
	if (p1 != nil) == (p2 != nil) && (e1 != nil) == (e2 != nil) && (p1 != nil || bytes.Equal(im.Bytes(), il.Bytes())) {
		return "", true
	}
	what = fmt.Sprintf("outcomes differ (errors %v / %v, panics %v / %v)", e1, e2, p1 != nil, p2 != nil)
	la, lb := strings.Split(im.String(), "\n"), strings.Split(il.String(), "\n")
	for i := 0; i < len(la) || i < len(lb); i++ {
		var x, y string
		if i < len(la) {
			x = la[i]
		}
		if i < len(lb) {
			y = lb[i]
		}
		if x != y {
			// the enclosing box line, for the reader of the report
			box := ""
			for j := i; j >= 0 && j < len(la); j-- {
				if t := strings.TrimSpace(la[j]); strings.HasPrefix(t, "[") {
					box = t
					break
				}
			}
			what = fmt.Sprintf("line %d (under %q): memory %q, lazy %q (errors %v / %v)", i+1, box, x, y, e1, e2)
			break
		}
	}
	return what, false
}

func sameDump(c *runner.Ctx, a, b *mp4.File, spec string) bool {
	_, same := infoDiff(c, a, b, spec)
	return same && len(a.Children) == len(b.Children) && a.Size() == b.Size()
}

// infoSpecs: the level specs File.Info is compared at. The first is the one the golden dumps of the
// library use; the last is drawn per case from the box types present in the file.
func infoSpecs(rnd *runner.Rand, nodes []*boxwalk.Node) (specs, classes []string) {
	specs = []string{"all:1", "all:2", "mdat:2", "all:1,mdat:3", ""}
	classes = []string{"", "all:2", "mdat:2", "all:1,mdat:3", "empty-spec"}
	set := map[string]bool{}
	for _, n := range boxwalk.All(nodes) {
		ok := len(n.Type) == 4
		for i := 0; ok && i < 4; i++ {
			ch := n.Type[i]
			ok = ch > ' ' && ch < 127 && ch != ':' && ch != ','
		}
		if ok {
			set[n.Type] = true
		}
	}
	types := make([]string, 0, len(set))
	for t := range set {
		types = append(types, t)
	}
	sort.Strings(types)
	var parts []string
	if rnd.Chance(1, 2) {
		parts = append(parts, fmt.Sprintf("all:%d", rnd.Intn(4)))
	}
	if set["mdat"] && rnd.Chance(1, 2) {
		parts = append(parts, fmt.Sprintf("mdat:%d", 1+rnd.Intn(4)))
	}
	for i, n := 0, rnd.Range(1, 4); i < n && len(types) > 0; i++ {
		parts = append(parts, fmt.Sprintf("%s:%d", types[rnd.Intn(len(types))], rnd.Intn(4)))
	}
	shuffled := make([]string, 0, len(parts))
	for _, i := range rnd.Perm(len(parts)) {
		shuffled = append(shuffled, parts[i])
	}
	specs = append(specs, strings.Join(shuffled, ","))
	classes = append(classes, "random-per-box-spec")
	return
}

// checkBoxLoop decodes the file box by box with DecodeBox (from a bytes.Reader over the file) and with
// DecodeBoxLazyMdat, the caller counting positions as DecodeFile does. The positions handed in are those of
// an enclosing file (pos0 + offset in the file) and the reader of the lazy loop stands at its own offset x
// (other bytes before the file): both loops must give the same boxes, with the sizes and the positions
// handed in, and end at the same place. Lazy payloads are then read through a (virtual) reader of the
// enclosing file.
func (s *state) checkBoxLoop(nodes []*boxwalk.Node) {
	c, b := s.c, s.b
	if len(b) > 256<<10 {
		return
	}
	pos0 := uint64(s.r7.PickInt(0, 0, 1, 8, 4000, 1+s.r7.Intn(1<<20)))
	if s.r7.Chance(1, 6) {
		pos0 = 1<<32 + uint64(s.r7.Intn(1000))
	}
	x := s.r7.PickInt(0, 0, 0, 1, 7, 1000, 1+s.r7.Intn(3000))
	rel := "pos0==reader offset"
	if pos0 != uint64(x) {
		rel = "pos0!=reader offset"
	}
	c.Seen("boxloop_positions", fmt.Sprintf("%s (pos0 %s, reader offset %s)", rel, zeroClass(pos0), zeroClass(uint64(x))))
	blob := &advBlob{b: make([]byte, 0, x+len(b))}
	for i := 0; i < x; i++ {
		blob.b = append(blob.b, byte(0xee-i%5))
	}
	blob.b = append(blob.b, b...)
	k := s.r7.PickInt(0, 0, 1, 2)
	rs, kind, ok := s.openAdvanced(blob, int64(x), k)
	if !ok {
		return
	}
	det := func(extra map[string]interface{}) map[string]interface{} {
		d := s.detail(extra)
		d["first_position_handed_in"] = pos0
		d["reader_offset_of_the_first_box"] = x
		d["boxloop_reader"] = kind
		return d
	}
	r1 := bytes.NewReader(b)
	pos := pos0
	var lazyMdats []*mp4.MdatBox
	var lazyNodes []*boxwalk.Node
	for i := 0; ; i++ {
		var bm, bl mp4.Box
		var e1, e2 error
		p1 := c.Guard(func() { bm, e1 = mp4.DecodeBox(pos, r1) })
		p2 := c.Guard(func() { bl, e2 = mp4.DecodeBoxLazyMdat(pos, rs) })
		s.evals += 2
		c.Count("boxloop_box_pairs", 1)
		where := fmt.Sprintf("box %d at position %d (offset %d in the file)", i, pos, pos-pos0)
		if (p1 != nil) != (p2 != nil) || (e1 != nil) != (e2 != nil) || (e1 == io.EOF) != (e2 == io.EOF) {
			c.Violation("boxloop/outcome-differs", fmt.Sprintf("%s: box-by-box decode, %s: DecodeBox: err %v panic %v; DecodeBoxLazyMdat: err %v panic %v (the file has %d top-level boxes)", s.name, where, e1, p1 != nil, e2, p2 != nil, len(nodes)), det(nil))
			return
		}
		if p1 != nil {
			c.Count("boxloop_both_panic", 1)
			return
		}
		if e1 != nil {
			if e1 == io.EOF {
				if i != len(nodes) {
					c.Violation("boxloop/box-count", fmt.Sprintf("%s: both box loops end after %d boxes, the file has %d", s.name, i, len(nodes)), det(nil))
					return
				}
				break
			}
			c.Count("boxloop_both_fail", 1)
			return
		}
		if i >= len(nodes) {
			c.Violation("boxloop/box-count", fmt.Sprintf("%s: the box loops decode more than the %d top-level boxes of the file", s.name, len(nodes)), det(nil))
			return
		}
		nd := nodes[i]
		if bm.Type() != bl.Type() || bl.Type() != nd.Type {
			c.Violation("boxloop/type", fmt.Sprintf("%s: %s is %q for DecodeBox, %q for DecodeBoxLazyMdat, %q in the file", s.name, where, bm.Type(), bl.Type(), nd.Type), det(nil))
			return
		}
		if bm.Size() != bl.Size() || bl.Size() != uint64(nd.Size) {
			c.Violation("boxloop/box-size/"+keyType(bl.Type()), fmt.Sprintf("%s: %s (%s): Size %d for DecodeBox, %d for DecodeBoxLazyMdat, %d in the file", s.name, where, bl.Type(), bm.Size(), bl.Size(), nd.Size), det(nil))
			return
		}
		if mm, isMdat := bm.(*mp4.MdatBox); isMdat {
			ml, ok2 := bl.(*mp4.MdatBox)
			if !ok2 {
				c.Violation("boxloop/type", "mdat is not an MdatBox from DecodeBoxLazyMdat", det(nil))
				return
			}
			for _, m := range []*mp4.MdatBox{mm, ml} {
				if m.StartPos != pos || m.LargeSize != nd.Large || m.HeaderSize() != uint64(nd.HdrLen) || m.PayloadAbsoluteOffset() != pos+uint64(nd.HdrLen) {
					c.Violation("boxloop/mdat-position", fmt.Sprintf("%s: %s: mdat (lazy=%v) has StartPos %d LargeSize %v HeaderSize %d PayloadAbsoluteOffset %d; handed in: position %d, the file has largesize %v, header %d", s.name, where, m == ml, m.StartPos, m.LargeSize, m.HeaderSize(), m.PayloadAbsoluteOffset(), pos, nd.Large, nd.HdrLen), det(nil))
					return
				}
			}
			if ml.IsLazy() {
				lazyMdats = append(lazyMdats, ml)
				lazyNodes = append(lazyNodes, nd)
			}
		} else if !sameTree(bm, bl) {
			c.Violation("boxloop/box-differs/"+keyType(bl.Type()), fmt.Sprintf("%s: %s (%s) decodes to different structures with DecodeBox and DecodeBoxLazyMdat", s.name, where, bl.Type()), det(nil))
			return
		}
		pos += bl.Size()
	}
	c.Count("boxloop_files_equal", 1)
	if pos0 != uint64(x) {
		c.Count("boxloop_files_equal_with_positions_other_than_reader_offsets", 1)
	}
	// payloads through a reader of the enclosing file (pos0 other bytes, then the file)
	enc := &sparseRS{hole: int64(pos0), suffix: b}
	for i, ml := range lazyMdats {
		nd := lazyNodes[i]
		want := nd.Payload(b)
		var got []byte
		var err error
		var w bytes.Buffer
		var n int64
		var err2 error
		pi := c.Guard(func() {
			got, err = ml.ReadData(int64(ml.PayloadAbsoluteOffset()), int64(len(want)), enc)
			n, err2 = ml.CopyData(int64(ml.PayloadAbsoluteOffset()), int64(len(want)), enc, &w)
		})
		s.evals += 2
		c.Count("boxloop_lazy_payload_reads", 2)
		if pi != nil || err != nil || err2 != nil || n != int64(len(want)) || !bytes.Equal(got, want) || !bytes.Equal(w.Bytes(), want) {
			c.Violation("boxloop/lazy-payload-through-enclosing-file", fmt.Sprintf("%s: mdat decoded by DecodeBoxLazyMdat at position %d: ReadData/CopyData of the whole payload through a reader of the enclosing file: %d/%d bytes, errors %v / %v, panic %v; the payload has %d bytes", s.name, ml.StartPos, len(got), w.Len(), err, err2, pi != nil, len(want)), det(nil))
			return
		}
	}
}

func zeroClass(v uint64) string {
	switch {
	case v == 0:
		return "0"
	case v >= 1<<32:
		return ">=2^32"
	}
	return ">0"
}

// checkInfoSpecs compares File.Info of the two trees at the level specs other than all:1 (which check() has
// compared already). The dump is a rendering of the box tree with its sizes; the statement makes the two
// trees the same tree, so every level of detail must print the same text.
func (s *state) checkInfoSpecs(fm, fl *mp4.File, nodes []*boxwalk.Node) {
	c := s.c
	specs, classes := infoSpecs(s.r7, nodes)
	for i, spec := range specs {
		if classes[i] == "" {
			continue
		}
		what, same := infoDiff(c, fm, fl, spec)
		s.evals += 2
		c.Count("info_pairs_compared:"+classes[i], 1)
		if !same {
			c.Violation("info/differs/"+classes[i], fmt.Sprintf("%s: File.Info(%q) differs between the modes: %s", s.name, spec, what), s.detail(map[string]interface{}{"info_levels": spec}))
		}
	}
}
