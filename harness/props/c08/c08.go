// Package c08 decides property C08: decoding with the media data left on disk
// (lazy mdat) is observationally equal to decoding fully into memory.
//
// Ground truth for every byte range and every sample range is the file itself:
// ranges are cut out of the input bytes, sample ranges come from the reference
// expansion (verifharness/ref/stbl) of those bytes. Box positions come from the
// reference walker. Nothing expected is computed by mp4ff.
package c08

import (
	"bytes"
	"fmt"
	"io"
	"os"
	"path/filepath"
	"sort"
	"strings"

	"github.com/Eyevinn/mp4ff/bits"
	"github.com/Eyevinn/mp4ff/mp4"

	"verifharness/gen/prog"
	"verifharness/ref/boxwalk"
	"verifharness/ref/stbl"
	"verifharness/runner"
)

type corpusFile struct {
	name string
	data []byte
}

var (
	entries *prog.EntrySet
	corpus  []corpusFile
)

func setup(env *runner.Env) error {
	entries = prog.LoadEntries(env.RepoDir)
	corpus = nil
	var paths []string
	_ = filepath.Walk(env.RepoDir, func(p string, info os.FileInfo, err error) error {
		if err != nil {
			return nil
		}
		if info.IsDir() {
			if info.Name() == ".git" {
				return filepath.SkipDir
			}
			return nil
		}
		switch strings.ToLower(filepath.Ext(p)) {
		case ".mp4", ".m4s", ".cmfv", ".cmfa", ".isma", ".ismv", ".ismt", ".m4a", ".m4v", ".mov":
			if info.Size() <= 512<<10 && strings.Contains(p, "testdata") {
				paths = append(paths, p)
			}
		}
		return nil
	})
	sort.Strings(paths)
	seen := map[uint64]bool{}
	for _, p := range paths {
		b, err := os.ReadFile(p)
		if err != nil {
			continue
		}
		h := runner.Hash64(b)
		if seen[h] {
			continue
		}
		seen[h] = true
		rel, _ := filepath.Rel(env.RepoDir, p)
		corpus = append(corpus, corpusFile{rel, b})
	}
	return nil
}

func numGenerated(env *runner.Env) int {
	if env.Tier == "thorough" {
		return 100000
	}
	return 2000
}

// numFragHistories is the number of generated fragmented histories (each gives an as-built and a reshaped file).
func numFragHistories(env *runner.Env) int {
	if env.Tier == "thorough" {
		return 20000
	}
	return 600
}

func init() {
	runner.Register(&runner.Prop{
		ID: "C08",
		Rule: "quick: all repo test files + 2 000 generated progressive files + 600 generated fragmented histories (2 files each), thorough: + 100 000 progressive files + 20 000 fragmented histories; plus 7 giant files (ftyp, an mdat whose box size is 2^32-1, 2^32-2, 2^32-9 with a compact header or 2^32-1, 2^32, 2^32+16, 2^33+5 with a 64-bit header, then a uuid box) served by a virtual ReadSeeker (real bytes at both ends of the payload, zeros between) and judged, in lazy mode only, against the layout they were built with: box list, mdat Size/HeaderSize/PayloadAbsoluteOffset/StartPos, position of the box behind the mdat, File.Size, Encode = the header, ReadData/CopyData at both payload ends, File.Encode and File.EncodeSW (slice writer of 1 KiB) = ftyp + mdat header + uuid, fewer than 1 MiB read. One case = one file decoded twice (mp4.DecodeFile in normal mode from a bytes.Reader and with WithDecodeMode(DecModeLazyMdat) from the reader of the case, see below). Files: every file of at most 512 KiB under the repo's testdata directories (progressive, fragmented, encrypted, init-only; files both modes reject are counted, not compared) " +
			"followed by generated progressive files (gen/prog.RandomTables, own serializer): 1..2 tracks, 1..48 samples, mdat payload about 0..4 KiB (budgets 8, 32, 96, 512, 4096 bytes), compact and forced 64-bit mdat headers, mdat before and after moov, free box, junk gaps, stco/co64, arbitrary chunk interleaving. " +
			"Compared: acceptance, top-level box list, Size() of every box and of the file, reflect.DeepEqual of every non-mdat box, per-fragment moof equality for fragmented files, StartPos/LargeSize/HeaderSize/PayloadAbsoluteOffset of every mdat in both modes and against the reference walker, File.Info dumps at all:1 (more level specs: round 7 below); " +
			"for every mdat: lazy Encode and EncodeSW = the original header bytes, header + CopyData(whole payload) = the original box; ReadData and CopyData in both modes for ALL (start,size>=1) ranges inside the payload when it has at most 96 bytes, otherwise all ranges that start in the first 3 or end in the last 3 payload bytes combined with boundary sizes plus 200 random ranges, expected = file[start:start+size], and the four most recent lazy ReadData results are held and must still equal the file after every later lazy call on the same box; " +
			"ranges partly or wholly outside the payload: an error is fine, returned bytes must be the file's bytes at that range. " +
			"Readers (round 6): every case draws a primary io.ReadSeeker kind (weights /16) that serves the lazy decode and all lazy data calls: bytes.Reader 4, 1..5 bytes per Read 3 (data calls only), io.SectionReader over a blob with the file at base offset {1,7,1000} 2, a reader that returns its last bytes together with io.EOF 2, base-offset wrappers (file at offset {1,7,1000} inside a blob of other bytes with other bytes behind it; own Read/Seek, the storage's ReadAt/WriteTo are promoted and address the blob) embedding *bytes.Reader 2, *io.SectionReader 1, *os.File on a scratch file 1, plain *os.File 1; and every mdat of every file is additionally read through ALL other kinds on whole payload, first byte, last byte, payload minus first/last byte and 3 random ranges (ReadData + CopyData), every track through all other kinds for samples 1..n, n..n, 1..1 x work buffers {nil, 7, total+5}; counters reader:<kind> / <function> give the lazy calls per kind. " +
			"Second family (round 6), generated fragmented files: gen/frag.Generate histories (1..3 tracks, up to 3x3 fragments of up to 8 samples, full/metadata-only/interval mdat modes, compact and 64-bit mdat headers, emsg/free/unknown extras, every 8th with sidx/mfra/styp layouts, 2 of 8 single-track) built through the fragment API (as-built file) and rewritten on the byte level by gen/frag.Reshape (5 of 6 fragments: 1..4 truns per traf, 1..3 trafs per track, run data permuted and/or separated by filler, filler between the mdat header and the first data byte and after the last, 1 in 4 with a 16-byte mdat header); decode flags 0 (5 of 8), DecISMFlag, DecStartOnMoof or both, the same in both modes. Both files run through everything above. " +
			"Whole-file encodes (round 6): progressive files: File.Encode and File.EncodeSW (slice writer of File.Size() bytes) of both trees; fragmented files (repo and generated): a fresh pair of trees per mode, EncModeBoxTree and EncModeSegment, File.Encode and File.EncodeSW each. Judged mode against mode: the in-memory output is read with the reference walker, the lazy output must be exactly those bytes with the payload of every top-level mdat removed (so every other box is byte-identical, every lazy mdat is its header, nothing follows a header but the next box); one-sided errors/panics are violations, the moof trees after a segment-mode encode must still be DeepEqual (trun data offsets). Box level: Encode and EncodeSW of every non-mdat top-level box give the same bytes in both modes. " +
			"Sample access in fragments (round 6): for single-traf single-trun fragments Fragment.GetSampleInterval in both modes for all intervals (at most 6 samples, else boundary + 6 random): same offset/size/time/samples, the lazy interval read with ReadData and CopyData = the file = the in-memory interval's Data, and for generated files = the samples the independent reader ref/frag finds; for every track of every fragment the in-memory Fragment.GetFullSamples against lazy ReadData/CopyData of each sample's range as located by ref/frag (covers multi-trun, multi-traf, permuted and gapped data). " +
			"Round 7, on every file both modes accept (files of at most 256 KiB; draws from a generator of its own, seeded by VERIF_SEED and the file bytes): (a) File.Info of both trees also at the level specs all:2, mdat:2, all:1,mdat:3, the empty spec and one drawn per case (1..4 box types present in the file with levels 0..3, optionally all:N and mdat:1..4, in random order), before anything else touches the trees: same text, same outcome. " +
			"(b) Decode starts that are not offset 0 of the ReadSeeker: the file behind a prefix of other bytes (1, 7, 8, 1000, 4096, random < 5002 bytes; 1 in 8 behind a virtual prefix of more than 4 GiB) or stored twice back to back with the reader at the start of the second copy (one of the two per case), and the tail of the file from a PRNG-chosen top-level box boundary with the reader over the whole file positioned there; readers bytes.Reader, data+io.EOF, io.SectionReader, *os.File (1 in 10), all positioned with Seek before DecodeFile(rs, WithDecodeMode(DecModeLazyMdat)) (decode flags of the case without DecISMFlag). Expected = the in-memory decode of the bytes from the decode start on (bytes.Reader over exactly those bytes) and the reference walker's boxes of those bytes: same acceptance, top-level box list, sizes, File.Size, non-mdat boxes structurally equal, mdat StartPos/LargeSize/HeaderSize/PayloadAbsoluteOffset relative to the decode start in both modes, segments/fragments/moofs, File.Info at one of all:1, all:2, mdat:2; every 4th placement also decodes in memory from the advanced reader to confirm that this is the in-memory decode of the bytes from there on. Then every lazy mdat is read (whole payload, first byte, last byte, 2 random ranges; ReadData + CopyData) and every track of a progressive file copied (all samples, work buffers nil and 7) through readers in which offset 0 is the decode start (bytes.Reader over those bytes, io.SectionReader starting at the decode start): the file's bytes. " +
			"(c) Box-level loop: the file decoded box by box with DecodeBox (bytes.Reader over the file) and with DecodeBoxLazyMdat, the caller adding Size() to the position as DecodeFile does; first position handed in 0, 1, 8, 4000, random < 2^20 or 2^32+k (positions of an enclosing file), the lazy loop's reader standing at offset 0, 1, 7, 1000 or random < 3001 of a blob with other bytes in front, so that the positions handed in are mostly not the reader's offsets: same outcome per call (box, error, io.EOF), the loop ends after exactly the walker's boxes, type and Size per box = the other loop = the walker, non-mdat boxes structurally equal, mdat StartPos/HeaderSize/PayloadAbsoluteOffset = the position handed in; then the whole payload of every lazy mdat through ReadData and CopyData with a virtual reader of the enclosing file (that many other bytes, then the file). " +
			"For progressive files with a reference expansion: File.CopySampleData for all sample intervals of tracks with at most 12 samples (boundary + 40 random otherwise) x work buffers {nil, 1, 2, 3, 7, 16, 4096, total+5} in lazy mode and {nil, 7} in memory mode = concatenation of the samples' bytes. " +
			"Non-trivial = a file both modes accept that has an mdat with at least 2 payload bytes on which range comparisons ran (hash of the file bytes); evaluations = individual data calls and tree comparisons.",
		Assumptions: []string{
			"a ReadSeeker may return fewer bytes than asked for and may return its last bytes together with io.EOF (io.Reader contract); the slow reader is used only for data calls, never for decoding",
			"the API asks for an io.ReadSeeker: only Read and Seek define the file. Other methods the value happens to have (ReadAt, WriteTo promoted from an embedded storage) may address something else and must not change the result",
			"whole-file encodes are compared mode against mode, not against the input: segment-mode encoding leaves out top-level boxes outside init/segments and re-encoded boxes need not equal their input bytes (other properties); encode_memory_output_equals_input counts how often the in-memory output is the input, in which case the lazy output is the input without mdat payloads",
			"a fragment whose moof points outside its mdat payload has no valid sample range: in-memory slicing fails there while lazy mode reports the range; counted, not compared",
			"Fragment.GetFullSamples does not exist for a lazily decoded mdat (it needs mdat.Data); the lazy counterpart is GetSampleInterval/ref-located ranges + ReadData/CopyData",
			"ranges outside the mdat payload are outside the property's domain: only 'no wrong bytes' is checked there, a panic there is recorded as coverage, not as a violation",
			"an mdat with an empty payload is not 'lazy' for the library (IsLazy false); equality of the two modes is still required",
			"DecodeFile counts box positions from 0 at the first byte it reads, in both modes (an io.Reader has no position): a decode that starts at offset X of a ReadSeeker records positions relative to X, and ReadData/CopyData/CopySampleData, which seek to recorded positions with io.SeekStart, then need a reader in which offset 0 is the decode start; confirmed on every 4th placement by the in-memory decode from the advanced reader (a disagreement there would be reported as inconclusive, not as a violation)",
			"DecISMFlag makes DecodeFile seek to the end and back to offset 0 of the reader in both modes, so it cannot be combined with a decode start other than offset 0; the advanced-reader family drops that flag",
			"File.Info is a rendering of the box tree with its sizes (observe_at of the property names the Info dump): the two trees being the same tree, every level spec must print the same text; compared before sample access fills trun defaults into one tree",
			"DecodeBoxLazyMdat(pos, rs) takes the position from the caller and reads at the reader's current offset: the two need not be the same numbers (boxes cut out of, or stored inside, an enclosing file)",
			"scope (round 8): the two modes of the statement are DecodeFile/DecodeBox with and without DecModeLazyMdat/DecodeBoxLazyMdat, and its encode sentence is about a lazily DECODED mdat judged against the original box in the file. Not observed on purpose: (a) an mdat that is lazily WRITTEN, i.e. whose size is accumulated from sample metadata by Fragment.AddSample/AddSamples/AddSampleToTrack or set with SetLazyDataSize (no decode, no original box; the expected header would be a sum over the samples added, which is fragment building: C05 samples written into fragments, C02 Size = header size field, C11 segmenter -lazy); the mdat-side code such a box shares with a decoded one (Size/HeaderSize/Encode at lazy sizes around 2^32) is observed through the giants; (b) mp4.GetTopBoxInfoList, a header lister that builds no box tree, is neither decode mode and is called by none of the anchored files. Top-level boxes without payload do occur in the decode comparison (counter set empty_top_level_box)",
		},
		Setup: setup,
		// a case normally takes milliseconds; a data call that never returns in one mode is a difference between the modes
		CaseCPUSec: 30, HangIsViolation: true,
		NumCases: func(env *runner.Env) int {
			return len(corpus) + numGenerated(env) + len(giants) + numFragHistories(env)
		},
		Run: run,
		Finalize: func(a *runner.Agg) {
			if a.Counters["files_corpus_compared"] == 0 {
				a.Note("no repo test file was accepted by both decode modes")
			}
			for _, k := range []string{"call:lazy/ReadData", "call:lazy/CopyData", "call:memory/ReadData", "call:memory/CopyData", "call:lazy/CopySampleData", "call:memory/CopySampleData", "call:lazy/Encode",
				"note:encode_pairs_equal:progressive/File.Encode", "note:encode_pairs_equal:progressive/File.EncodeSW", "note:encode_pairs_equal:fragmented-segment/File.Encode", "note:encode_pairs_equal:fragmented-segment/File.EncodeSW",
				"note:encode_pairs_equal:fragmented-boxtree/File.Encode", "note:encode_pairs_equal:fragmented-boxtree/File.EncodeSW", "note:frag_files_reshaped", "note:frag_reshaped_single_trun_with_lead_gap", "note:frag_sample_intervals_compared", "note:frag_full_samples_compared"} {
				if len(k) > 5 && k[:5] == "note:" {
					if a.Counters[k[5:]] == 0 {
						a.Note("%s is 0", k[5:])
					}
					continue
				}
				if a.Counters[k] == 0 {
					a.Note("%s was never evaluated", k[5:])
				}
			}
			for _, k := range []string{"info_pairs_compared:all:2", "info_pairs_compared:mdat:2", "info_pairs_compared:all:1,mdat:3", "info_pairs_compared:random-per-box-spec",
				"advanced_trees_equal:behind-a-prefix", "advanced_trees_equal:second-of-two-stored-copies", "advanced_trees_equal:tail-from-a-box-boundary", "advanced_data_calls", "advanced_premise_checked_in_memory_decode_from_the_advanced_reader",
				"boxloop_files_equal_with_positions_other_than_reader_offsets", "boxloop_lazy_payload_reads"} {
				if a.Counters[k] == 0 {
					a.Note("%s is 0", k)
				}
			}
			for _, kind := range readerKindNames {
				for _, fn := range []string{"ReadData", "CopyData", "CopySampleData"} {
					if a.Counters["reader:"+kind+" / "+fn] == 0 {
						a.Note("lazy %s was never called through reader kind %q", fn, kind)
					}
				}
			}
		},
	})
}

// slowReader delivers at most a few bytes per Read.
type slowReader struct {
	r   *bytes.Reader
	rnd *runner.Rand
}

func (s *slowReader) Read(p []byte) (int, error) {
	k := s.rnd.Range(1, 5)
	if len(p) > k {
		p = p[:k]
	}
	return s.r.Read(p)
}
func (s *slowReader) Seek(off int64, whence int) (int64, error) { return s.r.Seek(off, whence) }

type state struct {
	c      *runner.Ctx
	b      []byte
	kind   string
	name   string
	rs     io.ReadSeeker
	rsK    string
	rsKind int
	rd     *readers
	flags  mp4.DecFileFlags
	shape  string // generated fragmented files: as-built | reshaped
	// lazy data calls per reader kind and function
	rdCalls map[string]int64
	evals   int64
	// held are the most recent lazy ReadData results still in the caller's hands
	held     [4]heldRead
	heldNext int
	// r7 draws for the round-7 families (decode starts other than reader offset 0, box loop, Info level
	// specs): a generator of its own, derived from the seed and the file bytes, so that the draws of the
	// earlier families are what they were
	r7 *runner.Rand
}

type heldRead struct {
	got         []byte
	start, size int
}

func (s *state) detail(extra map[string]interface{}) map[string]interface{} {
	d := map[string]interface{}{"file": s.name, "kind": s.kind, "file_len": len(s.b), "readseeker": s.rsK}
	if s.flags != 0 {
		d["dec_flags"] = int(s.flags)
	}
	if s.kind == "generated-frag" && len(s.b) <= 6000 {
		d["file_hex"] = fmt.Sprintf("%x", s.b)
	}
	for k, v := range extra {
		d[k] = v
	}
	return d
}

func run(c *runner.Ctx, idx int) {
	if k := idx - len(corpus) - numGenerated(c.Env); k >= len(giants) {
		runFrag(c, k-len(giants))
		return
	} else if k >= 0 {
		runGiant(c, giants[k])
		return
	}
	s := &state{c: c}
	if idx < len(corpus) {
		s.b, s.name, s.kind = corpus[idx].data, corpus[idx].name, "corpus"
	} else {
		budget := c.Rand.PickInt(8, 32, 96, 512, 4096, 4096)
		smallN := 48
		if budget <= 96 {
			smallN = c.Rand.PickInt(3, 12, 48)
		}
		huge := (idx-len(corpus))%16 == 7
		f := prog.RandomTables(c.Rand, prog.TableOptions{Entries: entries, PayloadBudget: budget, SmallN: smallN, ZeroSizes: true, Huge: huge})
		s.b, s.name, s.kind = f.Bytes, f.DescriptionLabel, "generated"
		if huge {
			defer s.checkStretched(f)
		}
		extra := "none"
		if c.Rand.Chance(1, 5) {
			// an extra empty mdat box after everything else (the library allows
			// extra empty mdat boxes; offsets are unaffected)
			s.b = append(append([]byte(nil), s.b...), 0, 0, 0, 8, 'm', 'd', 'a', 't')
			s.name += " +trailing-empty-mdat"
			extra = "trailing-empty-mdat"
		}
		c.Seen("extra_mdat", extra)
		if c.Rand.Chance(1, 4) {
			// a large top-level free/skip box with non-zero content behind everything else (offsets unaffected)
			n := c.Rand.PickInt(4088, 4095, 4096, 4097, 5000, 8192, 70000)
			box := make([]byte, 8+n)
			box[0], box[1], box[2], box[3] = byte((8+n)>>24), byte((8+n)>>16), byte((8+n)>>8), byte(8+n)
			copy(box[4:], c.Rand.PickStr("free", "skip"))
			for i := 8; i < len(box); i++ {
				box[i] = byte(1 + (i*7+n)%255)
			}
			s.b = append(append([]byte(nil), s.b...), box...)
			s.name += fmt.Sprintf(" +trailing-%s(%d)", box[4:8], n)
			c.Count("generated_with_large_trailing_free_or_skip", 1)
		}
		c.Seen("generated_layout", fmt.Sprintf("mdatFirst=%v large=%v", f.MdatFirst, f.LargeMdat))
	}
	s.runFile()
}

// runFile picks the primary reader kind of the case and checks s.b.
func (s *state) runFile() {
	c := s.c
	s.rd = newReaders(c, s.b)
	defer s.rd.close()
	s.rdCalls = map[string]int64{}
	s.rsKind = readerWeights[c.Rand.Intn(len(readerWeights))]
	if s.rs = s.rd.get(s.rsKind); s.rs == nil {
		c.Count("scratch_file_unavailable", 1)
		s.rsKind = rkBytes
		s.rs = s.rd.get(rkBytes)
	}
	s.rsK = readerKindNames[s.rsKind]
	c.Seen("readseeker", s.rsK)
	s.r7 = runner.NewRand(uint64(c.Env.Seed), runner.Hash64(s.b), 0xc08c7)
	s.check()
	for k, n := range s.rdCalls {
		c.Count("reader:"+k, n)
	}
	c.Evals(s.evals)
}

// lazyDecodeReader is the reader the lazy DecodeFile reads from: the case's
// reader, rewound (the slow reader is used for data calls only).
func (s *state) lazyDecodeReader() io.ReadSeeker {
	if s.rsKind == rkSlow {
		return bytes.NewReader(s.b)
	}
	_, _ = s.rs.Seek(0, io.SeekStart)
	return s.rs
}

func (s *state) decodeBoth() (fm, fl *mp4.File, em, el error, pm, pl *runner.PanicInfo) {
	c := s.c
	pm = c.Guard(func() { fm, em = mp4.DecodeFile(bytes.NewReader(s.b), mp4.WithDecodeFlags(s.flags)) })
	rs := s.lazyDecodeReader()
	pl = c.Guard(func() {
		fl, el = mp4.DecodeFile(rs, mp4.WithDecodeMode(mp4.DecModeLazyMdat), mp4.WithDecodeFlags(s.flags))
	})
	s.evals += 2
	return
}

func (s *state) check() {
	c, b := s.c, s.b
	fm, fl, em, el, pm, pl := s.decodeBoth()
	c.Seen("lazy_decode_reader", map[bool]string{true: "bytes.Reader (slow reader case)", false: s.rsK}[s.rsKind == rkSlow])
	if pm != nil || pl != nil {
		// crashes of the decoder on repo files belong to C04; here only a difference matters
		if (pm != nil) != (pl != nil) {
			c.Violation("decode/panic-in-one-mode", fmt.Sprintf("only one decode mode panics on %s: memory=%v lazy=%v", s.name, pm != nil, pl != nil), s.detail(nil))
		} else {
			c.Count("files_both_modes_panic", 1)
		}
		return
	}
	if (em != nil) != (el != nil) {
		c.Violation("decode/accept-mismatch", fmt.Sprintf("%s: memory mode error %v, lazy mode error %v", s.name, em, el), s.detail(nil))
		return
	}
	if em != nil {
		c.Count("files_rejected_by_both_modes", 1)
		if s.kind == "generated" {
			c.Violation("decode/generated-file-rejected", fmt.Sprintf("both modes reject a consistent generated file (%s): %v", s.name, em), s.detail(nil))
		}
		return
	}
	nodes, werr := boxwalk.Walk(b)
	if werr != nil {
		c.Inconclusive("reference walker cannot tile a file the library accepts")
		return
	}
	c.Count("files_"+s.kind+"_compared", 1)
	frag := fm.IsFragmented()
	c.Seen("file_kind", fmt.Sprintf("%s fragmented=%v", s.kind, frag))

	// ---- trees ----
	s.evals++
	if fm.IsFragmented() != fl.IsFragmented() || len(fm.Children) != len(fl.Children) || len(fm.Children) != len(nodes) {
		c.Violation("tree/shape", fmt.Sprintf("%s: top-level boxes memory=%d lazy=%d walker=%d, fragmented %v/%v", s.name, len(fm.Children), len(fl.Children), len(nodes), fm.IsFragmented(), fl.IsFragmented()), s.detail(nil))
		return
	}
	if fm.Size() != fl.Size() {
		c.Violation("tree/file-size", fmt.Sprintf("%s: File.Size memory=%d lazy=%d", s.name, fm.Size(), fl.Size()), s.detail(nil))
	}
	type mdatPair struct {
		m, l *mp4.MdatBox
		node *boxwalk.Node
	}
	var mdats []mdatPair
	for i := range fm.Children {
		bm, bl, nd := fm.Children[i], fl.Children[i], nodes[i]
		if nd.Size == nd.HdrLen {
			// evidence only (round 8): top-level boxes without payload, after which a position is easily miscounted
			where := "between"
			if i == 0 {
				where = "first"
			} else if i == len(nodes)-1 {
				where = "last"
			}
			c.Seen("empty_top_level_box", fmt.Sprintf("%q header=%d %s", nd.Type, nd.HdrLen, where))
		}
		if bm.Type() != bl.Type() || bm.Type() != nd.Type {
			c.Violation("tree/type", fmt.Sprintf("%s: child %d is %s in memory mode, %s in lazy mode, %s in the file", s.name, i, bm.Type(), bl.Type(), nd.Type), s.detail(nil))
			return
		}
		if bm.Size() != bl.Size() || bm.Size() != uint64(nd.Size) {
			c.Violation("tree/box-size/"+bm.Type(), fmt.Sprintf("%s: %s (child %d) Size memory=%d lazy=%d file=%d", s.name, bm.Type(), i, bm.Size(), bl.Size(), nd.Size), s.detail(nil))
			continue
		}
		if mm, ok := bm.(*mp4.MdatBox); ok {
			ml, ok2 := bl.(*mp4.MdatBox)
			if !ok2 {
				c.Violation("tree/type", "mdat is not an MdatBox in lazy mode", s.detail(nil))
				return
			}
			mdats = append(mdats, mdatPair{mm, ml, nd})
			continue
		}
		if !sameTree(bm, bl) {
			c.Violation("tree/box-differs/"+bm.Type(), fmt.Sprintf("%s: %s (child %d) decodes to different structures in the two modes", s.name, bm.Type(), i), s.detail(nil))
		}
	}
	if frag {
		if len(fm.Segments) != len(fl.Segments) {
			c.Violation("tree/segments", fmt.Sprintf("%s: %d segments in memory mode, %d in lazy mode", s.name, len(fm.Segments), len(fl.Segments)), s.detail(nil))
		} else {
			for si := range fm.Segments {
				a, z := fm.Segments[si], fl.Segments[si]
				if len(a.Fragments) != len(z.Fragments) || a.StartPos != z.StartPos {
					c.Violation("tree/fragments", fmt.Sprintf("%s: segment %d has %d/%d fragments, StartPos %d/%d", s.name, si, len(a.Fragments), len(z.Fragments), a.StartPos, z.StartPos), s.detail(nil))
					continue
				}
				for fi := range a.Fragments {
					x, y := a.Fragments[fi], z.Fragments[fi]
					if x.StartPos != y.StartPos || !sameTree(x.Moof, y.Moof) || (x.Mdat == nil) != (y.Mdat == nil) {
						c.Violation("tree/fragment-differs", fmt.Sprintf("%s: segment %d fragment %d differs between the modes", s.name, si, fi), s.detail(nil))
					} else if x.Mdat != nil && (x.Mdat.StartPos != y.Mdat.StartPos || x.Mdat.Size() != y.Mdat.Size()) {
						c.Violation("tree/fragment-mdat", fmt.Sprintf("%s: segment %d fragment %d mdat StartPos %d/%d Size %d/%d", s.name, si, fi, x.Mdat.StartPos, y.Mdat.StartPos, x.Mdat.Size(), y.Mdat.Size()), s.detail(nil))
					}
				}
			}
		}
	} else if (fm.Mdat == nil) != (fl.Mdat == nil) {
		c.Violation("tree/file-mdat", s.name+": File.Mdat set in only one mode", s.detail(nil))
	}
	var im, il bytes.Buffer
	var ie1, ie2 error
	pi1 := c.Guard(func() { ie1 = fm.Info(&im, "all:1", "", "  ") })
	pi2 := c.Guard(func() { ie2 = fl.Info(&il, "all:1", "", "  ") })
	s.evals += 2
	if (pi1 != nil) != (pi2 != nil) || (ie1 != nil) != (ie2 != nil) || (pi1 == nil && !bytes.Equal(im.Bytes(), il.Bytes())) {
		what := "outputs differ"
		la, lb := strings.Split(im.String(), "\n"), strings.Split(il.String(), "\n")
		for i := 0; i < len(la) && i < len(lb); i++ {
			if la[i] != lb[i] {
				what = fmt.Sprintf("line %d: memory %q, lazy %q", i+1, la[i], lb[i])
				break
			}
		}
		c.Violation("info/differs", fmt.Sprintf("%s: File.Info(all:1) differs between the modes: %s (errors %v / %v)", s.name, what, ie1, ie2), s.detail(nil))
	}

	// the other level specs (before anything touches the trees)
	s.checkInfoSpecs(fm, fl, nodes)

	// ---- mdat boxes ----
	compared := false
	for mi, mp := range mdats {
		if s.checkMdat(mi, mp.m, mp.l, mp.node) {
			compared = true
		}
	}
	if len(mdats) == 0 {
		c.Seen("mdat_payload", "no-mdat")
	}
	// ---- sample ranges ----
	if !frag && fm.Moov != nil && fm.Mdat != nil && fl.Mdat != nil {
		s.checkSamples(fm, fl)
	}
	// ---- whole-file and box-level encodes in both modes ----
	s.checkEncodes(fm, fl, frag)
	// ---- sample access in fragments ----
	if frag {
		s.checkFragSamples(fm, fl)
	}
	// ---- round 7: decode starts other than reader offset 0, box-level decode loop ----
	s.checkAdvanced(nodes)
	s.checkBoxLoop(nodes)
	if compared {
		c.Nontrivial(runner.Hash64(b))
	}
	if c.WantSample() && compared {
		c.Sample(map[string]interface{}{"file": s.name, "kind": s.kind, "bytes": len(b), "mdats": len(mdats), "fragmented": frag, "readseeker": s.rsK, "data_calls": s.evals})
	}
}

func payloadClass(n int) string {
	switch {
	case n == 0:
		return "0"
	case n == 1:
		return "1"
	case n <= 96:
		return "2-96"
	case n <= 4096:
		return "97-4096"
	}
	return ">4096"
}

func rangeClass(start, size, ps, pe int) string {
	switch {
	case start == ps && start+size == pe:
		return "whole-payload"
	case start+size == pe:
		return "ends-at-last-byte"
	case start == ps:
		return "starts-at-first-byte"
	}
	return "interior"
}

// dataCall performs one ReadData/CopyData call and compares with the file.
// valid tells whether the range lies inside the payload. It returns true when
// the call returned the file's bytes of a valid range.
func (s *state) dataCall(mode, fn string, m *mp4.MdatBox, rs io.ReadSeeker, start, size int, cls string, valid bool) bool {
	c, b := s.c, s.b
	var got []byte
	var err error
	var n int64 = -1
	pi := c.Guard(func() {
		if fn == "ReadData" {
			got, err = m.ReadData(int64(start), int64(size), rs)
		} else {
			var w bytes.Buffer
			n, err = m.CopyData(int64(start), int64(size), rs, &w)
			got = w.Bytes()
		}
	})
	s.evals++
	c.Count("call:"+mode+"/"+fn, 1)
	if mode == "lazy" {
		s.rdCalls[s.rsK+" / "+fn]++
	}
	det := func() map[string]interface{} {
		return s.detail(map[string]interface{}{"mode": mode, "function": fn, "start": start, "size": size, "payload_start": int(m.PayloadAbsoluteOffset()), "range_class": cls, "large_size": m.LargeSize})
	}
	if !valid {
		c.Count("outside_range_calls", 1)
		if pi != nil {
			c.Seen("outside_range_panic", mode+"/"+fn+"/"+pi.Class)
			return false
		}
		if err == nil {
			inFile := start >= 0 && start+size <= len(b)
			if !inFile || !bytes.Equal(got, b[start:start+size]) {
				c.Violation(mode+"/"+fn+"/outside-payload/wrong-bytes", fmt.Sprintf("%s %s(%d,%d) of a range outside the mdat payload returns %d bytes that are not the file's bytes there and no error (%s)", mode, fn, start, size, len(got), s.name), det())
			} else {
				c.Seen("outside_range_result", mode+"/"+fn+"/file-bytes")
			}
		} else {
			c.Seen("outside_range_result", mode+"/"+fn+"/error")
		}
		return false
	}
	key := mode + "/" + fn + "/" + s.readerKeyClass(mode, cls)
	if pi != nil {
		d := det()
		d["stack"] = pi.Stack
		c.Violation(key+"/panic/"+pi.TopFrame, fmt.Sprintf("%s %s(%d,%d) panics: %s (%s)", mode, fn, start, size, pi.Value, s.name), d)
		return false
	}
	if err != nil {
		c.Violation(key+"/error", fmt.Sprintf("%s-mode %s(start=%d,size=%d) fails with %q for a range inside the mdat payload [%d,%d) (%s)", mode, fn, start, size, err, m.PayloadAbsoluteOffset(), int(m.PayloadAbsoluteOffset())+int(m.Size()-m.HeaderSize()), s.name), det())
		return false
	}
	if !bytes.Equal(got, b[start:start+size]) || (n >= 0 && n != int64(size)) {
		c.Violation(key+"/wrong-bytes", fmt.Sprintf("%s-mode %s(start=%d,size=%d) returns %d bytes (n=%d) that differ from file[%d:%d] (%s)", mode, fn, start, size, len(got), n, start, start+size, s.name), det())
		return false
	}
	if mode != "lazy" {
		return true
	}
	// a result handed out earlier stays the caller's: later calls on the same box must not change it
	// (in-memory results are views of the payload and never change)
	for i := range s.held {
		h := &s.held[i]
		if h.got != nil && !bytes.Equal(h.got, b[h.start:h.start+h.size]) {
			d := det()
			d["earlier_start"], d["earlier_size"] = h.start, h.size
			c.Violation("lazy/ReadData/earlier-result-changed-by-later-"+fn, fmt.Sprintf("the slice returned by lazy ReadData(start=%d,size=%d) was correct when returned and no longer equals file[%d:%d] after %s(start=%d,size=%d) on the same mdat (%s)",
				h.start, h.size, h.start, h.start+h.size, fn, start, size, s.name), d)
			h.got = nil
		}
	}
	if fn == "ReadData" {
		s.held[s.heldNext%len(s.held)] = heldRead{got, start, size}
		s.heldNext++
		c.Count("lazy_results_held_across_later_calls", 1)
	}
	return true
}

func (s *state) checkMdat(mi int, mm, ml *mp4.MdatBox, nd *boxwalk.Node) bool {
	c, b := s.c, s.b
	ps, pe := nd.Start+nd.HdrLen, nd.End()
	plen := pe - ps
	c.Seen("mdat_payload", payloadClass(plen))
	c.Seen("mdat_header", map[bool]string{false: "compact", true: "largesize"}[nd.Large])
	for _, x := range []struct {
		mode string
		m    *mp4.MdatBox
	}{{"memory", mm}, {"lazy", ml}} {
		if x.m.StartPos != uint64(nd.Start) || x.m.LargeSize != nd.Large || x.m.HeaderSize() != uint64(nd.HdrLen) || x.m.PayloadAbsoluteOffset() != uint64(ps) || x.m.Size() != uint64(nd.Size) {
			c.Violation(x.mode+"/mdat-position", fmt.Sprintf("%s: mdat %d in %s mode: StartPos %d LargeSize %v HeaderSize %d PayloadAbsoluteOffset %d Size %d; the file has it at %d, largesize %v, header %d, payload at %d, size %d",
				s.name, mi, x.mode, x.m.StartPos, x.m.LargeSize, x.m.HeaderSize(), x.m.PayloadAbsoluteOffset(), x.m.Size(), nd.Start, nd.Large, nd.HdrLen, ps, nd.Size), s.detail(nil))
			return false
		}
	}
	if ml.IsLazy() != (plen > 0) {
		c.Seen("lazy_flag", fmt.Sprintf("IsLazy=%v payload=%s", ml.IsLazy(), payloadClass(plen)))
	}
	hdrCls := map[bool]string{false: "compact", true: "largesize"}[nd.Large]
	// lazy Encode = header bytes only
	{
		var w bytes.Buffer
		var err error
		pi := c.Guard(func() { err = ml.Encode(&w) })
		s.evals++
		c.Count("call:lazy/Encode", 1)
		if pi != nil || err != nil || !bytes.Equal(w.Bytes(), b[nd.Start:ps]) {
			c.Violation("lazy/Encode/"+hdrCls, fmt.Sprintf("%s: Encode of the lazily decoded mdat writes %d bytes %x (err %v, panic %v); the original header is %x", s.name, w.Len(), head(w.Bytes(), 24), err, pi != nil, b[nd.Start:ps]), s.detail(nil))
		}
		sw := bits.NewFixedSliceWriter(nd.HdrLen)
		pi = c.Guard(func() { err = ml.EncodeSW(sw) })
		s.evals++
		if pi != nil || err != nil || !bytes.Equal(sw.Bytes(), b[nd.Start:ps]) {
			c.Violation("lazy/EncodeSW/"+hdrCls, fmt.Sprintf("%s: EncodeSW of the lazily decoded mdat writes %x (err %v, panic %v); the original header is %x", s.name, head(sw.Bytes(), 24), err, pi != nil, b[nd.Start:ps]), s.detail(nil))
		}
		// header + whole payload copied = original box
		if plen > 0 {
			var all bytes.Buffer
			all.Write(w.Bytes())
			var n int64
			pi = c.Guard(func() { n, err = ml.CopyData(int64(ps), int64(plen), s.rs, &all) })
			s.evals++
			if pi != nil || err != nil || n != int64(plen) || !bytes.Equal(all.Bytes(), b[nd.Start:pe]) {
				c.Violation("lazy/header+CopyData/"+hdrCls, fmt.Sprintf("%s: lazy header + CopyData(whole payload) gives %d bytes (n=%d err %v), the original box has %d", s.name, all.Len(), n, err, nd.Size), s.detail(nil))
			}
		}
		// memory Encode = whole box
		var wm bytes.Buffer
		pi = c.Guard(func() { err = mm.Encode(&wm) })
		s.evals++
		if pi != nil || err != nil || !bytes.Equal(wm.Bytes(), b[nd.Start:pe]) {
			c.Violation("memory/Encode/"+hdrCls, fmt.Sprintf("%s: Encode of the in-memory mdat gives %d bytes (err %v), the original box has %d", s.name, wm.Len(), err, nd.Size), s.detail(nil))
		}
	}
	// ---- ranges ----
	type rg struct{ start, size int }
	var ranges []rg
	if plen <= 96 {
		for st := ps; st < pe; st++ {
			for sz := 1; st+sz <= pe; sz++ {
				ranges = append(ranges, rg{st, sz})
			}
		}
		c.Seen("ranges", "exhaustive")
	} else {
		set := map[rg]bool{}
		add := func(st, en int) { // [st,en)
			if st >= ps && en <= pe && en > st && !set[rg{st, en - st}] {
				set[rg{st, en - st}] = true
				ranges = append(ranges, rg{st, en - st})
			}
		}
		for st := ps; st < ps+3; st++ {
			for _, en := range []int{st + 1, st + 2, st + 3, st + 7, st + 64, pe - 3, pe - 2, pe - 1, pe} {
				add(st, en)
			}
		}
		for en := pe - 2; en <= pe; en++ {
			for _, st := range []int{ps, ps + 1, ps + 2, en - 1, en - 2, en - 3, en - 7, en - 64, en - 4096} {
				add(st, en)
			}
		}
		for i := 0; i < 200; i++ {
			st := ps + c.Rand.Intn(plen)
			var sz int
			if i%2 == 0 {
				sz = 1 + c.Rand.Intn(64)
			} else {
				sz = 1 + c.Rand.Intn(pe-st)
			}
			if st+sz > pe {
				sz = pe - st
			}
			add(st, st+sz)
		}
		c.Seen("ranges", "boundary+random")
	}
	for _, r := range ranges {
		cls := rangeClass(r.start, r.size, ps, pe)
		c.Seen("range_class", cls)
		s.dataCall("memory", "ReadData", mm, nil, r.start, r.size, cls, true)
		s.dataCall("memory", "CopyData", mm, nil, r.start, r.size, cls, true)
		s.dataCall("lazy", "ReadData", ml, s.rs, r.start, r.size, cls, true)
		s.dataCall("lazy", "CopyData", ml, s.rs, r.start, r.size, cls, true)
	}
	// ---- every other reader kind on a few ranges of the same lazily decoded box ----
	if plen > 0 {
		var few []rg
		fset := map[rg]bool{}
		addF := func(st, en int) {
			if st >= ps && en <= pe && en > st && !fset[rg{st, en - st}] {
				fset[rg{st, en - st}] = true
				few = append(few, rg{st, en - st})
			}
		}
		addF(ps, pe)
		addF(ps, ps+1)
		addF(pe-1, pe)
		addF(ps+1, pe)
		addF(ps, pe-1)
		for i := 0; i < 3; i++ {
			st := ps + c.Rand.Intn(plen)
			addF(st, st+1+c.Rand.Intn(pe-st))
		}
		s.withOtherReaders(func() {
			for _, r := range few {
				cls := rangeClass(r.start, r.size, ps, pe)
				s.dataCall("lazy", "ReadData", ml, s.rs, r.start, r.size, cls, true)
				s.dataCall("lazy", "CopyData", ml, s.rs, r.start, r.size, cls, true)
			}
		})
	}
	// outside the payload
	for _, r := range []rg{{ps - 1, 1}, {ps - 1, 2}, {pe, 1}, {pe - 1, 2}, {0, 4}, {len(b) - 1, 2}, {ps, plen + 1}, {len(b), 1}} {
		if r.start < 0 || r.size < 1 || (r.start >= ps && r.start+r.size <= pe) {
			continue
		}
		s.dataCall("memory", "ReadData", mm, nil, r.start, r.size, "outside", false)
		s.dataCall("memory", "CopyData", mm, nil, r.start, r.size, "outside", false)
		if plen > 0 {
			s.dataCall("lazy", "ReadData", ml, s.rs, r.start, r.size, "outside", false)
			s.dataCall("lazy", "CopyData", ml, s.rs, r.start, r.size, "outside", false)
		}
	}
	return plen >= 2 && len(ranges) > 0
}

func head(b []byte, n int) []byte {
	if len(b) > n {
		return b[:n]
	}
	return b
}

func (s *state) checkSamples(fm, fl *mp4.File) {
	c, b := s.c, s.b
	m, err := stbl.ParseFile(b)
	if err != nil || len(m.Tracks) != len(fm.Moov.Traks) || len(fl.Moov.Traks) != len(m.Tracks) {
		c.Inconclusive("reference table reader cannot map a progressive file the library accepts")
		return
	}
	mdatEnd := 0
	for _, md := range m.Mdats {
		if md.PayloadLen() > 0 {
			mdatEnd = md.Start + md.Size
		}
	}
	for ti, tr := range m.Tracks {
		if tr.ExpandErr != nil {
			c.Inconclusive("reference expansion of a track fails (inconsistent tables in a repo file)")
			continue
		}
		n := len(tr.Samples)
		if n == 0 {
			continue
		}
		if _, ok := tr.IntervalBytes(b, 1, n); !ok {
			c.Inconclusive("sample ranges of a track leave the file")
			continue
		}
		var ivs [][2]int
		if n <= 12 {
			for a := 1; a <= n; a++ {
				for z := a; z <= n; z++ {
					ivs = append(ivs, [2]int{a, z})
				}
			}
			c.Seen("sample_intervals", "exhaustive")
		} else {
			ivs = append(ivs, [2]int{1, 1}, [2]int{1, n}, [2]int{n, n}, [2]int{2, n}, [2]int{1, n - 1}, [2]int{n - 1, n})
			for i := 0; i < 8 && i < len(tr.Chunks); i++ {
				ch := tr.Chunks[c.Rand.Intn(len(tr.Chunks))]
				last := ch.FirstSample + ch.NrSamples - 1
				ivs = append(ivs, [2]int{ch.FirstSample, last})
				if last < n {
					ivs = append(ivs, [2]int{last, last + 1})
				}
			}
			for i := 0; i < 40; i++ {
				a := c.Rand.Range(1, n)
				z := a + c.Rand.Intn(10)
				if i%3 == 0 {
					z = c.Rand.Range(a, n)
				}
				if z > n {
					z = n
				}
				ivs = append(ivs, [2]int{a, z})
			}
			c.Seen("sample_intervals", "boundary+random")
		}
		tm, tl := fm.Moov.Traks[ti], fl.Moov.Traks[ti]
		for _, iv := range ivs {
			a, z := iv[0], iv[1]
			want, _ := tr.IntervalBytes(b, a, z)
			icls := "one-chunk"
			if tr.Samples[a-1].Chunk != tr.Samples[z-1].Chunk {
				icls = "spans-chunks"
			}
			last := tr.Samples[z-1]
			if int(last.Offset)+int(last.Size) == mdatEnd && last.Size > 0 {
				icls += ",ends-at-last-mdat-byte"
			}
			for _, ch := range tr.Chunks[tr.Samples[a-1].Chunk-1 : tr.Samples[z-1].Chunk] {
				lo, hi := ch.FirstSample, ch.FirstSample+ch.NrSamples-1
				if lo < a {
					lo = a
				}
				if hi > z {
					hi = z
				}
				var sz uint64
				for nr := lo; nr <= hi; nr++ {
					sz += uint64(tr.Samples[nr-1].Size)
				}
				if sz == 0 && int(tr.Samples[lo-1].Offset) == len(b) {
					// nothing to read, positioned at the end of the file: a Read of 0 bytes there may report io.EOF
					icls = "zero-size-chunk-at-eof"
				}
			}
			c.Seen("interval_class", icls)
			for _, wsN := range []int{0, 1, 2, 3, 7, 16, 4096, len(want) + 5} {
				s.copySamples("lazy", fl, tl, s.rs, a, z, wsN, want, icls, tr)
			}
			s.copySamples("memory", fm, tm, nil, a, z, 0, want, icls, tr)
			s.copySamples("memory", fm, tm, s.rs, a, z, 7, want, icls, tr)
		}
		// every other reader kind: all samples, the last sample, the first sample
		zeroAtEOF := n > 0 && tr.Samples[n-1].Size == 0 && int(tr.Samples[n-1].Offset) == len(b)
		if !zeroAtEOF {
			s.withOtherReaders(func() {
				for _, iv := range [][2]int{{1, n}, {n, n}, {1, 1}} {
					want, _ := tr.IntervalBytes(b, iv[0], iv[1])
					for _, wsN := range []int{0, 7, len(want) + 5} {
						s.copySamples("lazy", fl, tl, s.rs, iv[0], iv[1], wsN, want, "other-reader-kinds", tr)
					}
				}
			})
		}
	}
}

// readerKeyClass is the class part of a finding key: lazy calls through the
// reader that returns its last bytes together with io.EOF get a class of their
// own (a caller that drops those bytes is one finding, whatever the range).
func (s *state) readerKeyClass(mode, cls string) string {
	if mode == "lazy" && s.rsKind == rkEOF {
		return "reader-returns-last-bytes-with-EOF"
	}
	return cls
}

// withOtherReaders runs f once for every reader kind except the primary one of
// the case, with s.rs/s.rsK switched to it.
func (s *state) withOtherReaders(f func()) {
	rs, k, name := s.rs, s.rsKind, s.rsK
	defer func() { s.rs, s.rsKind, s.rsK = rs, k, name }()
	for kind := 0; kind < nReaderKinds; kind++ {
		if kind == k {
			continue
		}
		r := s.rd.get(kind)
		if r == nil {
			s.c.Count("scratch_file_unavailable", 1)
			continue
		}
		s.rs, s.rsKind, s.rsK = r, kind, readerKindNames[kind]
		f()
	}
}

func wsClass(n, total int) string {
	switch {
	case n == 0:
		return "nil"
	case n > total:
		return ">total"
	}
	return fmt.Sprint(n)
}

func (s *state) copySamples(mode string, f *mp4.File, trak *mp4.TrakBox, rs io.ReadSeeker, a, z, wsN int, want []byte, icls string, tr *stbl.Track) {
	c := s.c
	var ws []byte
	if wsN > 0 {
		ws = make([]byte, wsN)
	}
	var w bytes.Buffer
	var err error
	pi := c.Guard(func() { err = f.CopySampleData(&w, rs, trak, uint32(a), uint32(z), ws) })
	s.evals++
	c.Count("call:"+mode+"/CopySampleData", 1)
	if mode == "lazy" {
		s.rdCalls[s.rsK+" / CopySampleData"]++
	}
	wc := wsClass(wsN, len(want))
	c.Seen("work_buffer", mode+"/"+wc)
	wk := "ws<data"
	switch {
	case wsN == 0:
		wk = "ws=nil"
	case wsN >= len(want):
		wk = "ws>=data"
	}
	key := mode + "/CopySampleData/" + wk + "/" + s.readerKeyClass(mode, icls)
	det := func() map[string]interface{} {
		var lay []string
		for nr := a; nr <= z && nr < a+20; nr++ {
			si := tr.Samples[nr-1]
			lay = append(lay, fmt.Sprintf("#%d chunk %d offset %d size %d", nr, si.Chunk, si.Offset, si.Size))
		}
		return s.detail(map[string]interface{}{"mode": mode, "first_sample": a, "last_sample": z, "work_buffer": wsN, "want_bytes": len(want), "got_bytes": w.Len(), "interval_class": icls, "samples": lay})
	}
	switch {
	case pi != nil:
		d := det()
		d["stack"] = pi.Stack
		c.Violation(key+"/panic/"+pi.TopFrame, fmt.Sprintf("%s-mode CopySampleData(samples %d..%d, work buffer %d) panics: %s (%s)", mode, a, z, wsN, pi.Value, s.name), d)
	case err != nil:
		c.Violation(key+"/error", fmt.Sprintf("%s-mode CopySampleData(samples %d..%d, work buffer %d) fails: %v (%s)", mode, a, z, wsN, err, s.name), det())
	case !bytes.Equal(w.Bytes(), want):
		c.Violation(key+"/wrong-bytes", fmt.Sprintf("%s-mode CopySampleData(samples %d..%d, work buffer %d) writes %d bytes, the samples' bytes in the file are %d bytes and differ (%s)", mode, a, z, wsN, w.Len(), len(want), s.name), det())
	}
}

// checkStretched serves the same movie as a file of more than 4 GiB (a hole of
// about 2^32 zero bytes inside the mdat payload in front of a PRNG-chosen
// chunk, chunk offsets behind it moved accordingly) through a virtual
// ReadSeeker, decodes it lazily and copies sample intervals: the bytes must be
// those of the compact twin. Only the lazy mode can be exercised at this size.
func (s *state) checkStretched(f *prog.File) {
	c := s.c
	if len(f.ChunkOrder) == 0 {
		return
	}
	at := c.Rand.Intn(len(f.ChunkOrder))
	by := uint64(1)<<32 - uint64(c.Rand.PickInt(0, 1, 8, 4096)) + uint64(c.Rand.PickInt(0, 0, 16, 1<<20))
	pre, suf, _, err := f.StretchedPieces(at, by)
	if err != nil {
		c.Count("stretched_not_applicable", 1)
		return
	}
	compact, perr := stbl.ParseFile(f.Bytes)
	if perr != nil {
		return
	}
	rs := &sparseRS{prefix: pre, hole: int64(by), suffix: suf}
	var fl *mp4.File
	var derr error
	if pi := c.Guard(func() { fl, derr = mp4.DecodeFile(rs, mp4.WithDecodeMode(mp4.DecModeLazyMdat)) }); pi != nil {
		c.Violation("stretched/decode-panic/"+pi.TopFrame, "lazy DecodeFile of the >4 GiB twin panics: "+pi.Value, s.detail(map[string]interface{}{"hole": by, "before_chunk_order_index": at}))
		return
	}
	if derr != nil || fl.Moov == nil || len(fl.Moov.Traks) != len(compact.Tracks) {
		c.Violation("stretched/decode-error", fmt.Sprintf("lazy DecodeFile of the >4 GiB twin of %s fails: %v", s.name, derr), s.detail(map[string]interface{}{"hole": by, "before_chunk_order_index": at}))
		return
	}
	c.Count("files_stretched_beyond_4GiB", 1)
	name := s.name
	s.name += fmt.Sprintf(" +hole(%d bytes before chunk-order index %d of %d)", by, at, len(f.ChunkOrder))
	defer func() { s.name = name }()
	for ti, tr := range compact.Tracks {
		n := len(tr.Samples)
		if n == 0 || tr.ExpandErr != nil {
			continue
		}
		ivs := [][2]int{{1, n}, {1, 1}, {n, n}}
		for i := 0; i < 10; i++ {
			a := c.Rand.Range(1, n)
			z := c.Rand.Range(a, n)
			ivs = append(ivs, [2]int{a, z})
		}
		for _, iv := range ivs {
			want, _ := tr.IntervalBytes(f.Bytes, iv[0], iv[1])
			for _, wsN := range []int{0, 7, 4096} {
				s.copySamples("lazy", fl, fl.Moov.Traks[ti], rs, iv[0], iv[1], wsN, want, "beyond-4GiB", tr)
			}
		}
	}
}
