package c08

import "verifharness/treecmp"

// sameTree compares two decoded box trees structurally (nil equals empty; unexported library fields the
// comparator was not written against are left out, see treecmp.UnknownPrivateField).
func sameTree(a, b interface{}) bool {
	return len(treecmp.Diff(a, b, treecmp.Options{Max: 1})) == 0
}
