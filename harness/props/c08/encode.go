package c08

import (
	"bytes"
	"fmt"
	"verifharness/dirtysw"

	"github.com/Eyevinn/mp4ff/mp4"

	"verifharness/ref/boxwalk"
	"verifharness/runner"
)

// Whole-file and box-level encodes of the two decoded trees.
//
// The statement: a lazily decoded mdat encodes to exactly its header; everything
// else is the same tree in both modes. So whatever the in-memory File writes,
// the lazy File must write the same bytes with the payload of every top-level
// mdat box left out. The in-memory output is read with the reference walker
// (never with mp4ff) to find those payloads. The outputs are compared mode
// against mode, not against the input: segment-mode encoding leaves out
// top-level boxes that belong to neither the init segment nor a media segment
// in both modes alike, and a box whose re-encoding differs from its input
// bytes is a round-trip matter of other properties.

type encOut struct {
	out []byte
	err error
	pi  *runner.PanicInfo
}

func (s *state) encodeFile(f *mp4.File, sw bool, slack int) encOut {
	var o encOut
	if !sw {
		var w bytes.Buffer
		o.pi = s.c.Guard(func() { o.err = f.Encode(&w) })
		o.out = w.Bytes()
	} else {
		o.pi = s.c.Guard(func() {
			w := dirtysw.New(int(f.Size()) + slack)
			o.err = f.EncodeSW(w)
			o.out = w.Bytes()
		})
	}
	s.evals++
	return o
}

// headerOnly returns out with the payload of every top-level mdat removed, and the
// top-level boxes of out.
func headerOnly(out []byte) ([]byte, []*boxwalk.Node, error) {
	nodes, err := boxwalk.Walk(out)
	if err != nil {
		return nil, nil, err
	}
	exp := make([]byte, 0, len(out))
	for _, n := range nodes {
		if n.Type == "mdat" {
			exp = append(exp, out[n.Start:n.Start+n.HdrLen]...)
		} else {
			exp = append(exp, out[n.Start:n.End()]...)
		}
	}
	return exp, nodes, nil
}

// diffClause names where got departs from exp (exp = boxes of nodes with mdat payloads removed).
func diffClause(exp, got []byte, nodes []*boxwalk.Node) (string, int) {
	d := 0
	for d < len(exp) && d < len(got) && exp[d] == got[d] {
		d++
	}
	pos := 0
	prevMdat := false
	for _, n := range nodes {
		l := n.Size
		if n.Type == "mdat" {
			l = n.HdrLen
		}
		if d == pos && prevMdat {
			return "bytes-after-mdat-header", d
		}
		if ins := len(got) - len(exp); prevMdat && d >= pos && d < pos+8 && ins > 0 && bytes.Equal(got[pos+ins:], exp[pos:]) {
			// the following box starts with bytes that happen to equal the inserted ones
			return "bytes-after-mdat-header", pos
		}
		if d < pos+l {
			if n.Type == "mdat" {
				return "in-mdat-header", d
			}
			return "in-" + keyType(n.Type), d
		}
		pos += l
		prevMdat = n.Type == "mdat"
	}
	if prevMdat {
		return "bytes-after-mdat-header", d
	}
	return "trailing-bytes", d
}

func keyType(t string) string {
	for _, ch := range t {
		if !(ch >= 'a' && ch <= 'z' || ch >= 'A' && ch <= 'Z' || ch >= '0' && ch <= '9') {
			return "other"
		}
	}
	return t
}

// compareEncodes judges one pair of outputs. what = e.g. "progressive/File.Encode".
func (s *state) compareEncodes(what string, m, l encOut) {
	c := s.c
	c.Count("encode_pairs:"+what, 1)
	det := func(extra map[string]interface{}) map[string]interface{} {
		d := s.detail(extra)
		d["encode"] = what
		return d
	}
	if (m.pi != nil) != (l.pi != nil) {
		pv := ""
		if l.pi != nil {
			pv = l.pi.Value
		} else {
			pv = m.pi.Value
		}
		c.Violation("encode/"+what+"/panic-in-one-mode", fmt.Sprintf("%s: %s panics in one mode only (memory %v, lazy %v): %s", s.name, what, m.pi != nil, l.pi != nil, pv), det(nil))
		return
	}
	if m.pi != nil {
		c.Count("encode_both_modes_panic", 1)
		return
	}
	if (m.err != nil) != (l.err != nil) {
		c.Violation("encode/"+what+"/error-in-one-mode", fmt.Sprintf("%s: %s: memory mode error %v, lazy mode error %v", s.name, what, m.err, l.err), det(nil))
		return
	}
	if m.err != nil {
		c.Count("encode_both_modes_error", 1)
		return
	}
	exp, nodes, err := headerOnly(m.out)
	if err != nil {
		c.Inconclusive("the in-memory file encodes to bytes the reference walker cannot tile")
		return
	}
	nm := 0
	for _, n := range nodes {
		if n.Type == "mdat" {
			nm++
		}
	}
	if bytes.Equal(m.out, s.b) {
		c.Count("encode_memory_output_equals_input:"+what, 1)
	}
	if bytes.Equal(exp, l.out) {
		c.Count("encode_pairs_equal:"+what, 1)
		c.Count("encode_mdat_boxes_header_only", int64(nm))
		return
	}
	clause, at := diffClause(exp, l.out, nodes)
	c.Violation("encode/"+what+"/lazy-output-differs/"+clause,
		fmt.Sprintf("%s: %s of the lazily decoded file writes %d bytes; the in-memory file writes %d bytes, which without the %d mdat payload(s) are %d bytes; first difference at offset %d of the lazy output (%s): lazy %x, expected %x",
			s.name, what, len(l.out), len(m.out), nm, len(exp), at, clause, head(tailFrom(l.out, at), 16), head(tailFrom(exp, at), 16)),
		det(map[string]interface{}{"lazy_len": len(l.out), "memory_len": len(m.out), "expected_len": len(exp), "first_difference": at, "clause": clause}))
}

func tailFrom(b []byte, at int) []byte {
	if at > len(b) {
		return nil
	}
	return b[at:]
}

func (s *state) checkEncodes(fm, fl *mp4.File, frag bool) {
	c := s.c
	// box level: every non-mdat top-level box encodes to the same bytes in both modes
	// (the mdat boxes are judged in checkMdat against the file)
	for i := range fm.Children {
		bm, bl := fm.Children[i], fl.Children[i]
		if bm.Type() == "mdat" {
			continue
		}
		var wm, wl bytes.Buffer
		var e1, e2 error
		p1 := c.Guard(func() { e1 = bm.Encode(&wm) })
		p2 := c.Guard(func() { e2 = bl.Encode(&wl) })
		s.evals += 2
		if (p1 != nil) != (p2 != nil) || (e1 != nil) != (e2 != nil) || (p1 == nil && e1 == nil && !bytes.Equal(wm.Bytes(), wl.Bytes())) {
			c.Violation("encode/box/Encode/"+keyType(bm.Type()), fmt.Sprintf("%s: Encode of top-level %s (child %d) differs between the modes (memory %d bytes err %v, lazy %d bytes err %v)", s.name, bm.Type(), i, wm.Len(), e1, wl.Len(), e2), s.detail(nil))
		}
		var sm, sl []byte
		p1 = c.Guard(func() {
			w := dirtysw.New(int(bm.Size()))
			e1 = bm.EncodeSW(w)
			sm = w.Bytes()
		})
		p2 = c.Guard(func() {
			w := dirtysw.New(int(bl.Size()))
			e2 = bl.EncodeSW(w)
			sl = w.Bytes()
		})
		s.evals += 2
		if (p1 != nil) != (p2 != nil) || (e1 != nil) != (e2 != nil) || (p1 == nil && e1 == nil && !bytes.Equal(sm, sl)) {
			c.Violation("encode/box/EncodeSW/"+keyType(bm.Type()), fmt.Sprintf("%s: EncodeSW of top-level %s (child %d) differs between the modes (memory %d bytes err %v, lazy %d bytes err %v)", s.name, bm.Type(), i, len(sm), e1, len(sl), e2), s.detail(nil))
		}
		c.Count("encode_box_pairs", 2)
	}
	if !frag {
		// progressive: File.Encode / File.EncodeSW write the children in order; nothing is mutated
		s.compareEncodes("progressive/File.Encode", s.encodeFile(fm, false, 0), s.encodeFile(fl, false, 0))
		s.compareEncodes("progressive/File.EncodeSW", s.encodeFile(fm, true, 0), s.encodeFile(fl, true, 0))
		return
	}
	// fragmented: one fresh pair of trees per encode mode (segment-mode encoding rewrites
	// the trun data offsets of the tree it encodes)
	for _, em := range []struct {
		name string
		mode mp4.EncFragFileMode
	}{{"boxtree", mp4.EncModeBoxTree}, {"segment", mp4.EncModeSegment}} {
		xm, xl, e1, e2, p1, p2 := s.decodeBoth()
		if e1 != nil || e2 != nil || p1 != nil || p2 != nil {
			c.Violation("decode/second-decode-fails", fmt.Sprintf("%s: decoding the same bytes again fails (memory %v, lazy %v)", s.name, e1, e2), s.detail(nil))
			return
		}
		xm.FragEncMode, xl.FragEncMode = em.mode, em.mode
		slack := 0
		if em.mode == mp4.EncModeSegment {
			slack = 4096
		}
		s.compareEncodes("fragmented-"+em.name+"/File.Encode", s.encodeFile(xm, false, 0), s.encodeFile(xl, false, 0))
		s.compareEncodes("fragmented-"+em.name+"/File.EncodeSW", s.encodeFile(xm, true, slack), s.encodeFile(xl, true, slack))
		// the trees after encoding (segment mode sets trun data offsets): still equal
		if len(xm.Segments) == len(xl.Segments) {
			for si := range xm.Segments {
				a, z := xm.Segments[si], xl.Segments[si]
				if len(a.Fragments) != len(z.Fragments) {
					continue
				}
				for fi := range a.Fragments {
					s.evals++
					if !sameTree(a.Fragments[fi].Moof, z.Fragments[fi].Moof) {
						c.Violation("tree/after-encode-"+em.name+"/moof-differs", fmt.Sprintf("%s: after File.Encode+EncodeSW (%s mode) the moof of segment %d fragment %d differs between the modes%s", s.name, em.name, si, fi, trunOffsets(a.Fragments[fi].Moof, z.Fragments[fi].Moof)), s.detail(nil))
					}
				}
			}
		}
	}
}

func trunOffsets(a, z *mp4.MoofBox) string {
	if a == nil || z == nil {
		return ""
	}
	var x, y []int32
	for _, t := range a.Trafs {
		for _, r := range t.Truns {
			x = append(x, r.DataOffset)
		}
	}
	for _, t := range z.Trafs {
		for _, r := range t.Truns {
			y = append(y, r.DataOffset)
		}
	}
	return fmt.Sprintf(" (trun data offsets memory %v, lazy %v)", x, y)
}
