package c08

import (
	"bytes"
	"fmt"
	"io"

	"github.com/Eyevinn/mp4ff/bits"
	"github.com/Eyevinn/mp4ff/mp4"

	"verifharness/runner"
)

// Giant cases: mdat boxes whose size sits at the 32-bit header limit. They
// cannot be held in memory, so only the lazy mode is exercised, through a
// virtual ReadSeeker (real bytes at both ends of the payload, zeros in the
// hole between), and it is judged against the construction: the layout is
// known by construction, so every size, position, header and edge read has
// one right answer.
type giantSpec struct {
	name    string
	large   bool   // 64-bit header
	boxSize uint64 // total size of the mdat box
}

var giants = []giantSpec{
	{"compact-2^32-1", false, 1<<32 - 1},
	{"compact-2^32-2", false, 1<<32 - 2},
	{"compact-2^32-9", false, 1<<32 - 9},
	{"large-2^32-1", true, 1<<32 - 1},
	{"large-2^32", true, 1 << 32},
	{"large-2^32+16", true, 1<<32 + 16},
	{"large-2^33+5", true, 1<<33 + 5},
}

// sparseRS is prefix + hole zeros + suffix.
type sparseRS struct {
	prefix, suffix []byte
	hole           int64
	pos            int64
	reads          int64
}

func (s *sparseRS) size() int64 { return int64(len(s.prefix)) + s.hole + int64(len(s.suffix)) }

func (s *sparseRS) Read(p []byte) (int, error) {
	if s.pos >= s.size() {
		return 0, io.EOF
	}
	n := 0
	for n < len(p) && s.pos < s.size() {
		switch {
		case s.pos < int64(len(s.prefix)):
			k := copy(p[n:], s.prefix[s.pos:])
			n += k
			s.pos += int64(k)
		case s.pos < int64(len(s.prefix))+s.hole:
			left := int64(len(s.prefix)) + s.hole - s.pos
			k := int64(len(p) - n)
			if k > left {
				k = left
			}
			if k > 1<<16 {
				k = 1 << 16 // never hand out more than 64 KiB of the hole per call
			}
			for i := int64(0); i < k; i++ {
				p[n+int(i)] = 0
			}
			n += int(k)
			s.pos += k
		default:
			k := copy(p[n:], s.suffix[s.pos-int64(len(s.prefix))-s.hole:])
			n += k
			s.pos += int64(k)
		}
	}
	s.reads += int64(n)
	return n, nil
}

func (s *sparseRS) Seek(off int64, whence int) (int64, error) {
	switch whence {
	case io.SeekStart:
		s.pos = off
	case io.SeekCurrent:
		s.pos += off
	case io.SeekEnd:
		s.pos = s.size() + off
	}
	if s.pos < 0 {
		return 0, fmt.Errorf("negative position")
	}
	return s.pos, nil
}

func runGiant(c *runner.Ctx, g giantSpec) {
	ftyp := []byte{0, 0, 0, 16, 'f', 't', 'y', 'p', 'i', 's', 'o', 'm', 0, 0, 2, 0}
	var hdr []byte
	if g.large {
		hdr = []byte{0, 0, 0, 1, 'm', 'd', 'a', 't', byte(g.boxSize >> 56), byte(g.boxSize >> 48), byte(g.boxSize >> 40), byte(g.boxSize >> 32), byte(g.boxSize >> 24), byte(g.boxSize >> 16), byte(g.boxSize >> 8), byte(g.boxSize)}
	} else {
		hdr = []byte{byte(g.boxSize >> 24), byte(g.boxSize >> 16), byte(g.boxSize >> 8), byte(g.boxSize), 'm', 'd', 'a', 't'}
	}
	head := make([]byte, 64) // first payload bytes
	tail := make([]byte, 64) // last payload bytes
	for i := range head {
		head[i] = byte(0x10 + i)
		tail[i] = byte(0xB0 + i)
	}
	trailer := []byte{0, 0, 0, 28, 'u', 'u', 'i', 'd', 1, 2, 3, 4, 5, 6, 7, 8, 9, 10, 11, 12, 13, 14, 15, 16, 'e', 'n', 'd', '!'}
	payload := int64(g.boxSize) - int64(len(hdr))
	rs := &sparseRS{prefix: append(append(append([]byte{}, ftyp...), hdr...), head...), hole: payload - 128, suffix: append(append([]byte{}, tail...), trailer...)}
	mdatStart := uint64(len(ftyp))
	payloadStart := mdatStart + uint64(len(hdr))
	freeStart := mdatStart + g.boxSize
	key := func(cl string) string { return "giant/" + g.name + "/" + cl }
	det := map[string]interface{}{"layout": fmt.Sprintf("ftyp(16) mdat(header %d bytes, box size %d) uuid(28)", len(hdr), g.boxSize)}

	var f *mp4.File
	var err error
	if pi := c.Guard(func() { f, err = mp4.DecodeFile(rs, mp4.WithDecodeMode(mp4.DecModeLazyMdat)) }); pi != nil {
		c.Violation(key("decode-panic"), "lazy DecodeFile panics: "+pi.Value, det)
		return
	}
	c.Evals(1)
	c.Count("giant_files", 1)
	if err != nil {
		c.Violation(key("decode-error"), "lazy DecodeFile of a well-formed file with an mdat at the 32-bit limit fails: "+err.Error(), det)
		return
	}
	if rs.reads > 1<<20 {
		c.Violation(key("payload-read"), fmt.Sprintf("lazy DecodeFile read %d bytes of a file whose non-mdat boxes have 44 bytes", rs.reads), det)
	}
	if len(f.Children) != 3 || f.Children[0].Type() != "ftyp" || f.Children[1].Type() != "mdat" || f.Children[2].Type() != "uuid" {
		var t []string
		for _, ch := range f.Children {
			t = append(t, ch.Type())
		}
		c.Violation(key("tree"), fmt.Sprintf("top-level boxes %v, the file holds ftyp mdat uuid", t), det)
		return
	}
	m, ok := f.Children[1].(*mp4.MdatBox)
	if !ok {
		c.Violation(key("tree"), "mdat is not an MdatBox", det)
		return
	}
	if m.Size() != g.boxSize || m.HeaderSize() != uint64(len(hdr)) || m.PayloadAbsoluteOffset() != payloadStart || m.StartPos != mdatStart {
		c.Violation(key("mdat-size-or-position"), fmt.Sprintf("mdat Size %d HeaderSize %d PayloadAbsoluteOffset %d StartPos %d; the file has %d, %d, %d, %d", m.Size(), m.HeaderSize(), m.PayloadAbsoluteOffset(), m.StartPos, g.boxSize, len(hdr), payloadStart, mdatStart), det)
	}
	if fb, ok := f.Children[2].(*mp4.UUIDBox); ok {
		if fb.StartPos != freeStart {
			c.Violation(key("following-box-position"), fmt.Sprintf("the uuid box behind the mdat has StartPos %d, it starts at %d", fb.StartPos, freeStart), det)
		}
	}
	if want := uint64(rs.size()); f.Size() != want {
		c.Violation(key("file-size"), fmt.Sprintf("File.Size %d, the file has %d bytes", f.Size(), want), det)
	}
	var w bytes.Buffer
	var eerr error
	if pi := c.Guard(func() { eerr = m.Encode(&w) }); pi != nil || eerr != nil || !bytes.Equal(w.Bytes(), hdr) {
		c.Violation(key("lazy-encode"), fmt.Sprintf("Encode of the lazily decoded mdat writes %x (err %v), the header in the file is %x", w.Bytes(), eerr, hdr), det)
	}
	c.Count("call:lazy/Encode", 1)
	// the whole file: every box but the mdat payload, through both writers
	// (the slice writer is small on purpose: a 4 GiB File.Size() cannot be allocated)
	wantFile := append(append(append([]byte{}, ftyp...), hdr...), trailer...)
	var fw bytes.Buffer
	if pi := c.Guard(func() { eerr = f.Encode(&fw) }); pi != nil || eerr != nil || !bytes.Equal(fw.Bytes(), wantFile) {
		c.Violation(key("lazy-file-encode"), fmt.Sprintf("File.Encode of the lazily decoded file writes %d bytes (err %v), the file without the mdat payload has %d", fw.Len(), eerr, len(wantFile)), det)
	}
	var swOut []byte
	if pi := c.Guard(func() {
		sw := bits.NewFixedSliceWriter(1024)
		eerr = f.EncodeSW(sw)
		swOut = sw.Bytes()
	}); pi != nil || eerr != nil || !bytes.Equal(swOut, wantFile) {
		c.Violation(key("lazy-file-encodesw"), fmt.Sprintf("File.EncodeSW of the lazily decoded file writes %d bytes (err %v, panic %v), the file without the mdat payload has %d", len(swOut), eerr, pi != nil, len(wantFile)), det)
	}
	c.Count("giant_file_encodes", 2)
	type rd struct {
		start int64
		want  []byte
	}
	lastStart := int64(payloadStart) + payload - 64
	for _, r := range []rd{{int64(payloadStart), head}, {int64(payloadStart) + 1, head[1:33]}, {lastStart, tail}, {lastStart + 40, tail[40:]}} {
		var got []byte
		var rerr error
		pi := c.Guard(func() { got, rerr = m.ReadData(r.start, int64(len(r.want)), rs) })
		c.Count("call:lazy/ReadData", 1)
		if pi != nil || rerr != nil || !bytes.Equal(got, r.want) {
			c.Violation(key("ReadData"), fmt.Sprintf("lazy ReadData(%d,%d) returns %x (err %v, panic %v), the file has %x there", r.start, len(r.want), got, rerr, pi != nil, r.want), det)
		}
		var cw bytes.Buffer
		var n int64
		pi = c.Guard(func() { n, rerr = m.CopyData(r.start, int64(len(r.want)), rs, &cw) })
		c.Count("call:lazy/CopyData", 1)
		if pi != nil || rerr != nil || n != int64(len(r.want)) || !bytes.Equal(cw.Bytes(), r.want) {
			c.Violation(key("CopyData"), fmt.Sprintf("lazy CopyData(%d,%d) writes %x (n=%d err %v), the file has %x there", r.start, len(r.want), cw.Bytes(), n, rerr, r.want), det)
		}
	}
	c.Seen("giant_mdat", g.name)
	c.Nontrivial(runner.HashStr("giant", g.name))
}
