// Package c14 decides property C14 (NAL unit framing conversions preserve the
// NAL unit sequence). The oracle is the generating NAL unit list: the harness
// builds a well-formed Annex B stream / length-prefixed sample from a list it
// chose itself (ref/annexb) and every conversion, scanner and walker of
// avc/ and hevc/ must agree with that list.
package c14

import (
	"bytes"
	"encoding/hex"
	"encoding/json"
	"fmt"
	"strings"

	"github.com/Eyevinn/mp4ff/avc"
	"github.com/Eyevinn/mp4ff/hevc"

	"verifharness/ref/annexb"
	"verifharness/runner"
)

type block struct {
	kind string
	a, b int
	rep  int
}

var blocks []block

const maxGrid = 40

func buildBlocks(env *runner.Env) {
	blocks = nil
	reps1, reps3, nrand, nbig, ngrid4 := 4, 1, 480, 32, 800
	if env.Tier == "thorough" {
		reps1, reps3, nrand, nbig, ngrid4 = 64, 12, 24000, 640, 64000
	}
	for r := 0; r < reps1; r++ {
		blocks = append(blocks, block{"grid1", 0, 0, r})
		for a := 1; a <= maxGrid; a++ {
			blocks = append(blocks, block{"grid2", a, 0, r})
		}
	}
	for r := 0; r < reps3; r++ {
		for a := 1; a <= maxGrid; a++ {
			for b := 1; b <= maxGrid; b++ {
				blocks = append(blocks, block{"grid3", a, b, r})
			}
		}
	}
	for i := 0; i < ngrid4; i++ {
		blocks = append(blocks, block{"grid4", i, 0, 0})
	}
	for i := 0; i < nrand; i++ {
		blocks = append(blocks, block{"random", i, 0, 0})
	}
	for i := 0; i < nbig; i++ {
		blocks = append(blocks, block{"big", i, 0, 0})
	}
	nhuge := 1
	if env.Tier == "thorough" {
		nhuge = 6
	}
	for i := 0; i < nhuge; i++ {
		blocks = append(blocks, block{"huge", i, 0, 0})
	}
}

// hugeUnit is a NAL unit of the given size whose bytes are a pure function of
// (size, variant): no zero pairs, last byte non-zero (emulation-free), so that
// a witness can name it by size alone.
func hugeUnit(size, variant int) []byte {
	u := make([]byte, size)
	x := uint64(size)*0x9e3779b97f4a7c15 ^ uint64(variant+1)*0xbf58476d1ce4e5b9
	for i := range u {
		x ^= x << 13
		x ^= x >> 7
		x ^= x << 17
		u[i] = byte(x%251) + 1
		if i%997 == 500 && i+1 < size {
			u[i] = 0
		}
	}
	if size > 0 {
		u[0] = []byte{0x65, 0x41, 0x26, 0x02}[variant%4] // avc IDR / non-IDR, hevc IDR_W_RADL / TRAIL_R first header byte
	}
	return u
}

func init() {
	runner.Register(&runner.Prop{
		ID: "C14",
		Rule: "One case = one block of generated streams; every stream is built by ref/annexb from a NAL unit list the harness chose " +
			"(units emulation-free: no 00 00 0x with x<=2 inside, last byte != 00, zero-rich payload alphabet with 00 00 03 escapes; header byte drawn for AVC or HEVC with bias to SPS/PPS/VPS/IDR/slice/SEI/AUD and random nal_ref_idc/layer id). " +
			"grid1: 1 unit, sizes 1..40 x {3,4}-byte start code x buffer offset 0..7; grid2(a): sizes (a,b), b=1..40 x all 4 start-code mixes x 2 offsets; " +
			"grid3(a,b): sizes (a,b,c), c=1..40 x all 8 mixes (so every start-code alignment mod 8 and every tail length occurs with every mix); " +
			"grid4: 4 units, three sizes drawn, fourth 1..40 x 16 mixes; random: 50 streams of 1..6 units with sizes from {1..40, around multiples of 8, 41..300, up to 4 KiB} and mix class {all 3, all 4, first 4 rest 3, random}; " +
			"big: 4 streams of 1..6 units with sizes up to 70 000; huge (1 block quick, 6 thorough): 2 streams with one unit of 2^24 + {0,-1,1,5,255,2^20} bytes between two small ones, start codes 4-4-4 and 4-3-4. Each stream sits at offset 0..7 inside a larger buffer whose guard bytes hold zeros/start-code fragments. " +
			"Per stream: hook scanner vs byte-wise reference scan; ConvertByteStreamToNaluSample (in-place and copying branch); ConvertSampleToByteStream; ExtractNalusFromByteStream; GetNalusFromSample; " +
			"and for AVC and HEVC: FindNaluTypes, FindNaluTypesUpToFirstVideoNALU/Nalu, ContainsNaluType (all type values), IsIDRSample, IsRAPSample, HasParameterSets, GetParameterSets, GetParameterSetsFromByteStream, " +
			"ExtractNalusOfTypeFromByteStream (all type values, both stopAtVideo), GetFirstAVCVideoNALUFromByteStream. " +
			"distinct_nontrivial counts distinct blocks (kind, parameters, repetition, seed) in which at least one stream passed the harness self-check (reference scan of the built stream = generating list) and was compared; evaluations counts streams.",
		Assumptions: []string{
			"ref/annexb (byte-wise scanner, stream/sample builders) is written from Annex B / 14496-15 and never imports mp4ff",
			"mp4ff's documented notion of an AVC video NAL unit is nal_unit_type <= 5 (IsVideoNaluType; type 0 counts as video); HEVC video is type <= 31",
			"where a doc comment leaves a choice open (first video NAL unit included or not in 'up to first video'; parameter sets after the first video NAL unit; stopAtVideo with a video type) both readings are accepted and the observed one is recorded in evidence; GetParameterSets (sample walker) and GetParameterSetsFromByteStream (byte-stream walker) must however use the same reading for the same unit sequence",
		},
		Setup:    func(env *runner.Env) error { buildBlocks(env); return nil },
		NumCases: func(env *runner.Env) int { return len(blocks) },
		Run:      run,
		Replay:   replay,
		Finalize: finalize,
	})
}

// ---------------------------------------------------------------------------
// generators

var avcBias = []int{1, 1, 5, 5, 7, 7, 7, 8, 8, 8, 6, 9, 0, 2, 12}
var hevcBias = []int{1, 0, 19, 20, 21, 16, 23, 32, 32, 33, 33, 34, 34, 35, 39, 40, 9, 31}

func genHeader(r *runner.Rand, size int) []byte {
	var h []byte
	if r.Bool() {
		t := r.Intn(32)
		if r.Chance(3, 4) {
			t = avcBias[r.Intn(len(avcBias))]
		}
		h = []byte{annexb.AVCHeader(r.Intn(4), t)}
	} else {
		t := r.Intn(64)
		if r.Chance(3, 4) {
			t = hevcBias[r.Intn(len(hevcBias))]
		}
		layer := 0
		if r.Chance(1, 8) {
			layer = r.Intn(64)
		}
		hh := annexb.HEVCHeader(t, layer, 1+r.Intn(7))
		h = hh[:]
	}
	if size == 1 && h[0] == 0 {
		h[0] = 0x20 // a one-byte unit must not end in 00
	}
	return h
}

func genUnit(r *runner.Rand, size int) []byte {
	u := make([]byte, size)
	h := genHeader(r, size)
	copy(u, h)
	start := len(h)
	if start > size {
		start = size
	}
	dense := r.Chance(2, 3) || size > 4096
	var rnd []byte
	if size > 64 {
		rnd = r.Bytes(size)
	}
	for i := start; i < size; i++ {
		var x uint64
		if rnd != nil {
			x = uint64(rnd[i])
			if !dense {
				// zero-poor payload with an occasional zero
				u[i] = rnd[i]
				continue
			}
			x = x*37 + uint64(i)
		} else {
			x = r.Uint64()
		}
		switch x % 20 {
		case 0, 1, 2, 3, 4, 5:
			u[i] = 0
		case 6, 7, 8:
			u[i] = 1
		case 9:
			u[i] = 2
		case 10, 11:
			u[i] = 3
		case 12:
			u[i] = 4
		case 13:
			u[i] = 0xff
		default:
			u[i] = byte(x >> 8)
		}
	}
	// make it emulation-free
	for i := 2; i < size; i++ {
		if u[i-2] == 0 && u[i-1] == 0 && u[i] <= 2 {
			if (i+int(u[i]))%3 != 0 {
				u[i] = 3 // emulation prevention byte
			} else {
				u[i] |= 0x80
			}
		}
	}
	if u[size-1] == 0 {
		u[size-1] = 0x80
	}
	return u
}

func genMix(r *runner.Rand, n int) []int {
	m := make([]int, n)
	switch r.Intn(4) {
	case 0:
		for i := range m {
			m[i] = 3
		}
	case 1:
		for i := range m {
			m[i] = 4
		}
	case 2:
		for i := range m {
			m[i] = 3
		}
		m[0] = 4
	default:
		for i := range m {
			m[i] = 3 + r.Intn(2)
		}
	}
	return m
}

func bitsMix(bits, n int) []int {
	m := make([]int, n)
	for i := range m {
		m[i] = 3 + (bits>>uint(i))&1
	}
	return m
}

func randSize(r *runner.Rand) int {
	switch r.Intn(10) {
	case 0, 1, 2, 3:
		return 1 + r.Intn(40)
	case 4, 5:
		return 8*(1+r.Intn(40)) + r.Intn(9) - 4
	case 6, 7:
		return 41 + r.Intn(260)
	case 8:
		return 1 + r.Intn(4096)
	default:
		return 1 + r.Intn(12)
	}
}

// ---------------------------------------------------------------------------

func run(c *runner.Ctx, idx int) {
	b := blocks[idx]
	var n, ok int64
	one := func(sizes []int, mix []int, off int) {
		units := make([][]byte, len(sizes))
		for i, s := range sizes {
			units[i] = genUnit(c.Rand, s)
		}
		n++
		if checkStream(c, units, mix, off) {
			ok++
		}
	}
	switch b.kind {
	case "grid1":
		for s := 1; s <= maxGrid; s++ {
			for l := 3; l <= 4; l++ {
				for off := 0; off < 8; off++ {
					one([]int{s}, []int{l}, off)
				}
			}
		}
	case "grid2":
		for s := 1; s <= maxGrid; s++ {
			for m := 0; m < 4; m++ {
				one([]int{b.a, s}, bitsMix(m, 2), 0)
				one([]int{b.a, s}, bitsMix(m, 2), 1+c.Rand.Intn(7))
			}
		}
	case "grid3":
		for s := 1; s <= maxGrid; s++ {
			for m := 0; m < 8; m++ {
				one([]int{b.a, b.b, s}, bitsMix(m, 3), c.Rand.Intn(8))
			}
		}
	case "grid4":
		s1, s2, s3 := 1+c.Rand.Intn(maxGrid), 1+c.Rand.Intn(maxGrid), 1+c.Rand.Intn(maxGrid)
		for s := 1; s <= maxGrid; s++ {
			for m := 0; m < 16; m++ {
				one([]int{s1, s2, s3, s}, bitsMix(m, 4), c.Rand.Intn(8))
			}
		}
	case "random":
		for i := 0; i < 50; i++ {
			k := 1 + c.Rand.Intn(6)
			sizes := make([]int, k)
			for j := range sizes {
				sizes[j] = randSize(c.Rand)
			}
			one(sizes, genMix(c.Rand, k), c.Rand.Intn(8))
		}
	case "huge":
		// one unit around 2^24 bytes (the size at which a 3-byte quantity overflows), with small neighbours
		big := (1 << 24) + []int{0, -1, 1, 5, 255, 1 << 20}[b.a%6]
		for m := 0; m < 2; m++ {
			units := [][]byte{hugeUnit(2+b.a, 1), hugeUnit(big, b.a), hugeUnit(7, 2)}
			mix := []int{4, 4, 4}
			if m == 1 {
				mix = []int{4, 3, 4}
			}
			n++
			if checkStream(c, units, mix, c.Rand.Intn(8)) {
				ok++
			}
		}
	case "big":
		for i := 0; i < 4; i++ {
			k := 1 + c.Rand.Intn(6)
			sizes := make([]int, k)
			for j := range sizes {
				sizes[j] = randSize(c.Rand)
			}
			sizes[c.Rand.Intn(k)] = 4097 + c.Rand.Intn(70000-4096)
			if c.Rand.Bool() {
				sizes[c.Rand.Intn(k)] = 65529 + c.Rand.Intn(16) // around 2^16
			}
			one(sizes, genMix(c.Rand, k), c.Rand.Intn(8))
		}
	}
	c.Evals(n)
	c.Count("streams", n)
	c.Count("streams_all_checks_passed", ok)
	c.Seen("block_kind", b.kind)
	if n > 0 {
		c.Nontrivial(runner.HashStr(b.kind, fmt.Sprint(b.a, ",", b.b, ",", b.rep, ",", c.Env.Seed, ",", c.Env.Tier)))
	}
}

type witness struct {
	Units []string `json:"units_hex"`
	Mix   []int    `json:"start_code_lengths"`
	Off   int      `json:"buffer_offset"`
	Note  string   `json:"note,omitempty"`
	// units of more than 1 MiB are not stored: Huge lists (size, variant) of hugeUnit for every unit instead
	Huge [][2]int `json:"huge_units,omitempty"`
}

func replay(c *runner.Ctx, detail json.RawMessage) {
	var w witness
	if err := json.Unmarshal(detail, &w); err != nil {
		c.Inconclusive("replay-detail-unreadable")
		return
	}
	units := make([][]byte, len(w.Units))
	for i, h := range w.Units {
		units[i], _ = hex.DecodeString(h)
	}
	if len(w.Huge) > 0 {
		units = nil
		for _, h := range w.Huge {
			units = append(units, hugeUnit(h[0], h[1]))
		}
	}
	checkStream(c, units, w.Mix, w.Off)
	c.Nontrivial(1)
	c.Nontrivial(2)
}

func finalize(a *runner.Agg) {
	// coverage: every start-code position mod 8 with both lengths, every tail length
	for _, cat := range []string{"sc_pos_mod8_len"} {
		if m := a.Seen[cat]; len(m) < 16 {
			a.Note("only %d of 16 (start-code position mod 8, length) classes were generated", len(m))
		}
	}
	if m := a.Seen["stream_len_mod8"]; len(m) < 8 {
		a.Note("only %d of 8 stream lengths mod 8 were generated", len(m))
	}
	if m := a.Seen["convert_branch"]; len(m) < 2 {
		a.Note("only %d of 2 branches of ConvertByteStreamToNaluSample were reached", len(m))
	}
	if m := a.Seen["avc_type"]; len(m) < 32 {
		a.Note("only %d of 32 AVC nal_unit_type values were generated", len(m))
	}
	if m := a.Seen["hevc_type"]; len(m) < 64 {
		a.Note("only %d of 64 HEVC nal_unit_type values were generated", len(m))
	}
}

// ---------------------------------------------------------------------------
// the oracle

type checker struct {
	c      *runner.Ctx
	units  [][]byte
	mix    []int
	off    int
	failed bool
}

func (k *checker) detail(note string) witness {
	w := witness{Mix: k.mix, Off: k.off, Note: note}
	total := 0
	for _, u := range k.units {
		total += len(u)
	}
	if total > 1<<20 {
		// huge blocks are built by hugeUnit: recover (size, variant) by regenerating
		for _, u := range k.units {
			v := -1
			for cand := 0; cand < 8 && v < 0; cand++ {
				if bytes.Equal(hugeUnit(len(u), cand), u) {
					v = cand
				}
			}
			w.Huge = append(w.Huge, [2]int{len(u), v})
		}
		return w
	}
	for _, u := range k.units {
		w.Units = append(w.Units, hex.EncodeToString(u))
	}
	return w
}

func (k *checker) viol(fn, class, what string) {
	k.failed = true
	k.c.Violation(fn+"/"+class, fn+": "+what+" ["+k.shape()+"]", k.detail(what))
}

func (k *checker) shape() string {
	var sb strings.Builder
	sb.WriteString("unit sizes")
	for i, u := range k.units {
		if i < 8 {
			fmt.Fprintf(&sb, " %d", len(u))
		}
	}
	fmt.Fprintf(&sb, ", start codes %v, offset %d", k.mix, k.off)
	return sb.String()
}

// guard runs a library call; a panic is a violation of its own class.
func (k *checker) guard(fn string, f func()) bool {
	if pi := k.c.Guard(f); pi != nil {
		k.failed = true
		k.c.Violation(fn+"/panic/"+pi.Class, fn+" panicked: "+pi.Value+" at "+pi.TopFrame+" ["+k.shape()+"]", k.detail("panic: "+pi.Value))
		return false
	}
	return true
}

func equalLists(a, b [][]byte) bool {
	if len(a) != len(b) {
		return false
	}
	for i := range a {
		if !bytes.Equal(a[i], b[i]) {
			return false
		}
	}
	return true
}

func lens(a [][]byte) []int {
	o := make([]int, len(a))
	for i := range a {
		o[i] = len(a[i])
	}
	return o
}

// listClass names how got differs from want (stable, input independent).
func listClass(got, want [][]byte) string {
	switch {
	case len(got) < len(want) && equalLists(got, want[:len(got)]):
		return "trailing-units-missing"
	case len(got) < len(want):
		return "units-missing"
	case len(got) > len(want):
		return "extra-units"
	}
	for i := range want {
		if len(got[i]) != len(want[i]) {
			if i == len(want)-1 {
				return "last-unit-length"
			}
			return "unit-length"
		}
	}
	return "unit-content"
}

// embed places data at offset off of a larger buffer with hostile guard bytes
// and returns the sub-slice plus a function that checks the guards.
func embed(data []byte, off int) (sub []byte, guardsIntact func() bool) {
	const tailGuard = 12
	buf := make([]byte, off+len(data)+tailGuard)
	// guards: zeros directly before (would turn a 3-byte code at index 0 into a
	// 4-byte one if the scanner looked before the slice) and a start code
	// directly after (would be found if it looked beyond the end).
	pre := []byte{0xAA, 0x00, 0x00, 0x01, 0x65, 0x00, 0x00, 0x00}
	copy(buf, pre[8-off:])
	post := []byte{0x00, 0x00, 0x01, 0x67, 0x00, 0x00, 0x00, 0x01, 0x68, 0x55, 0x00, 0x00}
	copy(buf[off+len(data):], post)
	copy(buf[off:], data)
	ref := append([]byte(nil), buf...)
	sub = buf[off : off+len(data)]
	return sub, func() bool {
		return bytes.Equal(buf[:off], ref[:off]) && bytes.Equal(buf[off+len(data):], ref[off+len(data):])
	}
}

func sizeClass(n int) string {
	switch {
	case n <= 40:
		return "1..40"
	case n <= 300:
		return "41..300"
	case n <= 4096:
		return "301..4096"
	case n < 65536:
		return "4097..65535"
	}
	return ">=65536"
}

func checkStream(c *runner.Ctx, units [][]byte, mix []int, off int) bool {
	k := &checker{c: c, units: units, mix: mix, off: off}
	if len(units) == 0 || len(mix) != len(units) || off < 0 || off > 7 {
		c.Inconclusive("generator: malformed case")
		return false
	}
	for _, u := range units {
		if !annexb.EmulationFree(u) {
			c.Inconclusive("generator: unit not emulation-free")
			return false
		}
	}
	stream := annexb.BuildStream(units, mix)
	sample := annexb.BuildSample(units)
	wantSC := annexb.ExpectedStartCodes(units, mix)
	refSC := annexb.Scan(stream)
	// harness self-check: the byte-wise reference reads back the generating list
	if !equalSC(refSC, wantSC) || !equalLists(annexb.Split(stream), units) {
		c.Inconclusive("self-check: reference scan of the built stream differs from the generating list")
		return false
	}
	if back, err := annexb.SplitSample(sample); err != nil || !equalLists(back, units) {
		c.Inconclusive("self-check: reference sample reader differs from the generating list")
		return false
	}
	n := len(units)
	minLen := annexb.MinLen(wantSC)

	// coverage
	c.Seen("nr_units", fmt.Sprint(n))
	c.Seen("stream_len_mod8", fmt.Sprint(len(stream)%8))
	c.Seen("buffer_offset", fmt.Sprint(off))
	for _, sc := range wantSC {
		c.Seen("sc_pos_mod8_len", fmt.Sprintf("pos%%8=%d,len=%d", (sc.Pos-3)%8, sc.Len))
	}
	last := wantSC[n-1]
	tail := len(stream) - (last.Pos - 3)
	if tail > 12 {
		tail = 12
	}
	c.Seen("last_start_code_distance_from_end(capped at 12)", fmt.Sprintf("%02d", tail))
	for _, u := range units {
		c.Seen("unit_size_class", sizeClass(len(u)))
		c.Seen("avc_type", fmt.Sprintf("%02d", annexb.AVCType(u[0])))
		c.Seen("hevc_type", fmt.Sprintf("%02d", annexb.HEVCType(u[0])))
	}

	// ---- 1. word-at-a-time scanner vs byte-wise scan (hook) ----
	{
		in, intact := embed(stream, off)
		var got []avc.VerifStartCode
		var gotMin int
		if k.guard("avc.getStartCodePositions", func() { got, gotMin = avc.VerifStartCodePositions(in) }) {
			same := len(got) == len(refSC)
			for i := 0; same && i < len(got); i++ {
				same = got[i].Pos == refSC[i].Pos && got[i].Len == refSC[i].Len
			}
			if !same {
				cls := "positions"
				switch {
				case len(got) < len(refSC):
					cls = "start-code-missed"
				case len(got) > len(refSC):
					cls = "spurious-start-code"
				default:
					for i := range got {
						if got[i].Pos == refSC[i].Pos && got[i].Len != refSC[i].Len {
							cls = "start-code-length"
						}
					}
				}
				k.viol("avc.getStartCodePositions", cls, fmt.Sprintf("word-at-a-time scanner found %v, byte-wise scan %v (stream length %d)", got, refSC, len(stream)))
			} else if gotMin != minLen {
				k.viol("avc.getStartCodePositions", "min-length", fmt.Sprintf("minStartCodeLength %d, reference %d", gotMin, minLen))
			}
			if !bytes.Equal(in, stream) || !intact() {
				k.viol("avc.getStartCodePositions", "input-modified", "scanner modified the stream or its surroundings")
			}
		}
	}

	// ---- 2. ConvertByteStreamToNaluSample ----
	var converted []byte
	{
		in, intact := embed(stream, off)
		var out []byte
		if k.guard("avc.ConvertByteStreamToNaluSample", func() { out = avc.ConvertByteStreamToNaluSample(in) }) {
			branch := "copying"
			if minLen == 4 {
				branch = "in-place"
			}
			c.Seen("convert_branch", branch)
			if !bytes.Equal(out, sample) {
				cls := "content"
				if back, err := annexb.SplitSample(out); err != nil {
					cls = "length-fields-do-not-tile"
				} else {
					cls = listClass(back, units)
				}
				k.viol("avc.ConvertByteStreamToNaluSample", branch+"/"+cls,
					fmt.Sprintf("result (%d bytes) is not the 4-byte-length form of the generating units (%d bytes); first difference at %d", len(out), len(sample), firstDiff(out, sample)))
			} else {
				converted = out
			}
			if branch == "copying" && !bytes.Equal(in, stream) {
				k.viol("avc.ConvertByteStreamToNaluSample", "copying/input-modified", "the copying branch modified its input")
			}
			if !intact() {
				k.viol("avc.ConvertByteStreamToNaluSample", branch+"/wrote-outside-input", "bytes outside the given slice were modified")
			}
		}
	}

	// ---- 3. ConvertSampleToByteStream (in place) of the converted sample ----
	{
		src := converted
		if src == nil {
			src = sample
		}
		in, intact := embed(src, (off+3)%8)
		var out []byte
		if k.guard("avc.ConvertSampleToByteStream", func() { out = avc.ConvertSampleToByteStream(in) }) {
			want := annexb.BuildStream(units, nil)
			if !bytes.Equal(out, want) {
				k.viol("avc.ConvertSampleToByteStream", listClass(annexb.Split(out), units),
					fmt.Sprintf("result is not the units behind 00000001; first difference at %d of %d", firstDiff(out, want), len(want)))
			}
			if !intact() {
				k.viol("avc.ConvertSampleToByteStream", "wrote-outside-input", "bytes outside the given slice were modified")
			}
		}
	}

	// ---- 4. ExtractNalusFromByteStream ----
	{
		in, intact := embed(stream, off)
		var got [][]byte
		if k.guard("avc.ExtractNalusFromByteStream", func() { got = avc.ExtractNalusFromByteStream(in) }) {
			if !equalLists(got, units) {
				k.viol("avc.ExtractNalusFromByteStream", listClass(got, units), fmt.Sprintf("unit sizes %v, generating list %v", lens(got), lens(units)))
			}
			if !bytes.Equal(in, stream) || !intact() {
				k.viol("avc.ExtractNalusFromByteStream", "input-modified", "input modified")
			}
		}
	}

	// ---- 5. GetNalusFromSample ----
	smp, smpIntact := embed(sample, (off+5)%8)
	{
		var got [][]byte
		var err error
		if k.guard("avc.GetNalusFromSample", func() { got, err = avc.GetNalusFromSample(smp) }) {
			if err != nil {
				k.viol("avc.GetNalusFromSample", "error", "error on a well-formed sample: "+err.Error())
			} else if !equalLists(got, units) {
				k.viol("avc.GetNalusFromSample", listClass(got, units), fmt.Sprintf("unit sizes %v, generating list %v", lens(got), lens(units)))
			}
		}
	}

	strm, strmIntact := embed(stream, (off+1)%8)
	k.checkAVC(smp, strm)
	k.checkHEVC(smp, strm)
	if !bytes.Equal(smp, sample) || !smpIntact() {
		k.viol("sample-walkers", "input-modified", "a read-only sample walker modified its input")
	}
	if !bytes.Equal(strm, stream) || !strmIntact() {
		k.viol("stream-walkers", "input-modified", "a read-only byte-stream walker modified its input")
	}
	if c.WantSample() {
		c.Sample(map[string]interface{}{"unit_sizes": lens(units), "start_code_lengths": mix, "buffer_offset": off,
			"stream_head_hex": hex.EncodeToString(stream[:minInt(len(stream), 64)]),
			"avc_types":       typesOf(units, annexb.AVCType), "hevc_types": typesOf(units, annexb.HEVCType)})
	}
	return !k.failed
}

func minInt(a, b int) int {
	if a < b {
		return a
	}
	return b
}

func typesOf(units [][]byte, f func(byte) int) []int {
	o := make([]int, len(units))
	for i, u := range units {
		o[i] = f(u[0])
	}
	return o
}

func equalSC(a, b []annexb.StartCode) bool {
	if len(a) != len(b) {
		return false
	}
	for i := range a {
		if a[i] != b[i] {
			return false
		}
	}
	return true
}

func firstDiff(a, b []byte) int {
	for i := 0; i < len(a) && i < len(b); i++ {
		if a[i] != b[i] {
			return i
		}
	}
	return minInt(len(a), len(b))
}

// ---------------------------------------------------------------------------
// codec-specific walkers

// model is what the generating list implies for one codec.
type model struct {
	types      []int
	firstVideo int // index of the first video unit, len(units) if none
}

func buildModel(units [][]byte, typ func(byte) int, isVideo func(int) bool) model {
	m := model{firstVideo: len(units)}
	for i, u := range units {
		t := typ(u[0])
		m.types = append(m.types, t)
		if isVideo(t) && m.firstVideo == len(units) {
			m.firstVideo = i
		}
	}
	return m
}

func (m model) has(t int, upto int) bool {
	for i := 0; i < upto && i < len(m.types); i++ {
		if m.types[i] == t {
			return true
		}
	}
	return false
}

func (m model) ofType(units [][]byte, t int, upto int) [][]byte {
	var o [][]byte
	for i := 0; i < upto && i < len(units); i++ {
		if m.types[i] == t {
			o = append(o, units[i])
		}
	}
	return o
}

func eqTypes(got []int, want []int) bool {
	if len(got) != len(want) {
		return false
	}
	for i := range got {
		if got[i] != want[i] {
			return false
		}
	}
	return true
}

// psClass classifies a wrong parameter-set result of a byte-stream function:
// the confirmed defect loses the final unit of the stream (and the one before
// it when the final unit is a single byte, because the start code in front of
// it is then not seen at all).
func (k *checker) psClass(m model, psTypes []int, got [][][]byte) string {
	n := len(k.units)
	for drop := 1; drop <= 2 && drop <= n; drop++ {
		upto := minInt(m.firstVideo, n-drop)
		all := true
		for i, t := range psTypes {
			if !equalLists(got[i], m.ofType(k.units, t, upto)) {
				all = false
			}
		}
		if all {
			if drop == 1 {
				return "final-unit-dropped"
			}
			if len(k.units[n-1]) == 1 {
				return "final-unit-dropped"
			}
			return "final-two-units-dropped"
		}
	}
	return "wrong-units"
}

func (k *checker) checkPS(fn string, m model, psTypes []int, got [][][]byte, byteStream bool) {
	n := len(k.units)
	okBefore, okAll := true, true
	for i, t := range psTypes {
		if !equalLists(got[i], m.ofType(k.units, t, m.firstVideo)) {
			okBefore = false
		}
		if !equalLists(got[i], m.ofType(k.units, t, n)) {
			okAll = false
		}
	}
	psAfter := false
	for _, t := range psTypes {
		if len(m.ofType(k.units, t, n)) != len(m.ofType(k.units, t, m.firstVideo)) {
			psAfter = true
		}
	}
	switch {
	case okBefore:
		if psAfter {
			k.c.Seen("reading/"+fn, "parameter sets after the first video unit are not returned")
		}
	case okAll:
		k.c.Seen("reading/"+fn, "parameter sets after the first video unit are returned")
	default:
		cls := "wrong-units"
		if byteStream {
			cls = k.psClass(m, psTypes, got)
		}
		var gl, wl [][]int
		for i, t := range psTypes {
			gl = append(gl, lens(got[i]))
			wl = append(wl, lens(m.ofType(k.units, t, m.firstVideo)))
		}
		k.viol(fn, cls, fmt.Sprintf("parameter sets of types %v: returned unit sizes %v, the list has %v before the first video unit (unit types %v)", psTypes, gl, wl, m.types))
	}
}

func (k *checker) checkAVC(smp, strm []byte) {
	c, units := k.c, k.units
	n := len(units)
	m := buildModel(units, annexb.AVCType, func(t int) bool { return t <= 5 })

	var tl []avc.NaluType
	toInts := func(l []avc.NaluType) []int {
		o := make([]int, len(l))
		for i, t := range l {
			o[i] = int(t)
		}
		return o
	}
	if k.guard("avc.FindNaluTypes", func() { tl = avc.FindNaluTypes(smp) }) {
		if !eqTypes(toInts(tl), m.types) {
			k.viol("avc.FindNaluTypes", "types", fmt.Sprintf("%v, generating list %v", toInts(tl), m.types))
		}
	}
	if k.guard("avc.FindNaluTypesUpToFirstVideoNALU", func() { tl = avc.FindNaluTypesUpToFirstVideoNALU(smp) }) {
		got := toInts(tl)
		incl := m.types[:minInt(m.firstVideo+1, n)]
		excl := m.types[:m.firstVideo]
		switch {
		case eqTypes(got, incl):
			if m.firstVideo < n {
				c.Seen("reading/avc.FindNaluTypesUpToFirstVideoNALU", "first video unit included")
			}
		case eqTypes(got, excl):
			c.Seen("reading/avc.FindNaluTypesUpToFirstVideoNALU", "first video unit excluded")
		default:
			k.viol("avc.FindNaluTypesUpToFirstVideoNALU", "types", fmt.Sprintf("%v, generating list %v (first video unit at index %d)", got, m.types, m.firstVideo))
		}
	}
	for t := 0; t < 32; t++ {
		var got bool
		if !k.guard("avc.ContainsNaluType", func() { got = avc.ContainsNaluType(smp, avc.NaluType(t)) }) {
			break
		}
		if got != m.has(t, n) {
			k.viol("avc.ContainsNaluType", fmt.Sprintf("%v-for-%v", got, !got), fmt.Sprintf("type %d: %v, generating list %v", t, got, m.types))
			break
		}
	}
	{
		var got bool
		if k.guard("avc.IsIDRSample", func() { got = avc.IsIDRSample(smp) }) && got != m.has(5, n) {
			k.viol("avc.IsIDRSample", fmt.Sprintf("%v-for-%v", got, !got), fmt.Sprintf("%v, generating list %v", got, m.types))
		}
	}
	{
		var got bool
		if k.guard("avc.HasParameterSets", func() { got = avc.HasParameterSets(smp) }) {
			before := m.has(7, m.firstVideo) && m.has(8, m.firstVideo)
			anywhere := m.has(7, n) && m.has(8, n)
			switch {
			case before && !got, !anywhere && got:
				k.viol("avc.HasParameterSets", fmt.Sprintf("%v-for-%v", got, !got), fmt.Sprintf("%v, generating list %v", got, m.types))
			case anywhere && !before:
				c.Seen("reading/avc.HasParameterSets", fmt.Sprintf("SPS+PPS only complete after the first video unit -> %v", got))
			}
		}
	}
	{
		var sps, pps, sps2, pps2 [][]byte
		ok1 := k.guard("avc.GetParameterSets", func() { sps, pps = avc.GetParameterSets(smp) })
		if ok1 {
			k.checkPS("avc.GetParameterSets", m, []int{7, 8}, [][][]byte{sps, pps}, false)
		}
		ok2 := k.guard("avc.GetParameterSetsFromByteStream", func() { sps2, pps2 = avc.GetParameterSetsFromByteStream(strm) })
		if ok2 {
			k.checkPS("avc.GetParameterSetsFromByteStream", m, []int{7, 8}, [][][]byte{sps2, pps2}, true)
		}
		// the two walkers of the same unit sequence must use one convention for what lies behind the first video unit
		if ok1 && ok2 && m.firstVideo < n && (!equalLists(sps, sps2) || !equalLists(pps, pps2)) && !k.failed {
			k.viol("avc.GetParameterSets", "disagrees-with-byte-stream-twin", fmt.Sprintf("sample walker returns unit sizes %v / %v, byte-stream walker %v / %v for the same units (types %v)", lens(sps), lens(pps), lens(sps2), lens(pps2), m.types))
		}
	}
	k.checkExtractOfType("avc.ExtractNalusOfTypeFromByteStream", m, 32, func(t int, stop bool) [][]byte {
		return avc.ExtractNalusOfTypeFromByteStream(avc.NaluType(t), strm, stop)
	}, func(t int) bool { return t <= 5 })
	{
		var got []byte
		if k.guard("avc.GetFirstAVCVideoNALUFromByteStream", func() { got = avc.GetFirstAVCVideoNALUFromByteStream(strm) }) {
			var want []byte
			if m.firstVideo < n {
				want = units[m.firstVideo]
			}
			if !bytes.Equal(got, want) || (got == nil) != (want == nil) {
				cls := "content"
				switch {
				case got == nil:
					cls = "not-found"
					if m.firstVideo == n-1 {
						cls = "not-found-when-last"
					}
				case want == nil:
					cls = "spurious"
				case len(got) != len(want):
					cls = "length"
				}
				k.viol("avc.GetFirstAVCVideoNALUFromByteStream", cls, fmt.Sprintf("returned %d bytes, first video unit is index %d (%d bytes), types %v", len(got), m.firstVideo, len(want), m.types))
			}
		}
	}
	// results handed out earlier must not change when the helpers are used on another sample
	if n > 1 && !k.failed {
		var h1, h2 []avc.NaluType
		ok := k.guard("avc.FindNaluTypes", func() { h1 = avc.FindNaluTypes(smp) }) &&
			k.guard("avc.FindNaluTypesUpToFirstVideoNALU", func() { h2 = avc.FindNaluTypesUpToFirstVideoNALU(smp) })
		if ok {
			c1, c2 := append([]avc.NaluType{}, h1...), append([]avc.NaluType{}, h2...)
			rev := make([][]byte, n)
			for i := range units {
				rev[i] = units[n-1-i]
			}
			other := annexb.BuildSample(rev)
			k.guard("avc.FindNaluTypes", func() { _ = avc.FindNaluTypes(other) })
			k.guard("avc.FindNaluTypesUpToFirstVideoNALU", func() { _ = avc.FindNaluTypesUpToFirstVideoNALU(other) })
			k.guard("avc.HasParameterSets", func() { _ = avc.HasParameterSets(other) })
			c.Count("held_type_lists_rechecked", 2)
			if !eqTypes(toInts(h1), toInts(c1)) {
				k.viol("avc.FindNaluTypes", "earlier-result-changed-by-later-call", fmt.Sprintf("the list returned for unit types %v reads %v after the helpers ran on another sample", m.types, toInts(h1)))
			}
			if !eqTypes(toInts(h2), toInts(c2)) {
				k.viol("avc.FindNaluTypesUpToFirstVideoNALU", "earlier-result-changed-by-later-call", fmt.Sprintf("the list returned as %v reads %v after the helpers ran on another sample (unit types %v)", toInts(c2), toInts(h2), m.types))
			}
		}
	}
	// recycled sample buffer: see checkHEVC
	if n > 0 && len(smp)-len(units[n-1]) >= 8 && !k.failed {
		off := len(smp) - len(units[n-1])
		oldHdr := smp[off]
		for _, nt := range []int{5, 1, 7, 6} {
			if nt == m.types[n-1] {
				continue
			}
			smp[off] = oldHdr&0xe0 | byte(nt)
			types2 := append(append([]int{}, m.types[:n-1]...), nt)
			c.Count("recycled_buffer_samples", 1)
			if k.guard("avc.FindNaluTypes", func() { tl = avc.FindNaluTypes(smp) }) && !eqTypes(toInts(tl), types2) {
				k.viol("avc.FindNaluTypes", "recycled-buffer/types", fmt.Sprintf("%v for a sample with unit types %v that arrived in the buffer of a sample with types %v", toInts(tl), types2, m.types))
			}
			wantIDR := false
			for _, t := range types2 {
				wantIDR = wantIDR || t == 5
			}
			var got bool
			if k.guard("avc.IsIDRSample", func() { got = avc.IsIDRSample(smp) }) && got != wantIDR {
				k.viol("avc.IsIDRSample", fmt.Sprintf("recycled-buffer/%v-for-%v", got, !got), fmt.Sprintf("%v for unit types %v in a recycled buffer (before: %v)", got, types2, m.types))
			}
			if k.failed {
				break
			}
		}
		smp[off] = oldHdr
	}
}

// checkExtractOfType covers ExtractNalusOfTypeFromByteStream for every type
// value and both settings of stopAtVideo.
func (k *checker) checkExtractOfType(fn string, m model, ntypes int, call func(t int, stop bool) [][]byte, isVideo func(int) bool) {
	n := len(k.units)
	for t := 0; t < ntypes; t++ {
		for _, stop := range []bool{false, true} {
			var got [][]byte
			if !k.guard(fn, func() { got = call(t, stop) }) {
				return
			}
			if !stop {
				want := m.ofType(k.units, t, n)
				if !equalLists(got, want) {
					k.viol(fn, "all/"+listClass(got, want), fmt.Sprintf("type %d stopAtVideo=false: unit sizes %v, the list has %v (types %v)", t, lens(got), lens(want), m.types))
					return
				}
				continue
			}
			if !isVideo(t) {
				want := m.ofType(k.units, t, m.firstVideo)
				if !equalLists(got, want) {
					k.viol(fn, "stopAtVideo/"+listClass(got, want), fmt.Sprintf("type %d stopAtVideo=true: unit sizes %v, the list has %v before the first video unit (types %v)", t, lens(got), lens(want), m.types))
					return
				}
				continue
			}
			// a video type together with stopAtVideo: "not scanned beyond the
			// first video NAL unit" leaves open whether that unit itself is
			// returned; both readings are accepted.
			excl := m.ofType(k.units, t, m.firstVideo)
			incl := m.ofType(k.units, t, minInt(m.firstVideo+1, n))
			switch {
			case equalLists(got, excl):
				if len(incl) != len(excl) {
					k.c.Seen("reading/"+fn, "stopAtVideo with a video type: the first video unit is not returned")
				}
			case equalLists(got, incl):
				k.c.Seen("reading/"+fn, "stopAtVideo with a video type: the first video unit is returned")
			default:
				k.viol(fn, "stopAtVideo-video-type/"+listClass(got, incl), fmt.Sprintf("type %d stopAtVideo=true: unit sizes %v (types %v)", t, lens(got), m.types))
				return
			}
		}
	}
}

func (k *checker) checkHEVC(smp, strm []byte) {
	c, units := k.c, k.units
	n := len(units)
	m := buildModel(units, annexb.HEVCType, annexb.HEVCIsVCL)
	toInts := func(l []hevc.NaluType) []int {
		o := make([]int, len(l))
		for i, t := range l {
			o[i] = int(t)
		}
		return o
	}
	var tl []hevc.NaluType
	if k.guard("hevc.FindNaluTypes", func() { tl = hevc.FindNaluTypes(smp) }) {
		if !eqTypes(toInts(tl), m.types) {
			k.viol("hevc.FindNaluTypes", "types", fmt.Sprintf("%v, generating list %v", toInts(tl), m.types))
		}
	}
	if k.guard("hevc.FindNaluTypesUpToFirstVideoNalu", func() { tl = hevc.FindNaluTypesUpToFirstVideoNalu(smp) }) {
		got := toInts(tl)
		incl := m.types[:minInt(m.firstVideo+1, n)]
		excl := m.types[:m.firstVideo]
		switch {
		case eqTypes(got, incl):
			if m.firstVideo < n {
				c.Seen("reading/hevc.FindNaluTypesUpToFirstVideoNalu", "first video unit included")
			}
		case eqTypes(got, excl):
			c.Seen("reading/hevc.FindNaluTypesUpToFirstVideoNalu", "first video unit excluded")
		default:
			k.viol("hevc.FindNaluTypesUpToFirstVideoNalu", "types", fmt.Sprintf("%v, generating list %v (first video unit at index %d)", got, m.types, m.firstVideo))
		}
	}
	for t := 0; t < 64; t++ {
		var got bool
		if !k.guard("hevc.ContainsNaluType", func() { got = hevc.ContainsNaluType(smp, hevc.NaluType(t)) }) {
			break
		}
		if got != m.has(t, n) {
			k.viol("hevc.ContainsNaluType", fmt.Sprintf("%v-for-%v", got, !got), fmt.Sprintf("type %d: %v, generating list %v", t, got, m.types))
			break
		}
	}
	{
		var got bool
		want := false
		for _, t := range m.types {
			if t >= 16 && t <= 23 {
				want = true
			}
		}
		if k.guard("hevc.IsRAPSample", func() { got = hevc.IsRAPSample(smp) }) && got != want {
			k.viol("hevc.IsRAPSample", fmt.Sprintf("%v-for-%v", got, !got), fmt.Sprintf("%v, generating list %v", got, m.types))
		}
		want = m.has(19, n) || m.has(20, n)
		if k.guard("hevc.IsIDRSample", func() { got = hevc.IsIDRSample(smp) }) && got != want {
			k.viol("hevc.IsIDRSample", fmt.Sprintf("%v-for-%v", got, !got), fmt.Sprintf("%v, generating list %v", got, m.types))
		}
	}
	{
		var got bool
		if k.guard("hevc.HasParameterSets", func() { got = hevc.HasParameterSets(smp) }) {
			before := m.has(32, m.firstVideo) && m.has(33, m.firstVideo) && m.has(34, m.firstVideo)
			anywhere := m.has(32, n) && m.has(33, n) && m.has(34, n)
			switch {
			case before && !got, !anywhere && got:
				k.viol("hevc.HasParameterSets", fmt.Sprintf("%v-for-%v", got, !got), fmt.Sprintf("%v, generating list %v", got, m.types))
			case anywhere && !before:
				c.Seen("reading/hevc.HasParameterSets", fmt.Sprintf("VPS+SPS+PPS only complete after the first video unit -> %v", got))
			}
		}
	}
	{
		var vps, sps, pps, vps2, sps2, pps2 [][]byte
		ok1 := k.guard("hevc.GetParameterSets", func() { vps, sps, pps = hevc.GetParameterSets(smp) })
		if ok1 {
			k.checkPS("hevc.GetParameterSets", m, []int{32, 33, 34}, [][][]byte{vps, sps, pps}, false)
		}
		ok2 := k.guard("hevc.GetParameterSetsFromByteStream", func() { vps2, sps2, pps2 = hevc.GetParameterSetsFromByteStream(strm) })
		if ok2 {
			k.checkPS("hevc.GetParameterSetsFromByteStream", m, []int{32, 33, 34}, [][][]byte{vps2, sps2, pps2}, true)
		}
		if ok1 && ok2 && m.firstVideo < n && (!equalLists(vps, vps2) || !equalLists(sps, sps2) || !equalLists(pps, pps2)) && !k.failed {
			k.viol("hevc.GetParameterSets", "disagrees-with-byte-stream-twin", fmt.Sprintf("sample walker returns unit sizes %v / %v / %v, byte-stream walker %v / %v / %v for the same units (types %v)", lens(vps), lens(sps), lens(pps), lens(vps2), lens(sps2), lens(pps2), m.types))
		}
	}
	k.checkExtractOfType("hevc.ExtractNalusOfTypeFromByteStream", m, 64, func(t int, stop bool) [][]byte {
		return hevc.ExtractNalusOfTypeFromByteStream(hevc.NaluType(t), strm, stop)
	}, annexb.HEVCIsVCL)
	// results handed out earlier must not change when the helpers are used on another sample
	if n > 1 && !k.failed {
		var h1, h2 []hevc.NaluType
		ok := k.guard("hevc.FindNaluTypes", func() { h1 = hevc.FindNaluTypes(smp) }) &&
			k.guard("hevc.FindNaluTypesUpToFirstVideoNalu", func() { h2 = hevc.FindNaluTypesUpToFirstVideoNalu(smp) })
		if ok {
			c1, c2 := append([]hevc.NaluType{}, h1...), append([]hevc.NaluType{}, h2...)
			rev := make([][]byte, n)
			for i := range units {
				rev[i] = units[n-1-i]
			}
			other := annexb.BuildSample(rev)
			k.guard("hevc.FindNaluTypes", func() { _ = hevc.FindNaluTypes(other) })
			k.guard("hevc.FindNaluTypesUpToFirstVideoNalu", func() { _ = hevc.FindNaluTypesUpToFirstVideoNalu(other) })
			k.guard("hevc.HasParameterSets", func() { _ = hevc.HasParameterSets(other) })
			c.Count("held_type_lists_rechecked", 2)
			if !eqTypes(toInts(h1), toInts(c1)) {
				k.viol("hevc.FindNaluTypes", "earlier-result-changed-by-later-call", fmt.Sprintf("the list returned for unit types %v reads %v after the helpers ran on another sample", m.types, toInts(h1)))
			}
			if !eqTypes(toInts(h2), toInts(c2)) {
				k.viol("hevc.FindNaluTypesUpToFirstVideoNalu", "earlier-result-changed-by-later-call", fmt.Sprintf("the list returned as %v reads %v after the helpers ran on another sample (unit types %v)", toInts(c2), toInts(h2), m.types))
			}
		}
	}
	// the caller recycles its sample buffer: the next access unit arrives at the same address with the same
	// length and the same leading bytes, only the type of its last unit differs
	if n > 0 && len(smp)-len(units[n-1]) >= 8 && !k.failed {
		off := len(smp) - len(units[n-1])
		oldHdr := smp[off]
		for _, nt := range []int{19, 1, 21, 35} {
			if nt == m.types[n-1] {
				continue
			}
			smp[off] = oldHdr&0x81 | byte(nt<<1)
			types2 := append(append([]int{}, m.types[:n-1]...), nt)
			c.Count("recycled_buffer_samples", 1)
			if k.guard("hevc.FindNaluTypes", func() { tl = hevc.FindNaluTypes(smp) }) && !eqTypes(toInts(tl), types2) {
				k.viol("hevc.FindNaluTypes", "recycled-buffer/types", fmt.Sprintf("%v for a sample with unit types %v that arrived in the buffer of a sample with types %v", toInts(tl), types2, m.types))
			}
			wantRAP, wantIDR := false, false
			for _, t := range types2 {
				wantRAP = wantRAP || t >= 16 && t <= 23
				wantIDR = wantIDR || t == 19 || t == 20
			}
			var got bool
			if k.guard("hevc.IsRAPSample", func() { got = hevc.IsRAPSample(smp) }) && got != wantRAP {
				k.viol("hevc.IsRAPSample", fmt.Sprintf("recycled-buffer/%v-for-%v", got, !got), fmt.Sprintf("%v for unit types %v in a recycled buffer (before: %v)", got, types2, m.types))
			}
			if k.guard("hevc.IsIDRSample", func() { got = hevc.IsIDRSample(smp) }) && got != wantIDR {
				k.viol("hevc.IsIDRSample", fmt.Sprintf("recycled-buffer/%v-for-%v", got, !got), fmt.Sprintf("%v for unit types %v in a recycled buffer (before: %v)", got, types2, m.types))
			}
			if k.failed {
				break
			}
		}
		smp[off] = oldHdr
	}
}
